//! C02 — `Scorer::score` (candidate selection by preliminary count, top-k trimming, ranking, chimeric loop)
//!
//!   tol   := 0 u32(lo) u32(hi)  (ppm)  |  1 u32(lo) u32(hi)  (Da)
//!   pep   := h:seq [n u32 mod…] opt(u32 nterm) opt(u32 cterm) u32(monoisotopic) decoy(0/1)
//!   peak  := u32(mass) u32(intensity)         (mass = m/z − PROTON: a ProcessedSpectrum<Peak> is built directly)
//!
//!   psmsearch [k kind…] min_ion_index bucket [p pep…]  tol(fragment) tol(precursor) opt(max_fragment_charge)
//!          min_isotope_err max_isotope_err min_precursor_charge max_precursor_charge override_precursor_charge
//!          chimera wide_window report_psms min_matched_peaks
//!          u32(precursor m/z) opt(precursor charge) opt(tol isolation window) [n peak…]
//!      ->  [f psm…] in reported order  |  panic
//!   psm   := pep_ix charge rank u32(isotope_error) matched_peaks scored_candidates u64(hyperscore)
//!            u64(delta_next) u64(delta_best) label
//!
//! kind: 0=a 1=b 2=c 3=x 4=y 5=z. The database contains exactly the given peptides in the given order
//! (`Parameters::build_from_peptides`; ascending monoisotopic mass as `Parameters::build` guarantees),
//! score type SageHyperScore, no fragment annotation.
use super::Info;
use crate::proto::{Case, Out, Rng, Tier, Toks};
use sage_core::database::{EnzymeBuilder, Parameters};
use sage_core::enzyme::Position;
use sage_core::ion_series::{IonSeries, Kind};
use sage_core::mass::{monoisotopic, Tolerance, H2O, NEUTRON, PROTON, VALID_AA};
use sage_core::peptide::Peptide;
use sage_core::scoring::{Feature, ScoreType, Scorer};
use sage_core::spectrum::{Peak, Precursor, ProcessedSpectrum};
use std::sync::Arc;

pub const OPS: &[&str] = &["psmsearch"];
pub const INFO: Info = Info {
    rule: "search: (a) small databases of 1-12 synthetic peptides (length 3..16 over VALID_AA, some modified, isobaric \
           permutations and I/L twins, targets and decoys, ascending mass); (b) large databases of 60-220 near-isobaric \
           peptides (common prefix/suffix + permuted middle + I/L twins) so that far more than 50 candidates get \
           preliminary matches and trim_hits really cuts, with many ties in the preliminary count at the boundary; \
           (c) directed: 0/1-peptide databases, the lightest peptide (index 0) as the answer, empty spectrum, empty charge \
           range, inverted isotope range, candidate counts 49/50/51/52/100/101 with report_psms 1/25/26/30 \
           (k = max(50, 2r) boundary), report_psms 0; PLANTED boundary cases: in a database of 120-200 permutations of \
           one residue multiset (min_ion_index 2, dense noise so that nearly every peptide has preliminary matches) the \
           generator computes every preliminary count itself and gives the candidate that is exactly the LAST RETAINED \
           (position K) or the FIRST DROPPED (position K+1, K = max(50, 2 report_psms)) in the derived PreScore order \
           four very intense peaks on its b1, b2, y1, y2 ions (not indexed, so no count changes): it is the best full \
           score and must be reported first / must not be reported; two thirds of them with the database thinned so \
           that the count boundary is strict (exactly K candidates with count >= c), the rest with a count tie across \
           the boundary (decided by peptide index); chimera-fragment-charge: chimera on, report_psms 2-3, precursor charge 2-4 x max_fragment_charge Some(1)/Some(2)/None, \
           database {P, Q, R} with P = every residue of Q repeated zf times so that Q's b ladder sits on P's b fragments at \
           charge zf (zf above the allowed fragment charge whenever one exists below the precursor charge), P's full ladder \
           intense, R with fewer ions than Q: after removing P's MATCHED peaks Q must still be found in round 2; \
           multi-window-trim: charge absent x isotope range x 6000 Da open \
           search on a large database (all three levels of trimming cut). Spectra are built from the ladders (b/y, sometimes other kinds) of 1-3 \
           database peptides at fragment charge 1-3: each ion kept with probability 0.3-1.0, displaced by {0, +-0.5, \
           +-0.9, +-1.1, +-2} tolerance widths, intensity from {1, 2.5, 10, 100} or uniform in [1,1000), plus 0-40 \
           noise peaks. Precursor m/z from the first ladder peptide: charge 1-4 annotated or absent, isotope offset \
           inside/outside the configured range, ppm jitter; precursor tolerance narrow (10/50 ppm, 0.3 Da) or open \
           (50/500/6000 Da); fragment tolerance ppm or Da; isotope ranges (0,0) (-1,3) (0,1) (1,1) (-1,0) (2,0); \
           charge ranges (2,4) (2,3) (1,4) (3,3) (4,2); override_precursor_charge; wide_window with/without isolation \
           window; chimera on/off; report_psms 0..5, 26, 30; min_matched_peaks {0,1,2,4,6}; max_fragment_charge \
           None/1/2/3; min_ion_index 0..2; bucket size {1,3,64,8192}. All intensities are >= 1 (hyperscores \
           positive) except in the small stream tagged negative-hyperscore (one b + one y peak of intensity 0.01, \
           min_matched_peaks 2), which exhibits the known delta_next defect. Tags are computed from the real reply. \
           non-trivial = at least one PSM is reported and at least one scored candidate is not reported (cut by \
           trimming, filtered, or outranked); distinct by request line",
    serial: false,
};

const KINDS: [Kind; 6] = [Kind::A, Kind::B, Kind::C, Kind::X, Kind::Y, Kind::Z];

#[derive(Clone)]
struct Pep {
    seq: Vec<u8>,
    mods: Vec<f32>,
    nterm: Option<f32>,
    cterm: Option<f32>,
    mono: f32,
    decoy: bool,
}

impl Pep {
    fn consistent(seq: &[u8], mods: Vec<f32>, nterm: Option<f32>, cterm: Option<f32>, decoy: bool) -> Pep {
        let mut m = H2O;
        for (i, &r) in seq.iter().enumerate() {
            m += monoisotopic(r) + mods.get(i).copied().unwrap_or(0.0);
        }
        let mono = m + nterm.unwrap_or_default() + cterm.unwrap_or_default();
        Pep { seq: seq.to_vec(), mods, nterm, cterm, mono, decoy }
    }
    fn plain(seq: &[u8], decoy: bool) -> Pep {
        Pep::consistent(seq, vec![0.0; seq.len()], None, None, decoy)
    }
    fn write(&self, o: &mut Out) {
        o.bytes(&self.seq).n(self.mods.len());
        for &m in &self.mods {
            o.f32(m);
        }
        for t in [self.nterm, self.cterm] {
            match t {
                None => {
                    o.n(0);
                }
                Some(x) => {
                    o.n(1).f32(x);
                }
            }
        }
        o.f32(self.mono).b(self.decoy);
    }
    fn read(t: &mut Toks) -> Option<Pep> {
        let seq = t.bytes()?;
        let mods = t.list(|t| t.f32())?;
        let nterm = t.opt(|t| t.f32())?;
        let cterm = t.opt(|t| t.f32())?;
        let mono = t.f32()?;
        let decoy = t.bool()?;
        Some(Pep { seq, mods, nterm, cterm, mono, decoy })
    }
    fn peptide(&self) -> Peptide {
        Peptide {
            decoy: self.decoy,
            sequence: Arc::from(self.seq.clone().into_boxed_slice()),
            modifications: self.mods.clone(),
            nterm: self.nterm,
            cterm: self.cterm,
            monoisotopic: self.mono,
            missed_cleavages: 0,
            semi_enzymatic: false,
            position: Position::Internal,
            proteins: vec![Arc::from("P1")],
        }
    }
}

#[derive(Clone, Copy)]
enum Tol {
    Ppm(f32, f32),
    Da(f32, f32),
}

impl Tol {
    fn write(&self, o: &mut Out) {
        match *self {
            Tol::Ppm(a, b) => o.n(0).f32(a).f32(b),
            Tol::Da(a, b) => o.n(1).f32(a).f32(b),
        };
    }
    fn read(t: &mut Toks) -> Option<Tolerance> {
        let k = t.usize()?;
        let a = t.f32()?;
        let b = t.f32()?;
        match k {
            0 => Some(Tolerance::Ppm(a, b)),
            1 => Some(Tolerance::Da(a, b)),
            _ => None,
        }
    }
    fn width(&self, center: f32) -> (f32, f32) {
        match *self {
            Tol::Ppm(a, b) => (center * a / 1_000_000.0, center * b / 1_000_000.0),
            Tol::Da(a, b) => (a, b),
        }
    }
}

#[derive(Clone)]
struct Req {
    kinds: Vec<usize>,
    min_ion_index: usize,
    bucket: usize,
    peps: Vec<Pep>,
    ftol: Tol,
    ptol: Tol,
    mfc: Option<u8>,
    iso: (i8, i8),
    zr: (u8, u8),
    override_charge: bool,
    chimera: bool,
    wide: bool,
    report: usize,
    min_matched: u16,
    prec_mz: f32,
    charge: Option<u8>,
    isowin: Option<Tol>,
    peaks: Vec<(f32, f32)>,
}

impl Req {
    fn line(&self) -> String {
        let mut o = Out::new();
        o.raw("psmsearch").n(self.kinds.len());
        for &k in &self.kinds {
            o.n(k);
        }
        o.n(self.min_ion_index).n(self.bucket).n(self.peps.len());
        for p in &self.peps {
            p.write(&mut o);
        }
        self.ftol.write(&mut o);
        self.ptol.write(&mut o);
        match self.mfc {
            None => {
                o.n(0);
            }
            Some(c) => {
                o.n(1).n(c);
            }
        }
        o.n(self.iso.0).n(self.iso.1).n(self.zr.0).n(self.zr.1);
        o.b(self.override_charge).b(self.chimera).b(self.wide).n(self.report).n(self.min_matched);
        o.f32(self.prec_mz);
        match self.charge {
            None => {
                o.n(0);
            }
            Some(c) => {
                o.n(1).n(c);
            }
        }
        match self.isowin {
            None => {
                o.n(0);
            }
            Some(t) => {
                o.n(1);
                t.write(&mut o);
            }
        }
        o.n(self.peaks.len());
        for &(m, i) in &self.peaks {
            o.f32(m).f32(i);
        }
        o.finish()
    }
}

// ------------------------------------------------------------------------------------------ real code

fn run_search(t: &mut Toks) -> Option<Vec<Feature>> {
    let kinds = t.list(|t| t.usize())?;
    let min_ion_index = t.usize()?;
    let bucket_size = t.usize()?;
    let peps = t.list(Pep::read)?;
    let ftol = Tol::read(t)?;
    let ptol = Tol::read(t)?;
    let mfc = t.opt(|t| t.usize())?.map(|c| c as u8);
    let iso_lo = t.i64()? as i8;
    let iso_hi = t.i64()? as i8;
    let z_lo = t.usize()? as u8;
    let z_hi = t.usize()? as u8;
    let override_precursor_charge = t.bool()?;
    let chimera = t.bool()?;
    let wide_window = t.bool()?;
    let report_psms = t.usize()?;
    let min_matched = t.usize()? as u16;
    let prec_mz = t.f32()?;
    let charge = t.opt(|t| t.usize())?.map(|c| c as u8);
    let isolation_window = t.opt(Tol::read)?;
    let peaks: Vec<Peak> = t.list(|t| {
        let mass = t.f32()?;
        let intensity = t.f32()?;
        Some(Peak { mass, intensity })
    })?;
    if !t.done() || bucket_size == 0 {
        return None;
    }
    let ion_kinds: Vec<Kind> = kinds.iter().map(|&k| KINDS.get(k).copied()).collect::<Option<Vec<_>>>()?;
    let params = Parameters {
        bucket_size,
        enzyme: EnzymeBuilder::default(),
        peptide_min_mass: 0.0,
        peptide_max_mass: 1.0e9,
        ion_kinds,
        min_ion_index,
        static_mods: Default::default(),
        variable_mods: Default::default(),
        max_variable_mods: 2,
        decoy_tag: "rev_".into(),
        generate_decoys: false,
        fasta: String::new(),
        prefilter_chunk_size: 0,
        prefilter: false,
        prefilter_low_memory: true,
    };
    let db = params.build_from_peptides(peps.iter().map(|p| p.peptide()).collect());
    let scorer = Scorer {
        db: &db,
        precursor_tol: ptol,
        fragment_tol: ftol,
        min_matched_peaks: min_matched,
        min_isotope_err: iso_lo,
        max_isotope_err: iso_hi,
        min_precursor_charge: z_lo,
        max_precursor_charge: z_hi,
        override_precursor_charge,
        max_fragment_charge: mfc,
        chimera,
        report_psms,
        wide_window,
        annotate_matches: false,
        score_type: ScoreType::SageHyperScore,
    };
    let tic = peaks.iter().map(|p| p.intensity).sum::<f32>();
    let spectrum = ProcessedSpectrum {
        level: 2,
        id: "s".into(),
        file_id: 0,
        scan_start_time: 1.0,
        ion_injection_time: 0.0,
        precursors: vec![Precursor {
            mz: prec_mz,
            intensity: None,
            charge,
            spectrum_ref: None,
            isolation_window,
            inverse_ion_mobility: None,
        }],
        peaks,
        total_ion_current: tic,
    };
    Some(scorer.score(&spectrum))
}

fn canon32(x: f32) -> u32 {
    if x.is_nan() {
        0x7FC0_0000
    } else {
        x.to_bits()
    }
}
fn canon64(x: f64) -> u64 {
    if x.is_nan() {
        0x7FF8_0000_0000_0000
    } else {
        x.to_bits()
    }
}

pub fn exec(op: &str, t: &mut Toks) -> Option<String> {
    match op {
        "psmsearch" => {
            let feats = run_search(t)?;
            let mut o = Out::new();
            o.n(feats.len());
            for f in &feats {
                o.n(f.peptide_idx.0).n(f.charge).n(f.rank).n(canon32(f.isotope_error));
                o.n(f.matched_peaks).n(f.scored_candidates);
                o.n(canon64(f.hyperscore)).n(canon64(f.delta_next)).n(canon64(f.delta_best)).n(f.label);
            }
            Some(o.finish())
        }
        _ => None,
    }
}

// ------------------------------------------------------------------------------------------ generator

const MOD_DELTAS: [f32; 4] = [15.9949, 57.0215, 79.9663, 42.0106];
const INTENSITIES: [f32; 4] = [1.0, 2.5, 10.0, 100.0];
const COMMON_AA: &[u8] = b"ACDEFGHIKLMNPQRSTVWY";

fn random_pep(rng: &mut Rng) -> Pep {
    let len = match rng.below(10) {
        0 => 3,
        1 => 4,
        _ => 5 + rng.below(12),
    };
    let seq: Vec<u8> =
        (0..len).map(|_| if rng.chance(1, 20) { *rng.pick(&VALID_AA) } else { *rng.pick(COMMON_AA) }).collect();
    let rate = *rng.pick(&[0u32, 0, 0, 15]);
    let mods: Vec<f32> =
        (0..len).map(|_| if rng.chance(rate, 100) { *rng.pick(&MOD_DELTAS) } else { 0.0 }).collect();
    let term = |rng: &mut Rng| if rng.chance(1, 10) { Some(*rng.pick(&MOD_DELTAS)) } else { None };
    let nterm = term(rng);
    let cterm = term(rng);
    Pep::consistent(&seq, mods, nterm, cterm, rng.chance(1, 3))
}

fn small_db(rng: &mut Rng, tags: &mut Vec<&'static str>) -> Vec<Pep> {
    let n = *rng.pick(&[1usize, 2, 3, 4, 6, 8, 12]);
    let mut peps: Vec<Pep> = (0..n).map(|_| random_pep(rng)).collect();
    if n > 1 && rng.chance(1, 3) {
        let mut s = peps[0].seq.clone();
        rng.shuffle(&mut s);
        peps[1] = Pep::plain(&s, rng.chance(1, 2));
        tags.push("isobaric-pair");
    }
    if n > 2 && rng.chance(1, 4) {
        // I/L twin: identical mass and fragments
        let s: Vec<u8> = peps[0].seq.iter().map(|&c| if c == b'L' { b'I' } else if c == b'I' { b'L' } else { c }).collect();
        let mut p = peps[0].clone();
        p.seq = s;
        p.decoy = !p.decoy;
        peps[2] = p;
        tags.push("il-twin");
    }
    peps.sort_by(|a, b| a.mono.total_cmp(&b.mono));
    peps
}

/// near-isobaric database: prefix + permuted middle + suffix (+ I/L twins)
fn big_db(rng: &mut Rng, n: usize) -> Vec<Pep> {
    let pre: Vec<u8> = (0..1 + rng.below(3)).map(|_| *rng.pick(b"AGSTV")).collect();
    let suf: Vec<u8> = vec![*rng.pick(b"DEN"), *rng.pick(b"KR")];
    let pool = b"ACDEFGHLMNPQSTVWY";
    let mlen = 5 + rng.below(3);
    let mut mid: Vec<u8> = Vec::new();
    while mid.len() < mlen {
        let c = *rng.pick(pool);
        if !mid.contains(&c) || rng.chance(1, 6) {
            mid.push(c);
        }
    }
    if !mid.contains(&b'L') {
        mid[0] = b'L';
    }
    let mut seen: std::collections::HashSet<Vec<u8>> = Default::default();
    let mut out = Vec::new();
    let mut guard = 0;
    while out.len() < n && guard < n * 50 {
        guard += 1;
        let mut m = mid.clone();
        rng.shuffle(&mut m);
        if rng.chance(1, 8) {
            for c in m.iter_mut() {
                if *c == b'L' {
                    *c = b'I';
                }
            }
        }
        let mut s = pre.clone();
        s.extend_from_slice(&m);
        s.extend_from_slice(&suf);
        if seen.insert(s.clone()) {
            out.push(Pep::plain(&s, rng.chance(1, 2)));
        }
    }
    out.sort_by(|a, b| a.mono.total_cmp(&b.mono));
    out
}

struct Plan {
    kinds: Vec<usize>,
    ftol: Tol,
    mfc: Option<u8>,
}

/// ladder peaks of peptide `p` (kinds of the plan + a few unconfigured ones), fragment charges 1..3
fn ladder(rng: &mut Rng, p: &Pep, plan: &Plan, keep: u32, top_charge: u8, inten: Option<f32>, peaks: &mut Vec<(f32, f32)>) {
    let pt = p.peptide();
    for (ki, kind) in KINDS.iter().enumerate() {
        let configured = plan.kinds.contains(&ki);
        if !configured && !rng.chance(1, 6) {
            continue;
        }
        for ion in IonSeries::new(&pt, *kind) {
            if !rng.chance(keep, 100) {
                continue;
            }
            let c: u8 = if rng.chance(3, 4) { 1 } else { 1 + rng.below(top_charge.max(2) as usize - 1).min(2) as u8 };
            let mz = ion.monoisotopic_mass / c as f32;
            let (wlo, whi) = plan.ftol.width(mz);
            let frac = *rng.pick(&[0.0f32, 0.0, 0.0, 0.5, -0.5, 0.9, -0.9, 1.1, -1.1, 2.0, -2.0]);
            let w = if frac >= 0.0 { whi } else { -wlo };
            let mass = mz + frac * w;
            let i = match inten {
                Some(x) => x,
                None => {
                    if rng.chance(1, 3) {
                        1.0 + (rng.unit() * 999.0) as f32
                    } else {
                        *rng.pick(&INTENSITIES)
                    }
                }
            };
            peaks.push((mass, i));
        }
    }
}

fn finish_peaks(peaks: &mut Vec<(f32, f32)>) {
    peaks.retain(|p| p.0.is_finite() && p.0 > 0.0);
    peaks.sort_by(|a, b| a.0.total_cmp(&b.0).then(a.1.total_cmp(&b.1)));
}

fn random_req(rng: &mut Rng, big: bool) -> (Req, Vec<&'static str>) {
    let mut tags: Vec<&'static str> = vec![];
    let peps = if big {
        tags.push("big-db");
        let n = *rng.pick(&[60usize, 120, 120, 150, 220]);
        big_db(rng, n)
    } else {
        tags.push("small-db");
        small_db(rng, &mut tags)
    };
    let kinds: Vec<usize> = if rng.chance(4, 5) { vec![1, 4] } else { rng.pick(&[&[1usize][..], &[4], &[2, 5], &[0, 1, 4], &[0, 1, 2, 3, 4, 5]]).to_vec() };
    let ftol = match rng.below(5) {
        0 => Tol::Ppm(-10.0, 10.0),
        1 => Tol::Ppm(-20.0, 20.0),
        2 => Tol::Ppm(-5.0, 15.0),
        3 => Tol::Da(-0.02, 0.02),
        _ => Tol::Da(-0.5, 0.5),
    };
    tags.push(match ftol {
        Tol::Ppm(..) => "ftol-ppm",
        Tol::Da(..) => "ftol-da",
    });
    let mfc = *rng.pick(&[None, None, Some(1u8), Some(2), Some(3)]);
    let plan = Plan { kinds: kinds.clone(), ftol, mfc };
    let iso = *rng.pick(&[(0i8, 0i8), (0, 0), (-1, 3), (0, 1), (1, 1), (-1, 0), (2, 0)]);
    if iso.0 != iso.1 {
        tags.push("isotope-range");
    }
    let zr = *rng.pick(&[(2u8, 4u8), (2, 4), (2, 3), (1, 4), (3, 3), (4, 2)]);
    let wide = rng.chance(1, 6);
    let override_charge = rng.chance(1, 6);
    let chimera = rng.chance(1, 3);
    let report = if big { *rng.pick(&[1usize, 2, 3, 5, 5, 26, 30]) } else { *rng.pick(&[0usize, 1, 1, 2, 3, 4, 5]) };
    let min_matched = *rng.pick(&[0u16, 1, 2, 2, 2, 4, 4, 6]);
    let z_true = if wide || override_charge || rng.chance(1, 2) { 2 + rng.below(3) as u8 } else { 1 + rng.below(4) as u8 };
    let charge = if rng.chance(2, 3) { Some(z_true) } else { None };
    tags.push(if charge.is_some() { "charge-annotated" } else { "charge-absent" });
    let open = rng.chance(1, 2);
    let ptol = if open {
        tags.push("ptol-open");
        *rng.pick(&[Tol::Da(-50.0, 50.0), Tol::Da(-500.0, 500.0), Tol::Da(-6000.0, 6000.0), Tol::Da(-150.0, 500.0)])
    } else {
        tags.push("ptol-narrow");
        *rng.pick(&[Tol::Ppm(-10.0, 10.0), Tol::Ppm(-50.0, 50.0), Tol::Da(-0.3, 0.3)])
    };
    let isowin = if rng.chance(1, 2) {
        Some(*rng.pick(&[Tol::Da(-2.4, 2.4), Tol::Da(-10.0, 10.0), Tol::Da(-0.6, 0.6), Tol::Ppm(-2000.0, 2000.0)]))
    } else {
        None
    };
    // spectrum from 1..3 ladders
    let mut peaks = vec![];
    let (tp_mono, nl) = if peps.is_empty() {
        (800.0f32, 0)
    } else {
        let nl = 1 + rng.below(3);
        let first = rng.below(peps.len());
        for l in 0..nl {
            let ix = if l == 0 { first } else { rng.below(peps.len()) };
            let keep = if l == 0 { *rng.pick(&[60u32, 90, 100]) } else { *rng.pick(&[30u32, 60, 90, 100]) };
            ladder(rng, &peps[ix], &plan, keep, z_true, None, &mut peaks);
        }
        (peps[first].mono, nl)
    };
    tags.push(match nl {
        0 => "ladders-0",
        1 => "ladders-1",
        2 => "ladders-2",
        _ => "ladders-3",
    });
    let noise = *rng.pick(&[0usize, 0, 5, 15, 40]);
    for _ in 0..noise {
        peaks.push(((rng.unit() * tp_mono as f64 * 1.1) as f32 + 50.0, 1.0 + (rng.unit() * 49.0) as f32));
    }
    finish_peaks(&mut peaks);
    let true_iso: i8 = if iso.0 < iso.1 {
        if rng.chance(1, 12) {
            iso.1 + 1
        } else {
            iso.0 + rng.below((iso.1 - iso.0 + 1) as usize) as i8
        }
    } else if rng.chance(1, 14) {
        1
    } else {
        0
    };
    let ppm_err = (rng.unit() as f32 - 0.5) * *rng.pick(&[4.0f32, 4.0, 16.0, 30.0]);
    let mut prec_mass = (tp_mono + true_iso as f32 * NEUTRON) * (1.0 + ppm_err / 1.0e6);
    if wide && rng.chance(1, 2) {
        // inside the isolation window scaled by the charge, outside the unscaled one (z >= 2), or just outside both
        let w = match isowin {
            Some(Tol::Da(_, hi)) => hi,
            Some(Tol::Ppm(_, hi)) => prec_mass * hi / 1.0e6,
            None => 2.4,
        };
        let f = *rng.pick(&[1.5f32, -1.5, 0.98 * z_true as f32, -0.98 * z_true as f32, 1.02 * z_true as f32]);
        prec_mass += f * w;
        tags.push("wide-window-edge");
    }
    let prec_mz = prec_mass / z_true as f32 + PROTON;
    if wide {
        tags.push("wide-window");
    }
    if chimera {
        tags.push("chimera");
    }
    if override_charge {
        tags.push("override-charge");
    }
    let req = Req {
        kinds,
        min_ion_index: if big { rng.below(2) } else { *rng.pick(&[0usize, 0, 1, 2, 2]) },
        bucket: *rng.pick(&[1usize, 3, 64, 8192, 8192]),
        peps,
        ftol,
        ptol,
        mfc,
        iso,
        zr,
        override_charge,
        chimera,
        wide,
        report,
        min_matched,
        prec_mz,
        charge,
        isowin,
        peaks,
    };
    (req, tags)
}

/// `n` near-isobaric peptides all sharing fragments with the spectrum: exactly `n` scored candidates
fn boundary_req(rng: &mut Rng, n: usize, report: usize, chimera: bool) -> Req {
    let peps = big_db(rng, n);
    let plan = Plan { kinds: vec![1, 4], ftol: Tol::Da(-0.02, 0.02), mfc: None };
    let mut peaks = vec![];
    let a = rng.below(peps.len());
    let b = rng.below(peps.len());
    ladder(rng, &peps[a], &plan, 100, 2, None, &mut peaks);
    ladder(rng, &peps[b], &plan, 60, 2, None, &mut peaks);
    finish_peaks(&mut peaks);
    Req {
        kinds: vec![1, 4],
        min_ion_index: 0,
        bucket: 8192,
        prec_mz: peps[a].mono / 2.0 + PROTON,
        peps,
        ftol: plan.ftol,
        ptol: Tol::Da(-5.0, 5.0),
        mfc: None,
        iso: (0, 0),
        zr: (2, 4),
        override_charge: false,
        chimera,
        wide: false,
        report,
        min_matched: 2,
        charge: Some(2),
        isowin: None,
        peaks,
    }
}

/// permutations of one multiset of distinct residues (no common prefix / suffix): b1, b2, y1, y2 differ
fn perm_db(rng: &mut Rng, n: usize) -> Vec<Pep> {
    let pool = b"AGSPVTCLNDEMHFRYW";
    let mut base: Vec<u8> = Vec::new();
    while base.len() < 8 {
        let c = *rng.pick(pool);
        if !base.contains(&c) {
            base.push(c);
        }
    }
    let mut seen: std::collections::HashSet<Vec<u8>> = Default::default();
    let mut out = Vec::new();
    while out.len() < n {
        let mut m = base.clone();
        rng.shuffle(&mut m);
        if seen.insert(m.clone()) {
            out.push(Pep::plain(&m, rng.chance(1, 2)));
        }
    }
    out.sort_by(|a, b| a.mono.total_cmp(&b.mono));
    out
}

/// the fragments `build_from_peptides` stores for one peptide
fn index_frags(p: &Pep, kinds: &[usize], min_ion_index: usize) -> Vec<f32> {
    let pt = p.peptide();
    let mut v = vec![];
    for &k in kinds {
        for (j, ion) in IonSeries::new(&pt, KINDS[k]).enumerate() {
            let keep = if k < 3 { j + 1 > min_ion_index } else { p.seq.len().saturating_sub(1) - j > min_ion_index };
            if keep {
                v.push(ion.monoisotopic_mass);
            }
        }
    }
    v
}

/// preliminary match count of one peptide by linear scan (generator-side, only used to PLACE a candidate at the
/// trimming boundary; the verdicts come from the Lean side)
fn prelim_count(frags: &[f32], peaks: &[(f32, f32)], ftol: Tol, top_charge_excl: u8) -> usize {
    let mut n = 0;
    for &(m, _) in peaks {
        for c in 1..top_charge_excl {
            let mass = m * c as f32;
            let tol = match ftol {
                Tol::Ppm(lo, hi) => Tolerance::Ppm(lo / c as f32, hi / c as f32),
                Tol::Da(lo, hi) => Tolerance::Da(lo, hi),
            };
            let (lo, hi) = tol.bounds(mass);
            n += frags.iter().filter(|&&f| f >= lo && f <= hi).count();
        }
    }
    n
}

/// a candidate planted exactly at the trimming boundary: the candidate that is `pos` places from the top in the
/// derived `PreScore` order (count, then peptide index) gets four very intense peaks on its b1, b2, y1, y2 ions —
/// not indexed with min_ion_index = 2, so no preliminary count changes — which make it the best full score.
/// `pos = K - 1`: last retained (must be reported first); `pos = K`: first dropped (must NOT be reported).
fn critical_req(rng: &mut Rng, n: usize, report: usize, offset: usize, chimera: bool, strictify: bool) -> Option<(Req, bool, usize)> {
    let mut peps = perm_db(rng, n);
    let ftol = *rng.pick(&[Tol::Da(-0.3, 0.3), Tol::Da(-0.25, 0.3), Tol::Ppm(-400.0, 400.0)]);
    let kinds = vec![1usize, 4];
    let plan = Plan { kinds: kinds.clone(), ftol, mfc: None };
    let mut peaks = vec![];
    let a = rng.below(peps.len());
    let b = rng.below(peps.len());
    ladder(rng, &peps[a], &plan, 80, 2, None, &mut peaks);
    ladder(rng, &peps[b], &plan, 50, 2, None, &mut peaks);
    let top = peps[peps.len() - 1].mono;
    for _ in 0..(120 + rng.below(120)) {
        peaks.push(((rng.unit() * top as f64) as f32 + 150.0, 1.0 + (rng.unit() * 20.0) as f32));
    }
    finish_peaks(&mut peaks);
    let k = 50usize.max(2 * report);
    let order = |peps: &Vec<Pep>, peaks: &Vec<(f32, f32)>| -> Vec<(usize, usize)> {
        let mut v: Vec<(usize, usize)> = peps
            .iter()
            .enumerate()
            .map(|(i, p)| (prelim_count(&index_frags(p, &kinds, 2), peaks, ftol, 2), i))
            .filter(|x| x.0 > 0)
            .collect();
        v.sort_by(|x, y| y.cmp(x));
        v
    };
    if strictify {
        // thin the database so that EXACTLY k candidates have a count >= c and all others a count < c
        let all = order(&peps, &peaks);
        if all.len() <= k + 1 {
            return None;
        }
        let c = all[k - 1].0;
        let g: Vec<usize> = all.iter().filter(|x| x.0 > c).map(|x| x.1).collect();
        let mut e: Vec<usize> = all.iter().filter(|x| x.0 == c).map(|x| x.1).collect();
        rng.shuffle(&mut e);
        e.truncate(k - g.len());
        let keep: std::collections::HashSet<usize> = g.iter().chain(e.iter()).copied().collect();
        let thinned: Vec<Pep> = peps
            .iter()
            .enumerate()
            .filter(|(i, p)| keep.contains(i) || prelim_count(&index_frags(p, &kinds, 2), &peaks, ftol, 2) < c)
            .map(|(_, p)| p.clone())
            .collect();
        peps = thinned;
    }
    let before = order(&peps, &peaks);
    let pos = k - 1 + offset;
    if before.len() <= k {
        return None;
    }
    let x = before[pos].1;
    let pt = peps[x].peptide();
    let bs: Vec<f32> = IonSeries::new(&pt, Kind::B).map(|i| i.monoisotopic_mass).collect();
    let ys: Vec<f32> = IonSeries::new(&pt, Kind::Y).map(|i| i.monoisotopic_mass).collect();
    peaks.push((bs[0], 1.0e5));
    peaks.push((bs[1], 1.0e7));
    peaks.push((ys[ys.len() - 1], 1.0e5));
    peaks.push((ys[ys.len() - 2], 1.0e7));
    finish_peaks(&mut peaks);
    let after = order(&peps, &peaks);
    if after.len() <= k || after[pos].1 != x {
        return None;
    }
    // strict: no tie in the count across the boundary
    let strict = after[k - 1].0 > after[k].0;
    if strictify && !strict {
        return None;
    }
    let req = Req {
        kinds,
        min_ion_index: 2,
        bucket: *rng.pick(&[16usize, 8192]),
        prec_mz: peps[x].mono / 2.0 + PROTON,
        peps,
        ftol,
        ptol: Tol::Da(-5.0, 5.0),
        mfc: None,
        iso: (0, 0),
        zr: (2, 4),
        override_charge: false,
        chimera,
        wide: false,
        report,
        min_matched: 2,
        charge: Some(2),
        isowin: None,
        peaks,
    };
    Some((req, strict, x))
}

/// chimeric removal vs. the configured fragment-charge limit: P = every residue of Q repeated `zf` times, so that
/// b_{zf*i}(P) / zf = b_i(Q): Q's b ladder sits exactly on P's b fragments at charge `zf`. P (complete charge-1 ladder,
/// intense) wins round 1; when `zf` is ABOVE the allowed fragment charge (`max_fragment_charge` below precursor
/// charge - 1) those positions were never matched for P and `remove_matched_peaks` must leave them, so that Q
/// (6-7 b ions) beats R (fewer ions) in round 2. Returns the request and whether the coinciding positions are
/// unmatched under the configured limit.
fn chimera_charge_req(rng: &mut Rng, z: u8, mfc: Option<u8>, directed: bool) -> (Req, bool) {
    // exclusive upper bound of the fragment charges the scorer uses
    let top_excl: u8 = z.min(mfc.map(|c| c + 1).unwrap_or(z)).max(2);
    // a fragment charge the scorer does NOT use but that is below the precursor charge, if there is one
    let zf: u8 = if top_excl < z { top_excl + rng.below((z - top_excl) as usize) as u8 } else { 2 };
    let unmatched = zf >= top_excl;
    let pool = b"AGSPVTLNDEMHFYW";
    let qlen = if directed { 7 } else { 5 + rng.below(3) };
    let mut qseq: Vec<u8> = Vec::new();
    while qseq.len() < qlen {
        let c = *rng.pick(pool);
        if qseq.last() != Some(&c) {
            qseq.push(c);
        }
    }
    let mut pseq: Vec<u8> = Vec::new();
    for &c in &qseq {
        for _ in 0..zf {
            pseq.push(c);
        }
    }
    let pp = Pep::plain(&pseq, false);
    let qp = Pep::plain(&qseq, rng.chance(1, 3));
    // R: unrelated, with fewer ions in the spectrum than Q
    let rp = loop {
        let r = random_pep(rng);
        if r.seq.len() >= 7 && r.mods.iter().all(|&m| m == 0.0) && r.nterm.is_none() && r.cterm.is_none() {
            break r;
        }
    };
    let ftol = if directed { Tol::Ppm(-20.0, 20.0) } else { *rng.pick(&[Tol::Ppm(-20.0, 20.0), Tol::Ppm(-10.0, 10.0), Tol::Da(-0.02, 0.02)]) };
    let ions = |p: &Pep, k: Kind| -> Vec<f32> { IonSeries::new(&p.peptide(), k).map(|i| i.monoisotopic_mass).collect() };
    let mut peaks: Vec<(f32, f32)> = vec![];
    // P: complete b and y ladder at charge 1, intense
    for k in [Kind::B, Kind::Y] {
        for m in ions(&pp, k) {
            peaks.push((m, 100.0));
        }
    }
    // Q: its b ladder (= P's b fragments at charge zf), all of it or all but one
    let qb = ions(&qp, Kind::B);
    let pb = ions(&pp, Kind::B);
    let skip = if directed { usize::MAX } else { rng.below(qb.len() + 2) };
    for (i, &m) in qb.iter().enumerate() {
        if i == skip {
            continue;
        }
        // place the peak on P's fragment position (fragment mass / zf): inside Q's window as well
        let on_p = pb[(i + 1) * zf as usize - 1] / zf as f32;
        peaks.push((if rng.chance(1, 2) { on_p } else { m }, 10.0));
    }
    // R: a few of its b / y ions, fewer than Q has
    let nr = if directed { 4 } else { 2 + rng.below(4) };
    let mut rions: Vec<f32> = ions(&rp, Kind::B).into_iter().chain(ions(&rp, Kind::Y)).collect();
    rng.shuffle(&mut rions);
    for &m in rions.iter().take(nr) {
        peaks.push((m, if directed { 10.0 } else { *rng.pick(&[5.0f32, 10.0, 20.0]) }));
    }
    if !directed {
        for _ in 0..*rng.pick(&[0usize, 0, 5, 15]) {
            peaks.push(((rng.unit() * pp.mono as f64) as f32 + 60.0, 1.0 + (rng.unit() * 4.0) as f32));
        }
    }
    finish_peaks(&mut peaks);
    let mut peps = vec![pp.clone(), qp, rp];
    peps.sort_by(|a, b| a.mono.total_cmp(&b.mono));
    let req = Req {
        kinds: vec![1, 4],
        min_ion_index: if directed { 0 } else { rng.below(2) },
        bucket: *rng.pick(&[3usize, 8192]),
        prec_mz: pp.mono / z as f32 + PROTON,
        peps,
        ftol,
        ptol: Tol::Da(-6000.0, 6000.0),
        mfc,
        iso: (0, 0),
        zr: (2, 4),
        override_charge: false,
        chimera: true,
        wide: false,
        report: if directed { 3 } else { 2 + rng.below(2) },
        min_matched: if directed { 3 } else { *rng.pick(&[2u16, 3, 4]) },
        charge: Some(z),
        isowin: None,
        peaks,
    };
    (req, unmatched)
}

/// one peptide, one b and one y peak of intensity 0.01: hyperscore < 0 (the known delta_next defect)
fn negative_req(rng: &mut Rng) -> Req {
    let p = loop {
        let p = random_pep(rng);
        if p.seq.len() >= 6 {
            break p;
        }
    };
    let pt = p.peptide();
    let b: Vec<f32> = IonSeries::new(&pt, Kind::B).map(|i| i.monoisotopic_mass).collect();
    let y: Vec<f32> = IonSeries::new(&pt, Kind::Y).map(|i| i.monoisotopic_mass).collect();
    let mut peaks = vec![(b[2 + rng.below(b.len() - 3)], 0.01f32), (y[2 + rng.below(y.len() - 3)], 0.01f32)];
    finish_peaks(&mut peaks);
    let mut others: Vec<Pep> = (0..rng.below(3)).map(|_| random_pep(rng)).collect();
    others.push(p.clone());
    others.sort_by(|a, b| a.mono.total_cmp(&b.mono));
    Req {
        kinds: vec![1, 4],
        min_ion_index: 0,
        bucket: 8192,
        prec_mz: p.mono / 2.0 + PROTON,
        peps: others,
        ftol: Tol::Ppm(-10.0, 10.0),
        ptol: Tol::Ppm(-20.0, 20.0),
        mfc: None,
        iso: (0, 0),
        zr: (2, 4),
        override_charge: false,
        chimera: rng.chance(1, 3),
        wide: false,
        report: 1 + rng.below(3),
        min_matched: 2,
        charge: Some(2),
        isowin: None,
        peaks,
    }
}

fn emit_req(emit: &mut dyn FnMut(Case), req: &Req, tags: &[&'static str]) {
    emit_req_planted(emit, req, tags, None)
}

fn emit_req_planted(emit: &mut dyn FnMut(Case), req: &Req, tags: &[&'static str], planted: Option<usize>) {
    let line = req.line();
    // classify by what the real code does with it
    let mut c = Case::new(line.clone());
    for t in tags {
        c = c.tag(t);
    }
    let reply = {
        let l = line.clone();
        std::panic::catch_unwind(move || {
            let mut t = Toks::new(&l);
            t.tok();
            run_search(&mut t)
        })
    };
    let mut nontrivial = false;
    match reply {
        Ok(Some(feats)) => {
            c = c.tag(match feats.len() {
                0 => "psms-0",
                1 => "psms-1",
                _ => "psms-2+",
            });
            if let Some(f) = feats.first() {
                let sc = f.scored_candidates as usize;
                nontrivial = sc > feats.len();
                c = c.tag_if(sc > 50, "scored>50:trim-cuts");
                c = c.tag_if(sc > 50 && sc > 2 * req.report && 2 * req.report > 50, "k=2r");
                c = c.tag_if(feats.len() == req.report, "report-full");
                c = c.tag_if(feats.iter().any(|f| f.hyperscore < 0.0), "hyperscore<0");
                c = c.tag_if(feats.iter().any(|f| f.peptide_idx.0 == 0), "reports-peptide-0");
                c = c.tag_if(feats.windows(2).any(|w| w[0].hyperscore == w[1].hyperscore), "hyperscore-tie");
                c = c.tag_if(feats.iter().any(|f| f.isotope_error != 0.0), "isotope-nonzero-reported");
                if let Some(x) = planted {
                    c = c.tag(if f.peptide_idx.0 as usize == x { "planted-reported-first" } else { "planted-not-first" });
                }
            }
        }
        Ok(None) => {
            c = c.tag("bad-request");
        }
        Err(_) => {
            c = c.tag("impl-panic");
        }
    }
    emit(c.nontrivial(nontrivial));
}

pub fn gen(rng: &mut Rng, tier: Tier, emit: &mut dyn FnMut(Case)) {
    let quick = tier == Tier::Quick;
    // ---- directed ----
    {
        // 0- and 1-peptide databases, the lightest peptide as the answer, empty spectrum
        let p = Pep::plain(b"PEPTIDEK", false);
        let q = Pep::plain(b"LGEYGFQNALIVR", true);
        let plan = Plan { kinds: vec![1, 4], ftol: Tol::Ppm(-10.0, 10.0), mfc: None };
        for (peps, tag) in [(vec![], "db-empty"), (vec![p.clone()], "db-single"), (vec![p.clone(), q.clone()], "db-two")] {
            for chimera in [false, true] {
                let mut peaks = vec![];
                ladder(rng, &p, &plan, 100, 2, Some(10.0), &mut peaks);
                finish_peaks(&mut peaks);
                let r = Req {
                    kinds: vec![1, 4],
                    min_ion_index: 2,
                    bucket: 8192,
                    peps: peps.clone(),
                    ftol: plan.ftol,
                    ptol: Tol::Ppm(-20.0, 20.0),
                    mfc: None,
                    iso: (0, 0),
                    zr: (2, 4),
                    override_charge: false,
                    chimera,
                    wide: false,
                    report: 2,
                    min_matched: 4,
                    prec_mz: p.mono / 2.0 + PROTON,
                    charge: Some(2),
                    isowin: None,
                    peaks: peaks.clone(),
                };
                emit_req(emit, &r, &["directed", tag]);
                let mut e = r.clone();
                e.peaks.clear();
                emit_req(emit, &e, &["directed", "empty-spectrum"]);
                let mut e = r.clone();
                e.charge = None;
                e.zr = (4, 2);
                emit_req(emit, &e, &["directed", "empty-charge-range"]);
                let mut e = r.clone();
                e.iso = (2, 0);
                emit_req(emit, &e, &["directed", "inverted-isotope-range"]);
                let mut e = r.clone();
                e.report = 0;
                emit_req(emit, &e, &["directed", "report-0"]);
            }
        }
        // k = max(50, 2r) boundary
        let ns: &[usize] = if quick { &[49, 50, 51, 52, 101] } else { &[1, 2, 49, 50, 51, 52, 53, 60, 100, 101, 150] };
        for &n in ns {
            for &report in &[1usize, 25, 26, 30] {
                for chimera in [false, true] {
                    if quick && chimera && report != 1 {
                        continue;
                    }
                    let r = boundary_req(rng, n, report, chimera);
                    emit_req(emit, &r, &["directed", "trim-boundary"]);
                }
            }
        }
    }
    // ---- a candidate planted exactly on the trimming boundary (last retained / first dropped) ----
    {
        let want = if quick { 40 } else { 1500 };
        let mut made = 0;
        let mut tries = 0;
        while made < want && tries < want * 20 {
            tries += 1;
            let report = *rng.pick(&[1usize, 1, 2, 5, 26, 30]);
            let offset = rng.below(2);
            let n = *rng.pick(&[120usize, 160, 200]);
            let chim = rng.chance(1, 4);
            let strictify = rng.chance(2, 3);
            if let Some((r, strict, x)) = critical_req(rng, n, report, offset, chim, strictify) {
                made += 1;
                emit_req_planted(
                    emit,
                    &r,
                    &[
                        "directed",
                        if offset == 0 { "planted-last-retained" } else { "planted-first-dropped" },
                        if strict { "boundary-strict" } else { "boundary-count-tie" },
                    ],
                    Some(x),
                );
            }
        }
    }
    // ---- every level of trimming at work: all charges x all isotopes x a large open-search candidate set ----
    for _ in 0..(if quick { 12 } else { 300 }) {
        let (mut r, mut tags) = random_req(rng, true);
        r.charge = None;
        r.zr = *rng.pick(&[(2u8, 4u8), (1, 4), (2, 3)]);
        r.ptol = Tol::Da(-6000.0, 6000.0);
        r.iso = *rng.pick(&[(-1i8, 3i8), (0, 1), (-1, 0)]);
        r.wide = false;
        r.min_matched = *rng.pick(&[1u16, 2, 4]);
        tags.retain(|t| !["charge-annotated", "ptol-narrow", "wide-window", "wide-window-edge"].contains(t));
        tags.push("directed");
        tags.push("multi-window-trim");
        emit_req(emit, &r, &tags);
    }
    // ---- chimeric removal honours max_fragment_charge: peaks on the previous PSM's unmatched higher-charge positions ----
    for z in 2..=4u8 {
        for mfc in [Some(1u8), Some(2), None] {
            let (r, unmatched) = chimera_charge_req(rng, z, mfc, true);
            emit_req(emit, &r, &["directed", "chimera-fragment-charge", if unmatched { "coincides-with-unmatched-position" } else { "coincides-with-matched-position" }]);
        }
    }
    for _ in 0..(if quick { 45 } else { 1500 }) {
        let z = 2 + rng.below(3) as u8;
        let mfc = *rng.pick(&[Some(1u8), Some(1), Some(2), None]);
        let (r, unmatched) = chimera_charge_req(rng, z, mfc, false);
        emit_req(emit, &r, &["random", "chimera-fragment-charge", if unmatched { "coincides-with-unmatched-position" } else { "coincides-with-matched-position" }]);
    }
    // ---- known defect stream ----
    {
        // minimal witness: PEPTIDEK alone, b3 and y3 at intensity 0.01
        let p = Pep::plain(b"PEPTIDEK", false);
        let pt = p.peptide();
        let b: Vec<f32> = IonSeries::new(&pt, Kind::B).map(|i| i.monoisotopic_mass).collect();
        let y: Vec<f32> = IonSeries::new(&pt, Kind::Y).map(|i| i.monoisotopic_mass).collect();
        let mut peaks = vec![(b[2], 0.01f32), (y[4], 0.01f32)];
        finish_peaks(&mut peaks);
        let r = Req {
            kinds: vec![1, 4],
            min_ion_index: 0,
            bucket: 8192,
            prec_mz: p.mono / 2.0 + PROTON,
            peps: vec![p],
            ftol: Tol::Ppm(-10.0, 10.0),
            ptol: Tol::Ppm(-20.0, 20.0),
            mfc: None,
            iso: (0, 0),
            zr: (2, 4),
            override_charge: false,
            chimera: false,
            wide: false,
            report: 1,
            min_matched: 2,
            charge: Some(2),
            isowin: None,
            peaks,
        };
        emit_req(emit, &r, &["negative-hyperscore", "directed"]);
    }
    for _ in 0..(if quick { 6 } else { 60 }) {
        let r = negative_req(rng);
        emit_req(emit, &r, &["negative-hyperscore"]);
    }
    // ---- random ----
    let (n_small, n_big) = if quick { (500, 40) } else { (40000, 2500) };
    for _ in 0..n_small {
        let (r, mut tags) = random_req(rng, false);
        tags.push("random");
        emit_req(emit, &r, &tags);
    }
    for _ in 0..n_big {
        let (r, mut tags) = random_req(rng, true);
        tags.push("random");
        emit_req(emit, &r, &tags);
    }
}
