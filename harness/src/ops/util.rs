//! helpers shared by several ops
use sage_core::database::PeptideIx;
use sage_core::scoring::Feature;

/// a Feature with neutral values (the struct has no `Default`)
pub fn blank_feature() -> Feature {
    Feature {
        peptide_idx: PeptideIx(0),
        psm_id: 0,
        peptide_len: 0,
        spec_id: String::new(),
        file_id: 0,
        rank: 1,
        label: 1,
        expmass: 0.0,
        calcmass: 0.0,
        charge: 2,
        rt: 0.0,
        aligned_rt: 0.0,
        predicted_rt: 0.0,
        delta_rt_model: 0.0,
        ims: 0.0,
        predicted_ims: 0.0,
        delta_ims_model: 0.0,
        delta_mass: 0.0,
        isotope_error: 0.0,
        average_ppm: 0.0,
        hyperscore: 0.0,
        delta_next: 0.0,
        delta_best: 0.0,
        matched_peaks: 0,
        longest_b: 0,
        longest_y: 0,
        longest_y_pct: 0.0,
        missed_cleavages: 0,
        matched_intensity_pct: 0.0,
        scored_candidates: 0,
        poisson: 0.0,
        discriminant_score: 0.0,
        posterior_error: 0.0,
        spectrum_q: 1.0,
        peptide_q: 1.0,
        protein_q: 1.0,
        ms2_intensity: 0.0,
        fragments: None,
    }
}
