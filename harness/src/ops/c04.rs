//! C04 — PSM features (`Scorer::score` → `score_candidate`, `build_features`) and `select_most_intense_peak`
//!
//!   tol   := 0 u32(lo) u32(hi)  (ppm)  |  1 u32(lo) u32(hi)  (Da)
//!   pep   := h:seq [n u32 mod…] opt(u32 nterm) opt(u32 cterm) u32(monoisotopic)
//!   peak  := u32(mass) u32(intensity)         (mass = m/z − PROTON: a ProcessedSpectrum<Peak> is built directly)
//!
//!   c04select tol u32(center) opt(u32 offset) [n peak…]   ->  0 | 1 u32(mass) u32(intensity)
//!
//!   score1 [k kind…] min_ion_index bucket [p pep…]  tol(fragment) tol(precursor) opt(max_fragment_charge)
//!          min_isotope_err max_isotope_err openms annotate min_matched_peaks
//!          u32(precursor m/z) charge(0 | 1 z | 2 z = annotated + override_precursor_charge) min_precursor_charge max_precursor_charge
//!          u32(total_ion_current) [n peak…]
//!      ->  [f feature…] sorted by (peptide index, charge, isotope error)  |  panic
//!   feature := pep_ix u32(isotope_error) peptide_len charge u32(expmass) u32(calcmass) u32(delta_mass)
//!              u32(average_ppm) u64(hyperscore) matched_peaks longest_b longest_y u32(longest_y_pct)
//!              u32(matched_intensity_pct) scored_candidates u64(poisson) u32(ms2_intensity)
//!              rank u64(delta_next) u64(delta_best) missed_cleavages
//!              opt([m (kind charge ordinal u32(intensity) u32(mz_calculated) u32(mz_experimental))…])
//!
//!   scoremany report_psms mode(bit 0 = wide_window, bit 1 = chimera) opt(tol isolation_window) <arguments of score1>  ->  as score1, but through a
//!          Scorer with the given report_psms / wide_window: only report_psms PSMs come back and trim_hits really
//!          truncates (databases of 49..300 peptides that all match inside one precursor window)
//!
//! kind: 0=a 1=b 2=c 3=x 4=y 5=z. The database contains exactly the given peptides
//! (`Parameters::build_from_peptides`), the Scorer reports every candidate (`report_psms` = 1000, no chimera,
//! no wide window; the precursor charge is annotated or, when `opt` is 0, left to the scorer's min..=max loop). NaNs are printed as the default quiet NaN.
use super::Info;
use crate::proto::{Case, Out, Rng, Tier, Toks};
use sage_core::database::{EnzymeBuilder, Parameters};
use sage_core::enzyme::Position;
use sage_core::ion_series::{IonSeries, Kind};
use sage_core::mass::{monoisotopic, Tolerance, H2O, NEUTRON, PROTON, VALID_AA};
use sage_core::peptide::Peptide;
use sage_core::scoring::{ScoreType, Scorer};
use sage_core::spectrum::{select_most_intense_peak, Peak, Precursor, ProcessedSpectrum};
use std::sync::Arc;

pub const OPS: &[&str] = &["c04select", "score1", "scoremany"];
pub const INFO: Info = Info {
    rule: "score1: a database of 1-3 synthetic peptides (length 2..24 over VALID_AA, optional residue / terminal \
           modifications, consistent mass, ascending mass), ion kinds mostly [b,y] but also single-sided, c/z, a/x, \
           several kinds per terminus and all six; min_ion_index 0..3; fragment tolerance ppm or Da (symmetric and \
           asymmetric); precursor charge 1..4 (annotated in 80% of the cases; otherwise None and the scorer assumes each charge of (2,4), (1,3), (2,2) or the empty range (3,2); a quarter of the annotated cases set override_precursor_charge so the annotated charge differs from the searched ones), max_fragment_charge None/1/2/3; isotope error ranges (0,0), (-1,3), \
           (0,1), (1,1), (-1,0); precursor tolerance wide (all peptides and isotopes are candidates) or narrow \
           (the target and its isotope only); both score types; annotate on/off. The spectrum is synthesised from \
           one peptide's own ladder (computed with IonSeries for ALL six kinds so unconfigured kinds act as decoys): \
           per terminus a matched-index PATTERN (all, none, prefix including index 0, suffix, single index 0, \
           alternating, two blocks with the longer first / last, random subset), each chosen ion at a random charge \
           1..3 or at all charges, the peak displaced by a fraction of the tolerance in {0, +-0.5, +-0.9, +-0.999, \
           +-1.001, +-1.1, +-2} or by +-1..3 ulp around the exact window edge; 25% of the windows get 2-3 peaks \
           (equal intensities = ties, or distinct); intensities from {0, 1, 2.5, 10, 100, random}; random noise \
           peaks; directed: searched-vs-annotated charge (override with ranges containing / not containing the annotation, un-annotated 1..4, wide precursor tolerance so every searched charge reports its own PSM), empty spectrum, a dense spectrum (peak every ~0.37 Da), the complete PEPTIDEK ladder \
           (the repaired index-0 finding), TIC = sum / arbitrary / 0. A separate stream tagged neg-intensity feeds \
           negative and NaN intensities (outside the property: compared with the model only). \
           scoremany: the same through a Scorer with report_psms 1/5/40 on a database of 49..130 (quick) / 9..300 (thorough)            peptides that share a 4-residue prefix or suffix, all inside one wide precursor window (Da or ppm; annotated,            un-annotated 2..4, override 2..3 and wide_window variants; isotope ranges), the spectrum holding the shared            fragments, one full ladder and fragments of three other peptides: more than 50 / more than 2*report_psms            candidates with a match per sub-search, so trim_hits truncates and scored_candidates must still count all.            scoremany with chimera (mode bit 1): spectra mixing the ladders of 2-3 of the 2-4 database peptides at distinct (or \
           equal) intensity levels, shared peaks of isobaric permutations, exact duplicate peaks, noise, report_psms 1..4, \
           TIC = sum or arbitrary: PSM i is checked against the spectrum left after removing the matched peaks of PSMs < i. \
           c04select: sorted peak lists of 0..14 peaks on a coarse mass grid (many ties in mass and intensity), \
           window centres on / between grid points, ppm and Da tolerances incl. empty and inverted windows, optional \
           offset; exhaustive small scope in the thorough tier (all intensity assignments over {0,1,2} for <= 5 \
           peaks x all windows). non-trivial = scoremany: more than 50 peptides; score1: the spectrum contains at least one ladder peak placed \
           inside the tolerance and the pattern is not `all at every charge`; c04select: at least one peak inside \
           and one outside the window; distinct by request line",
    serial: false,
};

const KINDS: [Kind; 6] = [Kind::A, Kind::B, Kind::C, Kind::X, Kind::Y, Kind::Z];

fn kind_ix(k: Kind) -> usize {
    match k {
        Kind::A => 0,
        Kind::B => 1,
        Kind::C => 2,
        Kind::X => 3,
        Kind::Y => 4,
        Kind::Z => 5,
    }
}

fn canon32(x: f32) -> u32 {
    if x.is_nan() {
        0x7FC0_0000
    } else {
        x.to_bits()
    }
}
fn canon64(x: f64) -> u64 {
    if x.is_nan() {
        0x7FF8_0000_0000_0000
    } else {
        x.to_bits()
    }
}

#[derive(Clone)]
struct Pep {
    seq: Vec<u8>,
    mods: Vec<f32>,
    nterm: Option<f32>,
    cterm: Option<f32>,
    mono: f32,
}

impl Pep {
    fn consistent(seq: &[u8], mods: Vec<f32>, nterm: Option<f32>, cterm: Option<f32>) -> Pep {
        let mut m = H2O;
        for (i, &r) in seq.iter().enumerate() {
            m += monoisotopic(r) + mods.get(i).copied().unwrap_or(0.0);
        }
        let mono = m + nterm.unwrap_or_default() + cterm.unwrap_or_default();
        Pep { seq: seq.to_vec(), mods, nterm, cterm, mono }
    }
    fn plain(seq: &[u8]) -> Pep {
        Pep::consistent(seq, vec![0.0; seq.len()], None, None)
    }
    fn write(&self, o: &mut Out) {
        o.bytes(&self.seq).n(self.mods.len());
        for &m in &self.mods {
            o.f32(m);
        }
        for t in [self.nterm, self.cterm] {
            match t {
                None => {
                    o.n(0);
                }
                Some(x) => {
                    o.n(1).f32(x);
                }
            }
        }
        o.f32(self.mono);
    }
    fn read(t: &mut Toks) -> Option<Pep> {
        let seq = t.bytes()?;
        let mods = t.list(|t| t.f32())?;
        let nterm = t.opt(|t| t.f32())?;
        let cterm = t.opt(|t| t.f32())?;
        let mono = t.f32()?;
        Some(Pep { seq, mods, nterm, cterm, mono })
    }
    fn peptide(&self) -> Peptide {
        Peptide {
            decoy: false,
            sequence: Arc::from(self.seq.clone().into_boxed_slice()),
            modifications: self.mods.clone(),
            nterm: self.nterm,
            cterm: self.cterm,
            monoisotopic: self.mono,
            // number of K/R before the last residue (the driver recomputes it from the sequence)
            missed_cleavages: self.seq[..self.seq.len().saturating_sub(1)].iter().filter(|&&b| b == b'K' || b == b'R').count().min(255) as u8,
            semi_enzymatic: false,
            position: Position::Internal,
            proteins: vec![Arc::from("P1")],
        }
    }
}

#[derive(Clone, Copy)]
enum Tol {
    Ppm(f32, f32),
    Da(f32, f32),
}

impl Tol {
    fn write(&self, o: &mut Out) {
        match *self {
            Tol::Ppm(a, b) => o.n(0).f32(a).f32(b),
            Tol::Da(a, b) => o.n(1).f32(a).f32(b),
        };
    }
    fn read(t: &mut Toks) -> Option<Tolerance> {
        let k = t.usize()?;
        let a = t.f32()?;
        let b = t.f32()?;
        match k {
            0 => Some(Tolerance::Ppm(a, b)),
            1 => Some(Tolerance::Da(a, b)),
            _ => None,
        }
    }
    fn sage(&self) -> Tolerance {
        match *self {
            Tol::Ppm(a, b) => Tolerance::Ppm(a, b),
            Tol::Da(a, b) => Tolerance::Da(a, b),
        }
    }
}

struct Req {
    kinds: Vec<usize>,
    min_ion_index: usize,
    bucket: usize,
    peps: Vec<Pep>,
    ftol: Tol,
    ptol: Tol,
    mfc: Option<u8>,
    iso: (i8, i8),
    openms: bool,
    annotate: bool,
    min_matched: u16,
    prec_mz: f32,
    z: u8,
    /// false: `Precursor::charge = None`, the scorer tries `pc_range.0..=pc_range.1`
    annotated: bool,
    /// `override_precursor_charge`: the annotation is ignored, `pc_range` is searched
    override_z: bool,
    pc_range: (u8, u8),
    tic: f32,
    peaks: Vec<(f32, f32)>, // (mass, intensity)
}

impl Req {
    fn line(&self) -> String {
        let mut o = Out::new();
        o.raw("score1").n(self.kinds.len());
        for &k in &self.kinds {
            o.n(k);
        }
        o.n(self.min_ion_index).n(self.bucket).n(self.peps.len());
        for p in &self.peps {
            p.write(&mut o);
        }
        self.ftol.write(&mut o);
        self.ptol.write(&mut o);
        match self.mfc {
            None => {
                o.n(0);
            }
            Some(c) => {
                o.n(1).n(c);
            }
        }
        o.n(self.iso.0).n(self.iso.1).b(self.openms).b(self.annotate).n(self.min_matched);
        o.f32(self.prec_mz);
        if self.annotated {
            o.n(if self.override_z { 2 } else { 1 }).n(self.z);
        } else {
            o.n(0);
        }
        o.n(self.pc_range.0).n(self.pc_range.1).f32(self.tic).n(self.peaks.len());
        for &(m, i) in &self.peaks {
            o.f32(m).f32(i);
        }
        o.finish()
    }
}

fn next_up(x: f32, steps: i32) -> f32 {
    // move `steps` representable values (on the monotone integer line of finite positive floats)
    if !x.is_finite() || x <= 0.0 {
        return x;
    }
    let b = x.to_bits() as i64 + steps as i64;
    f32::from_bits(b.max(1) as u32)
}

const MOD_DELTAS: [f32; 6] = [15.9949, 57.0215, 79.9663, -17.0265, 229.1629, 42.0106];
const INTENSITIES: [f32; 5] = [0.0, 1.0, 2.5, 10.0, 100.0];

fn random_pep(rng: &mut Rng) -> Pep {
    let len = match rng.below(12) {
        0 => 2,
        1 => 3,
        2 => 16 + rng.below(9),
        _ => 4 + rng.below(11),
    };
    let seq: Vec<u8> = (0..len).map(|_| *rng.pick(&VALID_AA)).collect();
    let rate = *rng.pick(&[0u32, 0, 10, 40]);
    let mods: Vec<f32> =
        (0..len).map(|_| if rng.chance(rate, 100) { *rng.pick(&MOD_DELTAS) } else { 0.0 }).collect();
    let term = |rng: &mut Rng| if rng.chance(1, 6) { Some(*rng.pick(&MOD_DELTAS)) } else { None };
    let nterm = term(rng);
    let cterm = term(rng);
    Pep::consistent(&seq, mods, nterm, cterm)
}

/// matched-index pattern over `m` ion indices
fn pattern(rng: &mut Rng, m: usize) -> (Vec<bool>, &'static str) {
    if m == 0 {
        return (vec![], "pat-empty-series");
    }
    match rng.below(10) {
        0 => (vec![true; m], "pat-all"),
        1 => (vec![false; m], "pat-none"),
        2 => {
            let k = 1 + rng.below(m);
            ((0..m).map(|i| i < k).collect(), "pat-prefix-with-index0")
        }
        3 => {
            let k = 1 + rng.below(m);
            ((0..m).map(|i| i >= m - k).collect(), "pat-suffix")
        }
        4 => ((0..m).map(|i| i == 0).collect(), "pat-only-index0")
        ,
        5 => {
            let ph = rng.below(2);
            ((0..m).map(|i| i % 2 == ph).collect(), "pat-alternating")
        }
        6 | 7 => {
            // two blocks separated by a gap; lengths random, so the longer is first or last
            let a = 1 + rng.below(m.max(2) / 2);
            let gap = 1 + rng.below(2);
            let b = 1 + rng.below(m.max(2) / 2);
            let start = rng.below(2);
            (
                (0..m).map(|i| (i >= start && i < start + a) || (i >= start + a + gap && i < start + a + gap + b)).collect(),
                "pat-two-blocks",
            )
        }
        _ => {
            let rate = *rng.pick(&[20u32, 50, 80]);
            ((0..m).map(|_| rng.chance(rate, 100)).collect(), "pat-random")
        }
    }
}

const KIND_SETS: [&[usize]; 12] = [
    &[1, 4],
    &[1, 4],
    &[1, 4],
    &[4, 1],
    &[1],
    &[4],
    &[2, 5],
    &[0, 3],
    &[0, 1, 4],
    &[1, 3, 4, 5],
    &[0, 1, 2, 3, 4, 5],
    &[1, 1, 4],
];

struct Built {
    req: Req,
    tags: Vec<&'static str>,
    nontrivial: bool,
}

fn tol_width(t: Tol, center: f32) -> (f32, f32) {
    match t {
        Tol::Ppm(a, b) => (center * a / 1_000_000.0, center * b / 1_000_000.0),
        Tol::Da(a, b) => (a, b),
    }
}

fn random_case(rng: &mut Rng, negative: bool) -> Built {
    let mut tags: Vec<&'static str> = vec![];
    let npep = *rng.pick(&[1usize, 1, 2, 3]);
    let mut peps: Vec<Pep> = (0..npep).map(|_| random_pep(rng)).collect();
    if npep > 1 && rng.chance(1, 4) {
        // an isobaric permutation of the first peptide (same mass region, shared fragments)
        let mut s = peps[0].seq.clone();
        rng.shuffle(&mut s);
        peps[1] = Pep::plain(&s);
        tags.push("isobaric-pair");
    }
    peps.sort_by(|a, b| a.mono.total_cmp(&b.mono));
    let target = rng.below(peps.len());
    let kinds: Vec<usize> = rng.pick(&KIND_SETS).to_vec();
    let n_side = kinds.iter().filter(|&&k| k < 3).count();
    let c_side = kinds.len() - n_side;
    if n_side > 1 || c_side > 1 {
        tags.push("multi-kind-per-terminus");
    }
    if n_side == 0 || c_side == 0 {
        tags.push("one-sided");
    }
    let min_ion_index = *rng.pick(&[0usize, 0, 0, 1, 2, 2, 3]);
    let bucket = *rng.pick(&[1usize, 3, 8192]);
    let ftol = match rng.below(6) {
        0 => Tol::Ppm(-10.0, 10.0),
        1 => Tol::Ppm(-20.0, 20.0),
        2 => Tol::Ppm(-5.0, 15.0),
        3 => Tol::Da(-0.02, 0.02),
        4 => Tol::Da(-0.5, 0.5),
        _ => Tol::Da(-0.01, 0.03),
    };
    tags.push(match ftol {
        Tol::Ppm(..) => "ftol-ppm",
        Tol::Da(..) => "ftol-da",
    });
    let z = 1 + rng.below(4) as u8;
    let mfc = *rng.pick(&[None, None, Some(1u8), Some(2), Some(3)]);
    let iso = *rng.pick(&[(0i8, 0i8), (0, 0), (-1, 3), (0, 1), (1, 1), (-1, 0)]);
    let true_iso: i8 = if iso.0 != iso.1 { iso.0 + rng.below((iso.1 - iso.0 + 1) as usize) as i8 } else { 0 };
    let narrow = rng.chance(1, 3);
    let ptol = if narrow {
        tags.push("ptol-narrow");
        if rng.chance(1, 2) {
            Tol::Ppm(-50.0, 50.0)
        } else {
            Tol::Da(-0.3, 0.3)
        }
    } else {
        tags.push("ptol-wide");
        Tol::Da(-6000.0, 6000.0)
    };
    if iso.0 != iso.1 {
        tags.push("isotope-range");
    }
    let openms = rng.chance(1, 5);
    let annotate = rng.chance(1, 2);
    let min_matched = *rng.pick(&[0u16, 0, 0, 0, 0, 0, 0, 3]);
    let tp = &peps[target];
    let ppm_err = (rng.unit() as f32 - 0.5) * 10.0;
    let prec_mass = (tp.mono + true_iso as f32 * NEUTRON) * (1.0 + ppm_err / 1.0e6);
    let prec_mz = prec_mass / z as f32 + PROTON;

    // ---- spectrum ----
    let pt = tp.peptide();
    let mut peaks: Vec<(f32, f32)> = vec![];
    let mut inside_any = false;
    let mut all_everywhere = true;
    let every_charge = rng.chance(1, 4);
    // the scorer's excluded upper bound of fragment charges
    let top_charge: u8 = z.min(mfc.map(|c| c + 1).unwrap_or(z)).max(2);
    let mut pat_tags: Vec<&'static str> = vec![];
    for (ki, kind) in KINDS.iter().enumerate() {
        let configured = kinds.contains(&ki);
        // unconfigured kinds: sparse decoy peaks
        let ions: Vec<f32> = IonSeries::new(&pt, *kind).map(|i| i.monoisotopic_mass).collect();
        let (pat, ptag) = if configured {
            pattern(rng, ions.len())
        } else {
            ((0..ions.len()).map(|_| rng.chance(1, 6)).collect(), "")
        };
        if configured {
            pat_tags.push(ptag);
        }
        for (j, &ion) in ions.iter().enumerate() {
            if !pat[j] {
                if configured {
                    all_everywhere = false;
                }
                continue;
            }
            // mostly charges the scorer will actually look at (1..max_fragment_charge), sometimes any of 1..3
            let charges: Vec<u8> = if every_charge {
                vec![1, 2, 3]
            } else if rng.chance(4, 5) {
                vec![1 + rng.below((top_charge - 1) as usize) as u8]
            } else {
                vec![1 + rng.below(3) as u8]
            };
            if !every_charge && configured {
                all_everywhere = false;
            }
            for c in charges {
                let mz = ion / c as f32;
                let (wlo, whi) = tol_width(ftol, mz);
                let frac = *rng.pick(&[0.0f32, 0.0, 0.5, -0.5, 0.9, -0.9, 0.999, -0.999, 1.001, -1.001, 1.1, -1.1, 2.0, -2.0]);
                let w = if frac >= 0.0 { whi } else { -wlo };
                let mut mass = mz + frac * w;
                if rng.chance(1, 8) {
                    // exact window edge +- a few ulp
                    let edge = if rng.chance(1, 2) { mz + whi } else { mz + wlo };
                    mass = next_up(edge, rng.range(-3, 3) as i32);
                    if !tags.contains(&"edge-ulp") {
                        tags.push("edge-ulp");
                    }
                }
                let inten = if rng.chance(1, 3) { (rng.unit() * 1000.0) as f32 } else { *rng.pick(&INTENSITIES) };
                if configured && frac.abs() < 1.0 {
                    inside_any = true;
                }
                peaks.push((mass, inten));
                if rng.chance(1, 4) {
                    // more peaks in the same window: ties or distinct intensities
                    let extra = 1 + rng.below(2);
                    for _ in 0..extra {
                        let f2 = (rng.unit() as f32 * 1.6 - 0.8) * if rng.chance(1, 2) { whi } else { -wlo };
                        let i2 = if rng.chance(1, 2) { inten } else { *rng.pick(&INTENSITIES) };
                        peaks.push((mz + f2, i2));
                    }
                    if !tags.contains(&"multi-peak-window") {
                        tags.push("multi-peak-window");
                    }
                }
            }
        }
    }
    // noise
    let noise = *rng.pick(&[0usize, 0, 3, 10, 40]);
    for _ in 0..noise {
        peaks.push(((rng.unit() * tp.mono as f64 * 1.1) as f32 + 30.0, (rng.unit() * 50.0) as f32));
    }
    if negative {
        let k = 1 + rng.below(3);
        for _ in 0..k {
            if peaks.is_empty() {
                break;
            }
            let i = rng.below(peaks.len());
            peaks[i].1 = match rng.below(4) {
                0 => f32::NAN,
                1 => -0.0,
                _ => -(rng.unit() as f32) * 10.0 - 0.5,
            };
        }
        tags.push("neg-intensity");
    }
    peaks.retain(|p| p.0.is_finite() && p.0 > 0.0);
    peaks.sort_by(|a, b| a.0.total_cmp(&b.0));
    let tic = match rng.below(8) {
        0 => {
            tags.push("tic-zero");
            0.0
        }
        1 => {
            tags.push("tic-arbitrary");
            (rng.unit() * 5000.0) as f32 + 1.0
        }
        _ => peaks.iter().map(|p| p.1).sum::<f32>(),
    };
    for t in pat_tags {
        if !t.is_empty() && !tags.contains(&t) {
            tags.push(t);
        }
    }
    if openms {
        tags.push("openms");
    }
    if annotate {
        tags.push("annotate");
    }
    let annotated = !rng.chance(1, 5);
    let pc_range = *rng.pick(&[(2u8, 4u8), (1, 3), (2, 2), (3, 2)]);
    if !annotated {
        tags.push("unannotated-charge");
    }
    // annotated charge, but override_precursor_charge: the searched charges are pc_range (the annotation may or
    // may not be among them); every searched charge that yields a hit is reported with ITS OWN expmass
    let override_z = annotated && rng.chance(1, 4);
    if override_z {
        tags.push("override-charge");
    }
    let req = Req {
        annotated,
        override_z,
        pc_range,
        kinds,
        min_ion_index,
        bucket,
        peps,
        ftol,
        ptol,
        mfc,
        iso,
        openms,
        annotate,
        min_matched,
        prec_mz,
        z,
        tic,
        peaks,
    };
    Built { req, tags, nontrivial: inside_any && !all_everywhere && !negative }
}

/// the complete ladder of one peptide at charge 1, intensity 1 (the repaired index-0 case and friends)
fn full_ladder_case(seq: &[u8], kinds: &[usize], keep: &dyn Fn(usize, usize) -> bool, annotate: bool) -> Req {
    let p = Pep::plain(seq);
    let pt = p.peptide();
    let mut peaks = vec![];
    for &k in kinds {
        for (j, ion) in IonSeries::new(&pt, KINDS[k]).enumerate() {
            if keep(k, j) {
                peaks.push((ion.monoisotopic_mass, 1.0 + (j as f32)));
            }
        }
    }
    peaks.sort_by(|a: &(f32, f32), b| a.0.total_cmp(&b.0));
    let tic = peaks.iter().map(|p| p.1).sum::<f32>();
    Req {
        kinds: kinds.to_vec(),
        min_ion_index: 0,
        bucket: 8192,
        prec_mz: p.mono / 2.0 + PROTON,
        peps: vec![p],
        ftol: Tol::Ppm(-10.0, 10.0),
        ptol: Tol::Da(-1.0, 1.0),
        mfc: None,
        iso: (0, 0),
        openms: false,
        annotate,
        min_matched: 0,
        z: 2,
        annotated: true,
        override_z: false,
        pc_range: (2, 4),
        tic,
        peaks,
    }
}

fn emit_req(emit: &mut dyn FnMut(Case), req: &Req, tags: &[&'static str], nontrivial: bool) {
    let mut c = Case::new(req.line()).tag("score1").nontrivial(nontrivial);
    for t in tags {
        c = c.tag(t);
    }
    emit(c);
}

fn select_line(tol: Tol, center: f32, off: Option<f32>, peaks: &[(f32, f32)]) -> String {
    let mut o = Out::new();
    o.raw("c04select");
    tol.write(&mut o);
    o.f32(center);
    match off {
        None => {
            o.n(0);
        }
        Some(x) => {
            o.n(1).f32(x);
        }
    }
    o.n(peaks.len());
    for &(m, i) in peaks {
        o.f32(m).f32(i);
    }
    o.finish()
}

fn gen_select(rng: &mut Rng, tier: Tier, emit: &mut dyn FnMut(Case)) {
    let grid = |k: usize| 100.0f32 + k as f32 * 0.25;
    let nt = |tol: Tol, center: f32, off: Option<f32>, peaks: &[(f32, f32)]| -> bool {
        let (lo, hi) = tol.sage().bounds(center);
        let (lo, hi) = (lo + off.unwrap_or_default(), hi + off.unwrap_or_default());
        let inside = peaks.iter().filter(|p| p.0 >= lo && p.0 <= hi).count();
        inside >= 1 && inside < peaks.len()
    };
    // exhaustive small scope
    let maxn = if tier == Tier::Quick { 3 } else { 5 };
    for n in 0..=maxn {
        let combos = 3usize.pow(n as u32);
        for code in 0..combos {
            let mut c = code;
            let peaks: Vec<(f32, f32)> = (0..n)
                .map(|k| {
                    let i = (c % 3) as f32;
                    c /= 3;
                    (grid(k), i)
                })
                .collect();
            for lo_k in 0..=n {
                for hi_k in lo_k..=n {
                    // window [grid(lo_k) - 0.1, grid(hi_k) - 0.15]: covers peaks lo_k..hi_k-1 (empty when equal)
                    let a = grid(lo_k) - 0.1;
                    let b = grid(hi_k) - 0.15;
                    let center = (a + b) / 2.0;
                    let tol = Tol::Da(a - center, b - center);
                    emit(
                        Case::new(select_line(tol, center, None, &peaks))
                            .tag("c04select")
                            .tag("select-exhaustive")
                            .nontrivial(nt(tol, center, None, &peaks)),
                    );
                }
            }
        }
    }
    let n = if tier == Tier::Quick { 2000 } else { 100000 };
    for it in 0..n {
        let negative = it % 10 == 9;
        let np = rng.below(15);
        let mut peaks: Vec<(f32, f32)> = (0..np)
            .map(|_| {
                let m = grid(rng.below(12)) + if rng.chance(1, 4) { (rng.unit() as f32 - 0.5) * 0.01 } else { 0.0 };
                let i = if rng.chance(1, 4) { (rng.unit() * 20.0) as f32 } else { *rng.pick(&INTENSITIES) };
                (m, i)
            })
            .collect();
        if negative && !peaks.is_empty() {
            for _ in 0..1 + rng.below(3) {
                let i = rng.below(peaks.len());
                peaks[i].1 = if rng.chance(1, 4) { f32::NAN } else { -(rng.unit() as f32) * 5.0 - 0.25 };
            }
        }
        peaks.sort_by(|a, b| a.0.total_cmp(&b.0));
        let center = grid(rng.below(12)) + *rng.pick(&[0.0f32, 0.0, 0.125, -0.05, 0.3]);
        let tol = match rng.below(6) {
            0 => Tol::Da(-0.25, 0.25),
            1 => Tol::Da(-0.5, 0.0),
            2 => Tol::Da(0.0, 0.0),
            3 => Tol::Da(0.3, -0.3),
            4 => Tol::Ppm(-2500.0, 2500.0),
            _ => Tol::Ppm(-20.0, 20.0),
        };
        let off = if rng.chance(1, 4) { Some(*rng.pick(&[0.25f32, -0.25, PROTON * 1.0e-5])) } else { None };
        let mut c = Case::new(select_line(tol, center, off, &peaks))
            .tag("c04select")
            .tag("select-random")
            .tag_if(negative, "neg-intensity")
            .tag_if(off.is_some(), "select-offset")
            .tag_if(np == 0, "select-empty");
        c = c.nontrivial(!negative && nt(tol, center, off, &peaks));
        emit(c);
    }
}


/// many candidates inside one precursor window: every peptide shares a 4-residue prefix (b ions) or suffix (y ions)
/// with all others, the spectrum holds the shared fragments, one peptide's full ladder and fragments of a few others
fn many_case(rng: &mut Rng, n_pep: usize, rp: usize, variant: usize) -> (String, Vec<&'static str>) {
    let mut tags: Vec<&'static str> = vec!["scoremany"];
    let share_n = rng.chance(1, 2);
    let shared: &[u8] = if share_n { b"LGEY" } else { b"FQNK" };
    let mut peps: Vec<Pep> = (0..n_pep)
        .map(|_| {
            let tail: Vec<u8> = (0..3 + rng.below(6)).map(|_| *rng.pick(&VALID_AA)).collect();
            let seq: Vec<u8> = if share_n { [shared, &tail[..]].concat() } else { [&tail[..], shared].concat() };
            Pep::plain(&seq)
        })
        .collect();
    peps.sort_by(|a, b| a.mono.total_cmp(&b.mono));
    let target = rng.below(peps.len());
    let kinds: Vec<usize> = rng.pick(&[&[1usize, 4][..], &[1, 4], &[4, 1], &[0, 1, 4]]).to_vec();
    let min_ion_index = *rng.pick(&[0usize, 2, 2]);
    let ftol = *rng.pick(&[Tol::Ppm(-10.0, 10.0), Tol::Da(-0.02, 0.02)]);
    // variant: 0 annotated charge, 1 un-annotated (2..=4), 2 annotated + override (2..=3), 3 wide_window (2..=3)
    let (annotated, override_z, pc_range, wide) = match variant % 4 {
        0 => (true, false, (2u8, 4u8), false),
        1 => {
            tags.push("unannotated-charge");
            (false, false, (2, 4), false)
        }
        2 => {
            tags.push("override-charge");
            (true, true, (2, 3), false)
        }
        _ => {
            tags.push("wide-window");
            (rng.chance(1, 2), false, (2, 3), true)
        }
    };
    let iso = *rng.pick(&[(0i8, 0i8), (0, 0), (-1, 3), (0, 1), (1, 1)]);
    if iso.0 != iso.1 {
        tags.push("isotope-range");
    }
    let z = 2 + rng.below(2) as u8;
    let tp = peps[target].clone();
    let prec_mz = tp.mono / z as f32 + PROTON;
    // everything inside the precursor window of every searched charge / isotope
    let ptol = if rng.chance(1, 2) { Tol::Da(-4000.0, 4000.0) } else { Tol::Ppm(-900000.0, 3000000.0) };
    let iw = if wide { Some(Tol::Da(-1500.0, 1500.0)) } else { None };
    let mut peaks: Vec<(f32, f32)> = vec![];
    let add_ladder = |peaks: &mut Vec<(f32, f32)>, p: &Pep, rng: &mut Rng, rate: u32| {
        let pt = p.peptide();
        for k in [1usize, 4] {
            for ion in IonSeries::new(&pt, KINDS[k]) {
                if rng.chance(rate, 100) {
                    peaks.push((ion.monoisotopic_mass, 1.0 + (rng.below(40) as f32) * 0.5));
                }
            }
        }
    };
    // the shared fragments: b1..b4 of the prefix / y1..y4 of the suffix (all peptides have them)
    {
        let pt = tp.peptide();
        let k = if share_n { 1 } else { 4 };
        let ions: Vec<f32> = IonSeries::new(&pt, KINDS[k]).map(|i| i.monoisotopic_mass).collect();
        let n = ions.len();
        for j in 0..4usize.min(n) {
            // y ions are enumerated from the longest: the suffix ions are the LAST four
            let ion = if share_n { ions[j] } else { ions[n - 1 - j] };
            peaks.push((ion, 5.0 + j as f32));
        }
    }
    add_ladder(&mut peaks, &tp, rng, 90);
    for _ in 0..3 {
        let other = peps[rng.below(peps.len())].clone();
        add_ladder(&mut peaks, &other, rng, 40);
    }
    peaks.sort_by(|a, b| a.0.total_cmp(&b.0));
    let tic = peaks.iter().map(|p| p.1).sum::<f32>();
    let req = Req {
        kinds,
        min_ion_index,
        bucket: *rng.pick(&[3usize, 8192]),
        peps,
        ftol,
        ptol,
        mfc: *rng.pick(&[None, Some(1u8), Some(2)]),
        iso,
        openms: rng.chance(1, 6),
        annotate: rng.chance(1, 4),
        min_matched: *rng.pick(&[0u16, 0, 2]),
        prec_mz,
        z,
        annotated,
        override_z,
        pc_range,
        tic,
        peaks,
    };
    let mut o = Out::new();
    o.raw("scoremany").n(rp).b(wide);
    match iw {
        None => {
            o.n(0);
        }
        Some(t) => {
            o.n(1);
            t.write(&mut o);
        }
    }
    let line = req.line();
    o.raw(&line["score1 ".len()..]);
    (o.finish(), tags)
}

/// chimeric spectra: the ladders of 2-3 database peptides mixed in one spectrum (distinct intensity levels so the
/// rounds have a clear order, or equal levels for ties), optional shared peaks (isobaric permutation), noise;
/// `chimera = true`, report_psms 2..4: PSM i must be scored on the spectrum left after removing the matched peaks of
/// PSMs 1..i-1, with THAT spectrum's total ion current
fn chimera_case(rng: &mut Rng, it: usize) -> (String, Vec<&'static str>) {
    let mut tags: Vec<&'static str> = vec!["scoremany", "chimera"];
    let npep = 2 + rng.below(3);
    let mut peps: Vec<Pep> = (0..npep).map(|_| random_pep(rng)).collect();
    if rng.chance(1, 4) {
        let mut s2 = peps[0].seq.clone();
        rng.shuffle(&mut s2);
        peps[1] = Pep::plain(&s2);
        tags.push("isobaric-pair");
    }
    peps.sort_by(|a, b| a.mono.total_cmp(&b.mono));
    let nmix = 2 + rng.below(2).min(npep - 2);
    let mut order: Vec<usize> = (0..npep).collect();
    rng.shuffle(&mut order);
    let kinds: Vec<usize> = rng.pick(&[&[1usize, 4][..], &[1, 4], &[4, 1], &[0, 1, 4], &[4]]).to_vec();
    let ftol = *rng.pick(&[Tol::Ppm(-10.0, 10.0), Tol::Da(-0.02, 0.02), Tol::Da(-0.5, 0.5)]);
    let equal_levels = rng.chance(1, 5);
    let mut peaks: Vec<(f32, f32)> = vec![];
    for (rank, &pi) in order.iter().take(nmix).enumerate() {
        let level = if equal_levels { 10.0 } else { 100.0 / (1 + rank * 3) as f32 };
        let pt = peps[pi].peptide();
        let rate = *rng.pick(&[100u32, 80, 60]);
        for &k in &kinds {
            for ion in IonSeries::new(&pt, KINDS[k]) {
                if rng.chance(rate, 100) {
                    let c = if rng.chance(1, 6) { 2.0 } else { 1.0 };
                    peaks.push((ion.monoisotopic_mass / c, level + rng.below(8) as f32 * 0.25));
                }
            }
        }
    }
    for _ in 0..*rng.pick(&[0usize, 5, 20]) {
        peaks.push(((rng.unit() * 1500.0) as f32 + 40.0, (rng.unit() * 5.0) as f32));
    }
    if rng.chance(1, 5) && !peaks.is_empty() {
        // exact duplicates of a peak: `to_remove.contains` removes all of them
        let d = peaks[rng.below(peaks.len())];
        peaks.push(d);
        tags.push("duplicate-peak");
    }
    peaks.sort_by(|a, b| a.0.total_cmp(&b.0));
    let tic = if rng.chance(1, 8) { 1000.0 } else { peaks.iter().map(|p| p.1).sum::<f32>() };
    let z = 2 + rng.below(2) as u8;
    let tp = peps[order[0]].clone();
    let rp = if it % 7 == 0 { 1 } else { 2 + rng.below(3) };
    let annotated = !rng.chance(1, 5);
    let iso = *rng.pick(&[(0i8, 0i8), (0, 0), (0, 0), (0, 1)]);
    let req = Req {
        kinds,
        min_ion_index: *rng.pick(&[0usize, 2]),
        bucket: 8192,
        peps,
        ftol,
        ptol: Tol::Da(-6000.0, 6000.0),
        mfc: *rng.pick(&[None, Some(1u8), Some(2)]),
        iso,
        openms: rng.chance(1, 8),
        annotate: rng.chance(1, 3),
        min_matched: *rng.pick(&[0u16, 0, 0, 3]),
        prec_mz: tp.mono / z as f32 + PROTON,
        z,
        annotated,
        override_z: false,
        pc_range: (2, 3),
        tic,
        peaks,
    };
    let mut o = Out::new();
    o.raw("scoremany").n(rp).n(2).n(0);
    let line = req.line();
    o.raw(&line["score1 ".len()..]);
    (o.finish(), tags)
}

fn gen_chimera(rng: &mut Rng, tier: Tier, emit: &mut dyn FnMut(Case)) {
    // directed: two full ladders (intensity 1+j each), one peptide only (round 2 reports it again with nothing matched)
    for (seqs, rp) in [(&[&b"PEPTIDEK"[..], &b"LGEYGFQNALIVR"[..]][..], 2usize), (&[&b"PEPTIDEK"[..], &b"LGEYGFQNALIVR"[..]][..], 3), (&[&b"PEPTIDEK"[..]][..], 2)] {
        let mut peps: Vec<Pep> = seqs.iter().map(|s| Pep::plain(s)).collect();
        peps.sort_by(|a, b| a.mono.total_cmp(&b.mono));
        let mut peaks = vec![];
        for (i, p) in peps.iter().enumerate() {
            let pt = p.peptide();
            for k in [1usize, 4] {
                for (j, ion) in IonSeries::new(&pt, KINDS[k]).enumerate() {
                    peaks.push((ion.monoisotopic_mass, (1 + i * 10) as f32 + j as f32));
                }
            }
        }
        peaks.sort_by(|a: &(f32, f32), b| a.0.total_cmp(&b.0));
        let mut r = full_ladder_case(seqs[0], &[1, 4], &|_, _| false, true);
        r.tic = peaks.iter().map(|p| p.1).sum::<f32>();
        r.peaks = peaks;
        r.ptol = Tol::Da(-6000.0, 6000.0);
        r.peps = peps;
        let mut o = Out::new();
        o.raw("scoremany").n(rp).n(2).n(0);
        let line = r.line();
        o.raw(&line["score1 ".len()..]);
        emit(Case::new(o.finish()).tag("scoremany").tag("chimera").tag("directed"));
    }
    let n = if tier == Tier::Quick { 60 } else { 6000 };
    for it in 0..n {
        let (line, tags) = chimera_case(rng, it);
        let mut c = Case::new(line);
        for t in tags {
            c = c.tag(t);
        }
        emit(c);
    }
}

fn gen_many(rng: &mut Rng, tier: Tier, emit: &mut dyn FnMut(Case)) {
    // sizes just below / at / above trim_hits' 50 and 2 * report_psms (2, 10, 80)
    let sizes: &[usize] = if tier == Tier::Quick { &[49, 50, 51, 64, 79, 80, 81, 130] } else { &[9, 10, 11, 49, 50, 51, 52, 64, 79, 80, 81, 100, 130, 200, 300] };
    let reps = if tier == Tier::Quick { 1 } else { 40 };
    let mut v = 0usize;
    for _ in 0..reps {
        for &rp in &[1usize, 5, 40] {
            for &n in sizes {
                let (line, tags) = many_case(rng, n, rp, v);
                v += 1;
                let mut c = Case::new(line).nontrivial(n > 50);
                for t in tags {
                    c = c.tag(t);
                }
                c = c.tag(if n > 50 { "many-above-50" } else { "many-at-most-50" });
                emit(c);
            }
        }
    }
}

pub fn gen(rng: &mut Rng, tier: Tier, emit: &mut dyn FnMut(Case)) {
    gen_select(rng, tier, emit);
    gen_many(rng, tier, emit);
    gen_chimera(rng, tier, emit);

    // ---- directed score1 cases ----
    // the repaired finding: PEPTIDEK with its complete b/y ladder (longest_b = longest_y = 7)
    emit_req(emit, &full_ladder_case(b"PEPTIDEK", &[1, 4], &|_, _| true, true), &["directed", "full-ladder-index0"], true);
    // index patterns through Run: only index 0; 0..2; gap; all but 0; two blocks
    let pats: [(&'static str, fn(usize, usize) -> bool); 7] = [
        ("run-only-index0", |_, j| j == 0),
        ("run-0-1-2", |_, j| j < 3),
        ("run-gap", |_, j| j != 3),
        ("run-all-but-0", |_, j| j != 0),
        ("run-two-blocks-longer-last", |_, j| j == 0 || j == 1 || j >= 3),
        ("run-two-blocks-longer-first", |_, j| j <= 3 || j == 6),
        ("run-b-only", |k, _| k == 1),
    ];
    for (tag, f) in pats {
        for ann in [false, true] {
            emit_req(emit, &full_ladder_case(b"PEPTIDEKR", &[1, 4], &f, ann), &["directed", tag], true);
        }
    }
    // several kinds per terminus, all kinds, single sided
    emit_req(emit, &full_ladder_case(b"ACDEFGHK", &[0, 1, 4], &|_, _| true, true), &["directed", "multi-kind-per-terminus"], true);
    emit_req(emit, &full_ladder_case(b"ACDEFGHK", &[0, 1, 2, 3, 4, 5], &|_, j| j % 2 == 0, true), &["directed", "multi-kind-per-terminus"], true);
    emit_req(emit, &full_ladder_case(b"ACDEFGHK", &[4], &|_, j| j < 4, false), &["directed", "one-sided"], true);
    // several kinds on one terminus share one ladder counter: a3 + b0,b1,b2 matched, kinds listed as [a,b] and as [b,a]
    // (the counter sees 3,0,1,2 resp. 0,1,2,3: longest_b = 3 resp. 4 — modelled and compared, outside the spec)
    for kinds in [[0usize, 1], [1, 0]] {
        let f = |k: usize, j: usize| (k == 0 && j == 3) || (k == 1 && j < 3);
        emit_req(emit, &full_ladder_case(b"ACDEFGHK", &kinds, &f, true), &["directed", "multi-kind-order"], true);
    }
    // empty spectrum, two-residue peptide, one-residue peptide (no ions at all)
    {
        let mut r = full_ladder_case(b"PEPTIDEK", &[1, 4], &|_, _| false, false);
        r.tic = 0.0;
        emit_req(emit, &r, &["directed", "empty-spectrum"], false);
        emit_req(emit, &full_ladder_case(b"GK", &[1, 4], &|_, _| true, true), &["directed", "two-residues"], true);
        emit_req(emit, &full_ladder_case(b"K", &[1, 4], &|_, _| true, true), &["directed", "one-residue"], false);
    }
    // dense spectrum: a peak every ~0.37 Da with cycling intensities
    for (ftol, ann) in [(Tol::Da(-0.5, 0.5), true), (Tol::Ppm(-20.0, 20.0), false), (Tol::Da(-0.02, 0.02), false)] {
        let mut r = full_ladder_case(b"LGEYGFQNALIVR", &[1, 4], &|_, _| true, ann);
        let mut m = 50.0f32;
        let mut k = 0usize;
        while m < 1600.0 {
            r.peaks.push((m, INTENSITIES[k % 5] + (k % 3) as f32));
            m += 0.37;
            k += 1;
        }
        r.peaks.sort_by(|a, b| a.0.total_cmp(&b.0));
        r.tic = r.peaks.iter().map(|p| p.1).sum::<f32>();
        r.ftol = ftol;
        r.z = 3;
        r.prec_mz = r.peps[0].mono / 3.0 + PROTON;
        emit_req(emit, &r, &["directed", "dense-spectrum"], true);
    }
    // max_fragment_charge settings on a ladder present at charges 1..3
    for z in 1..=4u8 {
        for mfc in [None, Some(1u8), Some(2), Some(3), Some(4)] {
            let mut r = full_ladder_case(b"PEPTIDEKR", &[1, 4], &|_, j| j % 3 != 1, z % 2 == 0);
            let base = r.peaks.clone();
            for c in 2..=3 {
                for &(m, i) in &base {
                    r.peaks.push((m / c as f32, i + c as f32));
                }
            }
            r.peaks.sort_by(|a, b| a.0.total_cmp(&b.0));
            r.tic = r.peaks.iter().map(|p| p.1).sum::<f32>();
            r.z = z;
            r.mfc = mfc;
            r.prec_mz = r.peps[0].mono / z as f32 + PROTON;
            emit_req(emit, &r, &["directed", "fragment-charge-limit"], true);
        }
    }

    // searched charge vs annotated charge: wide precursor tolerance so that EVERY searched charge yields a PSM of the
    // same peptide; each must carry expmass = (mz - PROTON) * its own charge, delta_mass and fragment charge limit
    // of its own charge. (annotated 2, override, ranges containing / not containing the annotation; un-annotated)
    for (annotated, override_z, z, pc) in [
        (true, true, 2u8, (2u8, 4u8)),
        (true, true, 2, (1, 3)),
        (true, true, 2, (3, 4)),
        (true, true, 4, (1, 2)),
        (true, false, 3, (1, 4)),
        (false, false, 2, (1, 4)),
        (false, false, 2, (2, 3)),
    ] {
        for iso in [(0i8, 0i8), (-1, 1)] {
            let mut r = full_ladder_case(b"PEPTIDEKR", &[1, 4], &|_, j| j != 2, true);
            r.ptol = Tol::Da(-6000.0, 6000.0);
            r.annotated = annotated;
            r.override_z = override_z;
            r.z = z;
            r.pc_range = pc;
            r.iso = iso;
            emit_req(emit, &r, &["directed", "searched-vs-annotated-charge"], true);
        }
    }

    // ---- exhaustive small scope: every matched-index pattern of both ladders of one peptide ----
    // (quick: 5 residues = 4 ions per series, 256 patterns; thorough: 7 residues = 6 ions per series, 4096 patterns)
    {
        let seq: &[u8] = if tier == Tier::Quick { b"ACDEK" } else { b"ACDEFGK" };
        let m = seq.len() - 1;
        for bits in 0u32..(1u32 << (2 * m)) {
            let f = move |k: usize, j: usize| {
                let off = if k == 1 { 0 } else { m };
                (bits >> (off + j)) & 1 == 1
            };
            let mut r = full_ladder_case(seq, &[1, 4], &f, bits % 7 == 0);
            r.ptol = Tol::Da(-1.0, 1.0);
            emit_req(emit, &r, &["exhaustive-patterns"], bits != 0);
        }
    }

    // ---- random score1 cases ----
    let n = if tier == Tier::Quick { 2500 } else { 150000 };
    for it in 0..n {
        let negative = it % 12 == 11;
        let b = random_case(rng, negative);
        let mut tags = b.tags.clone();
        tags.push("random");
        emit_req(emit, &b.req, &tags, b.nontrivial);
    }
}

pub fn exec(op: &str, t: &mut Toks) -> Option<String> {
    match op {
        "c04select" => {
            let tol = Tol::read(t)?;
            let center = t.f32()?;
            let off = t.opt(|t| t.f32())?;
            let peaks: Vec<Peak> = t.list(|t| {
                let mass = t.f32()?;
                let intensity = t.f32()?;
                Some(Peak { mass, intensity })
            })?;
            if !t.done() {
                return None;
            }
            let mut o = Out::new();
            match select_most_intense_peak(&peaks, center, tol, off) {
                None => {
                    o.n(0);
                }
                Some(p) => {
                    o.n(1).n(canon32(p.mass)).n(canon32(p.intensity));
                }
            }
            Some(o.finish())
        }
        "score1" | "scoremany" => {
            let (report_psms, wide_window, chimera, isolation_window) = if op == "scoremany" {
                let rp = t.usize()?;
                // mode: bit 0 = wide_window, bit 1 = chimera
                let mode = t.usize()?;
                if mode > 3 {
                    return None;
                }
                let iw = t.opt(Tol::read)?;
                (rp, mode & 1 == 1, mode & 2 == 2, iw)
            } else {
                (1000, false, false, None)
            };
            let kinds = t.list(|t| t.usize())?;
            let min_ion_index = t.usize()?;
            let bucket_size = t.usize()?;
            let peps = t.list(Pep::read)?;
            let ftol = Tol::read(t)?;
            let ptol = Tol::read(t)?;
            let mfc = t.opt(|t| t.usize())?.map(|c| c as u8);
            let iso_lo = t.i64()? as i8;
            let iso_hi = t.i64()? as i8;
            let openms = t.bool()?;
            let annotate = t.bool()?;
            let min_matched = t.usize()? as u16;
            let prec_mz = t.f32()?;
            let tag = t.usize()?;
            if tag > 2 {
                return None;
            }
            let z = if tag == 0 { None } else { Some(t.usize()? as u8) };
            let override_z = tag == 2;
            let min_pc = t.usize()? as u8;
            let max_pc = t.usize()? as u8;
            let tic = t.f32()?;
            let peaks: Vec<Peak> = t.list(|t| {
                let mass = t.f32()?;
                let intensity = t.f32()?;
                Some(Peak { mass, intensity })
            })?;
            if !t.done() || bucket_size == 0 {
                return None;
            }
            let ion_kinds: Vec<Kind> = kinds.iter().map(|&k| KINDS.get(k).copied()).collect::<Option<Vec<_>>>()?;
            let params = Parameters {
                bucket_size,
                enzyme: EnzymeBuilder::default(),
                peptide_min_mass: 0.0,
                peptide_max_mass: 1.0e9,
                ion_kinds,
                min_ion_index,
                static_mods: Default::default(),
                variable_mods: Default::default(),
                max_variable_mods: 2,
                decoy_tag: "rev_".into(),
                generate_decoys: false,
                fasta: String::new(),
                prefilter_chunk_size: 0,
                prefilter: false,
                prefilter_low_memory: true,
            };
            let db = params.build_from_peptides(peps.iter().map(|p| p.peptide()).collect());
            let scorer = Scorer {
                db: &db,
                precursor_tol: ptol,
                fragment_tol: ftol,
                min_matched_peaks: min_matched,
                min_isotope_err: iso_lo,
                max_isotope_err: iso_hi,
                min_precursor_charge: min_pc,
                max_precursor_charge: max_pc,
                override_precursor_charge: override_z,
                max_fragment_charge: mfc,
                chimera,
                report_psms,
                wide_window,
                annotate_matches: annotate,
                score_type: if openms { ScoreType::OpenMSHyperScore } else { ScoreType::SageHyperScore },
            };
            let spectrum = ProcessedSpectrum {
                level: 2,
                id: "s".into(),
                file_id: 0,
                scan_start_time: 1.0,
                ion_injection_time: 0.0,
                precursors: vec![Precursor {
                    mz: prec_mz,
                    intensity: None,
                    charge: z,
                    spectrum_ref: None,
                    isolation_window,
                    inverse_ion_mobility: None,
                }],
                peaks,
                total_ion_current: tic,
            };
            let mut feats = scorer.score(&spectrum);
            feats.sort_by(|a, b| {
                a.peptide_idx.0.cmp(&b.peptide_idx.0).then(a.charge.cmp(&b.charge)).then(a.isotope_error.total_cmp(&b.isotope_error))
            });
            let mut o = Out::new();
            o.n(feats.len());
            for f in &feats {
                o.n(f.peptide_idx.0).n(canon32(f.isotope_error)).n(f.peptide_len).n(f.charge);
                o.n(canon32(f.expmass)).n(canon32(f.calcmass)).n(canon32(f.delta_mass)).n(canon32(f.average_ppm));
                o.n(canon64(f.hyperscore)).n(f.matched_peaks).n(f.longest_b).n(f.longest_y);
                o.n(canon32(f.longest_y_pct)).n(canon32(f.matched_intensity_pct)).n(f.scored_candidates);
                o.n(canon64(f.poisson)).n(canon32(f.ms2_intensity));
                o.n(f.rank).n(canon64(f.delta_next)).n(canon64(f.delta_best)).n(f.missed_cleavages);
                match &f.fragments {
                    None => {
                        o.n(0);
                    }
                    Some(fr) => {
                        o.n(1).n(fr.kinds.len());
                        for i in 0..fr.kinds.len() {
                            o.n(kind_ix(fr.kinds[i])).n(fr.charges[i]).n(fr.fragment_ordinals[i]);
                            o.n(canon32(fr.intensities[i])).n(canon32(fr.mz_calculated[i])).n(canon32(fr.mz_experimental[i]));
                        }
                    }
                }
            }
            Some(o.finish())
        }
        _ => None,
    }
}
