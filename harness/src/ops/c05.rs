//! C05 — in-silico digestion and FASTA reading
//!   digest <opt mc> <opt min_len> <opt max_len> <opt cleave-hex> <opt restrict-byte> <opt c_terminal>
//!          <opt semi> <seq-hex>
//!        -> panic | n (seq-hex missed_cleavages position semi)…        (order as produced)
//!           built through `EnzymeBuilder -> EnzymeParameters` (database.rs), then
//!           `EnzymeParameters::digest`; position 0 Nterm 1 Cterm 2 Full 3 Internal
//!   fasta <decoy-tag-hex> <generate_decoys> <text-hex>
//!        -> panic | n (accession-hex sequence-hex)…                    (file order)
//!   fastadigest <decoy-tag-hex> <generate_decoys> <text-hex> <the 7 opt builder fields> <k> <pool size>…
//!        -> panic | k, then per pool size: n (accession-hex seq-hex mc position semi decoy)… sorted by text
//!           (`Fasta::parse(..).digest(&params)` run inside `ThreadPoolBuilder::num_threads(p).build().install`)
use super::Info;
use crate::proto::{Case, Out, Rng, Tier, Toks};
use sage_core::database::EnzymeBuilder;
use sage_core::enzyme::{EnzymeParameters, Position};
use sage_core::fasta::Fasta;
use std::sync::Arc;

pub const OPS: &[&str] = &["digest", "fasta", "fastadigest"];
pub const INFO: Info = Info {
    rule: "digest: (a) exhaustive: every sequence up to length L (quick 4, thorough 5) crossed with all \
           settings below; thorough also every sequence of length 6 with 12 and of length 7-8 with 2 random \
           settings each (quick: 4000 random sequences of length 5-8 with one random setting) over {K,R,P,A,D} x 9 enzyme shapes (+ builder defaults) (KR; K; KR \
           restrict P; K restrict K; D N-terminal; D N-terminal restrict D; DK N-terminal restrict K; '$' \
           with contradictory flags; '' non-specific; KR restrict P with defaults) x missed cleavages 0..2 x \
           semi x length bounds {1..50, 2..4, 3..3, 0..2, 5..3}; (b) directed: empty/one-residue proteins, \
           cleavage residue at either terminus, runs KK/KP/PK, repeated peptides with different labels, a \
           peptide that is fully enzymatic at one place and semi-enzymatic at another, non-specific windows \
           longer than the protein, min_len 0, min>max, unset builder fields (defaults), invalid cleavage / \
           restriction characters (assert -> panic on both sides); (c) random (quick 1500, thorough 6000): proteins of length 10..60 \
           (thorough ..120) over the 22 residues with K/R/P/D enriched, random cleavage sets of 1-4 residues, \
           random restriction (often a member of the set or P), either terminus, semi, mc 0..3, random \
           bounds. Non-trivial = the protein has >= 2 residues and (non-specific or it contains a residue of \
           the cleavage set). (d) many fragments: proteins of 254..258, 511..513, 600, 768, 770 (thorough: 250..262, 508..516, \
           600, 700, 766..771, 1023..1025, 1280) cleavage fragments of 1-3 residues (C-terminal KR with and \
           without a non-cleaving tail, N-terminal D) x mc 0..3 with min_len 1-2 so that every missed-cleavage \
           peptide is kept (u8 wrap-around of fragment counts), 256 x 'AK', semi-enzymatic and non-specific \
           on 256+ fragment proteins; proteins over 160 residues are judged against the proved model \
           (spec_unique). missed_cleavages 254 and 255 on a tiny protein: 255 overflows `1 + mc` (u8) and \
           panics in this (overflow-checked) build - modelled as panic; ASCII only. \
           fasta: records (accession, optional description, sequence) rendered in a random layout: line \
           width in {1,2,3,7,60,none}, LF or CRLF per line, blank / white-space-only lines anywhere \
           (also before the first header), leading/trailing spaces and tabs, '> acc', decoy tag as \
           prefix / infix / only in the description / absent, empty tag, generate flag, with and without \
           final newline, lone trailing CR, records without sequence, bare '>' headers without sequence, \
           VT characters, duplicate accessions. Inputs on which Fasta::parse panics (a bare '>' header that \
           is followed by sequence, or sequence text before the first header) are outside the statement \
           and are NOT generated. Non-trivial = at least 2 records with sequence. \
           fastadigest: FASTA files of 1..24 records (every count, so every remainder modulo any batch \
           size occurs) with short K/R-rich sequences, some accessions decoy-tagged, generate flag on/off, a \
           random enzyme setting (KR/P, K, D N-terminal, non-specific with narrow bounds, semi sometimes), \
           digested by Fasta::digest under rayon pools of 1,2,3,4,8 threads; the multiset of (accession, \
           peptide, missed cleavages, position, semi, decoy) per pool is compared with the model and, by the \
           spec, across pools (thread_dependent), per record (record_not_digested) and for the decoy flag. \
           Non-trivial = at least 2 records.",
    serial: false,
};

// ------------------------------------------------------------------------------------------ digest

#[derive(Clone, Default)]
struct B {
    mc: Option<u8>,
    min_len: Option<usize>,
    max_len: Option<usize>,
    cleave: Option<Vec<u8>>,
    restrict: Option<u8>,
    c_terminal: Option<bool>,
    semi: Option<bool>,
}

fn digest_request(b: &B, seq: &[u8]) -> String {
    let mut o = Out::new();
    o.raw("digest");
    match b.mc {
        None => o.n(0),
        Some(x) => o.n(1).n(x),
    };
    match b.min_len {
        None => o.n(0),
        Some(x) => o.n(1).n(x),
    };
    match b.max_len {
        None => o.n(0),
        Some(x) => o.n(1).n(x),
    };
    match &b.cleave {
        None => o.n(0),
        Some(x) => o.n(1).bytes(x),
    };
    match b.restrict {
        None => o.n(0),
        Some(x) => o.n(1).n(x),
    };
    match b.c_terminal {
        None => o.n(0),
        Some(x) => o.n(1).b(x),
    };
    match b.semi {
        None => o.n(0),
        Some(x) => o.n(1).b(x),
    };
    o.bytes(seq);
    o.finish()
}

fn shape(cleave: &str, restrict: Option<u8>, cterm: bool) -> B {
    B {
        mc: Some(0),
        min_len: Some(1),
        max_len: Some(50),
        cleave: Some(cleave.as_bytes().to_vec()),
        restrict,
        c_terminal: Some(cterm),
        semi: Some(false),
    }
}

fn shapes() -> Vec<(&'static str, B)> {
    vec![
        ("shape:KR", shape("KR", None, true)),
        ("shape:K", shape("K", None, true)),
        ("shape:KR!P", shape("KR", Some(b'P'), true)),
        ("shape:K!K", shape("K", Some(b'K'), true)),
        ("shape:nD", shape("D", None, false)),
        ("shape:nD!D", shape("D", Some(b'D'), false)),
        ("shape:nDK!K", shape("DK", Some(b'K'), false)),
        ("shape:$", shape("$", Some(b'P'), false)),
        ("shape:nonspecific", shape("", None, true)),
    ]
}

const BOUNDS: &[(usize, usize)] = &[(1, 50), (2, 4), (3, 3), (0, 2), (5, 3)];

fn nontrivial_digest(b: &B, seq: &[u8]) -> bool {
    let cl = b.cleave.clone().unwrap_or_else(|| b"KR".to_vec());
    seq.len() >= 2 && (cl.is_empty() || seq.iter().any(|c| cl.contains(c)))
}

fn emit_digest(emit: &mut dyn FnMut(Case), b: &B, seq: &[u8], tags: &[&'static str]) {
    let mut c = Case::new(digest_request(b, seq)).nontrivial(nontrivial_digest(b, seq));
    for t in tags {
        c = c.tag(t);
    }
    c = c
        .tag_if(b.semi == Some(true), "semi")
        .tag_if(b.mc.unwrap_or(1) > 0, "mc>0")
        .tag_if(b.c_terminal == Some(false), "n-terminal")
        .tag_if(b.restrict.is_some(), "restricted")
        .tag_if(seq.is_empty(), "empty-protein");
    emit(c);
}

fn all_settings(emit: &mut dyn FnMut(Case), seq: &[u8], tag: &'static str) {
    for (name, sh) in shapes() {
        for mc in 0..=2u8 {
            for semi in [false, true] {
                for &(lo, hi) in BOUNDS {
                    let mut b = sh.clone();
                    b.mc = Some(mc);
                    b.semi = Some(semi);
                    b.min_len = Some(lo);
                    b.max_len = Some(hi);
                    emit_digest(emit, &b, seq, &[tag, name]);
                }
            }
        }
    }
    // the defaults of EnzymeBuilder -> EnzymeParameters (mc 1, 5..=50, "KR", C-terminal, not semi)
    let b = B { restrict: Some(b'P'), ..B::default() };
    emit_digest(emit, &b, seq, &[tag, "shape:defaults"]);
}

fn random_setting(rng: &mut Rng) -> (&'static str, B) {
    let sh = shapes();
    let (name, mut b) = sh[rng.below(sh.len())].clone();
    b.mc = Some(rng.below(3) as u8);
    b.semi = Some(rng.chance(1, 2));
    let (lo, hi) = BOUNDS[rng.below(BOUNDS.len())];
    b.min_len = Some(lo);
    b.max_len = Some(hi);
    (name, b)
}

const SMALL: &[u8] = b"KRPAD";
const AA22: &[u8] = b"ACDEFGHIKLMNPQRSTVWYUO";

fn nth_seq(len: usize, mut idx: usize) -> Vec<u8> {
    let mut v = Vec::with_capacity(len);
    for _ in 0..len {
        v.push(SMALL[idx % SMALL.len()]);
        idx /= SMALL.len();
    }
    v
}

fn gen_digest(rng: &mut Rng, tier: Tier, emit: &mut dyn FnMut(Case)) {
    // (a) exhaustive
    let full = if tier == Tier::Quick { 4 } else { 5 };
    for len in 0..=full {
        for idx in 0..SMALL.len().pow(len as u32) {
            all_settings(emit, &nth_seq(len, idx), "exhaustive");
        }
    }
    if tier == Tier::Thorough {
        for len in 6..=8 {
            for idx in 0..SMALL.len().pow(len as u32) {
                let s = nth_seq(len, idx);
                let reps = if len == 6 { 12 } else { 2 };
                for _ in 0..reps {
                    let (name, b) = random_setting(rng);
                    emit_digest(emit, &b, &s, &["exhaustive-seq-random-setting", name]);
                }
            }
        }
    } else {
        for _ in 0..4000 {
            let len = 5 + rng.below(4);
            let s: Vec<u8> = (0..len).map(|_| *rng.pick(SMALL)).collect();
            let (name, b) = random_setting(rng);
            emit_digest(emit, &b, &s, &["random-small", name]);
        }
    }

    // (b) directed
    let directed: &[&str] = &[
        "", "K", "A", "D", "KK", "KP", "PK", "KA", "AK", "DA", "AD", "DD",
        "AKAKAK", "AKAKAKA", "KAKAKA", "AAKAAKAAK", "AAKAAKAAKP", "AKPAKAK", "KPKPKP", "AKKKA", "KKKK",
        "DADADA", "ADADAD", "DDAD", "ADKDKA", "KDKD",
        // "AR" is fully enzymatic at 3..5 and only semi-enzymatic inside "ARA" at the end (and v.v.)
        "AAKARARA", "ARAKAR", "GGGGKCCCCC", "GGGGGCCCCC", "CCCKCCC", "AAKAAPKAAK", "MADEEKLPPGWEKRMSRSSGRVYYFNHITNASQWERPSGN",
    ];
    for s in directed {
        all_settings(emit, s.as_bytes(), "directed");
    }
    // non-specific windows longer than the protein, min 0, min > max
    for &(lo, hi) in &[(3usize, 9usize), (0, 9), (6, 7), (9, 3), (0, 0), (1, 1), (5, 5)] {
        for s in ["", "A", "AKAKA", "KRPAD", "AAAAA", "AKAAKA"] {
            let mut b = shape("", None, true);
            b.min_len = Some(lo);
            b.max_len = Some(hi);
            b.mc = Some(2);
            b.semi = Some(true);
            emit_digest(emit, &b, s.as_bytes(), &["directed", "nonspecific-bounds"]);
        }
    }
    // unset builder fields
    for s in ["AAAAAKAAAAAAKPAAAAAARAAAAA", "MADEEKLPPGWEKRMSRSSGRVYYFNHITNASQWERPSGN", "KAAAAAK"] {
        for mask in 0..128u32 {
            let full = B {
                mc: Some(2),
                min_len: Some(2),
                max_len: Some(12),
                cleave: Some(b"R".to_vec()),
                restrict: Some(b'A'),
                c_terminal: Some(false),
                semi: Some(true),
            };
            let b = B {
                mc: if mask & 1 != 0 { None } else { full.mc },
                min_len: if mask & 2 != 0 { None } else { full.min_len },
                max_len: if mask & 4 != 0 { None } else { full.max_len },
                cleave: if mask & 8 != 0 { None } else { full.cleave.clone() },
                restrict: if mask & 16 != 0 { None } else { full.restrict },
                c_terminal: if mask & 32 != 0 { None } else { full.c_terminal },
                semi: if mask & 64 != 0 { None } else { full.semi },
            };
            emit_digest(emit, &b, s.as_bytes(), &["directed", "defaults"]);
        }
    }
    // asserts of Enzyme::new
    for (cl, rs) in [
        ("KX", None), ("B", None), ("$K", None), ("K$", None), ("k", None), ("K R", None), ("J", None), ("Z", None),
        ("KR", Some(b'X')), ("KR", Some(b'p')), ("", Some(b'X')), ("$", Some(b'B')), ("$", Some(b'$')),
        ("UO", Some(b'U')), ("KRUO", Some(b'O')),
    ] {
        let b = shape(cl, rs, true);
        emit(Case::new(digest_request(&b, b"AKAUOKAXAK")).tag("directed").tag("enzyme-new-assert").nontrivial(false));
    }
    // large missed-cleavage counts (u8, below the overflow at 255)
    for mc in [3u8, 7, 100, 254] {
        let mut b = shape("KR", Some(b'P'), true);
        b.mc = Some(mc);
        b.semi = Some(mc == 7);
        emit_digest(emit, &b, b"AKAAKAAAKPAAAARAAAAAKKAR", &["directed", "large-mc"]);
    }

    // (c) random long
    let (n, maxlen) = if tier == Tier::Quick { (1500, 60) } else { (6000, 120) };
    for _ in 0..n {
        let len = 10 + rng.below(maxlen - 9);
        let seq: Vec<u8> = (0..len)
            .map(|_| if rng.chance(35, 100) { *rng.pick(b"KRPD") } else { *rng.pick(AA22) })
            .collect();
        let nonspecific = rng.chance(1, 8);
        let mut b = B::default();
        if nonspecific {
            let seq = &seq[..len.min(40)];
            let lo = rng.below(8);
            b.min_len = Some(lo);
            b.max_len = Some(lo + rng.below(6));
            b.cleave = Some(vec![]);
            b.mc = Some(rng.below(3) as u8);
            b.semi = Some(rng.chance(1, 2));
            emit_digest(emit, &b, seq, &["random-long", "shape:nonspecific"]);
            continue;
        }
        let k = 1 + rng.below(4);
        let cl: Vec<u8> = (0..k)
            .map(|_| if rng.chance(1, 2) { *rng.pick(b"KRD") } else { *rng.pick(AA22) })
            .collect();
        b.restrict = match rng.below(4) {
            0 => None,
            1 => Some(b'P'),
            2 => Some(*rng.pick(&cl)),
            _ => Some(*rng.pick(AA22)),
        };
        b.cleave = Some(cl);
        b.c_terminal = Some(rng.chance(1, 2));
        let semi = rng.chance(1, 3);
        b.semi = Some(semi);
        b.mc = Some(rng.below(4) as u8);
        let lo = rng.below(8);
        b.min_len = Some(lo);
        b.max_len = Some(lo + rng.below(31));
        // semi-enzymatic digestion multiplies the spec's work: keep those proteins shorter
        let seq = if semi { &seq[..len.min(45)] } else { &seq[..] };
        emit_digest(emit, &b, seq, &["random-long", "shape:random"]);
    }
}

// ------------------------------------------------------------------------------------------- fasta

fn fasta_request(tag: &[u8], generate: bool, text: &[u8]) -> String {
    let mut o = Out::new();
    o.raw("fasta").bytes(tag).b(generate).bytes(text);
    o.finish()
}

struct Rec {
    acc: Vec<u8>,
    desc: Option<Vec<u8>>,
    seq: Vec<u8>,
    bare: bool, // bare '>' header: only legal without sequence
}

fn ws(rng: &mut Rng, max: usize) -> Vec<u8> {
    (0..rng.below(max + 1)).map(|_| *rng.pick(b"  \t")).collect()
}

fn eol(rng: &mut Rng, crlf: u8) -> &'static [u8] {
    match crlf {
        0 => b"\n",
        1 => b"\r\n",
        _ => {
            if rng.chance(1, 2) {
                b"\n"
            } else {
                b"\r\n"
            }
        }
    }
}

fn blank(rng: &mut Rng, out: &mut Vec<u8>, crlf: u8, freq: u32) {
    while rng.chance(freq, 100) {
        if rng.chance(1, 2) {
            out.extend(ws(rng, 3));
        }
        if rng.chance(1, 12) {
            out.push(0x0b);
        }
        out.extend_from_slice(eol(rng, crlf));
    }
}

fn render(rng: &mut Rng, recs: &[Rec], width: usize, crlf: u8, blanks: u32, pad: bool, final_eol: u8) -> Vec<u8> {
    let mut out = Vec::new();
    blank(rng, &mut out, crlf, blanks);
    for r in recs {
        if pad {
            out.extend(ws(rng, 2));
        }
        out.push(b'>');
        if !r.bare {
            if pad && rng.chance(1, 3) {
                out.extend(ws(rng, 2));
            }
            out.extend_from_slice(&r.acc);
            if let Some(d) = &r.desc {
                out.push(*rng.pick(b" \t"));
                out.extend_from_slice(d);
            }
        }
        if pad {
            out.extend(ws(rng, 2));
        }
        out.extend_from_slice(eol(rng, crlf));
        blank(rng, &mut out, crlf, blanks);
        let w = if width == 0 { r.seq.len().max(1) } else { width };
        for chunk in r.seq.chunks(w) {
            if pad {
                out.extend(ws(rng, 2));
            }
            out.extend_from_slice(chunk);
            if pad {
                out.extend(ws(rng, 2));
            }
            out.extend_from_slice(eol(rng, crlf));
            blank(rng, &mut out, crlf, blanks);
        }
    }
    match final_eol {
        // strip the final line terminator
        1 => {
            while matches!(out.last(), Some(b'\n') | Some(b'\r')) {
                out.pop();
            }
        }
        // lone CR at the very end
        2 => {
            while matches!(out.last(), Some(b'\n') | Some(b'\r')) {
                out.pop();
            }
            out.push(b'\r');
        }
        _ => {}
    }
    out
}

fn gen_fasta(rng: &mut Rng, tier: Tier, emit: &mut dyn FnMut(Case)) {
    // directed texts (none of them panics)
    let directed: &[(&str, &str, bool)] = &[
        ("", "rev_", true),
        ("\n\n", "rev_", true),
        (">P1\nAAAK\n", "rev_", true),
        (">P1\nAAAK", "rev_", true),
        (">P1 desc here\nAAAK\nCCCK\n>P2\tother\nDDDK\n", "rev_", true),
        (">P1\r\nAAAK\r\nCCCK\r\n>rev_P1\r\nKAAA\r\n", "rev_", true),
        (">P1\r\nAAAK\r\nCCCK\r\n>rev_P1\r\nKAAA\r\n", "rev_", false),
        (">sp|rev_|x\nAAAK\n>P2 rev_\nCCCK\n", "rev_", true),
        (">P1\nAAAK\n>P2\nCCCK\n", "", true),
        (">P1\nAAAK\n>P2\nCCCK\n", "", false),
        (">P1\n>P2\nCCCK\n>P3\n", "rev_", true),
        (">\n>P2\nCCCK\n", "rev_", true),
        (">   \n\n>P2\nCCCK\n>", "rev_", true),
        ("  \n\t\n>P1\n  AA AK  \n\n  CCCK\t\n", "rev_", true),
        ("> P1 d\nA\nA\nA\nK\n", "rev_", true),
        (">P1\nAAAK\r", "rev_", true),
        (">P1\nAAAK\r\r\n", "rev_", true),
        (">P1\nAA\rAK\n", "rev_", true),
        (">P1\x0bX d\nAAAK\n", "rev_", true),
        (">P1\n>AAAK\nCC\n", "rev_", true),
        (">P1\nAA>AK\n", "rev_", true),
        (">P1\nAAAK\n>P1\nAAAK\n", "rev_", true),
        (">rev_\nAAAK\n>re\nCCK\n>v_\nDDK\n", "rev_", true),
    ];
    for (text, tag, g) in directed {
        let n = text.matches('>').count();
        emit(Case::new(fasta_request(tag.as_bytes(), *g, text.as_bytes())).tag("fasta-directed").nontrivial(n >= 2));
    }
    let n = if tier == Tier::Quick { 2500 } else { 30000 };
    for _ in 0..n {
        let tag: &[u8] = *rng.pick(&[&b"rev_"[..], b"rev_", b"DECOY_", b"", b"X"]);
        let generate = rng.chance(1, 2);
        let nrec = rng.below(7);
        let mut recs = Vec::new();
        for i in 0..nrec {
            let base: Vec<u8> = if rng.chance(1, 6) && i > 0 {
                b"P0".to_vec()
            } else {
                let l = 1 + rng.below(6);
                (0..l).map(|_| *rng.pick(b"PQsp|012_X.>")).collect()
            };
            let acc: Vec<u8> = match rng.below(6) {
                0 => [tag, &base[..]].concat(),
                1 => [&base[..], tag, b"z"].concat(),
                2 => [&base[..], tag].concat(),
                _ => base,
            };
            let acc = if acc.is_empty() { b"Q".to_vec() } else { acc };
            let desc = if rng.chance(1, 2) {
                let l = rng.below(12);
                let mut d: Vec<u8> = (0..l).map(|_| *rng.pick(b"ab OS=\t>x")).collect();
                if rng.chance(1, 4) {
                    d.extend_from_slice(tag);
                }
                Some(d)
            } else {
                None
            };
            let bare = rng.chance(1, 25);
            let seq: Vec<u8> = if bare || rng.chance(1, 10) {
                vec![]
            } else {
                let cap = if rng.chance(1, 5) { 200 } else { 30 };
                let l = 1 + rng.below(cap);
                (0..l).map(|_| *rng.pick(AA22)).collect()
            };
            recs.push(Rec { acc, desc, seq, bare });
        }
        let width = *rng.pick(&[0usize, 1, 2, 3, 7, 60]);
        let crlf = rng.below(3) as u8;
        let blanks = *rng.pick(&[0u32, 0, 15, 40]);
        let pad = rng.chance(1, 2);
        let final_eol = rng.below(3) as u8;
        let text = render(rng, &recs, width, crlf, blanks, pad, final_eol);
        let with_seq = recs.iter().filter(|r| !r.seq.is_empty()).count();
        emit(Case::new(fasta_request(tag, generate, &text))
            .tag("fasta-random")
            .tag_if(crlf > 0, "crlf")
            .tag_if(blanks > 0, "blank-lines")
            .tag_if(pad, "padded")
            .tag_if(width > 0 && width < 60, "wrapped")
            .tag_if(tag.is_empty(), "empty-tag")
            .tag_if(final_eol > 0, "no-final-newline")
            .nontrivial(with_seq >= 2));
    }
}

fn builder_tokens(o: &mut Out, b: &B) {
    match b.mc {
        None => o.n(0),
        Some(x) => o.n(1).n(x),
    };
    match b.min_len {
        None => o.n(0),
        Some(x) => o.n(1).n(x),
    };
    match b.max_len {
        None => o.n(0),
        Some(x) => o.n(1).n(x),
    };
    match &b.cleave {
        None => o.n(0),
        Some(x) => o.n(1).bytes(x),
    };
    match b.restrict {
        None => o.n(0),
        Some(x) => o.n(1).n(x),
    };
    match b.c_terminal {
        None => o.n(0),
        Some(x) => o.n(1).b(x),
    };
    match b.semi {
        None => o.n(0),
        Some(x) => o.n(1).b(x),
    };
}

const POOLS: &[usize] = &[1, 2, 3, 4, 8];

fn gen_fastadigest(rng: &mut Rng, tier: Tier, emit: &mut dyn FnMut(Case)) {
    let reps = if tier == Tier::Quick { 6 } else { 60 };
    for _ in 0..reps {
        for nrec in 1..=24usize {
            let tag: &[u8] = *rng.pick(&[&b"rev_"[..], b"rev_", b"DECOY_", b""]);
            let generate = rng.chance(1, 2);
            let mut recs = Vec::new();
            for i in 0..nrec {
                let base = format!("P{}", if rng.chance(1, 10) { 0 } else { i }).into_bytes();
                let acc = if rng.chance(1, 4) { [tag, &base[..]].concat() } else { base };
                let l = 6 + rng.below(20);
                let seq: Vec<u8> = (0..l)
                    .map(|_| if rng.chance(30, 100) { *rng.pick(b"KRPD") } else { *rng.pick(b"ACDEGLSTV") })
                    .collect();
                let desc = if rng.chance(1, 3) { Some(b"desc".to_vec()) } else { None };
                recs.push(Rec { acc, desc, seq, bare: false });
            }
            let width = *rng.pick(&[0usize, 5, 60]);
            let crlf = rng.below(2) as u8;
            let text = render(rng, &recs, width, crlf, 0, false, 0);
            let mut b = match rng.below(5) {
                0 => shape("KR", Some(b'P'), true),
                1 => shape("K", None, true),
                2 => shape("D", None, false),
                3 => shape("", None, true),
                _ => shape("KR", None, true),
            };
            let nonspecific = b.cleave.as_deref() == Some(&b""[..]);
            b.mc = Some(rng.below(3) as u8);
            b.semi = Some(!nonspecific && rng.chance(1, 4));
            let lo = 2 + rng.below(4);
            b.min_len = Some(lo);
            b.max_len = Some(if nonspecific { lo + rng.below(2) } else { lo + 4 + rng.below(20) });
            let mut o = Out::new();
            o.raw("fastadigest").bytes(tag).b(generate).bytes(&text);
            builder_tokens(&mut o, &b);
            o.n(POOLS.len());
            for p in POOLS {
                o.n(*p);
            }
            emit(Case::new(o.finish())
                .tag("fastadigest")
                .tag_if(generate, "generate-decoys")
                .tag_if(nrec % 2 == 1, "odd-record-count")
                .nontrivial(nrec >= 2));
        }
    }
}

/// proteins with very many cleavage fragments (u8 wrap-around of counts around 256/512/768)
fn gen_many_fragments(rng: &mut Rng, tier: Tier, emit: &mut dyn FnMut(Case)) {
    let counts: Vec<usize> = if tier == Tier::Quick {
        vec![254, 255, 256, 257, 258, 511, 512, 513, 600, 768, 770]
    } else {
        (250..=262).chain(508..=516).chain([600, 700, 766, 767, 768, 769, 770, 771, 1023, 1024, 1025, 1280]).collect()
    };
    for &nfrag in &counts {
        for mc in 0..=3u8 {
            for variant in 0..3 {
                // 0: C-terminal KR (fragments "x{0..2}[KR]"), protein ends in a cleavage residue (empty last site)
                // 1: same plus a non-cleaving tail            2: N-terminal D (fragments "Dx{0..2}")
                if tier == Tier::Quick && variant != (nfrag + mc as usize) % 3 {
                    continue;
                }
                let mut seq = Vec::with_capacity(nfrag * 3 + 3);
                for _ in 0..nfrag {
                    let k = rng.below(3);
                    if variant == 2 {
                        seq.push(b'D');
                    }
                    for _ in 0..k {
                        seq.push(*rng.pick(b"ACEGLSTV"));
                    }
                    if variant != 2 {
                        seq.push(*rng.pick(b"KR"));
                    }
                }
                if variant == 1 {
                    seq.extend_from_slice(b"AA");
                }
                let mut b = if variant == 2 { shape("D", None, false) } else { shape("KR", None, true) };
                b.mc = Some(mc);
                b.min_len = Some(if rng.chance(1, 2) { 1 } else { 2 });
                b.max_len = Some(50);
                emit_digest(emit, &b, &seq, &["many-fragments"]);
            }
        }
    }
    // exactly 256 fragments "AK": every window of every size reads the same few strings
    for mc in 0..=3u8 {
        let seq: Vec<u8> = b"AK".iter().cycle().take(512).cloned().collect();
        let mut b = shape("K", None, true);
        b.mc = Some(mc);
        emit_digest(emit, &b, &seq, &["many-fragments", "uniform-256"]);
    }
    // semi-enzymatic and non-specific on moderately long proteins (verdict against the proved model)
    let reps = if tier == Tier::Quick { 2 } else { 12 };
    for r in 0..reps {
        let nfrag = 256 + r;
        let mut seq = Vec::new();
        for _ in 0..nfrag {
            for _ in 0..rng.below(3) {
                seq.push(*rng.pick(b"ACEGLSTV"));
            }
            seq.push(*rng.pick(b"KR"));
        }
        let mut b = shape("KR", Some(b'P'), true);
        b.mc = Some(1 + (r % 2) as u8);
        b.semi = Some(true);
        b.min_len = Some(2);
        b.max_len = Some(8);
        emit_digest(emit, &b, &seq, &["many-fragments", "long-semi"]);
        let mut b = shape("", None, true);
        b.min_len = Some(5);
        b.max_len = Some(6);
        emit_digest(emit, &b, &seq[..seq.len().min(400)], &["long-nonspecific"]);
    }
    // missed_cleavages at the top of u8: 254 works, 255 overflows `1 + mc` (panic in this build)
    for (mc, cl) in [(254u8, "K"), (255, "K"), (255, "$"), (255, "")] {
        let mut b = shape(cl, None, true);
        b.mc = Some(mc);
        let c = Case::new(digest_request(&b, b"AKAKA")).tag("directed").tag("mc-u8-top").nontrivial(mc == 254);
        emit(c);
    }
}

pub fn gen(rng: &mut Rng, tier: Tier, emit: &mut dyn FnMut(Case)) {
    gen_many_fragments(rng, tier, emit);
    gen_digest(rng, tier, emit);
    gen_fasta(rng, tier, emit);
    gen_fastadigest(rng, tier, emit);
}

// -------------------------------------------------------------------------------------------- exec

fn opt<T>(t: &mut Toks, f: impl FnOnce(&mut Toks) -> Option<T>) -> Option<Option<T>> {
    if t.usize()? == 0 {
        Some(None)
    } else {
        Some(Some(f(t)?))
    }
}

pub fn exec(op: &str, t: &mut Toks) -> Option<String> {
    match op {
        "digest" => {
            let mc = opt(t, |t| t.usize())?;
            let min_len = opt(t, |t| t.usize())?;
            let max_len = opt(t, |t| t.usize())?;
            let cleave = opt(t, |t| t.string())?;
            let restrict = opt(t, |t| t.usize())?;
            let c_terminal = opt(t, |t| t.bool())?;
            let semi = opt(t, |t| t.bool())?;
            let seq = t.string()?;
            if !t.done() || !seq.is_ascii() {
                return None;
            }
            let builder = EnzymeBuilder {
                missed_cleavages: match mc {
                    Some(x) => Some(u8::try_from(x).ok()?),
                    None => None,
                },
                min_len,
                max_len,
                cleave_at: cleave,
                restrict: match restrict {
                    Some(x) => Some(u8::try_from(x).ok().filter(|b| b.is_ascii())? as char),
                    None => None,
                },
                c_terminal,
                semi_enzymatic: semi,
            };
            let params: EnzymeParameters = builder.into();
            let digests = params.digest(&seq, Arc::from("P"));
            let mut o = Out::new();
            o.n(digests.len());
            for d in &digests {
                o.s(&d.sequence).n(d.missed_cleavages).n(match d.position {
                    Position::Nterm => 0,
                    Position::Cterm => 1,
                    Position::Full => 2,
                    Position::Internal => 3,
                });
                o.b(d.semi_enzymatic);
            }
            Some(o.finish())
        }
        "fasta" => {
            let tag = t.string()?;
            let generate = t.bool()?;
            let text = t.string()?;
            if !t.done() || !text.is_ascii() || !tag.is_ascii() {
                return None;
            }
            let fasta = Fasta::parse(text, tag, generate);
            let mut o = Out::new();
            o.n(fasta.targets.len());
            for (acc, seq) in &fasta.targets {
                o.s(acc).s(seq);
            }
            Some(o.finish())
        }
        "fastadigest" => {
            let tag = t.string()?;
            let generate = t.bool()?;
            let text = t.string()?;
            let mc = opt(t, |t| t.usize())?;
            let min_len = opt(t, |t| t.usize())?;
            let max_len = opt(t, |t| t.usize())?;
            let cleave = opt(t, |t| t.string())?;
            let restrict = opt(t, |t| t.usize())?;
            let c_terminal = opt(t, |t| t.bool())?;
            let semi = opt(t, |t| t.bool())?;
            let pools = t.list(|t| t.usize())?;
            if !t.done() || !text.is_ascii() || !tag.is_ascii() || pools.iter().any(|&p| p == 0 || p > 64) {
                return None;
            }
            let builder = EnzymeBuilder {
                missed_cleavages: match mc {
                    Some(x) => Some(u8::try_from(x).ok()?),
                    None => None,
                },
                min_len,
                max_len,
                cleave_at: cleave,
                restrict: match restrict {
                    Some(x) => Some(u8::try_from(x).ok().filter(|b| b.is_ascii())? as char),
                    None => None,
                },
                c_terminal,
                semi_enzymatic: semi,
            };
            let params: EnzymeParameters = builder.into();
            let fasta = Fasta::parse(text, tag, generate);
            let mut o = Out::new();
            o.n(pools.len());
            for &p in &pools {
                let pool = rayon::ThreadPoolBuilder::new().num_threads(p).build().ok()?;
                let digests = pool.install(|| fasta.digest(&params));
                let mut items: Vec<String> = digests
                    .iter()
                    .map(|d| {
                        let mut i = Out::new();
                        i.s(&d.protein).s(&d.sequence).n(d.missed_cleavages).n(match d.position {
                            Position::Nterm => 0,
                            Position::Cterm => 1,
                            Position::Full => 2,
                            Position::Internal => 3,
                        });
                        i.b(d.semi_enzymatic).b(d.decoy);
                        i.finish()
                    })
                    .collect();
                items.sort();
                o.n(items.len());
                for it in &items {
                    o.raw(it);
                }
            }
            Some(o.finish())
        }
        _ => None,
    }
}
