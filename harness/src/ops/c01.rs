//! C01 — end to end: run the built `sage` binary on generated FASTA / MGF / JSON, parse every
//! output table, and hand the rows to the Lean driver, which evaluates `RowOK` on them.
//!
//!   e2e <cfg…> <fasta…> <files…> <planted…>  ->  ok <tsv rows…> <pin rows…> <fragment rows…> | err:<class>
//!
//! The driver also runs the COMPOSED PIPELINE MODEL (Model/C01Pipeline.lean) on the request and compares its rows with
//! the TSV rows (search-stage columns). Runs whose database would be too large for the list-based Lean model are
//! answered `model-na:too-large` by the driver; the generator predicts this with the same two size criteria and tags
//! every run `model-compared` or `model-na:too-large`, so the evidence shows how many runs were model-compared.
//!
//! The request is self-contained (structured configuration, FASTA records, spectra, planted
//! peptides); the harness renders JSON / FASTA / MGF text from it into a scratch directory outside
//! /repo and /verif, runs the binary there and removes the directory afterwards.
use super::Info;
use crate::proto::{Case, Out, Rng, Tier, Toks};
use sage_core::database::Builder;
use sage_core::fasta::Fasta;
use sage_core::ion_series::{IonSeries, Kind};
use sage_core::mass::{NEUTRON, PROTON};
use std::collections::HashMap;
use std::io::Write;

pub const OPS: &[&str] = &["e2e"];
pub const INFO: Info = Info {
    rule: "end-to-end runs of the sage binary: random proteome (2-6 proteins, length 12-60, alphabet rich in K/R/P/M/C, \
           shared peptides, palindromes) x enzyme (trypsin, trypsin/P off, Lys-C, Asp-N, semi, mc 0-2) x static/variable \
           mods x ppm|Da precursor tolerance x isotope errors x internal|FASTA decoys x report_psms x chimera x pin x \
           annotate x batch size; spectra = full b/y ladders of database peptides (+noise, isotope-shifted precursors, \
           charge annotated or not); non-trivial = the run reported at least 2 PSM rows; distinct by request",
    serial: true,
};

#[derive(Clone, Debug)]
pub struct Cfg {
    pub cleave: String,
    pub restrict: Option<u8>,
    pub cterm: bool,
    pub semi: bool,
    pub mc: u8,
    pub min_len: usize,
    pub max_len: usize,
    pub min_mass: f32,
    pub max_mass: f32,
    pub statics: Vec<(String, f32)>,
    pub vars: Vec<(String, Vec<f32>)>,
    pub max_var: usize,
    pub decoy_tag: String,
    pub gen_decoys: bool,
    pub ptol: (u8, f32, f32), // 0 = ppm, 1 = da
    pub ftol: (u8, f32, f32),
    pub iso: (i8, i8),
    pub z: (u8, u8),
    pub report_psms: usize,
    pub chimera: bool,
    pub min_peaks: usize,
    pub max_peaks: usize,
    pub min_matched: u16,
    pub max_frag_charge: Option<u8>,
    pub deisotope: bool,
    pub annotate: bool,
    pub pin: bool,
    pub predict_rt: bool,
    pub batch: usize,
    pub bucket: usize,
    pub min_ion_index: usize,
    /// 0 = no TMT quantification, else the plex (6, 10, 11, 16, 18), always at MS2 level
    pub tmt: u8,
    /// `override_precursor_charge`: ignore the annotated charge and search z_lo..=z_hi
    pub override_charge: bool,
    /// `database.prefilter` with `prefilter_chunk_size` (0 = let sage choose)
    pub prefilter: bool,
    pub prefilter_chunk: usize,
}

#[derive(Clone, Debug)]
pub struct Spec {
    pub title: String,
    pub pepmz: f32,
    pub charge: Option<u8>,
    pub rt_sec: f32,
    pub peaks: Vec<(f32, f32)>,
}

#[derive(Clone, Debug)]
pub struct Planted {
    pub file: usize,
    pub title: String,
    pub peptide: String,
}

pub struct Request {
    pub cfg: Cfg,
    pub fasta: Vec<(String, String)>,
    pub files: Vec<Vec<Spec>>,
    pub planted: Vec<Planted>,
    /// generator-side prediction (not on the wire): the Lean driver will not run the composed pipeline model on
    /// this run because its list-based database / index build would be too slow (`model-na:too-large`)
    pub model_too_large: bool,
}

/// the two size criteria of the driver (`buildCost` > COST_LIMIT, `indexCost` > INDEX_LIMIT in Drv/C01.lean),
/// computed from the real digests / the real fragment count
pub const COST_LIMIT: usize = 60_000;
pub const INDEX_LIMIT: usize = 200_000_000;

pub fn build_cost(digest_lens: &[usize], nvar: usize, max_var: usize) -> usize {
    digest_lens
        .iter()
        .map(|len| {
            let n = len + 2;
            let sites = if nvar == 0 { 0 } else { (n * nvar).min(12) };
            1 + if max_var >= 2 { sites * sites / 2 + sites } else { sites }
        })
        .sum()
}

pub fn index_cost(nfrags: usize, bucket: usize) -> usize {
    nfrags * (nfrags / bucket.max(1) + 1)
}

fn enc_tol(o: &mut Out, t: (u8, f32, f32)) {
    o.n(t.0).f32(t.1).f32(t.2);
}

pub fn encode(r: &Request) -> String {
    let c = &r.cfg;
    let mut o = Out::new();
    o.raw("e2e");
    o.s(&c.cleave);
    match c.restrict {
        Some(x) => o.n(1).n(x),
        None => o.n(0),
    };
    o.b(c.cterm).b(c.semi).n(c.mc).n(c.min_len).n(c.max_len).f32(c.min_mass).f32(c.max_mass);
    o.n(c.statics.len());
    for (k, m) in &c.statics {
        o.s(k).f32(*m);
    }
    o.n(c.vars.len());
    for (k, ms) in &c.vars {
        o.s(k).n(ms.len());
        for m in ms {
            o.f32(*m);
        }
    }
    o.n(c.max_var).s(&c.decoy_tag).b(c.gen_decoys);
    enc_tol(&mut o, c.ptol);
    enc_tol(&mut o, c.ftol);
    o.n(c.iso.0).n(c.iso.1).n(c.z.0).n(c.z.1).n(c.report_psms).b(c.chimera).n(c.min_peaks).n(c.max_peaks).n(c.min_matched);
    match c.max_frag_charge {
        Some(x) => o.n(1).n(x),
        None => o.n(0),
    };
    o.b(c.deisotope).b(c.annotate).b(c.pin).b(c.predict_rt).n(c.batch).n(c.bucket).n(c.min_ion_index).n(c.tmt).b(c.override_charge);
    o.n(r.fasta.len());
    for (a, s) in &r.fasta {
        o.s(a).s(s);
    }
    o.n(r.files.len());
    for f in &r.files {
        o.n(f.len());
        for s in f {
            o.s(&s.title).f32(s.pepmz);
            match s.charge {
                Some(z) => o.n(1).n(z),
                None => o.n(0),
            };
            o.f32(s.rt_sec).n(s.peaks.len());
            for (mz, int) in &s.peaks {
                o.f32(*mz).f32(*int);
            }
        }
    }
    o.n(r.planted.len());
    for p in &r.planted {
        o.n(p.file).s(&p.title).s(&p.peptide);
    }
    // optional trailing tokens (absent in older request lines = false / 0)
    o.b(c.prefilter).n(c.prefilter_chunk);
    o.finish()
}

fn dec_tol(t: &mut Toks) -> Option<(u8, f32, f32)> {
    Some((t.usize()? as u8, t.f32()?, t.f32()?))
}

pub fn decode(t: &mut Toks) -> Option<Request> {
    let cleave = t.string()?;
    let restrict = t.opt(|t| t.usize())?.map(|x| x as u8);
    let cterm = t.bool()?;
    let semi = t.bool()?;
    let mc = t.usize()? as u8;
    let min_len = t.usize()?;
    let max_len = t.usize()?;
    let min_mass = t.f32()?;
    let max_mass = t.f32()?;
    let statics = t.list(|t| Some((t.string()?, t.f32()?)))?;
    let vars = t.list(|t| Some((t.string()?, t.list(|t| t.f32())?)))?;
    let max_var = t.usize()?;
    let decoy_tag = t.string()?;
    let gen_decoys = t.bool()?;
    let ptol = dec_tol(t)?;
    let ftol = dec_tol(t)?;
    let iso = (t.i64()? as i8, t.i64()? as i8);
    let z = (t.usize()? as u8, t.usize()? as u8);
    let report_psms = t.usize()?;
    let chimera = t.bool()?;
    let min_peaks = t.usize()?;
    let max_peaks = t.usize()?;
    let min_matched = t.usize()? as u16;
    let max_frag_charge = t.opt(|t| t.usize())?.map(|x| x as u8);
    let deisotope = t.bool()?;
    let annotate = t.bool()?;
    let pin = t.bool()?;
    let predict_rt = t.bool()?;
    let batch = t.usize()?;
    let bucket = t.usize()?;
    let min_ion_index = t.usize()?;
    let tmt = t.usize()? as u8;
    let override_charge = t.bool()?;
    let fasta = t.list(|t| Some((t.string()?, t.string()?)))?;
    let files = t.list(|t| {
        t.list(|t| {
            Some(Spec {
                title: t.string()?,
                pepmz: t.f32()?,
                charge: t.opt(|t| t.usize())?.map(|x| x as u8),
                rt_sec: t.f32()?,
                peaks: t.list(|t| Some((t.f32()?, t.f32()?)))?,
            })
        })
    })?;
    let planted = t.list(|t| Some(Planted { file: t.usize()?, title: t.string()?, peptide: t.string()? }))?;
    let (prefilter, prefilter_chunk) = match t.bool() {
        Some(p) => (p, t.usize()?),
        None => (false, 0),
    };
    Some(Request {
        cfg: Cfg {
            cleave, restrict, cterm, semi, mc, min_len, max_len, min_mass, max_mass, statics, vars, max_var,
            decoy_tag, gen_decoys, ptol, ftol, iso, z, report_psms, chimera, min_peaks, max_peaks, min_matched,
            max_frag_charge, deisotope, annotate, pin, predict_rt, batch, bucket, min_ion_index, tmt, override_charge, prefilter, prefilter_chunk,
        },
        fasta,
        files,
        planted,
        model_too_large: false,
    })
}

fn tol_json(t: (u8, f32, f32)) -> serde_json::Value {
    if t.0 == 0 {
        serde_json::json!({"ppm": [t.1, t.2]})
    } else {
        serde_json::json!({"da": [t.1, t.2]})
    }
}

pub fn database_json(c: &Cfg, fasta_path: &str) -> serde_json::Value {
    let statics: HashMap<String, f32> = c.statics.iter().cloned().collect();
    let vars: HashMap<String, Vec<f32>> = c.vars.iter().cloned().collect();
    serde_json::json!({
        "bucket_size": c.bucket,
        "enzyme": {
            "missed_cleavages": c.mc,
            "min_len": c.min_len,
            "max_len": c.max_len,
            "cleave_at": c.cleave,
            "restrict": c.restrict.map(|x| (x as char).to_string()),
            "c_terminal": c.cterm,
            "semi_enzymatic": c.semi,
        },
        "peptide_min_mass": c.min_mass,
        "peptide_max_mass": c.max_mass,
        "min_ion_index": c.min_ion_index,
        "static_mods": statics,
        "variable_mods": vars,
        "max_variable_mods": c.max_var,
        "decoy_tag": c.decoy_tag,
        "generate_decoys": c.gen_decoys,
        "prefilter": c.prefilter,
        "prefilter_chunk_size": c.prefilter_chunk,
        "fasta": fasta_path,
    })
}

pub fn config_json(c: &Cfg, fasta_path: &str, spectra_paths: &[String], outdir: &str) -> serde_json::Value {
    let quant = match c.tmt {
        0 => serde_json::json!({}),
        n => serde_json::json!({"tmt": format!("Tmt{}", n), "tmt_settings": {"level": 2, "sn": false}}),
    };
    serde_json::json!({
        "quant": quant,
        "database": database_json(c, fasta_path),
        "precursor_tol": tol_json(c.ptol),
        "fragment_tol": tol_json(c.ftol),
        "report_psms": c.report_psms,
        "chimera": c.chimera,
        "min_peaks": c.min_peaks,
        "max_peaks": c.max_peaks,
        "max_fragment_charge": c.max_frag_charge,
        "min_matched_peaks": c.min_matched,
        "precursor_charge": [c.z.0, c.z.1],
        "override_precursor_charge": c.override_charge,
        "isotope_errors": [c.iso.0, c.iso.1],
        "deisotope": c.deisotope,
        "predict_rt": c.predict_rt,
        "output_directory": outdir,
        "mzml_paths": spectra_paths,
    })
}

pub fn fasta_text(recs: &[(String, String)]) -> String {
    let mut s = String::new();
    for (i, (a, q)) in recs.iter().enumerate() {
        s.push_str(&format!(">{} description {}\n", a, i));
        // wrap at 60, like real FASTA files
        for chunk in q.as_bytes().chunks(60) {
            s.push_str(std::str::from_utf8(chunk).unwrap());
            s.push('\n');
        }
    }
    s
}

pub fn mgf_text(specs: &[Spec]) -> String {
    let mut s = String::new();
    for sp in specs {
        s.push_str("BEGIN IONS\n");
        s.push_str(&format!("TITLE={}\n", sp.title));
        s.push_str(&format!("PEPMASS={}\n", sp.pepmz));
        if let Some(z) = sp.charge {
            s.push_str(&format!("CHARGE={}+\n", z));
        }
        s.push_str(&format!("RTINSECONDS={}\n", sp.rt_sec));
        for (mz, int) in &sp.peaks {
            s.push_str(&format!("{} {}\n", mz, int));
        }
        s.push_str("END IONS\n\n");
    }
    s
}

fn sage_bin() -> String {
    std::env::var("VERIF_SAGE_BIN").unwrap_or_else(|_| {
        let exe = std::env::current_exe().unwrap();
        // <harness>/target/debug/<exe>  ->  <harness>/target-sage/debug/sage
        let harness = exe.parent().unwrap().parent().unwrap().parent().unwrap();
        harness.join("target-sage").join("debug").join("sage").to_string_lossy().to_string()
    })
}

struct Scratch(std::path::PathBuf);
impl Drop for Scratch {
    fn drop(&mut self) {
        let _ = std::fs::remove_dir_all(&self.0);
    }
}

fn scratch() -> Scratch {
    use std::sync::atomic::{AtomicUsize, Ordering};
    static N: AtomicUsize = AtomicUsize::new(0);
    let d = std::env::temp_dir().join(format!("sage-verif-e2e-{}-{}", std::process::id(), N.fetch_add(1, Ordering::SeqCst)));
    std::fs::create_dir_all(&d).unwrap();
    Scratch(d)
}

fn read_table(path: &std::path::Path) -> Option<(Vec<String>, Vec<Vec<String>>)> {
    let text = std::fs::read_to_string(path).ok()?;
    let mut lines = text.lines();
    let header: Vec<String> = lines.next()?.split('\t').map(|s| s.to_string()).collect();
    let rows = lines.filter(|l| !l.is_empty()).map(|l| l.split('\t').map(|s| s.to_string()).collect()).collect();
    Some((header, rows))
}

enum Ty {
    U,
    I,
    S,
    F32,
    F64,
}

fn emit_table(o: &mut Out, table: &(Vec<String>, Vec<Vec<String>>), cols: &[(&str, Ty)]) -> Result<(), String> {
    let (header, rows) = table;
    let mut idx = Vec::new();
    for (name, _) in cols {
        match header.iter().position(|h| h == name) {
            Some(i) => idx.push(i),
            None => return Err(format!("err:missing-column:{}", name)),
        }
    }
    o.n(rows.len());
    for r in rows {
        for ((name, ty), &i) in cols.iter().zip(idx.iter()) {
            let cell = r.get(i).ok_or_else(|| format!("err:short-row:{}", name))?;
            match ty {
                Ty::U => {
                    o.n(cell.parse::<u64>().map_err(|_| format!("err:bad-cell:{}", name))?);
                }
                Ty::I => {
                    o.n(cell.parse::<i64>().map_err(|_| format!("err:bad-cell:{}", name))?);
                }
                Ty::S => {
                    o.s(cell);
                }
                Ty::F32 => {
                    o.f32(cell.parse::<f32>().map_err(|_| format!("err:bad-cell:{}", name))?);
                }
                Ty::F64 => {
                    o.f64(cell.parse::<f64>().map_err(|_| format!("err:bad-cell:{}", name))?);
                }
            }
        }
    }
    Ok(())
}

pub fn run(r: &Request) -> String {
    let sc = scratch();
    let dir = &sc.0;
    let fasta_path = dir.join("db.fasta");
    std::fs::write(&fasta_path, fasta_text(&r.fasta)).unwrap();
    let mut paths = Vec::new();
    for (i, f) in r.files.iter().enumerate() {
        let p = dir.join(format!("file{}.mgf", i));
        std::fs::write(&p, mgf_text(f)).unwrap();
        paths.push(p.to_string_lossy().to_string());
    }
    let outdir = dir.join("out");
    let cfg = config_json(&r.cfg, &fasta_path.to_string_lossy(), &paths, &outdir.to_string_lossy());
    let cfg_path = dir.join("cfg.json");
    std::fs::File::create(&cfg_path).unwrap().write_all(serde_json::to_string_pretty(&cfg).unwrap().as_bytes()).unwrap();

    let mut cmd = std::process::Command::new(sage_bin());
    cmd.arg(&cfg_path)
        .arg("--batch-size")
        .arg(r.cfg.batch.to_string())
        .arg("--disable-telemetry-i-dont-want-to-improve-sage")
        .env("SAGE_LOG", "error")
        .env("RAYON_NUM_THREADS", "4")
        .current_dir(dir)
        .stdout(std::process::Stdio::null())
        .stderr(std::process::Stdio::piped());
    if r.cfg.pin {
        cmd.arg("--write-pin");
    }
    if r.cfg.annotate {
        cmd.arg("--annotate-matches");
    }
    let outp = match cmd.output() {
        Ok(o) => o,
        Err(_) => return "err:cannot-run-sage-binary".into(),
    };
    if !outp.status.success() {
        let e = String::from_utf8_lossy(&outp.stderr);
        let class = if e.contains("panicked") { "panic" } else { "err:nonzero-exit" };
        return class.to_string();
    }
    let tsv = match read_table(&outdir.join("results.sage.tsv")) {
        Some(t) => t,
        None => return "err:no-results-tsv".into(),
    };
    let mut o = Out::new();
    o.raw("ok");
    use Ty::*;
    let res = emit_table(
        &mut o,
        &tsv,
        &[
            ("psm_id", U), ("peptide", S), ("proteins", S), ("num_proteins", U), ("filename", S), ("scannr", S),
            ("rank", U), ("label", I), ("expmass", F32), ("calcmass", F32), ("charge", U), ("peptide_len", U),
            ("missed_cleavages", U), ("semi_enzymatic", U), ("isotope_error", F32), ("precursor_ppm", F32),
            ("fragment_ppm", F32), ("hyperscore", F64), ("delta_next", F64), ("delta_best", F64), ("rt", F32),
            ("matched_peaks", U), ("longest_b", U), ("longest_y", U), ("scored_candidates", U), ("poisson", F64),
            ("sage_discriminant_score", F32), ("posterior_error", F32), ("spectrum_q", F32), ("peptide_q", F32),
            ("protein_q", F32), ("ms2_intensity", F32), ("matched_intensity_pct", F32),
        ],
    );
    if let Err(e) = res {
        return e;
    }
    // pin
    if r.cfg.pin {
        match read_table(&outdir.join("results.sage.pin")) {
            None => return "err:no-pin".into(),
            Some(t) => {
                if let Err(e) = emit_table(
                    &mut o,
                    &t,
                    &[
                        ("SpecId", U), ("Label", I), ("ScanNr", S), ("ExpMass", F32), ("CalcMass", F32), ("FileName", S),
                        ("rank", U), ("z=2", U), ("z=3", U), ("z=4", U), ("z=5", U), ("z=6", U), ("z=other", U),
                        ("peptide_len", U), ("missed_cleavages", U), ("Peptide", S), ("Proteins", S),
                    ],
                ) {
                    return e;
                }
            }
        }
    } else {
        o.n(0);
    }
    if r.cfg.annotate {
        match read_table(&outdir.join("matched_fragments.sage.tsv")) {
            None => return "err:no-fragments".into(),
            Some(t) => {
                if let Err(e) = emit_table(
                    &mut o,
                    &t,
                    &[
                        ("psm_id", U), ("fragment_type", S), ("fragment_ordinals", I), ("fragment_charge", I),
                        ("fragment_mz_calculated", F32), ("fragment_mz_experimental", F32), ("fragment_intensity", F32),
                    ],
                ) {
                    return e;
                }
            }
        }
    } else {
        o.n(0);
    }
    // tmt.tsv: filename, scannr, then one column per channel
    if r.cfg.tmt != 0 {
        match read_table(&outdir.join("tmt.tsv")) {
            None => return "err:no-tmt".into(),
            Some((header, rows)) => {
                let fi = header.iter().position(|h| h == "filename");
                let si = header.iter().position(|h| h == "scannr");
                let chans: Vec<usize> = header.iter().enumerate().filter(|(_, h)| h.starts_with("tmt_")).map(|(i, _)| i).collect();
                let (fi, si) = match (fi, si) {
                    (Some(a), Some(b)) => (a, b),
                    _ => return "err:missing-column:tmt".into(),
                };
                o.n(rows.len());
                for row in &rows {
                    if row.len() != header.len() {
                        return "err:short-row:tmt".into();
                    }
                    o.s(&row[fi]).s(&row[si]).n(chans.len());
                    for &c in &chans {
                        match row[c].parse::<f32>() {
                            Ok(v) => o.f32(v),
                            Err(_) => return "err:bad-cell:tmt".into(),
                        };
                    }
                }
            }
        }
    } else {
        o.n(0);
    }
    o.finish()
}

pub fn exec(_op: &str, t: &mut Toks) -> Option<String> {
    let r = decode(t)?;
    Some(run(&r))
}

// ------------------------------------------------------------------------------------- generator

const ALPHABET: &[u8] = b"AAGGLLSSVVEEDDTTKKKRRRPPMMCCFFNNQQHIWY";

fn random_protein(rng: &mut Rng, len: usize) -> String {
    let mut s = Vec::with_capacity(len);
    for _ in 0..len {
        s.push(*rng.pick(ALPHABET));
    }
    // make sure there are cleavage sites
    let n = s.len();
    for i in (6..n).step_by(9) {
        if rng.chance(2, 3) {
            s[i] = if rng.chance(1, 2) { b'K' } else { b'R' };
        }
    }
    String::from_utf8(s).unwrap()
}

fn random_cfg(rng: &mut Rng) -> Cfg {
    let enzyme = rng.below(6);
    let (cleave, restrict, cterm) = match enzyme {
        0 | 1 => ("KR", Some(b'P'), true),
        2 => ("KR", None, true),
        3 => ("K", None, true),
        4 => ("D", None, false),
        _ => ("KR", Some(b'P'), true),
    };
    let semi = enzyme == 5;
    let statics = match rng.below(3) {
        0 => vec![],
        1 => vec![("C".to_string(), 57.0215f32)],
        _ => vec![("C".to_string(), 57.0215f32), ("K".to_string(), 229.1629f32)],
    };
    let vars = match rng.below(4) {
        0 => vec![],
        1 => vec![("M".to_string(), vec![15.9949f32])],
        2 => vec![("M".to_string(), vec![15.9949f32]), ("^".to_string(), vec![42.0106f32])],
        _ => vec![("M".to_string(), vec![15.9949f32]), ("[".to_string(), vec![42.0106f32]), ("S".to_string(), vec![79.9663f32])],
    };
    let ptol = if rng.chance(2, 3) { (0u8, -20.0f32, 20.0f32) } else { (1u8, -0.5f32, 0.5f32) };
    let ftol = if rng.chance(2, 3) { (0u8, -20.0f32, 20.0f32) } else { (1u8, -0.02f32, 0.02f32) };
    let iso = *rng.pick(&[(0i8, 0i8), (0, 0), (-1, 2), (0, 1)]);
    Cfg {
        cleave: cleave.into(),
        restrict,
        cterm,
        semi,
        mc: rng.below(3) as u8,
        min_len: 5,
        max_len: 30,
        min_mass: 400.0,
        max_mass: 5000.0,
        statics,
        vars,
        max_var: 1 + rng.below(2),
        decoy_tag: if rng.chance(1, 3) { "DECOY_".into() } else { "rev_".into() },
        gen_decoys: true,
        ptol,
        ftol,
        iso,
        z: (2, 3),
        report_psms: 1 + rng.below(3),
        chimera: rng.chance(1, 5),
        min_peaks: 4,
        max_peaks: 150,
        min_matched: 3,
        max_frag_charge: if rng.chance(1, 3) { Some(1) } else { None },
        deisotope: rng.chance(1, 2),
        annotate: rng.chance(1, 2),
        pin: rng.chance(1, 2),
        predict_rt: rng.chance(1, 2),
        batch: 1 + rng.below(3),
        bucket: *rng.pick(&[8usize, 64, 8192]),
        min_ion_index: *rng.pick(&[1usize, 2]),
        tmt: if rng.chance(1, 3) { *rng.pick(&[6u8, 10, 11, 16, 18]) } else { 0 },
        override_charge: rng.chance(1, 4),
        prefilter: false,
        prefilter_chunk: 0,
    }
}

pub fn random_request(rng: &mut Rng, nspec: usize) -> Option<Request> {
    random_request_with(rng, nspec, &|_| {})
}

/// `tweak` adjusts the configuration BEFORE the database is built and the spectra are synthesised
pub fn random_request_with(rng: &mut Rng, nspec: usize, tweak: &dyn Fn(&mut Cfg)) -> Option<Request> {
    let mut cfg = random_cfg(rng);
    tweak(&mut cfg);
    let nprot = 2 + rng.below(5);
    let mut fasta: Vec<(String, String)> = Vec::new();
    for i in 0..nprot {
        let len = 20 + rng.below(60);
        fasta.push((format!("sp|P{:05}|PROT{}", i, i), random_protein(rng, len)));
    }
    // a shared peptide between two proteins
    if nprot >= 2 {
        let src = fasta[0].1.clone();
        if src.len() > 20 {
            let piece = &src[5..18];
            fasta[1].1 = format!("{}K{}R{}", &fasta[1].1[..8.min(fasta[1].1.len())], piece, &fasta[1].1[8.min(fasta[1].1.len())..]);
        }
    }
    // FASTA-supplied decoys in some runs
    if rng.chance(1, 4) {
        cfg.gen_decoys = false;
        let n = fasta.len();
        for i in 0..n {
            let rev: String = fasta[i].1.chars().rev().collect();
            fasta.push((format!("{}{}", cfg.decoy_tag, fasta[i].0), rev));
        }
    }
    else if cfg.gen_decoys && rng.chance(1, 3) {
        // decoys are generated internally, yet the FASTA already carries decoy-tagged records (they must be
        // dropped by the reader) — interleaved with the targets or placed first, not only appended
        let n = fasta.len();
        let mut mixed: Vec<(String, String)> = Vec::new();
        for i in 0..n {
            if rng.chance(1, 2) {
                let rev: String = fasta[i].1.chars().rev().collect();
                mixed.push((format!("{}{}", cfg.decoy_tag, fasta[i].0), rev));
            }
            mixed.push(fasta[i].clone());
        }
        fasta = mixed;
    }
    // build the database with the real code, only to choose peptides to plant
    let text = fasta_text(&fasta);
    let builder: Builder = serde_json::from_value(database_json(&cfg, "unused")).ok()?;
    let params = builder.make_parameters();
    let fa = Fasta::parse(text, &params.decoy_tag, params.generate_decoys);
    let digest_lens: Vec<usize> = fa.digest(&params.enzyme.clone().into()).iter().map(|d| d.sequence.len()).collect();
    let nvar: usize = cfg.vars.iter().map(|(_, ms)| ms.len()).sum();
    let db = std::panic::catch_unwind(|| params.build(fa)).ok()?;
    if db.peptides.is_empty() {
        return None;
    }
    let model_too_large = build_cost(&digest_lens, nvar, cfg.max_var.max(1)) > COST_LIMIT
        || index_cost(db.fragments.len(), cfg.bucket) > INDEX_LIMIT;
    let nfiles = 1 + rng.below(3);
    let mut files: Vec<Vec<Spec>> = vec![Vec::new(); nfiles];
    let mut planted = Vec::new();
    for k in 0..nspec {
        let pep = &db.peptides[rng.below(db.peptides.len())];
        let z = 2 + rng.below(2) as u8;
        let iso_k = if cfg.iso.0 == cfg.iso.1 { 0.0 } else { rng.range(cfg.iso.0 as i64, cfg.iso.1 as i64) as f32 };
        let mass = pep.monoisotopic + iso_k * NEUTRON;
        let pepmz = (mass + z as f32 * PROTON) / z as f32;
        let mut peaks: Vec<(f32, f32)> = Vec::new();
        for kind in [Kind::B, Kind::Y] {
            for ion in IonSeries::new(pep, kind) {
                let inten = *rng.pick(&[50.0f32, 100.0, 100.0, 200.0, 400.0]);
                peaks.push((ion.monoisotopic_mass + PROTON, inten));
            }
        }
        for _ in 0..rng.below(12) {
            peaks.push((150.0 + rng.unit() as f32 * 1500.0, *rng.pick(&[10.0f32, 20.0, 50.0])));
        }
        if cfg.tmt != 0 {
            // reporter peaks exactly on the channel m/z (plus a few absent channels and a second, weaker
            // peak 3 ppm away in some windows)
            let plex = match cfg.tmt {
                6 => sage_core::tmt::Isobaric::Tmt6,
                10 => sage_core::tmt::Isobaric::Tmt10,
                11 => sage_core::tmt::Isobaric::Tmt11,
                16 => sage_core::tmt::Isobaric::Tmt16,
                _ => sage_core::tmt::Isobaric::Tmt18,
            };
            peaks.retain(|p| p.0 > 140.0);
            for &m in plex.reporter_masses() {
                if rng.chance(1, 6) {
                    continue;
                }
                let inten = *rng.pick(&[30.0f32, 60.0, 120.0, 240.0]);
                peaks.push((m, inten));
                if rng.chance(1, 4) {
                    peaks.push((m * (1.0 + 3.0e-6), inten / 2.0));
                }
            }
        }
        peaks.sort_by(|a, b| a.0.total_cmp(&b.0));
        let file = rng.below(nfiles);
        let title = format!("scan={}", 1000 + k);
        files[file].push(Spec {
            title: title.clone(),
            pepmz,
            // with override_precursor_charge the annotation is ignored by the search: annotate a WRONG charge
            // in some spectra so that a row built from the annotation instead of the searched charge shows
            charge: if cfg.override_charge && rng.chance(1, 2) {
                Some(if z == 2 { 3 } else { 2 })
            } else if rng.chance(3, 4) {
                Some(z)
            } else {
                None
            },
            rt_sec: 60.0 + 30.0 * k as f32,
            peaks,
        });
        // the property's hypothesis: a target that is the only target inside the searched precursor windows
        let charge_annotated = files[file].last().unwrap().charge;
        let zs: Vec<u8> = match charge_annotated {
            Some(z) if !cfg.override_charge => vec![z],
            _ => (cfg.z.0..=cfg.z.1).collect(),
        };
        let mut unique = !pep.decoy && !cfg.deisotope;
        if unique {
            'outer: for q in db.peptides.iter() {
                if q.decoy || std::ptr::eq(q, pep) {
                    continue;
                }
                for &zq in &zs {
                    let m_obs = (pepmz - PROTON) * zq as f32;
                    for k in cfg.iso.0..=cfg.iso.1 {
                        let center = m_obs - k as f32 * NEUTRON;
                        let (lo, hi) = if cfg.ptol.0 == 0 {
                            (center + center * cfg.ptol.1 / 1e6, center + center * cfg.ptol.2 / 1e6)
                        } else {
                            (center + cfg.ptol.1, center + cfg.ptol.2)
                        };
                        if q.monoisotopic >= lo - 0.01 && q.monoisotopic <= hi + 0.01 {
                            unique = false;
                            break 'outer;
                        }
                    }
                }
            }
        }
        if unique {
            planted.push(Planted { file, title, peptide: pep.to_string() });
        }
    }
    for f in files.iter_mut() {
        if f.is_empty() {
            // every file needs at least one spectrum block
            f.push(Spec { title: "scan=1".into(), pepmz: 500.0, charge: Some(2), rt_sec: 1.0, peaks: vec![(200.0, 1.0), (300.0, 1.0)] });
        }
    }
    Some(Request { cfg, fasta, files, planted, model_too_large })
}

/// directed shapes that every run must contain (index = which one)
fn directed(rng: &mut Rng, which: usize) -> Option<Request> {
    let mut r = match which {
        // chunked pre-filter build + isotope-shifted precursors: a planted peptide seen only with a 13C
        // offset must survive the pre-filter pass and be reported
        2 => random_request_with(rng, 9, &|c| {
            c.prefilter = true;
            c.prefilter_chunk = 2;
            c.iso = (-1, 2);
            c.chimera = false;
            c.tmt = 0;
            c.gen_decoys = true;
            // so that the planted-peptide claims are made (they need an intact ladder and a unique target)
            c.deisotope = false;
            c.ptol = (0, -10.0, 10.0);
            c.semi = false;
        })?,
        // chimeric search that really returns several PSMs per spectrum
        3 => random_request_with(rng, 9, &|c| {
            c.chimera = true;
            c.report_psms = 2;
            c.min_matched = 3;
            c.tmt = 0;
            c.deisotope = false;
            c.ptol = (1, -30.0, 30.0);
        })?,
        _ => random_request(rng, 9)?,
    };
    match which {
        // more files than the batch size, file count not a multiple of it (last batch is short)
        0 => {
            r.cfg.batch = 2;
            let all: Vec<Spec> = r.files.drain(..).flatten().collect();
            r.files = vec![Vec::new(), Vec::new(), Vec::new()];
            for (i, s) in all.into_iter().enumerate() {
                r.files[i % 3].push(s);
            }
            for p in r.planted.iter_mut() {
                // planted entries are re-attached by title below
                p.file = usize::MAX;
            }
            let titles: Vec<(usize, String)> = r.files.iter().enumerate().flat_map(|(fi, f)| f.iter().map(move |s| (fi, s.title.clone()))).collect();
            for p in r.planted.iter_mut() {
                if let Some((fi, _)) = titles.iter().find(|(_, t)| *t == p.title) {
                    p.file = *fi;
                }
            }
            r.planted.retain(|p| p.file != usize::MAX);
            if r.files.iter().any(|f| f.is_empty()) {
                return None;
            }
        }
        // charge annotation overridden, with wrong annotations present
        1 => {
            r.cfg.override_charge = true;
            r.cfg.z = (2, 3);
            for f in r.files.iter_mut() {
                for (k, s) in f.iter_mut().enumerate() {
                    if k % 2 == 0 {
                        s.charge = Some(match s.charge { Some(2) => 3, Some(3) => 2, _ => 4 });
                    }
                }
            }
            // the uniqueness hypothesis was evaluated for the old annotation: drop the planted claims
            r.planted.clear();
        }
        2 => {
            if r.fasta.len() <= r.cfg.prefilter_chunk {
                return None;
            }
        }
        3 => {
            // every spectrum additionally carries the ladder of its neighbour (weaker): a co-fragmented pair
            for f in r.files.iter_mut() {
                let ladders: Vec<Vec<(f32, f32)>> = f.iter().map(|s| s.peaks.clone()).collect();
                let n = f.len();
                if n < 2 {
                    continue;
                }
                for (k, s) in f.iter_mut().enumerate() {
                    let other = &ladders[(k + 1) % n];
                    s.peaks.extend(other.iter().map(|&(mz, i)| (mz + 0.0005, i / 3.0)));
                    s.peaks.sort_by(|a, b| a.0.total_cmp(&b.0));
                }
            }
            // rank-1 claims only hold for the stronger peptide; keep them (its peaks are 3x as intense)
        }
        _ => {}
    }
    Some(r)
}

pub fn gen(rng: &mut Rng, tier: Tier, emit: &mut dyn FnMut(Case)) {
    let n = if tier == Tier::Quick { 6 } else { 150 };
    let mut made = 0;
    let mut tries = 0;
    let mut next_directed = 0usize;
    while made < n + 4 && tries < (n + 4) * 6 {
        tries += 1;
        let nspec = 4 + rng.below(if tier == Tier::Quick { 8 } else { 30 });
        let req = if next_directed < 4 {
            let r = directed(rng, next_directed);
            if r.is_some() {
                next_directed += 1;
            }
            r
        } else {
            random_request(rng, nspec)
        };
        if let Some(r) = req {
            let c = &r.cfg;
            let case = Case::new(encode(&r))
                .tag_if(!r.model_too_large && !c.prefilter, "model-compared")
                .tag_if(c.prefilter, "model-na:prefilter")
                .tag_if(r.model_too_large, "model-na:too-large")
                .tag_if(c.semi, "semi-enzymatic")
                .tag_if(!c.cterm, "n-terminal-enzyme")
                .tag_if(!c.gen_decoys, "fasta-decoys")
                .tag_if(c.gen_decoys && r.fasta.iter().any(|(a, _)| a.starts_with(&c.decoy_tag)), "tagged-records-with-generated-decoys")
                .tag_if(c.ptol.0 == 1, "precursor-da")
                .tag_if(c.iso.0 != c.iso.1, "isotope-errors")
                .tag_if(c.chimera, "chimera")
                .tag_if(c.pin, "pin")
                .tag_if(c.annotate, "annotate")
                .tag_if(!c.vars.is_empty(), "variable-mods")
                .tag_if(!c.statics.is_empty(), "static-mods")
                .tag_if(c.report_psms > 1, "report_psms>1")
                .tag_if(r.files.len() > 1, "multi-file")
                .tag_if(c.tmt != 0, "tmt")
                .tag_if(c.override_charge, "override-precursor-charge")
                .tag_if(c.prefilter, "prefilter")
                .tag_if(r.files.len() > c.batch && r.files.len() % c.batch != 0, "short-last-batch");
            emit(case);
            made += 1;
        }
    }
}
