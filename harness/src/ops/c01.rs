//! C01 — end to end: run the built `sage` binary on generated FASTA / MGF / JSON, parse every
//! output table, and hand the rows to the Lean driver, which evaluates `RowOK` on them.
//!
//!   e2e <cfg…> <fasta…> <files…> <planted…>  ->  ok <tsv rows…> <pin rows…> <fragment rows…> | err:<class>
//!
//! The driver also runs the COMPOSED PIPELINE MODEL (Model/C01Pipeline.lean) on the request and compares its rows with
//! the TSV rows (search-stage columns). Runs whose database would be too large for the list-based Lean model are
//! answered `model-na:too-large` by the driver; the generator predicts this with the same two size criteria and tags
//! every run `model-compared` or `model-na:too-large`, so the evidence shows how many runs were model-compared.
//!
//! The request is self-contained (structured configuration, FASTA records, spectra, planted
//! peptides); the harness renders JSON / FASTA / MGF or mzML text from it into a scratch directory outside
//! /repo and /verif, runs the binary there and removes the directory afterwards.
//!
//! Optional trailing tokens (absent in older request lines = defaults):
//!   <prefilter> <chunk>
//!   <lfq> <peak_scoring 0..3> <integration 0|1> <f64 spectral_angle> <f32 ppm_tolerance> <combine_charge_states>
//!   <tmt_level> <tmt_sn>
//!   [nfiles { <format 0=MGF 1=mzML 2=mzML.gz> <style bits: 1 = 64-bit m/z, 2 = 64-bit intensity, 4 = zlib, 8 = time in minutes>
//!             [n f32 ion-injection-time per MS2 spectrum]
//!             [n extra spectra { <ms level 1|3> <id> <f32 rt seconds> (0 | 1 <spectrumRef> <f32 selected-ion m/z>)
//!                                <f32 ion injection time> (0 | 1 <f32 noise>) [n (mz, intensity)] }] }]
//!   [n { <file> <peptide> <exact 0|1> }]   LFQ claims: planted peptide with a clean MS1 isotope envelope in that file
//!                                  (exact = the envelope is exactly sage's own theoretical distribution)
//!   <parquet 0|1>   run the binary a SECOND time on the same inputs with `--parquet` (other output directory) and
//!                   append what it wrote (read back with the `parquet` crate) to the reply
//! Reply: ok <tsv rows> <pin rows> <fragment rows> [n tmt rows { filename scannr f32(ion_injection_time) [n f32] }]
//!        (0 | 1 [n file-column header] [n lfq rows { peptide charge proteins f32(q) f64(score) f64(angle) [n f64] }])
//!        optional trailing group, present iff the request says `parquet 1`:
//!        pq (<failure class of the second run / of reading its files> |
//!            ok [n per TSV row, in TSV row order: the seven f32 TSV columns the row structure above does not carry
//!                  { aligned_rt predicted_rt delta_rt_model ion_mobility predicted_mobility delta_mobility longest_y_pct }]
//!               [n results.sage.parquet rows { psm_id filename scannr peptide stripped_peptide proteins num_proteins rank
//!                  is_decoy expmass calcmass charge peptide_len missed_cleavages semi_enzymatic ms2_intensity isotope_error
//!                  precursor_ppm fragment_ppm hyperscore delta_next delta_best rt aligned_rt predicted_rt delta_rt_model
//!                  ion_mobility predicted_mobility delta_mobility matched_peaks longest_b longest_y longest_y_pct
//!                  matched_intensity_pct scored_candidates poisson sage_discriminant_score posterior_error spectrum_q
//!                  peptide_q protein_q (0 = null | 1 [n (0 = null | 1 f32)]) = reporter_ion_intensity }]
//!               (0 = no matched_fragments.sage.parquet | 1 [n { psm_id fragment_type fragment_ordinals fragment_charge
//!                  fragment_mz_calculated fragment_mz_experimental fragment_intensity }])
//!               (0 = no lfq.parquet | 1 [n { peptide stripped_peptide (0 | 1 charge) proteins is_decoy f32(q_value)
//!                  filename f32(intensity) }])
//!               <0|1: the --parquet run ALSO wrote one of the TSV tables>)
//!        parquet columns are looked up by NAME in every row (a renamed / missing column is a failure class), all
//!        floats are f32 in the parquet schemas and cross as bit patterns.
use super::Info;
use crate::proto::{Case, Out, Rng, Tier, Toks};
use sage_core::database::Builder;
use sage_core::fasta::Fasta;
use sage_core::ion_series::{IonSeries, Kind};
use sage_core::mass::{NEUTRON, PROTON};
use std::collections::HashMap;
use std::io::Write;

pub const OPS: &[&str] = &["e2e"];
pub const INFO: Info = Info {
    rule: "end-to-end runs of the sage binary: random proteome (2-6 proteins, length 12-60, alphabet rich in K/R/P/M/C, \
           shared peptides, palindromes) x enzyme (trypsin, trypsin/P off, Lys-C, Asp-N, semi, mc 0-2) x static/variable \
           mods x ppm|Da precursor tolerance x isotope errors x internal|FASTA decoys x report_psms x chimera x pin x \
           annotate x batch size; spectra = full b/y ladders of database peptides (+noise, isotope-shifted precursors, \
           charge annotated or not); spectrum files written as MGF, mzML or mzML.gz (32/64-bit arrays, zlib, time in \
           seconds/minutes, ion injection times, MS1 and MS3 spectra), mixed within a run; TMT at MS2 or MS3 level (MS3 \
           reporter scans referencing their MS2 spectrum, constant power-of-two noise arrays with sn); LFQ with random \
           lfq_settings and MS1 isotope envelopes of the planted peptides; two directed runs (more in thorough) of ~240 \
           spectra of distinct target peptides plus a weak decoy class, so that 1% peptide-level FDR is reached and \
           lfq.tsv has rows; the chimera, LFQ and TMT directed runs and a third of the random runs are executed a SECOND \
           time with --parquet and the three parquet files are read back (two directed multi-file TMT runs, MS2- and \
           MS3-level, give every file the same scan ids with different reporter intensities); non-trivial = the run \
           reported at least 2 PSM rows; distinct by request",
    serial: true,
};

#[derive(Clone, Debug)]
pub struct Cfg {
    pub cleave: String,
    pub restrict: Option<u8>,
    pub cterm: bool,
    pub semi: bool,
    pub mc: u8,
    pub min_len: usize,
    pub max_len: usize,
    pub min_mass: f32,
    pub max_mass: f32,
    pub statics: Vec<(String, f32)>,
    pub vars: Vec<(String, Vec<f32>)>,
    pub max_var: usize,
    pub decoy_tag: String,
    pub gen_decoys: bool,
    pub ptol: (u8, f32, f32), // 0 = ppm, 1 = da
    pub ftol: (u8, f32, f32),
    pub iso: (i8, i8),
    pub z: (u8, u8),
    pub report_psms: usize,
    pub chimera: bool,
    pub min_peaks: usize,
    pub max_peaks: usize,
    pub min_matched: u16,
    pub max_frag_charge: Option<u8>,
    pub deisotope: bool,
    pub annotate: bool,
    pub pin: bool,
    pub predict_rt: bool,
    pub batch: usize,
    pub bucket: usize,
    pub min_ion_index: usize,
    /// 0 = no TMT quantification, else the plex (6, 10, 11, 16, 18), always at MS2 level
    pub tmt: u8,
    /// `override_precursor_charge`: ignore the annotated charge and search z_lo..=z_hi
    pub override_charge: bool,
    /// `database.prefilter` with `prefilter_chunk_size` (0 = let sage choose)
    pub prefilter: bool,
    pub prefilter_chunk: usize,
    pub lfq: Lfq,
    /// `quant.tmt_settings`
    pub tmt_level: u8,
    pub tmt_sn: bool,
}

/// `quant.lfq` + `quant.lfq_settings`
#[derive(Clone, Debug)]
pub struct Lfq {
    pub on: bool,
    /// 0 RetentionTime, 1 SpectralAngle, 2 Intensity, 3 Hybrid
    pub peak_scoring: u8,
    /// 0 Apex, 1 Sum
    pub integration: u8,
    pub spectral_angle: f64,
    pub ppm: f32,
    pub combine: bool,
}

impl Default for Lfq {
    fn default() -> Self {
        Lfq { on: false, peak_scoring: 3, integration: 1, spectral_angle: 0.7, ppm: 5.0, combine: true }
    }
}

/// a spectrum that is not searched: MS1 (LFQ signal) or MS3 (TMT reporter scan of an MS2 spectrum); mzML files only
#[derive(Clone, Debug)]
pub struct Extra {
    pub level: u8,
    pub title: String,
    pub rt_sec: f32,
    /// (spectrumRef, selected ion m/z)
    pub pref: Option<(String, f32)>,
    pub inj: f32,
    /// a noise array holding this value for every peak (a power of two, so that S/N division is exact)
    pub noise: Option<f32>,
    pub peaks: Vec<(f32, f32)>,
}

/// how one spectrum file is written
#[derive(Clone, Debug, Default)]
pub struct FileFmt {
    /// 0 = MGF, 1 = mzML, 2 = mzML.gz
    pub format: u8,
    /// bit 0: 64-bit m/z array, bit 1: 64-bit intensity array, bit 2: zlib, bit 3: scan start time in minutes
    pub style: u8,
    /// ion injection time of the MS2 spectra (mzML only; MGF has none = 0)
    pub inj: Vec<f32>,
    pub extras: Vec<Extra>,
}

#[derive(Clone, Debug)]
pub struct Spec {
    pub title: String,
    pub pepmz: f32,
    pub charge: Option<u8>,
    pub rt_sec: f32,
    pub peaks: Vec<(f32, f32)>,
}

#[derive(Clone, Debug)]
pub struct Planted {
    pub file: usize,
    pub title: String,
    pub peptide: String,
}

pub struct Request {
    pub cfg: Cfg,
    pub fasta: Vec<(String, String)>,
    pub files: Vec<Vec<Spec>>,
    pub planted: Vec<Planted>,
    /// one entry per file (empty = every file MGF)
    pub fmts: Vec<FileFmt>,
    /// (file, peptide): planted peptide with a clean MS1 envelope in that file (LFQ must quantify it there)
    pub lfq_planted: Vec<(usize, String, bool)>,
    /// generator-side prediction (not on the wire): the Lean driver will not run the composed pipeline model on
    /// this run because its list-based database / index build would be too slow (`model-na:too-large`)
    pub model_too_large: bool,
    /// run the binary a second time with `--parquet` and append the parquet tables to the reply
    pub parquet: bool,
}

/// the two size criteria of the driver (`buildCost` > COST_LIMIT, `indexCost` > INDEX_LIMIT in Drv/C01.lean),
/// computed from the real digests / the real fragment count
pub const COST_LIMIT: usize = 60_000;
pub const INDEX_LIMIT: usize = 200_000_000;

pub fn build_cost(digest_lens: &[usize], nvar: usize, max_var: usize) -> usize {
    digest_lens
        .iter()
        .map(|len| {
            let n = len + 2;
            let sites = if nvar == 0 { 0 } else { (n * nvar).min(12) };
            1 + if max_var >= 2 { sites * sites / 2 + sites } else { sites }
        })
        .sum()
}

/// cost of the model's searches (a page access of the list-based index is linear in the fragment count)
pub const SEARCH_LIMIT: usize = 8_000_000;
pub fn search_cost(nspectra: usize, nfrags: usize) -> usize {
    nspectra * nfrags
}

pub fn index_cost(nfrags: usize, bucket: usize) -> usize {
    nfrags * (nfrags / bucket.max(1) + 1)
}

fn enc_tol(o: &mut Out, t: (u8, f32, f32)) {
    o.n(t.0).f32(t.1).f32(t.2);
}

pub fn encode(r: &Request) -> String {
    let c = &r.cfg;
    let mut o = Out::new();
    o.raw("e2e");
    o.s(&c.cleave);
    match c.restrict {
        Some(x) => o.n(1).n(x),
        None => o.n(0),
    };
    o.b(c.cterm).b(c.semi).n(c.mc).n(c.min_len).n(c.max_len).f32(c.min_mass).f32(c.max_mass);
    o.n(c.statics.len());
    for (k, m) in &c.statics {
        o.s(k).f32(*m);
    }
    o.n(c.vars.len());
    for (k, ms) in &c.vars {
        o.s(k).n(ms.len());
        for m in ms {
            o.f32(*m);
        }
    }
    o.n(c.max_var).s(&c.decoy_tag).b(c.gen_decoys);
    enc_tol(&mut o, c.ptol);
    enc_tol(&mut o, c.ftol);
    o.n(c.iso.0).n(c.iso.1).n(c.z.0).n(c.z.1).n(c.report_psms).b(c.chimera).n(c.min_peaks).n(c.max_peaks).n(c.min_matched);
    match c.max_frag_charge {
        Some(x) => o.n(1).n(x),
        None => o.n(0),
    };
    o.b(c.deisotope).b(c.annotate).b(c.pin).b(c.predict_rt).n(c.batch).n(c.bucket).n(c.min_ion_index).n(c.tmt).b(c.override_charge);
    o.n(r.fasta.len());
    for (a, s) in &r.fasta {
        o.s(a).s(s);
    }
    o.n(r.files.len());
    for f in &r.files {
        o.n(f.len());
        for s in f {
            o.s(&s.title).f32(s.pepmz);
            match s.charge {
                Some(z) => o.n(1).n(z),
                None => o.n(0),
            };
            o.f32(s.rt_sec).n(s.peaks.len());
            for (mz, int) in &s.peaks {
                o.f32(*mz).f32(*int);
            }
        }
    }
    o.n(r.planted.len());
    for p in &r.planted {
        o.n(p.file).s(&p.title).s(&p.peptide);
    }
    // optional trailing tokens (absent in older request lines = false / 0)
    o.b(c.prefilter).n(c.prefilter_chunk);
    o.b(c.lfq.on).n(c.lfq.peak_scoring).n(c.lfq.integration).f64(c.lfq.spectral_angle).f32(c.lfq.ppm).b(c.lfq.combine);
    o.n(c.tmt_level).b(c.tmt_sn);
    o.n(r.fmts.len());
    for f in &r.fmts {
        o.n(f.format).n(f.style).n(f.inj.len());
        for x in &f.inj {
            o.f32(*x);
        }
        o.n(f.extras.len());
        for e in &f.extras {
            o.n(e.level).s(&e.title).f32(e.rt_sec);
            match &e.pref {
                Some((r, mz)) => o.n(1).s(r).f32(*mz),
                None => o.n(0),
            };
            o.f32(e.inj);
            match e.noise {
                Some(x) => o.n(1).f32(x),
                None => o.n(0),
            };
            o.n(e.peaks.len());
            for (mz, int) in &e.peaks {
                o.f32(*mz).f32(*int);
            }
        }
    }
    o.n(r.lfq_planted.len());
    for (f, p, e) in &r.lfq_planted {
        o.n(*f).s(p).b(*e);
    }
    o.b(r.parquet);
    o.finish()
}

pub fn file_name(r: &Request, i: usize) -> String {
    match r.fmts.get(i).map(|f| f.format).unwrap_or(0) {
        0 => format!("file{}.mgf", i),
        1 => format!("file{}.mzML", i),
        _ => format!("file{}.mzML.gz", i),
    }
}

fn dec_tol(t: &mut Toks) -> Option<(u8, f32, f32)> {
    Some((t.usize()? as u8, t.f32()?, t.f32()?))
}

pub fn decode(t: &mut Toks) -> Option<Request> {
    let cleave = t.string()?;
    let restrict = t.opt(|t| t.usize())?.map(|x| x as u8);
    let cterm = t.bool()?;
    let semi = t.bool()?;
    let mc = t.usize()? as u8;
    let min_len = t.usize()?;
    let max_len = t.usize()?;
    let min_mass = t.f32()?;
    let max_mass = t.f32()?;
    let statics = t.list(|t| Some((t.string()?, t.f32()?)))?;
    let vars = t.list(|t| Some((t.string()?, t.list(|t| t.f32())?)))?;
    let max_var = t.usize()?;
    let decoy_tag = t.string()?;
    let gen_decoys = t.bool()?;
    let ptol = dec_tol(t)?;
    let ftol = dec_tol(t)?;
    let iso = (t.i64()? as i8, t.i64()? as i8);
    let z = (t.usize()? as u8, t.usize()? as u8);
    let report_psms = t.usize()?;
    let chimera = t.bool()?;
    let min_peaks = t.usize()?;
    let max_peaks = t.usize()?;
    let min_matched = t.usize()? as u16;
    let max_frag_charge = t.opt(|t| t.usize())?.map(|x| x as u8);
    let deisotope = t.bool()?;
    let annotate = t.bool()?;
    let pin = t.bool()?;
    let predict_rt = t.bool()?;
    let batch = t.usize()?;
    let bucket = t.usize()?;
    let min_ion_index = t.usize()?;
    let tmt = t.usize()? as u8;
    let override_charge = t.bool()?;
    let fasta = t.list(|t| Some((t.string()?, t.string()?)))?;
    let files = t.list(|t| {
        t.list(|t| {
            Some(Spec {
                title: t.string()?,
                pepmz: t.f32()?,
                charge: t.opt(|t| t.usize())?.map(|x| x as u8),
                rt_sec: t.f32()?,
                peaks: t.list(|t| Some((t.f32()?, t.f32()?)))?,
            })
        })
    })?;
    let planted = t.list(|t| Some(Planted { file: t.usize()?, title: t.string()?, peptide: t.string()? }))?;
    let (prefilter, prefilter_chunk) = match t.bool() {
        Some(p) => (p, t.usize()?),
        None => (false, 0),
    };
    let mut lfq = Lfq::default();
    let (mut tmt_level, mut tmt_sn) = (2u8, false);
    let mut fmts: Vec<FileFmt> = Vec::new();
    let mut lfq_planted = Vec::new();
    let mut parquet = false;
    if let Some(on) = t.bool() {
        lfq = Lfq { on, peak_scoring: t.usize()? as u8, integration: t.usize()? as u8, spectral_angle: t.f64()?, ppm: t.f32()?, combine: t.bool()? };
        tmt_level = t.usize()? as u8;
        tmt_sn = t.bool()?;
        fmts = t.list(|t| {
            Some(FileFmt {
                format: t.usize()? as u8,
                style: t.usize()? as u8,
                inj: t.list(|t| t.f32())?,
                extras: t.list(|t| {
                    Some(Extra {
                        level: t.usize()? as u8,
                        title: t.string()?,
                        rt_sec: t.f32()?,
                        pref: t.opt(|t| Some((t.string()?, t.f32()?)))?,
                        inj: t.f32()?,
                        noise: t.opt(|t| t.f32())?,
                        peaks: t.list(|t| Some((t.f32()?, t.f32()?)))?,
                    })
                })?,
            })
        })?;
        lfq_planted = t.list(|t| Some((t.usize()?, t.string()?, t.bool()?)))?;
        // third optional trailing token (absent in older request lines = no parquet run)
        parquet = t.bool().unwrap_or(false);
    }
    Some(Request {
        cfg: Cfg {
            cleave, restrict, cterm, semi, mc, min_len, max_len, min_mass, max_mass, statics, vars, max_var,
            decoy_tag, gen_decoys, ptol, ftol, iso, z, report_psms, chimera, min_peaks, max_peaks, min_matched,
            max_frag_charge, deisotope, annotate, pin, predict_rt, batch, bucket, min_ion_index, tmt, override_charge, prefilter, prefilter_chunk,
            lfq, tmt_level, tmt_sn,
        },
        fasta,
        files,
        planted,
        fmts,
        lfq_planted,
        model_too_large: false,
        parquet,
    })
}

fn tol_json(t: (u8, f32, f32)) -> serde_json::Value {
    if t.0 == 0 {
        serde_json::json!({"ppm": [t.1, t.2]})
    } else {
        serde_json::json!({"da": [t.1, t.2]})
    }
}

pub fn database_json(c: &Cfg, fasta_path: &str) -> serde_json::Value {
    let statics: HashMap<String, f32> = c.statics.iter().cloned().collect();
    let vars: HashMap<String, Vec<f32>> = c.vars.iter().cloned().collect();
    serde_json::json!({
        "bucket_size": c.bucket,
        "enzyme": {
            "missed_cleavages": c.mc,
            "min_len": c.min_len,
            "max_len": c.max_len,
            "cleave_at": c.cleave,
            "restrict": c.restrict.map(|x| (x as char).to_string()),
            "c_terminal": c.cterm,
            "semi_enzymatic": c.semi,
        },
        "peptide_min_mass": c.min_mass,
        "peptide_max_mass": c.max_mass,
        "min_ion_index": c.min_ion_index,
        "static_mods": statics,
        "variable_mods": vars,
        "max_variable_mods": c.max_var,
        "decoy_tag": c.decoy_tag,
        "generate_decoys": c.gen_decoys,
        "prefilter": c.prefilter,
        "prefilter_chunk_size": c.prefilter_chunk,
        "fasta": fasta_path,
    })
}

pub fn config_json(c: &Cfg, fasta_path: &str, spectra_paths: &[String], outdir: &str) -> serde_json::Value {
    let mut quant = match c.tmt {
        0 => serde_json::json!({}),
        n => serde_json::json!({"tmt": format!("Tmt{}", n), "tmt_settings": {"level": c.tmt_level, "sn": c.tmt_sn}}),
    };
    if c.lfq.on {
        quant["lfq"] = serde_json::json!(true);
        let scoring = ["RetentionTime", "SpectralAngle", "Intensity", "Hybrid"][(c.lfq.peak_scoring as usize).min(3)];
        let integration = ["Apex", "Sum"][(c.lfq.integration as usize).min(1)];
        quant["lfq_settings"] = serde_json::json!({
            "peak_scoring": scoring,
            "integration": integration,
            "spectral_angle": c.lfq.spectral_angle,
            "ppm_tolerance": c.lfq.ppm,
            "combine_charge_states": c.lfq.combine,
        });
    }
    serde_json::json!({
        "quant": quant,
        "database": database_json(c, fasta_path),
        "precursor_tol": tol_json(c.ptol),
        "fragment_tol": tol_json(c.ftol),
        "report_psms": c.report_psms,
        "chimera": c.chimera,
        "min_peaks": c.min_peaks,
        "max_peaks": c.max_peaks,
        "max_fragment_charge": c.max_frag_charge,
        "min_matched_peaks": c.min_matched,
        "precursor_charge": [c.z.0, c.z.1],
        "override_precursor_charge": c.override_charge,
        "isotope_errors": [c.iso.0, c.iso.1],
        "deisotope": c.deisotope,
        "predict_rt": c.predict_rt,
        "output_directory": outdir,
        "mzml_paths": spectra_paths,
    })
}

pub fn fasta_text(recs: &[(String, String)]) -> String {
    let mut s = String::new();
    for (i, (a, q)) in recs.iter().enumerate() {
        s.push_str(&format!(">{} description {}\n", a, i));
        // wrap at 60, like real FASTA files
        for chunk in q.as_bytes().chunks(60) {
            s.push_str(std::str::from_utf8(chunk).unwrap());
            s.push('\n');
        }
    }
    s
}

pub fn mgf_text(specs: &[Spec]) -> String {
    let mut s = String::new();
    for sp in specs {
        s.push_str("BEGIN IONS\n");
        s.push_str(&format!("TITLE={}\n", sp.title));
        s.push_str(&format!("PEPMASS={}\n", sp.pepmz));
        if let Some(z) = sp.charge {
            s.push_str(&format!("CHARGE={}+\n", z));
        }
        s.push_str(&format!("RTINSECONDS={}\n", sp.rt_sec));
        for (mz, int) in &sp.peaks {
            s.push_str(&format!("{} {}\n", mz, int));
        }
        s.push_str("END IONS\n\n");
    }
    s
}

fn xml_attr(v: &str) -> String {
    v.replace('&', "&amp;").replace('<', "&lt;").replace('>', "&gt;").replace('"', "&quot;")
}

fn zlib(b: &[u8]) -> Vec<u8> {
    let mut e = flate2::write::ZlibEncoder::new(Vec::new(), flate2::Compression::default());
    e.write_all(b).unwrap();
    e.finish().unwrap()
}

fn gzip(b: &[u8]) -> Vec<u8> {
    let mut e = flate2::write::GzEncoder::new(Vec::new(), flate2::Compression::default());
    e.write_all(b).unwrap();
    e.finish().unwrap()
}

fn binary_array(values: &[f32], wide: bool, compress: bool, kind: &str) -> String {
    let mut raw = Vec::new();
    for v in values {
        if wide {
            raw.extend_from_slice(&(*v as f64).to_le_bytes());
        } else {
            raw.extend_from_slice(&v.to_le_bytes());
        }
    }
    let payload = if compress { zlib(&raw) } else { raw };
    let b64 = base64::encode(&payload);
    let (acc, name) = match kind {
        "mz" => ("MS:1000514", "m/z array"),
        "int" => ("MS:1000515", "intensity array"),
        _ => ("MS:1002744", "non-standard data array"),
    };
    format!(
        "<binaryDataArray encodedLength=\"{}\"><cvParam cvRef=\"MS\" accession=\"{}\" name=\"{}\" value=\"\"/>\
         <cvParam cvRef=\"MS\" accession=\"{}\" name=\"compression\" value=\"\"/>\
         <cvParam cvRef=\"MS\" accession=\"{}\" name=\"{}\" value=\"\"/><binary>{}</binary></binaryDataArray>\n",
        b64.len(),
        if wide { "MS:1000523" } else { "MS:1000521" },
        if wide { "64-bit float" } else { "32-bit float" },
        if compress { "MS:1000574" } else { "MS:1000576" },
        acc,
        name,
        b64
    )
}

#[allow(clippy::too_many_arguments)]
fn mzml_spectrum(index: usize, id: &str, level: u8, rt_sec: f32, inj: f32, prec: Option<(Option<&str>, f32, Option<u8>)>,
                 noise: Option<f32>, peaks: &[(f32, f32)], style: u8) -> String {
    let mut s = String::new();
    s.push_str(&format!("<spectrum index=\"{}\" id=\"{}\" defaultArrayLength=\"{}\">\n", index, xml_attr(id), peaks.len()));
    s.push_str(&format!("<cvParam cvRef=\"MS\" accession=\"MS:1000511\" name=\"ms level\" value=\"{}\"/>\n", level));
    s.push_str("<cvParam cvRef=\"MS\" accession=\"MS:1000127\" name=\"centroid spectrum\" value=\"\"/>\n");
    let (tval, tunit, tname) = if style & 8 != 0 { (rt_sec / 60.0, "UO:0000031", "minute") } else { (rt_sec, "UO:0000010", "second") };
    s.push_str(&format!(
        "<scanList count=\"1\"><scan><cvParam cvRef=\"MS\" accession=\"MS:1000016\" name=\"scan start time\" value=\"{}\" unitCvRef=\"UO\" unitAccession=\"{}\" unitName=\"{}\"/>\
         <cvParam cvRef=\"MS\" accession=\"MS:1000927\" name=\"ion injection time\" value=\"{}\"/></scan></scanList>\n",
        tval, tunit, tname, inj
    ));
    if let Some((r, mz, z)) = prec {
        s.push_str("<precursorList count=\"1\"><precursor");
        if let Some(r) = r {
            s.push_str(&format!(" spectrumRef=\"{}\"", xml_attr(r)));
        }
        s.push_str(&format!("><selectedIonList count=\"1\"><selectedIon><cvParam cvRef=\"MS\" accession=\"MS:1000744\" name=\"selected ion m/z\" value=\"{}\"/>", mz));
        if let Some(z) = z {
            s.push_str(&format!("<cvParam cvRef=\"MS\" accession=\"MS:1000041\" name=\"charge state\" value=\"{}\"/>", z));
        }
        s.push_str("</selectedIon></selectedIonList></precursor></precursorList>\n");
    }
    let mzs: Vec<f32> = peaks.iter().map(|p| p.0).collect();
    let ints: Vec<f32> = peaks.iter().map(|p| p.1).collect();
    s.push_str(&format!("<binaryDataArrayList count=\"{}\">\n", if noise.is_some() { 3 } else { 2 }));
    s.push_str(&binary_array(&mzs, style & 1 != 0, style & 4 != 0, "mz"));
    s.push_str(&binary_array(&ints, style & 2 != 0, style & 4 != 0, "int"));
    if let Some(n) = noise {
        s.push_str(&binary_array(&vec![n; peaks.len()], false, style & 4 != 0, "noise"));
    }
    s.push_str("</binaryDataArrayList>\n</spectrum>\n");
    s
}

/// indexless mzML: MS2 spectra (selected ion m/z, optional charge state), MS1 / MS3 extras, in scan-time order
pub fn mzml_text(specs: &[Spec], fmt: &FileFmt) -> String {
    // (rt, kind order, xml-producing closure index)
    let mut items: Vec<(f32, usize, usize)> = Vec::new();
    for (i, sp) in specs.iter().enumerate() {
        items.push((sp.rt_sec, 1, i));
    }
    for (i, e) in fmt.extras.iter().enumerate() {
        items.push((e.rt_sec, if e.level == 1 { 0 } else { 2 }, specs.len() + i));
    }
    items.sort_by(|a, b| a.0.total_cmp(&b.0).then(a.1.cmp(&b.1)).then(a.2.cmp(&b.2)));
    let mut body = String::new();
    for (index, (_, _, k)) in items.iter().enumerate() {
        if *k < specs.len() {
            let sp = &specs[*k];
            let inj = fmt.inj.get(*k).copied().unwrap_or(0.0);
            body.push_str(&mzml_spectrum(index, &sp.title, 2, sp.rt_sec, inj, Some((None, sp.pepmz, sp.charge)), None, &sp.peaks, fmt.style));
        } else {
            let e = &fmt.extras[*k - specs.len()];
            let prec = e.pref.as_ref().map(|(r, mz)| (Some(r.as_str()), *mz, None));
            body.push_str(&mzml_spectrum(index, &e.title, e.level, e.rt_sec, e.inj, prec, e.noise, &e.peaks, fmt.style));
        }
    }
    format!(
        "<?xml version=\"1.0\" encoding=\"utf-8\"?>\n<mzML xmlns=\"http://psi.hupo.org/ms/mzml\" version=\"1.1.0\">\n<run id=\"run\">\n<spectrumList count=\"{}\">\n{}</spectrumList>\n</run>\n</mzML>\n",
        items.len(),
        body
    )
}

fn sage_bin() -> String {
    std::env::var("VERIF_SAGE_BIN").unwrap_or_else(|_| {
        let exe = std::env::current_exe().unwrap();
        // <harness>/target/debug/<exe>  ->  <harness>/target-sage/debug/sage
        let harness = exe.parent().unwrap().parent().unwrap().parent().unwrap();
        harness.join("target-sage").join("debug").join("sage").to_string_lossy().to_string()
    })
}

struct Scratch(std::path::PathBuf);
impl Drop for Scratch {
    fn drop(&mut self) {
        if std::env::var("VERIF_KEEP_SCRATCH").is_ok() {
            eprintln!("scratch kept: {}", self.0.display());
            return;
        }
        let _ = std::fs::remove_dir_all(&self.0);
    }
}

fn scratch() -> Scratch {
    use std::sync::atomic::{AtomicUsize, Ordering};
    static N: AtomicUsize = AtomicUsize::new(0);
    let d = std::env::temp_dir().join(format!("sage-verif-e2e-{}-{}", std::process::id(), N.fetch_add(1, Ordering::SeqCst)));
    std::fs::create_dir_all(&d).unwrap();
    Scratch(d)
}

fn read_table(path: &std::path::Path) -> Option<(Vec<String>, Vec<Vec<String>>)> {
    let text = std::fs::read_to_string(path).ok()?;
    let mut lines = text.lines();
    let header: Vec<String> = lines.next()?.split('\t').map(|s| s.to_string()).collect();
    let rows = lines.filter(|l| !l.is_empty()).map(|l| l.split('\t').map(|s| s.to_string()).collect()).collect();
    Some((header, rows))
}

enum Ty {
    U,
    I,
    S,
    F32,
    F64,
}

fn emit_table(o: &mut Out, table: &(Vec<String>, Vec<Vec<String>>), cols: &[(&str, Ty)]) -> Result<(), String> {
    let (header, rows) = table;
    let mut idx = Vec::new();
    for (name, _) in cols {
        match header.iter().position(|h| h == name) {
            Some(i) => idx.push(i),
            None => return Err(format!("err:missing-column:{}", name)),
        }
    }
    o.n(rows.len());
    for r in rows {
        for ((name, ty), &i) in cols.iter().zip(idx.iter()) {
            let cell = r.get(i).ok_or_else(|| format!("err:short-row:{}", name))?;
            match ty {
                Ty::U => {
                    o.n(cell.parse::<u64>().map_err(|_| format!("err:bad-cell:{}", name))?);
                }
                Ty::I => {
                    o.n(cell.parse::<i64>().map_err(|_| format!("err:bad-cell:{}", name))?);
                }
                Ty::S => {
                    o.s(cell);
                }
                Ty::F32 => {
                    o.f32(cell.parse::<f32>().map_err(|_| format!("err:bad-cell:{}", name))?);
                }
                Ty::F64 => {
                    o.f64(cell.parse::<f64>().map_err(|_| format!("err:bad-cell:{}", name))?);
                }
            }
        }
    }
    Ok(())
}

/// one run of the built binary on the files already written into `dir`; `Err` = failure class of the reply
fn run_sage(r: &Request, dir: &std::path::Path, fasta_path: &std::path::Path, paths: &[String], outdir: &std::path::Path,
            cfg_name: &str, parquet: bool) -> Result<(), String> {
    let cfg = config_json(&r.cfg, &fasta_path.to_string_lossy(), paths, &outdir.to_string_lossy());
    let cfg_path = dir.join(cfg_name);
    std::fs::File::create(&cfg_path).unwrap().write_all(serde_json::to_string_pretty(&cfg).unwrap().as_bytes()).unwrap();

    let mut cmd = std::process::Command::new(sage_bin());
    cmd.arg(&cfg_path)
        .arg("--batch-size")
        .arg(r.cfg.batch.to_string())
        .arg("--disable-telemetry-i-dont-want-to-improve-sage")
        .env("SAGE_LOG", "error")
        .env("RAYON_NUM_THREADS", "4")
        .current_dir(dir)
        .stdout(std::process::Stdio::null())
        .stderr(std::process::Stdio::piped());
    if r.cfg.pin {
        cmd.arg("--write-pin");
    }
    if r.cfg.annotate {
        cmd.arg("--annotate-matches");
    }
    if parquet {
        cmd.arg("--parquet");
    }
    let outp = match cmd.output() {
        Ok(o) => o,
        Err(_) => return Err("err:cannot-run-sage-binary".into()),
    };
    if !outp.status.success() {
        let e = String::from_utf8_lossy(&outp.stderr);
        // the one panic with a name of its own: `group_digests` indexing an empty digest list (a pre-filter FASTA
        // chunk none of whose proteins yields a peptide)
        let class = if e.contains("panicked") {
            if e.contains("enzyme.rs") && e.contains("the len is 0 but the index is 0") { "panic:empty-digest-list" } else { "panic" }
        } else {
            "err:nonzero-exit"
        };
        if std::env::var("VERIF_C01_STDERR").is_ok() {
            eprintln!("{}", e);
        }
        return Err(class.to_string());
    }
    Ok(())
}

// ------------------------------------------------------------------------------------- parquet output

use parquet::file::reader::{FileReader, SerializedFileReader};
use parquet::record::Field;

/// every row of a parquet file as (column name, value) pairs, through the crate's record reader (which assembles
/// the LIST column of results.sage.parquet from its definition / repetition levels); `None` = the file is absent
fn read_parquet(path: &std::path::Path, what: &str) -> Result<Option<Vec<Vec<(String, Field)>>>, String> {
    let file = match std::fs::File::open(path) {
        Ok(f) => f,
        Err(_) => return Ok(None),
    };
    let bad = || format!("err:unreadable:{}", what);
    let reader = SerializedFileReader::new(file).map_err(|_| bad())?;
    let mut rows = Vec::new();
    for row in reader.get_row_iter(None).map_err(|_| bad())? {
        let row = row.map_err(|_| bad())?;
        rows.push(row.get_column_iter().map(|(n, f)| (n.clone(), f.clone())).collect());
    }
    Ok(Some(rows))
}

#[derive(Clone, Copy)]
enum PTy {
    I64,
    I32,
    OptI32,
    Str,
    Bool,
    F32,
    /// optional LIST of optional f32
    F32List,
}

fn emit_parquet(o: &mut Out, what: &str, rows: &[Vec<(String, Field)>], cols: &[(&str, PTy)]) -> Result<(), String> {
    o.n(rows.len());
    for row in rows {
        for (name, ty) in cols {
            let mut hits = row.iter().filter(|(n, _)| n == name);
            let f = match (hits.next(), hits.next()) {
                (Some((_, f)), None) => f,
                _ => return Err(format!("err:missing-column:{}:{}", what, name)),
            };
            let bad = || format!("err:bad-type:{}:{}", what, name);
            match (ty, f) {
                (PTy::I64, Field::Long(v)) => {
                    o.n(*v);
                }
                (PTy::I32, Field::Int(v)) => {
                    o.n(*v);
                }
                (PTy::OptI32, Field::Null) => {
                    o.n(0);
                }
                (PTy::OptI32, Field::Int(v)) => {
                    o.n(1).n(*v);
                }
                (PTy::Str, Field::Str(v)) => {
                    o.s(v);
                }
                (PTy::Bool, Field::Bool(v)) => {
                    o.b(*v);
                }
                (PTy::F32, Field::Float(v)) => {
                    o.f32(*v);
                }
                (PTy::F32List, Field::Null) => {
                    o.n(0);
                }
                (PTy::F32List, Field::ListInternal(l)) => {
                    o.n(1).n(l.elements().len());
                    for e in l.elements() {
                        match e {
                            Field::Null => o.n(0),
                            Field::Float(v) => o.n(1).f32(*v),
                            _ => return Err(bad()),
                        };
                    }
                }
                _ => return Err(bad()),
            }
        }
    }
    Ok(())
}

/// second run of the binary with `--parquet` into `out-parquet`; the tables it wrote, in wire form
fn parquet_tables(r: &Request, dir: &std::path::Path, fasta_path: &std::path::Path, paths: &[String],
                  tsv: &(Vec<String>, Vec<Vec<String>>)) -> Result<String, String> {
    let outdir = dir.join("out-parquet");
    run_sage(r, dir, fasta_path, paths, &outdir, "cfg-parquet.json", true)?;
    let mut o = Out::new();
    emit_table(
        &mut o,
        tsv,
        &[
            ("aligned_rt", Ty::F32), ("predicted_rt", Ty::F32), ("delta_rt_model", Ty::F32), ("ion_mobility", Ty::F32),
            ("predicted_mobility", Ty::F32), ("delta_mobility", Ty::F32), ("longest_y_pct", Ty::F32),
        ],
    )?;
    use PTy::*;
    let res = read_parquet(&outdir.join("results.sage.parquet"), "results")?.ok_or_else(|| "err:no-results-parquet".to_string())?;
    emit_parquet(
        &mut o,
        "results",
        &res,
        &[
            ("psm_id", I64), ("filename", Str), ("scannr", Str), ("peptide", Str), ("stripped_peptide", Str), ("proteins", Str),
            ("num_proteins", I32), ("rank", I32), ("is_decoy", Bool), ("expmass", F32), ("calcmass", F32), ("charge", I32),
            ("peptide_len", I32), ("missed_cleavages", I32), ("semi_enzymatic", Bool), ("ms2_intensity", F32),
            ("isotope_error", F32), ("precursor_ppm", F32), ("fragment_ppm", F32), ("hyperscore", F32), ("delta_next", F32),
            ("delta_best", F32), ("rt", F32), ("aligned_rt", F32), ("predicted_rt", F32), ("delta_rt_model", F32),
            ("ion_mobility", F32), ("predicted_mobility", F32), ("delta_mobility", F32), ("matched_peaks", I32),
            ("longest_b", I32), ("longest_y", I32), ("longest_y_pct", F32), ("matched_intensity_pct", F32),
            ("scored_candidates", I32), ("poisson", F32), ("sage_discriminant_score", F32), ("posterior_error", F32),
            ("spectrum_q", F32), ("peptide_q", F32), ("protein_q", F32), ("reporter_ion_intensity", F32List),
        ],
    )?;
    match read_parquet(&outdir.join("matched_fragments.sage.parquet"), "fragments")? {
        None => {
            o.n(0);
        }
        Some(rows) => {
            o.n(1);
            emit_parquet(
                &mut o,
                "fragments",
                &rows,
                &[
                    ("psm_id", I64), ("fragment_type", Str), ("fragment_ordinals", I32), ("fragment_charge", I32),
                    ("fragment_mz_calculated", F32), ("fragment_mz_experimental", F32), ("fragment_intensity", F32),
                ],
            )?;
        }
    }
    match read_parquet(&outdir.join("lfq.parquet"), "lfq")? {
        None => {
            o.n(0);
        }
        Some(rows) => {
            o.n(1);
            emit_parquet(
                &mut o,
                "lfq",
                &rows,
                &[
                    ("peptide", Str), ("stripped_peptide", Str), ("charge", OptI32), ("proteins", Str), ("is_decoy", Bool),
                    ("q_value", F32), ("filename", Str), ("intensity", F32),
                ],
            )?;
        }
    }
    let tsv_too = ["results.sage.tsv", "matched_fragments.sage.tsv", "tmt.tsv", "lfq.tsv"].iter().any(|n| outdir.join(n).exists());
    o.b(tsv_too);
    Ok(o.finish())
}

pub fn run(r: &Request) -> String {
    let sc = scratch();
    let dir = &sc.0;
    let fasta_path = dir.join("db.fasta");
    std::fs::write(&fasta_path, fasta_text(&r.fasta)).unwrap();
    let mut paths = Vec::new();
    for (i, f) in r.files.iter().enumerate() {
        let p = dir.join(file_name(r, i));
        let fmt = r.fmts.get(i).cloned().unwrap_or_default();
        match fmt.format {
            0 => std::fs::write(&p, mgf_text(f)).unwrap(),
            1 => std::fs::write(&p, mzml_text(f, &fmt)).unwrap(),
            _ => std::fs::write(&p, gzip(mzml_text(f, &fmt).as_bytes())).unwrap(),
        }
        paths.push(p.to_string_lossy().to_string());
    }
    let outdir = dir.join("out");
    if let Err(class) = run_sage(r, dir, &fasta_path, &paths, &outdir, "cfg.json", false) {
        return class;
    }
    let tsv = match read_table(&outdir.join("results.sage.tsv")) {
        Some(t) => t,
        None => return "err:no-results-tsv".into(),
    };
    let mut o = Out::new();
    o.raw("ok");
    use Ty::*;
    let res = emit_table(
        &mut o,
        &tsv,
        &[
            ("psm_id", U), ("peptide", S), ("proteins", S), ("num_proteins", U), ("filename", S), ("scannr", S),
            ("rank", U), ("label", I), ("expmass", F32), ("calcmass", F32), ("charge", U), ("peptide_len", U),
            ("missed_cleavages", U), ("semi_enzymatic", U), ("isotope_error", F32), ("precursor_ppm", F32),
            ("fragment_ppm", F32), ("hyperscore", F64), ("delta_next", F64), ("delta_best", F64), ("rt", F32),
            ("matched_peaks", U), ("longest_b", U), ("longest_y", U), ("scored_candidates", U), ("poisson", F64),
            ("sage_discriminant_score", F32), ("posterior_error", F32), ("spectrum_q", F32), ("peptide_q", F32),
            ("protein_q", F32), ("ms2_intensity", F32), ("matched_intensity_pct", F32),
        ],
    );
    if let Err(e) = res {
        return e;
    }
    // pin
    if r.cfg.pin {
        match read_table(&outdir.join("results.sage.pin")) {
            None => return "err:no-pin".into(),
            Some(t) => {
                if let Err(e) = emit_table(
                    &mut o,
                    &t,
                    &[
                        ("SpecId", U), ("Label", I), ("ScanNr", S), ("ExpMass", F32), ("CalcMass", F32), ("FileName", S),
                        ("rank", U), ("z=2", U), ("z=3", U), ("z=4", U), ("z=5", U), ("z=6", U), ("z=other", U),
                        ("peptide_len", U), ("missed_cleavages", U), ("Peptide", S), ("Proteins", S),
                    ],
                ) {
                    return e;
                }
            }
        }
    } else {
        o.n(0);
    }
    if r.cfg.annotate {
        match read_table(&outdir.join("matched_fragments.sage.tsv")) {
            None => return "err:no-fragments".into(),
            Some(t) => {
                if let Err(e) = emit_table(
                    &mut o,
                    &t,
                    &[
                        ("psm_id", U), ("fragment_type", S), ("fragment_ordinals", I), ("fragment_charge", I),
                        ("fragment_mz_calculated", F32), ("fragment_mz_experimental", F32), ("fragment_intensity", F32),
                    ],
                ) {
                    return e;
                }
            }
        }
    } else {
        o.n(0);
    }
    // tmt.tsv: filename, scannr, then one column per channel
    if r.cfg.tmt != 0 {
        match read_table(&outdir.join("tmt.tsv")) {
            // the file is only written when there is at least one quantified spectrum
            None => {
                o.n(0);
            }
            Some((header, rows)) => {
                let fi = header.iter().position(|h| h == "filename");
                let si = header.iter().position(|h| h == "scannr");
                let ii = match header.iter().position(|h| h == "ion_injection_time") {
                    Some(i) => i,
                    None => return "err:missing-column:tmt".into(),
                };
                if header.len() < 3 || header[0] != "filename" || header[1] != "scannr" || header[2] != "ion_injection_time" {
                    return "err:tmt-column-order".into();
                }
                let chans: Vec<usize> = header.iter().enumerate().filter(|(_, h)| h.starts_with("tmt_")).map(|(i, _)| i).collect();
                let (fi, si) = match (fi, si) {
                    (Some(a), Some(b)) => (a, b),
                    _ => return "err:missing-column:tmt".into(),
                };
                o.n(rows.len());
                for row in &rows {
                    if row.len() != header.len() {
                        return "err:short-row:tmt".into();
                    }
                    o.s(&row[fi]).s(&row[si]);
                    match row[ii].parse::<f32>() {
                        Ok(v) => o.f32(v),
                        Err(_) => return "err:bad-cell:tmt".into(),
                    };
                    o.n(chans.len());
                    for &c in &chans {
                        match row[c].parse::<f32>() {
                            Ok(v) => o.f32(v),
                            Err(_) => return "err:bad-cell:tmt".into(),
                        };
                    }
                }
            }
        }
    } else {
        o.n(0);
    }
    // lfq.tsv: peptide, charge, proteins, q_value, score, spectral_angle, then one column per input file
    match read_table(&outdir.join("lfq.tsv")) {
        None => {
            o.n(0);
        }
        Some((header, rows)) => {
            let fixed = ["peptide", "charge", "proteins", "q_value", "score", "spectral_angle"];
            for (i, name) in fixed.iter().enumerate() {
                if header.get(i).map(|h| h.as_str()) != Some(*name) {
                    return format!("err:missing-column:lfq:{}", name);
                }
            }
            o.n(1);
            o.n(header.len() - fixed.len());
            for h in &header[fixed.len()..] {
                o.s(h);
            }
            o.n(rows.len());
            for row in &rows {
                if row.len() != header.len() {
                    return "err:short-row:lfq".into();
                }
                o.s(&row[0]);
                match row[1].parse::<i64>() {
                    Ok(v) => o.n(v),
                    Err(_) => return "err:bad-cell:lfq:charge".into(),
                };
                o.s(&row[2]);
                match row[3].parse::<f32>() {
                    Ok(v) => o.f32(v),
                    Err(_) => return "err:bad-cell:lfq:q_value".into(),
                };
                for c in [4usize, 5] {
                    match row[c].parse::<f64>() {
                        Ok(v) => o.f64(v),
                        Err(_) => return "err:bad-cell:lfq:score".into(),
                    };
                }
                o.n(row.len() - fixed.len());
                for cell in &row[fixed.len()..] {
                    match cell.parse::<f64>() {
                        Ok(v) => o.f64(v),
                        Err(_) => return "err:bad-cell:lfq:intensity".into(),
                    };
                }
            }
        }
    }
    if r.parquet {
        o.raw("pq");
        match parquet_tables(r, dir, &fasta_path, &paths, &tsv) {
            Ok(t) => o.raw("ok").raw(&t),
            Err(class) => o.raw(&class),
        };
    }
    o.finish()
}

pub fn exec(_op: &str, t: &mut Toks) -> Option<String> {
    let r = decode(t)?;
    Some(run(&r))
}

// ------------------------------------------------------------------------------------- generator

const ALPHABET: &[u8] = b"AAGGLLSSVVEEDDTTKKKRRRPPMMCCFFNNQQHIWY";

fn random_protein(rng: &mut Rng, len: usize) -> String {
    let mut s = Vec::with_capacity(len);
    for _ in 0..len {
        s.push(*rng.pick(ALPHABET));
    }
    // make sure there are cleavage sites
    let n = s.len();
    for i in (6..n).step_by(9) {
        if rng.chance(2, 3) {
            s[i] = if rng.chance(1, 2) { b'K' } else { b'R' };
        }
    }
    String::from_utf8(s).unwrap()
}

fn random_cfg(rng: &mut Rng) -> Cfg {
    let enzyme = rng.below(6);
    let (cleave, restrict, cterm) = match enzyme {
        0 | 1 => ("KR", Some(b'P'), true),
        2 => ("KR", None, true),
        3 => ("K", None, true),
        4 => ("D", None, false),
        _ => ("KR", Some(b'P'), true),
    };
    let semi = enzyme == 5;
    // a static and a variable modification may target the same terminus (`^` static with `^` / `[` variable):
    // the variable one, applied first, blocks the static one -- the two never add up (seeded C01-H)
    let statics = match rng.below(6) {
        0 => vec![],
        1 => vec![("C".to_string(), 57.0215f32)],
        2 => vec![("C".to_string(), 57.0215f32), ("K".to_string(), 229.1629f32)],
        3 => vec![("^".to_string(), 229.1629f32), ("K".to_string(), 229.1629f32)],
        4 => vec![("C".to_string(), 57.0215f32), ("^".to_string(), 229.1629f32), ("$".to_string(), 14.0157f32)],
        // protein-terminus statics: only peptides at the protein C- / N-terminus carry them (seeded C01-N)
        _ => vec![("]".to_string(), 14.0157f32), ("[".to_string(), 28.0313f32), ("C".to_string(), 57.0215f32)],
    };
    let vars = match rng.below(5) {
        0 => vec![],
        1 => vec![("M".to_string(), vec![15.9949f32])],
        2 => vec![("M".to_string(), vec![15.9949f32]), ("^".to_string(), vec![42.0106f32])],
        3 => vec![("M".to_string(), vec![15.9949f32]), ("[".to_string(), vec![42.0106f32]), ("S".to_string(), vec![79.9663f32])],
        _ => vec![("^".to_string(), vec![42.0106f32]), ("$".to_string(), vec![-0.9840f32]), ("]".to_string(), vec![17.0265f32])],
    };
    let ptol = if rng.chance(2, 3) { (0u8, -20.0f32, 20.0f32) } else { (1u8, -0.5f32, 0.5f32) };
    let ftol = if rng.chance(2, 3) { (0u8, -20.0f32, 20.0f32) } else { (1u8, -0.02f32, 0.02f32) };
    let iso = *rng.pick(&[(0i8, 0i8), (0, 0), (-1, 2), (0, 1)]);
    Cfg {
        cleave: cleave.into(),
        restrict,
        cterm,
        semi,
        mc: rng.below(3) as u8,
        min_len: 5,
        max_len: 30,
        min_mass: 400.0,
        max_mass: 5000.0,
        statics,
        vars,
        max_var: 1 + rng.below(2),
        decoy_tag: if rng.chance(1, 3) { "DECOY_".into() } else { "rev_".into() },
        gen_decoys: true,
        ptol,
        ftol,
        iso,
        z: (2, 3),
        report_psms: 1 + rng.below(3),
        chimera: rng.chance(1, 5),
        min_peaks: 4,
        max_peaks: 150,
        min_matched: 3,
        max_frag_charge: if rng.chance(1, 3) { Some(1) } else { None },
        deisotope: rng.chance(1, 2),
        annotate: rng.chance(1, 2),
        pin: rng.chance(1, 2),
        predict_rt: rng.chance(1, 2),
        batch: 1 + rng.below(3),
        bucket: *rng.pick(&[8usize, 64, 8192]),
        min_ion_index: *rng.pick(&[1usize, 2]),
        tmt: if rng.chance(1, 3) { *rng.pick(&[6u8, 10, 11, 16, 18]) } else { 0 },
        override_charge: rng.chance(1, 4),
        prefilter: false,
        prefilter_chunk: 0,
        lfq: if rng.chance(1, 4) {
            Lfq {
                on: true,
                peak_scoring: rng.below(4) as u8,
                integration: rng.below(2) as u8,
                spectral_angle: *rng.pick(&[0.5f64, 0.7, 0.8, 0.95]),
                ppm: *rng.pick(&[5.0f32, 10.0, 20.0]),
                combine: rng.chance(1, 2),
            }
        } else {
            Lfq::default()
        },
        tmt_level: if rng.chance(1, 3) { 3 } else { 2 },
        tmt_sn: rng.chance(1, 3),
    }
}

/// shape of the spectrum files of a generated run
#[derive(Clone, Copy)]
pub struct GenOpts {
    /// force every file to this format (0 MGF, 1 mzML, 2 mzML.gz); None = random mix
    pub format: Option<u8>,
    pub nfiles: Option<usize>,
    /// a run in which peptide-level FDR can reach 1%: (almost) every spectrum is the full ladder of a distinct TARGET
    /// peptide; every 12th is a DECOY peptide with a thinned, weak ladder (the decoy class the KDE / q-values need)
    pub scale: bool,
    /// add a protein made of the interior reversals of protein 0's tryptic peptides: every such peptide is the
    /// generated decoy of a real target of another protein (the decoy must be dropped, not merged) (seeded C01-K)
    pub mirror: bool,
}

pub fn random_request(rng: &mut Rng, nspec: usize) -> Option<Request> {
    random_request_opts(rng, nspec, &|_| {}, GenOpts { format: None, nfiles: None, scale: false, mirror: false })
}

/// the legacy shape: MGF files only, no LFQ, MS2-level TMT
pub fn random_request_with(rng: &mut Rng, nspec: usize, tweak: &dyn Fn(&mut Cfg)) -> Option<Request> {
    random_request_opts(
        rng,
        nspec,
        &|c| {
            c.lfq = Lfq::default();
            c.tmt_level = 2;
            c.tmt_sn = false;
            tweak(c)
        },
        GenOpts { format: Some(0), nfiles: None, scale: false, mirror: false },
    )
}

/// isotope envelope of `pep` at charge `z` around `rt_sec`: five MS1 scans within ±0.08 s, three isotope peaks each,
/// intensities = theoretical distribution (the second isotope 8% low, so that the cosine stays clear of 1.0)
fn ms1_envelope(pep: &sage_core::peptide::Peptide, z: u8, rt_sec: f32, k: usize, exact: bool) -> Vec<Extra> {
    let (mut carbon, mut sulfur) = (0u16, 0u16);
    for r in pep.sequence.iter() {
        let c = sage_core::mass::composition(*r);
        carbon += c.carbon;
        sulfur += c.sulfur;
    }
    let dist = sage_core::isotopes::peptide_isotopes(carbon, sulfur);
    let shape = [0.25f32, 0.75, 1.0, 0.75, 0.25];
    let offs = [-0.08f32, -0.04, 0.0, 0.04, 0.08];
    (0..5)
        .map(|j| {
            let peaks: Vec<(f32, f32)> = (0..3)
                .map(|i| {
                    let mz = (pep.monoisotopic + i as f32 * NEUTRON) / z as f32 + PROTON;
                    let tweak = if i == 1 && !exact { 0.92 } else { 1.0 };
                    (mz, 100000.0 * shape[j] * dist[i] * tweak)
                })
                .collect();
            Extra { level: 1, title: format!("ms1={}_{}", 1000 + k, j), rt_sec: rt_sec + offs[j], pref: None, inj: 0.0, noise: None, peaks }
        })
        .collect()
}

/// `tweak` adjusts the configuration BEFORE the database is built and the spectra are synthesised
pub fn random_request_opts(rng: &mut Rng, nspec: usize, tweak: &dyn Fn(&mut Cfg), opts: GenOpts) -> Option<Request> {
    let mut cfg = random_cfg(rng);
    tweak(&mut cfg);
    let nprot = if opts.scale { 16 } else { 2 + rng.below(5) };
    let mut fasta: Vec<(String, String)> = Vec::new();
    for i in 0..nprot {
        let len = if opts.scale { 80 + rng.below(20) } else { 20 + rng.below(60) };
        fasta.push((format!("sp|P{:05}|PROT{}", i, i), random_protein(rng, len)));
    }
    if opts.mirror {
        let src = fasta[0].1.clone().into_bytes();
        let mut out: Vec<u8> = Vec::new();
        let mut start = 0usize;
        for i in 0..src.len() {
            if src[i] == b'K' || src[i] == b'R' || i + 1 == src.len() {
                let mut frag = src[start..=i].to_vec();
                let n = frag.len();
                if n >= 3 {
                    frag[1..n - 1].reverse();
                }
                out.extend_from_slice(&frag);
                start = i + 1;
            }
        }
        fasta.push(("sp|M00000|MIRROR0".to_string(), String::from_utf8(out).unwrap()));
    }
    // a shared peptide between two proteins
    if nprot >= 2 {
        let src = fasta[0].1.clone();
        if src.len() > 20 {
            let piece = &src[5..18];
            fasta[1].1 = format!("{}K{}R{}", &fasta[1].1[..8.min(fasta[1].1.len())], piece, &fasta[1].1[8.min(fasta[1].1.len())..]);
        }
    }
    // FASTA-supplied decoys in some runs (never in the mirror run: it is about GENERATED decoys)
    if !opts.mirror && rng.chance(1, 4) {
        cfg.gen_decoys = false;
        // one run in three of these has NO decoy record at all: a target-only database, for which the rescoring
        // model cannot be fitted and the runner's heuristic fallback score is reported (seeded C15-J)
        let n = if rng.chance(1, 3) { 0 } else { fasta.len() };
        for i in 0..n {
            let rev: String = fasta[i].1.chars().rev().collect();
            fasta.push((format!("{}{}", cfg.decoy_tag, fasta[i].0), rev));
        }
    }
    else if cfg.gen_decoys && rng.chance(1, 3) {
        // decoys are generated internally, yet the FASTA already carries decoy-tagged records (they must be
        // dropped by the reader) — interleaved with the targets or placed first, not only appended
        let n = fasta.len();
        let mut mixed: Vec<(String, String)> = Vec::new();
        for i in 0..n {
            if rng.chance(1, 2) {
                let rev: String = fasta[i].1.chars().rev().collect();
                mixed.push((format!("{}{}", cfg.decoy_tag, fasta[i].0), rev));
            }
            mixed.push(fasta[i].clone());
        }
        fasta = mixed;
    }
    // build the database with the real code, only to choose peptides to plant
    let text = fasta_text(&fasta);
    let builder: Builder = serde_json::from_value(database_json(&cfg, "unused")).ok()?;
    let params = builder.make_parameters();
    let fa = Fasta::parse(text, &params.decoy_tag, params.generate_decoys);
    let digest_lens: Vec<usize> = fa.digest(&params.enzyme.clone().into()).iter().map(|d| d.sequence.len()).collect();
    let nvar: usize = cfg.vars.iter().map(|(_, ms)| ms.len()).sum();
    let db = std::panic::catch_unwind(|| params.build(fa)).ok()?;
    if db.peptides.is_empty() {
        return None;
    }
    let model_too_large = build_cost(&digest_lens, nvar, cfg.max_var.max(1)) > COST_LIMIT
        || index_cost(db.fragments.len(), cfg.bucket) > INDEX_LIMIT;
    let nfiles = opts.nfiles.unwrap_or(1 + rng.below(3));
    let mut files: Vec<Vec<Spec>> = vec![Vec::new(); nfiles];
    let mut fmts: Vec<FileFmt> = (0..nfiles)
        .map(|_| {
            let format = match opts.format {
                Some(f) => f,
                None => match rng.below(20) {
                    0..=8 => 0,
                    9..=16 => 1,
                    _ => 2,
                },
            };
            FileFmt { format, style: rng.below(16) as u8, inj: Vec::new(), extras: Vec::new() }
        })
        .collect();
    if !fmts.iter().any(|f| f.format != 0) {
        // MS3-level TMT and LFQ need MS3 / MS1 spectra, which only mzML files carry
        cfg.tmt_level = 2;
    }
    let mut lfq_planted: Vec<(usize, String, bool)> = Vec::new();
    let mut used_peps: std::collections::HashSet<usize> = std::collections::HashSet::new();
    let mut pair_keys: std::collections::HashSet<String> = std::collections::HashSet::new();
    let mut planted = Vec::new();
    for k in 0..nspec {
        // with LFQ every spectrum gets its own peptide (a peptide seen at two retention times has no single apex)
        let mut pix = rng.below(db.peptides.len());
        let want_decoy = opts.scale && k % 12 == 11;
        if cfg.lfq.on || opts.scale {
            let mut tries = 0;
            while (used_peps.contains(&pix) || (opts.scale && db.peptides[pix].decoy != want_decoy)) && tries < 200 {
                pix = rng.below(db.peptides.len());
                tries += 1;
            }
            if used_peps.contains(&pix) || (opts.scale && db.peptides[pix].decoy != want_decoy) {
                continue;
            }
        }
        if opts.scale {
            // a target and its own decoy must not both be identified: the pair competes as ONE peptide-level entity,
            // and if every decoy loses its pair the decoy class is empty (NaN posterior errors, every q-value 1)
            let p = &db.peptides[pix];
            let key = if p.decoy && cfg.gen_decoys { p.reverse().to_string() } else { p.to_string() };
            if !pair_keys.insert(key) {
                continue;
            }
        }
        let fresh = used_peps.insert(pix);
        let pep = &db.peptides[pix];
        let z = 2 + rng.below(2) as u8;
        let iso_k = if cfg.iso.0 == cfg.iso.1 { 0.0 } else { rng.range(cfg.iso.0 as i64, cfg.iso.1 as i64) as f32 };
        let mass = pep.monoisotopic + iso_k * NEUTRON;
        let pepmz = (mass + z as f32 * PROTON) / z as f32;
        let mut peaks: Vec<(f32, f32)> = Vec::new();
        for kind in [Kind::B, Kind::Y] {
            for ion in IonSeries::new(pep, kind) {
                let inten = *rng.pick(&[50.0f32, 100.0, 100.0, 200.0, 400.0]);
                peaks.push((ion.monoisotopic_mass + PROTON, inten));
            }
        }
        if opts.scale {
            // a continuous spread of match quality in both classes (completely separated classes make the
            // peptide-level KDE fragile — C14's recorded density-underflow finding): targets keep 85-100% of their
            // ladder, decoys 30-50%, at reduced intensity
            let keep = if want_decoy { 0.3 + 0.2 * rng.unit() } else { 0.85 + 0.15 * rng.unit() };
            let n0 = peaks.len();
            let mut kept: Vec<(f32, f32)> = Vec::new();
            for (i, p) in peaks.iter().enumerate() {
                if ((i + 1) as f64 * keep).floor() > (i as f64 * keep).floor() {
                    kept.push(if want_decoy { (p.0, 25.0) } else { *p });
                }
            }
            if kept.len() >= 4 && kept.len() <= n0 {
                peaks = kept;
            }
        }
        for _ in 0..rng.below(12) {
            peaks.push((150.0 + rng.unit() as f32 * 1500.0, *rng.pick(&[10.0f32, 20.0, 50.0])));
        }
        if cfg.tmt != 0 {
            // reporter peaks exactly on the channel m/z (plus a few absent channels and a second, weaker
            // peak 3 ppm away in some windows)
            let plex = match cfg.tmt {
                6 => sage_core::tmt::Isobaric::Tmt6,
                10 => sage_core::tmt::Isobaric::Tmt10,
                11 => sage_core::tmt::Isobaric::Tmt11,
                16 => sage_core::tmt::Isobaric::Tmt16,
                _ => sage_core::tmt::Isobaric::Tmt18,
            };
            peaks.retain(|p| p.0 > 140.0);
            for &m in plex.reporter_masses() {
                if rng.chance(1, 6) {
                    continue;
                }
                let inten = *rng.pick(&[30.0f32, 60.0, 120.0, 240.0]);
                peaks.push((m, inten));
                if rng.chance(1, 4) {
                    peaks.push((m * (1.0 + 3.0e-6), inten / 2.0));
                }
            }
        }
        peaks.sort_by(|a, b| a.0.total_cmp(&b.0));
        let file = rng.below(nfiles);
        let title = format!("scan={}", 1000 + k);
        files[file].push(Spec {
            title: title.clone(),
            pepmz,
            // with override_precursor_charge the annotation is ignored by the search: annotate a WRONG charge
            // in some spectra so that a row built from the annotation instead of the searched charge shows
            charge: if cfg.override_charge && rng.chance(1, 2) {
                Some(if z == 2 { 3 } else { 2 })
            } else if rng.chance(3, 4) {
                Some(z)
            } else {
                None
            },
            rt_sec: 60.0 + 30.0 * k as f32,
            peaks,
        });
        // the property's hypothesis: a target that is the only target inside the searched precursor windows
        let charge_annotated = files[file].last().unwrap().charge;
        let zs: Vec<u8> = match charge_annotated {
            Some(z) if !cfg.override_charge => vec![z],
            _ => (cfg.z.0..=cfg.z.1).collect(),
        };
        let mut unique = !pep.decoy && !cfg.deisotope;
        if unique {
            'outer: for q in db.peptides.iter() {
                if q.decoy || std::ptr::eq(q, pep) {
                    continue;
                }
                for &zq in &zs {
                    let m_obs = (pepmz - PROTON) * zq as f32;
                    for k in cfg.iso.0..=cfg.iso.1 {
                        let center = m_obs - k as f32 * NEUTRON;
                        let (lo, hi) = if cfg.ptol.0 == 0 {
                            (center + center * cfg.ptol.1 / 1e6, center + center * cfg.ptol.2 / 1e6)
                        } else {
                            (center + cfg.ptol.1, center + cfg.ptol.2)
                        };
                        if q.monoisotopic >= lo - 0.01 && q.monoisotopic <= hi + 0.01 {
                            unique = false;
                            break 'outer;
                        }
                    }
                }
            }
        }
        let rt_sec = 60.0 + 30.0 * k as f32;
        let is_mzml = fmts[file].format != 0;
        fmts[file].inj.push(if is_mzml { *rng.pick(&[0.0f32, 12.5, 50.0, 118.25]) } else { 0.0 });
        if is_mzml && cfg.lfq.on && !pep.decoy {
            // VERIF_C01_EXACT_ENVELOPE=1 (used once, to produce findings/C01-lfq-exact-envelope.req): the envelope is
            // exactly sage's theoretical distribution; the cosine then rounds above 1.0 for many peptides
            let exact = std::env::var("VERIF_C01_EXACT_ENVELOPE").is_ok();
            fmts[file].extras.extend(ms1_envelope(pep, z, rt_sec, k, exact));
            // claim: quantified in this file — the rank-1 claim holds, the peptide occurs once in the run, the
            // envelope matches the theoretical distribution (normalised spectral angle ~0.96) and the threshold is
            // at most 0.8; that the PSM passes 1% peptide-level FDR is checked by the driver on the results table
            if unique && fresh && cfg.lfq.spectral_angle <= 0.8 {
                lfq_planted.push((file, pep.to_string(), exact));
            }
        } else if is_mzml && rng.chance(1, 3) {
            // an MS1 survey scan that nothing uses (must be ignored by the search)
            fmts[file].extras.push(Extra {
                level: 1,
                title: format!("ms1={}", 1000 + k),
                rt_sec: rt_sec - 0.5,
                pref: None,
                inj: 5.0,
                noise: None,
                peaks: vec![(400.25, 1000.0), (pepmz, 5000.0), (900.5, 250.0)],
            });
        }
        if is_mzml && cfg.tmt != 0 && cfg.tmt_level == 3 && rng.chance(3, 4) {
            // the MS3 reporter scan of this MS2 spectrum: reporter peaks on (most of) the channels, other intensities
            // than in the MS2 spectrum; with `sn` a constant noise array (a power of two: S/N division is exact)
            let plex = match cfg.tmt {
                6 => sage_core::tmt::Isobaric::Tmt6,
                10 => sage_core::tmt::Isobaric::Tmt10,
                11 => sage_core::tmt::Isobaric::Tmt11,
                16 => sage_core::tmt::Isobaric::Tmt16,
                _ => sage_core::tmt::Isobaric::Tmt18,
            };
            let mut pk: Vec<(f32, f32)> = Vec::new();
            for &m in plex.reporter_masses() {
                if rng.chance(1, 6) {
                    continue;
                }
                let inten = *rng.pick(&[48.0f32, 96.0, 192.0, 384.0, 1024.0]);
                pk.push((m, inten));
                if rng.chance(1, 4) {
                    pk.push((m * (1.0 + 3.0e-6), inten / 4.0));
                }
            }
            pk.push((300.5, 64.0));
            pk.sort_by(|a, b| a.0.total_cmp(&b.0));
            fmts[file].extras.push(Extra {
                level: 3,
                title: format!("ms3={}", 1000 + k),
                rt_sec: rt_sec + 0.25,
                pref: Some((title.clone(), 400.0 + k as f32)),
                inj: *rng.pick(&[0.0f32, 22.0, 100.5]),
                noise: if rng.chance(1, 2) { Some(*rng.pick(&[2.0f32, 4.0, 0.5])) } else { None },
                peaks: pk,
            });
        }
        if unique {
            planted.push(Planted { file, title, peptide: pep.to_string() });
        }
    }
    for (fi, f) in files.iter_mut().enumerate() {
        if f.is_empty() {
            // every file needs at least one spectrum block
            f.push(Spec { title: "scan=1".into(), pepmz: 500.0, charge: Some(2), rt_sec: 1.0, peaks: vec![(200.0, 1.0), (300.0, 1.0)] });
            fmts[fi].inj.push(0.0);
        }
    }
    let model_too_large =
        model_too_large || search_cost(files.iter().map(|f| f.len()).sum(), db.fragments.len()) > SEARCH_LIMIT;
    Some(Request { cfg, fasta, files, planted, fmts, lfq_planted, model_too_large, parquet: false })
}

/// give the spectra of every file the SAME scan ids (`scan=1000`, `scan=1001`, … in file order), the way real
/// instrument files number their scans from the same start; MS3 scans keep referencing their MS2 spectrum and the
/// planted claims follow. The reporter intensities of a spectrum are drawn per spectrum, so equal ids in different
/// files carry DIFFERENT reporter intensities (checked: `None` if two colliding spectra agree in the reporter region)
fn collide_scan_ids(r: &mut Request) -> Option<()> {
    for fi in 0..r.files.len() {
        let mut map: HashMap<String, String> = HashMap::new();
        for (k, s) in r.files[fi].iter_mut().enumerate() {
            let new = format!("scan={}", 1000 + k);
            map.insert(s.title.clone(), new.clone());
            s.title = new;
        }
        if let Some(fmt) = r.fmts.get_mut(fi) {
            for e in fmt.extras.iter_mut() {
                if let Some((rf, _)) = e.pref.as_mut() {
                    if let Some(n) = map.get(rf) {
                        *rf = n.clone();
                    }
                }
            }
        }
        for p in r.planted.iter_mut() {
            if p.file == fi {
                if let Some(n) = map.get(&p.title) {
                    p.title = n.clone();
                }
            }
        }
    }
    // at least two files with two real spectra each, and colliding spectra differ in the reporter region
    if r.files.iter().filter(|f| f.len() >= 2).count() < 2 {
        return None;
    }
    let reporters = |s: &Spec| -> Vec<(u32, u32)> { s.peaks.iter().filter(|p| p.0 < 140.0).map(|p| (p.0.to_bits(), p.1.to_bits())).collect() };
    for a in 0..r.files.len() {
        for b in a + 1..r.files.len() {
            for (x, y) in r.files[a].iter().zip(r.files[b].iter()) {
                if r.cfg.tmt != 0 && r.cfg.tmt_level == 2 && reporters(x) == reporters(y) {
                    return None;
                }
            }
        }
    }
    Some(())
}

/// directed shapes that every run must contain (index = which one)
fn directed(rng: &mut Rng, which: usize) -> Option<Request> {
    let mut r = match which {
        // chunked pre-filter build + isotope-shifted precursors: a planted peptide seen only with a 13C
        // offset must survive the pre-filter pass and be reported
        2 => random_request_with(rng, 9, &|c| {
            c.prefilter = true;
            c.prefilter_chunk = 2;
            c.iso = (-1, 2);
            c.chimera = false;
            c.tmt = 0;
            c.gen_decoys = true;
            // so that the planted-peptide claims are made (they need an intact ladder and a unique target)
            c.deisotope = false;
            c.ptol = (0, -10.0, 10.0);
            c.semi = false;
        })?,
        // chimeric search that really returns several PSMs per spectrum
        3 => random_request_with(rng, 9, &|c| {
            c.chimera = true;
            c.report_psms = 2;
            c.min_matched = 3;
            c.tmt = 0;
            c.deisotope = false;
            c.ptol = (1, -30.0, 30.0);
        })?,
        // LFQ on a single mzML file: every planted target has a clean MS1 isotope envelope (claims are made)
        4 => random_request_opts(
            rng,
            240,
            &|c| {
                c.lfq = Lfq { on: true, peak_scoring: 3, integration: 1, spectral_angle: 0.7, ppm: 5.0, combine: true };
                c.chimera = false;
                c.deisotope = false;
                c.tmt = 0;
                c.semi = false;
                c.gen_decoys = true;
                c.predict_rt = false; // sage switches it on itself when lfq is requested
                c.report_psms = 1;
                c.mc = 2;
                c.vars = vec![("M".to_string(), vec![15.9949f32])];
                c.max_var = 1;
                c.iso = (0, 0);
                c.ptol = (0, -10.0, 10.0);
                c.override_charge = false;
                c.bucket = 8192;
            },
            GenOpts { format: Some(1), nfiles: Some(1), scale: true, mirror: false },
        )?,
        // LFQ over a mix of MGF / mzML / mzML.gz files, charge states kept apart, apex integration
        5 => random_request_opts(
            rng,
            240,
            &|c| {
                c.lfq = Lfq { on: true, peak_scoring: 1, integration: 0, spectral_angle: 0.5, ppm: 10.0, combine: false };
                c.deisotope = false;
                c.tmt = 0;
                c.batch = 2;
                c.mc = 2;
                c.semi = false;
                c.chimera = false;
                c.bucket = 8192;
                // keeps the Lean pipeline model's run of ~200 spectra within a few seconds
                c.ptol = (0, -15.0, 15.0);
                c.report_psms = 1;
                c.vars = vec![("M".to_string(), vec![15.9949f32])];
                c.max_var = 1;
                c.iso = (0, 0);
                c.override_charge = false;
            },
            GenOpts { format: None, nfiles: Some(3), scale: true, mirror: false },
        )?,
        // MS3-level TMT with signal-to-noise: reporter scans reference their MS2 spectrum
        6 => random_request_opts(
            rng,
            9,
            &|c| {
                c.tmt = 11;
                c.tmt_level = 3;
                c.tmt_sn = true;
                c.lfq = Lfq::default();
            },
            GenOpts { format: Some(1), nfiles: Some(2), scale: false, mirror: false },
        )?,
        // parquet: MS2-level TMT over three files (random formats) whose scan ids COLLIDE, fragment annotation on
        7 => {
            let plex = *rng.pick(&[6u8, 10, 11, 16, 18]);
            random_request_opts(
                rng,
                14,
                &move |c| {
                    c.tmt = plex;
                    c.tmt_level = 2;
                    c.tmt_sn = false;
                    c.lfq = Lfq::default();
                    c.annotate = true;
                    c.batch = 2;
                    c.prefilter = false;
                },
                GenOpts { format: None, nfiles: Some(3), scale: false, mirror: false },
            )?
        }
        // parquet: MS3-level TMT over two mzML files with colliding scan ids (some MS2 spectra have no MS3 scan:
        // null reporter lists next to filled ones)
        8 => random_request_opts(
            rng,
            12,
            &|c| {
                c.tmt = 16;
                c.tmt_level = 3;
                c.tmt_sn = false;
                c.lfq = Lfq::default();
                c.report_psms = 2;
            },
            GenOpts { format: Some(1), nfiles: Some(2), scale: false, mirror: false },
        )?,
        // target-only database: no decoy record and none generated, so the rescoring model cannot be fitted and
        // the runner reports its heuristic fallback score, which must be finite (seeded C15-J); weak spectra are
        // included so that poisson values below -1 occur
        9 => random_request_with(rng, 12, &|c| {
            c.tmt = 0;
            c.lfq = Lfq::default();
            c.chimera = false;
            c.prefilter = false;
        })?,
        // more raw peaks than max_peaks, no deisotoping: the top-N selection really drops peaks and the result
        // must still be sorted by mass for the fragment look-ups (seeded C01-L)
        10 => random_request_with(rng, 9, &|c| {
            c.deisotope = false;
            c.max_peaks = 150;
            c.tmt = 0;
            c.lfq = Lfq::default();
            c.chimera = false;
        })?,
        // a protein whose tryptic peptides are the interior reversals of another protein's: generated decoys that
        // coincide with real targets (seeded C01-K)
        11 => random_request_opts(
            rng,
            12,
            &|c| {
                c.cleave = "KR".into();
                c.restrict = None;
                c.cterm = true;
                c.semi = false;
                c.gen_decoys = true;
                c.tmt = 0;
                c.lfq = Lfq::default();
                c.prefilter = false;
            },
            GenOpts { format: None, nfiles: None, scale: false, mirror: true },
        )?,
        _ => random_request_with(rng, 9, &|_| {})?,
    };
    // the `--parquet` second run: the chimera run (ranks > 1), both LFQ runs, all TMT runs
    if which >= 3 {
        r.parquet = true;
    }
    match which {
        7 | 8 => {
            collide_scan_ids(&mut r)?;
        }
        10 => {
            r.parquet = false;
            for f in r.files.iter_mut() {
                for s in f.iter_mut() {
                    let extra = 170 + rng.below(80);
                    for _ in 0..extra {
                        s.peaks.push((150.0 + rng.unit() as f32 * 1600.0, 1.0 + 4.0 * rng.unit() as f32));
                    }
                    s.peaks.sort_by(|a, b| a.0.total_cmp(&b.0));
                }
            }
        }
        11 => {
            r.parquet = false;
        }
        9 => {
            r.parquet = false;
            r.cfg.gen_decoys = false;
            let tag = r.cfg.decoy_tag.clone();
            r.fasta.retain(|(a, _)| !a.contains(&tag));
            if r.fasta.is_empty() {
                return None;
            }
        }
        // more files than the batch size, file count not a multiple of it (last batch is short)
        0 => {
            r.cfg.batch = 2;
            let all: Vec<Spec> = r.files.drain(..).flatten().collect();
            r.files = vec![Vec::new(), Vec::new(), Vec::new()];
            for (i, s) in all.into_iter().enumerate() {
                r.files[i % 3].push(s);
            }
            for p in r.planted.iter_mut() {
                // planted entries are re-attached by title below
                p.file = usize::MAX;
            }
            let titles: Vec<(usize, String)> = r.files.iter().enumerate().flat_map(|(fi, f)| f.iter().map(move |s| (fi, s.title.clone()))).collect();
            for p in r.planted.iter_mut() {
                if let Some((fi, _)) = titles.iter().find(|(_, t)| *t == p.title) {
                    p.file = *fi;
                }
            }
            r.planted.retain(|p| p.file != usize::MAX);
            if r.files.iter().any(|f| f.is_empty()) {
                return None;
            }
        }
        // charge annotation overridden, with wrong annotations present
        1 => {
            r.cfg.override_charge = true;
            r.cfg.z = (2, 3);
            for f in r.files.iter_mut() {
                for (k, s) in f.iter_mut().enumerate() {
                    if k % 2 == 0 {
                        s.charge = Some(match s.charge { Some(2) => 3, Some(3) => 2, _ => 4 });
                    }
                }
            }
            // the uniqueness hypothesis was evaluated for the old annotation: drop the planted claims
            r.planted.clear();
        }
        2 => {
            if r.fasta.len() <= r.cfg.prefilter_chunk {
                return None;
            }
        }
        3 => {
            // every spectrum additionally carries the ladder of its neighbour (weaker): a co-fragmented pair
            for f in r.files.iter_mut() {
                let ladders: Vec<Vec<(f32, f32)>> = f.iter().map(|s| s.peaks.clone()).collect();
                let n = f.len();
                if n < 2 {
                    continue;
                }
                for (k, s) in f.iter_mut().enumerate() {
                    let other = &ladders[(k + 1) % n];
                    s.peaks.extend(other.iter().map(|&(mz, i)| (mz + 0.0005, i / 3.0)));
                    s.peaks.sort_by(|a, b| a.0.total_cmp(&b.0));
                }
            }
            // rank-1 claims only hold for the stronger peptide; keep them (its peaks are 3x as intense)
        }
        5 => {
            // make sure the three formats are all present
            let want = [0u8, 1, 2];
            if r.fmts.len() != 3 {
                return None;
            }
            let have: Vec<u8> = r.fmts.iter().map(|f| f.format).collect();
            if !want.iter().all(|w| have.contains(w)) {
                return None;
            }
        }
        _ => {}
    }
    Some(r)
}

/// does some scan id occur in two different input files?
fn scan_ids_collide(r: &Request) -> bool {
    let mut seen: HashMap<&str, usize> = HashMap::new();
    for (fi, f) in r.files.iter().enumerate() {
        for s in f {
            if let Some(&g) = seen.get(s.title.as_str()) {
                if g != fi {
                    return true;
                }
            }
            seen.insert(s.title.as_str(), fi);
        }
    }
    false
}

pub fn gen(rng: &mut Rng, tier: Tier, emit: &mut dyn FnMut(Case)) {
    let n = if tier == Tier::Quick { 6 } else { 150 };
    let mut made = 0;
    let mut tries = 0;
    let mut next_directed = 0usize;
    const NDIRECTED: usize = 12;
    while made < n + NDIRECTED && tries < (n + NDIRECTED) * 12 {
        tries += 1;
        let nspec = 4 + rng.below(if tier == Tier::Quick { 8 } else { 30 });
        let req = if next_directed < NDIRECTED {
            let r = directed(rng, next_directed);
            if r.is_some() {
                next_directed += 1;
            }
            r
        } else if tier != Tier::Quick && made % 20 == 5 {
            // thorough only: further multi-file TMT runs with colliding scan ids, repeated with --parquet
            // (alternating MS2- and MS3-level quantification)
            directed(rng, 7 + (made / 20) % 2)
        } else if tier != Tier::Quick && made % 25 == 10 {
            // thorough only: further runs large enough for 1% peptide-level FDR, with random LFQ settings and formats
            let (ps, ig, sa, ppm, comb) = (rng.below(4) as u8, rng.below(2) as u8, *rng.pick(&[0.5f64, 0.7, 0.8]), *rng.pick(&[5.0f32, 10.0, 20.0]), rng.chance(1, 2));
            random_request_opts(
                rng,
                220,
                &move |c| {
                    c.lfq = Lfq { on: true, peak_scoring: ps, integration: ig, spectral_angle: sa, ppm, combine: comb };
                    c.deisotope = false;
                    c.tmt = 0;
                    c.mc = 2;
                    c.semi = false;
                    c.chimera = false;
                    c.bucket = 8192;
                    c.report_psms = 1;
                    c.vars = vec![("M".to_string(), vec![15.9949f32])];
                    c.max_var = 1;
                    c.iso = (0, 0);
                    c.override_charge = false;
                },
                GenOpts { format: None, nfiles: None, scale: true, mirror: false },
            )
        } else {
            // a third of the random runs are repeated with `--parquet`; half of those with multi-file TMT get
            // colliding scan ids as well
            let mut r = random_request(rng, nspec);
            if let Some(r) = r.as_mut() {
                r.parquet = rng.chance(1, 3);
                if r.parquet && r.cfg.tmt != 0 && r.files.len() > 1 && rng.chance(1, 2) {
                    let _ = collide_scan_ids(r);
                }
            }
            r
        };
        if let Some(r) = req {
            let c = &r.cfg;
            let case = Case::new(encode(&r))
                .tag_if(!r.model_too_large && !c.prefilter, "model-compared")
                .tag_if(c.prefilter, "model-na:prefilter")
                .tag_if(r.model_too_large, "model-na:too-large")
                .tag_if(c.semi, "semi-enzymatic")
                .tag_if(!c.cterm, "n-terminal-enzyme")
                .tag_if(!c.gen_decoys, "fasta-decoys")
                .tag_if(!c.gen_decoys && !r.fasta.iter().any(|(a, _)| a.starts_with(&c.decoy_tag)), "target-only-database")
                .tag_if(c.gen_decoys && r.fasta.iter().any(|(a, _)| a.starts_with(&c.decoy_tag)), "tagged-records-with-generated-decoys")
                .tag_if(c.ptol.0 == 1, "precursor-da")
                .tag_if(c.iso.0 != c.iso.1, "isotope-errors")
                .tag_if(c.chimera, "chimera")
                .tag_if(c.pin, "pin")
                .tag_if(c.annotate, "annotate")
                .tag_if(!c.vars.is_empty(), "variable-mods")
                .tag_if(!c.statics.is_empty(), "static-mods")
                .tag_if(c.report_psms > 1, "report_psms>1")
                .tag_if(r.files.len() > 1, "multi-file")
                .tag_if(c.tmt != 0, "tmt")
                .tag_if(c.tmt != 0 && c.tmt_level == 3, "tmt-ms3-level")
                .tag_if(c.tmt != 0 && c.tmt_level == 3 && r.fmts.iter().any(|f| f.extras.iter().any(|e| e.level == 3)), "tmt-ms3-spectra")
                .tag_if(c.tmt != 0 && c.tmt_sn && r.fmts.iter().any(|f| f.extras.iter().any(|e| e.level == c.tmt_level && e.noise.is_some())), "tmt-signal-to-noise")
                .tag_if(r.fmts.iter().any(|f| f.format != 0), "mzml-input")
                .tag_if(r.fmts.iter().any(|f| f.format == 2), "mzml-gz")
                .tag_if(r.fmts.iter().any(|f| f.format != 0) && r.fmts.iter().any(|f| f.format == 0), "mixed-mgf-mzml")
                .tag_if(r.fmts.iter().any(|f| f.format != 0 && f.style & 4 != 0), "mzml-zlib")
                .tag_if(r.fmts.iter().any(|f| f.format != 0 && f.style & 3 != 0), "mzml-64bit")
                .tag_if(r.fmts.iter().any(|f| f.extras.iter().any(|e| e.level == 1)), "ms1-spectra")
                .tag_if(c.lfq.on, "lfq")
                .tag_if(c.lfq.on && !c.lfq.combine, "lfq-charge-states-apart")
                .tag_if(!r.lfq_planted.is_empty(), "lfq-planted-quantified")
                .tag_if(c.override_charge, "override-precursor-charge")
                .tag_if(c.prefilter, "prefilter")
                .tag_if(r.files.len() > c.batch && r.files.len() % c.batch != 0, "short-last-batch")
                .tag_if(r.parquet, "parquet")
                .tag_if(r.parquet && c.tmt != 0, "parquet-tmt")
                .tag_if(r.parquet && c.tmt != 0 && scan_ids_collide(&r), "parquet-tmt-colliding-scan-ids")
                .tag_if(r.parquet && c.lfq.on, "parquet-lfq")
                .tag_if(r.parquet && c.annotate, "parquet-annotate")
                .tag_if(r.parquet && c.report_psms > 1, "parquet-report_psms>1");
            emit(case);
            made += 1;
        }
    }
}
