import SageModel.Proto
import SageModel.Drv.C01
import SageModel.Drv.C02
import SageModel.Drv.C03
import SageModel.Drv.C04
import SageModel.Drv.C05
import SageModel.Drv.C06
import SageModel.Drv.C07
import SageModel.Drv.C08
import SageModel.Drv.C09
import SageModel.Drv.C10
import SageModel.Drv.C11
import SageModel.Drv.C12
import SageModel.Drv.C13
import SageModel.Drv.C14
import SageModel.Drv.C15
import SageModel.Drv.C16
import SageModel.Drv.C17
import SageModel.Drv.C18
import SageModel.Drv.C19
import SageModel.Drv.C20

open Sage.Proto

/-- dispatch table: every property's driver gets a chance at the op -/
def handlers : List (String → List String → List String → Option Reply) :=
  [ Sage.C01.handle,
    Sage.C02.handle,
    Sage.C03.handle,
    Sage.C04.handle,
    Sage.C05.handle,
    Sage.C06.handle,
    Sage.C07.handle,
    Sage.C08.handle,
    Sage.C09.handle,
    Sage.C10.handle,
    Sage.C11.handle,
    Sage.C12.handle,
    Sage.C13.handle,
    Sage.C14.handle,
    Sage.C15.handle,
    Sage.C16.handle,
    Sage.C17.handle,
    Sage.C18.handle,
    Sage.C19.handle,
    Sage.C20.handle ]

def handleLine (line : String) : String :=
  let (req, impl) :=
    match line.splitOn " | " with
    | [r] => (r, "")
    | r :: rest => (r, " | ".intercalate rest)
    | [] => ("", "")
  match words req with
  | [] => badRequest.render
  | op :: args =>
    let implToks := words impl
    match handlers.findSome? (fun h => h op args implToks) with
    | some r => r.render
    | none => badRequest.render

partial def loop (h : IO.FS.Stream) (out : IO.FS.Stream) : IO Unit := do
  let line ← h.getLine
  if line.isEmpty then return ()
  let l := line.trimAscii.toString
  if l.isEmpty || l.startsWith "#" then
    loop h out
  else
    out.putStrLn (handleLine l)
    loop h out

def main : IO Unit := do
  let stdin ← IO.getStdin
  let stdout ← IO.getStdout
  loop stdin stdout
  stdout.flush
