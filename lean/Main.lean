import SageModel.Proto
import SageModel.Drv.C12

open Sage.Proto

/-- dispatch table: every property's driver gets a chance at the op -/
def handlers : List (String → List String → List String → Option Reply) :=
  [ Sage.C12.handle ]

def handleLine (line : String) : String :=
  let (req, impl) :=
    match line.splitOn " | " with
    | [r] => (r, "")
    | r :: rest => (r, " | ".intercalate rest)
    | [] => ("", "")
  match words req with
  | [] => badRequest.render
  | op :: args =>
    let implToks := words impl
    match handlers.findSome? (fun h => h op args implToks) with
    | some r => r.render
    | none => badRequest.render

partial def loop (h : IO.FS.Stream) (out : IO.FS.Stream) : IO Unit := do
  let line ← h.getLine
  if line.isEmpty then return ()
  let l := line.trimAscii.toString
  if l.isEmpty || l.startsWith "#" then
    loop h out
  else
    out.putStrLn (handleLine l)
    loop h out

def main : IO Unit := do
  let stdin ← IO.getStdin
  let stdout ← IO.getStdout
  loop stdin stdout
  stdout.flush
