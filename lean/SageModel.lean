import SageModel.Proto
import SageModel.Generated.Consts
import SageModel.Model.C12
import SageModel.Drv.C12
import SageModel.Props.C12
