/-!
# Line protocol helpers (core Lean only)

One case = one line `op arg … | impl-reply-tokens …`.
Floats cross the boundary only as IEEE bit patterns in decimal (`u32`/`u64`);
strings are hex-encoded (`-` is the empty string); lists are length-prefixed.
The driver answers `model-reply | agree(0/1) | spec-verdict`.
-/

namespace Sage.Proto

/-- A token parser: consumes tokens from the front. -/
abbrev P := StateT (List String) Option

def tok : P String := fun
  | [] => none
  | t :: ts => some (t, ts)

def nat : P Nat := do
  let t ← tok
  match t.toNat? with
  | some n => pure n
  | none => failure

def int : P Int := do
  let t ← tok
  match t.toInt? with
  | some n => pure n
  | none => failure

def bool : P Bool := do
  let n ← nat
  pure (n != 0)

def f32 : P Float32 := do
  let n ← nat
  pure (Float32.ofBits n.toUInt32)

def f64 : P Float := do
  let n ← nat
  pure (Float.ofBits n.toUInt64)

/-- `0` or `1 x` -/
def opt {α} (p : P α) : P (Option α) := do
  let b ← nat
  if b == 0 then pure none else do
    let x ← p
    pure (some x)

def listN {α} (p : P α) : Nat → P (List α)
  | 0 => pure []
  | n + 1 => do
    let x ← p
    let xs ← listN p n
    pure (x :: xs)

/-- length-prefixed list -/
def list {α} (p : P α) : P (List α) := do
  let n ← nat
  listN p n

def hexVal (c : Char) : Option Nat :=
  if '0' ≤ c ∧ c ≤ '9' then some (c.toNat - '0'.toNat)
  else if 'a' ≤ c ∧ c ≤ 'f' then some (c.toNat - 'a'.toNat + 10)
  else none

def unhexChars : List Char → Option (List UInt8)
  | [] => some []
  | [_] => none
  | a :: b :: rest => do
    let x ← hexVal a
    let y ← hexVal b
    let r ← unhexChars rest
    pure ((x * 16 + y).toUInt8 :: r)

/-- hex-encoded bytes; `-` is empty -/
def bytes : P (List UInt8) := do
  let t ← tok
  if t == "-" then pure [] else
  match unhexChars t.toList with
  | some b => pure b
  | none => failure

def hexDigit (n : Nat) : Char :=
  if n < 10 then Char.ofNat ('0'.toNat + n) else Char.ofNat ('a'.toNat + n - 10)

def hex (b : List UInt8) : String :=
  if b.isEmpty then "-" else
  String.ofList (b.flatMap fun x => [hexDigit (x.toNat / 16), hexDigit (x.toNat % 16)])

/-- ASCII string <-> bytes (the protocol never carries non-ASCII text un-hexed) -/
def strOfBytes (b : List UInt8) : String := String.ofList (b.map fun x => Char.ofNat x.toNat)
def bytesOfStr (s : String) : List UInt8 := s.toUTF8.toList

def str : P String := do
  let b ← bytes
  pure (strOfBytes b)

def run {α} (p : P α) (ts : List String) : Option α :=
  match p ts with
  | some (a, []) => some a
  | _ => none

/-- run without requiring all tokens consumed -/
def runPrefix {α} (p : P α) (ts : List String) : Option (α × List String) := p ts

/-! ## output helpers -/

def outF32 (x : Float32) : String := toString x.toBits.toNat
def outF64 (x : Float) : String := toString x.toBits.toNat
def outBool (b : Bool) : String := if b then "1" else "0"
def outList {α} (f : α → String) (l : List α) : String :=
  " ".intercalate (toString l.length :: l.map f)
def outOpt {α} (f : α → String) : Option α → String
  | none => "0"
  | some x => "1 " ++ f x

def words (s : String) : List String :=
  (s.splitOn " ").filter (· ≠ "")

/-- Result of handling one case. -/
structure Reply where
  model : String            -- the model's reply, canonical text
  agree : Bool              -- does the implementation's reply agree with the model's?
  spec  : String := "ok"    -- verdict of the executable spec on the IMPLEMENTATION's reply: `ok`, `na`, or `bad:<clause>`
deriving Repr

def Reply.render (r : Reply) : String := s!"{r.model} | {outBool r.agree} | {r.spec}"

def badRequest : Reply := { model := "bad-request", agree := false, spec := "na" }

/-- exact-text comparison: the usual way to decide `agree` -/
def exact (model impl : String) (spec : String := "ok") : Reply :=
  { model := model, agree := (words model == words impl), spec := spec }

/-! ## exact rational value of a float (for spec evaluation in ℚ) -/

/-- exact value `num / 2^k` -/
def dyadic (num : Nat) (k : Nat) : Rat := (num : Rat) / ((2 ^ k : Nat) : Rat)

/-- value of a finite f32 bit pattern as a rational; `none` for NaN/±∞ -/
def ratOfF32Bits (b : Nat) : Option Rat :=
  let sign : Nat := b / 2^31
  let e : Nat := (b / 2^23) % 256
  let m : Nat := b % 2^23
  if e == 255 then none else
  let mag : Rat :=
    if e == 0 then dyadic m 149
    else if e ≥ 150 then (((2^23 + m) * 2^(e - 150) : Nat) : Rat)
    else dyadic (2^23 + m) (150 - e)
  some (if sign == 1 then -mag else mag)

def ratOfF64Bits (b : Nat) : Option Rat :=
  let sign : Nat := b / 2^63
  let e : Nat := (b / 2^52) % 2048
  let m : Nat := b % 2^52
  if e == 2047 then none else
  let mag : Rat :=
    if e == 0 then dyadic m 1074
    else if e ≥ 1075 then (((2^52 + m) * 2^(e - 1075) : Nat) : Rat)
    else dyadic (2^52 + m) (1075 - e)
  some (if sign == 1 then -mag else mag)

def ulpDistF32 (a b : Float32) : Nat :=
  -- map bit patterns to a monotone integer line
  let key (x : Float32) : Int :=
    let n : Int := x.toBits.toNat
    if n ≥ 2^31 then (2^31 : Int) - n else n
  (key a - key b).natAbs

def ulpDistF64 (a b : Float) : Nat :=
  let key (x : Float) : Int :=
    let n : Int := x.toBits.toNat
    if n ≥ 2^63 then (2^63 : Int) - n else n
  (key a - key b).natAbs

end Sage.Proto
