import SageModel.Model.C01Pipeline
import SageModel.Props.C02
import SageModel.Props.C03
import SageModel.Props.C05
import SageModel.Props.C08
import SageModel.Props.C08Sources
import Mathlib.Tactic.Linarith

/-!
# C01 — composition theorems about the pipeline model

`pipeline` (Model/C01Pipeline.lean) is the composition of the component models; the theorems here are obtained by
COMPOSING the component properties' theorems — nothing about digestion, modification placement, the index, the
search or the ranking is re-proved:

* C08 `db_sorted_unique` (database sorted by mass) + C09-level fact "every ion carries a valid peptide index"
  ⟹ hypotheses of C03 `buildIndex_inv` ⟹ the index invariant `DbInv` (`world_inv`);
* `DbInv` ⟹ C02 `search_in_window` applies to every spectrum of the run (`rows_in_window`), and every reported
  peptide index is a database index, so no row is lost (`rows_complete`);
* C02 `report_spec` ⟹ ranks `1..k`, `k ≤ report_psms`, hyperscores non-increasing (`rows_ranked`);
* C08 `db_canonical_sources` + C05 `digest_mem_iff` ⟹ every row's peptide is a modified form of a legal digestion
  product of exactly the proteins it lists (`rows_sources`, `contrib_source`);
* C02 `scoreVector_head_best` ⟹ `planted_found_partial`.

Number types: the structural and search theorems hold for every `α` with a linear order (any arithmetic `Env`,
in particular the rounded one); the source theorems are stated at `α := Rat` like C08's.
-/

set_option linter.unusedSectionVars false

namespace Sage.C01

open Sage.C04 (Env Peak)
open Sage.C02 (Psm Hits PreScore)

/-! ## structural lemmas (any number type) -/

section structural
variable {α β : Type} [Add α] [Sub α] [Mul α] [Neg α] [OfNat α 0] [BEq α]
  [LT α] [DecidableLT α] [LE α] [DecidableLE α]

/-- `searchH` is `C02.search` keeping the hits -/
theorem searchH_eq (A : Arith α β) (db : C02.Db α) (cfg : C02.Cfg α) (info : C02.PepInfo α)
    (peaks : List (Peak α)) (prec : C02.Precursor α) :
    (searchH A db cfg info peaks prec).1 = C02.initialHits A.E db cfg peaks prec ∧
    (searchH A db cfg info peaks prec).2 = (C02.search A.E A.tle db cfg info peaks prec).2 := by
  unfold searchH C02.search
  refine ⟨rfl, ?_⟩
  by_cases h : cfg.chimera <;> simp [h]

/-- what `rowOf` guarantees of a row built from PSM `psm`, by construction (the fields are C04's `feature`) -/
structure RowOf (A : Arith α β) (w : World α) (precMz : α) (psm : Psm β) (row : ModelRow α β) : Prop where
  entry : w.peps[psm.pep]? = some row.entry
  pepIx : row.pepIx = psm.pep
  rank : row.rank = psm.rank
  charge : row.charge = psm.charge
  iso : row.iso = psm.iso
  hs : row.hyperscore = psm.hs
  dnext : row.deltaNext = psm.dnext
  dbest : row.deltaBest = psm.dbest
  calcmass : row.calcmass = row.entry.core.mono
  label : row.label = if row.entry.decoy then -1 else 1
  expmass : row.expmass = A.E.mul (A.E.sub precMz A.E.proton) (A.E.ofNat psm.charge)
  isoErr : row.isotopeError = A.E.mul (C04.ofInt A.E psm.iso) A.E.neutron
  len : row.peptideLen = row.entry.core.sequence.length
  mc : row.missedCleavages = row.entry.mc
  semi : row.semiEnzymatic = row.entry.semi

theorem rowOf_spec (A : Arith α β) (cfg : PCfg α) (w : World α) (file : Nat) (scan : String) (precMz : α)
    (hits : Hits) (psm : Psm β) (q : Array (Peak α)) (tic : α) (row : ModelRow α β)
    (h : rowOf A cfg w file scan precMz hits psm q tic = some row) :
    RowOf A w precMz psm row ∧ row.file = file ∧ row.scan = scan := by
  unfold rowOf at h
  split at h
  · cases h
  · rename_i e he
    simp only [Option.some.injEq] at h
    subst h
    exact ⟨⟨he, rfl, rfl, rfl, rfl, rfl, rfl, rfl, rfl, rfl, rfl, rfl, rfl, rfl, rfl⟩, rfl, rfl⟩

theorem scoredOn_length [C10.Num α] (A : Arith α β) (cfg : C02.Cfg α) (info : C02.PepInfo α) :
    ∀ (psms : List (Psm β)) (q : Array (Peak α)) (t : α), (scoredOn A cfg info psms q t).length = psms.length := by
  intro psms
  induction psms with
  | nil => intro q t; rfl
  | cons p ps ih =>
    intro q t
    unfold scoredOn
    split <;> simp [ih]

/-- every row of a spectrum comes from a PSM of `C02.search` on the prepared spectrum -/
theorem mem_spectrumRows [C10.Num α] (A : Arith α β) (cfg : PCfg α) (w : World α) (file : Nat) (sp : C17.Spectrum α)
    (row : ModelRow α β) (h : row ∈ spectrumRows A cfg w file sp) :
    ∃ peaks tic prec psm, prepare cfg sp = some (peaks, tic, prec) ∧
      psm ∈ (C02.search A.E A.tle w.idx cfg.search w.info peaks prec).2 ∧
      RowOf A w prec.mz psm row ∧ row.file = file ∧ row.scan = sp.id := by
  unfold spectrumRows at h
  rcases hp : prepare cfg sp with _ | ⟨peaks, tic, prec⟩
  · rw [hp] at h; simp at h
  · rw [hp] at h
    simp only [List.mem_filterMap] at h
    obtain ⟨pq, hpq, hrow⟩ := h
    have hmem := (List.of_mem_zip (a := pq.1) (b := pq.2) (by simpa using hpq)).1
    rw [(searchH_eq A w.idx cfg.search w.info peaks prec).2] at hmem
    obtain ⟨r1, r2, r3⟩ := rowOf_spec A cfg w file sp.id prec.mz _ pq.1 pq.2.1 pq.2.2 row hrow
    exact ⟨peaks, tic, prec, pq.1, rfl, hmem, r1, r2, r3⟩

/-- what `worldOf` builds -/
theorem worldOf_spec (A : Arith α β) (cfg : PCfg α) (db : List (C08.DbPep α)) (w : World α)
    (h : worldOf A cfg db = some w) :
    w.peps = db.toArray ∧ w.info = infoOf A cfg db ∧
    ∃ minv frags, C03.buildIndex cfg.bucket (ionsOf A cfg db) = some (minv, frags) ∧
      w.idx = { masses := (db.map (·.core.mono)).toArray, minv := minv, frags := frags, B := cfg.bucket } := by
  unfold worldOf indexOf at h
  rcases hb : C03.buildIndex cfg.bucket (ionsOf A cfg db) with _ | ⟨minv, frags⟩
  · rw [hb] at h; simp at h
  · rw [hb] at h
    simp only [Option.map_some, Option.some.injEq] at h
    subst h
    exact ⟨rfl, rfl, minv, frags, rfl, rfl⟩

/-- every row of the run comes from a spectrum of one of the files, searched against the built database -/
theorem mem_pipeline [C10.Num α] [C17.NumOps α] (A : Arith α β) (cfg : PCfg α) (fasta : C05.Seq)
    (files : List (List (C17.Line α))) (rows : List (ModelRow α β))
    (h : pipeline A cfg fasta files = some rows) (row : ModelRow α β) (hr : row ∈ rows) :
    ∃ targets db w doc sp, C05.parse cfg.db.tag cfg.db.gen fasta = some targets ∧
      C08.buildDb cfg.db targets = some db ∧ worldOf A cfg db = some w ∧
      files[row.file]? = some doc ∧ sp ∈ C17.parseLines doc ∧ row ∈ spectrumRows A cfg w row.file sp := by
  unfold pipeline at h
  rcases hp : C05.parse cfg.db.tag cfg.db.gen fasta with _ | targets
  · rw [hp] at h; simp at h
  · rw [hp] at h
    simp only at h
    unfold buildWorld at h
    rcases hd : C08.buildDb cfg.db targets with _ | db
    · rw [hd] at h; simp at h
    · rw [hd] at h
      simp only [Option.bind_some] at h
      rcases hw : worldOf A cfg db with _ | w
      · rw [hw] at h; simp at h
      · rw [hw] at h
        simp only [Option.some.injEq] at h
        subst h
        unfold worldRows at hr
        obtain ⟨di, hdi, hrow⟩ := List.mem_flatMap.mp hr
        unfold fileRows at hrow
        obtain ⟨sp, hsp, hrow⟩ := List.mem_flatMap.mp hrow
        obtain ⟨_, _, _, _, _, _, _, hfile, _⟩ := mem_spectrumRows A cfg w di.2 sp row hrow
        have hdoc : files[di.2]? = some di.1 := by
          have := List.mem_zipIdx_iff_getElem?.mp (show (di.1, di.2) ∈ files.zipIdx from hdi)
          simpa using this
        refine ⟨targets, db, w, di.1, sp, rfl, hd, hw, ?_, hsp, ?_⟩
        · rw [hfile]; exact hdoc
        · rw [hfile]; exact hrow

end structural

/-! ## property theorems -/

section entry
variable {α β : Type} [Add α] [Sub α] [Mul α] [Neg α] [OfNat α 0] [BEq α]
  [LT α] [DecidableLT α] [LE α] [DecidableLE α] [C10.Num α] [C17.NumOps α]

/-- **C01.rows_entry** — every row of the pipeline is about an entry of the database that `C08.buildDb` builds from
    the parsed FASTA records: `row.entry` is the entry at index `row.pepIx`; `calcmass` is the entry's mass,
    `label = -1` iff the entry is a decoy, `peptide_len` / `missed_cleavages` / `semi_enzymatic` are the entry's
    (all modes, every number type). The entry's sequence, modifications and protein list are what the row's
    `peptide` / `proteins` columns print. -/
theorem rows_entry (A : Arith α β) (cfg : PCfg α) (fasta : C05.Seq) (files : List (List (C17.Line α)))
    (rows : List (ModelRow α β)) (h : pipeline A cfg fasta files = some rows) (row : ModelRow α β) (hr : row ∈ rows) :
    ∃ targets db, C05.parse cfg.db.tag cfg.db.gen fasta = some targets ∧ C08.buildDb cfg.db targets = some db ∧
      db[row.pepIx]? = some row.entry ∧
      row.calcmass = row.entry.core.mono ∧
      row.label = (if row.entry.decoy then -1 else 1) ∧
      row.peptideLen = row.entry.core.sequence.length ∧
      row.missedCleavages = row.entry.mc ∧ row.semiEnzymatic = row.entry.semi := by
  obtain ⟨targets, db, w, doc, sp, h1, h2, h3, _, _, h6⟩ := mem_pipeline A cfg fasta files rows h row hr
  obtain ⟨_, _, _, psm, _, _, ro, _, _⟩ := mem_spectrumRows A cfg w row.file sp row h6
  obtain ⟨hw, _, _⟩ := worldOf_spec A cfg db w h3
  refine ⟨targets, db, h1, h2, ?_, ro.calcmass, ro.label, ro.len, ro.mc, ro.semi⟩
  have := ro.entry
  rw [hw, ro.pepIx.symm] at this
  simpa using this

end entry

/-! ### the index invariant of the built database, window, ranks (any linearly ordered number type) -/

section ordered
variable {α β : Type} [LinearOrder α] [Add α] [Sub α] [Mul α] [Neg α] [OfNat α 0] [C10.Num α] [C17.NumOps α]

/-- every ion handed to the index builder carries the index of a database peptide -/
theorem ionsOf_valid (A : Arith α β) (cfg : PCfg α) (db : List (C08.DbPep α)) :
    ∀ f ∈ ionsOf A cfg db, f.pep < db.length := by
  intro f hf
  unfold ionsOf C08.fragmentsOf C09.buildFragments at hf
  obtain ⟨g, hg, rfl⟩ := List.mem_map.mp hf
  obtain ⟨pi, hpi, hg⟩ := List.mem_flatMap.mp hg
  unfold C09.pepFragments at hg
  obtain ⟨kind, _, hg⟩ := List.mem_flatMap.mp hg
  obtain ⟨mj, _, rfl⟩ := List.mem_map.mp hg
  have := List.mem_zipIdx hpi
  simpa using this.2.1

/-- a successful `buildDb` is `reorder` of something, hence sorted by mass (C08 `db_sorted_unique`) -/
theorem buildDb_sorted (cfg : C08.Cfg α) (targets : List (C05.Seq × C05.Seq)) (db : List (C08.DbPep α))
    (h : C08.buildDb cfg targets = some db) : db.Pairwise (fun a b => a.core.mono ≤ b.core.mono) := by
  unfold C08.buildDb C08.buildWith at h
  rcases hg : C08.groupDigests (C08.fastaDigest cfg.par cfg.tag cfg.gen targets) with _ | gs
  · rw [hg] at h; simp at h
  · rw [hg] at h
    simp only [Option.map_some, Option.some.injEq] at h
    subst h
    exact (C08.db_sorted_unique _).1

/-- **C01.world_inv** — the fragment index of the pipeline's database satisfies C03's index invariant: C08's
    "sorted by mass" and "every ion carries a valid peptide index" are exactly the hypotheses of C03's
    `buildIndex_inv`. Hence every C03 / C02 theorem about lookups applies to every spectrum of every run. -/
theorem world_inv (A : Arith α β) (cfg : PCfg α) (targets : List (C05.Seq × C05.Seq)) (db : List (C08.DbPep α))
    (w : World α) (hdb : C08.buildDb cfg.db targets = some db) (hw : worldOf A cfg db = some w) :
    C03.DbInv w.idx.masses w.idx.minv w.idx.frags w.idx.B := by
  obtain ⟨_, _, minv, frags, hb, hidx⟩ := worldOf_spec A cfg db w hw
  have hB : 0 < cfg.bucket := by
    rcases Nat.eq_zero_or_pos cfg.bucket with h0 | h0
    · rw [h0] at hb; simp [C03.buildIndex] at hb
    · exact h0
  have hm : C03.SortedArr (db.map (·.core.mono)).toArray := by
    have hs := buildDb_sorted cfg.db targets db hdb
    intro i j x y hij hx hy
    simp only [List.getElem?_toArray, List.getElem?_map, Option.map_eq_some_iff] at hx hy
    obtain ⟨a, ha, rfl⟩ := hx
    obtain ⟨b, hb', rfl⟩ := hy
    rcases Nat.lt_or_eq_of_le hij with hlt | rfl
    · have ha' := List.getElem?_eq_some_iff.mp ha
      have hb'' := List.getElem?_eq_some_iff.mp hb'
      have := List.pairwise_iff_getElem.mp hs i j ha'.1 hb''.1 hlt
      rw [ha'.2, hb''.2] at this; exact this
    · rw [ha] at hb'; cases hb'; exact le_refl _
  have hv : ∀ f ∈ ionsOf A cfg db, f.pep < (db.map (·.core.mono)).toArray.size := by
    intro f hf; simpa using ionsOf_valid A cfg db f hf
  obtain ⟨minv', frags', hb2, inv, _⟩ := C03.buildIndex_inv cfg.bucket hB _ hm (ionsOf A cfg db) hv
  rw [hb] at hb2
  simp only [Option.some.injEq, Prod.mk.injEq] at hb2
  obtain ⟨rfl, rfl⟩ := hb2
  rw [hidx]
  exact inv

/-- **C01.rows_in_window** — standard mode: every row of the pipeline reports a (charge, isotope offset) pair that was
    actually searched for its spectrum, `expmass = (precursor m/z − PROTON)·charge` at that charge, and its `calcmass`
    lies inside the precursor window of exactly that pair: `lo ≤ calcmass ≤ hi` with
    `(lo, hi) = Tolerance::bounds(expmass − offset·NEUTRON)` (C02 `search_in_window` through `world_inv`). -/
theorem rows_in_window (A : Arith α β) (cfg : PCfg α) (fasta : C05.Seq) (files : List (List (C17.Line α)))
    (rows : List (ModelRow α β)) (hstd : cfg.search.chimera = false)
    (h : pipeline A cfg fasta files = some rows) (row : ModelRow α β) (hr : row ∈ rows) :
    ∃ doc sp peaks tic prec, files[row.file]? = some doc ∧ sp ∈ C17.parseLines doc ∧ row.scan = sp.id ∧
      prepare cfg sp = some (peaks, tic, prec) ∧
      ∃ zt ∈ C02.searched A.E cfg.search prec, ∃ e ∈ C02.isotopes cfg.search.isoLo cfg.search.isoHi,
        row.charge = zt.1 ∧ row.iso = e ∧
        row.expmass = A.E.mul (A.E.sub prec.mz A.E.proton) (A.E.ofNat zt.1) ∧
        row.isotopeError = A.E.mul (C04.ofInt A.E e) A.E.neutron ∧
        (C04.tolBounds A.E zt.2 (C02.queryMass A.E row.expmass e)).1 ≤ row.calcmass ∧
        row.calcmass ≤ (C04.tolBounds A.E zt.2 (C02.queryMass A.E row.expmass e)).2 := by
  obtain ⟨targets, db, w, doc, sp, _, h2, h3, h4, h5, h6⟩ := mem_pipeline A cfg fasta files rows h row hr
  obtain ⟨peaks, tic, prec, psm, hprep, hpsm, ro, _, hscan⟩ := mem_spectrumRows A cfg w row.file sp row h6
  have inv := world_inv A cfg targets db w h2 h3
  obtain ⟨zt, hzt, e, he, hz, hi, ⟨m, hm, hlo, hhi⟩, _⟩ :=
    C02.search_in_window A.E A.tle w.idx inv cfg.search w.info peaks prec hstd psm hpsm
  obtain ⟨hw, _, _, _, _, hidx⟩ := worldOf_spec A cfg db w h3
  have hmass : m = row.calcmass := by
    have he' := ro.entry
    rw [hw] at he'
    rw [hidx] at hm
    simp only [List.getElem?_toArray, List.getElem?_map, Option.map_eq_some_iff] at hm he'
    obtain ⟨a, ha, rfl⟩ := hm
    rw [he'] at ha; cases ha
    exact ro.calcmass.symm
  have hexp : row.expmass = A.E.mul (A.E.sub prec.mz A.E.proton) (A.E.ofNat zt.1) := by rw [ro.expmass, hz]
  refine ⟨doc, sp, peaks, tic, prec, h4, h5, hscan, hprep, zt, hzt, e, he, by rw [ro.charge, hz], by rw [ro.iso, hi],
    hexp, by rw [ro.isoErr, hi], ?_, ?_⟩
  · rw [hexp, ← hmass]; exact hlo
  · rw [hexp, ← hmass]; exact hhi

/-- the columns a row copies from its PSM -/
def psmKey (p : Psm β) : Nat × Nat × Nat × Int × β × β × β := (p.rank, p.pep, p.charge, p.iso, p.hs, p.dnext, p.dbest)
def rowKey (r : ModelRow α β) : Nat × Nat × Nat × Int × β × β × β :=
  (r.rank, r.pepIx, r.charge, r.iso, r.hyperscore, r.deltaNext, r.deltaBest)

theorem filterMap_keys {γ δ κ : Type} (f : γ → Option δ) (kx : γ → κ) (ky : δ → κ) :
    ∀ l : List γ, (∀ x ∈ l, ∃ y, f x = some y ∧ ky y = kx x) → (l.filterMap f).map ky = l.map kx := by
  intro l
  induction l with
  | nil => intro _; rfl
  | cons x xs ih =>
    intro h
    obtain ⟨y, hy, hk⟩ := h x List.mem_cons_self
    rw [List.filterMap_cons, hy]
    simp only [List.map_cons, hk]
    rw [ih (fun z hz => h z (List.mem_cons_of_mem _ hz))]

/-- **C01.rows_complete** — standard mode, over a database built by the pipeline: no PSM is lost and none is invented —
    the rows of a spectrum are, in order, the PSMs `C02.search` reports for it (rank, peptide index, charge, isotope
    offset, hyperscore, delta_next, delta_best copied). In particular the totalisation in `rowOf` (peptide index out
    of range = panic in the real code) is never taken. -/
theorem rows_complete (A : Arith α β) (cfg : PCfg α) (targets : List (C05.Seq × C05.Seq)) (db : List (C08.DbPep α))
    (w : World α) (hdb : C08.buildDb cfg.db targets = some db) (hw : worldOf A cfg db = some w)
    (hstd : cfg.search.chimera = false) (file : Nat) (sp : C17.Spectrum α) :
    (spectrumRows A cfg w file sp).map rowKey = (spectrumPsms A cfg w sp).map psmKey := by
  unfold spectrumRows spectrumPsms
  rcases hp : prepare cfg sp with _ | ⟨peaks, tic, prec⟩
  · rfl
  · simp only
    have inv := world_inv A cfg targets db w hdb hw
    obtain ⟨hpeps, _, _, _, _, hidx⟩ := worldOf_spec A cfg db w hw
    have hs := (searchH_eq A w.idx cfg.search w.info peaks prec).2
    have hlen := scoredOn_length A cfg.search w.info (searchH A w.idx cfg.search w.info peaks prec).2 peaks.toArray tic
    rw [filterMap_keys _ (fun pq => psmKey pq.1) rowKey]
    · rw [← hs]
      have : ((searchH A w.idx cfg.search w.info peaks prec).2.zip
          (scoredOn A cfg.search w.info (searchH A w.idx cfg.search w.info peaks prec).2 peaks.toArray tic)).map
          (fun pq => psmKey pq.1) =
          ((searchH A w.idx cfg.search w.info peaks prec).2.zip
          (scoredOn A cfg.search w.info (searchH A w.idx cfg.search w.info peaks prec).2 peaks.toArray tic)).unzip.1.map psmKey := by
        simp [List.unzip_eq_map, List.map_map, Function.comp_def]
      rw [this, List.unzip_zip hlen.symm]
    · intro pq hpq
      have hmem := (List.of_mem_zip (a := pq.1) (b := pq.2) (by simpa using hpq)).1
      rw [hs] at hmem
      obtain ⟨_, _, _, _, _, _, ⟨m, hm, _, _⟩, _⟩ :=
        C02.search_in_window A.E A.tle w.idx inv cfg.search w.info peaks prec hstd pq.1 hmem
      rw [hidx] at hm
      simp only [List.getElem?_toArray, List.getElem?_map, Option.map_eq_some_iff] at hm
      obtain ⟨e, he, _⟩ := hm
      have hpe : w.peps[pq.1.pep]? = some e := by rw [hpeps]; simpa using he
      have hrow : ∃ y, rowOf A cfg w file sp.id prec.mz (searchH A w.idx cfg.search w.info peaks prec).1
          pq.1 pq.2.1 pq.2.2 = some y := by
        unfold rowOf; rw [hpe]; exact ⟨_, rfl⟩
      obtain ⟨y, hy⟩ := hrow
      obtain ⟨ro, _, _⟩ := rowOf_spec A cfg w file sp.id prec.mz _ pq.1 pq.2.1 pq.2.2 y hy
      exact ⟨y, hy, by simp only [rowKey, psmKey, ro.rank, ro.pepIx, ro.charge, ro.iso, ro.hs, ro.dnext, ro.dbest]⟩

/-- **C01.rows_ranked** — standard mode: for every spectrum the pipeline reports `k ≤ report_psms` rows, the row at
    position `i` has rank `i + 1` (ranks `1..k`, no gaps), hyperscores are non-increasing with rank, `delta_best ≥ 0`,
    and `delta_next ≥ 0` for every row whose hyperscore is `≥ 0` (C02 `report_spec` through `rows_complete`;
    `tle` = `total_cmp ≠ Greater`, any total preorder; `sub` maps `y ≤ x` to `0 ≤ x − y`). -/
theorem rows_ranked (A : Arith α β) (cfg : PCfg α) (targets : List (C05.Seq × C05.Seq)) (db : List (C08.DbPep α))
    (w : World α) (hdb : C08.buildDb cfg.db targets = some db) (hw : worldOf A cfg db = some w)
    (hstd : cfg.search.chimera = false) (htle : C02.TotalPre A.tle)
    (hsub : ∀ x y, A.tle y x = true → A.tle (A.E.ofNatD 0) (A.E.subD x y) = true)
    (file : Nat) (sp : C17.Spectrum α) :
    let rs := spectrumRows A cfg w file sp
    rs.length ≤ cfg.search.reportPsms ∧
    (∀ (i : Nat) (r : ModelRow α β), rs[i]? = some r → r.rank = i + 1) ∧
    (∀ (i j : Nat) (r s : ModelRow α β), i < j → rs[i]? = some r → rs[j]? = some s →
        A.tle s.hyperscore r.hyperscore = true) ∧
    (∀ (i : Nat) (r : ModelRow α β), rs[i]? = some r → A.tle (A.E.ofNatD 0) r.deltaBest = true) ∧
    (∀ (i : Nat) (r : ModelRow α β), rs[i]? = some r → A.tle (A.E.ofNatD 0) r.hyperscore = true →
        A.tle (A.E.ofNatD 0) r.deltaNext = true) := by
  intro rs
  have hkeys := rows_complete A cfg targets db w hdb hw hstd file sp
  -- the PSM behind the row at position i
  have hget : ∀ (i : Nat) (r : ModelRow α β), rs[i]? = some r →
      ∃ p, (spectrumPsms A cfg w sp)[i]? = some p ∧ psmKey p = rowKey r := by
    intro i r hr
    have h1 : (rs.map rowKey)[i]? = some (rowKey r) := by rw [List.getElem?_map, hr]; rfl
    rw [show rs.map rowKey = _ from hkeys, List.getElem?_map] at h1
    obtain ⟨p, hp, hk⟩ := Option.map_eq_some_iff.mp h1
    exact ⟨p, hp, hk⟩
  have hlen : rs.length = (spectrumPsms A cfg w sp).length := by
    have := congrArg List.length hkeys
    simpa using this
  -- `report_spec` on the PSM list
  have hrep : ∀ (P : List (Psm β)), P = spectrumPsms A cfg w sp →
      P.length ≤ cfg.search.reportPsms ∧
      (∀ (i : Nat) (p : Psm β), P[i]? = some p → p.rank = i + 1) ∧
      (∀ (i j : Nat) (p q : Psm β), i < j → P[i]? = some p → P[j]? = some q → A.tle q.hs p.hs = true) ∧
      (∀ (i : Nat) (p : Psm β), P[i]? = some p → A.tle (A.E.ofNatD 0) p.dbest = true) ∧
      (∀ (i : Nat) (p : Psm β), P[i]? = some p → A.tle (A.E.ofNatD 0) p.hs = true →
        A.tle (A.E.ofNatD 0) p.dnext = true) := by
    intro P hP
    unfold spectrumPsms at hP
    rcases hp : prepare cfg sp with _ | ⟨peaks, tic, prec⟩
    · rw [hp] at hP; subst hP
      simp
    · rw [hp] at hP
      simp only at hP
      unfold C02.search at hP
      simp only [hstd] at hP
      obtain ⟨_, r2, r3, r4, r5, _, r7, _⟩ := C02.report_spec A.tle A.E.subD (A.E.ofNatD 0) htle hsub
        (C02.scoreCand A.E cfg.search.ftol cfg.search.mfc w.info peaks.toArray) cfg.search.minMatched
        cfg.search.reportPsms (C02.initialHits A.E w.idx cfg.search peaks prec).prelim.toList
      subst hP
      exact ⟨r2, r3, r4, r5, r7⟩
  obtain ⟨p1, p2, p3, p4, p5⟩ := hrep _ rfl
  refine ⟨by rw [hlen]; exact p1, ?_, ?_, ?_, ?_⟩
  · intro i r hr
    obtain ⟨p, hp, hk⟩ := hget i r hr
    have := p2 i p hp
    simp only [psmKey, rowKey, Prod.mk.injEq] at hk
    rw [← hk.1]; exact this
  · intro i j r s hij hr hs
    obtain ⟨p, hp, hk⟩ := hget i r hr
    obtain ⟨q, hq, hk'⟩ := hget j s hs
    have := p3 i j p q hij hp hq
    simp only [psmKey, rowKey, Prod.mk.injEq] at hk hk'
    rw [← hk.2.2.2.2.1, ← hk'.2.2.2.2.1]; exact this
  · intro i r hr
    obtain ⟨p, hp, hk⟩ := hget i r hr
    have := p4 i p hp
    simp only [psmKey, rowKey, Prod.mk.injEq] at hk
    rw [← hk.2.2.2.2.2.2]; exact this
  · intro i r hr hpos
    obtain ⟨p, hp, hk⟩ := hget i r hr
    simp only [psmKey, rowKey, Prod.mk.injEq] at hk
    have := p5 i p hp (by rw [hk.2.2.2.2.1]; exact hpos)
    rw [← hk.2.2.2.2.2.1]; exact this

/-- **C01.planted_found_partial** — the abstract form of "planted peptides are found" (standard mode, `report_psms ≥ 1`):
    if candidate `c` (a peptide at a searched charge / isotope offset) survives the preliminary trimming
    (`c ∈ initial_hits.preliminary`, with at least one preliminary match), its full score reaches
    `min_matched_peaks`, and every OTHER retained candidate that reaches `min_matched_peaks` has a strictly lower
    hyperscore (`total_cmp`), then the first row of the spectrum is `c`'s peptide at rank 1, with `c`'s charge and
    isotope offset. PARTIAL: the hypotheses "survives trimming" and "strictly best" are taken as given, not derived
    from "the spectrum is exactly the b/y ladder of the peptide and every other candidate matches a strict subset";
    that derivation needs monotonicity of `ln` / `lnfact`, which an arbitrary `Env` does not provide.
    The strictness hypothesis is necessary: `findings/C01-isobaric-decoy-outranks-planted-target.req` (the reversed
    decoy `PIFLK` of the planted target `PLFIK` has the same ladder, the same score, and the lower index). -/
theorem planted_found_partial (A : Arith α β) (cfg : PCfg α) (targets : List (C05.Seq × C05.Seq))
    (db : List (C08.DbPep α)) (w : World α) (hdb : C08.buildDb cfg.db targets = some db)
    (hw : worldOf A cfg db = some w) (hstd : cfg.search.chimera = false) (htle : C02.TotalPre A.tle)
    (hr : 0 < cfg.search.reportPsms) (file : Nat) (sp : C17.Spectrum α)
    (peaks : List (Peak α)) (tic : α) (prec : C02.Precursor α) (hprep : prepare cfg sp = some (peaks, tic, prec))
    (c : PreScore) (hc : c ∈ (C02.initialHits A.E w.idx cfg.search peaks prec).prelim.toList) (hm : 0 < c.matched)
    (hmin : cfg.search.minMatched ≤
      (C02.scoreCand A.E cfg.search.ftol cfg.search.mfc w.info peaks.toArray c : C02.Cand β).matched)
    (hbest : ∀ c' ∈ (C02.initialHits A.E w.idx cfg.search peaks prec).prelim.toList, c' ≠ c → 0 < c'.matched →
      cfg.search.minMatched ≤ (C02.scoreCand A.E cfg.search.ftol cfg.search.mfc w.info peaks.toArray c' : C02.Cand β).matched →
      A.tle (C02.scoreCand A.E cfg.search.ftol cfg.search.mfc w.info peaks.toArray c : C02.Cand β).hs
            (C02.scoreCand A.E cfg.search.ftol cfg.search.mfc w.info peaks.toArray c' : C02.Cand β).hs = false) :
    ∃ r, (spectrumRows A cfg w file sp)[0]? = some r ∧ r.rank = 1 ∧ r.pepIx = c.peptide ∧ r.charge = c.charge ∧
      r.iso = c.iso := by
  let sc := C02.scoreCand (β := β) A.E cfg.search.ftol cfg.search.mfc w.info peaks.toArray
  let prelim := (C02.initialHits A.E w.idx cfg.search peaks prec).prelim.toList
  let sv := C02.scoreVector A.tle sc cfg.search.minMatched prelim
  have hmem : sc c ∈ sv := (C02.mem_scoreVector A.tle sc cfg.search.minMatched prelim (sc c)).mpr ⟨c, hc, hm, rfl, hmin⟩
  -- the head of the score vector is `sc c`
  have hhead : ∃ rest, sv = sc c :: rest := by
    rcases hsv : sv with _ | ⟨d, rest⟩
    · rw [hsv] at hmem; cases hmem
    · obtain ⟨⟨p, hp, hpm, hd, hdmin⟩, hall⟩ :=
        C02.scoreVector_head_best A.tle (minMatched := cfg.search.minMatched) (prelim := prelim) htle sc d rest hsv
      by_cases hpc : p = c
      · subst hpc; exact ⟨rest, by rw [hd]⟩
      · exfalso
        have h1 := hall c hc hm hmin
        have h2 := hbest p hp hpc hpm (by have := hdmin; rw [hd] at this; exact this)
        rw [hd] at h1
        have h3 : A.tle (sc c).hs (sc p).hs = false := h2
        rw [h3] at h1; cases h1
  obtain ⟨rest, hsv⟩ := hhead
  -- the first PSM
  have hpsm : ∃ p, (spectrumPsms A cfg w sp)[0]? = some p ∧ p.rank = 1 ∧ p.pep = c.peptide ∧ p.charge = c.charge ∧
      p.iso = c.iso := by
    unfold spectrumPsms
    rw [hprep]
    simp only
    unfold C02.search
    simp only [hstd]
    unfold C02.buildFeatures
    have := C02.reportFrom_getElem? A.E.subD (A.E.ofNatD 0) sv cfg.search.reportPsms 0
    rw [if_pos hr, hsv] at this
    simp only [List.getElem?_cons_zero, Option.map_some] at this
    refine ⟨C02.mkPsm A.E.subD (A.E.ofNatD 0) (sc c :: rest) (sc c) 0, ?_, rfl, rfl, rfl, rfl⟩
    simp only [Bool.false_eq_true, if_false]
    show (C02.reportFrom A.E.subD (A.E.ofNatD 0) sv cfg.search.reportPsms)[0]? = _
    rw [hsv]; exact this
  obtain ⟨p, hp, h1, h2, h3, h4⟩ := hpsm
  have hkeys := rows_complete A cfg targets db w hdb hw hstd file sp
  have h0 : ((spectrumPsms A cfg w sp).map psmKey)[0]? = some (psmKey p) := by rw [List.getElem?_map, hp]; rfl
  rw [← hkeys, List.getElem?_map] at h0
  obtain ⟨r, hr0, hk⟩ := Option.map_eq_some_iff.mp h0
  simp only [psmKey, rowKey, Prod.mk.injEq] at hk
  exact ⟨r, hr0, by rw [hk.1, h1], by rw [hk.2.1, h2], by rw [hk.2.2.1, h3], by rw [hk.2.2.2.1, h4]⟩

/-- the build succeeds whenever there is something to digest and the bucket size is positive (C08 `buildDb_isSome`,
    C03 `buildIndex_inv`): the hypotheses of the theorems above are satisfiable for every such configuration -/
theorem worldOf_isSome (A : Arith α β) (cfg : PCfg α) (targets : List (C05.Seq × C05.Seq)) (db : List (C08.DbPep α))
    (hdb : C08.buildDb cfg.db targets = some db) (hB : 0 < cfg.bucket) : ∃ w, worldOf A cfg db = some w := by
  have hm : C03.SortedArr (db.map (·.core.mono)).toArray := by
    have hs := buildDb_sorted cfg.db targets db hdb
    intro i j x y hij hx hy
    simp only [List.getElem?_toArray, List.getElem?_map, Option.map_eq_some_iff] at hx hy
    obtain ⟨a, ha, rfl⟩ := hx
    obtain ⟨b, hb', rfl⟩ := hy
    rcases Nat.lt_or_eq_of_le hij with hlt | rfl
    · have ha' := List.getElem?_eq_some_iff.mp ha
      have hb'' := List.getElem?_eq_some_iff.mp hb'
      have := List.pairwise_iff_getElem.mp hs i j ha'.1 hb''.1 hlt
      rw [ha'.2, hb''.2] at this; exact this
    · rw [ha] at hb'; cases hb'; exact le_refl _
  have hv : ∀ f ∈ ionsOf A cfg db, f.pep < (db.map (·.core.mono)).toArray.size := by
    intro f hf; simpa using ionsOf_valid A cfg db f hf
  obtain ⟨minv, frags, hb, _, _⟩ := C03.buildIndex_inv cfg.bucket hB _ hm (ionsOf A cfg db) hv
  unfold worldOf indexOf
  rw [hb]
  exact ⟨_, rfl⟩

theorem pipeline_isSome (A : Arith α β) (cfg : PCfg α) (fasta : C05.Seq) (files : List (List (C17.Line α)))
    (targets : List (C05.Seq × C05.Seq)) (hp : C05.parse cfg.db.tag cfg.db.gen fasta = some targets)
    (hd : C08.fastaDigest cfg.db.par cfg.db.tag cfg.db.gen targets ≠ []) (hB : 0 < cfg.bucket) :
    ∃ rows, pipeline A cfg fasta files = some rows := by
  obtain ⟨db, hdb⟩ := Option.isSome_iff_exists.1 (C08.buildDb_isSome cfg.db targets hd)
  obtain ⟨w, hw⟩ := worldOf_isSome A cfg targets db hdb hB
  unfold pipeline buildWorld
  rw [hp]
  simp only
  rw [hdb]
  simp only [Option.bind_some]
  rw [hw]
  exact ⟨_, rfl⟩

end ordered

/-! ### the rows against the FASTA records (exact rationals, like C08's source theorems) -/

section sources
variable {β : Type} [C17.NumOps Rat]

/-- where a contribution comes from: a record of the FASTA file, a peptide the C05 digestion of that record
    yields — i.e. (C05 `digest_mem_iff`) the substring of an allowed span of the enzyme specification — and a
    modified form the C06 model derives from it (`dbForms`: C06 `forms_characterized` / `mass_formula` describe
    its placements and mass), or, with generated decoys, the reversal of such a form. -/
theorem contrib_source (cfg : C08.Cfg Rat) (t : List (C05.Seq × C05.Seq)) (c : C08.DbPep Rat)
    (hc : c ∈ C08.contribs cfg t) :
    ∃ rec ∈ t, ∃ d ∈ C05.digest cfg.par rec.2,
      (∃ cand ∈ C05.cands cfg.par rec.2, C05.sub rec.2 cand.i cand.j = d.seq) ∧
      c.proteins = [C08.nats rec.1] ∧ c.mc = d.mc ∧ c.semi = d.semi ∧
      ∃ f ∈ C06.dbForms cfg.h2o cfg.table (C08.toPos6 d.pos) (C08.nats d.seq) cfg.vars cfg.statics cfg.maxVar cfg.lo cfg.hi,
        c.core = f ∨ (cfg.gen = true ∧ c.core = C08.revCore f) := by
  unfold C08.contribs at hc
  obtain ⟨pd, hpd, hcd⟩ := List.mem_flatMap.mp hc
  rw [C08.groupPeptides_eq] at hcd
  obtain ⟨x, hx, rfl⟩ := List.mem_map.mp hcd
  -- the digest behind `pd`
  unfold C08.fastaDigest at hpd
  obtain ⟨rec, hrec, hpd⟩ := List.mem_flatMap.mp hpd
  unfold C08.recordDigests at hpd
  obtain ⟨d, hd, hpd⟩ := List.mem_filterMap.mp hpd
  have hfields : pd.seq = C08.nats d.seq ∧ pd.protein = C08.nats rec.1 ∧ pd.mc = d.mc ∧ pd.pos = d.pos ∧
      pd.semi = d.semi := by
    simp only at hpd
    split at hpd
    · split at hpd
      · cases hpd; exact ⟨rfl, rfl, rfl, rfl, rfl⟩
      · cases hpd
    · cases hpd; exact ⟨rfl, rfl, rfl, rfl, rfl⟩
  obtain ⟨f1, f2, f3, f4, f5⟩ := hfields
  have hcand := (C05.digest_mem_iff cfg.par rec.2 d.seq).mp (List.mem_map.mpr ⟨d, hd, rfl⟩)
  refine ⟨rec, hrec, d, hd, hcand, ?_, ?_, ?_, ?_⟩
  · simp [C08.dress, C08.sourceGroup, C08.newGroup, f2]
  · simp [C08.dress, C08.sourceGroup, C08.newGroup, f3]
  · simp [C08.dress, C08.sourceGroup, C08.newGroup, f5]
  · unfold C08.skeleton at hx
    simp only [C08.sourceGroup, C08.newGroup] at hx
    rw [f1, f4] at hx
    obtain ⟨hx, _⟩ := List.mem_filter.mp hx
    by_cases hg : cfg.gen = true
    · simp only [hg, if_true] at hx
      obtain ⟨p, hp, hxp⟩ := List.mem_flatMap.mp hx
      obtain ⟨f, hf, rfl⟩ := List.mem_map.mp hp
      simp only [List.mem_cons, List.not_mem_nil, or_false] at hxp
      rcases hxp with rfl | rfl
      · exact ⟨f, hf, Or.inr ⟨hg, rfl⟩⟩
      · exact ⟨f, hf, Or.inl rfl⟩
    · simp only [hg] at hx
      obtain ⟨f, hf, rfl⟩ := List.mem_map.mp hx
      exact ⟨f, hf, Or.inl rfl⟩

/-- **C01.rows_sources** — every row of the pipeline is a truthful statement about the FASTA file: the row's entry
    has the key (mass, sequence, modifications, termini) of some *contribution* — a modified form derived from a
    legal digestion product of a record (`contrib_source`) —; its protein list is strictly increasing and is EXACTLY
    the set of accessions of the contributions with that key; `label = -1` iff all of them are decoys
    (C08 `db_canonical_sources` through `rows_entry`). -/
theorem rows_sources (A : Arith Rat β) (cfg : PCfg Rat) (fasta : C05.Seq) (files : List (List (C17.Line Rat)))
    (rows : List (ModelRow Rat β)) (h : pipeline A cfg fasta files = some rows) (row : ModelRow Rat β)
    (hr : row ∈ rows) :
    ∃ targets, C05.parse cfg.db.tag cfg.db.gen fasta = some targets ∧
      (∃ c ∈ C08.contribs cfg.db targets, C08.keyOf c = C08.keyOf row.entry) ∧
      (∀ a, a ∈ row.entry.proteins ↔
        ∃ c ∈ C08.contribs cfg.db targets, C08.keyOf c = C08.keyOf row.entry ∧ a ∈ c.proteins) ∧
      (row.label = -1 ↔ ∀ c ∈ C08.contribs cfg.db targets, C08.keyOf c = C08.keyOf row.entry → c.decoy = true) ∧
      C08.strictlyIncreasing row.entry.proteins = true := by
  obtain ⟨targets, db, h1, h2, h3, _, h5, _⟩ := rows_entry A cfg fasta files rows h row hr
  have hmem : row.entry ∈ db := List.mem_of_getElem? h3
  obtain ⟨_, _, s3, ent, _⟩ := C08.db_canonical_sources cfg.db targets db h2
  obtain ⟨e1, e2, e3, _⟩ := ent row.entry hmem
  refine ⟨targets, h1, e1, e2, ?_, s3 row.entry hmem⟩
  rw [← e3, h5]
  cases row.entry.decoy <;> simp

end sources

/-! ## non-vacuity: a concrete run in exact rationals

Toy world (C08's example data): residue table A = 71, C = 103, G = 57, K = 128, water 18, proton = neutron = 1,
cleave after K, no missed cleavages, lengths 2..10, generated decoys `rev_`; FASTA `>P1 AAKGGK`, `>P2 GGKCCK`;
one MGF spectrum = the b/y ladder of `GGK` (b₁ 57, b₂ 114, y₁ 146, y₂ 203, each + PROTON), precursor m/z (260 + 2)/2,
charge 2+.  `#eval` of `pipeline Ex.A Ex.cfg Ex.fasta Ex.files` gives exactly one row:
`scan=1`, rank 1, peptide index 0, sequence `GGK`, proteins `P1;P2`, label 1, calcmass 260, expmass 260, charge 2,
4 matched peaks — i.e. the shared peptide with both proteins listed, planted and found (its reversal `GGK` is a target
sequence, so there is no decoy entry).  (The kernel cannot unfold the well-founded merge sorts, so the row itself
is shown by evaluation; that the hypotheses of the theorems are met is proved below.) -/

namespace Ex

def E : Env Rat Rat :=
  { add := (· + ·), sub := (· - ·), mul := (· * ·), div := (· / ·), abs := fun x => if x < 0 then -x else x,
    neg := fun x => -x, ofNat := fun n => (n : Rat), proton := 1, neutron := 1, cast := id,
    addD := (· + ·), subD := (· - ·), mulD := (· * ·), divD := (· / ·), negD := fun x => -x,
    ofNatD := fun n => (n : Rat), half := 1/2, pi := 3, tiny := 0, ln := id, exp := id, log10 := id, ln1p := id,
    isFinite := fun _ => true, isInf := fun _ => false }

def A : Arith Rat Rat :=
  { E := E, K := { c := 12, o := 16, h := 1, n := 14, three := 3 }, tle := fun x y => decide (x ≤ y) }

instance numOpsRat : C17.NumOps Rat where
  zero := 0
  one := 1
  sum0 := 0
  add := (· + ·)
  div60 := (· / 60)
  abs := fun x => if x < 0 then -x else x
  neg := fun x => -x

def cfg : PCfg Rat :=
  { db := { par := C08.Ex.par, tag := [114, 101, 118, 95], gen := true, h2o := 18,
            table := C08.Ex.table.map (fun n => (n : Rat)), vars := [], statics := [], maxVar := 1, lo := 0, hi := 100000 }
    kinds := [.b, .y], minIonIndex := 0, bucket := 4
    search := { ptol := .da (-1/2) (1/2), ftol := .da (-1/2) (1/2), minMatched := 2, isoLo := 0, isoHi := 0,
                zLo := 2, zHi := 3, overrideCharge := false, mfc := none, chimera := false, reportPsms := 2,
                wideWindow := false, defaultIsoWin := .da (-2) 2 }
    proc := { takeTopN := 10, deisotope := false, minDeisoMz := 0 }
    minPeaks := 2 }

def files : List (List (C17.Line Rat)) :=
  [mgfLines [("scan=1", (131 : Rat), some 2, (60 : Rat), [((58 : Rat), (10 : Rat)), (115, 20), (147, 30), (204, 40)])]]

/-- the total preorder / subtraction hypotheses of `rows_ranked` and `planted_found_partial` hold of exact `≤`, `−` -/
theorem totalPre : C02.TotalPre A.tle :=
  ⟨fun x y => by simp only [A, decide_eq_true_eq]; exact le_total x y,
   fun x y z h1 h2 => by simp only [A, decide_eq_true_eq] at *; exact le_trans h1 h2⟩

theorem subOk : ∀ x y, A.tle y x = true → A.tle (A.E.ofNatD 0) (A.E.subD x y) = true := by
  intro x y h
  simp only [A, E, decide_eq_true_eq, Nat.cast_zero] at *
  linarith

end Ex

/-- the hypotheses of `world_inv`, `rows_complete`, `rows_ranked`, `planted_found_partial` are met: the database of
    the toy FASTA builds, its index builds, and the index invariant holds -/
example : ∃ db w, C08.buildDb Ex.cfg.db C08.Ex.fasta = some db ∧ worldOf Ex.A Ex.cfg db = some w ∧
    C03.DbInv w.idx.masses w.idx.minv w.idx.frags w.idx.B ∧ Ex.cfg.search.chimera = false ∧
    0 < Ex.cfg.search.reportPsms := by
  obtain ⟨db, hdb⟩ := Option.isSome_iff_exists.1 (C08.buildDb_isSome Ex.cfg.db C08.Ex.fasta (by decide +kernel))
  obtain ⟨w, hw⟩ := worldOf_isSome Ex.A Ex.cfg C08.Ex.fasta db hdb (by decide)
  exact ⟨db, w, hdb, hw, world_inv Ex.A Ex.cfg C08.Ex.fasta db w hdb hw, rfl, by decide⟩

/-- … and so is the hypothesis `pipeline … = some rows` of `rows_entry`, `rows_in_window`, `rows_sources`, for EVERY
    list of spectrum files over that FASTA (rendered as text and read back by the C05 reader) -/
example (files : List (List (C17.Line Rat))) :
    ∃ rows, pipeline Ex.A Ex.cfg (fastaText C08.Ex.fasta) files = some rows :=
  pipeline_isSome Ex.A Ex.cfg _ files C08.Ex.fasta (by decide +kernel) (by decide +kernel) (by decide)

end Sage.C01
