import SageModel.Model.C01Pipeline
import SageModel.Props.C02
import SageModel.Props.C03
import SageModel.Props.C05
import SageModel.Props.C08
import SageModel.Props.C08Sources
import Mathlib.Tactic.Linarith

/-!
# C01 — composition theorems about the pipeline model

`pipeline` (Model/C01Pipeline.lean) is the composition of the component models; the theorems here are obtained by
COMPOSING the component properties' theorems — nothing about digestion, modification placement, the index, the
search or the ranking is re-proved:

* C08 `db_sorted_unique` (database sorted by mass) + C09-level fact "every ion carries a valid peptide index"
  ⟹ hypotheses of C03 `buildIndex_inv` ⟹ the index invariant `DbInv` (`world_inv`);
* `DbInv` ⟹ C02 `search_in_window` applies to every spectrum of the run (`rows_in_window`), and every reported
  peptide index is a database index, so no row is lost (`rows_complete`);
* C02 `report_spec` ⟹ ranks `1..k`, `k ≤ report_psms`, hyperscores non-increasing (`rows_ranked`);
* C08 `db_canonical_sources` + C05 `digest_mem_iff` ⟹ every row's peptide is a modified form of a legal digestion
  product of exactly the proteins it lists (`rows_sources`, `contrib_source`);
* C02 `scoreVector_head_best` ⟹ `planted_found_partial`.

Number types: the structural and search theorems hold for every `α` with a linear order (any arithmetic `Env`,
in particular the rounded one); the source theorems are stated at `α := Rat` like C08's.
-/

set_option linter.unusedSectionVars false

namespace Sage.C01

open Sage.C04 (Env Peak)
open Sage.C02 (Psm Hits PreScore)

/-! ## structural lemmas (any number type) -/

section structural
variable {α β : Type} [Add α] [Sub α] [Mul α] [Neg α] [OfNat α 0] [BEq α]
  [LT α] [DecidableLT α] [LE α] [DecidableLE α]

/-- `searchH` is `C02.search` keeping the hits -/
theorem searchH_eq (A : Arith α β) (db : C02.Db α) (cfg : C02.Cfg α) (info : C02.PepInfo α)
    (peaks : List (Peak α)) (prec : C02.Precursor α) :
    (searchH A db cfg info peaks prec).1 = C02.initialHits A.E db cfg peaks prec ∧
    (searchH A db cfg info peaks prec).2 = (C02.search A.E A.tle db cfg info peaks prec).2 := by
  unfold searchH C02.search
  refine ⟨rfl, ?_⟩
  by_cases h : cfg.chimera <;> simp [h]

/-- what `rowOf` guarantees of a row built from PSM `psm`, by construction (the fields are C04's `feature`) -/
structure RowOf (A : Arith α β) (w : World α) (precMz : α) (psm : Psm β) (row : ModelRow α β) : Prop where
  entry : w.peps[psm.pep]? = some row.entry
  pepIx : row.pepIx = psm.pep
  rank : row.rank = psm.rank
  charge : row.charge = psm.charge
  iso : row.iso = psm.iso
  hs : row.hyperscore = psm.hs
  dnext : row.deltaNext = psm.dnext
  dbest : row.deltaBest = psm.dbest
  calcmass : row.calcmass = row.entry.core.mono
  label : row.label = if row.entry.decoy then -1 else 1
  expmass : row.expmass = A.E.mul (A.E.sub precMz A.E.proton) (A.E.ofNat psm.charge)
  isoErr : row.isotopeError = A.E.mul (C04.ofInt A.E psm.iso) A.E.neutron
  len : row.peptideLen = row.entry.core.sequence.length
  mc : row.missedCleavages = row.entry.mc
  semi : row.semiEnzymatic = row.entry.semi

theorem rowOf_spec (A : Arith α β) (cfg : PCfg α) (w : World α) (file : Nat) (scan : String) (precMz : α)
    (hits : Hits) (psm : Psm β) (q : Array (Peak α)) (tic : α) (row : ModelRow α β)
    (h : rowOf A cfg w file scan precMz hits psm q tic = some row) :
    RowOf A w precMz psm row ∧ row.file = file ∧ row.scan = scan := by
  unfold rowOf at h
  split at h
  · cases h
  · rename_i e he
    simp only [Option.some.injEq] at h
    subst h
    exact ⟨⟨he, rfl, rfl, rfl, rfl, rfl, rfl, rfl, rfl, rfl, rfl, rfl, rfl, rfl, rfl⟩, rfl, rfl⟩

theorem scoredOn_length [C10.Num α] (A : Arith α β) (cfg : C02.Cfg α) (info : C02.PepInfo α) :
    ∀ (psms : List (Psm β)) (q : Array (Peak α)) (t : α), (scoredOn A cfg info psms q t).length = psms.length := by
  intro psms
  induction psms with
  | nil => intro q t; rfl
  | cons p ps ih =>
    intro q t
    unfold scoredOn
    split <;> simp [ih]

/-- every row of a spectrum comes from a PSM of `C02.search` on the prepared spectrum -/
theorem mem_spectrumRows [C10.Num α] (A : Arith α β) (cfg : PCfg α) (w : World α) (file : Nat) (sp : C17.Spectrum α)
    (row : ModelRow α β) (h : row ∈ spectrumRows A cfg w file sp) :
    ∃ peaks tic prec psm, prepare cfg sp = some (peaks, tic, prec) ∧
      psm ∈ (C02.search A.E A.tle w.idx cfg.search w.info peaks prec).2 ∧
      RowOf A w prec.mz psm row ∧ row.file = file ∧ row.scan = sp.id := by
  unfold spectrumRows at h
  rcases hp : prepare cfg sp with _ | ⟨peaks, tic, prec⟩
  · rw [hp] at h; simp at h
  · rw [hp] at h
    simp only [List.mem_filterMap] at h
    obtain ⟨pq, hpq, hrow⟩ := h
    have hmem := (List.of_mem_zip (a := pq.1) (b := pq.2) (by simpa using hpq)).1
    rw [(searchH_eq A w.idx cfg.search w.info peaks prec).2] at hmem
    obtain ⟨r1, r2, r3⟩ := rowOf_spec A cfg w file sp.id prec.mz _ pq.1 pq.2.1 pq.2.2 row hrow
    exact ⟨peaks, tic, prec, pq.1, rfl, hmem, r1, r2, r3⟩

/-- what `worldOf` builds -/
theorem worldOf_spec (A : Arith α β) (cfg : PCfg α) (db : List (C08.DbPep α)) (w : World α)
    (h : worldOf A cfg db = some w) :
    w.peps = db.toArray ∧ w.info = infoOf A cfg db ∧
    ∃ minv frags, C03.buildIndex cfg.bucket (ionsOf A cfg db) = some (minv, frags) ∧
      w.idx = { masses := (db.map (·.core.mono)).toArray, minv := minv, frags := frags, B := cfg.bucket } := by
  unfold worldOf indexOf at h
  rcases hb : C03.buildIndex cfg.bucket (ionsOf A cfg db) with _ | ⟨minv, frags⟩
  · rw [hb] at h; simp at h
  · rw [hb] at h
    simp only [Option.map_some, Option.some.injEq] at h
    subst h
    exact ⟨rfl, rfl, minv, frags, rfl, rfl⟩

/-- every row of the run comes from a spectrum of one of the files, searched against the built database -/
theorem mem_pipeline [C10.Num α] [C17.NumOps α] (A : Arith α β) (cfg : PCfg α) (fasta : C05.Seq)
    (files : List (List (C17.Line α))) (rows : List (ModelRow α β))
    (h : pipeline A cfg fasta files = some rows) (row : ModelRow α β) (hr : row ∈ rows) :
    ∃ targets db w doc sp, C05.parse cfg.db.tag cfg.db.gen fasta = some targets ∧
      C08.buildDb cfg.db targets = some db ∧ worldOf A cfg db = some w ∧
      files[row.file]? = some doc ∧ sp ∈ C17.parseLines doc ∧ row ∈ spectrumRows A cfg w row.file sp := by
  unfold pipeline at h
  rcases hp : C05.parse cfg.db.tag cfg.db.gen fasta with _ | targets
  · rw [hp] at h; simp at h
  · rw [hp] at h
    simp only at h
    unfold buildWorld at h
    rcases hd : C08.buildDb cfg.db targets with _ | db
    · rw [hd] at h; simp at h
    · rw [hd] at h
      simp only [Option.bind_some] at h
      rcases hw : worldOf A cfg db with _ | w
      · rw [hw] at h; simp at h
      · rw [hw] at h
        simp only [Option.some.injEq] at h
        subst h
        unfold worldRows at hr
        obtain ⟨di, hdi, hrow⟩ := List.mem_flatMap.mp hr
        unfold fileRows at hrow
        obtain ⟨sp, hsp, hrow⟩ := List.mem_flatMap.mp hrow
        obtain ⟨_, _, _, _, _, _, _, hfile, _⟩ := mem_spectrumRows A cfg w di.2 sp row hrow
        have hdoc : files[di.2]? = some di.1 := by
          have := List.mem_zipIdx_iff_getElem?.mp (show (di.1, di.2) ∈ files.zipIdx from hdi)
          simpa using this
        refine ⟨targets, db, w, di.1, sp, rfl, hd, hw, ?_, hsp, ?_⟩
        · rw [hfile]; exact hdoc
        · rw [hfile]; exact hrow

end structural

/-! ## property theorems -/

section entry
variable {α β : Type} [Add α] [Sub α] [Mul α] [Neg α] [OfNat α 0] [BEq α]
  [LT α] [DecidableLT α] [LE α] [DecidableLE α] [C10.Num α] [C17.NumOps α]

/-- **C01.rows_entry** — every row of the pipeline is about an entry of the database that `C08.buildDb` builds from
    the parsed FASTA records: `row.entry` is the entry at index `row.pepIx`; `calcmass` is the entry's mass,
    `label = -1` iff the entry is a decoy, `peptide_len` / `missed_cleavages` / `semi_enzymatic` are the entry's
    (all modes, every number type). The entry's sequence, modifications and protein list are what the row's
    `peptide` / `proteins` columns print. -/
theorem rows_entry (A : Arith α β) (cfg : PCfg α) (fasta : C05.Seq) (files : List (List (C17.Line α)))
    (rows : List (ModelRow α β)) (h : pipeline A cfg fasta files = some rows) (row : ModelRow α β) (hr : row ∈ rows) :
    ∃ targets db, C05.parse cfg.db.tag cfg.db.gen fasta = some targets ∧ C08.buildDb cfg.db targets = some db ∧
      db[row.pepIx]? = some row.entry ∧
      row.calcmass = row.entry.core.mono ∧
      row.label = (if row.entry.decoy then -1 else 1) ∧
      row.peptideLen = row.entry.core.sequence.length ∧
      row.missedCleavages = row.entry.mc ∧ row.semiEnzymatic = row.entry.semi := by
  obtain ⟨targets, db, w, doc, sp, h1, h2, h3, _, _, h6⟩ := mem_pipeline A cfg fasta files rows h row hr
  obtain ⟨_, _, _, psm, _, _, ro, _, _⟩ := mem_spectrumRows A cfg w row.file sp row h6
  obtain ⟨hw, _, _⟩ := worldOf_spec A cfg db w h3
  refine ⟨targets, db, h1, h2, ?_, ro.calcmass, ro.label, ro.len, ro.mc, ro.semi⟩
  have := ro.entry
  rw [hw, ro.pepIx.symm] at this
  simpa using this

end entry

/-! ### the index invariant of the built database, window, ranks (any linearly ordered number type) -/

section ordered
variable {α β : Type} [LinearOrder α] [Add α] [Sub α] [Mul α] [Neg α] [OfNat α 0] [C10.Num α] [C17.NumOps α]

/-- every ion handed to the index builder carries the index of a database peptide -/
theorem ionsOf_valid (A : Arith α β) (cfg : PCfg α) (db : List (C08.DbPep α)) :
    ∀ f ∈ ionsOf A cfg db, f.pep < db.length := by
  intro f hf
  unfold ionsOf C08.fragmentsOf C09.buildFragments at hf
  obtain ⟨g, hg, rfl⟩ := List.mem_map.mp hf
  obtain ⟨pi, hpi, hg⟩ := List.mem_flatMap.mp hg
  unfold C09.pepFragments at hg
  obtain ⟨kind, _, hg⟩ := List.mem_flatMap.mp hg
  obtain ⟨mj, _, rfl⟩ := List.mem_map.mp hg
  have := List.mem_zipIdx hpi
  simpa using this.2.1

/-- a successful `buildDb` is `reorder` of something, hence sorted by mass (C08 `db_sorted_unique`) -/
theorem buildDb_sorted (cfg : C08.Cfg α) (targets : List (C05.Seq × C05.Seq)) (db : List (C08.DbPep α))
    (h : C08.buildDb cfg targets = some db) : db.Pairwise (fun a b => a.core.mono ≤ b.core.mono) := by
  unfold C08.buildDb C08.buildWith at h
  rcases hg : C08.groupDigests (C08.fastaDigest cfg.par cfg.tag cfg.gen targets) with _ | gs
  · rw [hg] at h; simp at h
  · rw [hg] at h
    simp only [Option.map_some, Option.some.injEq] at h
    subst h
    exact (C08.db_sorted_unique _).1

/-- **C01.world_inv** — the fragment index of the pipeline's database satisfies C03's index invariant: C08's
    "sorted by mass" and "every ion carries a valid peptide index" are exactly the hypotheses of C03's
    `buildIndex_inv`. Hence every C03 / C02 theorem about lookups applies to every spectrum of every run. -/
theorem world_inv (A : Arith α β) (cfg : PCfg α) (targets : List (C05.Seq × C05.Seq)) (db : List (C08.DbPep α))
    (w : World α) (hdb : C08.buildDb cfg.db targets = some db) (hw : worldOf A cfg db = some w) :
    C03.DbInv w.idx.masses w.idx.minv w.idx.frags w.idx.B := by
  obtain ⟨_, _, minv, frags, hb, hidx⟩ := worldOf_spec A cfg db w hw
  have hB : 0 < cfg.bucket := by
    rcases Nat.eq_zero_or_pos cfg.bucket with h0 | h0
    · rw [h0] at hb; simp [C03.buildIndex] at hb
    · exact h0
  have hm : C03.SortedArr (db.map (·.core.mono)).toArray := by
    have hs := buildDb_sorted cfg.db targets db hdb
    intro i j x y hij hx hy
    simp only [List.getElem?_toArray, List.getElem?_map, Option.map_eq_some_iff] at hx hy
    obtain ⟨a, ha, rfl⟩ := hx
    obtain ⟨b, hb', rfl⟩ := hy
    rcases Nat.lt_or_eq_of_le hij with hlt | rfl
    · have ha' := List.getElem?_eq_some_iff.mp ha
      have hb'' := List.getElem?_eq_some_iff.mp hb'
      have := List.pairwise_iff_getElem.mp hs i j ha'.1 hb''.1 hlt
      rw [ha'.2, hb''.2] at this; exact this
    · rw [ha] at hb'; cases hb'; exact le_refl _
  have hv : ∀ f ∈ ionsOf A cfg db, f.pep < (db.map (·.core.mono)).toArray.size := by
    intro f hf; simpa using ionsOf_valid A cfg db f hf
  obtain ⟨minv', frags', hb2, inv, _⟩ := C03.buildIndex_inv cfg.bucket hB _ hm (ionsOf A cfg db) hv
  rw [hb] at hb2
  simp only [Option.some.injEq, Prod.mk.injEq] at hb2
  obtain ⟨rfl, rfl⟩ := hb2
  rw [hidx]
  exact inv

/-- **C01.rows_in_window** — standard mode: every row of the pipeline reports a (charge, isotope offset) pair that was
    actually searched for its spectrum, `expmass = (precursor m/z − PROTON)·charge` at that charge, and its `calcmass`
    lies inside the precursor window of exactly that pair: `lo ≤ calcmass ≤ hi` with
    `(lo, hi) = Tolerance::bounds(expmass − offset·NEUTRON)` (C02 `search_in_window` through `world_inv`). -/
theorem rows_in_window (A : Arith α β) (cfg : PCfg α) (fasta : C05.Seq) (files : List (List (C17.Line α)))
    (rows : List (ModelRow α β)) (hstd : cfg.search.chimera = false)
    (h : pipeline A cfg fasta files = some rows) (row : ModelRow α β) (hr : row ∈ rows) :
    ∃ doc sp peaks tic prec, files[row.file]? = some doc ∧ sp ∈ C17.parseLines doc ∧ row.scan = sp.id ∧
      prepare cfg sp = some (peaks, tic, prec) ∧
      ∃ zt ∈ C02.searched A.E cfg.search prec, ∃ e ∈ C02.isotopes cfg.search.isoLo cfg.search.isoHi,
        row.charge = zt.1 ∧ row.iso = e ∧
        row.expmass = A.E.mul (A.E.sub prec.mz A.E.proton) (A.E.ofNat zt.1) ∧
        row.isotopeError = A.E.mul (C04.ofInt A.E e) A.E.neutron ∧
        (C04.tolBounds A.E zt.2 (C02.queryMass A.E row.expmass e)).1 ≤ row.calcmass ∧
        row.calcmass ≤ (C04.tolBounds A.E zt.2 (C02.queryMass A.E row.expmass e)).2 := by
  obtain ⟨targets, db, w, doc, sp, _, h2, h3, h4, h5, h6⟩ := mem_pipeline A cfg fasta files rows h row hr
  obtain ⟨peaks, tic, prec, psm, hprep, hpsm, ro, _, hscan⟩ := mem_spectrumRows A cfg w row.file sp row h6
  have inv := world_inv A cfg targets db w h2 h3
  obtain ⟨zt, hzt, e, he, hz, hi, ⟨m, hm, hlo, hhi⟩, _⟩ :=
    C02.search_in_window A.E A.tle w.idx inv cfg.search w.info peaks prec hstd psm hpsm
  obtain ⟨hw, _, _, _, _, hidx⟩ := worldOf_spec A cfg db w h3
  have hmass : m = row.calcmass := by
    have he' := ro.entry
    rw [hw] at he'
    rw [hidx] at hm
    simp only [List.getElem?_toArray, List.getElem?_map, Option.map_eq_some_iff] at hm he'
    obtain ⟨a, ha, rfl⟩ := hm
    rw [he'] at ha; cases ha
    exact ro.calcmass.symm
  have hexp : row.expmass = A.E.mul (A.E.sub prec.mz A.E.proton) (A.E.ofNat zt.1) := by rw [ro.expmass, hz]
  refine ⟨doc, sp, peaks, tic, prec, h4, h5, hscan, hprep, zt, hzt, e, he, by rw [ro.charge, hz], by rw [ro.iso, hi],
    hexp, by rw [ro.isoErr, hi], ?_, ?_⟩
  · rw [hexp, ← hmass]; exact hlo
  · rw [hexp, ← hmass]; exact hhi

/-- the columns a row copies from its PSM -/
def psmKey (p : Psm β) : Nat × Nat × Nat × Int × β × β × β := (p.rank, p.pep, p.charge, p.iso, p.hs, p.dnext, p.dbest)
def rowKey (r : ModelRow α β) : Nat × Nat × Nat × Int × β × β × β :=
  (r.rank, r.pepIx, r.charge, r.iso, r.hyperscore, r.deltaNext, r.deltaBest)

theorem filterMap_keys {γ δ κ : Type} (f : γ → Option δ) (kx : γ → κ) (ky : δ → κ) :
    ∀ l : List γ, (∀ x ∈ l, ∃ y, f x = some y ∧ ky y = kx x) → (l.filterMap f).map ky = l.map kx := by
  intro l
  induction l with
  | nil => intro _; rfl
  | cons x xs ih =>
    intro h
    obtain ⟨y, hy, hk⟩ := h x List.mem_cons_self
    rw [List.filterMap_cons, hy]
    simp only [List.map_cons, hk]
    rw [ih (fun z hz => h z (List.mem_cons_of_mem _ hz))]

/-- **C01.rows_complete** — standard mode, over a database built by the pipeline: no PSM is lost and none is invented —
    the rows of a spectrum are, in order, the PSMs `C02.search` reports for it (rank, peptide index, charge, isotope
    offset, hyperscore, delta_next, delta_best copied). In particular the totalisation in `rowOf` (peptide index out
    of range = panic in the real code) is never taken. -/
theorem rows_complete (A : Arith α β) (cfg : PCfg α) (targets : List (C05.Seq × C05.Seq)) (db : List (C08.DbPep α))
    (w : World α) (hdb : C08.buildDb cfg.db targets = some db) (hw : worldOf A cfg db = some w)
    (hstd : cfg.search.chimera = false) (file : Nat) (sp : C17.Spectrum α) :
    (spectrumRows A cfg w file sp).map rowKey = (spectrumPsms A cfg w sp).map psmKey := by
  unfold spectrumRows spectrumPsms
  rcases hp : prepare cfg sp with _ | ⟨peaks, tic, prec⟩
  · rfl
  · simp only
    have inv := world_inv A cfg targets db w hdb hw
    obtain ⟨hpeps, _, _, _, _, hidx⟩ := worldOf_spec A cfg db w hw
    have hs := (searchH_eq A w.idx cfg.search w.info peaks prec).2
    have hlen := scoredOn_length A cfg.search w.info (searchH A w.idx cfg.search w.info peaks prec).2 peaks.toArray tic
    rw [filterMap_keys _ (fun pq => psmKey pq.1) rowKey]
    · rw [← hs]
      have : ((searchH A w.idx cfg.search w.info peaks prec).2.zip
          (scoredOn A cfg.search w.info (searchH A w.idx cfg.search w.info peaks prec).2 peaks.toArray tic)).map
          (fun pq => psmKey pq.1) =
          ((searchH A w.idx cfg.search w.info peaks prec).2.zip
          (scoredOn A cfg.search w.info (searchH A w.idx cfg.search w.info peaks prec).2 peaks.toArray tic)).unzip.1.map psmKey := by
        simp [List.unzip_eq_map, List.map_map, Function.comp_def]
      rw [this, List.unzip_zip hlen.symm]
    · intro pq hpq
      have hmem := (List.of_mem_zip (a := pq.1) (b := pq.2) (by simpa using hpq)).1
      rw [hs] at hmem
      obtain ⟨_, _, _, _, _, _, ⟨m, hm, _, _⟩, _⟩ :=
        C02.search_in_window A.E A.tle w.idx inv cfg.search w.info peaks prec hstd pq.1 hmem
      rw [hidx] at hm
      simp only [List.getElem?_toArray, List.getElem?_map, Option.map_eq_some_iff] at hm
      obtain ⟨e, he, _⟩ := hm
      have hpe : w.peps[pq.1.pep]? = some e := by rw [hpeps]; simpa using he
      have hrow : ∃ y, rowOf A cfg w file sp.id prec.mz (searchH A w.idx cfg.search w.info peaks prec).1
          pq.1 pq.2.1 pq.2.2 = some y := by
        unfold rowOf; rw [hpe]; exact ⟨_, rfl⟩
      obtain ⟨y, hy⟩ := hrow
      obtain ⟨ro, _, _⟩ := rowOf_spec A cfg w file sp.id prec.mz _ pq.1 pq.2.1 pq.2.2 y hy
      exact ⟨y, hy, by simp only [rowKey, psmKey, ro.rank, ro.pepIx, ro.charge, ro.iso, ro.hs, ro.dnext, ro.dbest]⟩

/-- **C01.rows_ranked** — standard mode: for every spectrum the pipeline reports `k ≤ report_psms` rows, the row at
    position `i` has rank `i + 1` (ranks `1..k`, no gaps), hyperscores are non-increasing with rank, `delta_best ≥ 0`,
    and `delta_next ≥ 0` for every row whose hyperscore is `≥ 0` (C02 `report_spec` through `rows_complete`;
    `tle` = `total_cmp ≠ Greater`, any total preorder; `sub` maps `y ≤ x` to `0 ≤ x − y`). -/
theorem rows_ranked (A : Arith α β) (cfg : PCfg α) (targets : List (C05.Seq × C05.Seq)) (db : List (C08.DbPep α))
    (w : World α) (hdb : C08.buildDb cfg.db targets = some db) (hw : worldOf A cfg db = some w)
    (hstd : cfg.search.chimera = false) (htle : C02.TotalPre A.tle)
    (hsub : ∀ x y, A.tle y x = true → A.tle (A.E.ofNatD 0) (A.E.subD x y) = true)
    (file : Nat) (sp : C17.Spectrum α) :
    let rs := spectrumRows A cfg w file sp
    rs.length ≤ cfg.search.reportPsms ∧
    (∀ (i : Nat) (r : ModelRow α β), rs[i]? = some r → r.rank = i + 1) ∧
    (∀ (i j : Nat) (r s : ModelRow α β), i < j → rs[i]? = some r → rs[j]? = some s →
        A.tle s.hyperscore r.hyperscore = true) ∧
    (∀ (i : Nat) (r : ModelRow α β), rs[i]? = some r → A.tle (A.E.ofNatD 0) r.deltaBest = true) ∧
    (∀ (i : Nat) (r : ModelRow α β), rs[i]? = some r → A.tle (A.E.ofNatD 0) r.hyperscore = true →
        A.tle (A.E.ofNatD 0) r.deltaNext = true) := by
  intro rs
  have hkeys := rows_complete A cfg targets db w hdb hw hstd file sp
  -- the PSM behind the row at position i
  have hget : ∀ (i : Nat) (r : ModelRow α β), rs[i]? = some r →
      ∃ p, (spectrumPsms A cfg w sp)[i]? = some p ∧ psmKey p = rowKey r := by
    intro i r hr
    have h1 : (rs.map rowKey)[i]? = some (rowKey r) := by rw [List.getElem?_map, hr]; rfl
    rw [show rs.map rowKey = _ from hkeys, List.getElem?_map] at h1
    obtain ⟨p, hp, hk⟩ := Option.map_eq_some_iff.mp h1
    exact ⟨p, hp, hk⟩
  have hlen : rs.length = (spectrumPsms A cfg w sp).length := by
    have := congrArg List.length hkeys
    simpa using this
  -- `report_spec` on the PSM list
  have hrep : ∀ (P : List (Psm β)), P = spectrumPsms A cfg w sp →
      P.length ≤ cfg.search.reportPsms ∧
      (∀ (i : Nat) (p : Psm β), P[i]? = some p → p.rank = i + 1) ∧
      (∀ (i j : Nat) (p q : Psm β), i < j → P[i]? = some p → P[j]? = some q → A.tle q.hs p.hs = true) ∧
      (∀ (i : Nat) (p : Psm β), P[i]? = some p → A.tle (A.E.ofNatD 0) p.dbest = true) ∧
      (∀ (i : Nat) (p : Psm β), P[i]? = some p → A.tle (A.E.ofNatD 0) p.hs = true →
        A.tle (A.E.ofNatD 0) p.dnext = true) := by
    intro P hP
    unfold spectrumPsms at hP
    rcases hp : prepare cfg sp with _ | ⟨peaks, tic, prec⟩
    · rw [hp] at hP; subst hP
      simp
    · rw [hp] at hP
      simp only at hP
      unfold C02.search at hP
      simp only [hstd] at hP
      obtain ⟨_, r2, r3, r4, r5, _, r7, _⟩ := C02.report_spec A.tle A.E.subD (A.E.ofNatD 0) htle hsub
        (C02.scoreCand A.E cfg.search.ftol cfg.search.mfc w.info peaks.toArray) cfg.search.minMatched
        cfg.search.reportPsms (C02.initialHits A.E w.idx cfg.search peaks prec).prelim.toList
      subst hP
      exact ⟨r2, r3, r4, r5, r7⟩
  obtain ⟨p1, p2, p3, p4, p5⟩ := hrep _ rfl
  refine ⟨by rw [hlen]; exact p1, ?_, ?_, ?_, ?_⟩
  · intro i r hr
    obtain ⟨p, hp, hk⟩ := hget i r hr
    have := p2 i p hp
    simp only [psmKey, rowKey, Prod.mk.injEq] at hk
    rw [← hk.1]; exact this
  · intro i j r s hij hr hs
    obtain ⟨p, hp, hk⟩ := hget i r hr
    obtain ⟨q, hq, hk'⟩ := hget j s hs
    have := p3 i j p q hij hp hq
    simp only [psmKey, rowKey, Prod.mk.injEq] at hk hk'
    rw [← hk.2.2.2.2.1, ← hk'.2.2.2.2.1]; exact this
  · intro i r hr
    obtain ⟨p, hp, hk⟩ := hget i r hr
    have := p4 i p hp
    simp only [psmKey, rowKey, Prod.mk.injEq] at hk
    rw [← hk.2.2.2.2.2.2]; exact this
  · intro i r hr hpos
    obtain ⟨p, hp, hk⟩ := hget i r hr
    simp only [psmKey, rowKey, Prod.mk.injEq] at hk
    have := p5 i p hp (by rw [hk.2.2.2.2.1]; exact hpos)
    rw [← hk.2.2.2.2.2.1]; exact this

/-- **C01.planted_found_partial** — the abstract form of "planted peptides are found" (standard mode, `report_psms ≥ 1`):
    if candidate `c` (a peptide at a searched charge / isotope offset) survives the preliminary trimming
    (`c ∈ initial_hits.preliminary`, with at least one preliminary match), its full score reaches
    `min_matched_peaks`, and every OTHER retained candidate that reaches `min_matched_peaks` has a strictly lower
    hyperscore (`total_cmp`), then the first row of the spectrum is `c`'s peptide at rank 1, with `c`'s charge and
    isotope offset. PARTIAL: the hypotheses "survives trimming" and "strictly best" are taken as given, not derived
    from "the spectrum is exactly the b/y ladder of the peptide and every other candidate matches a strict subset";
    that derivation needs monotonicity of `ln` / `lnfact`, which an arbitrary `Env` does not provide.
    The strictness hypothesis is necessary: `findings/C01-isobaric-decoy-outranks-planted-target.req` (the reversed
    decoy `PIFLK` of the planted target `PLFIK` has the same ladder, the same score, and the lower index). -/
theorem planted_found_partial (A : Arith α β) (cfg : PCfg α) (targets : List (C05.Seq × C05.Seq))
    (db : List (C08.DbPep α)) (w : World α) (hdb : C08.buildDb cfg.db targets = some db)
    (hw : worldOf A cfg db = some w) (hstd : cfg.search.chimera = false) (htle : C02.TotalPre A.tle)
    (hr : 0 < cfg.search.reportPsms) (file : Nat) (sp : C17.Spectrum α)
    (peaks : List (Peak α)) (tic : α) (prec : C02.Precursor α) (hprep : prepare cfg sp = some (peaks, tic, prec))
    (c : PreScore) (hc : c ∈ (C02.initialHits A.E w.idx cfg.search peaks prec).prelim.toList) (hm : 0 < c.matched)
    (hmin : cfg.search.minMatched ≤
      (C02.scoreCand A.E cfg.search.ftol cfg.search.mfc w.info peaks.toArray c : C02.Cand β).matched)
    (hbest : ∀ c' ∈ (C02.initialHits A.E w.idx cfg.search peaks prec).prelim.toList, c' ≠ c → 0 < c'.matched →
      cfg.search.minMatched ≤ (C02.scoreCand A.E cfg.search.ftol cfg.search.mfc w.info peaks.toArray c' : C02.Cand β).matched →
      A.tle (C02.scoreCand A.E cfg.search.ftol cfg.search.mfc w.info peaks.toArray c : C02.Cand β).hs
            (C02.scoreCand A.E cfg.search.ftol cfg.search.mfc w.info peaks.toArray c' : C02.Cand β).hs = false) :
    ∃ r, (spectrumRows A cfg w file sp)[0]? = some r ∧ r.rank = 1 ∧ r.pepIx = c.peptide ∧ r.charge = c.charge ∧
      r.iso = c.iso := by
  let sc := C02.scoreCand (β := β) A.E cfg.search.ftol cfg.search.mfc w.info peaks.toArray
  let prelim := (C02.initialHits A.E w.idx cfg.search peaks prec).prelim.toList
  let sv := C02.scoreVector A.tle sc cfg.search.minMatched prelim
  have hmem : sc c ∈ sv := (C02.mem_scoreVector A.tle sc cfg.search.minMatched prelim (sc c)).mpr ⟨c, hc, hm, rfl, hmin⟩
  -- the head of the score vector is `sc c`
  have hhead : ∃ rest, sv = sc c :: rest := by
    rcases hsv : sv with _ | ⟨d, rest⟩
    · rw [hsv] at hmem; cases hmem
    · obtain ⟨⟨p, hp, hpm, hd, hdmin⟩, hall⟩ :=
        C02.scoreVector_head_best A.tle (minMatched := cfg.search.minMatched) (prelim := prelim) htle sc d rest hsv
      by_cases hpc : p = c
      · subst hpc; exact ⟨rest, by rw [hd]⟩
      · exfalso
        have h1 := hall c hc hm hmin
        have h2 := hbest p hp hpc hpm (by have := hdmin; rw [hd] at this; exact this)
        rw [hd] at h1
        have h3 : A.tle (sc c).hs (sc p).hs = false := h2
        rw [h3] at h1; cases h1
  obtain ⟨rest, hsv⟩ := hhead
  -- the first PSM
  have hpsm : ∃ p, (spectrumPsms A cfg w sp)[0]? = some p ∧ p.rank = 1 ∧ p.pep = c.peptide ∧ p.charge = c.charge ∧
      p.iso = c.iso := by
    unfold spectrumPsms
    rw [hprep]
    simp only
    unfold C02.search
    simp only [hstd]
    unfold C02.buildFeatures
    have := C02.reportFrom_getElem? A.E.subD (A.E.ofNatD 0) sv cfg.search.reportPsms 0
    rw [if_pos hr, hsv] at this
    simp only [List.getElem?_cons_zero, Option.map_some] at this
    refine ⟨C02.mkPsm A.E.subD (A.E.ofNatD 0) (sc c :: rest) (sc c) 0, ?_, rfl, rfl, rfl, rfl⟩
    simp only [Bool.false_eq_true, if_false]
    show (C02.reportFrom A.E.subD (A.E.ofNatD 0) sv cfg.search.reportPsms)[0]? = _
    rw [hsv]; exact this
  obtain ⟨p, hp, h1, h2, h3, h4⟩ := hpsm
  have hkeys := rows_complete A cfg targets db w hdb hw hstd file sp
  have h0 : ((spectrumPsms A cfg w sp).map psmKey)[0]? = some (psmKey p) := by rw [List.getElem?_map, hp]; rfl
  rw [← hkeys, List.getElem?_map] at h0
  obtain ⟨r, hr0, hk⟩ := Option.map_eq_some_iff.mp h0
  simp only [psmKey, rowKey, Prod.mk.injEq] at hk
  exact ⟨r, hr0, by rw [hk.1, h1], by rw [hk.2.1, h2], by rw [hk.2.2.1, h3], by rw [hk.2.2.2.1, h4]⟩

/-- the build succeeds whenever there is something to digest and the bucket size is positive (C08 `buildDb_isSome`,
    C03 `buildIndex_inv`): the hypotheses of the theorems above are satisfiable for every such configuration -/
theorem worldOf_isSome (A : Arith α β) (cfg : PCfg α) (targets : List (C05.Seq × C05.Seq)) (db : List (C08.DbPep α))
    (hdb : C08.buildDb cfg.db targets = some db) (hB : 0 < cfg.bucket) : ∃ w, worldOf A cfg db = some w := by
  have hm : C03.SortedArr (db.map (·.core.mono)).toArray := by
    have hs := buildDb_sorted cfg.db targets db hdb
    intro i j x y hij hx hy
    simp only [List.getElem?_toArray, List.getElem?_map, Option.map_eq_some_iff] at hx hy
    obtain ⟨a, ha, rfl⟩ := hx
    obtain ⟨b, hb', rfl⟩ := hy
    rcases Nat.lt_or_eq_of_le hij with hlt | rfl
    · have ha' := List.getElem?_eq_some_iff.mp ha
      have hb'' := List.getElem?_eq_some_iff.mp hb'
      have := List.pairwise_iff_getElem.mp hs i j ha'.1 hb''.1 hlt
      rw [ha'.2, hb''.2] at this; exact this
    · rw [ha] at hb'; cases hb'; exact le_refl _
  have hv : ∀ f ∈ ionsOf A cfg db, f.pep < (db.map (·.core.mono)).toArray.size := by
    intro f hf; simpa using ionsOf_valid A cfg db f hf
  obtain ⟨minv, frags, hb, _, _⟩ := C03.buildIndex_inv cfg.bucket hB _ hm (ionsOf A cfg db) hv
  unfold worldOf indexOf
  rw [hb]
  exact ⟨_, rfl⟩

theorem pipeline_isSome (A : Arith α β) (cfg : PCfg α) (fasta : C05.Seq) (files : List (List (C17.Line α)))
    (targets : List (C05.Seq × C05.Seq)) (hp : C05.parse cfg.db.tag cfg.db.gen fasta = some targets)
    (hd : C08.fastaDigest cfg.db.par cfg.db.tag cfg.db.gen targets ≠ []) (hB : 0 < cfg.bucket) :
    ∃ rows, pipeline A cfg fasta files = some rows := by
  obtain ⟨db, hdb⟩ := Option.isSome_iff_exists.1 (C08.buildDb_isSome cfg.db targets hd)
  obtain ⟨w, hw⟩ := worldOf_isSome A cfg targets db hdb hB
  unfold pipeline buildWorld
  rw [hp]
  simp only
  rw [hdb]
  simp only [Option.bind_some]
  rw [hw]
  exact ⟨_, rfl⟩

end ordered

/-! ### the rows against the FASTA records (exact rationals, like C08's source theorems) -/

section sources
variable {β : Type} [C17.NumOps Rat]

/-- where a contribution comes from: a record of the FASTA file, a peptide the C05 digestion of that record
    yields — i.e. (C05 `digest_mem_iff`) the substring of an allowed span of the enzyme specification — and a
    modified form the C06 model derives from it (`dbForms`: C06 `forms_characterized` / `mass_formula` describe
    its placements and mass), or, with generated decoys, the reversal of such a form. -/
theorem contrib_source (cfg : C08.Cfg Rat) (t : List (C05.Seq × C05.Seq)) (c : C08.DbPep Rat)
    (hc : c ∈ C08.contribs cfg t) :
    ∃ rec ∈ t, ∃ d ∈ C05.digest cfg.par rec.2,
      (∃ cand ∈ C05.cands cfg.par rec.2, C05.sub rec.2 cand.i cand.j = d.seq) ∧
      c.proteins = [C08.nats rec.1] ∧ c.mc = d.mc ∧ c.semi = d.semi ∧
      ∃ f ∈ C06.dbForms cfg.h2o cfg.table (C08.toPos6 d.pos) (C08.nats d.seq) cfg.vars cfg.statics cfg.maxVar cfg.lo cfg.hi,
        c.core = f ∨ (cfg.gen = true ∧ c.core = C08.revCore f) := by
  unfold C08.contribs at hc
  obtain ⟨pd, hpd, hcd⟩ := List.mem_flatMap.mp hc
  rw [C08.groupPeptides_eq] at hcd
  obtain ⟨x, hx, rfl⟩ := List.mem_map.mp hcd
  -- the digest behind `pd`
  unfold C08.fastaDigest at hpd
  obtain ⟨rec, hrec, hpd⟩ := List.mem_flatMap.mp hpd
  unfold C08.recordDigests at hpd
  obtain ⟨d, hd, hpd⟩ := List.mem_filterMap.mp hpd
  have hfields : pd.seq = C08.nats d.seq ∧ pd.protein = C08.nats rec.1 ∧ pd.mc = d.mc ∧ pd.pos = d.pos ∧
      pd.semi = d.semi := by
    simp only at hpd
    split at hpd
    · split at hpd
      · cases hpd; exact ⟨rfl, rfl, rfl, rfl, rfl⟩
      · cases hpd
    · cases hpd; exact ⟨rfl, rfl, rfl, rfl, rfl⟩
  obtain ⟨f1, f2, f3, f4, f5⟩ := hfields
  have hcand := (C05.digest_mem_iff cfg.par rec.2 d.seq).mp (List.mem_map.mpr ⟨d, hd, rfl⟩)
  refine ⟨rec, hrec, d, hd, hcand, ?_, ?_, ?_, ?_⟩
  · simp [C08.dress, C08.sourceGroup, C08.newGroup, f2]
  · simp [C08.dress, C08.sourceGroup, C08.newGroup, f3]
  · simp [C08.dress, C08.sourceGroup, C08.newGroup, f5]
  · unfold C08.skeleton at hx
    simp only [C08.sourceGroup, C08.newGroup] at hx
    rw [f1, f4] at hx
    obtain ⟨hx, _⟩ := List.mem_filter.mp hx
    by_cases hg : cfg.gen = true
    · simp only [hg, if_true] at hx
      obtain ⟨p, hp, hxp⟩ := List.mem_flatMap.mp hx
      obtain ⟨f, hf, rfl⟩ := List.mem_map.mp hp
      simp only [List.mem_cons, List.not_mem_nil, or_false] at hxp
      rcases hxp with rfl | rfl
      · exact ⟨f, hf, Or.inr ⟨hg, rfl⟩⟩
      · exact ⟨f, hf, Or.inl rfl⟩
    · simp only [hg] at hx
      obtain ⟨f, hf, rfl⟩ := List.mem_map.mp hx
      exact ⟨f, hf, Or.inl rfl⟩

/-- **C01.rows_sources** — every row of the pipeline is a truthful statement about the FASTA file: the row's entry
    has the key (mass, sequence, modifications, termini) of some *contribution* — a modified form derived from a
    legal digestion product of a record (`contrib_source`) —; its protein list is strictly increasing and is EXACTLY
    the set of accessions of the contributions with that key; `label = -1` iff all of them are decoys
    (C08 `db_canonical_sources` through `rows_entry`). -/
theorem rows_sources (A : Arith Rat β) (cfg : PCfg Rat) (fasta : C05.Seq) (files : List (List (C17.Line Rat)))
    (rows : List (ModelRow Rat β)) (h : pipeline A cfg fasta files = some rows) (row : ModelRow Rat β)
    (hr : row ∈ rows) :
    ∃ targets, C05.parse cfg.db.tag cfg.db.gen fasta = some targets ∧
      (∃ c ∈ C08.contribs cfg.db targets, C08.keyOf c = C08.keyOf row.entry) ∧
      (∀ a, a ∈ row.entry.proteins ↔
        ∃ c ∈ C08.contribs cfg.db targets, C08.keyOf c = C08.keyOf row.entry ∧ a ∈ c.proteins) ∧
      (row.label = -1 ↔ ∀ c ∈ C08.contribs cfg.db targets, C08.keyOf c = C08.keyOf row.entry → c.decoy = true) ∧
      C08.strictlyIncreasing row.entry.proteins = true := by
  obtain ⟨targets, db, h1, h2, h3, _, h5, _⟩ := rows_entry A cfg fasta files rows h row hr
  have hmem : row.entry ∈ db := List.mem_of_getElem? h3
  obtain ⟨_, _, s3, ent, _⟩ := C08.db_canonical_sources cfg.db targets db h2
  obtain ⟨e1, e2, e3, _⟩ := ent row.entry hmem
  refine ⟨targets, h1, e1, e2, ?_, s3 row.entry hmem⟩
  rw [← e3, h5]
  cases row.entry.decoy <;> simp

end sources

/-! ## `planted_found`: the two hypotheses of `planted_found_partial`, derived

`planted_found_partial` takes "c survives the preliminary trimming" and "every other retained candidate has a strictly
lower hyperscore" as hypotheses. Here they are DERIVED from statements about the spectrum and the database:

* (a) `ladder_strictly_best` — the pinned hyperscore `ln((Ib+1)(Iy+1)) + lnfact(nb) + lnfact(ny)` (C04 `hyperscore_def`)
  is strictly larger for the candidate whose matched set dominates (`Dominated`), under explicit laws on the
  environment (`HyperLaws`: monotone/strict `+ 1`, cast, `×`, `ln` on positives, `+` on scores, `lnfact` increasing
  from 1 on and `lnfact 0 ≤ lnfact m` for `m ≥ 3`, everything finite). These laws are HYPOTHESES of the theorems, not
  axioms; they hold of exact arithmetic (proved below for the toy environments over ℕ and ℚ). NOTE the shape of the
  `lnfact` law: the code's `lnfact 0 = 1.0` exceeds `lnfact 1 ≈ −0.08` and `lnfact 2 ≈ 0.999`, so "fewer matches ⇒ lower
  score" is FALSE of the real function when a terminus goes from 1 or 2 matches to 0; `Dominated` therefore asks that a
  competitor with no b (y) match faces a planted candidate with 0 or ≥ 3 b (y) matches.
* (b) `survives_trim` — C02 `retained_topk`: a dense-vector entry is retained whenever at most
  `K = max 50 (2·report_psms)` entries have a preliminary count `≥` its own (in particular when the searched windows
  hold at most `K` slots, or when its count is strictly the largest); `mem_allRaw_of_hit` says that a database
  peptide inside a searched window with at least one indexed fragment matched IS such an entry (C02
  `candidates_exact`).
* (c) `search_planted_found` / `planted_found` conclude rank 1.

The strictness premise is necessary: a competitor with the same ion series (the I/L-swapped reversal `PIFLK` of
`PLFIK`, findings/C01-isobaric-decoy-outranks-planted-target.req) has the same matched set, and `Dominated` is
irreflexive (`not_dominated_of_same_series`). -/

section ladder
variable {α β : Type} [LinearOrder α] [LinearOrder β]

/-- laws of exact arithmetic the strict comparison of two pinned hyperscores needs (hypotheses, not axioms) -/
structure HyperLaws (E : Env α β) : Prop where
  add_one_mono : ∀ a b : α, a ≤ b → E.add a (E.ofNat 1) ≤ E.add b (E.ofNat 1)
  add_one_strict : ∀ a b : α, a < b → E.add a (E.ofNat 1) < E.add b (E.ofNat 1)
  add_one_pos : ∀ a : α, E.ofNat 0 ≤ a → E.ofNat 0 < E.add a (E.ofNat 1)
  cast_mono : ∀ a b : α, a ≤ b → E.cast a ≤ E.cast b
  cast_strict : ∀ a b : α, a < b → E.cast a < E.cast b
  cast_pos : ∀ a : α, E.ofNat 0 < a → E.ofNatD 0 < E.cast a
  mulD_pos : ∀ a c : β, E.ofNatD 0 < a → E.ofNatD 0 < c → E.ofNatD 0 < E.mulD a c
  mulD_lt_left : ∀ a b c d : β, E.ofNatD 0 < a → E.ofNatD 0 < c → a < b → c ≤ d → E.mulD a c < E.mulD b d
  mulD_lt_right : ∀ a b c d : β, E.ofNatD 0 < a → E.ofNatD 0 < c → a ≤ b → c < d → E.mulD a c < E.mulD b d
  /-- `ln` strictly increasing on positives -/
  ln_strict : ∀ x y : β, E.ofNatD 0 < x → x < y → E.ln x < E.ln y
  addD_mono : ∀ a b c d : β, a ≤ b → c ≤ d → E.addD a c ≤ E.addD b d
  addD_strict : ∀ a b c d : β, a < b → c ≤ d → E.addD a c < E.addD b d
  /-- `lnfact` (Stirling) is increasing from 1 on … -/
  lnfact_mono : ∀ n m : Nat, 1 ≤ n → n ≤ m → C04.lnfact E n ≤ C04.lnfact E m
  /-- … and `lnfact 0 = 1.0` is below `lnfact m` only for `m ≥ 3` -/
  lnfact_zero : ∀ m : Nat, 3 ≤ m → C04.lnfact E 0 ≤ C04.lnfact E m
  /-- no overflow: the `255` guard is never taken -/
  finite : ∀ s : β, E.isFinite s = true

/-- the matched set `(nb', ny', Ib', Iy')` is dominated by `(nb, ny, Ib, Iy)`: no more matches at either terminus, no
    more matched intensity at either terminus, strictly less at one; intensities sums non-negative; and a terminus
    without any match faces 0 or at least 3 matches (the `lnfact 0 = 1.0` anomaly) -/
def Dominated (E : Env α β) (v' v : C04.SpecVals α β) : Prop :=
  v'.nb ≤ v.nb ∧ v'.ny ≤ v.ny ∧ (v'.nb = 0 → v.nb = 0 ∨ 3 ≤ v.nb) ∧ (v'.ny = 0 → v.ny = 0 ∨ 3 ≤ v.ny) ∧
  E.ofNat 0 ≤ v'.ib ∧ E.ofNat 0 ≤ v'.iy ∧ v'.ib ≤ v.ib ∧ v'.iy ≤ v.iy ∧ (v'.ib < v.ib ∨ v'.iy < v.iy)

instance (E : Env α β) (v' v : C04.SpecVals α β) : Decidable (Dominated E v' v) := by
  unfold Dominated; infer_instance

theorem not_dominated_self (E : Env α β) (v : C04.SpecVals α β) : ¬ Dominated E v v := by
  rintro ⟨_, _, _, _, _, _, _, _, h | h⟩ <;> exact lt_irrefl _ h

theorem lnfact_le_of_dominated (E : Env α β) (L : HyperLaws E) (n' n : Nat) (h : n' ≤ n)
    (h0 : n' = 0 → n = 0 ∨ 3 ≤ n) : C04.lnfact E n' ≤ C04.lnfact E n := by
  rcases Nat.eq_zero_or_pos n' with hz | hp
  · subst hz
    rcases h0 rfl with hn | hn
    · subst hn; exact le_refl _
    · exact L.lnfact_zero n hn
  · exact L.lnfact_mono n' n hp h

/-- **C01.ladder_strictly_best** — (a): for every environment satisfying `HyperLaws`, the pinned hyperscore
    `ln((Ib+1)·(Iy+1)) + lnfact(nb) + lnfact(ny)` of a dominated matched set is STRICTLY smaller. -/
theorem ladder_strictly_best (E : Env α β) (L : HyperLaws E) (v' v : C04.SpecVals α β) (hd : Dominated E v' v) :
    C04.specHyperscore E v'.nb v'.ny v'.ib v'.iy < C04.specHyperscore E v.nb v.ny v.ib v.iy := by
  obtain ⟨hnb, hny, hb0, hy0, hib0, hiy0, hib, hiy, hstrict⟩ := hd
  -- the four factors
  have pa' : E.ofNatD 0 < E.cast (E.add v'.ib (E.ofNat 1)) := L.cast_pos _ (L.add_one_pos _ hib0)
  have pc' : E.ofNatD 0 < E.cast (E.add v'.iy (E.ofNat 1)) := L.cast_pos _ (L.add_one_pos _ hiy0)
  have la : E.cast (E.add v'.ib (E.ofNat 1)) ≤ E.cast (E.add v.ib (E.ofNat 1)) :=
    L.cast_mono _ _ (L.add_one_mono _ _ hib)
  have lc : E.cast (E.add v'.iy (E.ofNat 1)) ≤ E.cast (E.add v.iy (E.ofNat 1)) :=
    L.cast_mono _ _ (L.add_one_mono _ _ hiy)
  have hmul : E.mulD (E.cast (E.add v'.ib (E.ofNat 1))) (E.cast (E.add v'.iy (E.ofNat 1))) <
      E.mulD (E.cast (E.add v.ib (E.ofNat 1))) (E.cast (E.add v.iy (E.ofNat 1))) := by
    rcases hstrict with hs | hs
    · exact L.mulD_lt_left _ _ _ _ pa' pc' (L.cast_strict _ _ (L.add_one_strict _ _ hs)) lc
    · exact L.mulD_lt_right _ _ _ _ pa' pc' la (L.cast_strict _ _ (L.add_one_strict _ _ hs))
  have hln := L.ln_strict _ _ (L.mulD_pos _ _ pa' pc') hmul
  have hfb := lnfact_le_of_dominated E L v'.nb v.nb hnb hb0
  have hfy := lnfact_le_of_dominated E L v'.ny v.ny hny hy0
  unfold C04.specHyperscore C04.guard255
  rw [L.finite, L.finite]
  simp only [if_true]
  exact L.addD_strict _ _ _ _ (L.addD_strict _ _ _ _ hln hfb) hfy

/-- the naive matched-set values (C04 `specVals`) of peptide `pep` scored at precursor charge `z` on `peaks` -/
def candVals (E : Env α β) (ftol : C03.Tol α) (mfcCfg : Option Nat) (info : C02.PepInfo α) (peaks : Array (Peak α))
    (pep z : Nat) : C04.SpecVals α β :=
  C04.specVals E (info.len pep)
    (C04.specMatches E (fun mz => C04.select E peaks mz ftol none)
      (C04.fragCharges (info.series pep) (C04.maxFragmentCharge mfcCfg z)))

/-- what `score_candidate` stores for a preliminary entry, in terms of its matched set (C04 `hyperscore_def`,
    `scoreCandidate_spec`) -/
theorem scoreCand_vals (E : Env α β) (ftol : C03.Tol α) (mfcCfg : Option Nat) (info : C02.PepInfo α)
    (peaks : Array (Peak α)) (pre : PreScore) :
    (C02.scoreCand E ftol mfcCfg info peaks pre : C02.Cand β).hs =
      C04.specHyperscore E (candVals E ftol mfcCfg info peaks pre.peptide pre.charge).nb
        (candVals E ftol mfcCfg info peaks pre.peptide pre.charge).ny
        (candVals E ftol mfcCfg info peaks pre.peptide pre.charge).ib
        (candVals E ftol mfcCfg info peaks pre.peptide pre.charge).iy ∧
    (C02.scoreCand E ftol mfcCfg info peaks pre : C02.Cand β).matched =
      (candVals E ftol mfcCfg info peaks pre.peptide pre.charge).nb +
      (candVals E ftol mfcCfg info peaks pre.peptide pre.charge).ny := by
  have h1 := C04.hyperscore_def E (fun mz => C04.select E peaks mz ftol none) (info.series pre.peptide)
    (info.len pre.peptide) (C04.maxFragmentCharge mfcCfg pre.charge) false
  have h2 := C04.scoreCandidate_spec E (fun mz => C04.select E peaks mz ftol none) (info.series pre.peptide)
    (info.len pre.peptide) (C04.maxFragmentCharge mfcCfg pre.charge) false false
  simp only at h1 h2
  obtain ⟨hb, hy, -⟩ := h2
  unfold C02.scoreCand candVals
  exact ⟨h1, by simp only [hb, hy]⟩

/-- the "complete ladder" premise in its literal form: if EVERY (fragment, charge) pair of the candidate finds a peak
    within the fragment tolerance, its matched count `nb + ny` is the full number of pairs — so `hmin` of
    `search_planted_found` / `planted_found` holds as soon as that number reaches `min_matched_peaks` -/
theorem full_ladder_count {α β : Type} (E : Env α β) (sel : α → Option (Peak α)) (n : Nat) (fzs : List (C04.FZ α))
    (h : ∀ f ∈ fzs, (sel (C04.mzOf E f)).isSome = true) :
    (C04.specVals E n (C04.specMatches E sel fzs)).nb + (C04.specVals E n (C04.specMatches E sel fzs)).ny =
      fzs.length := by
  have hlen : (C04.specMatches E sel fzs).length = fzs.length := by
    unfold C04.specMatches
    induction fzs with
    | nil => rfl
    | cons f rest ih =>
      have hf := h f List.mem_cons_self
      obtain ⟨p, hp⟩ := Option.isSome_iff_exists.mp hf
      rw [List.filterMap_cons, hp]
      simp only [Option.map_some, List.length_cons]
      rw [ih (fun g hg => h g (List.mem_cons_of_mem _ hg))]
  have hsplit : ∀ l : List (C04.Match α),
      (l.filter (·.fz.kind.isN)).length + (l.filter (fun m => !m.fz.kind.isN)).length = l.length := by
    intro l
    induction l with
    | nil => rfl
    | cons m ms ih =>
      by_cases hk : m.fz.kind.isN = true
      · simp only [List.filter_cons, hk, if_true, Bool.not_true, Bool.false_eq_true, if_false, List.length_cons]; omega
      · simp only [Bool.not_eq_true] at hk
        simp only [List.filter_cons, hk, Bool.false_eq_true, if_false, Bool.not_false, if_true, List.length_cons]; omega
  unfold C04.specVals
  simp only
  rw [hsplit, hlen]

/-- the exception made visible: a competitor with the same ion series and length (e.g. the I/L-swapped reversal of the
    planted peptide) has the SAME matched set at the same charge, so the strictness premise cannot hold for it -/
theorem not_dominated_of_same_series (E : Env α β) (ftol : C03.Tol α) (mfcCfg : Option Nat) (info : C02.PepInfo α)
    (peaks : Array (Peak α)) (p p' z : Nat) (hs : info.series p' = info.series p) (hl : info.len p' = info.len p) :
    ¬ Dominated E (candVals E ftol mfcCfg info peaks p' z) (candVals E ftol mfcCfg info peaks p z) := by
  unfold candVals
  rw [hs, hl]
  exact not_dominated_self E _

/-- **C01.survives_trim** — (b): an entry of the dense vectors of the searched windows is RETAINED by the three
    levels of trimming whenever at most `K = max 50 (2·report_psms)` entries have a preliminary matched count `≥` its
    own (C02 `retained_topk`). -/
theorem survives_trim (E : Env α β) (db : C02.Db α) (cfg : C02.Cfg α) (peaks : List (Peak α)) (prec : C02.Precursor α)
    (c : PreScore) (hc : c ∈ C02.allRaw E db cfg peaks prec)
    (hK : ((C02.allRaw E db cfg peaks prec).filter fun y => decide (c.matched ≤ y.matched)).length ≤
      max 50 (2 * cfg.reportPsms)) :
    c ∈ (C02.initialHits E db cfg peaks prec).prelim.toList := by
  obtain ⟨dropped, ts⟩ := C02.retained_topk E db cfg peaks prec
  have hmem : c ∈ (C02.initialHits E db cfg peaks prec).prelim.toList ++ dropped := (ts.perm.mem_iff).mpr hc
  rcases List.mem_append.mp hmem with h | hdrop
  · exact h
  · exfalso
    have hfull := ts.full (List.ne_nil_of_mem hdrop)
    have hlen := (ts.perm.filter fun y => decide (c.matched ≤ y.matched)).length_eq
    rw [List.filter_append, List.length_append] at hlen
    have hkept : ((C02.initialHits E db cfg peaks prec).prelim.toList.filter fun y => decide (c.matched ≤ y.matched)) =
        (C02.initialHits E db cfg peaks prec).prelim.toList := by
      apply List.filter_eq_self.mpr
      intro x hx
      simpa using C02.PreScore.matched_le_of_le (ts.ge x hx c hdrop)
    have hd1 : 1 ≤ (dropped.filter fun y => decide (c.matched ≤ y.matched)).length := by
      have : c ∈ dropped.filter fun y => decide (c.matched ≤ y.matched) := List.mem_filter.mpr ⟨hdrop, by simp⟩
      exact List.length_pos_of_mem this
    rw [hkept] at hlen
    omega

/-- … in particular when the searched windows hold at most `K` slots … -/
theorem survives_trim_small (E : Env α β) (db : C02.Db α) (cfg : C02.Cfg α) (peaks : List (Peak α))
    (prec : C02.Precursor α) (c : PreScore) (hc : c ∈ C02.allRaw E db cfg peaks prec)
    (hK : (C02.allRaw E db cfg peaks prec).length ≤ max 50 (2 * cfg.reportPsms)) :
    c ∈ (C02.initialHits E db cfg peaks prec).prelim.toList :=
  survives_trim E db cfg peaks prec c hc (le_trans (List.length_filter_le _ _) hK)

/-- … or when fewer than `K` other entries reach its preliminary count (e.g. its count is strictly the largest) -/
theorem survives_trim_max (E : Env α β) (db : C02.Db α) (cfg : C02.Cfg α) (peaks : List (Peak α))
    (prec : C02.Precursor α) (c : PreScore) (hc : c ∈ C02.allRaw E db cfg peaks prec)
    (hone : (C02.allRaw E db cfg peaks prec).count c = 1)
    (hmax : ∀ y ∈ C02.allRaw E db cfg peaks prec, y ≠ c → y.matched < c.matched) :
    c ∈ (C02.initialHits E db cfg peaks prec).prelim.toList := by
  apply survives_trim E db cfg peaks prec c hc
  have : ((C02.allRaw E db cfg peaks prec).filter fun y => decide (c.matched ≤ y.matched)) =
      (C02.allRaw E db cfg peaks prec).filter fun y => y == c := by
    apply List.filter_congr
    intro y hy
    by_cases hyc : y = c
    · subst hyc; simp
    · have hlt := hmax y hy hyc
      have h1 : decide (c.matched ≤ y.matched) = false := by simp; omega
      have h2 : (y == c) = false := by simp [hyc]
      rw [h1, h2]
  rw [this, ← List.count_eq_length_filter, hone]
  omega

/-- a database peptide inside a searched (charge, isotope) window with at least one indexed fragment matched by a
    peak IS an entry of the dense vectors (`allRaw`), carrying its peptide index, the searched charge and isotope
    offset, and the number of its hits as preliminary count (C02 `candidates_exact`) -/
theorem mem_allRaw_of_hit (E : Env α β) (db : C02.Db α) (inv : C03.DbInv db.masses db.minv db.frags db.B)
    (cfg : C02.Cfg α) (peaks : List (Peak α)) (prec : C02.Precursor α)
    (zt : Nat × C03.Tol α) (hzt : zt ∈ C02.searched E cfg prec) (e : Int) (he : e ∈ C02.isotopes cfg.isoLo cfg.isoHi)
    (f : C03.Frag α)
    (hf : f ∈ C02.scanHits E db zt.2 cfg.ftol
      (C02.queryMass E (E.mul (E.sub prec.mz E.proton) (E.ofNat zt.1)) e) peaks (C04.maxFragmentCharge cfg.mfc zt.1)) :
    ∃ c ∈ C02.allRaw E db cfg peaks prec, c.peptide = f.pep ∧ c.charge = zt.1 ∧ c.iso = e ∧ 0 < c.matched ∧
      c.matched = ((C02.scanHits E db zt.2 cfg.ftol
        (C02.queryMass E (E.mul (E.sub prec.mz E.proton) (E.ofNat zt.1)) e) peaks
        (C04.maxFragmentCharge cfg.mfc zt.1)).map (·.pep)).count f.pep := by
  have hce := C02.candidates_exact E db inv cfg.ftol zt.2 cfg.mfc peaks
    (E.mul (E.sub prec.mz E.proton) (E.ofNat zt.1)) zt.1 e
  simp only at hce
  obtain ⟨_, _, hwin, hslots⟩ := hce
  obtain ⟨hlo, hidx, _⟩ := hwin f hf
  obtain ⟨sc, hsc, hcount, _, hpos⟩ := hslots _ hidx
  have hadd : (C03.binarySearchSlice db.masses
      (C04.tolBounds E zt.2 (C02.queryMass E (E.mul (E.sub prec.mz E.proton) (E.ofNat zt.1)) e)).1
      (C04.tolBounds E zt.2 (C02.queryMass E (E.mul (E.sub prec.mz E.proton) (E.ofNat zt.1)) e)).2).1 +
      (f.pep - (C03.binarySearchSlice db.masses
      (C04.tolBounds E zt.2 (C02.queryMass E (E.mul (E.sub prec.mz E.proton) (E.ofNat zt.1)) e)).1
      (C04.tolBounds E zt.2 (C02.queryMass E (E.mul (E.sub prec.mz E.proton) (E.ofNat zt.1)) e)).2).1) = f.pep := by
    omega
  rw [hadd] at hcount hpos
  have hcpos : 0 < sc.matched := by
    rw [hcount]
    exact List.count_pos_iff.mpr (List.mem_map.mpr ⟨f, hf, rfl⟩)
  obtain ⟨h1, h2, h3⟩ := hpos hcpos
  refine ⟨sc, ?_, h1, h2, h3, hcpos, hcount⟩
  unfold C02.allRaw C02.rawOf
  refine List.mem_flatMap.mpr ⟨zt, hzt, List.mem_flatMap.mpr ⟨e, he, ?_⟩⟩
  exact Array.mem_toList_iff.mpr (Array.mem_of_getElem? hsc)

/-- the three hypotheses `planted_found_partial` takes, derived: retention (b), `min_matched_peaks` and strict
    maximality (a) of the planted entry `c` -/
theorem planted_hyps (A : Arith α β) (hAtle : ∀ x y, A.tle x y = decide (x ≤ y)) (L : HyperLaws A.E)
    (db : C02.Db α) (cfg : C02.Cfg α) (info : C02.PepInfo α) (peaks : List (Peak α)) (prec : C02.Precursor α)
    (c : PreScore) (hc : c ∈ C02.allRaw A.E db cfg peaks prec)
    (hK : ((C02.allRaw A.E db cfg peaks prec).filter fun y => decide (c.matched ≤ y.matched)).length ≤
      max 50 (2 * cfg.reportPsms))
    (hmin : cfg.minMatched ≤ (candVals A.E cfg.ftol cfg.mfc info peaks.toArray c.peptide c.charge).nb +
      (candVals A.E cfg.ftol cfg.mfc info peaks.toArray c.peptide c.charge).ny)
    (hbest : ∀ c' ∈ C02.allRaw A.E db cfg peaks prec, c' ≠ c → 0 < c'.matched →
      Dominated A.E (candVals A.E cfg.ftol cfg.mfc info peaks.toArray c'.peptide c'.charge)
        (candVals A.E cfg.ftol cfg.mfc info peaks.toArray c.peptide c.charge)) :
    c ∈ (C02.initialHits A.E db cfg peaks prec).prelim.toList ∧
    cfg.minMatched ≤ (C02.scoreCand A.E cfg.ftol cfg.mfc info peaks.toArray c : C02.Cand β).matched ∧
    ∀ c' ∈ (C02.initialHits A.E db cfg peaks prec).prelim.toList, c' ≠ c → 0 < c'.matched →
      cfg.minMatched ≤ (C02.scoreCand A.E cfg.ftol cfg.mfc info peaks.toArray c' : C02.Cand β).matched →
      A.tle (C02.scoreCand A.E cfg.ftol cfg.mfc info peaks.toArray c : C02.Cand β).hs
            (C02.scoreCand A.E cfg.ftol cfg.mfc info peaks.toArray c' : C02.Cand β).hs = false := by
  refine ⟨survives_trim A.E db cfg peaks prec c hc hK, ?_, ?_⟩
  · rw [(scoreCand_vals A.E cfg.ftol cfg.mfc info peaks.toArray c).2]; exact hmin
  · intro c' hc' hne hm' _
    obtain ⟨dropped, ts⟩ := C02.retained_topk A.E db cfg peaks prec
    have hraw : c' ∈ C02.allRaw A.E db cfg peaks prec :=
      (ts.perm.mem_iff).mp (List.mem_append_left _ hc')
    have hlt := ladder_strictly_best A.E L _ _ (hbest c' hraw hne hm')
    rw [(scoreCand_vals A.E cfg.ftol cfg.mfc info peaks.toArray c).1,
      (scoreCand_vals A.E cfg.ftol cfg.mfc info peaks.toArray c').1, hAtle]
    exact decide_eq_false (not_le.mpr hlt)

theorem totalPre_of_le (tle : β → β → Bool) (h : ∀ x y, tle x y = decide (x ≤ y)) : C02.TotalPre tle :=
  ⟨fun x y => by simp only [h, decide_eq_true_eq]; exact le_total x y,
   fun x y z h1 h2 => by simp only [h, decide_eq_true_eq] at *; exact le_trans h1 h2⟩

/-- **C01.search_planted_found** — the search-level form (any fragment index, standard mode, `report_psms ≥ 1`): let `c`
    be an entry of the dense vectors of the searched windows (`mem_allRaw_of_hit`: a database peptide inside a searched
    precursor window with an indexed fragment matched) such that
    * at most `K = max 50 (2·report_psms)` entries have a preliminary count `≥ c`'s (b),
    * its full matched set reaches `min_matched_peaks`,
    * the matched set of every OTHER entry with a preliminary match is `Dominated` by `c`'s (a);
    then, for every environment satisfying `HyperLaws`, `Scorer::score` reports `c`'s peptide FIRST, at rank 1, with
    `c`'s charge and isotope offset. -/
theorem search_planted_found (A : Arith α β) (hAtle : ∀ x y, A.tle x y = decide (x ≤ y)) (L : HyperLaws A.E)
    (db : C02.Db α) (cfg : C02.Cfg α) (info : C02.PepInfo α) (peaks : List (Peak α)) (prec : C02.Precursor α)
    (hstd : cfg.chimera = false) (hr : 0 < cfg.reportPsms)
    (c : PreScore) (hc : c ∈ C02.allRaw A.E db cfg peaks prec) (hm : 0 < c.matched)
    (hK : ((C02.allRaw A.E db cfg peaks prec).filter fun y => decide (c.matched ≤ y.matched)).length ≤
      max 50 (2 * cfg.reportPsms))
    (hmin : cfg.minMatched ≤ (candVals A.E cfg.ftol cfg.mfc info peaks.toArray c.peptide c.charge).nb +
      (candVals A.E cfg.ftol cfg.mfc info peaks.toArray c.peptide c.charge).ny)
    (hbest : ∀ c' ∈ C02.allRaw A.E db cfg peaks prec, c' ≠ c → 0 < c'.matched →
      Dominated A.E (candVals A.E cfg.ftol cfg.mfc info peaks.toArray c'.peptide c'.charge)
        (candVals A.E cfg.ftol cfg.mfc info peaks.toArray c.peptide c.charge)) :
    ∃ p, (C02.search A.E A.tle db cfg info peaks prec).2[0]? = some p ∧ p.rank = 1 ∧ p.pep = c.peptide ∧
      p.charge = c.charge ∧ p.iso = c.iso := by
  obtain ⟨h1, h2, h3⟩ := planted_hyps A hAtle L db cfg info peaks prec c hc hK hmin hbest
  have htle := totalPre_of_le A.tle hAtle
  let sc := C02.scoreCand (β := β) A.E cfg.ftol cfg.mfc info peaks.toArray
  let prelim := (C02.initialHits A.E db cfg peaks prec).prelim.toList
  let sv := C02.scoreVector A.tle sc cfg.minMatched prelim
  have hmem : sc c ∈ sv := (C02.mem_scoreVector A.tle sc cfg.minMatched prelim (sc c)).mpr ⟨c, h1, hm, rfl, h2⟩
  have hhead : ∃ rest, sv = sc c :: rest := by
    rcases hsv : sv with _ | ⟨d, rest⟩
    · rw [hsv] at hmem; cases hmem
    · obtain ⟨⟨p, hp, hpm, hd, hdmin⟩, hall⟩ :=
        C02.scoreVector_head_best A.tle (minMatched := cfg.minMatched) (prelim := prelim) htle sc d rest hsv
      by_cases hpc : p = c
      · subst hpc; exact ⟨rest, by rw [hd]⟩
      · exfalso
        have e1 := hall c h1 hm h2
        have e2 := h3 p hp hpc hpm (by have := hdmin; rw [hd] at this; exact this)
        rw [hd] at e1
        have e3 : A.tle (sc c).hs (sc p).hs = false := e2
        rw [e3] at e1; cases e1
  obtain ⟨rest, hsv⟩ := hhead
  unfold C02.search
  simp only [hstd]
  unfold C02.buildFeatures
  have := C02.reportFrom_getElem? A.E.subD (A.E.ofNatD 0) sv cfg.reportPsms 0
  rw [if_pos hr, hsv] at this
  simp only [List.getElem?_cons_zero, Option.map_some] at this
  refine ⟨C02.mkPsm A.E.subD (A.E.ofNatD 0) (sc c :: rest) (sc c) 0, ?_, rfl, rfl, rfl, rfl⟩
  simp only [Bool.false_eq_true, if_false]
  show (C02.reportFrom A.E.subD (A.E.ofNatD 0) sv cfg.reportPsms)[0]? = _
  rw [hsv]; exact this

end ladder

section plantedPipeline
variable {α β : Type} [LinearOrder α] [LinearOrder β] [Add α] [Sub α] [Mul α] [Neg α] [OfNat α 0] [C10.Num α]
  [C17.NumOps α]

/-- **C01.planted_found** — the property's last sentence for the pipeline model (standard mode, `report_psms ≥ 1`, any
    environment satisfying `HyperLaws`, hyperscores compared by `≤`): in a run over the database built from the FASTA
    records, let a spectrum be prepared to `(peaks, tic, prec)` and let database peptide `f.pep` have an indexed
    fragment `f` matched by a peak inside the searched window `(zt, e)` (so that it is a candidate there). If
    * at most `K = max 50 (2·report_psms)` dense-vector entries of the searched windows have a preliminary count `≥`
      that of the planted candidate (`hK`: e.g. the windows hold at most `K` slots, or its count is the largest),
    * its full matched set reaches `min_matched_peaks` (`hmin`), and
    * the matched set `(nb, ny, Ib, Iy)` of every OTHER candidate entry is `Dominated` by the planted one's (`hbest`),
    then the FIRST row of the spectrum is the planted peptide at rank 1, at charge `zt.1` and isotope offset `e`.
    Neither "survives trimming" nor "strictly best hyperscore" is assumed any more; both are derived
    (`survives_trim`, `ladder_strictly_best`). What remains assumed is listed in the theorem: `HyperLaws` of the
    environment, and `Dominated` being stated on the matched-set values rather than on the peak list. -/
theorem planted_found (A : Arith α β) (hAtle : ∀ x y, A.tle x y = decide (x ≤ y)) (L : HyperLaws A.E)
    (cfg : PCfg α) (targets : List (C05.Seq × C05.Seq)) (db : List (C08.DbPep α)) (w : World α)
    (hdb : C08.buildDb cfg.db targets = some db) (hw : worldOf A cfg db = some w)
    (hstd : cfg.search.chimera = false) (hr : 0 < cfg.search.reportPsms) (file : Nat) (sp : C17.Spectrum α)
    (peaks : List (Peak α)) (tic : α) (prec : C02.Precursor α) (hprep : prepare cfg sp = some (peaks, tic, prec))
    (zt : Nat × C03.Tol α) (hzt : zt ∈ C02.searched A.E cfg.search prec) (e : Int)
    (he : e ∈ C02.isotopes cfg.search.isoLo cfg.search.isoHi) (f : C03.Frag α)
    (hf : f ∈ C02.scanHits A.E w.idx zt.2 cfg.search.ftol
      (C02.queryMass A.E (A.E.mul (A.E.sub prec.mz A.E.proton) (A.E.ofNat zt.1)) e) peaks
      (C04.maxFragmentCharge cfg.search.mfc zt.1))
    (hK : ∀ c ∈ C02.allRaw A.E w.idx cfg.search peaks prec, c.peptide = f.pep → c.charge = zt.1 → c.iso = e →
      ((C02.allRaw A.E w.idx cfg.search peaks prec).filter fun y => decide (c.matched ≤ y.matched)).length ≤
        max 50 (2 * cfg.search.reportPsms))
    (hmin : cfg.search.minMatched ≤
      (candVals A.E cfg.search.ftol cfg.search.mfc w.info peaks.toArray f.pep zt.1).nb +
      (candVals A.E cfg.search.ftol cfg.search.mfc w.info peaks.toArray f.pep zt.1).ny)
    (hbest : ∀ c' ∈ C02.allRaw A.E w.idx cfg.search peaks prec,
      ¬ (c'.peptide = f.pep ∧ c'.charge = zt.1 ∧ c'.iso = e ∧ c'.matched = ((C02.scanHits A.E w.idx zt.2 cfg.search.ftol
        (C02.queryMass A.E (A.E.mul (A.E.sub prec.mz A.E.proton) (A.E.ofNat zt.1)) e) peaks
        (C04.maxFragmentCharge cfg.search.mfc zt.1)).map (·.pep)).count f.pep) → 0 < c'.matched →
      Dominated A.E (candVals A.E cfg.search.ftol cfg.search.mfc w.info peaks.toArray c'.peptide c'.charge)
        (candVals A.E cfg.search.ftol cfg.search.mfc w.info peaks.toArray f.pep zt.1)) :
    ∃ r, (spectrumRows A cfg w file sp)[0]? = some r ∧ r.rank = 1 ∧ r.pepIx = f.pep ∧ r.charge = zt.1 ∧ r.iso = e := by
  have inv := world_inv A cfg targets db w hdb hw
  obtain ⟨c, hc, hp, hz, hi, hm, hcount⟩ := mem_allRaw_of_hit A.E w.idx inv cfg.search peaks prec zt hzt e he f hf
  have hbest' : ∀ c' ∈ C02.allRaw A.E w.idx cfg.search peaks prec, c' ≠ c → 0 < c'.matched →
      Dominated A.E (candVals A.E cfg.search.ftol cfg.search.mfc w.info peaks.toArray c'.peptide c'.charge)
        (candVals A.E cfg.search.ftol cfg.search.mfc w.info peaks.toArray c.peptide c.charge) := by
    intro c' hc' hne hm'
    rw [hp, hz]
    apply hbest c' hc' _ hm'
    rintro ⟨q1, q2, q3, q4⟩
    apply hne
    cases c'; cases c
    simp only at q1 q2 q3 q4 hp hz hi hcount
    simp only [C02.PreScore.mk.injEq]
    exact ⟨by rw [q4, hcount], by rw [q1, hp], by rw [q2, hz], by rw [q3, hi]⟩
  obtain ⟨h1, h2, h3⟩ := planted_hyps A hAtle L w.idx cfg.search w.info peaks prec c hc (hK c hc hp hz hi)
    (by rw [hp, hz]; exact hmin) hbest'
  obtain ⟨r, hr0, hrank, hpep, hch, hiso⟩ := planted_found_partial A cfg targets db w hdb hw hstd
    (totalPre_of_le A.tle hAtle) hr file sp peaks tic prec hprep c h1 hm h2 h3
  exact ⟨r, hr0, hrank, by rw [hpep, hp], by rw [hch, hz], by rw [hiso, hi]⟩

end plantedPipeline

/-! ## non-vacuity: a concrete run in exact rationals

Toy world (C08's example data): residue table A = 71, C = 103, G = 57, K = 128, water 18, proton = neutron = 1,
cleave after K, no missed cleavages, lengths 2..10, generated decoys `rev_`; FASTA `>P1 AAKGGK`, `>P2 GGKCCK`;
one MGF spectrum = the b/y ladder of `GGK` (b₁ 57, b₂ 114, y₁ 146, y₂ 203, each + PROTON), precursor m/z (260 + 2)/2,
charge 2+.  `#eval` of `pipeline Ex.A Ex.cfg Ex.fasta Ex.files` gives exactly one row:
`scan=1`, rank 1, peptide index 0, sequence `GGK`, proteins `P1;P2`, label 1, calcmass 260, expmass 260, charge 2,
4 matched peaks — i.e. the shared peptide with both proteins listed, planted and found (its reversal `GGK` is a target
sequence, so there is no decoy entry).  (The kernel cannot unfold the well-founded merge sorts, so the row itself
is shown by evaluation; that the hypotheses of the theorems are met is proved below.) -/

namespace Ex

def E : Env Rat Rat :=
  { add := (· + ·), sub := (· - ·), mul := (· * ·), div := (· / ·), abs := fun x => if x < 0 then -x else x,
    neg := fun x => -x, ofNat := fun n => (n : Rat), proton := 1, neutron := 1, cast := id,
    addD := (· + ·), subD := (· - ·), mulD := (· * ·), divD := (· / ·), negD := fun x => -x,
    ofNatD := fun n => (n : Rat), half := 1/2, pi := 3, tiny := 0, ln := id, exp := id, log10 := id, ln1p := id,
    isFinite := fun _ => true, isInf := fun _ => false }

def A : Arith Rat Rat :=
  { E := E, K := { c := 12, o := 16, h := 1, n := 14, three := 3 }, tle := fun x y => decide (x ≤ y) }

instance numOpsRat : C17.NumOps Rat where
  zero := 0
  one := 1
  sum0 := 0
  add := (· + ·)
  div60 := (· / 60)
  abs := fun x => if x < 0 then -x else x
  neg := fun x => -x

def cfg : PCfg Rat :=
  { db := { par := C08.Ex.par, tag := [114, 101, 118, 95], gen := true, h2o := 18,
            table := C08.Ex.table.map (fun n => (n : Rat)), vars := [], statics := [], maxVar := 1, lo := 0, hi := 100000 }
    kinds := [.b, .y], minIonIndex := 0, bucket := 4
    search := { ptol := .da (-1/2) (1/2), ftol := .da (-1/2) (1/2), minMatched := 2, isoLo := 0, isoHi := 0,
                zLo := 2, zHi := 3, overrideCharge := false, mfc := none, chimera := false, reportPsms := 2,
                wideWindow := false, defaultIsoWin := .da (-2) 2 }
    proc := { takeTopN := 10, deisotope := false, minDeisoMz := 0 }
    minPeaks := 2 }

def files : List (List (C17.Line Rat)) :=
  [mgfLines [("scan=1", (131 : Rat), some 2, (60 : Rat), [((58 : Rat), (10 : Rat)), (115, 20), (147, 30), (204, 40)])]]

/-- the total preorder / subtraction hypotheses of `rows_ranked` and `planted_found_partial` hold of exact `≤`, `−` -/
theorem totalPre : C02.TotalPre A.tle :=
  ⟨fun x y => by simp only [A, decide_eq_true_eq]; exact le_total x y,
   fun x y z h1 h2 => by simp only [A, decide_eq_true_eq] at *; exact le_trans h1 h2⟩

theorem subOk : ∀ x y, A.tle y x = true → A.tle (A.E.ofNatD 0) (A.E.subD x y) = true := by
  intro x y h
  simp only [A, E, decide_eq_true_eq, Nat.cast_zero] at *
  linarith

end Ex

/-- the hypotheses of `world_inv`, `rows_complete`, `rows_ranked`, `planted_found_partial` are met: the database of
    the toy FASTA builds, its index builds, and the index invariant holds -/
example : ∃ db w, C08.buildDb Ex.cfg.db C08.Ex.fasta = some db ∧ worldOf Ex.A Ex.cfg db = some w ∧
    C03.DbInv w.idx.masses w.idx.minv w.idx.frags w.idx.B ∧ Ex.cfg.search.chimera = false ∧
    0 < Ex.cfg.search.reportPsms := by
  obtain ⟨db, hdb⟩ := Option.isSome_iff_exists.1 (C08.buildDb_isSome Ex.cfg.db C08.Ex.fasta (by decide +kernel))
  obtain ⟨w, hw⟩ := worldOf_isSome Ex.A Ex.cfg C08.Ex.fasta db hdb (by decide)
  exact ⟨db, w, hdb, hw, world_inv Ex.A Ex.cfg C08.Ex.fasta db w hdb hw, rfl, by decide⟩

/-- … and so is the hypothesis `pipeline … = some rows` of `rows_entry`, `rows_in_window`, `rows_sources`, for EVERY
    list of spectrum files over that FASTA (rendered as text and read back by the C05 reader) -/
example (files : List (List (C17.Line Rat))) :
    ∃ rows, pipeline Ex.A Ex.cfg (fastaText C08.Ex.fasta) files = some rows :=
  pipeline_isSome Ex.A Ex.cfg _ files C08.Ex.fasta (by decide +kernel) (by decide +kernel) (by decide)

/-! ### `planted_found`: the laws hold of exact arithmetic, the premises are satisfiable, strictness is necessary -/

/-- `HyperLaws` of C02's toy environment over ℕ (`ln` = identity, `half = 0`: `lnfact n = n² − n` for `n ≥ 1`, `lnfact 0 = 1`) -/
theorem exLawsNat : HyperLaws C02.exEnv where
  add_one_mono := by intro a b h; simp only [C02.exEnv, id]; omega
  add_one_strict := by intro a b h; simp only [C02.exEnv, id]; omega
  add_one_pos := by intro a h; simp only [C02.exEnv, id]; omega
  cast_mono := by intro a b h; exact h
  cast_strict := by intro a b h; exact h
  cast_pos := by intro a h; exact h
  mulD_pos := by intro a c ha hc; simp only [C02.exEnv, id] at *; exact Nat.mul_pos ha hc
  mulD_lt_left := by
    intro a b c d ha hc hab hcd; simp only [C02.exEnv, id] at *
    calc a * c < b * c := Nat.mul_lt_mul_of_pos_right hab hc
      _ ≤ b * d := Nat.mul_le_mul_left b hcd
  mulD_lt_right := by
    intro a b c d ha hc hab hcd; simp only [C02.exEnv, id] at *
    calc a * c < a * d := Nat.mul_lt_mul_of_pos_left hcd ha
      _ ≤ b * d := Nat.mul_le_mul_right d hab
  ln_strict := by intro x y _ h; exact h
  addD_mono := by intro a b c d h1 h2; simp only [C02.exEnv]; omega
  addD_strict := by intro a b c d h1 h2; simp only [C02.exEnv]; omega
  lnfact_mono := by
    intro n m hn hnm
    have hm : m ≠ 0 := by omega
    have hn' : n ≠ 0 := by omega
    simp only [C04.lnfact, C02.exEnv, id, hm, hn', if_false, Nat.zero_mul, Nat.add_zero]
    rw [← Nat.mul_sub_one, ← Nat.mul_sub_one]
    exact Nat.mul_le_mul hnm (Nat.sub_le_sub_right hnm 1)
  lnfact_zero := by
    intro m hm
    have hm' : m ≠ 0 := by omega
    simp only [C04.lnfact, C02.exEnv, id, hm', if_false, if_true, Nat.zero_mul, Nat.add_zero]
    rw [← Nat.mul_sub_one]
    have : 3 * 2 ≤ m * (m - 1) := Nat.mul_le_mul hm (by omega)
    omega
  finite := by intro s; rfl

/-- `HyperLaws` of the exact-rational environment `Ex.E` (`ln` = identity, `half = 1/2`, `pi = 3`:
    `lnfact n = n² + 5n/2` for `n ≥ 1`, `lnfact 0 = 1`) -/
theorem exLawsRat : HyperLaws Ex.E where
  add_one_mono := by intro a b h; simp only [Ex.E]; linarith
  add_one_strict := by intro a b h; simp only [Ex.E]; linarith
  add_one_pos := by intro a h; simp only [Ex.E, Nat.cast_zero, Nat.cast_one] at *; linarith
  cast_mono := by intro a b h; exact h
  cast_strict := by intro a b h; exact h
  cast_pos := by intro a h; exact h
  mulD_pos := by intro a c ha hc; simp only [Ex.E, Nat.cast_zero] at *; exact mul_pos ha hc
  mulD_lt_left := by
    intro a b c d ha hc hab hcd; simp only [Ex.E, Nat.cast_zero] at *
    nlinarith
  mulD_lt_right := by
    intro a b c d ha hc hab hcd; simp only [Ex.E, Nat.cast_zero] at *
    nlinarith
  ln_strict := by intro x y _ h; exact h
  addD_mono := by intro a b c d h1 h2; simp only [Ex.E]; linarith
  addD_strict := by intro a b c d h1 h2; simp only [Ex.E]; linarith
  lnfact_mono := by
    intro n m hn hnm
    have hm : m ≠ 0 := by omega
    have hn' : n ≠ 0 := by omega
    simp only [C04.lnfact, Ex.E, id, hm, hn', if_false]
    have h1 : (1 : Rat) ≤ n := by exact_mod_cast hn
    have h2 : (n : Rat) ≤ m := by exact_mod_cast hnm
    nlinarith
  lnfact_zero := by
    intro m hm
    have hm' : m ≠ 0 := by omega
    simp only [C04.lnfact, Ex.E, id, hm', if_false, if_true, Nat.cast_one]
    have h1 : (3 : Rat) ≤ m := by exact_mod_cast hm
    nlinarith
  finite := by intro s; rfl

/-- (a) is not vacuous: a full ladder (3 b, 3 y matches, intensities 6 and 9) against a competitor matching a subset
    (1 b, 3 y, intensities 2 and 9) in exact rationals: the pinned hyperscore is strictly larger -/
example :
    C04.specHyperscore Ex.E 1 3 2 9 < C04.specHyperscore Ex.E 3 3 6 9 :=
  ladder_strictly_best Ex.E exLawsRat
    { nb := 1, ny := 3, ib := 2, iy := 9, ppmNum := 0, idxB := [], idxY := [], rows := [] }
    { nb := 3, ny := 3, ib := 6, iy := 9, ppmNum := 0, idxB := [], idxY := [], rows := [] }
    (by unfold Dominated; simp only [Ex.E]; norm_num)

/-- the toy search of C02 (`exDb`: 4 peptides, peaks at 20 and 30, precursor window [100, 105]) as an `Arith` -/
def exArithNat : Arith Nat Nat :=
  { E := C02.exEnv, K := { c := 12, o := 16, h := 1, n := 14, three := 3 }, tle := fun x y => decide (x ≤ y) }

/-- ALL premises of `search_planted_found` hold in C02's toy world for the entry of peptide 0 (both of its fragments
    20 and 30 are matched: count 2, `nb = 2`, `Ib = 2`; peptides 1 and 2 match one fragment each: `nb' = 1`, `Ib' = 1`;
    the windows hold 4 slots ≤ 50), and so the conclusion: peptide 0 is reported first, at rank 1 -/
example : ∃ p, (C02.search exArithNat.E exArithNat.tle C02.exDb C02.exCfg C02.exInfo C02.exPeaks C02.exPrec).2[0]? = some p ∧
    p.rank = 1 ∧ p.pep = 0 ∧ p.charge = 2 ∧ p.iso = 0 :=
  search_planted_found exArithNat (fun _ _ => rfl) exLawsNat C02.exDb C02.exCfg C02.exInfo C02.exPeaks C02.exPrec rfl
    (by decide) ⟨2, 0, 2, 0⟩ (by decide) (by decide) (by decide) (by decide +kernel) (by decide +kernel)

/-- (b) alone: the entry of peptide 0 is among the 4 ≤ 50 slots of the searched window, hence retained -/
example : (⟨2, 0, 2, 0⟩ : PreScore) ∈ (C02.initialHits C02.exEnv C02.exDb C02.exCfg C02.exPeaks C02.exPrec).prelim.toList :=
  survives_trim_small C02.exEnv C02.exDb C02.exCfg C02.exPeaks C02.exPrec _ (by decide) (by decide)

/-- the hit premise of `mem_allRaw_of_hit` / `planted_found` is met there too: fragment 20 of peptide 0 is a hit of the
    linear scan of the searched window (charge 2, isotope offset 0) -/
example : ((C02.scanHits C02.exEnv C02.exDb (.da 0 5) C02.exCfg.ftol
    (C02.queryMass C02.exEnv (C02.exEnv.mul (C02.exEnv.sub C02.exPrec.mz C02.exEnv.proton) (C02.exEnv.ofNat 2)) 0)
    C02.exPeaks (C04.maxFragmentCharge C02.exCfg.mfc 2)).map fun f => (f.pep, f.mz)) =
    [(0, 20), (2, 30), (0, 30), (1, 30)] := by decide

/-! The exception: the I/L-swapped reversal. `PLFIK` (target) and `PIFLK` (its generated decoy: first and last residue
    fixed, inside reversed) have the same b- and y-series, residue by residue (I and L are isobaric) … -/

def ilK : C09.Consts Int := { c := 12, o := 16, h := 1, n := 14, three := 3 }
/-- toy integer masses P 97, L 113, F 147, I 113, K 128, water 18 -/
def pepPLFIK : C09.Pep Int := { residues := [97, 113, 147, 113, 128], mods := [0, 0, 0, 0, 0], nterm := 0, cterm := 0, mass := 616 }
def pepPIFLK : C09.Pep Int := { residues := [97, 113, 147, 113, 128], mods := [0, 0, 0, 0, 0], nterm := 0, cterm := 0, mass := 616 }

example : C09.ions ilK .b pepPLFIK = C09.ions ilK .b pepPIFLK ∧ C09.ions ilK .y pepPLFIK = C09.ions ilK .y pepPIFLK ∧
    C09.ions ilK .b pepPLFIK = [97, 210, 357, 470] := by decide

/-- … hence, whatever the spectrum, tolerance and charge, the decoy's matched set is NOT dominated by the target's: the
    strictness premise of `search_planted_found` / `planted_found` fails for this pair (and the real program reports the
    decoy: findings/C01-isobaric-decoy-outranks-planted-target.req) -/
example (E : Env Int Int) (ftol : C03.Tol Int) (mfc : Option Nat) (peaks : Array (Peak Int)) (z : Nat) :
    let info : C02.PepInfo Int :=
      { series := fun i => [(.b, C09.ions ilK .b (if i = 0 then pepPIFLK else pepPLFIK)),
                            (.y, C09.ions ilK .y (if i = 0 then pepPIFLK else pepPLFIK))]
        len := fun _ => 5 }
    ¬ Dominated E (candVals E ftol mfc info peaks 0 z) (candVals E ftol mfc info peaks 1 z) := by
  intro info
  exact not_dominated_of_same_series E ftol mfc info peaks 1 0 z (by decide) rfl

end Sage.C01
