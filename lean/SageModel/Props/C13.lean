import SageModel.Model.C13
import SageModel.Lemmas.C13Competition
import Mathlib.Algebra.Order.Field.Rat
import Mathlib.Tactic.Linarith
import Mathlib.Tactic.Positivity
import Mathlib.Tactic.NormNum
import Mathlib.Order.Defs.LinearOrder
import Mathlib.Tactic.Order
import Mathlib.Data.List.Nodup

/-!
# C13 — Peptide-, protein- and precursor-level q-values are consistent and monotone

Property text: *All PSMs of one peptide receive the same peptide-level q-value and all PSMs of one
protein group the same protein-level q-value; a target and its generated decoy compete under one key.
Every such q-value, and every MS1-peak q-value from label-free quantification, lies in (0, 1], an
entity whose best score is strictly higher never receives a larger q-value than one whose best score
is lower, the returned counts equal the number of target entities at or below the threshold, and the
assignment is unaffected (beyond rounding) by the order in which PSMs are supplied.*

The theorems are about the model in `Model/C13.lean` at `α := ℚ` (exact arithmetic; the code's f32
rounding is not modelled) and an arbitrary linearly ordered score type `σ`, for every PSM list of every
length, every posterior-error function `pep` with `0 ≤ pep s` (the fitted estimator is a parameter)
and every iteration order of the hash map.
-/

namespace Sage.C13

variable {κ ι σ : Type} [LinearOrder ι]

set_option linter.unusedSectionVars false
set_option linter.unusedSimpArgs false

/-- `usize as f32` at ℚ -/
abbrev castQ : Nat → ℚ := fun n => (n : ℚ)

/-! ## helper lemmas -/

section passes
variable (inc : Row ι σ → ℚ)

theorem fwdPass_fst (d : ℚ) (t : Nat) (rows : List (Row ι σ)) :
    (fwdPass inc castQ d t rows).map (·.1) = rows := by
  induction rows generalizing d t with
  | nil => rfl
  | cons r rs ih => simp [fwdPass, ih]

theorem cummin_fst (l : List (Row ι σ × Option ℚ)) : (cummin (1 : ℚ) l).map (·.1) = l.map (·.1) := by
  induction l with
  | nil => rfl
  | cons x xs ih => obtain ⟨r, x⟩ := x; simp [cummin, ih]

theorem ratio_pos (d : ℚ) (t : Nat) (hd : 0 < d) (x : ℚ) (h : ratio castQ d t = some x) : 0 < x := by
  unfold ratio at h
  by_cases ht : t = 0
  · simp [ht] at h
  · simp only [ht, ↓reduceIte, Option.some.injEq] at h
    subst h
    have h2 : (0 : ℚ) < (t : ℚ) := by exact_mod_cast Nat.pos_of_ne_zero ht
    exact div_pos hd h2

theorem fwdPass_pos (hinc : ∀ r, 0 ≤ inc r) (d : ℚ) (t : Nat) (hd : 0 < d) (rows : List (Row ι σ)) :
    ∀ e ∈ fwdPass inc castQ d t rows, ∀ x, e.2 = some x → 0 < x := by
  induction rows generalizing d t with
  | nil => simp [fwdPass]
  | cons r rs ih =>
    intro e he x hx
    have hd' : 0 < d + inc r := by have := hinc r; linarith
    simp only [fwdPass, List.mem_cons] at he
    rcases he with rfl | he
    · exact ratio_pos _ _ hd' x hx
    · exact ih _ _ hd' e he x hx

theorem qmin_le (m : ℚ) (x : Option ℚ) : qmin m x ≤ m := by
  cases x with
  | none => simp [qmin]
  | some x => simp only [qmin]; split <;> simp_all

theorem qmin_pos (m : ℚ) (x : Option ℚ) (hm : 0 < m) (hx : ∀ y, x = some y → 0 < y) : 0 < qmin m x := by
  cases x with
  | none => simpa [qmin]
  | some y => simp only [qmin]; split; exacts [hx y rfl, hm]

theorem hd_range (l : List (Row ι σ × ℚ)) (h : ∀ q ∈ l, 0 < q.2 ∧ q.2 ≤ 1) : 0 < hd 1 l ∧ hd 1 l ≤ 1 := by
  cases l with
  | nil => simp
  | cons a as => simpa using h a (by simp)

theorem cummin_range (l : List (Row ι σ × Option ℚ)) (hpos : ∀ e ∈ l, ∀ x, e.2 = some x → 0 < x) :
    ∀ q ∈ cummin (1 : ℚ) l, 0 < q.2 ∧ q.2 ≤ 1 := by
  induction l with
  | nil => simp [cummin]
  | cons e es ih =>
    obtain ⟨r, x⟩ := e
    have ih' := ih (fun e' he' => hpos e' (List.mem_cons_of_mem _ he'))
    have hh := hd_range _ ih'
    intro q hq
    simp only [cummin, List.mem_cons] at hq
    rcases hq with rfl | hq
    · exact ⟨qmin_pos _ _ hh.1 (hpos (r, x) (by simp)), le_trans (qmin_le _ _) hh.2⟩
    · exact ih' q hq

/-- q-values never decrease down the sorted list -/
theorem cummin_mono (l : List (Row ι σ × Option ℚ)) : (cummin (1 : ℚ) l).Pairwise (fun a b => a.2 ≤ b.2) := by
  induction l with
  | nil => simp [cummin]
  | cons e es ih =>
    obtain ⟨r, x⟩ := e
    simp only [cummin, List.pairwise_cons]
    refine ⟨?_, ih⟩
    intro q hq
    cases hc : cummin (1 : ℚ) es with
    | nil => rw [hc] at hq; simp at hq
    | cons a as =>
      rw [hc] at hq ih
      simp only [hd_cons]
      have ha : a.2 ≤ q.2 := by
        rcases List.mem_cons.mp hq with rfl | hq'
        · exact le_refl _
        · exact (List.pairwise_cons.mp ih).1 q hq'
      exact le_trans (qmin_le _ _) ha

end passes

theorem lookupQ_mem (tab : List (Row ι σ × ℚ)) (ix : ι) (q : ℚ)
    (h : lookupQ tab ix = some q) : ∃ r, (r, q) ∈ tab ∧ r.ix = ix := by
  unfold lookupQ at h
  simp only [Option.map_eq_some_iff] at h
  obtain ⟨rq, hf, rfl⟩ := h
  have hm := List.mem_of_find?_eq_some hf
  have hp := List.find?_some hf
  exact ⟨rq.1, by simpa using hm, by simpa using hp⟩


theorem pairwise_mem_cases {β : Type} {R : β → β → Prop} {l : List β} (h : l.Pairwise R) {a b : β}
    (ha : a ∈ l) (hb : b ∈ l) : a = b ∨ R a b ∨ R b a := by
  induction l with
  | nil => simp at ha
  | cons x xs ih =>
    rw [List.pairwise_cons] at h
    rcases List.mem_cons.mp ha with rfl | ha' <;> rcases List.mem_cons.mp hb with rfl | hb'
    · left; rfl
    · right; left; exact h.1 _ hb'
    · right; right; exact h.1 _ ha'
    · exact ih h.2 ha' hb'

section sorting
variable [LinearOrder σ]

theorem rowLe_iff (a b : Row ι σ) : rowLe a b = true ↔
    b.score < a.score ∨ (a.score = b.score ∧
      ((a.decoy = true ∧ b.decoy = false) ∨ (a.decoy = b.decoy ∧ a.ix ≤ b.ix))) := by
  unfold rowLe
  by_cases h1 : a.score ≤ b.score
  · by_cases h2 : b.score ≤ a.score
    · have he : a.score = b.score := le_antisymm h1 h2
      have hn : ¬ b.score < a.score := not_lt.mpr h1
      cases ha : a.decoy <;> cases hb : b.decoy <;> simp [he]
    · have hlt : a.score < b.score := not_le.mp h2
      have hn : ¬ b.score < a.score := not_lt.mpr h1
      have hne : a.score ≠ b.score := ne_of_lt hlt
      simp [h1, h2, hn, hne]
  · have : b.score < a.score := not_le.mp h1
    simp [h1, this]

theorem rowLe_score (a b : Row ι σ) (h : rowLe a b = true) : b.score ≤ a.score := by
  rcases (rowLe_iff a b).mp h with h | ⟨h, -⟩
  · exact le_of_lt h
  · exact le_of_eq h.symm

theorem rowLe_total (a b : Row ι σ) : (rowLe a b || rowLe b a) = true := by
  rw [Bool.or_eq_true, rowLe_iff, rowLe_iff]
  rcases lt_trichotomy a.score b.score with h | h | h
  · right; left; exact h
  · cases ha : a.decoy <;> cases hb : b.decoy <;> simp [h] <;> exact le_total _ _
  · left; left; exact h

theorem rowLe_trans (a b c : Row ι σ) (h1 : rowLe a b = true) (h2 : rowLe b c = true) : rowLe a c = true := by
  rw [rowLe_iff] at *
  rcases h1 with h1 | ⟨e1, h1⟩ <;> rcases h2 with h2 | ⟨e2, h2⟩
  · left; order
  · left; order
  · left; order
  · right
    refine ⟨e1.trans e2, ?_⟩
    rcases h1 with ⟨x1, y1⟩ | ⟨x1, y1⟩ <;> rcases h2 with ⟨x2, y2⟩ | ⟨x2, y2⟩
    · rw [y1] at x2; cases x2
    · left; exact ⟨x1, by rw [← x2, y1]⟩
    · left; exact ⟨by rw [x1, x2], y2⟩
    · right; exact ⟨x1.trans x2, le_trans y1 y2⟩

theorem rowLe_antisymm (a b : Row ι σ) (h1 : rowLe a b = true) (h2 : rowLe b a = true) : a = b := by
  rw [rowLe_iff] at *
  obtain ⟨ai, ad, as⟩ := a
  obtain ⟨bi, bd, bs⟩ := b
  simp only at h1 h2
  rcases h1 with h1 | ⟨e1, h1⟩ <;> rcases h2 with h2 | ⟨e2, h2⟩
  · exact absurd h1 (not_lt.mpr (le_of_lt h2))
  · exact absurd h1 (by rw [e2]; exact lt_irrefl _)
  · exact absurd h2 (by rw [e1]; exact lt_irrefl _)
  · rcases h1 with ⟨x1, y1⟩ | ⟨x1, y1⟩ <;> rcases h2 with ⟨x2, y2⟩ | ⟨x2, y2⟩
    · rw [x1] at y2; cases y2
    · rw [x1, y1] at x2; cases x2
    · rw [x2, y2] at x1; cases x1
    · rw [e1, x1, le_antisymm y1 y2]



theorem sortRows_sorted' (rows : List (Row ι σ)) : (sortRows rows).Pairwise (fun a b => rowLe a b = true) :=
  List.pairwise_mergeSort rowLe_trans rowLe_total rows

theorem sortRows_sorted (rows : List (Row ι σ)) : (sortRows rows).Pairwise (fun a b => b.score ≤ a.score) :=
  (sortRows_sorted' rows).imp (fun h => rowLe_score _ _ h)

/-- the sort key is total on rows, so the sorted list depends only on the multiset of rows -/
theorem sortRows_perm_eq {l l' : List (Row ι σ)} (h : l.Perm l') : sortRows l = sortRows l' :=
  List.Perm.eq_of_pairwise (le := fun a b : Row ι σ => rowLe a b = true)
    (fun a b _ _ hab hba => rowLe_antisymm a b hab hba) (sortRows_sorted' _) (sortRows_sorted' _)
    ((List.mergeSort_perm _ _).trans (h.trans (List.mergeSort_perm _ _).symm))

theorem sortRows_perm (rows : List (Row ι σ)) : (sortRows rows).Perm rows := List.mergeSort_perm _ _

theorem tab_fst (inc : Row ι σ → ℚ) (thr : ℚ) (rows : List (Row ι σ)) :
    (assignRows inc castQ 1 thr rows).1.map (·.1) = sortRows rows := by
  simp [assignRows, cummin_fst, fwdPass_fst]

/-- the table is sorted by score (descending) and its q-values never decrease -/
theorem tab_pairwise (inc : Row ι σ → ℚ) (thr : ℚ) (rows : List (Row ι σ)) :
    (assignRows inc castQ 1 thr rows).1.Pairwise (fun a b => b.1.score ≤ a.1.score ∧ a.2 ≤ b.2) := by
  have h1 : (assignRows inc castQ 1 thr rows).1.Pairwise (fun a b => b.1.score ≤ a.1.score) := by
    have := sortRows_sorted rows
    rw [← tab_fst inc thr rows, List.pairwise_map] at this
    exact this
  exact h1.and (cummin_mono _)

end sorting


/-- The database is canonical for the PSM list: the index a PSM stores and the pair (key, decoy flag)
    determine each other. This is what a database built by `Parameters::build` provides (one peptide
    per string and decoy flag; one protein-group string per protein list and decoy flag); without it
    `picked_peptide` panics or merges entities. -/
def Canon (psms : List (Psm κ ι σ)) : Prop :=
  ∀ p ∈ psms, ∀ q ∈ psms, (p.key = q.key ∧ p.decoy = q.decoy) ↔ p.ix = q.ix

theorem mem_rowsOf (es : List (κ × Comp ι σ)) (r : Row ι σ) :
    r ∈ rowsOf es ↔ ∃ e ∈ es, r ∈ e.2.rows := by
  simp [rowsOf, List.mem_flatMap]

theorem mem_rows (c : Comp ι σ) (r : Row ι σ) :
    r ∈ c.rows ↔ (c.fix = some r.ix ∧ r.decoy = false ∧ r.score = c.fwd) ∨
                 (c.rix = some r.ix ∧ r.decoy = true ∧ r.score = c.rev) := by
  obtain ⟨i, d, s⟩ := r
  unfold Comp.rows
  cases hf : c.fix <;> cases hr : c.rix <;> simp <;> grind

section rowsOfCompetition
variable [DecidableEq κ] [LinearOrder σ]

/-- every row of the competition belongs to a PSM's entity and carries that entity's best score -/
theorem row_score_best (bot : σ) (psms : List (Psm κ ι σ)) (hc : Canon psms) (r : Row ι σ)
    (hr : r ∈ rowsOf (competition bot psms)) :
    (∃ p ∈ psms, p.ix = r.ix ∧ p.decoy = r.decoy) ∧ r.score = best bot psms r.ix := by
  rw [mem_rowsOf] at hr
  obtain ⟨⟨k, c⟩, he, hrow⟩ := hr
  obtain ⟨-, rfl⟩ := (mem_competition bot psms k c).mp he
  rw [mem_rows] at hrow
  rcases hrow with ⟨hix, hd, hs⟩ | ⟨hix, hd, hs⟩
  · simp only [compOf, foldl_upd_fix, Comp.init] at hix
    rcases foldl_last_some _ _ _ hix with h0 | ⟨p, hp, hpi⟩
    · exact absurd h0 (by simp)
    · simp only [List.mem_filter, decide_eq_true_eq, Bool.not_eq_eq_eq_not, Bool.not_true] at hp
      obtain ⟨⟨hpm, hpk⟩, hpd⟩ := hp
      refine ⟨⟨p, hpm, hpi, by rw [hd, hpd]⟩, ?_⟩
      rw [hs]
      simp only [compOf, foldl_upd_fwd, Comp.init, best, List.filter_filter]
      congr 1
      apply List.filter_congr
      intro q hq
      have := hc q hq p hpm
      rw [hpi] at this
      simp only [hpk, hpd] at this
      cases hqd : q.decoy <;> simp_all
  · simp only [compOf, foldl_upd_rix, Comp.init] at hix
    rcases foldl_last_some _ _ _ hix with h0 | ⟨p, hp, hpi⟩
    · exact absurd h0 (by simp)
    · simp only [List.mem_filter, decide_eq_true_eq] at hp
      obtain ⟨⟨hpm, hpk⟩, hpd⟩ := hp
      refine ⟨⟨p, hpm, hpi, by rw [hd, hpd]⟩, ?_⟩
      rw [hs]
      simp only [compOf, foldl_upd_rev, Comp.init, best, List.filter_filter]
      congr 1
      apply List.filter_congr
      intro q hq
      have := hc q hq p hpm
      rw [hpi] at this
      simp only [hpk, hpd] at this
      cases hqd : q.decoy <;> simp_all

end rowsOfCompetition


theorem Comp.ext' {a b : Comp ι σ} (h1 : a.fwd = b.fwd) (h2 : a.fix = b.fix) (h3 : a.rev = b.rev)
    (h4 : a.rix = b.rix) : a = b := by
  cases a; cases b; simp_all

theorem nodup_graph {β γ : Type} (ks : List β) (f : β → γ) (h : ks.Nodup) : (ks.map fun k => (k, f k)).Nodup := by
  induction ks with
  | nil => simp
  | cons k ks ih =>
    rw [List.nodup_cons] at h
    simp only [List.map_cons, List.nodup_cons, List.mem_map, Prod.mk.injEq, not_exists, not_and]
    exact ⟨fun k' hk' e _ => h.1 (e ▸ hk'), ih h.2⟩

theorem eq_of_nodup_map {β γ : Type} (f : β → γ) (l : List β) (h : (l.map f).Nodup) {a b : β}
    (ha : a ∈ l) (hb : b ∈ l) (e : f a = f b) : a = b := by
  induction l with
  | nil => simp at ha
  | cons x xs ih =>
    simp only [List.map_cons, List.nodup_cons, List.mem_map, not_exists, not_and] at h
    rcases List.mem_cons.mp ha with rfl | ha' <;> rcases List.mem_cons.mp hb with rfl | hb'
    · rfl
    · exact absurd e.symm (h.1 b hb')
    · exact absurd e (h.1 a ha')
    · exact ih h.2 ha' hb'

theorem Canon.perm {psms psms' : List (Psm κ ι σ)} (hc : Canon psms) (hp : psms.Perm psms') : Canon psms' :=
  fun p hp' q hq' => hc p (hp.mem_iff.mpr hp') q (hp.mem_iff.mpr hq')

section orderFree
variable [DecidableEq κ] [LinearOrder σ]

theorem smax_right_comm (z x y : σ) : smax (smax z x) y = smax (smax z y) x := by
  unfold smax
  repeat' split
  all_goals order

/-- the entry of a key does not depend on the supply order (max is commutative and associative; the
    stored index is determined by key and decoy flag) -/
theorem compOf_perm (bot : σ) {psms psms' : List (Psm κ ι σ)} (hp : psms.Perm psms') (hc : Canon psms) (k : κ) :
    compOf bot psms k = compOf bot psms' k := by
  have hk : (psms.filter fun p => p.key = k).Perm (psms'.filter fun p => p.key = k) := hp.filter _
  have hix : ∀ (d : Bool) (l l' : List (Psm κ ι σ)), l.Perm l' →
      (∀ p ∈ l, p ∈ psms ∧ p.key = k ∧ p.decoy = d) →
      l.foldl (fun _ p => some p.ix) none = l'.foldl (fun _ p => some p.ix) none := by
    intro d l l' hl hmem
    cases hl0 : l with
    | nil => subst hl0; rw [List.perm_nil.mp hl.symm]
    | cons p0 tl =>
      have hp0 : p0 ∈ l := by rw [hl0]; simp
      have hall : ∀ p ∈ l, p.ix = p0.ix := by
        intro p hpl
        obtain ⟨h1, h2, h3⟩ := hmem p hpl
        obtain ⟨h1', h2', h3'⟩ := hmem p0 hp0
        exact (hc p h1 p0 h1').mp ⟨h2.trans h2'.symm, h3.trans h3'.symm⟩
      have hall' : ∀ p ∈ l', p.ix = p0.ix := fun p hpl => hall p (hl.mem_iff.mpr hpl)
      rw [← hl0, foldl_last_const l none p0.ix hall, foldl_last_const l' none p0.ix hall']
      have hne : l ≠ [] := by rw [hl0]; simp
      have hne' : l' ≠ [] := fun e => hne (List.perm_nil.mp (e ▸ hl))
      simp [hne, hne']
  unfold compOf
  apply Comp.ext'
  · rw [foldl_upd_fwd, foldl_upd_fwd]
    exact List.Perm.foldl_eq' (hk.filter _) (fun x _ y _ z => smax_right_comm z x.score y.score) _
  · rw [foldl_upd_fix, foldl_upd_fix]
    apply hix false _ _ (hk.filter _)
    intro p hp'
    simp only [List.mem_filter, decide_eq_true_eq, Bool.not_eq_eq_eq_not, Bool.not_true] at hp'
    exact ⟨hp'.1.1, hp'.1.2, hp'.2⟩
  · rw [foldl_upd_rev, foldl_upd_rev]
    exact List.Perm.foldl_eq' (hk.filter _) (fun x _ y _ z => smax_right_comm z x.score y.score) _
  · rw [foldl_upd_rix, foldl_upd_rix]
    apply hix true _ _ (hk.filter _)
    intro p hp'
    simp only [List.mem_filter, decide_eq_true_eq] at hp'
    exact ⟨hp'.1.1, hp'.1.2, hp'.2⟩

end orderFree


theorem sortRows_of_sorted [LinearOrder σ] (rows : List (Row ι σ))
    (h : rows.Pairwise fun a b => rowLe a b = true) : sortRows rows = rows :=
  List.mergeSort_of_pairwise h

theorem revMid_shape {β : Type} (a z : β) (mid : List β) :
    revMid (a :: (mid ++ [z])) = a :: (mid.reverse ++ [z]) := by
  unfold revMid
  cases mid with
  | nil => simp
  | cons m ms =>
    have h1 : 1 < (a :: (m :: ms ++ [z])).length - 1 := by simp
    rw [if_pos h1]
    have h2 : (a :: (m :: ms ++ [z])).length - 2 = (m :: ms).length := by simp
    have h3 : (a :: (m :: ms ++ [z])).length - 1 = (m :: ms).length + 1 := by simp
    rw [h2, h3]
    simp only [List.take_succ_cons, List.take_zero, List.drop_succ_cons, List.drop_zero]
    rw [List.take_left', List.drop_left'] <;> simp

theorem revMid_involutive {β : Type} (l : List β) : revMid (revMid l) = l := by
  match l with
  | [] => simp [revMid]
  | [a] => simp [revMid]
  | a :: b :: t =>
    rcases List.eq_nil_or_concat' (b :: t) with h | ⟨mid, z, h⟩
    · simp at h
    · rw [h, revMid_shape, revMid_shape, List.reverse_reverse]

/-! ### concrete instances used by the non-vacuity examples -/

/-- key 0: a target (index 0) and its decoy (index 1) both hit; key 1: one target hit twice;
    key 2: a decoy only; key 3: a target only. Scores all different. -/
def exPsms : List (Psm Nat Nat Nat) :=
  [⟨0, false, 0, 9⟩, ⟨0, true, 1, 8⟩, ⟨1, false, 2, 7⟩, ⟨1, false, 2, 5⟩, ⟨2, true, 3, 4⟩, ⟨3, false, 4, 2⟩]

def exPep : Nat → ℚ := fun s => if 7 ≤ s then 0 else 1/2

theorem exPep_nonneg : ∀ s, 0 ≤ exPep s := by intro s; unfold exPep; split <;> norm_num

theorem ex_canon : Canon exPsms := by unfold Canon exPsms; decide

theorem ex_rows : rowsOf (competition 0 exPsms) =
    [⟨0, false, 9⟩, ⟨1, true, 8⟩, ⟨2, false, 7⟩, ⟨3, true, 4⟩, ⟨4, false, 2⟩] := by decide

theorem ex_tab : (assignQ exPep castQ 1 (1/2) (competition 0 exPsms)).1 =
    [(⟨0, false, 9⟩, 1/2), (⟨1, true, 8⟩, 1/2), (⟨2, false, 7⟩, 1/2), (⟨3, true, 4⟩, 2/3), (⟨4, false, 2⟩, 2/3)] := by
  rw [assignQ, ex_rows, assignRows, sortRows_of_sorted _ (by decide)]
  norm_num [fwdPass, cummin, ratio, qmin, exPep]

/-- the worked example: q-values per PSM and the passing count (threshold 1/2) -/
theorem ex_result : pickedWith exPep castQ 1 (1/2) (competition 0 exPsms) exPsms =
    some ([1/2, 1/2, 1/2, 1/2, 2/3, 2/3], 2) := by
  have hn : (assignQ exPep castQ 1 (1/2) (competition 0 exPsms)).2 = 2 := by
    rw [assignQ, ex_rows, assignRows, sortRows_of_sorted _ (by decide)]
    norm_num [fwdPass, cummin, ratio, qmin, exPep]
  unfold pickedWith
  simp only [ex_tab, hn]
  norm_num [exPsms, lookupQ]

/-- one FASTA-style decoy (its own key) and three targets, all with score 1 -/
def tiePsms : List (Psm Nat Nat Nat) :=
  [⟨0, true, 0, 1⟩, ⟨1, false, 1, 1⟩, ⟨2, false, 2, 1⟩, ⟨3, false, 3, 1⟩]

/-- two iteration orders of the same competition map -/
def tieEs : List (Nat × Comp Nat Nat) := competition 0 tiePsms
def tieEs' : List (Nat × Comp Nat Nat) := (competition 0 tiePsms).rotate 1

theorem tie_canon : Canon tiePsms := by unfold Canon tiePsms; decide
theorem tieEs'_perm : tieEs'.Perm (competition 0 tiePsms) := by decide
theorem tie_rows : rowsOf tieEs = [⟨0, true, 1⟩, ⟨1, false, 1⟩, ⟨2, false, 1⟩, ⟨3, false, 1⟩] := by decide
theorem tie_rows' : rowsOf tieEs' = [⟨1, false, 1⟩, ⟨2, false, 1⟩, ⟨3, false, 1⟩, ⟨0, true, 1⟩] := by decide

theorem tie_q : (assignQ (fun _ => (1/4 : ℚ)) castQ 1 (1/100) tieEs).1.map (·.2) = [2/3, 2/3, 2/3, 2/3] := by
  rw [assignQ, tie_rows, assignRows, sortRows_of_sorted _ (by decide)]
  norm_num [fwdPass, cummin, ratio, qmin]

/-! ## property theorems -/

section
variable [LinearOrder σ]

/-- **C13.q_range_rows** — every q-value produced by the two passes (whatever the increments, as long as
    they are non-negative: posterior error probabilities for peptides/proteins, decoy counts for
    precursors) lies in (0, 1]. All row lists, all lengths, ties or not. -/
theorem q_range_rows (inc : Row ι σ → ℚ) (hinc : ∀ r, 0 ≤ inc r) (thr : ℚ) (rows : List (Row ι σ)) :
    ∀ rq ∈ (assignRows inc castQ 1 thr rows).1, 0 < rq.2 ∧ rq.2 ≤ 1 :=
  cummin_range _ (fwdPass_pos inc hinc 1 0 (by norm_num) _)

/-- non-vacuity: the worked example's table (five rows, a target/decoy pair, q-values 1/2 and 2/3) -/
example : ∀ rq ∈ (assignQ exPep castQ 1 (1/2) (competition 0 exPsms)).1, 0 < rq.2 ∧ rq.2 ≤ 1 :=
  q_range_rows _ (fun r => exPep_nonneg r.score) _ _

/-- **C13.q_range** — every peptide- or protein-level q-value handed back to a PSM lies in (0, 1], given
    `0 ≤ pep`; for every PSM list and every iteration order `es` of the competition map. -/
theorem q_range (pep : σ → ℚ) (hpep : ∀ s, 0 ≤ pep s) (thr : ℚ)
    (es : List (κ × Comp ι σ)) (psms : List (Psm κ ι σ)) (qs : List ℚ) (n : Nat)
    (h : pickedWith pep castQ 1 thr es psms = some (qs, n)) : ∀ q ∈ qs, 0 < q ∧ q ≤ 1 := by
  unfold pickedWith at h
  simp only at h
  split at h
  · rename_i hall
    simp only [Option.some.injEq, Prod.mk.injEq] at h
    obtain ⟨rfl, -⟩ := h
    intro q hq
    simp only [List.mem_map] at hq
    obtain ⟨p, hp, rfl⟩ := hq
    have hs := (List.all_eq_true.mp hall) p hp
    obtain ⟨q, hq⟩ := Option.isSome_iff_exists.mp hs
    rw [hq]
    obtain ⟨r, hmem, -⟩ := lookupQ_mem _ _ _ hq
    exact q_range_rows (fun r => pep r.score) (fun r => hpep r.score) thr _ (r, q) hmem
  · exact absurd h (by simp)

/-- non-vacuity: `q_range` applies to the worked example (six PSMs, q-values 1/2 and 2/3) -/
example : ∀ q ∈ [(1/2 : ℚ), 1/2, 1/2, 1/2, 2/3, 2/3], 0 < q ∧ q ≤ 1 :=
  q_range exPep exPep_nonneg (1/2) _ exPsms _ 2 ex_result

/-- **C13.q_range_precursor** — every MS1-peak q-value lies in (0, 1]. -/
theorem q_range_precursor (thr : ℚ) (peaks : List (Row ι σ)) :
    ∀ rq ∈ (pickedPrecursor castQ 0 1 thr peaks).1, 0 < rq.2 ∧ rq.2 ≤ 1 :=
  q_range_rows _ (fun r => by split <;> norm_num) thr peaks

/-- non-vacuity: T D T at scores 3, 2, 1 gives q = 1, 1, 1 (first ratio 1/1, then 2/1, 2/2) -/
example : (pickedPrecursor (ι := Nat) (σ := Nat) castQ 0 1 (1/20) [⟨0, false, 3⟩, ⟨1, true, 2⟩, ⟨2, false, 1⟩]).1.map (·.2)
    = [1, 1, 1] := by
  rw [pickedPrecursor, assignRows, sortRows_of_sorted _ (by decide)]
  norm_num [fwdPass, cummin, ratio, qmin]

/-- **C13.same_entity_same_q** — two PSMs that store the same index (the same peptide; the same protein
    group string) receive the same q-value. -/
theorem same_entity_same_q (pep : σ → ℚ) (thr : ℚ)
    (es : List (κ × Comp ι σ)) (psms : List (Psm κ ι σ)) (qs : List ℚ) (n : Nat)
    (h : pickedWith pep castQ 1 thr es psms = some (qs, n)) (i j : Nat) (pi pj : Psm κ ι σ)
    (hi : psms[i]? = some pi) (hj : psms[j]? = some pj) (hix : pi.ix = pj.ix) :
    qs[i]? = qs[j]? ∧ (qs[i]?).isSome := by
  unfold pickedWith at h
  simp only at h
  split at h
  · simp only [Option.some.injEq, Prod.mk.injEq] at h
    obtain ⟨rfl, -⟩ := h
    simp [List.getElem?_map, hi, hj, hix]
  · exact absurd h (by simp)

/-- non-vacuity: PSMs 2 and 3 of the worked example hit the same peptide (index 2) -/
example : ([(1/2 : ℚ), 1/2, 1/2, 1/2, 2/3, 2/3])[2]? = ([(1/2 : ℚ), 1/2, 1/2, 1/2, 2/3, 2/3])[3]? ∧
    (([(1/2 : ℚ), 1/2, 1/2, 1/2, 2/3, 2/3])[2]?).isSome :=
  same_entity_same_q exPep (1/2) _ exPsms _ 2 ex_result 2 3 ⟨1, false, 2, 7⟩ ⟨1, false, 2, 5⟩ rfl rfl rfl

/-- **C13.q_antitone_rows** — in the table produced by the sort and the two passes, a row with a strictly
    higher score never has a larger q-value (ties or not, any increments). -/
theorem q_antitone_rows (inc : Row ι σ → ℚ) (thr : ℚ) (rows : List (Row ι σ)) :
    ∀ a ∈ (assignRows inc castQ 1 thr rows).1, ∀ b ∈ (assignRows inc castQ 1 thr rows).1,
      b.1.score < a.1.score → a.2 ≤ b.2 := by
  intro a ha b hb hlt
  rcases pairwise_mem_cases (tab_pairwise inc thr rows) ha hb with rfl | h | h
  · exact le_refl _
  · exact h.2
  · exact absurd h.1 (not_le.mpr hlt)

/-- non-vacuity: in the worked example the row with score 7 (q = 1/2) against the row with score 4 (q = 2/3) -/
example : (1/2 : ℚ) ≤ 2/3 :=
  q_antitone_rows (fun r => exPep r.score) (1/2) (rowsOf (competition 0 exPsms))
    (⟨2, false, 7⟩, 1/2) (by have := ex_tab; unfold assignQ at this; rw [this]; simp)
    (⟨3, true, 4⟩, 2/3) (by have := ex_tab; unfold assignQ at this; rw [this]; simp) (by decide)

/-- **C13.q_antitone_precursor** — an MS1 peak with a strictly higher score never has a larger q-value. -/
theorem q_antitone_precursor (thr : ℚ) (peaks : List (Row ι σ)) :
    ∀ a ∈ (pickedPrecursor castQ 0 1 thr peaks).1, ∀ b ∈ (pickedPrecursor castQ 0 1 thr peaks).1,
      b.1.score < a.1.score → a.2 ≤ b.2 :=
  q_antitone_rows _ thr peaks

/-- **C13.passing_count_rows** — the returned count is the number of target rows whose q-value is at or
    below the threshold (decoy rows are not counted). -/
theorem passing_count_rows (inc : Row ι σ → ℚ) (thr : ℚ) (rows : List (Row ι σ)) :
    (assignRows inc castQ 1 thr rows).2 =
      ((assignRows inc castQ 1 thr rows).1.filter fun rq => decide (rq.2 ≤ thr) && !rq.1.decoy).length := rfl

/-- non-vacuity: two target rows of the worked example are at or below the threshold 1/2 -/
example : (assignQ exPep castQ 1 (1/2) (competition 0 exPsms)).2 = 2 := by
  have := ex_result
  unfold pickedWith at this
  simp only at this
  split at this
  · simpa using (Prod.mk.inj (Option.some.inj this)).2
  · exact absurd this (by simp)

/-- every input row appears exactly once in the table (the table's rows are a permutation of the input) -/
theorem tab_rows_perm (inc : Row ι σ → ℚ) (thr : ℚ) (rows : List (Row ι σ)) :
    ((assignRows inc castQ 1 thr rows).1.map (·.1)).Perm rows := by
  rw [tab_fst]; exact sortRows_perm rows


/-- what `pickedWith` returns, unfolded -/
theorem pickedWith_some (pep : σ → ℚ) (thr : ℚ) (es : List (κ × Comp ι σ))
    (psms : List (Psm κ ι σ)) (qs : List ℚ) (n : Nat)
    (h : pickedWith pep castQ 1 thr es psms = some (qs, n)) :
    n = (assignQ pep castQ 1 thr es).2 ∧
    ∀ (i : Nat) (p : Psm κ ι σ), psms[i]? = some p → ∃ q, qs[i]? = some q ∧ lookupQ (assignQ pep castQ 1 thr es).1 p.ix = some q := by
  unfold pickedWith at h
  simp only at h
  split at h
  · rename_i hall
    simp only [Option.some.injEq, Prod.mk.injEq] at h
    obtain ⟨rfl, rfl⟩ := h
    refine ⟨rfl, ?_⟩
    intro i p hi
    have hs := (List.all_eq_true.mp hall) p (List.mem_of_getElem? hi)
    obtain ⟨q, hq⟩ := Option.isSome_iff_exists.mp hs
    exact ⟨q, by simp [List.getElem?_map, hi, hq], hq⟩
  · exact absurd h (by simp)

/-- **C13.q_antitone** — an entity (peptide / protein group) whose best score is strictly higher never
    receives a larger q-value than one whose best score is lower. For every PSM list over a canonical
    database, every `pep`, every iteration order `es` of the competition map, ties or not. -/
theorem q_antitone [DecidableEq κ] (bot : σ) (pep : σ → ℚ) (thr : ℚ)
    (psms : List (Psm κ ι σ)) (hc : Canon psms)
    (es : List (κ × Comp ι σ)) (hes : es.Perm (competition bot psms)) (qs : List ℚ) (n : Nat)
    (h : pickedWith pep castQ 1 thr es psms = some (qs, n)) (i j : Nat) (pi pj : Psm κ ι σ)
    (hi : psms[i]? = some pi) (hj : psms[j]? = some pj)
    (hlt : best bot psms pj.ix < best bot psms pi.ix) :
    ∃ qi qj, qs[i]? = some qi ∧ qs[j]? = some qj ∧ qi ≤ qj := by
  obtain ⟨-, hq⟩ := pickedWith_some pep thr es psms qs n h
  obtain ⟨qi, hqi, hli⟩ := hq i pi hi
  obtain ⟨qj, hqj, hlj⟩ := hq j pj hj
  refine ⟨qi, qj, hqi, hqj, ?_⟩
  obtain ⟨ri, hri, hrix⟩ := lookupQ_mem _ _ _ hli
  obtain ⟨rj, hrj, hrjx⟩ := lookupQ_mem _ _ _ hlj
  have hrows : ∀ r q, (r, q) ∈ (assignQ pep castQ 1 thr es).1 → r ∈ rowsOf (competition bot psms) := by
    intro r q hm
    have h1 : r ∈ (assignQ pep castQ 1 thr es).1.map (·.1) := List.mem_map.mpr ⟨(r, q), hm, rfl⟩
    have h2 := (tab_rows_perm (fun r => pep r.score) thr (rowsOf es)).mem_iff.mp h1
    exact (List.Perm.flatMap_right _ hes).mem_iff.mp h2
  have hsi := (row_score_best bot psms hc ri (hrows ri qi hri)).2
  have hsj := (row_score_best bot psms hc rj (hrows rj qj hrj)).2
  rw [hrix] at hsi
  rw [hrjx] at hsj
  exact q_antitone_rows (fun r => pep r.score) thr (rowsOf es) (ri, qi) hri (rj, qj) hrj
    (by simp only [hsi, hsj]; exact hlt)

/-- non-vacuity: PSM 0 (peptide 0, best score 9) against PSM 5 (peptide 4, best score 2) of the worked example -/
example : ∃ qi qj, ([(1/2 : ℚ), 1/2, 1/2, 1/2, 2/3, 2/3])[0]? = some qi ∧
    ([(1/2 : ℚ), 1/2, 1/2, 1/2, 2/3, 2/3])[5]? = some qj ∧ qi ≤ qj :=
  q_antitone 0 exPep (1/2) exPsms ex_canon _ (List.Perm.refl _) _ 2 ex_result 0 5 _ _ rfl rfl (by decide)


/-- **C13.competition_order_free** — the competition map (which keys, and for each key the best forward
    and reverse score and the stored indices) does not depend on the order in which the PSMs are
    supplied: the two maps have the same entries (as lists: up to a permutation). -/
theorem competition_order_free [DecidableEq κ] (bot : σ) (psms psms' : List (Psm κ ι σ))
    (hp : psms.Perm psms') (hc : Canon psms) :
    (competition bot psms).Perm (competition bot psms') := by
  rw [List.perm_ext_iff_of_nodup]
  · rintro ⟨k, c⟩
    rw [mem_competition, mem_competition, compOf_perm bot hp hc k]
    constructor
    · rintro ⟨⟨p, hpm, hk⟩, hc'⟩; exact ⟨⟨p, hp.mem_iff.mp hpm, hk⟩, hc'⟩
    · rintro ⟨⟨p, hpm, hk⟩, hc'⟩; exact ⟨⟨p, hp.mem_iff.mpr hpm, hk⟩, hc'⟩
  · rw [competition_eq]; exact nodup_graph _ _ (nodup_keysOf psms)
  · rw [competition_eq]; exact nodup_graph _ _ (nodup_keysOf psms')

/-- non-vacuity: the worked example supplied in reverse order (the entries come out in another order) -/
example : (competition 0 exPsms).Perm (competition 0 exPsms.reverse) ∧
    competition 0 exPsms ≠ competition 0 exPsms.reverse :=
  ⟨competition_order_free 0 _ _ (List.reverse_perm _).symm ex_canon, by decide⟩

/-- **C13.order_invariant** — the whole result of `assign_q_value` (every entity's q-value and the passing
    count) is the same for every supply order of the PSMs and every iteration order of the two hash
    maps, **ties included**: the sort key (score, decoy flag, entity index) is total on rows, so the
    sorted row list is determined by the set of rows, and the set of rows by the set of PSMs
    (`competition_order_free`). Exact arithmetic ("beyond rounding" in the property text), and `pep` is
    the same function of the score on both sides: that the *fitted* estimator does not depend on the
    order of its sample beyond rounding is an assumption (it is data, property C14); the correspondence
    run compares the implementation with itself under permutation within a stated ulp bound. -/
theorem order_invariant [DecidableEq κ] (bot : σ) (pep : σ → ℚ) (thr : ℚ)
    (psms psms' : List (Psm κ ι σ)) (hp : psms.Perm psms') (hc : Canon psms)
    (es es' : List (κ × Comp ι σ)) (hes : es.Perm (competition bot psms))
    (hes' : es'.Perm (competition bot psms')) :
    assignQ pep castQ 1 thr es = assignQ pep castQ 1 thr es' := by
  have h1 : (rowsOf es).Perm (rowsOf es') :=
    List.Perm.flatMap_right _ (hes.trans ((competition_order_free bot psms psms' hp hc).trans hes'.symm))
  simp only [assignQ, assignRows, sortRows_perm_eq h1]

/-- non-vacuity: the worked example supplied in reverse order -/
example : assignQ exPep castQ 1 (1/2) (competition 0 exPsms) =
    assignQ exPep castQ 1 (1/2) (competition 0 exPsms.reverse) :=
  order_invariant 0 exPep (1/2) exPsms exPsms.reverse (List.reverse_perm _).symm ex_canon _ _
    (List.Perm.refl _) (List.Perm.refl _)

/-- **C13.order_invariant_under_ties** — the witness that used to separate two iteration orders (one
    decoy and three targets, all with score 1, `pep = 1/4`: the decoy handed out first gave q = 2/3
    everywhere, handed out last it gave the targets 7/12; the real code showed the same dependence, see
    corpus/C13/fixed-order-dependent-under-ties.req) now gives the same table for both orders: the decoy
    is sorted first. -/
theorem order_invariant_under_ties :
    tieEs ≠ tieEs' ∧ ¬ ((rowsOf (competition 0 tiePsms)).map (·.score)).Nodup ∧
    assignQ (fun _ => (1/4 : ℚ)) castQ 1 (1/100) tieEs = assignQ (fun _ => (1/4 : ℚ)) castQ 1 (1/100) tieEs' ∧
    (assignQ (fun _ => (1/4 : ℚ)) castQ 1 (1/100) tieEs').1.map (·.2) = [2/3, 2/3, 2/3, 2/3] := by
  have h := order_invariant 0 (fun _ => (1/4 : ℚ)) (1/100) tiePsms tiePsms (List.Perm.refl _) tie_canon
    tieEs tieEs' (List.Perm.refl _) tieEs'_perm
  exact ⟨by decide, by decide, h, by rw [← h]; exact tie_q⟩

/-- **C13.order_invariant_precursor** — MS1-peak q-values and the passing count do not depend on the
    order in which the peaks are stored / iterated, ties included. -/
theorem order_invariant_precursor (thr : ℚ) (peaks peaks' : List (Row ι σ)) (hp : peaks.Perm peaks') :
    pickedPrecursor castQ 0 1 thr peaks = pickedPrecursor castQ 0 1 thr peaks' := by
  simp only [pickedPrecursor, assignRows, sortRows_perm_eq hp]

/-- non-vacuity: a decoy and two targets, all with score 5, in two orders: q = 1, 1, 1 both times
    (before the tie-break the second order gave the targets 1/2: the finding's precursor witness) -/
example : pickedPrecursor (ι := Nat) (σ := Nat) castQ 0 1 (1/20) [⟨1, false, 5⟩, ⟨2, false, 5⟩, ⟨0, true, 5⟩] =
    pickedPrecursor castQ 0 1 (1/20) [⟨0, true, 5⟩, ⟨1, false, 5⟩, ⟨2, false, 5⟩] :=
  order_invariant_precursor _ _ _ (by decide)

end

/-- `Peptide::reverse` is an involution (sequence, modifications, decoy flag) -/
theorem reverse_involutive (p : Pep) : p.reverse.reverse = p := by
  cases p; simp [Pep.reverse, revMid_involutive]

/-- **C13.target_decoy_one_key** — with internally generated decoys, a target peptide and the decoy
    generated from it (`Peptide::reverse`) are filed under the same key by `picked_peptide` … -/
theorem target_decoy_one_key (t : Pep) (ht : t.decoy = false) :
    pepKey true t.reverse = pepKey true t := by
  have h1 : t.reverse.decoy = true := by simp [Pep.reverse, ht]
  simp [pepKey, h1, ht, reverse_involutive]

/-- … and by `picked_protein` (the key is the protein list, which `reverse` does not touch), while the
    two are told apart by the index they store (the decoy's protein string carries the decoy tag). -/
theorem target_decoy_one_key_protein (t : Pep) : t.reverse.prots = t.prots := rfl

/-- non-vacuity: PEPTIDEK (M-oxidation-like mark on position 2) and its generated decoy PEDITPEK -/
example : pepKey true (Pep.reverse ⟨false, [80, 69, 80, 84, 73, 68, 69, 75], [0, 0, 7, 0, 0, 0, 0, 0], none, none, ["P1"]⟩)
    = (none, [(80, 0), (69, 0), (80, 7), (84, 0), (73, 0), (68, 0), (69, 0), (75, 0)], none) ∧
    (Pep.reverse ⟨false, [80, 69, 80, 84, 73, 68, 69, 75], [0, 0, 7, 0, 0, 0, 0, 0], none, none, ["P1"]⟩).seq
    = [80, 69, 68, 73, 84, 80, 69, 75] := by decide

/-! ## entity level: counting, and the checker accepts the model (helpers first) -/

set_option linter.unusedSectionVars false

theorem nodup_eraseDups {β : Type} [DecidableEq β] (l : List β) : l.eraseDups.Nodup := by
  generalize hn : l.length = n
  induction n using Nat.strong_induction_on generalizing l with
  | _ n ih =>
    cases l with
    | nil => simp
    | cons a as =>
      rw [List.eraseDups_cons, List.nodup_cons]
      constructor
      · rw [List.mem_eraseDups]; simp
      · apply ih ((as.filter fun b => !b == a).length) _ _ rfl
        subst hn
        exact Nat.lt_succ_of_le (List.length_filter_le _ _)

section
variable [DecidableEq κ] [LinearOrder σ]

theorem compOf_fix_some (bot : σ) (psms : List (Psm κ ι σ)) (k : κ) (i : ι)
    (h : (compOf bot psms k).fix = some i) : ∃ p ∈ psms, p.key = k ∧ p.decoy = false ∧ p.ix = i := by
  simp only [compOf, foldl_upd_fix, Comp.init] at h
  rcases foldl_last_some _ _ _ h with h0 | ⟨p, hp, hpi⟩
  · exact absurd h0 (by simp)
  · simp only [List.mem_filter, decide_eq_true_eq, Bool.not_eq_eq_eq_not, Bool.not_true] at hp
    exact ⟨p, hp.1.1, hp.1.2, hp.2, hpi⟩

theorem compOf_rix_some (bot : σ) (psms : List (Psm κ ι σ)) (k : κ) (i : ι)
    (h : (compOf bot psms k).rix = some i) : ∃ p ∈ psms, p.key = k ∧ p.decoy = true ∧ p.ix = i := by
  simp only [compOf, foldl_upd_rix, Comp.init] at h
  rcases foldl_last_some _ _ _ h with h0 | ⟨p, hp, hpi⟩
  · exact absurd h0 (by simp)
  · simp only [List.mem_filter, decide_eq_true_eq] at hp
    exact ⟨p, hp.1.1, hp.1.2, hp.2, hpi⟩

/-- a target PSM's entity has a row: the stored forward index of its key is its own index -/
theorem compOf_fix_of_target (bot : σ) (psms : List (Psm κ ι σ)) (hc : Canon psms) (p : Psm κ ι σ)
    (hp : p ∈ psms) (hd : p.decoy = false) : (compOf bot psms p.key).fix = some p.ix := by
  simp only [compOf, foldl_upd_fix, Comp.init]
  rw [foldl_last_const _ none p.ix]
  · have : p ∈ ((psms.filter fun q => q.key = p.key).filter fun q => !q.decoy) := by
      simp [hp, hd]
    split
    · rename_i he; rw [he] at this; simp at this
    · rfl
  · intro q hq
    simp only [List.mem_filter, decide_eq_true_eq, Bool.not_eq_eq_eq_not, Bool.not_true] at hq
    exact (hc q hq.1.1 p hp).mp ⟨hq.1.2, hq.2.trans hd.symm⟩

theorem rowsOf_competition (bot : σ) (psms : List (Psm κ ι σ)) :
    rowsOf (competition bot psms) = (keysOf psms).flatMap fun k => (compOf bot psms k).rows := by
  rw [competition_eq, rowsOf, List.flatMap_map]

/-- a row's index belongs to a PSM filed under the row's key, with the row's decoy flag -/
theorem row_witness (bot : σ) (psms : List (Psm κ ι σ)) (k : κ) (r : Row ι σ)
    (hr : r ∈ (compOf bot psms k).rows) : ∃ p ∈ psms, p.key = k ∧ p.decoy = r.decoy ∧ p.ix = r.ix := by
  rw [mem_rows] at hr
  rcases hr with ⟨h, hd, -⟩ | ⟨h, hd, -⟩
  · obtain ⟨p, hp, h1, h2, h3⟩ := compOf_fix_some bot psms k _ h
    exact ⟨p, hp, h1, by rw [h2, hd], h3⟩
  · obtain ⟨p, hp, h1, h2, h3⟩ := compOf_rix_some bot psms k _ h
    exact ⟨p, hp, h1, by rw [h2, hd], h3⟩

/-- over a canonical database no two rows carry the same index -/
theorem rows_ix_nodup (bot : σ) (psms : List (Psm κ ι σ)) (hc : Canon psms) :
    ((rowsOf (competition bot psms)).map (·.ix)).Nodup := by
  rw [rowsOf_competition, List.map_flatMap, List.nodup_flatMap]
  constructor
  · intro k _
    -- at most one target row and one decoy row; their indices differ
    have key : ∀ i j, (compOf bot psms k).fix = some i → (compOf bot psms k).rix = some j → i ≠ j := by
      intro i j hi hj e
      obtain ⟨p, hp, h1, h2, h3⟩ := compOf_fix_some bot psms k i hi
      obtain ⟨q, hq, g1, g2, g3⟩ := compOf_rix_some bot psms k j hj
      have := ((hc p hp q hq).mpr (by rw [h3, g3, e])).2
      rw [h2, g2] at this
      exact absurd this (by simp)
    unfold Comp.rows
    cases hf : (compOf bot psms k).fix <;> cases hr : (compOf bot psms k).rix <;> simp
    exact key _ _ hf hr
  · apply (nodup_keysOf psms).imp
    intro k k' hne
    simp only [Function.onFun, List.disjoint_left, List.mem_map]
    rintro x ⟨r, hr, rfl⟩ ⟨r', hr', e⟩
    obtain ⟨p, hp, h1, -, h3⟩ := row_witness bot psms k r hr
    obtain ⟨q, hq, g1, -, g3⟩ := row_witness bot psms k' r' hr'
    have := ((hc p hp q hq).mpr (by rw [h3, g3, e])).1
    exact hne (h1 ▸ g1 ▸ this)

end

theorem find_unique {β γ : Type} [DecidableEq γ] (f : β → γ) (l : List β) (h : (l.map f).Nodup) (a : β)
    (ha : a ∈ l) : l.find? (fun b => f b = f a) = some a := by
  induction l with
  | nil => simp at ha
  | cons x xs ih =>
    simp only [List.map_cons, List.nodup_cons, List.mem_map, not_exists, not_and] at h
    rcases List.mem_cons.mp ha with rfl | ha'
    · simp
    · have hx : f x ≠ f a := fun e => h.1 a ha' e.symm
      rw [List.find?_cons_of_neg (by simpa using hx)]
      exact ih h.2 ha'

theorem lookupQ_of_mem (tab : List (Row ι σ × ℚ)) (h : (tab.map (·.1.ix)).Nodup)
    (rq : Row ι σ × ℚ) (hm : rq ∈ tab) : lookupQ tab rq.1.ix = some rq.2 := by
  unfold lookupQ
  have h' : (tab.reverse.map (·.1.ix)).Nodup := by
    rw [List.map_reverse]; exact List.nodup_reverse.mpr h
  have := find_unique (fun x : Row ι σ × ℚ => x.1.ix) tab.reverse h' rq (List.mem_reverse.mpr hm)
  rw [this]; rfl

section
variable [DecidableEq κ] [LinearOrder σ]

theorem mem_targetEntities (psms : List (Psm κ ι σ)) (ix : ι) :
    ix ∈ targetEntities psms ↔ ∃ p ∈ psms, p.decoy = false ∧ p.ix = ix := by
  simp only [targetEntities, List.mem_eraseDups, List.mem_map, List.mem_filter,
    Bool.not_eq_eq_eq_not, Bool.not_true]
  constructor
  · rintro ⟨p, ⟨hp, hd⟩, rfl⟩; exact ⟨p, hp, hd, rfl⟩
  · rintro ⟨p, hp, hd, rfl⟩; exact ⟨p, ⟨hp, hd⟩, rfl⟩

/-- the table's rows are the competition's rows, whatever the iteration order -/
theorem tab_rows_perm_competition (bot : σ) (pep : σ → ℚ) (thr : ℚ) (psms : List (Psm κ ι σ))
    (es : List (κ × Comp ι σ)) (hes : es.Perm (competition bot psms)) :
    ((assignQ pep castQ 1 thr es).1.map (·.1)).Perm (rowsOf (competition bot psms)) :=
  (tab_rows_perm (fun r => pep r.score) thr (rowsOf es)).trans (List.Perm.flatMap_right _ hes)

theorem tab_ix_nodup (bot : σ) (pep : σ → ℚ) (thr : ℚ) (psms : List (Psm κ ι σ)) (hc : Canon psms)
    (es : List (κ × Comp ι σ)) (hes : es.Perm (competition bot psms)) :
    ((assignQ pep castQ 1 thr es).1.map (·.1.ix)).Nodup := by
  have h1 := (tab_rows_perm_competition bot pep thr psms es hes).map (·.ix)
  have h2 := rows_ix_nodup bot psms hc
  rw [List.map_map] at h1
  exact h1.symm.nodup h2

/-- the target rows of the table are exactly the target entities of the PSM list -/
theorem target_rows_entities (bot : σ) (pep : σ → ℚ) (thr : ℚ) (psms : List (Psm κ ι σ)) (hc : Canon psms)
    (es : List (κ × Comp ι σ)) (hes : es.Perm (competition bot psms)) :
    (((assignQ pep castQ 1 thr es).1.filter fun rq => !rq.1.decoy).map (·.1.ix)).Perm (targetEntities psms) := by
  rw [List.perm_ext_iff_of_nodup]
  · intro ix
    rw [mem_targetEntities]
    simp only [List.mem_map, List.mem_filter, Bool.not_eq_eq_eq_not, Bool.not_true]
    constructor
    · rintro ⟨rq, ⟨hm, hd⟩, rfl⟩
      have hr : rq.1 ∈ rowsOf (competition bot psms) :=
        (tab_rows_perm_competition bot pep thr psms es hes).mem_iff.mp (List.mem_map.mpr ⟨rq, hm, rfl⟩)
      obtain ⟨⟨p, hp, hpi, hpd⟩, -⟩ := row_score_best bot psms hc rq.1 hr
      exact ⟨p, hp, hpd.trans hd, hpi⟩
    · rintro ⟨p, hp, hd, rfl⟩
      have hfix := compOf_fix_of_target bot psms hc p hp hd
      have hr : (⟨p.ix, false, (compOf bot psms p.key).fwd⟩ : Row ι σ) ∈ rowsOf (competition bot psms) := by
        rw [mem_rowsOf]
        refine ⟨(p.key, compOf bot psms p.key), (mem_competition bot psms _ _).mpr ⟨⟨p, hp, rfl⟩, rfl⟩, ?_⟩
        rw [mem_rows]; exact Or.inl ⟨hfix, rfl, rfl⟩
      have := (tab_rows_perm_competition bot pep thr psms es hes).mem_iff.mpr hr
      obtain ⟨rq, hm, he⟩ := List.mem_map.mp this
      exact ⟨rq, ⟨hm, by rw [he]⟩, by rw [he]⟩
  · exact ((tab_ix_nodup bot pep thr psms hc es hes).sublist
      ((List.filter_sublist (l := (assignQ pep castQ 1 thr es).1)).map _))
  · exact nodup_eraseDups _


/-- does the table give entity `ix` a q-value at or below the threshold? -/
def entityPasses (tab : List (Row ι σ × ℚ)) (thr : ℚ) (ix : ι) : Bool :=
  match lookupQ tab ix with
  | some q => decide (q ≤ thr)
  | none => false

/-- **C13.passing_count** — the returned count is the number of distinct *target* entities (peptides /
    protein groups hit by at least one target PSM) whose q-value is at or below the threshold. -/
theorem passing_count (bot : σ) (pep : σ → ℚ) (thr : ℚ) (psms : List (Psm κ ι σ)) (hc : Canon psms)
    (es : List (κ × Comp ι σ)) (hes : es.Perm (competition bot psms)) (qs : List ℚ) (n : Nat)
    (h : pickedWith pep castQ 1 thr es psms = some (qs, n)) :
    n = ((targetEntities psms).filter (entityPasses (assignQ pep castQ 1 thr es).1 thr)).length := by
  obtain ⟨hn, -⟩ := pickedWith_some pep thr es psms qs n h
  rw [hn]
  have hperm := target_rows_entities bot pep thr psms hc es hes
  have hnd := tab_ix_nodup bot pep thr psms hc es hes
  rw [← (hperm.filter _).length_eq, List.filter_map, List.length_map, List.filter_filter]
  show ((assignQ pep castQ 1 thr es).1.filter _).length = _
  congr 1
  apply List.filter_congr
  intro rq hm
  simp only [Function.comp, entityPasses, lookupQ_of_mem _ hnd rq hm]


theorem zip_map_self {β γ : Type} (l : List β) (f : β → γ) : l.zip (l.map f) = l.map fun x => (x, f x) := by
  induction l with
  | nil => rfl
  | cons x xs ih => simp [ih]

/-- `q_antitone` phrased on members and table look-ups -/
theorem q_antitone_mem (bot : σ) (pep : σ → ℚ) (thr : ℚ) (psms : List (Psm κ ι σ)) (hc : Canon psms)
    (es : List (κ × Comp ι σ)) (hes : es.Perm (competition bot psms)) (p p' : Psm κ ι σ) (q q' : ℚ)
    (hq : lookupQ (assignQ pep castQ 1 thr es).1 p.ix = some q)
    (hq' : lookupQ (assignQ pep castQ 1 thr es).1 p'.ix = some q')
    (hlt : best bot psms p'.ix < best bot psms p.ix) : q ≤ q' := by
  obtain ⟨r, hr, hrx⟩ := lookupQ_mem _ _ _ hq
  obtain ⟨r', hr', hrx'⟩ := lookupQ_mem _ _ _ hq'
  have hrows : ∀ r q, (r, q) ∈ (assignQ pep castQ 1 thr es).1 → r ∈ rowsOf (competition bot psms) :=
    fun r q hm => (tab_rows_perm_competition bot pep thr psms es hes).mem_iff.mp
      (List.mem_map.mpr ⟨(r, q), hm, rfl⟩)
  have hs := (row_score_best bot psms hc r (hrows r q hr)).2
  have hs' := (row_score_best bot psms hc r' (hrows r' q' hr')).2
  rw [hrx] at hs
  rw [hrx'] at hs'
  exact q_antitone_rows (fun r => pep r.score) thr (rowsOf es) (r, q) hr (r', q') hr'
    (by simp only [hs, hs']; exact hlt)

/-- **C13.model_meets_spec** — the executable checker that the driver applies to the implementation's
    output (`specVerdict`: length, range, same entity, antitone, count) accepts the model's output, for
    every PSM list over a canonical database, every `pep ≥ 0`, every iteration order, ties or not.
    So a `bad:` verdict on the implementation's output is a statement about the implementation. -/
theorem model_meets_spec (bot : σ) (pep : σ → ℚ) (hpep : ∀ s, 0 ≤ pep s) (thr : ℚ)
    (psms : List (Psm κ ι σ)) (hc : Canon psms)
    (es : List (κ × Comp ι σ)) (hes : es.Perm (competition bot psms)) (qs : List ℚ) (n : Nat)
    (h : pickedWith pep castQ 1 thr es psms = some (qs, n)) :
    specVerdict bot (0 : ℚ) 1 thr psms qs n = "ok" := by
  have hrange := q_range pep hpep thr es psms qs n h
  have hcount := passing_count bot pep thr psms hc es hes qs n h
  -- what the q of a PSM is
  have hF : (∀ p ∈ psms, (lookupQ (assignQ pep castQ 1 thr es).1 p.ix).isSome) ∧
      qs = psms.map fun p => (lookupQ (assignQ pep castQ 1 thr es).1 p.ix).getD 1 := by
    unfold pickedWith at h
    simp only at h
    split at h
    · rename_i hall
      simp only [Option.some.injEq, Prod.mk.injEq] at h
      exact ⟨fun p hp => (List.all_eq_true.mp hall) p hp, h.1.symm⟩
    · exact absurd h (by simp)
  obtain ⟨hsome, hqs⟩ := hF
  have hlk : ∀ p ∈ psms, lookupQ (assignQ pep castQ 1 thr es).1 p.ix =
      some ((lookupQ (assignQ pep castQ 1 thr es).1 p.ix).getD 1) := by
    intro p hp
    obtain ⟨q, hq⟩ := Option.isSome_iff_exists.mp (hsome p hp)
    rw [hq]; rfl
  have hzip : psms.zip qs = psms.map fun p => (p, (lookupQ (assignQ pep castQ 1 thr es).1 p.ix).getD 1) := by
    rw [hqs, zip_map_self]
  have h1 : qs.length = psms.length := by rw [hqs, List.length_map]
  have h2 : specRange (0 : ℚ) 1 qs = true := by
    simp only [specRange, List.all_eq_true, Bool.and_eq_true, decide_eq_true_eq]
    exact hrange
  have h3 : specSame (psms.zip qs) = true := by
    simp only [specSame, hzip, List.all_eq_true, List.mem_map, Bool.or_eq_true, Bool.and_eq_true,
      decide_eq_true_eq]
    rintro _ ⟨p, _, rfl⟩ _ ⟨p', _, rfl⟩
    by_cases e : p.ix = p'.ix
    · right; simp [e]
    · left; exact e
  have h4 : specAnti ((psms.zip qs).map fun a => (best bot psms a.1.ix, a.2)) = true := by
    simp only [specAnti, hzip, List.map_map, List.all_eq_true, List.mem_map, Bool.or_eq_true,
      decide_eq_true_eq, Function.comp]
    rintro _ ⟨p, hp, rfl⟩ _ ⟨p', hp', rfl⟩
    by_cases hle : best bot psms p.ix ≤ best bot psms p'.ix
    · left; exact hle
    · right
      exact q_antitone_mem bot pep thr psms hc es hes p p' _ _ (hlk p hp) (hlk p' hp') (not_le.mp hle)
  have h5 : specCount thr psms (psms.zip qs) = n := by
    rw [hcount, specCount]
    congr 1
    apply List.filter_congr
    intro ix hix
    obtain ⟨p0, hp0, -, hp0x⟩ := (mem_targetEntities psms ix).mp hix
    rw [hzip]
    cases hf : (psms.map fun p => (p, (lookupQ (assignQ pep castQ 1 thr es).1 p.ix).getD 1)).find?
        (fun a => a.1.ix = ix) with
    | none =>
      rw [List.find?_eq_none] at hf
      exact absurd (by simpa using hp0x) (hf (p0, _) (List.mem_map.mpr ⟨p0, hp0, rfl⟩))
    | some a =>
      have hm := List.mem_of_find?_eq_some hf
      have hpx := List.find?_some hf
      obtain ⟨p, hp, rfl⟩ := List.mem_map.mp hm
      have hpx' : p.ix = ix := by simpa using hpx
      subst hpx'
      obtain ⟨q, hq⟩ := Option.isSome_iff_exists.mp (hsome p hp)
      simp only [entityPasses, hq, Option.getD_some]
  simp [specVerdict, h1, h2, h3, h4, h5]

end

/-- non-vacuity: in the worked example two of the three target entities (peptides 0 and 2, not 4) pass at 1/2 -/
example : (2 : Nat) = ((targetEntities exPsms).filter
    (entityPasses (assignQ exPep castQ 1 (1/2) (competition 0 exPsms)).1 (1/2))).length :=
  passing_count 0 exPep (1/2) exPsms ex_canon _ (List.Perm.refl _) _ 2 ex_result

/-- non-vacuity: the checker accepts the worked example's result … -/
example : specVerdict 0 (0 : ℚ) 1 (1/2) exPsms [1/2, 1/2, 1/2, 1/2, 2/3, 2/3] 2 = "ok" :=
  model_meets_spec 0 exPep exPep_nonneg (1/2) exPsms ex_canon _ (List.Perm.refl _) _ 2 ex_result

/-- … and is not vacuous: it rejects a wrong count, a q-value of 0 and an inverted pair -/
example : specVerdict 0 (0 : ℚ) 1 (1/2) exPsms [1/2, 1/2, 1/2, 1/2, 2/3, 2/3] 3 = "bad:count" ∧
    specVerdict 0 (0 : ℚ) 1 (1/2) exPsms [0, 1/2, 1/2, 1/2, 2/3, 2/3] 2 = "bad:range" ∧
    specVerdict 0 (0 : ℚ) 1 (1/2) exPsms [1/2, 1/2, 1/2, 1/3, 2/3, 2/3] 2 = "bad:same_entity" ∧
    specVerdict 0 (0 : ℚ) 1 (1/2) exPsms [1, 1/2, 1/2, 1/2, 2/3, 2/3] 1 = "bad:antitone" := by
  refine ⟨?_, ?_, ?_, ?_⟩ <;> decide +kernel


/-! ## no panic over a canonical database -/

section noPanic
variable [DecidableEq κ] [LinearOrder σ]

theorem compOf_rix_of_decoy (bot : σ) (psms : List (Psm κ ι σ)) (hc : Canon psms) (p : Psm κ ι σ)
    (hp : p ∈ psms) (hd : p.decoy = true) : (compOf bot psms p.key).rix = some p.ix := by
  simp only [compOf, foldl_upd_rix, Comp.init]
  rw [foldl_last_const _ none p.ix]
  · have : p ∈ ((psms.filter fun q => q.key = p.key).filter fun q => q.decoy) := by
      simp [hp, hd]
    split
    · rename_i he; rw [he] at this; simp at this
    · rfl
  · intro q hq
    simp only [List.mem_filter, decide_eq_true_eq] at hq
    exact (hc q hq.1.1 p hp).mp ⟨hq.1.2, hq.2.trans hd.symm⟩

/-- every PSM's entity has a row in the competition -/
theorem psm_has_row (bot : σ) (psms : List (Psm κ ι σ)) (hc : Canon psms) (p : Psm κ ι σ) (hp : p ∈ psms) :
    ∃ r ∈ rowsOf (competition bot psms), r.ix = p.ix := by
  have hmem : (p.key, compOf bot psms p.key) ∈ competition bot psms :=
    (mem_competition bot psms _ _).mpr ⟨⟨p, hp, rfl⟩, rfl⟩
  cases hd : p.decoy with
  | false =>
    refine ⟨⟨p.ix, false, (compOf bot psms p.key).fwd⟩, ?_, rfl⟩
    rw [mem_rowsOf]
    exact ⟨_, hmem, (mem_rows _ _).mpr (Or.inl ⟨compOf_fix_of_target bot psms hc p hp hd, rfl, rfl⟩)⟩
  | true =>
    refine ⟨⟨p.ix, true, (compOf bot psms p.key).rev⟩, ?_, rfl⟩
    rw [mem_rowsOf]
    exact ⟨_, hmem, (mem_rows _ _).mpr (Or.inr ⟨compOf_rix_of_decoy bot psms hc p hp hd, rfl, rfl⟩)⟩

/-- **C13.no_panic** — over a canonical database the index look-up `scores[&ix]` at the end of
    `picked_peptide` / `picked_protein` never fails: every PSM gets a q-value (the model's `none`, the
    code's panic, needs two entries with the same key and decoy flag but different indices). -/
theorem no_panic (bot : σ) (pep : σ → ℚ) (thr : ℚ) (psms : List (Psm κ ι σ)) (hc : Canon psms)
    (es : List (κ × Comp ι σ)) (hes : es.Perm (competition bot psms)) :
    ∃ qs n, pickedWith pep castQ 1 thr es psms = some (qs, n) := by
  unfold pickedWith
  simp only
  rw [if_pos]
  · exact ⟨_, _, rfl⟩
  · rw [List.all_eq_true]
    intro p hp
    obtain ⟨r, hr, hrx⟩ := psm_has_row bot psms hc p hp
    have h1 := (tab_rows_perm_competition bot pep thr psms es hes).mem_iff.mpr hr
    obtain ⟨rq, hm, he⟩ := List.mem_map.mp h1
    unfold lookupQ
    rw [Option.isSome_map, List.find?_isSome]
    exact ⟨rq, List.mem_reverse.mpr hm, by simp [he, hrx]⟩

end noPanic

/-! ## NaN posterior errors -/

/-- exact rationals plus one non-finite element: `none` = NaN -/
def NQ := Option ℚ

namespace NQ
def nan : NQ := none
def of (x : ℚ) : NQ := some x
/-- IEEE `+`: NaN is absorbing -/
def add : NQ → NQ → NQ
  | some a, some b => some (a + b)
  | _, _ => none
/-- IEEE `/` with a positive finite divisor (the only divisors the code uses here: `target ≥ 1`); NaN is absorbing -/
def div : NQ → NQ → NQ
  | some a, some b => some (a / b)
  | _, _ => none
/-- IEEE `<=`: false as soon as one side is NaN -/
def le : NQ → NQ → Prop
  | some a, some b => a ≤ b
  | _, _ => False
instance : DecidableEq NQ := inferInstanceAs (DecidableEq (Option ℚ))
instance : Add NQ := ⟨add⟩
instance : Div NQ := ⟨div⟩
instance : LE NQ := ⟨le⟩
instance : DecidableLE NQ
  | some a, some b => inferInstanceAs (Decidable (a ≤ b))
  | none, _ => isFalse (fun h => h)
  | some _, none => isFalse (fun h => h)
/-- `usize as f32` -/
def cast (n : Nat) : NQ := of (n : ℚ)

@[simp] theorem add_some (a b : ℚ) : (of a) + (of b) = of (a + b) := rfl
@[simp] theorem add_nan (a : NQ) : a + nan = nan := by cases a <;> rfl
@[simp] theorem nan_add (a : NQ) : nan + a = nan := rfl
@[simp] theorem nan_div (a : NQ) : nan / a = nan := rfl
@[simp] theorem div_some (a b : ℚ) : (of a) / (of b) = of (a / b) := rfl
@[simp] theorem le_some (a b : ℚ) : (of a ≤ of b) ↔ a ≤ b := Iff.rfl
@[simp] theorem nan_le (a : NQ) : ¬ (nan ≤ a) := fun h => h
@[simp] theorem le_nan (a : NQ) : ¬ (a ≤ nan) := by cases a <;> exact fun h => h
theorem cases' (a : NQ) : a = nan ∨ ∃ x, a = of x := by
  cases a with
  | none => exact Or.inl rfl
  | some x => exact Or.inr ⟨x, rfl⟩
end NQ

open NQ


/-- a forward-pass entry that cannot change `q_min`: `+∞` (no target yet) or NaN -/
def Dead (e : Row ι σ × Option NQ) : Prop := ∀ x, e.2 = some x → x = nan

theorem ratio_nan (t : Nat) (x : NQ) (h : ratio NQ.cast nan t = some x) : x = nan := by
  unfold ratio at h
  by_cases ht : t = 0
  · simp [ht] at h
  · simp only [ht, ↓reduceIte, nan_div, Option.some.injEq] at h; exact h.symm

theorem fwdPass_dead (inc : Row ι σ → NQ) (t : Nat) (rows : List (Row ι σ)) :
    ∀ e ∈ fwdPass inc NQ.cast nan t rows, Dead e := by
  induction rows generalizing t with
  | nil => simp [fwdPass]
  | cons r rs ih =>
    intro e he
    simp only [fwdPass, nan_add, List.mem_cons] at he
    rcases he with rfl | he
    · exact fun x hx => ratio_nan _ x hx
    · exact ih _ e he

/-- entries that are `+∞`/NaN leave `q_min` at `1.0` all the way -/
theorem cummin_dead (l : List (Row ι σ × Option NQ)) (h : ∀ e ∈ l, Dead e) :
    cummin (of 1) l = l.map fun e => (e.1, of 1) := by
  induction l with
  | nil => rfl
  | cons e es ih =>
    obtain ⟨r, x⟩ := e
    have ih' := ih (fun e he => h e (List.mem_cons_of_mem _ he))
    simp only [cummin, ih', List.map_cons, List.cons.injEq, Prod.mk.injEq, true_and, and_true]
    have hhd : hd (of 1) (es.map fun e => (e.1, of 1)) = of 1 := by cases es <;> rfl
    rw [hhd]
    cases x with
    | none => rfl
    | some y =>
      have := h (r, some y) (by simp) y rfl
      subst this
      simp [qmin]


theorem fwdPass_fst' {α : Type} [Add α] [Div α] (inc : Row ι σ → α) (cast : Nat → α) (d : α) (t : Nat)
    (rows : List (Row ι σ)) : (fwdPass inc cast d t rows).map (·.1) = rows := by
  induction rows generalizing d t with
  | nil => rfl
  | cons r rs ih => simp [fwdPass, ih]

theorem lookupQ_mem' {α : Type} (tab : List (Row ι σ × α)) (ix : ι) (q : α)
    (h : lookupQ tab ix = some q) : ∃ r, (r, q) ∈ tab ∧ r.ix = ix := by
  unfold lookupQ at h
  simp only [Option.map_eq_some_iff] at h
  obtain ⟨rq, hf, rfl⟩ := h
  have hm := List.mem_of_find?_eq_some hf
  have hp := List.find?_some hf
  exact ⟨rq.1, by simpa using hm, by simpa using hp⟩

/-- once the running `decoy` sum is NaN, or the next PEP is, every later ratio is `+∞`/NaN -/
theorem fwdPass_dead_first (inc : Row ι σ → NQ) (d : NQ) (t : Nat) (r : Row ι σ) (rs : List (Row ι σ))
    (h : inc r = nan) : ∀ e ∈ fwdPass inc NQ.cast d t (r :: rs), Dead e := by
  intro e he
  simp only [fwdPass, h, add_nan, List.mem_cons] at he
  rcases he with rfl | he
  · exact fun x hx => ratio_nan _ x hx
  · exact fwdPass_dead inc _ rs e he

section
variable [LinearOrder σ]

/-- **C13.nan_first_row** — if the PEP of the best-scoring row is NaN, `decoy` is NaN from the first
    addition on, every `decoy / target` is NaN (or `+∞`), `q_min.min(NaN)` keeps `q_min`, and
    `assign_q_value` returns q = 1.0 for every row and a passing count of 0 (threshold below 1). -/
theorem nan_first_row (inc : Row ι σ → NQ) (thr : NQ) (hthr : ¬ (of 1 ≤ thr)) (rows : List (Row ι σ))
    (h : ∀ r rs, sortRows rows = r :: rs → inc r = nan) :
    assignRows inc NQ.cast (of 1) thr rows = ((sortRows rows).map fun r => (r, of 1), 0) := by
  have hdead : ∀ e ∈ fwdPass inc NQ.cast (of 1) 0 (sortRows rows), Dead e := by
    cases hs : sortRows rows with
    | nil => simp [fwdPass]
    | cons r rs => exact fwdPass_dead_first inc _ _ r rs (h r rs hs)
  have htab : cummin (of 1) (fwdPass inc NQ.cast (of 1) 0 (sortRows rows)) =
      (sortRows rows).map fun r => (r, of 1) := by
    rw [cummin_dead _ hdead]
    conv_rhs => rw [← fwdPass_fst' inc NQ.cast (of 1) 0 (sortRows rows)]
    rw [List.map_map]; rfl
  simp only [assignRows, htab, Prod.mk.injEq, true_and]
  rw [List.length_eq_zero_iff, List.filter_eq_nil_iff]
  intro rq hrq
  obtain ⟨r, -, rfl⟩ := List.mem_map.mp hrq
  simp [hthr]

/-- **C13.nan_all** — when EVERY posterior error is NaN (what the KDE returns for a class with zero
    score variance: a single decoy, a single class, all scores equal — C14's known finding), every
    peptide- or protein-level q-value is 1.0 and the passing count is 0. -/
theorem nan_all (pep : σ → NQ) (hpep : ∀ s, pep s = nan) (thr : NQ) (hthr : ¬ (of 1 ≤ thr))
    {κ : Type} (es : List (κ × Comp ι σ)) :
    assignQ pep NQ.cast (of 1) thr es = ((sortRows (rowsOf es)).map fun r => (r, of 1), 0) :=
  nan_first_row _ thr hthr _ (fun r _ _ => hpep r.score)

/-- … and so does every PSM (`picked_peptide` / `picked_protein` output) -/
theorem nan_all_psms (pep : σ → NQ) (hpep : ∀ s, pep s = nan) (thr : NQ) (hthr : ¬ (of 1 ≤ thr))
    {κ : Type} (es : List (κ × Comp ι σ)) (psms : List (Psm κ ι σ)) (qs : List NQ) (n : Nat)
    (h : pickedWith pep NQ.cast (of 1) thr es psms = some (qs, n)) :
    n = 0 ∧ qs.length = psms.length ∧ ∀ q ∈ qs, q = of 1 := by
  unfold pickedWith at h
  simp only [nan_all pep hpep thr hthr es] at h
  split at h
  · rename_i hall
    simp only [Option.some.injEq, Prod.mk.injEq] at h
    obtain ⟨rfl, rfl⟩ := h
    refine ⟨rfl, by simp, ?_⟩
    intro q hq
    obtain ⟨p, hp, rfl⟩ := List.mem_map.mp hq
    obtain ⟨q, hq⟩ := Option.isSome_iff_exists.mp ((List.all_eq_true.mp hall) p hp)
    rw [hq]
    obtain ⟨r, hm, -⟩ := lookupQ_mem' _ _ _ hq
    obtain ⟨r', -, he⟩ := List.mem_map.mp hm
    exact (Prod.mk.inj he).2.symm
  · exact absurd h (by simp)


/-- state of the running `decoy` sum: NaN, or a positive number -/
def NanOrPos (d : NQ) : Prop := d = nan ∨ ∃ v, d = of v ∧ 0 < v

theorem fwdPass_nanOrPos (inc : Row ι σ → NQ) (hinc : ∀ r x, inc r = of x → 0 ≤ x) (d : NQ) (hd : NanOrPos d)
    (t : Nat) (rows : List (Row ι σ)) :
    ∀ e ∈ fwdPass inc NQ.cast d t rows, ∀ y, e.2 = some y → NanOrPos y := by
  induction rows generalizing d t with
  | nil => simp [fwdPass]
  | cons r rs ih =>
    have hd' : NanOrPos (d + inc r) := by
      rcases hd with rfl | ⟨v, rfl, hv⟩
      · exact Or.inl rfl
      · rcases NQ.cases' (inc r) with h | ⟨x, h⟩
        · rw [h]; exact Or.inl (add_nan _)
        · rw [h]; exact Or.inr ⟨v + x, rfl, by have := hinc r x h; linarith⟩
    intro e he y hy
    simp only [fwdPass, List.mem_cons] at he
    rcases he with rfl | he
    · simp only [ratio] at hy
      by_cases ht : (if r.decoy = true then t else t + 1) = 0
      · simp [ht] at hy
      · simp only [ht, ↓reduceIte, Option.some.injEq] at hy
        subst hy
        rcases hd' with h | ⟨v, h, hv⟩
        · rw [h]; exact Or.inl rfl
        · rw [h]
          refine Or.inr ⟨v / ((if r.decoy = true then t else t + 1 : Nat) : ℚ), rfl, ?_⟩
          exact div_pos hv (by exact_mod_cast Nat.pos_of_ne_zero ht)
    · exact ih _ hd' _ e he y hy

theorem cummin_finite_range (l : List (Row ι σ × Option NQ))
    (h : ∀ e ∈ l, ∀ y, e.2 = some y → NanOrPos y) :
    (∃ x, hd (of 1) (cummin (of 1) l) = of x ∧ 0 < x ∧ x ≤ 1) ∧
    ∀ rq ∈ cummin (of 1) l, ∃ x, rq.2 = of x ∧ 0 < x ∧ x ≤ 1 := by
  induction l with
  | nil => exact ⟨⟨1, rfl, by norm_num, le_refl _⟩, by simp [cummin]⟩
  | cons e es ih =>
    obtain ⟨r, y⟩ := e
    obtain ⟨⟨m, hm, hm0, hm1⟩, ihall⟩ := ih (fun e he => h e (List.mem_cons_of_mem _ he))
    have hq : ∃ x, qmin (hd (of 1) (cummin (of 1) es)) y = of x ∧ 0 < x ∧ x ≤ 1 := by
      rw [hm]
      cases y with
      | none => exact ⟨m, rfl, hm0, hm1⟩
      | some y =>
        rcases h (r, some y) (by simp) y rfl with rfl | ⟨v, rfl, hv⟩
        · exact ⟨m, by simp [qmin], hm0, hm1⟩
        · by_cases hle : v ≤ m
          · exact ⟨v, by simp [qmin, hle], hv, le_trans hle hm1⟩
          · exact ⟨m, by simp [qmin, hle], hm0, hm1⟩
    refine ⟨by simpa [cummin] using hq, ?_⟩
    intro rq hrq
    simp only [cummin, List.mem_cons] at hrq
    rcases hrq with rfl | hrq
    · exact hq
    · exact ihall rq hrq

/-- **C13.q_range_nan** — with posterior errors that are NaN for SOME scores and non-negative otherwise,
    every q-value is still a number in (0, 1] (never NaN): `decoy` is positive until the first NaN and
    NaN afterwards, a NaN ratio never wins `q_min.min(..)`, and `q_min` starts at 1.0. -/
theorem q_range_nan (inc : Row ι σ → NQ) (hinc : ∀ r x, inc r = of x → 0 ≤ x) (thr : NQ) (rows : List (Row ι σ)) :
    ∀ rq ∈ (assignRows inc NQ.cast (of 1) thr rows).1, ∃ x, rq.2 = of x ∧ 0 < x ∧ x ≤ 1 :=
  (cummin_finite_range _ (fwdPass_nanOrPos inc hinc (of 1) (Or.inr ⟨1, rfl, by norm_num⟩) 0 _)).2

/-- non-vacuity (both theorems): T D T at scores 3, 2, 1 with PEP(3) = 0, PEP(2) = NaN, PEP(1) = 1/2:
    the first row gets 1/1, the others NaN; q = 1, 1, 1. With PEP(3) = NaN as well nothing changes. -/
example : (assignRows (ι := Nat) (σ := Nat) (fun r => if r.score = 3 then of 0 else if r.score = 2 then nan else of (1/2))
    NQ.cast (of 1) (of (1/100)) [⟨0, false, 3⟩, ⟨1, true, 2⟩, ⟨2, false, 1⟩]) =
    ([(⟨0, false, 3⟩, of 1), (⟨1, true, 2⟩, of 1), (⟨2, false, 1⟩, of 1)], 0) := by
  rw [assignRows, sortRows_of_sorted _ (by decide)]
  decide +kernel

/-- non-vacuity of `q_range_nan` with a value below 1: T T D at scores 3, 2, 1, PEP = 0, 0, NaN: q = 1/2, 1/2, 1 -/
example : (assignRows (ι := Nat) (σ := Nat) (fun r => if r.score = 1 then nan else of 0)
    NQ.cast (of 1) (of (1/2)) [⟨0, false, 3⟩, ⟨1, false, 2⟩, ⟨2, true, 1⟩]) =
    ([(⟨0, false, 3⟩, of (1/2)), (⟨1, false, 2⟩, of (1/2)), (⟨2, true, 1⟩, of 1)], 2) := by
  rw [assignRows, sortRows_of_sorted _ (by decide)]
  norm_num [fwdPass, cummin, ratio, qmin, NQ.cast]

/-- non-vacuity of `nan_all`: the worked example of the property theorems with a NaN estimator -/
example : (assignQ (fun _ : Nat => nan) NQ.cast (of 1) (of (1/100)) (competition 0 exPsms)).2 = 0 ∧
    (assignQ (fun _ : Nat => nan) NQ.cast (of 1) (of (1/100)) (competition 0 exPsms)).1.length = 5 := by
  rw [nan_all _ (fun _ => rfl) _ (by rw [NQ.le_some]; norm_num)]
  refine ⟨rfl, ?_⟩
  rw [List.length_map, (sortRows_perm _).length_eq, ex_rows]; rfl

end


/-! ## the two public functions over a database -/

section dbLevel
variable [LinearOrder σ]

/-- `same_entity_same_q` needs no order laws on the index type (only the instances the model uses) -/
theorem same_entity_same_q_gen {κ' ι' : Type} [DecidableEq ι'] [LE ι'] [DecidableLE ι'] (pep : σ → ℚ) (thr : ℚ)
    (es : List (κ' × Comp ι' σ)) (psms : List (Psm κ' ι' σ)) (qs : List ℚ) (n : Nat)
    (h : pickedWith pep castQ 1 thr es psms = some (qs, n)) (i j : Nat) (pi pj : Psm κ' ι' σ)
    (hi : psms[i]? = some pi) (hj : psms[j]? = some pj) (hix : pi.ix = pj.ix) :
    qs[i]? = qs[j]? ∧ (qs[i]?).isSome := by
  unfold pickedWith at h
  simp only at h
  split at h
  · simp only [Option.some.injEq, Prod.mk.injEq] at h
    obtain ⟨rfl, -⟩ := h
    simp [List.getElem?_map, hi, hj, hix]
  · exact absurd h (by simp)

theorem pepPsms_some (gd : Bool) (peps : List Pep) (feats : List (Nat × σ)) (psms : List (Psm PepKey Nat σ))
    (h : pepPsms gd peps feats = some psms) :
    (∀ f ∈ feats, f.1 < peps.length) ∧
    psms = feats.map fun f => ⟨pepKey gd (peps.getD f.1 default), (peps.getD f.1 default).decoy, f.1, f.2⟩ := by
  unfold pepPsms at h
  split at h
  · rename_i hall
    exact ⟨fun f hf => by simpa using (List.all_eq_true.mp hall) f hf, (Option.some.inj h).symm⟩
  · exact absurd h (by simp)

theorem protPsms_some (gd : Bool) (tag : String) (peps : List Pep) (feats : List (Nat × σ))
    (psms : List (Psm (List String) String σ)) (h : protPsms gd tag peps feats = some psms) :
    (∀ f ∈ feats, f.1 < peps.length) ∧
    psms = feats.map fun f => ⟨(peps.getD f.1 default).prots, (peps.getD f.1 default).decoy,
      (peps.getD f.1 default).proteinStr tag gd, f.2⟩ := by
  unfold protPsms at h
  split at h
  · rename_i hall
    exact ⟨fun f hf => by simpa using (List.all_eq_true.mp hall) f hf, (Option.some.inj h).symm⟩
  · exact absurd h (by simp)

/-- **C13.picked_peptide_same_peptide** — `picked_peptide`: all PSMs of one peptide (same `peptide_idx`)
    receive the same `peptide_q`, whatever their scores and positions in the list. -/
theorem picked_peptide_same_peptide (bot : σ) (pep : σ → ℚ) (thr : ℚ) (gd : Bool) (peps : List Pep)
    (feats : List (Nat × σ)) (qs : List ℚ) (n : Nat)
    (h : pickedPeptide bot pep castQ 1 thr gd peps feats = some (qs, n))
    (i j : Nat) (fi fj : Nat × σ) (hi : feats[i]? = some fi) (hj : feats[j]? = some fj)
    (hsame : fi.1 = fj.1) : qs[i]? = qs[j]? ∧ (qs[i]?).isSome := by
  unfold pickedPeptide at h
  cases hp : pepPsms gd peps feats with
  | none => rw [hp] at h; exact absurd h (by simp)
  | some psms =>
    rw [hp] at h
    simp only [Option.bind_some] at h
    obtain ⟨-, rfl⟩ := pepPsms_some gd peps feats psms hp
    exact same_entity_same_q_gen pep thr _ _ qs n h i j _ _
      (by rw [List.getElem?_map, hi]; rfl) (by rw [List.getElem?_map, hj]; rfl) hsame

/-- **C13.picked_protein_same_group** — `picked_protein`: all PSMs whose peptides render the same protein
    group string (`Peptide::proteins(decoy_tag, generate_decoys)`, the value written to the results)
    receive the same `protein_q` — PSMs of different peptides of the group included. -/
theorem picked_protein_same_group (bot : σ) (pep : σ → ℚ) (thr : ℚ) (gd : Bool) (tag : String)
    (peps : List Pep) (feats : List (Nat × σ)) (qs : List ℚ) (n : Nat)
    (h : pickedProtein bot pep castQ 1 thr gd tag peps feats = some (qs, n))
    (i j : Nat) (fi fj : Nat × σ) (hi : feats[i]? = some fi) (hj : feats[j]? = some fj)
    (hsame : (peps.getD fi.1 default).proteinStr tag gd = (peps.getD fj.1 default).proteinStr tag gd) :
    qs[i]? = qs[j]? ∧ (qs[i]?).isSome := by
  unfold pickedProtein at h
  cases hp : protPsms gd tag peps feats with
  | none => rw [hp] at h; exact absurd h (by simp)
  | some psms =>
    rw [hp] at h
    simp only [Option.bind_some] at h
    obtain ⟨-, rfl⟩ := protPsms_some gd tag peps feats psms hp
    exact same_entity_same_q_gen pep thr _ _ qs n h i j _ _
      (by rw [List.getElem?_map, hi]; rfl) (by rw [List.getElem?_map, hj]; rfl) hsame

/-- in particular: same protein list and same decoy flag ⇒ same protein-level q-value -/
theorem picked_protein_same_list (bot : σ) (pep : σ → ℚ) (thr : ℚ) (gd : Bool) (tag : String)
    (peps : List Pep) (feats : List (Nat × σ)) (qs : List ℚ) (n : Nat)
    (h : pickedProtein bot pep castQ 1 thr gd tag peps feats = some (qs, n))
    (i j : Nat) (fi fj : Nat × σ) (hi : feats[i]? = some fi) (hj : feats[j]? = some fj)
    (hprots : (peps.getD fi.1 default).prots = (peps.getD fj.1 default).prots)
    (hdecoy : (peps.getD fi.1 default).decoy = (peps.getD fj.1 default).decoy) :
    qs[i]? = qs[j]? ∧ (qs[i]?).isSome :=
  picked_protein_same_group bot pep thr gd tag peps feats qs n h i j fi fj hi hj
    (by simp only [Pep.proteinStr, hprots, hdecoy])

/-- A database is canonical at the peptide level when no two entries have the same string and decoy flag
    (what `reorder_peptides` + C08 provide). Then every PSM list over it satisfies `Canon`, the
    hypothesis of `q_antitone`, `passing_count`, `order_invariant`, `model_meets_spec`. -/
theorem canon_of_db (gd : Bool) (peps : List Pep)
    (hdb : ∀ a b, a < peps.length → b < peps.length →
      pepKey gd (peps.getD a default) = pepKey gd (peps.getD b default) →
      (peps.getD a default).decoy = (peps.getD b default).decoy → a = b)
    (feats : List (Nat × σ)) (psms : List (Psm PepKey Nat σ)) (h : pepPsms gd peps feats = some psms) :
    Canon psms := by
  obtain ⟨hlt, rfl⟩ := pepPsms_some gd peps feats psms h
  intro p hp q hq
  obtain ⟨f, hf, rfl⟩ := List.mem_map.mp hp
  obtain ⟨g, hg, rfl⟩ := List.mem_map.mp hq
  simp only
  constructor
  · rintro ⟨hk, hd⟩; exact hdb _ _ (hlt f hf) (hlt g hg) hk hd
  · intro e; rw [e]; exact ⟨rfl, rfl⟩

/-- the same at the protein level: canonical = the protein-group string determines protein list and decoy
    flag (no `;` inside names, no target list that renders like a tagged decoy list) -/
theorem canon_of_db_protein (gd : Bool) (tag : String) (peps : List Pep)
    (hdb : ∀ a b, a < peps.length → b < peps.length →
      (peps.getD a default).proteinStr tag gd = (peps.getD b default).proteinStr tag gd →
      (peps.getD a default).prots = (peps.getD b default).prots ∧
      (peps.getD a default).decoy = (peps.getD b default).decoy)
    (feats : List (Nat × σ)) (psms : List (Psm (List String) String σ))
    (h : protPsms gd tag peps feats = some psms) : Canon psms := by
  obtain ⟨hlt, rfl⟩ := protPsms_some gd tag peps feats psms h
  intro p hp q hq
  obtain ⟨f, hf, rfl⟩ := List.mem_map.mp hp
  obtain ⟨g, hg, rfl⟩ := List.mem_map.mp hq
  simp only
  constructor
  · rintro ⟨hk, hd⟩; simp only [Pep.proteinStr, hk, hd]
  · intro e; exact hdb _ _ (hlt f hf) (hlt g hg) e


/-- non-vacuity: a two-protein database with internal decoys; PSMs 0 and 2 hit the same peptide, PSMs 0 and 1
    different peptides of the same protein group "P1" -/
def exDb : List Pep :=
  [⟨false, [65, 67, 68, 75], [0, 0, 0, 0], none, none, ["P1"]⟩,
   ⟨false, [65, 69, 70, 75], [0, 0, 0, 0], none, none, ["P1"]⟩,
   ⟨true, [65, 68, 67, 75], [0, 0, 0, 0], none, none, ["P1"]⟩,
   ⟨false, [71, 72, 73, 75], [0, 0, 0, 0], none, none, ["P2"]⟩]

def exFeats : List (Nat × Nat) := [(0, 9), (1, 7), (0, 4), (2, 5), (3, 6)]

example : ((pepPsms true exDb exFeats).map (·.map (·.key))) =
    some [exDb[0].str, exDb[1].str, exDb[0].str, exDb[0].str, exDb[3].str] := by decide

example : ((protPsms true "rev_" exDb exFeats).map (·.map (·.ix))) =
    some ["P1", "P1", "P1", "rev_P1", "P2"] := by decide

example : ∃ psms, pepPsms true exDb exFeats = some psms ∧ Canon psms :=
  have h : ∀ a ∈ List.range 4, ∀ b ∈ List.range 4,
      pepKey true (exDb.getD a default) = pepKey true (exDb.getD b default) →
      (exDb.getD a default).decoy = (exDb.getD b default).decoy → a = b := by decide
  ⟨_, rfl, canon_of_db true exDb
    (fun a b ha hb => h a (List.mem_range.mpr ha) b (List.mem_range.mpr hb)) exFeats _ rfl⟩

/-- non-vacuity of `picked_peptide_same_peptide` (and of `no_panic`, `canon_of_db`): over `exDb` the call
    returns, and PSMs 0 and 2 (both of peptide 0, scores 9 and 4) get the same value -/
example : ∃ qs n, pickedPeptide 0 exPep castQ 1 (1/2) true exDb exFeats = some (qs, n) ∧ qs[0]? = qs[2]? := by
  have h : ∀ a ∈ List.range 4, ∀ b ∈ List.range 4,
      pepKey true (exDb.getD a default) = pepKey true (exDb.getD b default) →
      (exDb.getD a default).decoy = (exDb.getD b default).decoy → a = b := by decide
  have hps : pepPsms true exDb exFeats = some (exFeats.map fun f =>
      ⟨pepKey true (exDb.getD f.1 default), (exDb.getD f.1 default).decoy, f.1, f.2⟩) := by
    unfold pepPsms; rw [if_pos (by decide)]
  have hc := canon_of_db true exDb
    (fun a b ha hb => h a (List.mem_range.mpr ha) b (List.mem_range.mpr hb)) exFeats _ hps
  obtain ⟨qs, n, hq⟩ := no_panic 0 exPep (1/2) _ hc _ (List.Perm.refl _)
  have hq' : pickedPeptide 0 exPep castQ 1 (1/2) true exDb exFeats = some (qs, n) := by
    unfold pickedPeptide; rw [hps]; exact hq
  exact ⟨qs, n, hq', (picked_peptide_same_peptide 0 exPep (1/2) true exDb exFeats qs n hq' 0 2 (0, 9) (0, 4)
    rfl rfl rfl).1⟩

/-- non-vacuity of `picked_protein_same_group`: its hypotheses are met by PSMs 0 and 1 of `exFeats`, which
    hit DIFFERENT peptides of the protein group "P1" (same group string), while the generated decoy's string
    differs ("rev_P1"); the PSM list is well-formed. (That the call returns is shown for the peptide level
    above and by the correspondence runs; `no_panic` is stated for a `LinearOrder` on the index type and is
    not instantiated at core `String` here.) -/
example : exFeats[0]? = some (0, 9) ∧ exFeats[1]? = some (1, 7) ∧
    (exDb.getD 0 default).proteinStr "rev_" true = (exDb.getD 1 default).proteinStr "rev_" true ∧
    (exDb.getD 0 default).proteinStr "rev_" true ≠ (exDb.getD 2 default).proteinStr "rev_" true ∧
    (protPsms true "rev_" exDb exFeats).isSome = true := by decide

end dbLevel

end Sage.C13
