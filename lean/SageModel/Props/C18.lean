import SageModel.Model.Select
import SageModel.Model.C18
import SageModel.Lemmas.C18Select
import SageModel.Props.C10
import Mathlib.Algebra.Order.Field.Rat
import Mathlib.Tactic.Linarith
import Mathlib.Tactic.NormNum
import Mathlib.Tactic.Ring

/-!
# C18 — TMT reporter intensities are the most intense peak within 20 ppm of each channel

Property text: *For every spectrum at the configured MS level, each reporter channel's reported value
is the intensity of the most intense peak whose m/z lies within ±20 ppm of that channel's reporter
m/z, or 0 if there is none: one value per channel in plex order, keyed by file and scan identifier (at
MS3, by the precursor's scan reference). Peaks outside every channel window never influence the
result, spectra of other levels produce no row, and with MS2-level quantification the reporter region
is exempt from deisotoping.*

The theorems are about `Sage.Select.select` (model of `select_most_intense_peak`, for every answer of
std's binary search) and `Sage.C18.quantify` / `findReporterIons` / `minDeisotopeMz` (models of
`tmt::quantify`, `find_reporter_ions`, and the `min_deisotope_mz` expression of runner.rs), for peak
lists of every length, every plex (incl. user-defined masses), every level. Order-only theorems are
stated for an arbitrary linear order; arithmetic ones in ℚ (f32 rounding of the window edges — three
roundings, < 1 ulp each — is modelled, not verified: the driver evaluates the m/z-space definition on
the implementation's outputs with a guard band of 2⁻²¹·(label + PROTON) around each edge).

Hypotheses, and what happens outside them:
* peaks sorted by mass (the `ProcessedSpectrum` invariant, established by C10). Unsorted peaks: the
  binary search may miss in-window peaks; nothing is claimed.
* intensities ≥ 0 for the "some ⇔ a peak lies in the window" reading. Without it (`select_spec` has no
  sign hypothesis): `max_int` starts at 0 and the test is `>=`, so a peak of negative intensity is
  never selected (all-negative window ⇒ `None` ⇒ reported value 0), a peak of intensity exactly 0 IS
  selected (value 0 either way), and among equally intense peaks the last (highest mass) wins.
-/

deriving instance DecidableEq for Sage.Select.Peak

namespace Sage.Select
variable {α : Type}

/-! ## helper lemmas -/

theorem foldl_max_of_le [LinearOrder α] (l : List α) (m : α) (h : ∀ x ∈ l, x ≤ m) : l.foldl max m = m := by
  induction l generalizing m with
  | nil => rfl
  | cons x xs ih =>
    simp only [List.foldl_cons]
    have hx : x ≤ m := h x (by simp)
    rw [max_eq_left hx]
    exact ih m (fun y hy => h y (by simp [hy]))

theorem foldl_max_eq [LinearOrder α] (l : List α) (m v : α) (hm : m ≤ v) (hv : v ∈ l) (h : ∀ x ∈ l, x ≤ v) :
    l.foldl max m = v := by
  induction l generalizing m with
  | nil => simp at hv
  | cons x xs ih =>
    simp only [List.foldl_cons]
    have hx : x ≤ v := h x (by simp)
    rcases List.mem_cons.mp hv with rfl | hv'
    · rw [max_eq_right hm]
      exact foldl_max_of_le xs _ (fun y hy => h y (by simp [hy]))
    · exact ih (max m x) (max_le hm hx) hv' (fun y hy => h y (by simp [hy]))

theorem mem_inWindow [LinearOrder α] (peaks : List (Peak α)) (lo hi : α) (p : Peak α) :
    p ∈ inWindow peaks lo hi ↔ p ∈ peaks ∧ lo ≤ p.mass ∧ p.mass ≤ hi := by
  simp [inWindow, inWin]

/-- the reported value (`peak.map(|p| p.intensity).unwrap_or_default()`) of the linear scan is the
    maximum of 0 and the in-window intensities — no sign hypothesis -/
theorem scan_value [LinearOrder α] [OfNat α 0] (peaks : List (Peak α)) (lo hi : α) :
    intensityOr0 (scan peaks lo hi) = ((inWindow peaks lo hi).map (·.intensity)).foldl max 0 := by
  rcases scan_spec peaks lo hi with ⟨h1, h2⟩ | ⟨p, h1, h2, h3, W1, W2, h5, _⟩
  · rw [h1]
    simp only [intensityOr0]
    rw [foldl_max_of_le]
    intro x hx
    obtain ⟨q, hq, rfl⟩ := List.mem_map.mp hx
    exact le_of_lt (h2 q hq)
  · rw [h1]
    simp only [intensityOr0]
    rw [foldl_max_eq _ _ p.intensity h2]
    · exact List.mem_map.mpr ⟨p, by rw [h5]; simp, rfl⟩
    · intro x hx
      obtain ⟨q, hq, rfl⟩ := List.mem_map.mp hx
      exact h3 q hq

theorem pairwise_forall {β : Type} {R : β → β → Prop} (l : List β) (h : l.Pairwise R) :
    ∀ a ∈ l, ∀ b ∈ l, a = b ∨ R a b ∨ R b a := by
  induction l with
  | nil => simp
  | cons x xs ih =>
    have hp := List.pairwise_cons.mp h
    intro a ha b hb
    rcases List.mem_cons.mp ha with rfl | ha' <;> rcases List.mem_cons.mp hb with rfl | hb'
    · left; rfl
    · right; left; exact hp.1 b hb'
    · right; right; exact hp.1 a ha'
    · exact ih hp.2 a ha' b hb'

end Sage.Select

namespace Sage.C18
open Sage.Select

/-! ## helper lemmas (quantify) -/

theorem filterMap_some_eq_map {β γ : Type} (f : β → γ) (l : List β) :
    l.filterMap (fun x => some (f x)) = l.map f := by
  induction l with
  | nil => rfl
  | cons x xs ih => simp [ih]

theorem specIdOf_of_ne_one {α : Type} (level : Nat) (s : Spectrum α) (h : level ≠ 1) :
    specIdOf level s = some (if level = 2 then s.id else firstRef s) := by
  match level, h with
  | 0, _ => rfl
  | 2, _ => rfl
  | n + 3, _ => simp [specIdOf]

/-- `quantify` written without `filter_map`: nothing at level 1, else one row per spectrum of the level -/
theorem quantify_rows {α : Type} [LinearOrder α] [Add α] [Mul α] [Div α] [Neg α]
    [OfNat α 1000000] [OfNat α 100] [OfNat α 0]
    (proton : α) (spectra : List (Spectrum α)) (labels : List α) (tol : Tol α) (level : Nat) :
    quantify proton spectra labels tol level =
      if level = 1 then [] else
      (spectra.filter (fun s => s.level == level)).map fun s =>
        { specId := if level = 2 then s.id else firstRef s, fileId := s.fileId, injTime := s.injTime,
          peaks := labels.map fun label => intensityOr0 (select s.peaks label tol (some (-proton))) } := by
  unfold quantify
  by_cases h : level = 1
  · subst h
    simp [specIdOf]
  · simp only [h, ↓reduceIte, specIdOf_of_ne_one _ _ h]
    rw [filterMap_some_eq_map]
    simp [findReporterIons, List.map_map, Function.comp_def]

/-- **C18.rows_shape** — the shape of the reporter table, for every number type, plex (any label list),
tolerance and spectrum list: no row at level 1, otherwise exactly one row per spectrum of the configured level;
every row carries exactly one value per channel (`labels.length`, in plex order by `quantify_rows`); and a run
whose spectra are all of other levels produces no row at all. -/
theorem rows_shape {α : Type} [LinearOrder α] [Add α] [Mul α] [Div α] [Neg α]
    [OfNat α 1000000] [OfNat α 100] [OfNat α 0]
    (proton : α) (spectra : List (Spectrum α)) (labels : List α) (tol : Tol α) (level : Nat) :
    (quantify proton spectra labels tol level).length =
      (if level = 1 then 0 else (spectra.filter (fun s => s.level == level)).length) ∧
    (∀ r ∈ quantify proton spectra labels tol level, r.peaks.length = labels.length) ∧
    ((∀ s ∈ spectra, s.level ≠ level) → quantify proton spectra labels tol level = []) := by
  rw [quantify_rows]
  refine ⟨?_, ?_, ?_⟩
  · split <;> simp
  · intro r hr
    split at hr
    · simp at hr
    · simp only [List.mem_map] at hr
      obtain ⟨s, _, rfl⟩ := hr
      simp
  · intro h
    have : spectra.filter (fun s => s.level == level) = [] := by
      rw [List.filter_eq_nil_iff]
      intro s hs
      simpa using h s hs
    split
    · rfl
    · rw [this]; rfl

/-- the window of a channel in mass space, as `find_reporter_ions` computes it -/
def chanWindow {α : Type} [Add α] [Mul α] [Div α] [Neg α] [OfNat α 1000000] [OfNat α 100] [OfNat α 0]
    (proton : α) (tol : Tol α) (label : α) : α × α :=
  window label tol (some (-proton))

/-- the peak lies in the window of at least one channel -/
def inSomeWindow {α : Type} [LE α] [DecidableLE α] [Add α] [Mul α] [Div α] [Neg α]
    [OfNat α 1000000] [OfNat α 100] [OfNat α 0]
    (proton : α) (tol : Tol α) (labels : List α) (p : Peak α) : Bool :=
  labels.any fun label => inWin (chanWindow proton tol label).1 (chanWindow proton tol label).2 p

theorem pairwise_filter {β : Type} {R : β → β → Prop} (p : β → Bool) (l : List β) (h : l.Pairwise R) :
    (l.filter p).Pairwise R := h.sublist List.filter_sublist

theorem inMzWindow_iff (lo hi label mz : ℚ) :
    inMzWindow lo hi label mz = true ↔ label * (1 + lo / 1000000) ≤ mz ∧ mz ≤ label * (1 + hi / 1000000) := by
  simp [inMzWindow]

theorem window_ppm (P label lo hi : ℚ) :
    window label (.ppm lo hi) (some (-P)) =
      (label + label * lo / 1000000 + -P, label + label * hi / 1000000 + -P) := by
  simp [window, Tol.bounds]

/-! ## property theorems -/

/-- **C18.select_spec** — `select_most_intense_peak` on peaks sorted by mass, for EVERY answer of std's
    two binary searches (`rLo ≤ len`, `rHi` arbitrary), with `W` = the peaks of the whole list lying in
    the closed window `[lo, hi]`:
    either it returns `None` and every peak of `W` has intensity `< 0` (so with intensities ≥ 0: `W` is empty),
    or it returns `Some p` where `p ∈ W` (a peak of the list, inside the window), `p.intensity ≥ 0`,
    no peak of `W` is more intense, and every peak of `W` after `p` is strictly less intense
    (ties go to the last, i.e. highest-mass, peak). No hypothesis on the sign of intensities. -/
theorem select_spec {α : Type} [LinearOrder α] [OfNat α 0] (peaks : List (Peak α)) (lo hi : α) (rLo rHi : Nat)
    (hs : peaks.Pairwise (fun a b => a.mass ≤ b.mass)) (hr : rLo ≤ peaks.length) :
    (selectCore peaks lo hi rLo rHi = none ∧ ∀ q ∈ inWindow peaks lo hi, q.intensity < 0) ∨
    (∃ p, selectCore peaks lo hi rLo rHi = some p ∧
      (p ∈ peaks ∧ lo ≤ p.mass ∧ p.mass ≤ hi) ∧ (0 : α) ≤ p.intensity ∧
      (∀ q ∈ inWindow peaks lo hi, q.intensity ≤ p.intensity) ∧
      ∃ W1 W2, inWindow peaks lo hi = W1 ++ p :: W2 ∧ ∀ q ∈ W2, q.intensity < p.intensity) := by
  rw [selectCore_eq_scan peaks lo hi rLo rHi hs hr]
  rcases scan_spec peaks lo hi with h | ⟨p, h1, h2, h3, W1, W2, h5, h6⟩
  · left; exact h
  · right
    refine ⟨p, h1, ?_, h2, h3, W1, W2, h5, h6⟩
    exact (mem_inWindow peaks lo hi p).mp (by rw [h5]; simp)

/-- non-vacuity: three peaks in the window `[10, 12]`, the two most intense tied — the later one wins;
    the answers `rLo = 4`, `rHi = 0` of the binary searches are deliberately useless -/
example : selectCore (α := Int) [⟨9, 50⟩, ⟨10, 7⟩, ⟨11, 7⟩, ⟨12, 3⟩, ⟨13, 99⟩] 10 12 4 0 = some ⟨11, 7⟩ := by decide

/-- **C18.select_some_iff** — with non-negative intensities: a peak is returned iff some peak lies in the window -/
theorem select_some_iff {α : Type} [LinearOrder α] [OfNat α 0] (peaks : List (Peak α)) (lo hi : α) (rLo rHi : Nat)
    (hs : peaks.Pairwise (fun a b => a.mass ≤ b.mass)) (hr : rLo ≤ peaks.length)
    (hpos : ∀ q ∈ peaks, (0 : α) ≤ q.intensity) :
    (selectCore peaks lo hi rLo rHi).isSome = true ↔ ∃ q ∈ peaks, lo ≤ q.mass ∧ q.mass ≤ hi := by
  rcases select_spec peaks lo hi rLo rHi hs hr with ⟨h1, h2⟩ | ⟨p, h1, h2, _⟩
  · rw [h1]
    simp only [Option.isSome_none, Bool.false_eq_true, false_iff, not_exists, not_and]
    intro q hq hlo hhi
    have := h2 q ((mem_inWindow peaks lo hi q).mpr ⟨hq, hlo, hhi⟩)
    exact absurd (hpos q hq) (not_le.mpr this)
  · rw [h1]
    simp only [Option.isSome_some, true_iff]
    exact ⟨p, h2⟩

/-- what happens with a negative intensity: the only in-window peak is not returned -/
example : selectCore (α := Int) [⟨10, -1⟩] 9 11 1 0 = none := by decide
/-- … and a zero-intensity peak is returned -/
example : selectCore (α := Int) [⟨10, 0⟩] 9 11 1 0 = some ⟨10, 0⟩ := by decide

/-- **C18.select_exec** — the executable `select` (std's binary search loop plugged in, window from
    `Tolerance::bounds` plus offset) is the linear scan over the window it computes -/
theorem select_exec {α : Type} [LinearOrder α] [Add α] [Mul α] [Div α] [OfNat α 1000000] [OfNat α 100] [OfNat α 0]
    (peaks : List (Peak α)) (center : α) (tol : Tol α) (offset : Option α)
    (hs : peaks.Pairwise (fun a b => a.mass ≤ b.mass)) :
    select peaks center tol offset =
      scan peaks (window center tol offset).1 (window center tol offset).2 := by
  unfold select
  exact selectIn_eq_scan peaks _ _ hs

/-- **C18.window_in_mz_space** — the mass-space window of `find_reporter_ions`
    (`Tolerance::Ppm(lo, hi).bounds(label)` shifted by `-PROTON`) applied to a stored peak
    (`mass = mz − PROTON`) is the ppm window around the label in m/z space. For `lo = −20`, `hi = 20`:
    `label·(1 − 20·10⁻⁶) ≤ mz ≤ label·(1 + 20·10⁻⁶)`. Exact in ℚ. -/
theorem window_in_mz_space (P label lo hi mz i : ℚ) :
    inWin (chanWindow P (.ppm lo hi) label).1 (chanWindow P (.ppm lo hi) label).2 ⟨mz - P, i⟩ = true ↔
      label * (1 + lo / 1000000) ≤ mz ∧ mz ≤ label * (1 + hi / 1000000) := by
  unfold chanWindow
  rw [window_ppm]
  simp only [inWin, Bool.and_eq_true, decide_eq_true_eq]
  constructor
  · rintro ⟨h1, h2⟩; constructor <;> linarith
  · rintro ⟨h1, h2⟩; constructor <;> linarith

/-- non-vacuity: TMT channel 126 (126.127726), a peak 10 ppm above is inside, one 30 ppm above is not -/
example : inWin (chanWindow Sage.Gen.PROTON (.ppm (-20) 20) (126127726/1000000 : ℚ)).1
    (chanWindow Sage.Gen.PROTON (.ppm (-20) 20) (126127726/1000000 : ℚ)).2
    ⟨126127726/1000000 * (1 + 10/1000000) - Sage.Gen.PROTON, 1⟩ = true := by
  rw [window_in_mz_space]; norm_num
example : ¬ inWin (chanWindow Sage.Gen.PROTON (.ppm (-20) 20) (126127726/1000000 : ℚ)).1
    (chanWindow Sage.Gen.PROTON (.ppm (-20) 20) (126127726/1000000 : ℚ)).2
    ⟨126127726/1000000 * (1 + 30/1000000) - Sage.Gen.PROTON, 1⟩ = true := by
  rw [window_in_mz_space]; norm_num

/-- per channel: the reported value is the definition (max intensity over the peaks whose m/z is within
    the ppm window of the label, 0 if none) -/
theorem channel_value_spec (P lo hi : ℚ) (peaks : List (Peak ℚ)) (label : ℚ)
    (hs : peaks.Pairwise (fun a b => a.mass ≤ b.mass)) :
    intensityOr0 (select peaks label (.ppm lo hi) (some (-P))) = channelSpec P lo hi peaks label := by
  rw [select_exec peaks label _ _ hs]
  rw [scan_value]
  unfold channelSpec maxIntensity inWindow
  congr 2
  apply List.filter_congr
  intro p _
  have := window_in_mz_space P label lo hi (p.mass + P) p.intensity
  unfold chanWindow at this
  rw [Bool.eq_iff_iff, inMzWindow_iff, ← this]
  simp

/-- **C18.reporter_spec** — for every list of spectra whose peak lists are sorted by mass, every label
    list (any plex, incl. user-defined), every ppm tolerance (the runner passes −20, 20) and every level,
    `tmt::quantify` returns exactly the definition `quantifySpec`:
    * no row at all for level 1; otherwise one row per spectrum whose level equals the requested one,
      in input order, and none for spectra of other levels;
    * the row's key is the spectrum's own id at level 2 and the FIRST precursor's `spectrum_ref` at any
      other level (empty string when there is no precursor or it has no `spectrum_ref`), with the
      spectrum's file id and ion-injection time;
    * one value per label, in label order, each = the maximum intensity over the peaks whose m/z
      (= stored mass + PROTON) lies in `[label·(1+lo·10⁻⁶), label·(1+hi·10⁻⁶)]`, 0 if there is none
      (intensities ≥ 0; a negative intensity counts as absent). -/
theorem reporter_spec (P lo hi : ℚ) (spectra : List (Spectrum ℚ)) (labels : List ℚ) (level : Nat)
    (hs : ∀ s ∈ spectra, s.peaks.Pairwise (fun a b => a.mass ≤ b.mass)) :
    quantify P spectra labels (.ppm lo hi) level = quantifySpec P lo hi spectra labels level := by
  rw [quantify_rows]
  unfold quantifySpec keySpec
  split
  · rfl
  · apply List.map_congr_left
    intro s hsm
    have hsp := hs s (List.mem_filter.mp hsm).1
    congr 1
    apply List.map_congr_left
    intro label _
    exact channel_value_spec P lo hi s.peaks label hsp

/-- non-vacuity: a two-channel user plex (126, 127), an MS2 and an MS3 spectrum, quantified at level 3:
    one row, keyed by the precursor's reference, values 5 (two peaks in the window, the larger) and 0 -/
example :
    (quantify (1 : ℚ)
      [ { level := 2, id := "ms2", fileId := 0, injTime := 1, precursors := [], peaks := [⟨125, 9⟩] },
        { level := 3, id := "ms3", fileId := 4, injTime := 2, precursors := [some "ms2", some "x"],
          peaks := [⟨124, 8⟩, ⟨1249999/10000, 3⟩, ⟨125, 5⟩, ⟨1255/10, 7⟩] } ]
      [126, 127] (.ppm (-20) 20) 3).map (fun r => (r.specId, r.fileId, r.peaks)) = [("ms2", 4, [5, 0])] := by
  rw [reporter_spec _ _ _ _ _ _ (by
    intro s hs
    simp only [List.mem_cons, List.not_mem_nil, or_false] at hs
    rcases hs with rfl | rfl <;> norm_num [List.pairwise_cons])]
  simp [quantifySpec, keySpec, firstRef, channelSpec, maxIntensity, inMzWindow]
  norm_num

/-- **C18.outside_irrelevant** — peaks outside every channel window never influence the result:
    removing them from every spectrum leaves `quantify` unchanged (any linear order, any tolerance kind). -/
theorem outside_irrelevant {α : Type} [LinearOrder α] [Add α] [Mul α] [Div α] [Neg α]
    [OfNat α 1000000] [OfNat α 100] [OfNat α 0]
    (proton : α) (spectra : List (Spectrum α)) (labels : List α) (tol : Tol α) (level : Nat)
    (hs : ∀ s ∈ spectra, s.peaks.Pairwise (fun a b => a.mass ≤ b.mass)) :
    quantify proton (spectra.map fun s => { s with peaks := s.peaks.filter (inSomeWindow proton tol labels) })
        labels tol level
      = quantify proton spectra labels tol level := by
  rw [quantify_rows, quantify_rows]
  split
  · rfl
  · rw [List.filter_map, List.map_map]
    apply List.map_congr_left
    intro s hsm
    have hsm' : s ∈ spectra := by
      have := (List.mem_filter.mp hsm).1
      exact this
    have hsp := hs s hsm'
    simp only [Function.comp_apply]
    congr 1
    apply List.map_congr_left
    intro label hl
    rw [select_exec _ _ _ _ (pairwise_filter _ _ hsp), select_exec _ _ _ _ hsp]
    unfold scan
    rw [List.filter_filter]
    congr 3
    apply List.filter_congr
    intro p _
    have : inWin (window label tol (some (-proton))).1 (window label tol (some (-proton))).2 p = true →
        inSomeWindow proton tol labels p = true := by
      intro h
      unfold inSomeWindow chanWindow
      exact List.any_eq_true.mpr ⟨label, hl, h⟩
    cases h1 : inWin (window label tol (some (-proton))).1 (window label tol (some (-proton))).2 p
    · simp
    · simp [this h1]

/-- non-vacuity: the out-of-window peaks (mass 100 and 130) are dropped by the filter, the result is the same -/
example : (([⟨100, 9⟩, ⟨125, 5⟩, ⟨130, 9⟩] : List (Peak ℚ)).filter
    (inSomeWindow (1 : ℚ) (.ppm (-20) 20) [126])) = [⟨125, 5⟩] := by
  norm_num [List.filter, inSomeWindow, chanWindow, window, Tol.bounds, inWin]

/-! ### neighbouring channels, reporter region (finite tables, re-checked against the regenerated tables) -/

/-- all pairs of a table: the upper edge (+20 ppm) of the earlier channel lies strictly below the lower
    edge (−20 ppm) of the later one (in particular the table is strictly increasing) -/
def windowsDisjoint : List ℚ → Bool
  | [] => true
  | a :: rest =>
    rest.all (fun b => decide (a * (1 + 20 / 1000000) < b * (1 + (-20) / 1000000))) && windowsDisjoint rest

theorem windowsDisjoint_pairwise (l : List ℚ) (h : windowsDisjoint l = true) :
    l.Pairwise (fun a b => a * (1 + 20 / 1000000) < b * (1 + (-20) / 1000000)) := by
  induction l with
  | nil => exact List.Pairwise.nil
  | cons a rest ih =>
    simp only [windowsDisjoint, Bool.and_eq_true, List.all_eq_true, decide_eq_true_eq] at h
    exact List.pairwise_cons.mpr ⟨h.1, ih h.2⟩

/-- **C18.tables_disjoint** — for each of the five built-in plexes (tables regenerated from tmt.rs, plex →
    slice mapping tied by `tmtconsts`), the ±20 ppm windows of any two channels are disjoint -/
theorem tables_disjoint (plex : Plex ℚ) (hb : plex.builtin = true) :
    windowsDisjoint (reporterMasses tablesQ plex) = true := by
  cases plex with
  | user l => simp [Plex.builtin] at hb
  | tmt6 => decide +kernel
  | tmt10 => decide +kernel
  | tmt11 => decide +kernel
  | tmt16 => decide +kernel
  | tmt18 => decide +kernel

/-- **C18.channels_disjoint** — a peak feeds at most one channel: if an m/z lies within ±20 ppm of two
    reporter masses of a built-in plex, they are the same channel (127N/127C … 6 mDa apart included) -/
theorem channels_disjoint (plex : Plex ℚ) (hb : plex.builtin = true) (a b mz : ℚ)
    (ha : a ∈ reporterMasses tablesQ plex) (hb' : b ∈ reporterMasses tablesQ plex)
    (h1 : inMzWindow (-20) 20 a mz = true) (h2 : inMzWindow (-20) 20 b mz = true) : a = b := by
  have hp := windowsDisjoint_pairwise _ (tables_disjoint plex hb)
  rw [inMzWindow_iff] at h1 h2
  rcases pairwise_forall _ hp a ha b hb' with h | h | h
  · exact h
  · exfalso; linarith [h1.1, h1.2, h2.1, h2.2]
  · exfalso; linarith [h1.1, h1.2, h2.1, h2.2]

/-- non-vacuity: 127N and 127C of the 11-plex are 6.32 mDa apart; their windows (±2.54 mDa) do not meet -/
example : (16662497 / 131072 : ℚ) ∈ reporterMasses tablesQ .tmt11 ∧ (16663325 / 131072 : ℚ) ∈ reporterMasses tablesQ .tmt11 ∧
    (16662497 / 131072 : ℚ) * (1 + 20 / 1000000) < 16663325 / 131072 * (1 + (-20) / 1000000) := by
  refine ⟨by decide +kernel, by decide +kernel, by norm_num⟩

/-- a user-defined plex may have overlapping windows: then one peak feeds both channels (no claim) -/
example : inMzWindow (-20) 20 100 (100001 / 1000) = true ∧ inMzWindow (-20) 20 (100002 / 1000) (100001 / 1000) = true := by
  constructor <;> (rw [inMzWindow_iff]; norm_num)

/-- strict version of `protectedOk` used for the tables -/
def protectedStrict (labels : List ℚ) : Bool :=
  match minDeisotopeMz labels 2 guardFactorQ with
  | none => false
  | some m => labels.all (fun l => decide (l * (1 + 20 / 1000000) < m))

theorem protectedStrict_iff (labels : List ℚ) (h : protectedStrict labels = true) :
    ∃ m, minDeisotopeMz labels 2 guardFactorQ = some m ∧ ∀ l ∈ labels, l * (1 + 20 / 1000000) < m := by
  unfold protectedStrict at h
  cases hm : minDeisotopeMz labels 2 guardFactorQ with
  | none => rw [hm] at h; cases h
  | some m =>
    rw [hm] at h
    simp only [List.all_eq_true, decide_eq_true_eq] at h
    exact ⟨m, rfl, h⟩

/-- **C18.reporter_region_protected** — with MS2-level quantification and a built-in plex,
    `min_deisotope_mz = heaviest reporter mass × f32(1.0 + 20E-6)` exists and lies strictly above the upper
    edge (+20 ppm) of EVERY channel window, so no peak inside a reporter window satisfies the deisotoper's
    `mz >= min_mz` test (C10 `protected_region` then says such peaks are neither merged nor removed). -/
theorem reporter_region_protected (plex : Plex ℚ) (hb : plex.builtin = true) :
    ∃ m, minDeisotopeMz (reporterMasses tablesQ plex) 2 guardFactorQ = some m ∧
      ∀ l ∈ reporterMasses tablesQ plex, l * (1 + 20 / 1000000) < m := by
  apply protectedStrict_iff
  cases plex with
  | user l => simp [Plex.builtin] at hb
  | tmt6 => decide +kernel
  | tmt10 => decide +kernel
  | tmt11 => decide +kernel
  | tmt16 => decide +kernel
  | tmt18 => decide +kernel

theorem foldl_fmax_spec (xs : List ℚ) (x : ℚ) :
    (xs.foldl fmax x = x ∨ xs.foldl fmax x ∈ xs) ∧ x ≤ xs.foldl fmax x ∧ ∀ l ∈ xs, l ≤ xs.foldl fmax x := by
  induction xs generalizing x with
  | nil => simp
  | cons y ys ih =>
    simp only [List.foldl_cons]
    obtain ⟨h1, h2, h3⟩ := ih (fmax x y)
    have hx : x ≤ fmax x y := by unfold fmax; split <;> [exact le_of_lt ‹_›; exact le_refl _]
    have hy : y ≤ fmax x y := by unfold fmax; split <;> [exact le_refl _; exact not_lt.mp ‹_›]
    refine ⟨?_, le_trans hx h2, ?_⟩
    · rcases h1 with h | h
      · rw [h]; unfold fmax; split
        · right; simp
        · left; rfl
      · right; exact List.mem_cons_of_mem _ h
    · intro l hl
      rcases List.mem_cons.mp hl with rfl | hl'
      · exact le_trans hy h2
      · exact h3 l hl'

/-- `reduce(f32::max)` returns the largest element of a non-empty list -/
theorem maxOf_spec (labels : List ℚ) (hne : labels ≠ []) :
    ∃ M, maxOf labels = some M ∧ M ∈ labels ∧ ∀ l ∈ labels, l ≤ M := by
  cases labels with
  | nil => exact absurd rfl hne
  | cons x xs =>
    obtain ⟨h1, h2, h3⟩ := foldl_fmax_spec xs x
    refine ⟨xs.foldl fmax x, rfl, ?_, ?_⟩
    · rcases h1 with h | h
      · rw [h]; simp
      · exact List.mem_cons_of_mem _ h
    · intro l hl
      rcases List.mem_cons.mp hl with rfl | hl'
      · exact h2
      · exact h3 l hl'

/-- **C18.reporter_region_protected_user** — the same for EVERY user-defined plex that contains a positive
    mass, in whatever order the masses are listed (after fix e4ac756 the guard uses the heaviest reporter):
    `min_deisotope_mz = max mass × f32(1.0 + 20E-6)` lies strictly above every window's upper edge -/
theorem reporter_region_protected_user (labels : List ℚ) (hpos : ∃ l ∈ labels, 0 < l) :
    ∃ m, minDeisotopeMz labels 2 guardFactorQ = some m ∧ ∀ l ∈ labels, l * (1 + 20 / 1000000) < m := by
  obtain ⟨l0, hl0, hl0pos⟩ := hpos
  obtain ⟨M, hM, _, hmax⟩ := maxOf_spec labels (List.ne_nil_of_mem hl0)
  have hMpos : 0 < M := lt_of_lt_of_le hl0pos (hmax l0 hl0)
  refine ⟨M * guardFactorQ, by simp [minDeisotopeMz, hM], ?_⟩
  intro l hl
  have h1 := hmax l hl
  have h2 : M * (1 + 20 / 1000000) < M * guardFactorQ := by
    apply mul_lt_mul_of_pos_left _ hMpos
    norm_num [guardFactorQ]
  have h3 : l * (1 + 20 / 1000000) ≤ M * (1 + 20 / 1000000) := by
    apply mul_le_mul_of_nonneg_right h1
    norm_num
  linarith

/-- non-vacuity, and the former finding (before e4ac756 `.last()` gave 126·f, below the whole 131 window):
    for the unsorted `User([131, 126])` the guard is now 131·f32(1.0 + 20E-6), above both windows -/
example : minDeisotopeMz ([131, 126] : List ℚ) 2 guardFactorQ = some (131 * guardFactorQ) ∧
    (131 : ℚ) * (1 + 20 / 1000000) < 131 * guardFactorQ ∧ (126 : ℚ) * (1 + 20 / 1000000) < 131 * guardFactorQ := by
  refine ⟨by norm_num [minDeisotopeMz, maxOf, fmax], ?_, ?_⟩ <;> norm_num [guardFactorQ]

example : ∃ m, minDeisotopeMz ([131, 126] : List ℚ) 2 guardFactorQ = some m ∧
    ∀ l ∈ ([131, 126] : List ℚ), l * (1 + 20 / 1000000) < m :=
  reporter_region_protected_user _ ⟨131, by simp, by norm_num⟩

/-- **C18.no_guard_other_levels** — at any level other than 2 there is no `min_deisotope_mz`
    (the processor gets `0.0`: deisotoping everywhere) -/
theorem no_guard_other_levels (labels : List ℚ) (level : Nat) (h : level ≠ 2) (f : ℚ) :
    minDeisotopeMz labels level f = none := by
  unfold minDeisotopeMz
  split
  · exact absurd rfl h
  · rfl

example : minDeisotopeMz ([126, 131] : List ℚ) 3 guardFactorQ = none := no_guard_other_levels _ 3 (by decide) _

/-! ### the executable checker accepts the model's output and is exact without guard band -/

theorem foldl_max_ge_init (l : List ℚ) (m : ℚ) : m ≤ l.foldl max m := by
  induction l generalizing m with
  | nil => exact le_refl _
  | cons x xs ih => exact le_trans (le_max_left m x) (ih (max m x))

theorem foldl_max_ge_mem (l : List ℚ) (m x : ℚ) (hx : x ∈ l) : x ≤ l.foldl max m := by
  induction l generalizing m with
  | nil => simp at hx
  | cons y ys ih =>
    simp only [List.foldl_cons]
    rcases List.mem_cons.mp hx with rfl | h
    · exact le_trans (le_max_right m x) (foldl_max_ge_init ys _)
    · exact ih _ h

theorem foldl_max_mem (l : List ℚ) (m : ℚ) : l.foldl max m = m ∨ l.foldl max m ∈ l := by
  induction l generalizing m with
  | nil => left; rfl
  | cons y ys ih =>
    simp only [List.foldl_cons]
    rcases ih (max m y) with h | h
    · rw [h]
      rcases max_choice m y with h' | h'
      · left; exact h'
      · right; rw [h']; simp
    · right; exact List.mem_cons_of_mem _ h

theorem maxIntensity_le_iff (l : List ℚ) (v : ℚ) : maxIntensity l ≤ v ↔ 0 ≤ v ∧ ∀ x ∈ l, x ≤ v := by
  unfold maxIntensity
  constructor
  · intro h
    exact ⟨le_trans (foldl_max_ge_init l 0) h, fun x hx => le_trans (foldl_max_ge_mem l 0 x hx) h⟩
  · rintro ⟨h0, h⟩
    rcases foldl_max_mem l 0 with e | e
    · rw [e]; exact h0
    · exact h _ e

theorem mem_intensitiesIn (P : ℚ) (peaks : List (Peak ℚ)) (e : ℚ × ℚ) (x : ℚ) :
    x ∈ intensitiesIn P peaks e ↔ ∃ p ∈ peaks, (e.1 ≤ p.mass + P ∧ p.mass + P ≤ e.2) ∧ p.intensity = x := by
  simp [intensitiesIn, and_assoc]

theorem channelSpec_eq (P lo hi : ℚ) (peaks : List (Peak ℚ)) (label : ℚ) :
    channelSpec P lo hi peaks label = maxIntensity (intensitiesIn P peaks (edgesG lo hi label 0)) := by
  unfold channelSpec intensitiesIn edgesG inMzWindow
  simp

/-- **C18.channelOk_exact** — without guard band the checker applied to the implementation's value is
    exactly the definition: it accepts `v` iff `v` is the most intense in-window intensity (0 if none) -/
theorem channelOk_exact (P lo hi : ℚ) (peaks : List (Peak ℚ)) (label v : ℚ) :
    channelOk P lo hi 0 peaks label v = true ↔ v = channelSpec P lo hi peaks label := by
  rw [channelSpec_eq]
  unfold channelOk
  simp only [neg_zero, Bool.and_eq_true, decide_eq_true_eq, Bool.or_eq_true, beq_iff_eq, List.contains_eq_mem]
  constructor
  · rintro ⟨⟨h1, h2⟩, _⟩
    exact le_antisymm h2 h1
  · intro h
    subst h
    refine ⟨⟨le_refl _, le_refl _⟩, ?_⟩
    rcases foldl_max_mem (intensitiesIn P peaks (edgesG lo hi label 0)) 0 with e | e
    · left; exact e
    · right; exact e

/-- the model's value passes the checker for every non-negative guard band -/
theorem channelOk_model (P lo hi g : ℚ) (hg : 0 ≤ g) (peaks : List (Peak ℚ)) (label : ℚ) :
    channelOk P lo hi g peaks label (channelSpec P lo hi peaks label) = true := by
  rw [channelSpec_eq]
  unfold channelOk
  simp only [Bool.and_eq_true, decide_eq_true_eq, Bool.or_eq_true, beq_iff_eq, List.contains_eq_mem]
  have sub1 : ∀ x ∈ intensitiesIn P peaks (edgesG lo hi label g), x ∈ intensitiesIn P peaks (edgesG lo hi label 0) := by
    intro x hx
    rw [mem_intensitiesIn] at hx ⊢
    obtain ⟨p, hp, ⟨h1, h2⟩, h3⟩ := hx
    refine ⟨p, hp, ⟨?_, ?_⟩, h3⟩ <;> simp only [edgesG] at h1 h2 ⊢ <;> linarith
  have sub2 : ∀ x ∈ intensitiesIn P peaks (edgesG lo hi label 0), x ∈ intensitiesIn P peaks (edgesG lo hi label (-g)) := by
    intro x hx
    rw [mem_intensitiesIn] at hx ⊢
    obtain ⟨p, hp, ⟨h1, h2⟩, h3⟩ := hx
    refine ⟨p, hp, ⟨?_, ?_⟩, h3⟩ <;> simp only [edgesG] at h1 h2 ⊢ <;> linarith
  refine ⟨⟨?_, ?_⟩, ?_⟩
  · rw [maxIntensity_le_iff]
    exact ⟨foldl_max_ge_init _ 0, fun x hx => foldl_max_ge_mem _ 0 x (sub1 x hx)⟩
  · rw [maxIntensity_le_iff]
    exact ⟨foldl_max_ge_init _ 0, fun x hx => foldl_max_ge_mem _ 0 x (sub2 x hx)⟩
  · rcases foldl_max_mem (intensitiesIn P peaks (edgesG lo hi label 0)) 0 with e | e
    · left; exact e
    · right; exact sub2 _ e

theorem channelsOk_model (P lo hi : ℚ) (guard : ℚ → ℚ) (hg : ∀ l, 0 ≤ guard l) (peaks : List (Peak ℚ)) (labels : List ℚ) :
    channelsOk P lo hi guard peaks labels (labels.map (channelSpec P lo hi peaks)) = true := by
  induction labels with
  | nil => rfl
  | cons l ls ih =>
    simp only [List.map_cons, channelsOk, Bool.and_eq_true]
    exact ⟨channelOk_model P lo hi (guard l) (hg l) peaks l, ih⟩

theorem matchRows_map {β γ : Type} (ok : β → γ → Bool) (f : β → γ) (l : List β) (h : ∀ s ∈ l, ok s (f s) = true) :
    matchRows ok l (l.map f) = true := by
  induction l with
  | nil => rfl
  | cons s ss ih =>
    simp only [List.map_cons, matchRows, removeFirst, h s (by simp), ↓reduceIte]
    exact ih (fun t ht => h t (by simp [ht]))

/-- **C18.model_meets_spec** — the executable checker the driver applies to the implementation's rows
    accepts the model's rows, for every input with mass-sorted peaks and every non-negative guard band
    (so a rejection is about the implementation, not about the checker) -/
theorem model_meets_spec (P lo hi : ℚ) (guard : ℚ → ℚ) (hg : ∀ l, 0 ≤ guard l)
    (spectra : List (Spectrum ℚ)) (labels : List ℚ) (level : Nat)
    (hs : ∀ s ∈ spectra, s.peaks.Pairwise (fun a b => a.mass ≤ b.mass)) :
    specOk P lo hi guard spectra labels level (quantify P spectra labels (.ppm lo hi) level) = true := by
  rw [reporter_spec P lo hi spectra labels level hs]
  unfold specOk quantifySpec
  split
  · rfl
  · apply matchRows_map
    intro s _
    simp only [rowOk, beq_self_eq_true, Bool.true_and]
    exact channelsOk_model P lo hi guard hg s.peaks labels

theorem guardOf_nonneg (P : ℚ) (hP : 0 ≤ P) (l : ℚ) : 0 ≤ guardOf P l := by
  unfold guardOf
  split <;> (apply div_nonneg <;> linarith)

/-- the instance the driver uses: PROTON from mass.rs, guard band `2⁻²¹·(|label| + PROTON)` -/
theorem model_meets_spec_driver (lo hi : ℚ) (spectra : List (Spectrum ℚ)) (labels : List ℚ) (level : Nat)
    (hs : ∀ s ∈ spectra, s.peaks.Pairwise (fun a b => a.mass ≤ b.mass)) :
    specOk Sage.Gen.PROTON lo hi (guardOf Sage.Gen.PROTON) spectra labels level
      (quantify Sage.Gen.PROTON spectra labels (.ppm lo hi) level) = true :=
  model_meets_spec _ lo hi _ (guardOf_nonneg _ (by norm_num [Sage.Gen.PROTON])) spectra labels level hs

/-- non-vacuity of the checker: a wrong value (3 instead of the maximum 5) is rejected, the right one accepted -/
example : channelOk 1 (-20) 20 0 [⟨1249999/10000, 3⟩, ⟨125, 5⟩] 126 3 = false ∧
    channelOk 1 (-20) 20 0 [⟨1249999/10000, 3⟩, ⟨125, 5⟩] 126 5 = true := by
  constructor <;> decide +kernel

/-! ### the processed pipeline: `SpectrumProcessor::process` ∘ `quantify` reports raw maxima -/

/-- a processed peak (C10's model) as a peak of the TMT model -/
def conv (p : Sage.C10.Peak ℚ) : Peak ℚ := ⟨p.mass, p.intensity⟩

/-- intensities of the RAW peaks `(mz, intensity)` whose m/z lies in the channel's ppm window -/
def rawWindow (lo hi label : ℚ) (raw : List (ℚ × ℚ)) : List ℚ :=
  (raw.filter (fun x => inMzWindow lo hi label x.1)).map (·.2)

theorem toMass_rat (mz : ℚ) (z : ℕ) : Sage.C10.toMass mz z = (mz - Sage.Gen.PROTON) * (z : ℚ) := rfl

theorem maxIntensity_perm (l1 l2 : List ℚ) (h : l1.Perm l2) : maxIntensity l1 = maxIntensity l2 := by
  apply le_antisymm
  · rw [maxIntensity_le_iff]
    exact ⟨foldl_max_ge_init l2 0, fun x hx => foldl_max_ge_mem l2 0 x (h.mem_iff.mp hx)⟩
  · rw [maxIntensity_le_iff]
    exact ⟨foldl_max_ge_init l1 0, fun x hx => foldl_max_ge_mem l1 0 x (h.mem_iff.mpr hx)⟩

/-- the in-window predicate on processed peaks -/
def qWin (lo hi label : ℚ) (p : Sage.C10.Peak ℚ) : Bool := inMzWindow lo hi label (p.mass + Sage.Gen.PROTON)

theorem qWin_toPeak (lo hi label : ℚ) (x : ℚ × ℚ) :
    qWin lo hi label (Sage.C10.toPeak x) = inMzWindow lo hi label x.1 := by
  unfold qWin Sage.C10.toPeak
  simp only [toMass_rat]
  congr 1
  push_cast
  ring

theorem window_of_plain (lo hi label : ℚ) (raw : List (ℚ × ℚ)) :
    (((raw.map Sage.C10.toPeak).filter (qWin lo hi label)).map (·.intensity)) = rawWindow lo hi label raw := by
  unfold rawWindow
  induction raw with
  | nil => rfl
  | cons x xs ih =>
    simp only [List.map_cons, List.filter_cons, qWin_toPeak]
    split
    · simp only [List.map_cons, ih]; rfl
    · exact ih

/-- two position-wise related lists give the same in-window peaks -/
theorem zip_filter_eq {δ ι π : Type} (e : δ → Bool) (t : δ → π) (t' : ι → π) (q : π → Bool) :
    ∀ (D : List δ) (I : List ι), D.length = I.length →
    (∀ (p : Nat) (d : δ) (x : ι), D[p]? = some d → I[p]? = some x →
      (e d = true ∧ t d = t' x) ∨ ((e d = false ∨ q (t d) = false) ∧ q (t' x) = false)) →
    ((D.filter e).map t).filter q = (I.map t').filter q := by
  intro D
  induction D with
  | nil => intro I hl _; cases I with
    | nil => rfl
    | cons _ _ => simp at hl
  | cons d D ih =>
    intro I hl h
    cases I with
    | nil => simp at hl
    | cons x I =>
      have h0 := h 0 d x rfl rfl
      have ih' := ih I (by simpa using hl) (fun p d' x' hd hx => h (p + 1) d' x' (by simpa using hd) (by simpa using hx))
      rcases h0 with ⟨he, ht⟩ | ⟨hor, hq⟩
      · simp only [List.filter_cons, he, ↓reduceIte, List.map_cons, ht, ih']
      · rcases hor with he | hq'
        · simp [he, hq, ih']
        · cases he : e d
          · simp [he, hq, ih']
          · simp [he, hq, hq', ih']


/-- hypotheses under which the processor cannot change a reporter value -/
structure Exempt (cfg : Sage.C10.Cfg ℚ) (r : Sage.C10.Raw ℚ) (hi : ℚ) (labels : List ℚ) : Prop where
  /-- `max_peaks` does not cut -/
  room : r.peaks.length ≤ cfg.takeTopN
  /-- when the deisotoper runs (MS2, deisotoping on): ascending m/z, and the cutoff lies above every window -/
  ascending : r.level = 2 → cfg.deisotope = true → Sage.C10.MzAscending r.peaks
  above_proton : r.level = 2 → cfg.deisotope = true → Sage.Gen.PROTON ≤ cfg.minDeisoMz
  guard : r.level = 2 → cfg.deisotope = true → ∀ l ∈ labels, l * (1 + hi / 1000000) < cfg.minDeisoMz

theorem processed_window_perm (cfg : Sage.C10.Cfg ℚ) (r : Sage.C10.Raw ℚ) (lo hi : ℚ) (labels : List ℚ)
    (hex : Exempt cfg r hi labels) (out : List (Sage.C10.Peak ℚ)) (t : ℚ)
    (hp : Sage.C10.process cfg r = some (out, t)) (label : ℚ) (hl : label ∈ labels) :
    ((out.filter (qWin lo hi label)).map (·.intensity)).Perm (rawWindow lo hi label r.peaks) := by
  by_cases h2 : r.level = 2
  · have hc : r.centroid = true := by
      cases hc : r.centroid
      · have := (Sage.C10.process_panics_iff cfg r).mpr ⟨h2, hc⟩
        rw [this] at hp; cases hp
      · rfl
    cases hd : cfg.deisotope
    · -- MS2 without deisotoping: nothing is cut, the output is a permutation of the converted input
      obtain ⟨kept, dropped, out', hpo, hperm, hok, _, hlen, _⟩ := Sage.C10.process_nodeiso cfg r h2 hc hd
      rw [hpo] at hp
      simp only [Option.some.injEq, Prod.mk.injEq] at hp
      obtain ⟨rfl, _⟩ := hp
      have hdl : dropped = [] := by
        have h1 := hperm.length_eq
        simp only [List.length_map, List.length_append] at h1
        have h2' : kept.length = r.peaks.length := by rw [hlen]; exact Nat.min_eq_left hex.room
        exact List.eq_nil_of_length_eq_zero (by omega)
      rw [hdl, List.append_nil] at hperm
      have := (hok.trans hperm.symm)
      rw [← window_of_plain]
      exact (this.filter _).map _
    · -- MS2 with deisotoping
      obtain ⟨R, out', hpo, hR, _, hout, _, _⟩ := Sage.C10.process_deiso cfg r h2 hc hd
      rw [hpo] at hp
      simp only [Option.some.injEq, Prod.mk.injEq] at hp
      obtain ⟨rfl, _⟩ := hp
      set D := Sage.C10.deisotope r.peaks (r.charge.getD 3) (Sage.C10.Num.ofNat 10) cfg.minDeisoMz with hD
      have hshape := Sage.C10.deisotope_shape r.peaks (r.charge.getD 3) (Sage.C10.Num.ofNat 10) cfg.minDeisoMz
      have hRlen : R.length ≤ cfg.takeTopN := by
        have h1 := hR.length_eq
        have h2' : (D.filter (fun d => d.envelope.isNone)).length ≤ D.length := List.length_filter_le _ _
        have h3 : D.length = r.peaks.length := hshape.1
        have := hex.room
        omega
      rw [List.take_of_length_le hRlen] at hout
      have hperm : out'.Perm ((D.filter (fun d => d.envelope.isNone)).map Sage.C10.deisoToPeak) :=
        hout.trans (hR.map _)
      have hfil := ((hperm.filter (qWin lo hi label)).map (·.intensity))
      refine hfil.trans ?_
      rw [← window_of_plain]
      apply List.Perm.of_eq
      congr 1
      apply zip_filter_eq _ _ _ _ D r.peaks hshape.1
      intro p d x hdp hxp
      have hasc := hex.ascending h2 hd
      have hguard := hex.guard h2 hd label hl
      by_cases hlt : x.1 < cfg.minDeisoMz
      · -- below the cutoff: untouched
        have := Sage.C10.protected_region r.peaks (r.charge.getD 3) (Sage.C10.Num.ofNat 10) cfg.minDeisoMz hasc p d hdp x hxp hlt
        left
        subst this
        exact ⟨rfl, rfl⟩
      · -- at or above the cutoff: outside the window before and after
        right
        have hge : cfg.minDeisoMz ≤ x.1 := not_lt.mp hlt
        obtain ⟨x', hx', hmz⟩ := hshape.2 p d hdp
        rw [hxp] at hx'; cases hx'
        have hqx : qWin lo hi label (Sage.C10.toPeak x) = false := by
          rw [qWin_toPeak]
          cases hq : inMzWindow lo hi label x.1
          · rfl
          · rw [inMzWindow_iff] at hq
            linarith [hq.2]
        refine ⟨?_, hqx⟩
        cases henv : d.envelope with
        | some e => left; simp
        | none =>
          right
          have hz : 1 ≤ d.charge.getD 1 := by
            cases hch : d.charge with
            | none => simp
            | some z =>
              have := Sage.C10.charge_witness r.peaks (r.charge.getD 3) (Sage.C10.Num.ofNat 10) cfg.minDeisoMz p d hdp henv z hch
              simpa using this.1
          have hP := hex.above_proton h2 hd
          unfold qWin Sage.C10.deisoToPeak
          simp only [toMass_rat, hmz]
          cases hq : inMzWindow lo hi label ((x.1 - Sage.Gen.PROTON) * ((d.charge.getD 1 : ℕ) : ℚ) + Sage.Gen.PROTON)
          · rfl
          · rw [inMzWindow_iff] at hq
            have hz' : (1 : ℚ) ≤ ((d.charge.getD 1 : ℕ) : ℚ) := by exact_mod_cast hz
            have hnn : 0 ≤ x.1 - Sage.Gen.PROTON := by linarith
            have : x.1 - Sage.Gen.PROTON ≤ (x.1 - Sage.Gen.PROTON) * ((d.charge.getD 1 : ℕ) : ℚ) := by
              nlinarith
            linarith [hq.2]
  · -- MS1 / MS3: every peak kept and converted
    obtain ⟨out', hpo, hperm, _, _⟩ := Sage.C10.process_ms1 cfg r h2
    rw [hpo] at hp
    simp only [Option.some.injEq, Prod.mk.injEq] at hp
    obtain ⟨rfl, _⟩ := hp
    rw [← window_of_plain]
    exact (hperm.filter _).map _


theorem sorted_conv (out : List (Sage.C10.Peak ℚ)) (h : out.Pairwise (fun a b => a.mass ≤ b.mass)) :
    (out.map conv).Pairwise (fun a b => a.mass ≤ b.mass) := by
  rw [List.pairwise_map]; exact h

/-- **C18.processed_channel_spec** — the composed statement, per channel. Let `out` be what
    `SpectrumProcessor::process` (C10's model: MS1/MS3 conversion, MS2 top-N, MS2 deisotoping) returns for a raw
    spectrum, under `Exempt`: `max_peaks` does not cut, and IF the deisotoper runs (MS2, deisotoping on) the raw m/z
    are ascending and the cutoff `min_deisotope_mz` is ≥ PROTON and above the upper edge of every channel window.
    Then the value `find_reporter_ions`/`quantify` report for the channel on the PROCESSED peaks is the maximum
    RAW intensity over the raw peaks whose m/z lies within the ppm window of the channel (0 if none):
    neither the mass conversion, nor the sort, nor the top-N selection, nor deisotoping changes a reporter value. -/
theorem processed_channel_spec (cfg : Sage.C10.Cfg ℚ) (r : Sage.C10.Raw ℚ) (lo hi : ℚ) (labels : List ℚ)
    (hex : Exempt cfg r hi labels) (out : List (Sage.C10.Peak ℚ)) (t : ℚ)
    (hp : Sage.C10.process cfg r = some (out, t)) (label : ℚ) (hl : label ∈ labels) :
    intensityOr0 (select (out.map conv) label (.ppm lo hi) (some (-Sage.Gen.PROTON))) =
      maxIntensity (rawWindow lo hi label r.peaks) := by
  have hs := (Sage.C10.process_sorted cfg r out t hp).1
  rw [channel_value_spec _ lo hi _ label (sorted_conv out hs)]
  unfold channelSpec
  rw [← maxIntensity_perm _ _ (processed_window_perm cfg r lo hi labels hex out t hp label hl)]
  congr 1
  rw [List.filter_map, List.map_map]
  rfl

/-- **C18.pipeline_row_spec** — the same for the whole row: a raw spectrum of the quantification level (≠ 1), processed
    as the runner does (`processSpec`), gives exactly one row: keyed by its id (level 2) or its first precursor's
    `spectrumRef` (else), with its file id and injection time, and per channel the maximum raw intensity in the
    channel's ppm window. -/
theorem pipeline_row_spec (cfg : Sage.C10.Cfg ℚ) (fileId : Nat) (s : RawSpec ℚ) (lo hi : ℚ) (labels : List ℚ) (level : Nat)
    (hlv : s.level = level) (h1 : level ≠ 1)
    (hex : Exempt cfg { level := s.level, centroid := true, charge := (s.precs.head?).bind (·.charge), peaks := s.peaks } hi labels)
    (sp : Spectrum ℚ) (hsp : processSpec cfg fileId s = some sp) :
    quantify Sage.Gen.PROTON [sp] labels (.ppm lo hi) level =
      [{ specId := if level = 2 then s.id else firstRef sp, fileId := fileId, injTime := s.inj,
         peaks := labels.map fun l => maxIntensity (rawWindow lo hi l s.peaks) }] := by
  unfold processSpec at hsp
  split at hsp
  · cases hsp
  · rename_i ps t hproc
    simp only [Option.some.injEq] at hsp
    subst hsp
    rw [quantify_rows]
    simp only [h1, ↓reduceIte, hlv, beq_self_eq_true, List.filter_cons, List.filter_nil, List.map_cons, List.map_nil,
      List.cons.injEq, and_true]
    congr 1
    apply List.map_congr_left
    intro l hl
    exact processed_channel_spec cfg _ lo hi labels hex ps t hproc l hl

/-- **C18.runner_exempt** — the configuration the runner builds (`min_deisotope_mz` from the plex at the
    quantification level, `unwrap_or(0.0)`) satisfies `Exempt` (for the runner's +20 ppm) for every spectrum OF THE
    QUANTIFICATION LEVEL with ascending m/z and at most `max_peaks` peaks, for every channel list (built-in or
    user-defined, in any order) that contains a mass ≥ PROTON. -/
theorem runner_exempt (labels : List ℚ) (level maxPeaks : Nat) (deiso : Bool) (r : Sage.C10.Raw ℚ)
    (hlv : r.level = level) (hpos : ∃ l ∈ labels, Sage.Gen.PROTON ≤ l)
    (hasc : Sage.C10.MzAscending r.peaks) (hroom : r.peaks.length ≤ maxPeaks) :
    Exempt { takeTopN := maxPeaks, deisotope := deiso, minDeisoMz := (minDeisotopeMz labels level guardFactorQ).getD 0 }
      r 20 labels := by
  have hPpos : (0 : ℚ) < Sage.Gen.PROTON := by norm_num [Sage.Gen.PROTON]
  obtain ⟨l0, hl0, hl0P⟩ := hpos
  refine ⟨hroom, fun _ _ => hasc, ?_, ?_⟩
  · intro h2 _
    have hl2 : level = 2 := by rw [← hlv]; exact h2
    subst hl2
    obtain ⟨M, hM, _, hmax⟩ := maxOf_spec labels (List.ne_nil_of_mem hl0)
    simp only [minDeisotopeMz, hM, Option.map_some, Option.getD_some]
    have h1 : Sage.Gen.PROTON ≤ M := le_trans hl0P (hmax l0 hl0)
    have h2' : M ≤ M * guardFactorQ := by
      have : (1 : ℚ) ≤ guardFactorQ := by norm_num [guardFactorQ]
      nlinarith
    linarith
  · intro h2 _
    have hl2 : level = 2 := by rw [← hlv]; exact h2
    subst hl2
    obtain ⟨m, hm, hall⟩ := reporter_region_protected_user labels ⟨l0, hl0, lt_of_lt_of_le hPpos hl0P⟩
    simp only [hm, Option.getD_some]
    exact hall

/-- **C18.user_defined_like_builtin** — a user-defined plex listing the masses of a built-in one is the built-in
    one, for everything the pipeline computes: `reporter_masses()` is the list itself, and `quantify`, the guard and
    `runnerQuant` read the plex only through `reporter_masses()`. (All theorems above take an arbitrary label list.) -/
theorem user_defined_like_builtin (T : Tables ℚ) (p : Plex ℚ) :
    reporterMasses T (.user (reporterMasses T p)) = reporterMasses T p := rfl


/-! #### non-vacuity with TMT16 values -/

/-- a raw MS2 spectrum: 127N (400) and 128N (300) are 1.003355 apart — 128N is, for the deisotoper, a less intense
    +1 isotope of 127N at charge 1; 134N (100) is the heaviest TMT16 channel; 135.1516 (50) lies above the cutoff;
    500.25 / 500.7517 is a doubly charged fragment pair -/
def raw16 : RawSpec ℚ :=
  { level := 2, id := "scan=2", inj := 25/2,
    precs := [{ mz := 6125/10, charge := some 2, sref := some "scan=1" }],
    peaks := [(127124761/1000000, 400), (128128116/1000000, 300), (134148245/1000000, 100), (1351516/10000, 50),
              (50025/100, 900), (5007517/10000, 400)],
    noise := [] }

/-- the processor configuration the runner builds for TMT16, MS2 quantification, deisotoping on, max_peaks 150 -/
def cfg16 : Sage.C10.Cfg ℚ :=
  { takeTopN := 150, deisotope := true,
    minDeisoMz := (minDeisotopeMz (reporterMasses tablesQ .tmt16) 2 guardFactorQ).getD 0 }

example : Exempt cfg16 { level := 2, centroid := true, charge := some 2, peaks := raw16.peaks } 20 (reporterMasses tablesQ .tmt16) :=
  runner_exempt (reporterMasses tablesQ .tmt16) 2 150 true _ rfl
    ⟨16531813 / 131072, by decide +kernel, by norm_num [Sage.Gen.PROTON]⟩
    (by unfold Sage.C10.MzAscending raw16; norm_num [List.pairwise_cons]) (by decide)

/-- the raw maxima per TMT16 channel: 127N → 400, 128N → 300, 134N → 100, every other channel 0 -/
example : (reporterMasses tablesQ .tmt16).map (fun l => maxIntensity (rawWindow (-20) 20 l raw16.peaks)) =
    [0, 400, 0, 300, 0, 0, 0, 0, 0, 0, 0, 0, 0, 0, 0, 100] := by decide +kernel

-- and the model does compute exactly that row (deisotoping merges 500.7517 into 500.25 but leaves 128N alone)
#guard (processSpec cfg16 0 raw16).map (fun sp =>
    (quantify Sage.Gen.PROTON [sp] (reporterMasses tablesQ .tmt16) (.ppm (-20) 20) 2).map (fun r => (r.specId, r.peaks)))
  == some [("scan=2", [0, 400, 0, 300, 0, 0, 0, 0, 0, 0, 0, 0, 0, 0, 0, 100])]
-- with a cutoff that is too low (the seeded defect: cutoff − PROTON) 128N would be folded into 127N (and 135.1516 into 134N)
#guard (processSpec ({ cfg16 with minDeisoMz := 0 } : Sage.C10.Cfg ℚ) 0 raw16).map (fun sp =>
    (quantify Sage.Gen.PROTON [sp] (reporterMasses tablesQ .tmt16) (.ppm (-20) 20) 2).map (·.peaks))
  == some [[0, 700, 0, 0, 0, 0, 0, 0, 0, 0, 0, 0, 0, 0, 0, 150]]

/-- **C18.tables_match_reference** — every entry of the three reporter tables of tmt.rs (regenerated on every run)
    lies within 10⁻⁵ Th of the published TMT / TMTpro reporter m/z at the same position: a wrong, missing or
    swapped table entry breaks this theorem (and the `tmtconsts` verdict). -/
theorem tables_match_reference : tablesMatchReference tablesQ = true := by decide +kernel

/-- non-vacuity: the check does reject a table with two channels swapped, and one with an entry 0.1 mTh off -/
example : matchesReference [127124761 / 1000000, 126127726 / 1000000] [126127726 / 1000000, 127124761 / 1000000] = false := by
  decide +kernel
example : matchesReference [1261278 / 10000] [126127726 / 1000000] = false := by decide +kernel

end Sage.C18
