import SageModel.Generated.Consts

/-!
# The regenerated physical constants agree with hand-written reference values

`Generated/Consts.lean` is rewritten from `/repo`'s sources on every run, so the models follow any
change of a literal. These theorems pin every regenerated constant to an independent reference
table (textbook monoisotopic masses, written by hand below) within a stated tolerance: a changed
literal in the Rust source makes the corresponding proof fail.
-/

namespace Sage.ConstsRef
open Sage.Gen

def absQ (q : Rat) : Rat := if q < 0 then -q else q

/-- |a − b| ≤ tol, as a Boolean -/
def close (tol a b : Rat) : Bool := decide (absQ (a - b) ≤ tol)

/-- reference residue masses, index = letter − 'A' (0 = not an amino acid) -/
def refResidues : List Rat := [
  7103711/100000, 0, 10300919/100000, 11502694/100000, 12904259/100000, 14706841/100000,
  5702146/100000, 13705891/100000, 11308406/100000, 0, 12809496/100000, 11308406/100000,
  13104049/100000, 11404293/100000, 23714773/100000, 9705276/100000, 12805858/100000,
  15610111/100000, 8703203/100000, 10104768/100000, 15095364/100000, 9906841/100000,
  18607931/100000, 0, 16306333/100000, 0]

def refTmt18 : List Rat := [
  126127726/1000000, 127124761/1000000, 127131081/1000000, 128128116/1000000, 128134436/1000000,
  129131471/1000000, 129137790/1000000, 130134825/1000000, 130141145/1000000, 131138180/1000000,
  131144500/1000000, 132141535/1000000, 132147855/1000000, 133144890/1000000, 133151210/1000000,
  134148245/1000000, 134154565/1000000, 135151600/1000000]

def allClose (tol : Rat) (xs ys : List Rat) : Bool :=
  xs.length == ys.length && (xs.zip ys).all (fun (a, b) => close tol a b)

/-- **Consts.residues_ok** — all 26 entries of `MONOISOTOPIC_MASSES` are the textbook residue masses to 10⁻⁴ Da -/
theorem residues_ok : allClose (1/10000) MONOISOTOPIC refResidues = true := by decide +kernel

/-- **Consts.scalars_ok** — water, proton, neutron (¹³C − ¹²C), ammonia -/
theorem scalars_ok :
    close (1/100000) H2O (18010565/1000000) = true ∧
    close (1/1000000) PROTON (1007276466/1000000000) = true ∧
    close (1/100000) NEUTRON (10033548/10000000) = true ∧
    close (1/100000) NH3 (17026549/1000000) = true := by decide +kernel

/-- **Consts.elements_ok** — the element masses used for the a/c/x/z offsets -/
theorem elements_ok :
    close (1/1000000) ION_C 12 = true ∧
    close (1/100000) ION_O (15994915/1000000) = true ∧
    close (1/100000) ION_H (1007825/1000000) = true ∧
    close (1/100000) ION_N (14003074/1000000) = true := by decide +kernel

/-- the c/x/z offsets are built from `NH3 = N + H * 3.0` -/
theorem nh3_expr_ok : ION_NH3_EXPR = "N+H*3.0" := rfl

/-- water is H₂O and ammonia is NH₃ in the source's own element table (to 10⁻⁴) -/
theorem molecules_consistent :
    close (1/10000) H2O (2 * ION_H + ION_O) = true ∧
    close (1/10000) NH3 (ION_N + 3 * ION_H) = true := by decide +kernel

/-- **Consts.valid_aa_ok** — the 22 valid residues are exactly the letters with a non-zero mass -/
theorem valid_aa_ok :
    (List.range 26).all (fun i =>
      (VALID_AA.contains (65 + i)) == decide (MONOISOTOPIC.getD i 0 ≠ 0)) = true := by decide +kernel

/-- **Consts.tmt_ok** — reporter ion tables: 18-plex is the reference list, 11-plex and 6-plex are
    the documented sub-lists (to 2·10⁻⁵ Da, far below the 6 mDa channel spacing) -/
theorem tmt_ok :
    allClose (2/100000) TMT18PLEX refTmt18 = true ∧
    allClose (2/100000) TMT11PLEX (refTmt18.take 11) = true ∧
    allClose (2/100000) TMT6PLEX [refTmt18[0]!, refTmt18[1]!, refTmt18[4]!, refTmt18[5]!, refTmt18[8]!, refTmt18[9]!] = true := by
  decide +kernel

end Sage.ConstsRef
