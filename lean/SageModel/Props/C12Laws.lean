import SageModel.Props.C12Rle
import Mathlib.Tactic.Ring
import Mathlib.Tactic.Positivity
import Mathlib.Tactic.Linarith
import Mathlib.Algebra.Order.Field.Rat

/-!
# C12 — further laws of the spectrum q-value model

* which fields the function reads and writes (`psm_q_eq`, `psm_frame`, `q_label_only`) — the
  junk-seed stream of op `specq` is the run-time counterpart: it fills every other `Feature` field
  (and a stale `spectrum_q`) with seed-dependent values, and the reply carries a `frame` bit;
* the classical formulation (`q_eq_cummin`);
* prefix / suffix laws (`q_suffix_counts`, `q_append_le`, `q_append_decoys`, and the two
  counterexamples showing that neither side alone determines a q-value);
* the passing count (`count_prefix`, `count_last_cutoff`).
-/

namespace Sage.C12

/-! ## helper lemmas -/

theorem fwdPsm_q {α : Type} (cv : Nat → Nat) (d t : Nat) (ps : List (Psm α)) :
    (fwdPsm cv d t ps).map (·.spectrumQ) = (counts d t (ps.map isDecoy)).map (ratioC cv) := by
  induction ps generalizing d t with
  | nil => rfl
  | cons p ps ih => simp only [fwdPsm, List.map_cons, counts, isDecoy, ih]

theorem fwdPsm_frame {α : Type} (cv : Nat → Nat) (d t : Nat) (ps : List (Psm α)) :
    (fwdPsm cv d t ps).map (fun p => (p.label, p.rest)) = ps.map (fun p => (p.label, p.rest)) := by
  induction ps generalizing d t with
  | nil => rfl
  | cons p ps ih => simp only [fwdPsm, List.map_cons, ih]

theorem bwdPsm_frame {α : Type} (ps : List (Psm α)) :
    (bwdPsm ps).1.map (fun p => (p.label, p.rest)) = ps.map (fun p => (p.label, p.rest)) := by
  induction ps with
  | nil => rfl
  | cons p ps ih => simp only [bwdPsm, List.map_cons, ih]

theorem bwdPsm_q {α : Type} (ps : List (Psm α)) :
    (bwdPsm ps).1.map (·.spectrumQ) = (cummin (ps.map (·.spectrumQ))).map some ∧
    (bwdPsm ps).2.1 = hd (cummin (ps.map (·.spectrumQ))) ∧
    (bwdPsm ps).2.2 = ((cummin (ps.map (·.spectrumQ))).filter (fun q => decide (q ≤ 1/100))).length := by
  induction ps with
  | nil => exact ⟨rfl, rfl, rfl⟩
  | cons p ps ih =>
    obtain ⟨ih1, ih2, ih3⟩ := ih
    refine ⟨?_, ?_, ?_⟩
    · simp only [bwdPsm, List.map_cons, cummin, ih1, ih2]
    · simp only [bwdPsm, List.map_cons, cummin, ih2, hd_cons]
    · simp only [bwdPsm, List.map_cons, cummin, ih2, ih3, List.filter_cons, decide_eq_true_eq]
      split <;> rfl

/-- last element of a list, `m` if there is none -/
def lastOr (m : Rat) : List Rat → Rat
  | [] => m
  | x :: l => lastOr x l

theorem hdOr_reverse (m : Rat) (l : List Rat) : hdOr m l.reverse = lastOr m l := by
  induction l generalizing m with
  | nil => rfl
  | cons x l ih => rw [List.reverse_cons, hdOr_append]; exact ih x

theorem runMin_snoc (m : Rat) (a : List (Option Rat)) (x : Option Rat) :
    runMin m (a ++ [x]) = runMin m a ++ [minOpt (lastOr m (runMin m a)) x] := by
  induction a generalizing m with
  | nil => rfl
  | cons y a ih => simp only [List.cons_append, runMin, ih, lastOr]

theorem cumminFrom_eq_runMin (m : Rat) (rs : List (Option Rat)) :
    cumminFrom m rs = (runMin m rs.reverse).reverse := by
  induction rs with
  | nil => rfl
  | cons r rs ih =>
    rw [List.reverse_cons, runMin_snoc, List.reverse_append, ← ih]
    simp only [cumminFrom, List.reverse_cons, List.reverse_nil, List.nil_append, List.singleton_append]
    rw [← hdOr_reverse, ← ih]

theorem cumminFrom_length (m : Rat) (rs : List (Option Rat)) : (cumminFrom m rs).length = rs.length := by
  induction rs with
  | nil => rfl
  | cons r rs ih => simp [cumminFrom, ih]

/-- general form of `counts_replicate_append` -/
theorem counts_append (d t : Nat) (a b : List Bool) :
    counts d t (a ++ b) =
      counts d t a ++ counts (d + (a.filter id).length) (t + (a.filter (fun x => !x)).length) b := by
  induction a generalizing d t with
  | nil => simp [counts]
  | cons x a ih =>
    simp only [List.cons_append, counts, ih]
    cases x <;> simp <;> congr 1 <;> omega

theorem minOpt_mono (m m' : Rat) (h : m' ≤ m) (r : Option Rat) : minOpt m' r ≤ minOpt m r := by
  cases r with
  | none => exact h
  | some x => exact min_le_min h (le_refl x)

/-- a smaller seed gives pointwise smaller cumulative minima -/
theorem cumminFrom_mono_seed (m m' : Rat) (h : m' ≤ m) (rs : List (Option Rat)) :
    hdOr m' (cumminFrom m' rs) ≤ hdOr m (cumminFrom m rs) ∧
    ∀ (i : Nat) (x y : Rat), (cumminFrom m rs)[i]? = some x → (cumminFrom m' rs)[i]? = some y → y ≤ x := by
  induction rs with
  | nil => exact ⟨h, by intro i x y hx; simp [cumminFrom] at hx⟩
  | cons r rs ih =>
    obtain ⟨ihh, iht⟩ := ih
    have hh : minOpt (hdOr m' (cumminFrom m' rs)) r ≤ minOpt (hdOr m (cumminFrom m rs)) r := minOpt_mono _ _ ihh r
    refine ⟨by simpa [cumminFrom, hdOr] using hh, ?_⟩
    intro i x y hx hy
    cases i with
    | zero =>
      simp only [cumminFrom, List.getElem?_cons_zero, Option.some.injEq] at hx hy
      subst hx; subst hy; exact hh
    | succ i =>
      simp only [cumminFrom, List.getElem?_cons_succ] at hx hy
      exact iht i x y hx hy

theorem hd_cummin_le_one (rs : List (Option Rat)) : hd (cummin rs) ≤ 1 := by
  cases rs with
  | nil => simp [cummin]
  | cons r rs =>
    simp only [cummin, hd_cons]
    refine le_trans (minOpt_le _ _) ?_
    clear r
    induction rs with
    | nil => simp [cummin]
    | cons r rs ih => simp only [cummin, hd_cons]; exact le_trans (minOpt_le _ _) ih

/-- the cumulative minimum of `A ++ [a]` depends on the seed only through `minOpt seed a` -/
theorem cumminFrom_snoc (m : Rat) (A : List (Option Rat)) (a : Option Rat) :
    cumminFrom m (A ++ [a]) = cumminFrom (minOpt m a) A ++ [minOpt m a] := by
  rw [cumminFrom_append]; rfl

theorem counts_snoc (d t : Nat) (l : List Bool) (b : Bool) :
    counts d t (l ++ [b]) = counts d t l ++
      [(d + ((l ++ [b]).filter id).length, t + ((l ++ [b]).filter (fun x => !x)).length)] := by
  rw [counts_append]
  cases b <;> simp [counts] <;> omega

/-- in a pairwise-ordered list the entries at or below a threshold form a prefix, whose length is the
    filter count -/
theorem sorted_filter_prefix (c : Rat) (l : List Rat) (hs : l.Pairwise (· ≤ ·)) (i : Nat) (q : Rat)
    (h : l[i]? = some q) : q ≤ c ↔ i < (l.filter (fun x => decide (x ≤ c))).length := by
  induction l generalizing i with
  | nil => simp at h
  | cons x l ih =>
    obtain ⟨hx, hl⟩ := List.pairwise_cons.mp hs
    by_cases hxc : x ≤ c
    · simp only [List.filter_cons, hxc, decide_true, ↓reduceIte, List.length_cons]
      cases i with
      | zero => simp only [List.getElem?_cons_zero, Option.some.injEq] at h; subst h; simp [hxc]
      | succ i =>
        simp only [List.getElem?_cons_succ] at h
        rw [ih hl i h]; omega
    · have hnone : l.filter (fun y => decide (y ≤ c)) = [] := by
        rw [List.filter_eq_nil_iff]
        intro y hy
        have := hx y hy
        simp only [decide_eq_true_eq]
        exact fun hyc => hxc (le_trans this hyc)
      have hf : (List.filter (fun y => decide (y ≤ c)) (x :: l)).length = 0 := by
        simp [hxc, hnone]
      rw [hf]
      simp only [Nat.not_lt_zero, iff_false]
      cases i with
      | zero => simp only [List.getElem?_cons_zero, Option.some.injEq] at h; subst h; exact hxc
      | succ i =>
        simp only [List.getElem?_cons_succ] at h
        have hq : q ∈ l := List.mem_of_getElem? h
        exact fun hqc => hxc (le_trans (hx q hq) hqc)

/-- one step of the backward pass, by index: `q_i = min(q_{i+1} or 1, FDR(i))` -/
theorem q_step (labels : List Bool) (i : Nat) (h : i < labels.length) :
    (spectrumQ labels).1[i]? =
      some (minOpt (((spectrumQ labels).1[i + 1]?).getD 1) (fdrAt labels i)) := by
  have hlen : ((counts 1 0 labels).map ratio).length = labels.length := by simp [counts_length]
  have e : (spectrumQ labels).1 = cummin ((counts 1 0 labels).map ratio) := rfl
  rw [e, cummin_get _ i (by omega)]
  have hd : ((counts 1 0 labels).map ratio).drop i =
      fdrAt labels i :: ((counts 1 0 labels).map ratio).drop (i + 1) := by
    rw [ratios_eq]
    rw [List.drop_eq_getElem_cons (by simpa using h)]
    simp
  rw [hd, List.foldr_cons]
  congr 2
  by_cases h2 : i + 1 < labels.length
  · rw [cummin_get _ (i + 1) (by omega)]; rfl
  · rw [List.getElem?_eq_none (by rw [cummin_length]; omega), List.drop_eq_nil_of_le (by omega)]; rfl

/-! ## property theorems -/

/-- **C12.psm_q_eq** — the record-level model (two passes over PSM records, reading the label with
    `== -1` and reading/writing the `spectrum_q` field) computes the label-list model applied to
    the decoy flags, whatever the records held in `spectrum_q` and in every other field on entry -/
theorem psm_q_eq {α : Type} (cv : Nat → Nat) (ps : List (Psm α)) :
    (spectrumQPsm cv ps).1.map (·.spectrumQ) = (spectrumQC cv (ps.map isDecoy)).1.map some ∧
    (spectrumQPsm cv ps).2 = (spectrumQC cv (ps.map isDecoy)).2 := by
  obtain ⟨h1, _, h3⟩ := bwdPsm_q (fwdPsm cv 1 0 ps)
  rw [fwdPsm_q] at h1 h3
  exact ⟨h1, h3⟩

/-- **C12.psm_frame** — the function writes `spectrum_q` and nothing else -/
theorem psm_frame {α : Type} (cv : Nat → Nat) (ps : List (Psm α)) :
    (spectrumQPsm cv ps).1.map (fun p => (p.label, p.rest)) = ps.map (fun p => (p.label, p.rest)) := by
  unfold spectrumQPsm
  simp only
  rw [bwdPsm_frame, fwdPsm_frame]

/-- **C12.q_label_only** — invariance under any change of the non-label fields: two PSM lists
    (even with different kinds of other fields, different stale `spectrum_q`, and different label
    values as long as the same positions carry −1) get the same q-values and the same count -/
theorem q_label_only {α β : Type} (cv : Nat → Nat) (ps : List (Psm α)) (ps' : List (Psm β))
    (h : ps.map isDecoy = ps'.map isDecoy) :
    (spectrumQPsm cv ps).1.map (·.spectrumQ) = (spectrumQPsm cv ps').1.map (·.spectrumQ) ∧
    (spectrumQPsm cv ps).2 = (spectrumQPsm cv ps').2 := by
  rw [(psm_q_eq cv ps).1, (psm_q_eq cv ps').1, (psm_q_eq cv ps).2, (psm_q_eq cv ps').2, h]
  exact ⟨rfl, rfl⟩

/-- non-vacuity: T T D with stale q-values 0.001 / +∞ / 7.5 and ranks/scores as junk, against fresh
    PSMs with unit junk (and label 5 for a target): same result `[1/2, 1/2, 1]`; junk untouched -/
example :
    let ps : List (Psm (Nat × Int)) := [⟨1, some (1/1000), (3, -5)⟩, ⟨1, none, (1, 2)⟩, ⟨-1, some (15/2), (2, 0)⟩]
    let ps' : List (Psm Unit) := [⟨1, some 1, ()⟩, ⟨5, some 1, ()⟩, ⟨-1, some 1, ()⟩]
    (spectrumQPsm id ps).1.map (·.spectrumQ) = [some (1/2), some (1/2), some 1] ∧
    (spectrumQPsm id ps').1.map (·.spectrumQ) = [some (1/2), some (1/2), some 1] ∧
    (spectrumQPsm id ps).1.map (·.rest) = [(3, -5), (1, 2), (2, 0)] := by
  norm_num [spectrumQPsm, fwdPsm, bwdPsm, ratioC, ratio, minOpt]

/-- **C12.q_eq_cummin** — the model is the classical construction: the step function
    FDR(i) = (Dᵢ + 1)/Tᵢ over the cut-offs, read from the bottom of the list upwards with a running
    minimum that starts at 1 -/
theorem q_eq_cummin (labels : List Bool) : (spectrumQ labels).1 = qClassic labels := by
  unfold qClassic
  rw [← cumminFrom_eq_runMin, ← cummin_eq_cumminFrom, ← ratios_eq]
  rfl

example : qClassic [false, false, true, false, true, true] = [1/2, 1/2, 2/3, 2/3, 1, 1] := by
  norm_num [qClassic, runMin, fdrAt, nDecoy, nTarget, ratio, minOpt, List.range, List.range.loop]

/-- **C12.q_suffix_counts** — suffix law: the q-values of the PSMs after a prefix depend on that
    prefix only through its two tallies — they are the backward minimum of the suffix's own
    estimates started from the prefix's counts. -/
theorem q_suffix_counts (p s : List Bool) :
    (spectrumQ (p ++ s)).1.drop p.length =
      cummin ((counts (1 + nDecoy p p.length) (nTarget p p.length) s).map ratio) := by
  have e : (spectrumQ (p ++ s)).1 = cummin ((counts 1 0 (p ++ s)).map ratio) := rfl
  rw [e, counts_append, List.map_append, cummin_eq_cumminFrom, cumminFrom_append]
  rw [List.drop_left' (by rw [cumminFrom_length, List.length_map, counts_length])]
  simp [nDecoy, nTarget, cummin_eq_cumminFrom]

/-- corollary: two prefixes with the same numbers of decoys and targets (any order) leave the same
    q-values on whatever follows -/
theorem q_suffix_perm (p p' s : List Bool) (hd : nDecoy p p.length = nDecoy p' p'.length)
    (ht : nTarget p p.length = nTarget p' p'.length) :
    (spectrumQ (p ++ s)).1.drop p.length = (spectrumQ (p' ++ s)).1.drop p'.length := by
  rw [q_suffix_counts, q_suffix_counts, hd, ht]

example : (spectrumQ ([true, false, false] ++ [false, true])).1.drop 3 = [2/3, 1]
    ∧ (spectrumQ ([false, false, true] ++ [false, true])).1.drop 3 = [2/3, 1] := by
  norm_num [spectrumQ, counts, ratio, cummin, minOpt]

/-- **C12.q_append_le** — prefix law: PSMs appended at the bottom of the list can only lower (never
    raise) the q-values of the PSMs above them -/
theorem q_append_le (l l' : List Bool) (i : Nat) (x y : Rat)
    (hx : (spectrumQ l).1[i]? = some x) (hy : (spectrumQ (l ++ l')).1[i]? = some y) : y ≤ x := by
  have e : (spectrumQ (l ++ l')).1 = cummin ((counts 1 0 (l ++ l')).map ratio) := rfl
  have e0 : (spectrumQ l).1 = cumminFrom 1 ((counts 1 0 l).map ratio) := cummin_eq_cumminFrom _
  rw [e, counts_append, List.map_append, cummin_eq_cumminFrom, cumminFrom_append] at hy
  rw [e0] at hx
  have hi : i < ((counts 1 0 l).map ratio).length := by
    by_contra hc
    rw [List.getElem?_eq_none (by rw [cumminFrom_length]; omega)] at hx
    cases hx
  rw [List.getElem?_append_left (by rw [cumminFrom_length]; exact hi)] at hy
  refine (cumminFrom_mono_seed 1 _ ?_ _).2 i x y hx hy
  rw [← cummin_eq_cumminFrom, ← hd_eq_hdOr]
  exact hd_cummin_le_one _

example : (spectrumQ [false, true]).1 = [1, 1] ∧ (spectrumQ ([false, true] ++ [false, false, false])).1.take 2 = [1/2, 1/2] := by
  norm_num [spectrumQ, counts, ratio, cummin, minOpt]

/-- **C12.q_append_decoys** — appending decoys at the bottom of the list changes no earlier q-value -/
theorem q_append_decoys (l : List Bool) (k : Nat) :
    (spectrumQ (l ++ List.replicate k true)).1.take l.length = (spectrumQ l).1 := by
  have e : (spectrumQ (l ++ List.replicate k true)).1 = cummin ((counts 1 0 (l ++ List.replicate k true)).map ratio) := rfl
  have e0 : (spectrumQ l).1 = cumminFrom 1 ((counts 1 0 l).map ratio) := cummin_eq_cumminFrom _
  rw [e, e0, counts_append, List.map_append, cummin_eq_cumminFrom, cumminFrom_append]
  rw [List.take_left' (by rw [cumminFrom_length, List.length_map, counts_length])]
  -- the seed coming from the appended decoys
  have hdec := cumminFrom_decoys id (fun _ _ h => h) 1 (0 + (l.filter (fun x => !x)).length) k (1 + (l.filter id).length)
  have hrat : ∀ L : List (Nat × Nat), L.map (ratioC id) = L.map ratio := fun L => rfl
  rw [hrat] at hdec
  rw [hdec, hdOr_expandRuns]
  cases k with
  | zero => rfl
  | succ k =>
    rw [headOr_decoyPieces]
    -- split off the last PSM of `l`: only `minOpt seed (last estimate)` matters
    rcases List.eq_nil_or_concat l with rfl | ⟨l0, b, hl⟩
    · rfl
    · rw [List.concat_eq_append] at hl
      subst hl
      rw [counts_snoc, List.map_append, List.map_cons, List.map_nil, cumminFrom_snoc, cumminFrom_snoc]
      have key : ∀ (d t : Nat), minOpt (minOpt 1 (ratioC id (d + 1, t))) (ratio (d, t)) = minOpt 1 (ratio (d, t)) := by
        intro d t
        unfold ratioC ratio
        simp only [id]
        by_cases ht : t = 0
        · simp [ht, minOpt]
        · simp only [ht, ↓reduceIte, minOpt]
          have p1 : (0 : Rat) < (t : Rat) := by exact_mod_cast Nat.pos_of_ne_zero ht
          have : ((d : Nat) : Rat) / t ≤ ((d + 1 : Nat) : Rat) / t :=
            div_le_div_of_nonneg_right (by exact_mod_cast Nat.le_succ d) (le_of_lt p1)
          rw [min_assoc, min_eq_right this]
      have hk := key (1 + ((l0 ++ [b]).filter id).length) (0 + ((l0 ++ [b]).filter (fun x => !x)).length)
      rw [hk]

example : (spectrumQ ([false, false, true, false] ++ List.replicate 3 true)).1 = [1/2, 1/2, 2/3, 2/3, 1, 1, 1]
    ∧ (spectrumQ [false, false, true, false]).1 = [1/2, 1/2, 2/3, 2/3] := by
  norm_num [spectrumQ, counts, ratio, cummin, minOpt, List.replicate]

/-- **C12.q_not_suffix_local** — a q-value is NOT a function of the labels from its position on
    (the prefix matters, through its tallies): same suffix `[T]`, different q -/
theorem q_not_suffix_local :
    (spectrumQ ([false] ++ [false])).1.drop 1 ≠ (spectrumQ ([true] ++ [false])).1.drop 1 := by
  norm_num [spectrumQ, counts, ratio, cummin, minOpt]

/-- **C12.q_not_prefix_local** — nor of the labels up to its position (later cut-offs can lower it):
    same prefix `[T]`, different q -/
theorem q_not_prefix_local :
    (spectrumQ ([false] ++ [])).1.take 1 ≠ (spectrumQ ([false] ++ [false])).1.take 1 := by
  norm_num [spectrumQ, counts, ratio, cummin, minOpt]

/-- **C12.count_prefix** — the PSMs counted by the 1% threshold are exactly the first `count` PSMs:
    a PSM at position `i` has `q ≤ 0.01` iff `i < count` -/
theorem count_prefix (labels : List Bool) (i : Nat) (q : Rat) (h : (spectrumQ labels).1[i]? = some q) :
    q ≤ 1/100 ↔ i < (spectrumQ labels).2 :=
  sorted_filter_prefix (1/100) _ (q_monotone labels) i q h

/-- **C12.count_last_cutoff** — the count is one plus the position of the LAST cut-off whose FDR
    estimate (decoys+1)/targets is at most 1% (0 if there is none): the estimate at cut-off
    `count − 1` is ≤ 1%, and no cut-off from `count` on has an estimate ≤ 1% -/
theorem count_last_cutoff (labels : List Bool) :
    (0 < (spectrumQ labels).2 → ∃ x, fdrAt labels ((spectrumQ labels).2 - 1) = some x ∧ x ≤ 1/100) ∧
    (∀ j x, (spectrumQ labels).2 ≤ j → j < labels.length → fdrAt labels j = some x → ¬ x ≤ 1/100) := by
  have hlen := q_length labels
  constructor
  · intro hpos
    have hc : (spectrumQ labels).2 ≤ labels.length := by
      rw [count_eq, ← hlen]; exact List.length_filter_le _ _
    have hi : (spectrumQ labels).2 - 1 < labels.length := by omega
    have hs := q_step labels _ hi
    have hq := (count_prefix labels _ _ hs).mpr (by omega)
    -- the value below (or the seed 1) is above 1%, so the minimum was taken by the estimate
    have hnext : ¬ ((spectrumQ labels).1[(spectrumQ labels).2 - 1 + 1]?).getD 1 ≤ 1/100 := by
      cases hn : (spectrumQ labels).1[(spectrumQ labels).2 - 1 + 1]? with
      | none => norm_num
      | some z =>
        simp only [Option.getD_some]
        intro hz
        have := (count_prefix labels _ z hn).mp hz
        omega
    cases hf : fdrAt labels ((spectrumQ labels).2 - 1) with
    | none => rw [hf] at hq; exact absurd hq hnext
    | some x =>
      refine ⟨x, rfl, ?_⟩
      rw [hf] at hq
      simp only [minOpt] at hq
      rcases min_choice (((spectrumQ labels).1[(spectrumQ labels).2 - 1 + 1]?).getD 1) x with hm | hm
      · rw [hm] at hq; exact absurd hq hnext
      · rw [hm] at hq; exact hq
  · intro j x hj hjn hf hx
    have hs := q_step labels j hjn
    rw [hf] at hs
    have hle : minOpt (((spectrumQ labels).1[j + 1]?).getD 1) (some x) ≤ 1/100 :=
      le_trans (min_le_right _ _) hx
    have := (count_prefix labels j _ hs).mp hle
    omega

/-- non-vacuity: 100 targets then a decoy — estimates 1/1 … 1/100, then 2/100: the count is 100, the
    last cut-off with an estimate ≤ 1% plus one (computed through the RLE model and `qRle_exact`) -/
example : (spectrumQ (List.replicate 100 false ++ [true])).2 = 100 := by
  have h := (qRle_exact [(false, 100), (true, 1)]).2
  have e : expand [(false, 100), (true, 1)] = List.replicate 100 false ++ [true] := rfl
  rw [e] at h
  rw [← h]
  norm_num [qRle, qRleAux, runPieces, targetPiece, decoyPieces, ratioC, ratio, minOpt, headOr]

/-! ### closed forms for the degenerate lists the property names (all-decoy, all-target) -/

theorem counts_decoys (d n : Nat) : (counts d 0 (List.replicate n true)).map ratio = List.replicate n none := by
  induction n generalizing d with
  | zero => rfl
  | succ n ih => simp [List.replicate_succ, counts, ratio, ih]

theorem cummin_none (n : Nat) : cummin (List.replicate n none) = List.replicate n 1 := by
  induction n with
  | zero => rfl
  | succ n ih =>
    simp only [List.replicate_succ, cummin, ih, minOpt]
    cases n <;> simp [List.replicate_succ, hd]

/-- **C12.q_all_decoys** — an all-decoy list of ANY length: every q-value is the cap `1` (no target, no
finite ratio ever), and the passing count is 0. -/
theorem q_all_decoys (n : Nat) :
    (spectrumQ (List.replicate n true)).1 = List.replicate n 1 ∧ (spectrumQ (List.replicate n true)).2 = 0 := by
  have e : (spectrumQ (List.replicate n true)).1 = List.replicate n 1 := by
    simp only [spectrumQ, counts_decoys, cummin_none]
  refine ⟨e, ?_⟩
  have : (spectrumQ (List.replicate n true)).2 =
      ((spectrumQ (List.replicate n true)).1.filter (fun q => decide (q ≤ 1/100))).length := rfl
  rw [this, e]
  rw [List.length_eq_zero_iff, List.filter_eq_nil_iff]
  intro q hq
  rw [List.mem_replicate] at hq
  rw [hq.2]
  norm_num

theorem cummin_targets (t n : Nat) :
    cummin ((counts 1 t (List.replicate (n + 1) false)).map ratio) = List.replicate (n + 1) (1 / ((t + n + 1 : Nat) : Rat)) := by
  induction n generalizing t with
  | zero =>
    simp only [List.replicate_succ, List.replicate_zero, counts, List.map_cons, List.map_nil, cummin, hd, ratio]
    simp only [Bool.false_eq_true, if_false, Nat.add_eq_zero_iff, one_ne_zero, and_false, minOpt]
    congr 1
    rw [min_eq_right]
    · push_cast; ring
    · push_cast
      rw [div_le_one (by positivity)]
      linarith [(Nat.cast_nonneg t : (0 : Rat) ≤ t)]
  | succ n ih =>
    have := ih (t + 1)
    rw [List.replicate_succ, counts]
    simp only [Bool.false_eq_true, if_false, List.map_cons]
    rw [cummin]
    simp only [this]
    rw [List.replicate_succ (n := n + 1)]
    simp only [List.replicate_succ, hd, ratio, Nat.add_eq_zero_iff, one_ne_zero, and_false, if_false, minOpt]
    congr 1
    · rw [min_eq_left]
      · push_cast; ring_nf
      · push_cast
        apply div_le_div_of_nonneg_left <;> first | positivity | linarith [(Nat.cast_nonneg n : (0 : Rat) ≤ n)]
    · have : t + 1 + n + 1 = t + (n + 1) + 1 := by omega
      simp [this]
/-- **C12.q_all_targets** — an all-target list of ANY positive length `n+1`: every q-value is `1/(n+1)`
(the pseudo-count decoy over all targets, attained at the last cut-off). -/
theorem q_all_targets (n : Nat) :
    (spectrumQ (List.replicate (n + 1) false)).1 = List.replicate (n + 1) (1 / ((n + 1 : Nat) : Rat)) := by
  have := cummin_targets 0 n
  simpa [spectrumQ] using this
example : (spectrumQ (List.replicate 4 false)).1 = [1/4, 1/4, 1/4, 1/4] := by
  rw [q_all_targets 3]; norm_num [List.replicate]

end Sage.C12
