import SageModel.Model.C14
import SageModel.Lemmas.C14XQ
import SageModel.Lemmas.C14RQ
import SageModel.Lemmas.C14Lift
import Mathlib.Algebra.Order.Field.Rat
import Mathlib.Tactic.Linarith
import Mathlib.Tactic.Positivity
import Mathlib.Tactic.NormNum
import Mathlib.Tactic.Ring
import Mathlib.Tactic.FieldSimp

/-!
# C14 — Posterior error probabilities are well-formed Bayes ratios of kernel densities

Property text: *The posterior-error model fitted to target and decoy scores returns, for every
score inside the fitted range, a value in [0, 1] that never increases as the score increases, is
piecewise-linear between its grid points, and at the grid points equals the running maximum
(taken from the high-score end) of the Bayes ratio pi·f_decoy / (pi·f_decoy + (1−pi)·f_target) of
Gaussian kernel density estimates with the rule-of-thumb bandwidth. Reported PSM posterior
errors are the log10 of that value, finite for every PSM.*

All theorems are about the definitions of `SageModel/Model/C14.lean` instantiated at exact
rationals (`α := Rat`): they hold for every sample, every bin count, every bandwidth factor.
`exp`, `powf`, `sqrt`, `π` are arbitrary parameters constrained only by the hypotheses shown.
IEEE rounding is not modelled. (Before /repo 09cd064 the unclamped f64 interpolation weight could
round outside `[0,1]` next to a grid point and give a tiny negative PEP; the model mirrors the
repaired code, whose weight is clamped — `interp_range_all`.)
-/

namespace Sage.C14

/-! ## helper lemmas -/

@[simp] theorem ofNat_rat (n : Nat) : (ofNat n : Rat) = (n : Rat) := rfl
@[simp] theorem fmax_rat (a b : Rat) : fmax a b = max a b := rfl
@[simp] theorem fmin_rat (a b : Rat) : fmin a b = min a b := rfl
theorem clamp01_rat (x : Rat) : clamp01 x = if x < 0 then 0 else if 1 < x then 1 else x := rfl
theorem clamp01_rat_id (x : Rat) (h0 : 0 ≤ x) (h1 : x ≤ 1) : clamp01 x = x := by
  rw [clamp01_rat, if_neg (not_lt.mpr h0), if_neg (not_lt.mpr h1)]
theorem clamp01_rat_range (x : Rat) : 0 ≤ clamp01 x ∧ clamp01 x ≤ 1 := by
  rw [clamp01_rat]; split
  · exact ⟨le_refl _, by norm_num⟩
  · split
    · exact ⟨by norm_num, le_refl _⟩
    · constructor <;> linarith
@[simp] theorem floorNat_rat (x : Rat) : floorNat x = x.floor.toNat := rfl

theorem envGo_length (init : Rat) (l : List Rat) : (envGo init l).1.length = l.length := by
  induction l with
  | nil => rfl
  | cons x xs ih => simp [envGo, ih]

/-- the accumulator after the fold is the maximum of `init` and all elements -/
theorem envGo_acc (init : Rat) (l : List Rat) : (envGo init l).2 = l.foldr (fun x acc => max acc x) init := by
  induction l with
  | nil => rfl
  | cons x xs ih => simp [envGo, ih]

theorem envGo_get (init : Rat) (l : List Rat) (i : Nat) (h : i < l.length) :
    (envGo init l).1[i]? = some ((l.drop i).foldr (fun x acc => max acc x) init) := by
  induction l generalizing i with
  | nil => simp at h
  | cons x xs ih =>
    cases i with
    | zero => simp [envGo, envGo_acc]
    | succ i =>
      simp only [envGo, List.getElem?_cons_succ, List.drop_succ_cons]
      exact ih i (by simpa using h)

theorem foldr_max_ge_init (init : Rat) (l : List Rat) : init ≤ l.foldr (fun x acc => max acc x) init := by
  induction l with
  | nil => simp
  | cons x xs ih => simp only [List.foldr_cons]; exact le_trans ih (le_max_left _ _)

theorem foldr_max_ge_mem (init : Rat) (l : List Rat) : ∀ y ∈ l, y ≤ l.foldr (fun x acc => max acc x) init := by
  induction l with
  | nil => simp
  | cons x xs ih =>
    intro y hy
    simp only [List.foldr_cons]
    rcases List.mem_cons.mp hy with rfl | hy
    · exact le_max_right _ _
    · exact le_trans (ih y hy) (le_max_left _ _)

theorem foldr_max_mem (init : Rat) (l : List Rat) :
    l.foldr (fun x acc => max acc x) init = init ∨ l.foldr (fun x acc => max acc x) init ∈ l := by
  induction l with
  | nil => simp
  | cons x xs ih =>
    simp only [List.foldr_cons]
    rcases max_cases (xs.foldr (fun x acc => max acc x) init) x with ⟨h, _⟩ | ⟨h, _⟩
    · rw [h]; rcases ih with ih | ih
      · exact Or.inl ih
      · exact Or.inr (List.mem_cons_of_mem _ ih)
    · rw [h]; exact Or.inr (by simp)

theorem foldl_max_ge (x : Rat) (l : List Rat) :
    x ≤ l.foldl max x ∧ ∀ y ∈ l, y ≤ l.foldl max x := by
  induction l generalizing x with
  | nil => simp
  | cons z zs ih =>
    simp only [List.foldl_cons]
    obtain ⟨h1, h2⟩ := ih (max x z)
    refine ⟨le_trans (le_max_left _ _) h1, ?_⟩
    intro y hy
    rcases List.mem_cons.mp hy with rfl | hy
    · exact le_trans (le_max_right _ _) h1
    · exact h2 y hy

theorem foldl_max_mem (x : Rat) (l : List Rat) : l.foldl max x = x ∨ l.foldl max x ∈ l := by
  induction l generalizing x with
  | nil => simp
  | cons z zs ih =>
    simp only [List.foldl_cons]
    rcases ih (max x z) with h | h
    · rw [h]
      rcases max_cases x z with ⟨h', _⟩ | ⟨h', _⟩
      · exact Or.inl h'
      · exact Or.inr (by rw [h']; simp)
    · exact Or.inr (List.mem_cons_of_mem _ h)

/-- `listMax` returns the maximum element -/
theorem listMax_spec (l : List Rat) (m : Rat) (h : listMax l = some m) : m ∈ l ∧ ∀ y ∈ l, y ≤ m := by
  cases l with
  | nil => simp [listMax] at h
  | cons x xs =>
    simp only [listMax, Option.some.injEq] at h
    have hf : ∀ a b : Rat, fmax a b = max a b := fun _ _ => rfl
    have h' : xs.foldl max x = m := by
      rw [← h]; congr
    subst h'
    obtain ⟨h1, h2⟩ := foldl_max_ge x xs
    refine ⟨?_, ?_⟩
    · rcases foldl_max_mem x xs with e | e
      · rw [e]; simp
      · exact List.mem_cons_of_mem _ e
    · intro y hy
      rcases List.mem_cons.mp hy with rfl | hy
      · exact h1
      · exact h2 y hy

theorem listMax_isSome (l : List Rat) (h : l ≠ []) : ∃ m, listMax l = some m := by
  cases l with
  | nil => exact absurd rfl h
  | cons x xs => exact ⟨_, rfl⟩

/-- with the last element as initial value, the reverse fold yields the maximum of the list -/
theorem foldr_max_last_spec (l : List Rat) (init : Rat) (h : l.getLast? = some init) :
    l.foldr (fun x acc => max acc x) init ∈ l ∧ ∀ y ∈ l, y ≤ l.foldr (fun x acc => max acc x) init := by
  refine ⟨?_, foldr_max_ge_mem init l⟩
  rcases foldr_max_mem init l with e | e
  · rw [e]; exact List.mem_of_getLast? h
  · exact e

theorem getLast?_drop (l : List Rat) (i : Nat) (h : i < l.length) : (l.drop i).getLast? = l.getLast? := by
  rw [List.getLast?_drop]
  simp [Nat.not_le.mpr h]


/-! ### floor / interpolation helpers -/

theorem floor_facts (q : Rat) (hq : 0 ≤ q) :
    ((q.floor.toNat : Nat) : Rat) ≤ q ∧ q < ((q.floor.toNat : Nat) : Rat) + 1 := by
  have h0 : 0 ≤ q.floor := Rat.le_floor_iff.mpr (by simpa using hq)
  have h1 : ((q.floor.toNat : Nat) : Int) = q.floor := Int.toNat_of_nonneg h0
  have hcast : ((q.floor.toNat : Nat) : Rat) = ((q.floor : Int) : Rat) :=
    calc ((q.floor.toNat : Nat) : Rat) = (((q.floor.toNat : Nat) : Int) : Rat) := (Int.cast_natCast _).symm
      _ = ((q.floor : Int) : Rat) := by rw [h1]
  have h2 : ((q.floor : Int) : Rat) ≤ q := Rat.le_floor_iff.mp (le_refl _)
  have h3 : q < ((q.floor : Int) : Rat) + 1 := by
    by_contra hc
    rw [not_lt] at hc
    have : q.floor + 1 ≤ q.floor := Rat.le_floor_iff.mpr (by push_cast; exact hc)
    omega
  rw [hcast]; exact ⟨h2, h3⟩

theorem floor_mono (q q' : Rat) (h : q ≤ q') : q.floor.toNat ≤ q'.floor.toNat := by
  apply Int.toNat_le_toNat
  exact Rat.le_floor_iff.mpr (le_trans (Rat.le_floor_iff.mp (le_refl _)) h)

theorem floor_nat (i : Nat) : ((i : Rat)).floor.toNat = i := by
  have : ((i : Rat)).floor = (i : Int) := by
    apply le_antisymm
    · have := Rat.le_floor_iff.mp (le_refl ((i : Rat)).floor)
      exact_mod_cast this
    · exact Rat.le_floor_iff.mpr (by simp)
  rw [this]; simp

/-- everything `posterior_error` computes for a score inside the fitted range -/
theorem pe_decomp (e : Estimator Rat) (s : Rat) (hn : 1 ≤ e.bins.length) (hstep : 0 < e.scoreStep)
    (h1 : e.minScore ≤ s)
    (h2 : s ≤ e.minScore + ((e.bins.length - 1 : Nat) : Rat) * e.scoreStep) :
    ∃ (lo : Nat) (bl bh t : Rat), lo = binLo e s ∧ lo = ((s - e.minScore) / e.scoreStep).floor.toNat ∧
      lo ≤ e.bins.length - 1 ∧
      e.bins[lo]? = some bl ∧ e.bins[min (e.bins.length - 1) (lo + 1)]? = some bh ∧
      0 ≤ t ∧ t < 1 ∧ s = e.minScore + ((lo : Rat) + t) * e.scoreStep ∧
      posteriorError e s = some (bl + (bh - bl) * t) := by
  have hne : e.scoreStep ≠ 0 := ne_of_gt hstep
  set q := (s - e.minScore) / e.scoreStep with hq
  have hq0 : 0 ≤ q := div_nonneg (by linarith) (le_of_lt hstep)
  have hqn : q ≤ ((e.bins.length - 1 : Nat) : Rat) := by
    rw [hq, div_le_iff₀ hstep]; linarith
  obtain ⟨hf1, hf2⟩ := floor_facts q hq0
  have hfl : q.floor.toNat ≤ e.bins.length - 1 := by
    have : ((q.floor.toNat : Nat) : Rat) ≤ ((e.bins.length - 1 : Nat) : Rat) := le_trans hf1 hqn
    exact_mod_cast this
  have hlo : binLo e s = q.floor.toNat := by
    unfold binLo
    simp only [floorNat_rat]
    rw [← hq]
    exact min_eq_right hfl
  have hlt : q.floor.toNat < e.bins.length := by omega
  have hhi : min (e.bins.length - 1) (q.floor.toNat + 1) < e.bins.length := by
    have := min_le_left (e.bins.length - 1) (q.floor.toNat + 1)
    omega
  obtain ⟨bl, hbl⟩ : ∃ bl, e.bins[q.floor.toNat]? = some bl := ⟨_, List.getElem?_eq_getElem hlt⟩
  obtain ⟨bh, hbh⟩ : ∃ bh, e.bins[min (e.bins.length - 1) (q.floor.toNat + 1)]? = some bh :=
    ⟨_, List.getElem?_eq_getElem hhi⟩
  refine ⟨q.floor.toNat, bl, bh, q - (q.floor.toNat : Rat), hlo.symm, rfl, hfl, hbl, hbh,
    by linarith, by linarith, ?_, ?_⟩
  · rw [hq]; field_simp; ring
  · have hlin : (s - ((q.floor.toNat : Rat) * e.scoreStep + e.minScore)) / e.scoreStep
        = q - (q.floor.toNat : Rat) := by rw [hq]; field_simp; ring
    unfold posteriorError binHi
    simp only [hlo, hbl, hbh, ofNat_rat, hlin]
    rw [clamp01_rat_id _ (by linarith) (by linarith)]


/-! ### finiteness helpers (`XQ`) -/

/-- finite and inside `[0,1]` -/
def Fin01 (x : XQ) : Prop := ∃ q : Rat, x = some q ∧ 0 ≤ q ∧ q ≤ 1

theorem kernel_finite (F : Fns XQ) (hexp : ∀ x : Rat, ∃ y, F.exp (some x) = some y ∧ 0 < y) (z : Rat) :
    ∃ y, kernel F (some z : XQ) = some y ∧ 0 < y := by
  unfold kernel sq
  have h2 : (ofNat 1 : XQ) / ofNat 2 = some (1 / 2) := by
    simp only [xq_ofNat]; rw [xq_div _ _ (by norm_num)]; norm_num
  rw [h2]
  simp only [xq_neg, xq_mul]
  exact hexp _

theorem ksum_finite (F : Fns XQ) (hexp : ∀ x : Rat, ∃ y, F.exp (some x) = some y ∧ 0 < y)
    (h x : Rat) (hh : h ≠ 0) (l : List Rat) (acc : Rat) :
    ∃ y, (l.map some).foldl (fun (a : XQ) xi => a + kernel F ((some x - xi) / some h)) (some acc) = some y ∧
      acc ≤ y ∧ (l ≠ [] → acc < y) := by
  induction l generalizing acc with
  | nil => exact ⟨acc, rfl, le_refl _, fun h => absurd rfl h⟩
  | cons xi xs ih =>
    simp only [List.map_cons, List.foldl_cons, xq_sub]
    rw [xq_div _ _ hh]
    obtain ⟨k, hk, hkpos⟩ := kernel_finite F hexp ((x - xi) / h)
    rw [hk, xq_add]
    obtain ⟨y, hy, hle, _⟩ := ih (acc + k)
    exact ⟨y, hy, by linarith, fun _ => by linarith⟩

/-- a density is finite and positive when the bandwidth is non-zero and the constant positive -/
theorem pdf_finite (F : Fns XQ) (hexp : ∀ x : Rat, ∃ y, F.exp (some x) = some y ∧ 0 < y)
    (sample : List Rat) (hs : sample ≠ []) (h c x : Rat) (hh : h ≠ 0) (hc : 0 < c) :
    ∃ y, Kde.pdf F { sample := sample.map some, bandwidth := some h, constant := some c } (some x) = some y
      ∧ 0 < y := by
  unfold Kde.pdf Kde.ksum
  simp only [xq_ofNat]
  obtain ⟨y, hy, _, hlt⟩ := ksum_finite F hexp h x hh sample ((0 : Nat) : Rat)
  rw [hy, xq_div _ _ (ne_of_gt hc)]
  have : (0 : Rat) < y := by simpa using hlt hs
  exact ⟨y / c, rfl, div_pos this hc⟩

theorem bayes_finite (p a b : Rat) (hp0 : 0 ≤ p) (hp1 : p ≤ 1) (ha : 0 < a) (hb : 0 < b) :
    Fin01 (bayes (some p : XQ) (some a) (some b)) := by
  have hden : 0 < b * (1 - p) + a * p := by
    rcases le_total p (1 / 2) with h | h
    · have : 0 < b * (1 - p) := mul_pos hb (by linarith)
      have : 0 ≤ a * p := mul_nonneg ha.le hp0
      linarith
    · have : 0 < a * p := mul_pos ha (by linarith)
      have : 0 ≤ b * (1 - p) := mul_nonneg hb.le (by linarith)
      linarith
  unfold bayes
  simp only [xq_ofNat, xq_mul, xq_sub, xq_add, Nat.cast_one]
  rw [xq_div _ _ (ne_of_gt hden)]
  refine ⟨_, rfl, div_nonneg (mul_nonneg ha.le hp0) hden.le, ?_⟩
  rw [div_le_one hden]
  have : 0 ≤ b * (1 - p) := mul_nonneg hb.le (by linarith)
  linarith

theorem envGo_finite (init : XQ) (hi : Fin01 init) (l : List XQ) (hl : ∀ x ∈ l, Fin01 x) :
    Fin01 (envGo init l).2 ∧ ∀ y ∈ (envGo init l).1, Fin01 y := by
  induction l with
  | nil => exact ⟨hi, by simp [envGo]⟩
  | cons x xs ih =>
    obtain ⟨hacc, hall⟩ := ih (fun y hy => hl y (List.mem_cons_of_mem _ hy))
    obtain ⟨qa, hqa, ha0, ha1⟩ := hacc
    obtain ⟨qx, hqx, hx0, hx1⟩ := hl x (by simp)
    have hv : Fin01 (fmax (envGo init xs).2 x) := by
      rw [hqa, hqx, xq_fmax]
      exact ⟨_, rfl, le_max_of_le_left ha0, max_le ha1 hx1⟩
    refine ⟨hv, ?_⟩
    intro y hy
    simp only [envGo, List.mem_cons] at hy
    rcases hy with rfl | hy
    · exact hv
    · exact hall y hy

theorem foldExt_finite (f : XQ → XQ → XQ) (hf : ∀ a b : Rat, ∃ c, f (some a) (some b) = some c)
    (l : List Rat) (hl : l ≠ []) : ∃ m : Rat, foldExt f (l.map some) = some (some m) := by
  unfold foldExt
  have key : ∀ (l : List Rat) (acc : Option XQ), (acc = none ∨ ∃ m : Rat, acc = some (some m)) →
      (l ≠ [] ∨ acc ≠ none) →
      ∃ m : Rat, (l.map some).foldl (extStep f) acc = some (some m) := by
    intro l
    induction l with
    | nil =>
      intro acc h1 h2
      rcases h1 with rfl | ⟨m, rfl⟩
      · rcases h2 with h | h <;> exact absurd rfl h
      · exact ⟨m, rfl⟩
    | cons x xs ih =>
      intro acc h1 _
      simp only [List.map_cons, List.foldl_cons]
      rcases h1 with rfl | ⟨m, rfl⟩
      · exact ih _ (Or.inr ⟨x, rfl⟩) (Or.inr (by simp [extStep]))
      · obtain ⟨c, hc⟩ := hf m x
        simp only [extStep, hc]
        exact ih _ (Or.inr ⟨c, rfl⟩) (Or.inr (by simp))
  exact key l none (Or.inl rfl) (Or.inl hl)

/-! ## property theorems -/

/-- **C14.bayes_range** — the Bayes ratio `π·fd / (π·fd + (1−π)·ft)` as the code computes it is in
    `[0,1]` whenever the densities are non-negative, `π` is a probability and the denominator is
    positive. -/
theorem bayes_range (π fd ft : Rat) (hπ0 : 0 ≤ π) (hπ1 : π ≤ 1) (hd : 0 ≤ fd) (ht : 0 ≤ ft)
    (hpos : 0 < π * fd + (1 - π) * ft) : 0 ≤ bayes π fd ft ∧ bayes π fd ft ≤ 1 := by
  unfold bayes
  simp only [ofNat_rat, Nat.cast_one]
  have h1 : 0 ≤ fd * π := mul_nonneg hd hπ0
  have h2 : 0 ≤ ft * (1 - π) := mul_nonneg ht (by linarith)
  have h3 : 0 < ft * (1 - π) + fd * π := by nlinarith
  refine ⟨div_nonneg h1 (le_of_lt h3), ?_⟩
  rw [div_le_one h3]
  linarith

/-- **C14.bayes_monotone** — the Bayes ratio moves the right way: for a probability `π` and non-negative
densities with a positive denominator, more decoy density at a score never lowers its posterior error, and more
target density never raises it (exact arithmetic). -/
theorem bayes_monotone (π fd fd' ft ft' : Rat) (hπ0 : 0 ≤ π) (hπ1 : π ≤ 1) (hd : 0 ≤ fd) (hdd : fd ≤ fd')
    (ht : 0 ≤ ft) (htt : ft ≤ ft') (hpos : 0 < π * fd + (1 - π) * ft) :
    bayes π fd ft ≤ bayes π fd' ft ∧ bayes π fd ft' ≤ bayes π fd ft := by
  unfold bayes
  simp only [ofNat_rat, Nat.cast_one]
  have hq : 0 ≤ 1 - π := by linarith
  have h3 : 0 < ft * (1 - π) + fd * π := by nlinarith
  have h4 : 0 < ft * (1 - π) + fd' * π := by nlinarith
  have h5 : 0 < ft' * (1 - π) + fd * π := by nlinarith
  have a1 : 0 ≤ fd * π := mul_nonneg hd hπ0
  have a2 : 0 ≤ ft * (1 - π) := mul_nonneg ht hq
  have a3 : fd * π ≤ fd' * π := mul_le_mul_of_nonneg_right hdd hπ0
  have a4 : ft * (1 - π) ≤ ft' * (1 - π) := mul_le_mul_of_nonneg_right htt hq
  constructor
  · rw [div_le_div_iff₀ h3 h4]; nlinarith
  · rw [div_le_div_iff₀ h5 h3]; nlinarith

/-- the code's formula is the textbook one -/
theorem bayes_eq_spec (π fd ft : Rat) : bayes π fd ft = specBayes π fd ft := by
  unfold bayes specBayes
  simp only [ofNat_rat, Nat.cast_one]
  rw [mul_comm fd π, mul_comm ft (1 - π), add_comm]

/-- `π = #decoys / #scores` is a probability -/
theorem pi_range (d n : Nat) (h : d ≤ n) (hn : 0 < n) :
    0 ≤ (ofNat d : Rat) / ofNat n ∧ (ofNat d : Rat) / ofNat n ≤ 1 := by
  simp only [ofNat_rat]
  have hn' : (0 : Rat) < n := by exact_mod_cast hn
  refine ⟨div_nonneg (by positivity) (le_of_lt hn'), ?_⟩
  rw [div_le_one hn']
  exact_mod_cast h

example : bayes (1/2 : Rat) 1 3 = 1/4 := by norm_num [bayes, NumExt.ofNat]
example : (0:Rat) ≤ bayes (1/2) 1 3 ∧ bayes (1/2 : Rat) 1 3 ≤ 1 :=
  bayes_range _ _ _ (by norm_num) (by norm_num) (by norm_num) (by norm_num) (by norm_num)

/-- **C14.envelope_spec** — the reverse `max` fold of `Builder::build` leaves at every index `i` the
    maximum of the raw values at indices `≥ i` (it is one of them and dominates all of them; it is
    what the naive `listMax (raw.drop i)` returns), for every non-empty list of raw values. -/
theorem envelope_spec (raw env : List Rat) (h : envelope raw = some env) :
    env.length = raw.length ∧
    ∀ i, i < raw.length → ∃ m, env[i]? = some m ∧ listMax (raw.drop i) = some m ∧
      m ∈ raw.drop i ∧ ∀ y ∈ raw.drop i, y ≤ m := by
  unfold envelope at h
  cases hl : raw.getLast? with
  | none => rw [hl] at h; simp at h
  | some init =>
    rw [hl] at h
    simp only [Option.some.injEq] at h
    subst h
    refine ⟨envGo_length _ _, ?_⟩
    intro i hi
    have hne : raw.drop i ≠ [] := by
      intro e
      have := congrArg List.length e
      simp at this; omega
    obtain ⟨m, hm⟩ := listMax_isSome _ hne
    obtain ⟨hm1, hm2⟩ := listMax_spec _ _ hm
    have hlast : (raw.drop i).getLast? = some init := by rw [getLast?_drop raw i hi, hl]
    obtain ⟨hf1, hf2⟩ := foldr_max_last_spec (raw.drop i) init hlast
    have heq : (raw.drop i).foldr (fun x acc => max acc x) init = m :=
      le_antisymm (hm2 _ hf1) (hf2 _ hm1)
    refine ⟨m, ?_, hm, hm1, hm2⟩
    rw [envGo_get init raw i hi, heq]

/-- the envelope exists exactly for non-empty input (the `unwrap` panics on an empty bin vector) -/
theorem envelope_isSome (raw : List Rat) (h : raw ≠ []) : ∃ env, envelope raw = some env := by
  unfold envelope
  cases hl : raw.getLast? with
  | none => exact absurd (List.getLast?_eq_none_iff.mp hl) h
  | some init => exact ⟨_, rfl⟩

/-- **C14.envelope_antitone** — the envelope never increases with the bin index (score) -/
theorem envelope_antitone (raw env : List Rat) (h : envelope raw = some env) :
    ∀ (i j : Nat) (a b : Rat), i ≤ j → env[i]? = some a → env[j]? = some b → b ≤ a := by
  intro i j a b hij ha hb
  obtain ⟨hlen, hspec⟩ := envelope_spec raw env h
  have hj : j < raw.length := by
    rw [← hlen]; exact (List.getElem?_eq_some_iff.mp hb).1
  have hi : i < raw.length := by omega
  obtain ⟨m, hm, _, _, hmge⟩ := hspec i hi
  obtain ⟨m', hm', _, hmem', _⟩ := hspec j hj
  rw [ha] at hm; rw [hb] at hm'
  simp only [Option.some.injEq] at hm hm'
  subst hm; subst hm'
  apply hmge
  -- an element of `raw.drop j` is an element of `raw.drop i`
  have : raw.drop j = (raw.drop i).drop (j - i) := by
    rw [List.drop_drop]; congr 1; omega
  rw [this] at hmem'
  exact List.mem_of_mem_drop hmem'

/-- **C14.envelope_eq_specEnvelope** — the fold equals the O(n²) definition the driver evaluates -/
theorem envelope_eq_specEnvelope (raw env : List Rat) (h : envelope raw = some env) :
    env = specEnvelope raw := by
  obtain ⟨hlen, hspec⟩ := envelope_spec raw env h
  apply List.ext_getElem?
  intro i
  unfold specEnvelope
  by_cases hi : i < raw.length
  · obtain ⟨m, hm, hm', _, _⟩ := hspec i hi
    rw [hm, List.getElem?_map, List.getElem?_range hi]
    simp [hm']
  · have h1 : env[i]? = none := List.getElem?_eq_none (by omega)
    have h2 : ((List.range raw.length).map fun i => (listMax (raw.drop i)).getD (ofNat 0))[i]? = none :=
      List.getElem?_eq_none (by simp; omega)
    rw [h1, h2]

example : envelope [(1:Rat)/2, 1/4, 1/3, 1/10] = some [1/2, 1/3, 1/3, 1/10] := by
  norm_num [envelope, envGo, NumExt.fmax]

/-- **C14.interp_spec** — for a score inside the fitted range `[min, min + (n−1)·step]`,
    `posterior_error` selects the bin `lo = ⌊(s−min)/step⌋` containing the score, and returns the
    affine interpolation `b_lo + (b_hi − b_lo)·t` at the position `t ∈ [0,1)` of the score inside the
    bin (`s = min + (lo + t)·step`), which lies between the two neighbouring grid values. -/
theorem interp_spec (e : Estimator Rat) (s : Rat) (hn : 1 ≤ e.bins.length) (hstep : 0 < e.scoreStep)
    (h1 : e.minScore ≤ s)
    (h2 : s ≤ e.minScore + ((e.bins.length - 1 : Nat) : Rat) * e.scoreStep) :
    ∃ (lo : Nat) (bl bh t v : Rat), lo ≤ e.bins.length - 1 ∧
      e.bins[lo]? = some bl ∧ e.bins[min (e.bins.length - 1) (lo + 1)]? = some bh ∧
      0 ≤ t ∧ t < 1 ∧ s = e.minScore + ((lo : Rat) + t) * e.scoreStep ∧
      posteriorError e s = some v ∧ v = bl + (bh - bl) * t ∧ min bl bh ≤ v ∧ v ≤ max bl bh := by
  obtain ⟨lo, bl, bh, t, _, _, hlo, hbl, hbh, ht0, ht1, hs, hv⟩ := pe_decomp e s hn hstep h1 h2
  refine ⟨lo, bl, bh, t, _, hlo, hbl, hbh, ht0, ht1, hs, hv, rfl, ?_, ?_⟩
  · rcases le_total bl bh with h | h
    · rw [min_eq_left h]; nlinarith
    · rw [min_eq_right h]; nlinarith
  · rcases le_total bl bh with h | h
    · rw [max_eq_right h]; nlinarith
    · rw [max_eq_left h]; nlinarith

/-- **C14.interp_grid** — at the grid point `min + i·step` the value is the grid value `bins[i]` -/
theorem interp_grid (e : Estimator Rat) (i : Nat) (b : Rat) (hstep : 0 < e.scoreStep)
    (hb : e.bins[i]? = some b) :
    posteriorError e (e.minScore + (i : Rat) * e.scoreStep) = some b := by
  have hi : i < e.bins.length := (List.getElem?_eq_some_iff.mp hb).1
  have hne : e.scoreStep ≠ 0 := ne_of_gt hstep
  have hq : (e.minScore + (i : Rat) * e.scoreStep - e.minScore) / e.scoreStep = (i : Rat) := by
    field_simp; ring
  have hlo : binLo e (e.minScore + (i : Rat) * e.scoreStep) = i := by
    unfold binLo
    simp only [floorNat_rat, hq, floor_nat]
    exact min_eq_right (by omega)
  have hhi : min (e.bins.length - 1) (i + 1) < e.bins.length := by
    have := min_le_left (e.bins.length - 1) (i + 1)
    omega
  obtain ⟨bh, hbh⟩ : ∃ bh, e.bins[min (e.bins.length - 1) (i + 1)]? = some bh :=
    ⟨_, List.getElem?_eq_getElem hhi⟩
  unfold posteriorError binHi
  simp only [hlo, hb, hbh, ofNat_rat]
  congr 1
  have : (e.minScore + (i : Rat) * e.scoreStep - ((i : Rat) * e.scoreStep + e.minScore)) = 0 := by ring
  rw [this]; simp [clamp01_rat]

/-- **C14.interp_range** — if every grid value is in `[0,1]`, so is every interpolated value -/
theorem interp_range (e : Estimator Rat) (s : Rat) (hn : 1 ≤ e.bins.length) (hstep : 0 < e.scoreStep)
    (h1 : e.minScore ≤ s)
    (h2 : s ≤ e.minScore + ((e.bins.length - 1 : Nat) : Rat) * e.scoreStep)
    (hb : ∀ b ∈ e.bins, 0 ≤ b ∧ b ≤ 1) :
    ∃ v, posteriorError e s = some v ∧ 0 ≤ v ∧ v ≤ 1 := by
  obtain ⟨lo, bl, bh, t, v, _, hbl, hbh, _, _, _, hv, _, hmin, hmax⟩ := interp_spec e s hn hstep h1 h2
  have hl := hb bl (List.mem_of_getElem? hbl)
  have hh := hb bh (List.mem_of_getElem? hbh)
  refine ⟨v, hv, le_trans (le_min hl.1 hh.1) hmin, le_trans hmax (max_le hl.2 hh.2)⟩

/-- **C14.interp_range_all** — thanks to the clamp of the interpolation weight, for EVERY score
    (inside or outside the fitted range, whatever the step) the value is a convex combination of
    two grid values: it lies between them, hence in `[0,1]` when the grid is. -/
theorem interp_range_all (e : Estimator Rat) (s : Rat) (hn : e.bins ≠ []) :
    ∃ v bl bh, posteriorError e s = some v ∧ bl ∈ e.bins ∧ bh ∈ e.bins ∧ min bl bh ≤ v ∧ v ≤ max bl bh := by
  have hlen : 0 < e.bins.length := List.length_pos_iff.mpr hn
  have h1 : binLo e s < e.bins.length := by
    unfold binLo
    have := min_le_left (e.bins.length - 1) (floorNat ((s - e.minScore) / e.scoreStep))
    omega
  have h2 : binHi e (binLo e s) < e.bins.length := by
    unfold binHi
    have := min_le_left (e.bins.length - 1) (binLo e s + 1)
    omega
  have g1 : e.bins[binLo e s]? = some e.bins[binLo e s] := List.getElem?_eq_getElem h1
  have g2 : e.bins[binHi e (binLo e s)]? = some e.bins[binHi e (binLo e s)] := List.getElem?_eq_getElem h2
  unfold posteriorError
  simp only [g1, g2]
  obtain ⟨c0, c1⟩ := clamp01_rat_range
    ((s - (ofNat (binLo e s) * e.scoreStep + e.minScore)) / e.scoreStep)
  refine ⟨_, _, _, rfl, List.getElem_mem h1, List.getElem_mem h2, ?_, ?_⟩
  · rcases le_total e.bins[binLo e s] e.bins[binHi e (binLo e s)] with h | h
    · rw [min_eq_left h]; nlinarith
    · rw [min_eq_right h]; nlinarith
  · rcases le_total e.bins[binLo e s] e.bins[binHi e (binLo e s)] with h | h
    · rw [max_eq_right h]; nlinarith
    · rw [max_eq_left h]; nlinarith

/-- **C14.interp_antitone** — if the grid values never increase with the bin index (which the
    envelope guarantees, `envelope_antitone`), the posterior error never increases with the score
    anywhere inside the fitted range. -/
theorem interp_antitone (e : Estimator Rat) (s s' : Rat) (hn : 1 ≤ e.bins.length)
    (hstep : 0 < e.scoreStep) (h1 : e.minScore ≤ s) (hss : s ≤ s')
    (h2 : s' ≤ e.minScore + ((e.bins.length - 1 : Nat) : Rat) * e.scoreStep)
    (hanti : ∀ (i j : Nat) (a b : Rat), i ≤ j → e.bins[i]? = some a → e.bins[j]? = some b → b ≤ a) :
    ∃ v v', posteriorError e s = some v ∧ posteriorError e s' = some v' ∧ v' ≤ v := by
  obtain ⟨lo, bl, bh, t, _, hloq, hlo, hbl, hbh, ht0, ht1, hs, hv⟩ :=
    pe_decomp e s hn hstep h1 (le_trans hss h2)
  obtain ⟨lo', bl', bh', t', _, hloq', hlo', hbl', hbh', ht0', ht1', hs', hv'⟩ :=
    pe_decomp e s' hn hstep (le_trans h1 hss) h2
  refine ⟨_, _, hv, hv', ?_⟩
  have hlolo : lo ≤ lo' := by
    rw [hloq, hloq']
    apply floor_mono
    exact div_le_div_of_nonneg_right (by linarith) (le_of_lt hstep)
  have hd : bh ≤ bl := hanti _ _ _ _ (by
    have := le_min_iff.mpr ⟨hlo, Nat.le_succ lo⟩; exact this) hbl hbh
  have hd' : bh' ≤ bl' := hanti _ _ _ _ (by
    have := le_min_iff.mpr ⟨hlo', Nat.le_succ lo'⟩; exact this) hbl' hbh'
  rcases Nat.lt_or_ge lo lo' with hlt | hge
  · -- different bins: v ≥ b_hi ≥ b_lo' ≥ v'
    have hhi : min (e.bins.length - 1) (lo + 1) ≤ lo' := le_trans (min_le_right _ _) hlt
    have hmid : bl' ≤ bh := hanti _ _ _ _ hhi hbh hbl'
    nlinarith
  · -- same bin: affine with non-positive slope
    have heq : lo = lo' := le_antisymm hlolo hge
    subst heq
    rw [hbl] at hbl'; rw [hbh] at hbh'
    simp only [Option.some.injEq] at hbl' hbh'
    subst hbl'; subst hbh'
    have htt : t ≤ t' := by
      have : ((lo : Rat) + t) * e.scoreStep ≤ ((lo : Rat) + t') * e.scoreStep := by linarith
      have := le_of_mul_le_mul_right this hstep
      linarith
    nlinarith

/-- non-vacuity: 3 bins over `[0, 2]`; the value at `s = 1/2` is half-way between bins 0 and 1 -/
example : posteriorError ({ bins := [1, 1/2, 0], minScore := 0, scoreStep := 1 } : Estimator Rat) (1/2)
    = some (3/4) := by
  decide +kernel

/-- **C14.finite_bins** — run at `XQ` (a division by zero or any non-finite intermediate value
    yields `none`): if both class bandwidths are finite and non-zero, both normalising constants
    finite and positive, and `exp` returns finite positive values, then every raw Bayes ratio on
    the grid is finite and in `[0,1]` — no `0/0`, whatever the scores, grid and bin count. -/
theorem finite_bins (F : Fns XQ) (hexp : ∀ x : Rat, ∃ y, F.exp (some x) = some y ∧ 0 < y)
    (d t : List Rat) (hd : d ≠ []) (ht : t ≠ []) (hdb cd htb ct p minS step : Rat)
    (hd0 : hdb ≠ 0) (ht0 : htb ≠ 0) (hcd : 0 < cd) (hct : 0 < ct) (hp0 : 0 ≤ p) (hp1 : p ≤ 1) (nbins : Nat) :
    ∀ b ∈ rawBins F { sample := d.map some, bandwidth := some hdb, constant := some cd }
                     { sample := t.map some, bandwidth := some htb, constant := some ct }
                     (some p) (some minS) (some step) nbins, Fin01 b := by
  intro b hb
  unfold rawBins at hb
  simp only [List.mem_map, List.mem_range, xq_ofNat, xq_mul, xq_add] at hb
  obtain ⟨bin, _, rfl⟩ := hb
  obtain ⟨a, ha, hapos⟩ := pdf_finite F hexp d hd hdb cd ((bin : Rat) * step + minS) hd0 hcd
  obtain ⟨b', hb', hbpos⟩ := pdf_finite F hexp t ht htb ct ((bin : Rat) * step + minS) ht0 hct
  rw [ha, hb']
  exact bayes_finite p a b' hp0 hp1 hapos hbpos

/-- the envelope keeps finite `[0,1]` values finite and in `[0,1]` -/
theorem finite_envelope (raw env : List XQ) (h : envelope raw = some env) (hraw : ∀ x ∈ raw, Fin01 x) :
    ∀ y ∈ env, Fin01 y := by
  unfold envelope at h
  cases hl : raw.getLast? with
  | none => rw [hl] at h; simp at h
  | some init =>
    rw [hl] at h
    simp only [Option.some.injEq] at h
    subst h
    exact (envGo_finite init (hraw init (List.mem_of_getLast? hl)) raw hraw).2

/-- **C14.finite_posterior** — with finite bins and a finite NON-ZERO step, `posterior_error` of
    every finite score is finite (the only division is by `score_step`). -/
theorem finite_posterior (bins : List Rat) (hb : bins ≠ []) (minS step s : Rat) (hstep : step ≠ 0) :
    ∃ v : Rat, posteriorError ({ bins := bins.map some, minScore := some minS, scoreStep := some step } : Estimator XQ)
      (some s) = some (some v) := by
  have hlen : 0 < bins.length := List.length_pos_iff.mpr hb
  unfold posteriorError
  simp only
  set e : Estimator XQ := { bins := bins.map some, minScore := some minS, scoreStep := some step } with he
  have h1 : binLo e (some s) < (bins.map some).length := by
    unfold binLo
    have := min_le_left (e.bins.length - 1) (floorNat ((some s - e.minScore) / e.scoreStep))
    simp only [he, List.length_map] at this ⊢
    omega
  have h2 : binHi e (binLo e (some s)) < (bins.map some).length := by
    unfold binHi
    have := min_le_left (e.bins.length - 1) (binLo e (some s) + 1)
    simp only [he, List.length_map] at this ⊢
    omega
  have g1 : e.bins[binLo e (some s)]? = some (some (bins[binLo e (some s)]'(by simpa using h1))) := by
    simp only [he, List.getElem?_map]
    rw [List.getElem?_eq_getElem (by simpa using h1)]; rfl
  have g2 : e.bins[binHi e (binLo e (some s))]? =
      some (some (bins[binHi e (binLo e (some s))]'(by simpa using h2))) := by
    simp only [he, List.getElem?_map]
    rw [List.getElem?_eq_getElem (by simpa using h2)]; rfl
  rw [g1, g2]
  simp only [he, xq_ofNat, xq_mul, xq_add, xq_sub]
  rw [xq_div _ _ hstep]
  simp only [xq_clamp01, xq_mul, xq_add]
  exact ⟨_, rfl⟩

/-- **C14.finite_partial** — the whole `Builder::build` at `XQ`: both classes present, at least two
    bins, `exp` finite and positive, and for each class a finite non-zero bandwidth and a finite
    positive normalising constant (this is the hypothesis the code does NOT establish: a class with
    zero score variance has bandwidth 0). Then the estimator exists, its grid origin and step are
    finite, and every bin is finite and in `[0,1]`, with or without the envelope. -/
theorem finite_partial (F : Fns XQ) (hexp : ∀ x : Rat, ∃ y, F.exp (some x) = some y ∧ 0 < y)
    (scores : List Rat) (decoys : List Bool) (nbins : Nat) (adj : Rat) (mono : Bool)
    (hbins : 2 ≤ nbins)
    (hd : classOf true scores decoys ≠ []) (ht : classOf false scores decoys ≠ [])
    (hkd : ∃ h c : Rat, h ≠ 0 ∧ 0 < c ∧
      Kde.new F (classOf true (scores.map some) decoys) (some adj) =
        { sample := (classOf true scores decoys).map some, bandwidth := some h, constant := some c })
    (hkt : ∃ h c : Rat, h ≠ 0 ∧ 0 < c ∧
      Kde.new F (classOf false (scores.map some) decoys) (some adj) =
        { sample := (classOf false scores decoys).map some, bandwidth := some h, constant := some c }) :
    ∃ (e : Estimator XQ) (m st : Rat),
      build F (scores.map some) decoys nbins (some adj) mono = some e ∧
      e.minScore = some m ∧ e.scoreStep = some st ∧ e.bins.length = nbins ∧ ∀ b ∈ e.bins, Fin01 b := by
  obtain ⟨hdb, cd, hd0, hcd, hkd⟩ := hkd
  obtain ⟨htb, ct, ht0, hct, hkt⟩ := hkt
  have hsne : scores ≠ [] := by
    intro h; apply hd; simp [classOf, h]
  obtain ⟨mn, hmn⟩ := foldExt_finite fmin (fun a b => ⟨_, xq_fmin a b⟩) scores hsne
  obtain ⟨mx, hmx⟩ := foldExt_finite fmax (fun a b => ⟨_, xq_fmax a b⟩) scores hsne
  have hn1 : ((nbins - 1 : Nat) : Rat) ≠ 0 := by
    have : 0 < nbins - 1 := by omega
    exact_mod_cast (ne_of_gt this)
  have hlen : (classOf true (scores.map some) decoys).length ≤ (scores.map some).length := by
    unfold classOf
    simp only [List.length_map]
    exact le_trans (List.length_filter_le _ _) (by simp [List.length_zip])
  have hspos : 0 < (scores.map some).length := by
    simp only [List.length_map]; exact List.length_pos_iff.mpr hsne
  -- π is a finite probability
  have hpi : ∃ p : Rat, (ofNat (classOf true (scores.map some) decoys).length : XQ) /
      ofNat (scores.map some).length = some p ∧ 0 ≤ p ∧ p ≤ 1 := by
    simp only [xq_ofNat]
    have hpos : (0 : Rat) < ((scores.map some).length : Rat) := by exact_mod_cast hspos
    rw [xq_div _ _ (ne_of_gt hpos)]
    refine ⟨_, rfl, div_nonneg (by positivity) hpos.le, ?_⟩
    rw [div_le_one hpos]
    exact_mod_cast hlen
  obtain ⟨p, hp, hp0, hp1⟩ := hpi
  have hraw := finite_bins F hexp _ _ hd ht hdb cd htb ct p mn ((mx - mn) / ((nbins - 1 : Nat) : Rat))
    hd0 ht0 hcd hct hp0 hp1 nbins
  have hstepeq : ((some mx : XQ) - some mn) / ofNat (nbins - 1) =
      some ((mx - mn) / ((nbins - 1 : Nat) : Rat)) := by
    simp only [xq_sub, xq_ofNat]; rw [xq_div _ _ hn1]
  have hrawlen : ∀ (kd kt : Kde XQ) (π a b : XQ), (rawBins F kd kt π a b nbins).length = nbins := by
    intros; simp [rawBins]
  unfold build
  simp only [hmn, hmx, hkd, hkt, hp, hstepeq]
  have hnb : ¬ nbins = 0 := by omega
  simp only [hnb, if_false]
  cases mono with
  | false =>
    exact ⟨_, mn, _, rfl, rfl, rfl, hrawlen _ _ _ _ _, hraw⟩
  | true =>
    simp only [if_true]
    set raw := rawBins F
      { sample := (classOf true scores decoys).map some, bandwidth := some hdb, constant := some cd }
      { sample := (classOf false scores decoys).map some, bandwidth := some htb, constant := some ct }
      (some p) (some mn) (some ((mx - mn) / ((nbins - 1 : Nat) : Rat))) nbins with hrawdef
    have hne : raw ≠ [] := by
      intro h
      have := hrawlen { sample := (classOf true scores decoys).map some, bandwidth := some hdb, constant := some cd }
        { sample := (classOf false scores decoys).map some, bandwidth := some htb, constant := some ct }
        (some p) (some mn) (some ((mx - mn) / ((nbins - 1 : Nat) : Rat)))
      rw [← hrawdef, h] at this
      simp at this; omega
    cases henv : envelope raw with
    | none =>
      unfold envelope at henv
      cases hl : raw.getLast? with
      | none => exact absurd (List.getLast?_eq_none_iff.mp hl) hne
      | some init => rw [hl] at henv; simp at henv
    | some env =>
      refine ⟨_, mn, _, rfl, rfl, rfl, ?_, finite_envelope raw env henv hraw⟩
      unfold envelope at henv
      cases hl : raw.getLast? with
      | none => rw [hl] at henv; simp at henv
      | some init =>
        rw [hl] at henv
        simp only [Option.some.injEq] at henv
        subst henv
        have : ∀ (init : XQ) (l : List XQ), (envGo init l).1.length = l.length := by
          intro init l; induction l with
          | nil => rfl
          | cons x xs ih => simp [envGo, ih]
        rw [this]
        exact hrawlen _ _ _ _ _

/-- **C14.finite_fails_on_zero_variance** — the hypothesis cannot be dropped: with a single decoy
    (σ = 0, bandwidth 0) the decoy density at the decoy's own score is `0/0`, non-finite, whatever
    `exp`, `sqrt`, `powf` are (here: constants). This is the known defect. -/
theorem finite_fails_on_zero_variance :
    let F : Fns XQ := { exp := fun _ => some 1, sqrt := fun x => x, powf := fun _ _ => some 1, pi := some 3 }
    (Kde.new F [some 1] (some 1)).bandwidth = some 0 ∧
    (Kde.new F [some 1] (some 1)).pdf F (some 1) = none := by
  decide +kernel

/-- **C14.reported_spec** — the value `score_psms` stores is the cast of the `log10` of the
    (double-precision) PEP, and the `-324` floor is used exactly when the PEP is `0`: provided the
    cast `log10` of every positive number is not infinite (true for `f64 → f32`: `log10` of a positive
    double lies in `[-323.4, 308.3]`) and that of `0` is. A code that casts the PEP first and takes the
    `log10` afterwards does not satisfy the first hypothesis (positive doubles below `1.4e-45` cast to 0). -/
theorem reported_spec {β : Type} (log10 : Rat → Rat) (cast : Rat → β) (isInf : β → Bool) (floorVal : β)
    (hpos : ∀ x : Rat, 0 < x → isInf (cast (log10 x)) = false)
    (hzero : isInf (cast (log10 0)) = true)
    (pep : Rat) (h : 0 ≤ pep) :
    reported log10 cast isInf floorVal pep = if pep = 0 then floorVal else cast (log10 pep) := by
  unfold reported
  rcases lt_or_eq_of_le h with hlt | heq
  · simp [hpos pep hlt, ne_of_gt hlt]
  · subst heq; simp [hzero]

/-- **C14.reported_finite** — what `score_psms` stores is finite as soon as the PEP is a finite
    number `≥ 0`: `log10` of a positive number is finite, `log10 0 = −∞` is replaced by the floor. -/
theorem reported_finite {β : Type} (log10 : Rat → Rat) (cast : Rat → β) (isInf isFinite : β → Bool)
    (floorVal : β)
    (hpos : ∀ x : Rat, 0 < x → isFinite (cast (log10 x)) = true)
    (hzero : isInf (cast (log10 0)) = true) (hfloor : isFinite floorVal = true)
    (hexcl : ∀ y, isFinite y = true → isInf y = false)
    (pep : Rat) (h : 0 ≤ pep) : isFinite (reported log10 cast isInf floorVal pep) = true := by
  rw [reported_spec log10 cast isInf floorVal (fun x hx => hexcl _ (hpos x hx)) hzero pep h]
  split
  · exact hfloor
  · next hne => exact hpos pep (lt_of_le_of_ne h (Ne.symm hne))

/-- non-vacuity of `reported_spec`: a toy `log10` (`x ↦ x − 1`), `none` as the infinite value -/
example : reported (fun x : Rat => x - 1) (fun x => if x = -1 then none else some x)
    (fun o => o.isNone) (some (-324)) (1/2) = some (-1/2) ∧
    reported (fun x : Rat => x - 1) (fun x => if x = -1 then none else some x)
    (fun o => o.isNone) (some (-324)) 0 = some (-324) := by
  constructor <;> decide +kernel

/-- the toy functions of the non-vacuity example: `sqrt := id`, `powf := 1`, `exp := 1`, `π := 3` -/
def toyFns : Fns XQ := { exp := fun _ => some 1, sqrt := fun x => x, powf := fun _ _ => some 1, pi := some 3 }

/-- non-vacuity of `finite_partial`: decoys `0, 2`, targets `1, 3`, 5 bins; with `toyFns` both
    bandwidths are `1` and both constants `12`. -/
example : ∃ (e : Estimator XQ) (m st : Rat),
    build toyFns (([0, 2, 1, 3] : List Rat).map some) [true, true, false, false] 5 (some 1) true = some e ∧
    e.minScore = some m ∧ e.scoreStep = some st ∧ e.bins.length = 5 ∧ ∀ b ∈ e.bins, Fin01 b :=
  finite_partial toyFns (fun _ => ⟨1, rfl, by norm_num⟩) [0, 2, 1, 3] [true, true, false, false] 5 1 true
    (by norm_num) (by decide +kernel) (by decide +kernel)
    ⟨1, 12, by norm_num, by norm_num, by decide +kernel⟩
    ⟨1, 12, by norm_num, by norm_num, by decide +kernel⟩

/-- non-vacuity of `finite_bins`/`bayes_finite`: a concrete finite Bayes ratio at `XQ` -/
example : bayes (some (1/2) : XQ) (some 1) (some 3) = some (1/4) := by decide +kernel

/-- **C14.build_length** — the estimator has exactly the requested number of bins (`Builder::default()`:
    1000), and it exists iff there is a score and a bin -/
theorem build_length (Fq : Fns Rat) (scores : List Rat) (decoys : List Bool) (nbins : Nat) (adj : Rat)
    (mono : Bool) (e : Estimator Rat) (h : build Fq scores decoys nbins adj mono = some e) :
    e.bins.length = nbins ∧ 0 < nbins := by
  unfold build at h
  simp only at h
  split at h
  · split at h
    · simp at h
    · next hn =>
      have hpos : 0 < nbins := Nat.pos_of_ne_zero hn
      cases mono with
      | false =>
        simp only [Bool.false_eq_true, if_false, Option.some.injEq] at h
        subst h
        exact ⟨by simp [rawBins], hpos⟩
      | true =>
        simp only [if_true] at h
        split at h
        · next bins hb =>
          simp only [Option.some.injEq] at h
          subst h
          obtain ⟨hl, _⟩ := envelope_spec _ _ hb
          exact ⟨by rw [hl]; simp [rawBins], hpos⟩
        · simp at h
  · simp at h

theorem buildDefault_length (Fq : Fns Rat) (scores : List Rat) (decoys : List Bool) (e : Estimator Rat)
    (h : buildDefault Fq scores decoys = some e) : e.bins.length = 1000 :=
  (build_length Fq scores decoys defaultBins _ true e h).1

/-! ## the code's KDE is the textbook one -/

/-- **C14.bandwidth_eq_spec** — `Kde::new` uses the rule-of-thumb bandwidth `σ·(4/(3n))^(1/5)` (Silverman
    factor 4/3, exponent 1/5, population σ), times the caller's factor -/
theorem bandwidth_eq_spec (Fq : Fns Rat) (l : List Rat) (adj : Rat) :
    (Kde.new Fq l adj).bandwidth = specBandwidth Fq l adj := by
  unfold Kde.new specBandwidth
  simp only [ofNat_rat]
  rw [div_div, mul_comm]

theorem foldl_add_eq (g : Rat → Rat) (l : List Rat) (a : Rat) :
    l.foldl (fun acc x => acc + g x) a = a + (l.map g).foldr (fun u v => u + v) 0 := by
  induction l generalizing a with
  | nil => simp
  | cons y ys ih => simp only [List.foldl_cons, List.map_cons, List.foldr_cons]; rw [ih]; ring

/-- **C14.pdf_eq_spec** — `Kde::pdf` is the Gaussian kernel density `1/(n·h·√(2π)) · Σ exp(−((x−xᵢ)/h)²/2)` -/
theorem pdf_eq_spec (Fq : Fns Rat) (l : List Rat) (adj x : Rat) :
    (Kde.new Fq l adj).pdf Fq x = specDensity Fq l (Kde.new Fq l adj).bandwidth x := by
  unfold Kde.pdf Kde.ksum specDensity
  have hs : (Kde.new Fq l adj).sample = l := rfl
  have hc : (Kde.new Fq l adj).constant =
      (ofNat l.length : Rat) * (Kde.new Fq l adj).bandwidth * Fq.sqrt (ofNat 2 * Fq.pi) := by
    show Fq.sqrt (ofNat 2 * Fq.pi) * (Kde.new Fq l adj).bandwidth * ofNat l.length = _
    ring
  rw [hs, hc, foldl_add_eq]
  simp only [ofNat_rat, Nat.cast_zero, zero_add]
  congr 2
  apply List.map_congr_left
  intro xi _
  unfold kernel sq
  simp only [ofNat_rat]
  congr 1
  push_cast
  ring

/-! ## exactly when a bin is non-finite -/

theorem ssd_acc (m : Rat) (l : List Rat) (a : Rat) (ha : 0 ≤ a) :
    a ≤ l.foldl (fun acc x => acc + sq (x - m)) a ∧
    (l.foldl (fun acc x => acc + sq (x - m)) a = 0 ↔ a = 0 ∧ ∀ x ∈ l, x = m) := by
  induction l generalizing a with
  | nil => simp
  | cons y ys ih =>
    have hsq : 0 ≤ sq (y - m) := by unfold sq; exact mul_self_nonneg _
    obtain ⟨h1, h2⟩ := ih (a + sq (y - m)) (by linarith)
    simp only [List.foldl_cons]
    refine ⟨by linarith, ?_⟩
    rw [h2]
    constructor
    · rintro ⟨h0, hall⟩
      have ha0 : a = 0 := by linarith
      have hs0 : sq (y - m) = 0 := by linarith
      have hy : y = m := by
        unfold sq at hs0
        have := mul_self_eq_zero.mp hs0
        linarith
      exact ⟨ha0, by intro x hx; rcases List.mem_cons.mp hx with rfl | hx; exact hy; exact hall x hx⟩
    · rintro ⟨h0, hall⟩
      have hy : y = m := hall y (by simp)
      refine ⟨by rw [h0, hy]; simp [sq], fun x hx => hall x (List.mem_cons_of_mem _ hx)⟩

/-- the sum of squared deviations vanishes exactly when every score equals `m` -/
theorem ssd_zero_iff (m : Rat) (l : List Rat) : ssd m l = 0 ↔ ∀ x ∈ l, x = m := by
  unfold ssd
  have := (ssd_acc m l ((0 : Nat) : Rat) (by simp)).2
  simpa using this

theorem ssd_nonneg (m : Rat) (l : List Rat) : 0 ≤ ssd m l := by
  unfold ssd
  have := (ssd_acc m l ((0 : Nat) : Rat) (by simp)).1
  simpa using this

theorem sum_const (c : Rat) (l : List Rat) (h : ∀ x ∈ l, x = c) : sum l = (l.length : Rat) * c := by
  unfold sum
  have : ∀ a : Rat, l.foldl (fun acc x => acc + x) a = a + (l.length : Rat) * c := by
    induction l with
    | nil => intro a; simp
    | cons y ys ih =>
      intro a
      have hy : y = c := h y (by simp)
      simp only [List.foldl_cons, List.length_cons]
      rw [ih (fun x hx => h x (List.mem_cons_of_mem _ hx)), hy]
      push_cast; ring
  rw [this]; simp

theorem mean_const (c : Rat) (l : List Rat) (hl : l ≠ []) (h : ∀ x ∈ l, x = c) : mean l = c := by
  unfold mean
  rw [sum_const c l h]
  have : ((l.length : Nat) : Rat) ≠ 0 := by
    have := List.length_pos_iff.mpr hl
    exact_mod_cast (ne_of_gt this)
  simp only [ofNat_rat]
  field_simp

/-- what the theorems need of the transcendental parameters at `Rat` -/
structure FnsOk (Fq : Fns Rat) : Prop where
  exp_nonneg : ∀ x, 0 ≤ Fq.exp x
  sqrt_nonneg : ∀ x, 0 ≤ x → 0 ≤ Fq.sqrt x
  sqrt_zero : ∀ x, 0 ≤ x → (Fq.sqrt x = 0 ↔ x = 0)
  powf_pos : ∀ a b, 0 < a → 0 < Fq.powf a b
  pi_pos : 0 < Fq.pi

/-- **C14.bandwidth_zero_iff** — the rule-of-thumb bandwidth `σ·(4/(3n))^(1/5)·adj` of a non-empty class is
    `0` exactly when all its scores are equal (a single score included) — for any `sqrt` that vanishes
    only at 0 and any positive `powf`. -/
theorem bandwidth_zero_iff (Fq : Fns Rat) (ok : FnsOk Fq) (l : List Rat) (hl : l ≠ []) (adj : Rat)
    (hadj : adj ≠ 0) :
    (Kde.new Fq l adj).bandwidth = 0 ↔ ∃ c, ∀ x ∈ l, x = c := by
  have hn : (0 : Rat) < ((l.length : Nat) : Rat) := by
    have := List.length_pos_iff.mpr hl
    exact_mod_cast this
  have hq : 0 ≤ ssd (mean l) l / ((l.length : Nat) : Rat) := div_nonneg (ssd_nonneg _ _) hn.le
  have hpow : 0 < Fq.powf ((ofNat 4 : Rat) / ofNat 3 / ofNat l.length) (ofNat 1 / ofNat 5) := by
    apply ok.powf_pos
    simp only [ofNat_rat]
    positivity
  unfold Kde.new
  simp only
  rw [mul_eq_zero, mul_eq_zero]
  constructor
  · rintro ((h | h) | h)
    · unfold std at h
      simp only [ofNat_rat] at h
      have := (ok.sqrt_zero _ hq).mp h
      have hs : ssd (mean l) l = 0 := by
        rcases div_eq_zero_iff.mp this with h' | h'
        · exact h'
        · exact absurd h' (ne_of_gt hn)
      exact ⟨mean l, (ssd_zero_iff _ _).mp hs⟩
    · exact absurd h (ne_of_gt hpow)
    · exact absurd h hadj
  · rintro ⟨c, hc⟩
    left; left
    unfold std
    simp only [ofNat_rat]
    have hm : mean l = c := mean_const c l hl hc
    have hs : ssd (mean l) l = 0 := (ssd_zero_iff _ _).mpr (by rw [hm]; exact hc)
    rw [hs]
    simp only [zero_div]
    exact (ok.sqrt_zero 0 (le_refl _)).mpr rfl

/-- the normalising constant `√(2π)·h·n` of a non-empty class vanishes exactly when the bandwidth does,
    and is non-negative when the bandwidth is -/
theorem constant_zero_iff (Fq : Fns Rat) (ok : FnsOk Fq) (l : List Rat) (hl : l ≠ []) (adj : Rat) :
    ((Kde.new Fq l adj).constant = 0 ↔ (Kde.new Fq l adj).bandwidth = 0) ∧
    (0 ≤ (Kde.new Fq l adj).bandwidth → 0 ≤ (Kde.new Fq l adj).constant) := by
  have hn : (0 : Rat) < ((l.length : Nat) : Rat) := by
    have := List.length_pos_iff.mpr hl
    exact_mod_cast this
  have h2pi : 0 < Fq.sqrt (ofNat 2 * Fq.pi) := by
    have hpos : (0 : Rat) < ofNat 2 * Fq.pi := by
      simp only [ofNat_rat]; exact mul_pos (by norm_num) ok.pi_pos
    have h1 := ok.sqrt_nonneg _ hpos.le
    have h2 : Fq.sqrt (ofNat 2 * Fq.pi) ≠ 0 := fun h => (ne_of_gt hpos) ((ok.sqrt_zero _ hpos.le).mp h)
    exact lt_of_le_of_ne h1 (Ne.symm h2)
  have hc : (Kde.new Fq l adj).constant =
      Fq.sqrt (ofNat 2 * Fq.pi) * (Kde.new Fq l adj).bandwidth * ((l.length : Nat) : Rat) := rfl
  rw [hc]
  constructor
  · constructor
    · intro h
      rcases mul_eq_zero.mp h with h' | h'
      · rcases mul_eq_zero.mp h' with h'' | h''
        · exact absurd h'' (ne_of_gt h2pi)
        · exact h''
      · exact absurd h' (ne_of_gt hn)
    · intro h; rw [h]; ring
  · intro h; positivity

theorem ksum_acc (Fq : Fns Rat) (ok : FnsOk Fq) (h x : Rat) (l : List Rat) (a : Rat) (ha : 0 ≤ a) :
    a ≤ l.foldl (fun acc xi => acc + kernel Fq ((x - xi) / h)) a ∧
    (l.foldl (fun acc xi => acc + kernel Fq ((x - xi) / h)) a = 0 ↔
      a = 0 ∧ ∀ xi ∈ l, kernel Fq ((x - xi) / h) = 0) := by
  induction l generalizing a with
  | nil => simp
  | cons y ys ih =>
    have hk : 0 ≤ kernel Fq ((x - y) / h) := ok.exp_nonneg _
    obtain ⟨h1, h2⟩ := ih (a + kernel Fq ((x - y) / h)) (by linarith)
    simp only [List.foldl_cons]
    refine ⟨by linarith, ?_⟩
    rw [h2]
    constructor
    · rintro ⟨h0, hall⟩
      refine ⟨by linarith, ?_⟩
      intro xi hxi
      rcases List.mem_cons.mp hxi with rfl | hxi
      · linarith
      · exact hall xi hxi
    · rintro ⟨h0, hall⟩
      have := hall y (by simp)
      exact ⟨by rw [h0, this]; simp, fun xi hxi => hall xi (List.mem_cons_of_mem _ hxi)⟩

/-- the kernel sum is `≥ 0`, and `0` exactly when every kernel value is (underflow) -/
theorem ksum_zero_iff (Fq : Fns Rat) (ok : FnsOk Fq) (k : Kde Rat) (x : Rat) :
    0 ≤ k.ksum Fq x ∧ (k.ksum Fq x = 0 ↔ ∀ xi ∈ k.sample, kernel Fq ((x - xi) / k.bandwidth) = 0) := by
  unfold Kde.ksum
  have := ksum_acc Fq ok k.bandwidth x k.sample ((0 : Nat) : Rat) (by simp)
  simpa using this

/-- **C14.raw_bin_nonfinite_iff** — the model run at `XQ` (`none` = NaN/±∞; `exp` may underflow to 0 but
    is otherwise finite): the raw Bayes ratio at a finite grid point `x`, for classes `d`, `t` (both
    non-empty) with finite bandwidths/constants (constant `= 0` iff bandwidth `= 0`, as `Kde::new`
    makes them) and `0 < π < 1`, is NON-FINITE **if and only if** the decoy bandwidth is 0, or the
    target bandwidth is 0, or every kernel value of BOTH classes at `x` is 0; in every other case it is
    finite and in `[0,1]`. These are exactly the two known findings (zero-variance class via
    `bandwidth_zero_iff`; density underflow) — the model has no other source of a NaN bin. -/
theorem raw_bin_nonfinite_iff (F : Fns XQ) (Fq : Fns Rat) (L : Lifts F Fq) (ok : FnsOk Fq)
    (d t : List Rat) (hd : d ≠ []) (ht : t ≠ []) (hdb cd htb ct p x : Rat)
    (hcd : cd = 0 ↔ hdb = 0) (hct : ct = 0 ↔ htb = 0) (hcd0 : 0 ≤ cd) (hct0 : 0 ≤ ct)
    (hp0 : 0 < p) (hp1 : p < 1) :
    let kd : Kde XQ := { sample := d.map some, bandwidth := some hdb, constant := some cd }
    let kt : Kde XQ := { sample := t.map some, bandwidth := some htb, constant := some ct }
    (bayes (some p) (kd.pdf F (some x)) (kt.pdf F (some x)) = none ↔
      hdb = 0 ∨ htb = 0 ∨
        ((∀ xi ∈ d, kernel Fq ((x - xi) / hdb) = 0) ∧ (∀ xi ∈ t, kernel Fq ((x - xi) / htb) = 0))) ∧
    (bayes (some p) (kd.pdf F (some x)) (kt.pdf F (some x)) ≠ none →
      Fin01 (bayes (some p) (kd.pdf F (some x)) (kt.pdf F (some x)))) := by
  intro kd kt
  let kdq : Kde Rat := { sample := d, bandwidth := hdb, constant := cd }
  let ktq : Kde Rat := { sample := t, bandwidth := htb, constant := ct }
  have hpd : kd.pdf F (some x) = if hdb = 0 then none else some (kdq.ksum Fq x / cd) := by
    unfold Kde.pdf
    rw [ksum_lift F Fq L d hdb x (some cd) cd]
    by_cases h : hdb = 0
    · simp [h, hd]
    · have hc : cd ≠ 0 := fun hc => h (hcd.mp hc)
      simp only [h, false_and, if_false]
      rw [xq_div _ _ hc]
  have hpt : kt.pdf F (some x) = if htb = 0 then none else some (ktq.ksum Fq x / ct) := by
    unfold Kde.pdf
    rw [ksum_lift F Fq L t htb x (some ct) ct]
    by_cases h : htb = 0
    · simp [h, ht]
    · have hc : ct ≠ 0 := fun hc => h (hct.mp hc)
      simp only [h, false_and, if_false]
      rw [xq_div _ _ hc]
  rw [hpd, hpt]
  by_cases h1 : hdb = 0
  · simp [h1, bayes]
  by_cases h2 : htb = 0
  · simp only [h1, h2, if_true, if_false]
    simp [bayes]
  have hcdp : 0 < cd := lt_of_le_of_ne hcd0 (fun h => h1 (hcd.mp h.symm))
  have hctp : 0 < ct := lt_of_le_of_ne hct0 (fun h => h2 (hct.mp h.symm))
  obtain ⟨hsd0, hsdz⟩ := ksum_zero_iff Fq ok kdq x
  obtain ⟨hst0, hstz⟩ := ksum_zero_iff Fq ok ktq x
  set a := kdq.ksum Fq x / cd with ha
  set b := ktq.ksum Fq x / ct with hb
  have ha0 : 0 ≤ a := div_nonneg hsd0 hcdp.le
  have hb0 : 0 ≤ b := div_nonneg hst0 hctp.le
  have haz : a = 0 ↔ ∀ xi ∈ d, kernel Fq ((x - xi) / hdb) = 0 := by
    rw [ha, div_eq_zero_iff]
    constructor
    · rintro (h | h)
      · exact hsdz.mp h
      · exact absurd h (ne_of_gt hcdp)
    · intro h; exact Or.inl (hsdz.mpr h)
  have hbz : b = 0 ↔ ∀ xi ∈ t, kernel Fq ((x - xi) / htb) = 0 := by
    rw [hb, div_eq_zero_iff]
    constructor
    · rintro (h | h)
      · exact hstz.mp h
      · exact absurd h (ne_of_gt hctp)
    · intro h; exact Or.inl (hstz.mpr h)
  simp only [h1, h2, if_false, false_or]
  have hbay : bayes (some p : XQ) (some a) (some b) =
      if b * (1 - p) + a * p = 0 then none else some (a * p / (b * (1 - p) + a * p)) := by
    unfold bayes
    simp only [xq_ofNat, xq_mul, xq_sub, xq_add, Nat.cast_one]
    rw [xq_div_eq]
  have hden : b * (1 - p) + a * p = 0 ↔ a = 0 ∧ b = 0 := by
    constructor
    · intro h
      have h1' : 0 ≤ b * (1 - p) := mul_nonneg hb0 (by linarith)
      have h2' : 0 ≤ a * p := mul_nonneg ha0 hp0.le
      have hb' : b * (1 - p) = 0 := by linarith
      have ha' : a * p = 0 := by linarith
      refine ⟨?_, ?_⟩
      · rcases mul_eq_zero.mp ha' with h | h
        · exact h
        · exact absurd h (ne_of_gt hp0)
      · rcases mul_eq_zero.mp hb' with h | h
        · exact h
        · exact absurd h (by linarith)
    · rintro ⟨h, h'⟩; rw [h, h']; ring
  rw [hbay]
  constructor
  · constructor
    · intro h
      by_cases hz : b * (1 - p) + a * p = 0
      · obtain ⟨hA, hB⟩ := hden.mp hz
        exact ⟨haz.mp hA, hbz.mp hB⟩
      · simp [hz] at h
    · rintro ⟨hA, hB⟩
      have := hden.mpr ⟨haz.mpr hA, hbz.mpr hB⟩
      simp [this]
  · intro h
    by_cases hz : b * (1 - p) + a * p = 0
    · simp [hz] at h
    · simp only [hz, if_false]
      have hpos : 0 < b * (1 - p) + a * p := by
        have h1' : 0 ≤ b * (1 - p) := mul_nonneg hb0 (by linarith)
        have h2' : 0 ≤ a * p := mul_nonneg ha0 hp0.le
        exact lt_of_le_of_ne (by linarith) (Ne.symm hz)
      refine ⟨_, rfl, div_nonneg (mul_nonneg ha0 hp0.le) hpos.le, ?_⟩
      rw [div_le_one hpos]
      have h1' : 0 ≤ b * (1 - p) := mul_nonneg hb0 (by linarith)
      linarith

theorem classOf_lengths (scores : List Rat) (decoys : List Bool) :
    (classOf true scores decoys).length + (classOf false scores decoys).length ≤ scores.length := by
  unfold classOf
  simp only [List.length_map]
  have key : ∀ l : List (Rat × Bool),
      (l.filter (fun p => p.2 == true)).length + (l.filter (fun p => p.2 == false)).length = l.length := by
    intro l
    induction l with
    | nil => rfl
    | cons a as ih =>
      rcases a with ⟨v, b⟩
      cases b <;> simp at ih ⊢ <;> omega
  rw [key]
  simp [List.length_zip]

/-- **C14.bin_nonfinite_iff** — for the classes `Builder::build` forms from finite scores (both present),
    any positive bandwidth factor and any finite grid point `x`: the raw Bayes ratio is non-finite
    **iff** all decoy scores are equal, or all target scores are equal, or every kernel value of both
    classes at `x` underflows to 0 — i.e. exactly the two recorded findings, nothing else. -/
theorem bin_nonfinite_iff (F : Fns XQ) (Fq : Fns Rat) (L : Lifts F Fq) (ok : FnsOk Fq)
    (scores : List Rat) (decoys : List Bool) (adj : Rat) (hadj : 0 < adj)
    (hd : classOf true scores decoys ≠ []) (ht : classOf false scores decoys ≠ []) (x : Rat) :
    let d := classOf true scores decoys
    let t := classOf false scores decoys
    let π : XQ := ofNat (classOf true (scores.map some) decoys).length / ofNat (scores.map some).length
    let kd := Kde.new F (classOf true (scores.map some) decoys) (some adj)
    let kt := Kde.new F (classOf false (scores.map some) decoys) (some adj)
    bayes π (kd.pdf F (some x)) (kt.pdf F (some x)) = none ↔
      (∃ c, ∀ s ∈ d, s = c) ∨ (∃ c, ∀ s ∈ t, s = c) ∨
        ((∀ xi ∈ d, kernel Fq ((x - xi) / (Kde.new Fq d adj).bandwidth) = 0) ∧
         (∀ xi ∈ t, kernel Fq ((x - xi) / (Kde.new Fq t adj).bandwidth) = 0)) := by
  intro d t π kd kt
  have hlen := classOf_lengths scores decoys
  have hdl : 0 < d.length := List.length_pos_iff.mpr hd
  have htl : 0 < t.length := List.length_pos_iff.mpr ht
  have hsl : 0 < scores.length := by
    have h1 : d.length + t.length ≤ scores.length := hlen
    omega
  have hπ : π = some ((d.length : Rat) / (scores.length : Rat)) := by
    show (ofNat (classOf true (scores.map some) decoys).length : XQ) / ofNat (scores.map some).length = _
    rw [classOf_map]
    simp only [List.length_map, xq_ofNat]
    have : ((scores.length : Nat) : Rat) ≠ 0 := by exact_mod_cast (ne_of_gt hsl)
    rw [xq_div _ _ this]
  have hp0 : (0 : Rat) < (d.length : Rat) / (scores.length : Rat) := by
    apply div_pos <;> exact_mod_cast ‹_›
  have hp1 : (d.length : Rat) / (scores.length : Rat) < 1 := by
    have hs : (0 : Rat) < (scores.length : Rat) := by exact_mod_cast hsl
    rw [div_lt_one hs]
    have h1 : d.length + t.length ≤ scores.length := hlen
    have : d.length < scores.length := by omega
    exact_mod_cast this
  have bw_nonneg : ∀ l : List Rat, l ≠ [] → 0 ≤ (Kde.new Fq l adj).bandwidth := by
    intro l hl
    have hn : (0 : Rat) < ((l.length : Nat) : Rat) := by
      have := List.length_pos_iff.mpr hl
      exact_mod_cast this
    unfold Kde.new
    simp only
    apply mul_nonneg _ hadj.le
    apply mul_nonneg
    · unfold std
      simp only [ofNat_rat]
      exact ok.sqrt_nonneg _ (div_nonneg (ssd_nonneg _ _) hn.le)
    · apply le_of_lt
      apply ok.powf_pos
      simp only [ofNat_rat]
      positivity
  have hkd : kd = ⟨d.map some, some (Kde.new Fq d adj).bandwidth, some (Kde.new Fq d adj).constant⟩ := by
    show Kde.new F (classOf true (scores.map some) decoys) (some adj) = _
    rw [classOf_map]; exact kde_new_lift F Fq L d hd adj
  have hkt : kt = ⟨t.map some, some (Kde.new Fq t adj).bandwidth, some (Kde.new Fq t adj).constant⟩ := by
    show Kde.new F (classOf false (scores.map some) decoys) (some adj) = _
    rw [classOf_map]; exact kde_new_lift F Fq L t ht adj
  obtain ⟨hcd, hcd0⟩ := constant_zero_iff Fq ok d hd adj
  obtain ⟨hct, hct0⟩ := constant_zero_iff Fq ok t ht adj
  have main := (raw_bin_nonfinite_iff F Fq L ok d t hd ht _ _ _ _ _ x hcd hct
    (hcd0 (bw_nonneg d hd)) (hct0 (bw_nonneg t ht)) hp0 hp1).1
  rw [hπ, hkd, hkt]
  rw [main, bandwidth_zero_iff Fq ok d hd adj (ne_of_gt hadj), bandwidth_zero_iff Fq ok t ht adj (ne_of_gt hadj)]

/-- toy parameters at `Rat` for the non-vacuity examples: `exp x = 1` above `-8`, `0` below (underflow),
    `sqrt = id` on the values used, `powf = 1`, `π = 3` -/
def toyQ : Fns Rat :=
  { exp := fun x => if x < -8 then 0 else 1, sqrt := fun x => x, powf := fun _ _ => 1, pi := 3 }

/-- non-vacuity (zero-variance side): one decoy ⇒ bandwidth 0 -/
example : (Kde.new toyQ [5] 1).bandwidth = 0 := by decide +kernel
/-- non-vacuity (spread class): bandwidth `≠ 0` -/
example : (Kde.new toyQ [0, 2] 1).bandwidth = 1 := by decide +kernel
/-- non-vacuity (underflow side): decoys `0,2`, targets `100,102`, bandwidth 1: at `x = 50` every kernel
    argument is below `-8`, all kernel values are 0 -/
example : (∀ xi ∈ [(0:Rat), 2], kernel toyQ ((50 - xi) / 1) = 0) ∧ (∀ xi ∈ [(100:Rat), 102], kernel toyQ ((50 - xi) / 1) = 0) := by
  decide +kernel

/-! ## under rounding: the same model run at `RQ rnd` (every operation rounded by `rnd`) -/

/-- **C14.bayes_range_rounded** — the code's Bayes ratio `d/(t+d)`, `d = fd·π`, `t = ft·(1−π)`, with
    EVERY operation rounded by an arbitrary monotone rounding that fixes 0 and 1 and is idempotent,
    stays in `[0,1]` (non-negative densities, `π` a probability, rounded denominator positive):
    `t ≥ 0` rounds `t + d` to at least `d`, so the quotient is at most 1 before and after rounding. -/
theorem bayes_range_rounded {rnd : Rat → Rat} (R : Rounding rnd) (π fd ft : RQ rnd)
    (hπ0 : 0 ≤ π.val) (hπ1 : π.val ≤ 1) (hd : 0 ≤ fd.val) (ht : 0 ≤ ft.val)
    (hpos : 0 < (ft * (ofNat 1 - π) + fd * π).val) :
    0 ≤ (bayes π fd ft).val ∧ (bayes π fd ft).val ≤ 1 := by
  unfold bayes
  simp only [RQ.div_val, RQ.add_val, RQ.mul_val, RQ.sub_val, RQ.ofNat_val, Nat.cast_one, R.one] at hpos ⊢
  set d := rnd (fd.val * π.val) with hdd
  set t := rnd (ft.val * rnd (1 - π.val)) with htt
  have hd0 : 0 ≤ d := R.nonneg (mul_nonneg hd hπ0)
  have hom : 0 ≤ rnd (1 - π.val) := R.nonneg (by linarith)
  have ht0 : 0 ≤ t := R.nonneg (mul_nonneg ht hom)
  have hds : d ≤ rnd (t + d) := by
    have := R.mono d (t + d) (by linarith)
    rwa [hdd, R.idem, ← hdd] at this
  constructor
  · exact R.nonneg (div_nonneg hd0 hpos.le)
  · apply R.le_one
    rw [div_le_one hpos]; exact hds

/-- the rounded interpolation `rnd (l + rnd (rnd (u − l) · w))` with weight `w ∈ [0,1]` between two
    values of `[0,1]` (`l` representable): never negative; never above `l` when `u ≤ l` -/
theorem interp_core_rounded {rnd : Rat → Rat} (R : Rounding rnd) (l u w : Rat)
    (hl : rnd l = l) (hl0 : 0 ≤ l) (hu0 : 0 ≤ u) (hw0 : 0 ≤ w) (hw1 : w ≤ 1) :
    0 ≤ rnd (l + rnd (rnd (u - l) * w)) ∧ (u ≤ l → rnd (l + rnd (rnd (u - l) * w)) ≤ l) := by
  have hnegl : rnd (-l) = -l := by rw [R.odd, hl]
  constructor
  · apply R.nonneg
    rcases le_total l u with h | h
    · have h1 : 0 ≤ rnd (u - l) := R.nonneg (by linarith)
      have h2 : 0 ≤ rnd (rnd (u - l) * w) := R.nonneg (mul_nonneg h1 hw0)
      linarith
    · -- u ≤ l : -l = rnd (-l) ≤ rnd (u - l) ≤ 0, and multiplying by w ∈ [0,1] stays above -l
      have h1 : -l ≤ rnd (u - l) := by
        have := R.mono (-l) (u - l) (by linarith)
        rwa [hnegl] at this
      have h2 : rnd (u - l) ≤ 0 := R.nonpos (by linarith)
      have h3 : -l ≤ rnd (u - l) * w := by nlinarith
      have h4 : -l ≤ rnd (rnd (u - l) * w) := by
        have := R.mono (-l) (rnd (u - l) * w) h3
        rwa [hnegl] at this
      linarith
  · intro h
    have h1 : rnd (u - l) ≤ 0 := R.nonpos (by linarith)
    have h2 : rnd (rnd (u - l) * w) ≤ 0 := R.nonpos (mul_nonpos_of_nonpos_of_nonneg h1 hw0)
    have := R.mono (l + rnd (rnd (u - l) * w)) l (by linarith)
    rwa [hl] at this

/-- **C14.posterior_range_rounded** — `posterior_error` with every operation rounded (any `Rounding`),
    for EVERY score and whatever `min_score`/`score_step` are: if the bins are representable numbers
    of `[0,1]`, the value is `≥ 0` (so its `log10` is never NaN); if moreover the bins never increase
    with the index (the monotone envelope), the value is `≤` the lower bin, hence in `[0,1]`. This is
    what the clamp of the interpolation weight buys at the level the code runs; without the clamp the
    statement is false (the repaired defect: weight `1+ε` gave a negative value). -/
theorem posterior_range_rounded {rnd : Rat → Rat} (R : Rounding rnd) (e : Estimator (RQ rnd)) (s : RQ rnd)
    (hn : e.bins ≠ [])
    (hb : ∀ b ∈ e.bins, rnd b.val = b.val ∧ 0 ≤ b.val ∧ b.val ≤ 1) :
    ∃ v, posteriorError e s = some v ∧ 0 ≤ v.val ∧
      ((∀ (i j : Nat) (a b : RQ rnd), i ≤ j → e.bins[i]? = some a → e.bins[j]? = some b → b.val ≤ a.val) →
        v.val ≤ 1) := by
  have hlen : 0 < e.bins.length := List.length_pos_iff.mpr hn
  have h1 : binLo e s < e.bins.length := by
    unfold binLo
    have := min_le_left (e.bins.length - 1) (floorNat ((s - e.minScore) / e.scoreStep))
    omega
  have h2 : binHi e (binLo e s) < e.bins.length := by
    unfold binHi
    have := min_le_left (e.bins.length - 1) (binLo e s + 1)
    omega
  have hlohi : binLo e s ≤ binHi e (binLo e s) := by
    unfold binHi
    exact le_min (by omega) (Nat.le_succ _)
  have g1 : e.bins[binLo e s]? = some e.bins[binLo e s] := List.getElem?_eq_getElem h1
  have g2 : e.bins[binHi e (binLo e s)]? = some e.bins[binHi e (binLo e s)] := List.getElem?_eq_getElem h2
  obtain ⟨hlr, hl0, hl1⟩ := hb _ (List.getElem_mem h1)
  obtain ⟨_, hu0, _⟩ := hb _ (List.getElem_mem h2)
  unfold posteriorError
  simp only [g1, g2]
  refine ⟨_, rfl, ?_, ?_⟩
  · simp only [RQ.add_val, RQ.mul_val, RQ.sub_val, RQ.clamp_val]
    refine (interp_core_rounded R _ _ _ hlr hl0 hu0 ?_ ?_).1
    · split
      · exact le_refl _
      · split
        · norm_num
        · linarith
    · split
      · norm_num
      · split
        · exact le_refl _
        · linarith
  · intro hanti
    have hul := hanti _ _ _ _ hlohi g1 g2
    simp only [RQ.add_val, RQ.mul_val, RQ.sub_val, RQ.clamp_val]
    refine le_trans ((interp_core_rounded R _ _ _ hlr hl0 hu0 ?_ ?_).2 hul) hl1
    · split
      · exact le_refl _
      · split
        · norm_num
        · linarith
    · split
      · norm_num
      · split
        · exact le_refl _
        · linarith

/-- non-vacuity of the rounding theorems: `rnd8` (truncation to eighths) is a `Rounding`, and under
    it the code's Bayes ratio of `π = 1/2`, `fd = 1/3`, `ft = 5/7` is the representable `1/4`
    (exactly it is `7/22`) — inside `[0,1]` as `bayes_range_rounded` says. -/
example : (bayes (⟨1/2⟩ : RQ rnd8) ⟨1/3⟩ ⟨5/7⟩).val = 1/4 := by decide +kernel
example : 0 ≤ (bayes (⟨1/2⟩ : RQ rnd8) ⟨1/3⟩ ⟨5/7⟩).val ∧ (bayes (⟨1/2⟩ : RQ rnd8) ⟨1/3⟩ ⟨5/7⟩).val ≤ 1 :=
  bayes_range_rounded rnd8_rounding _ _ _ (by norm_num) (by norm_num) (by norm_num) (by norm_num)
    (by decide +kernel)

/-- non-vacuity of `posterior_range_rounded`: bins `1, 1/2, 1/8` (eighths), a score inside bin 1 -/
example : (posteriorError ({ bins := [⟨1⟩, ⟨1/2⟩, ⟨1/8⟩], minScore := ⟨0⟩, scoreStep := ⟨1⟩ } : Estimator (RQ rnd8))
    ⟨11/6⟩).map (·.val) = some (1/4) := by decide +kernel

/-! ## no hidden state -/

/-- **C14.posteriorError_history_free** — in a session of queries on any estimators, the answer to a
    query is `posterior_error` of ITS estimator and ITS score, whatever was asked (of whichever
    estimator) before or after. (Trivial for the model, which is a function; stated because the
    correspondence op `kdeseq` compares the implementation with exactly this.) -/
theorem posteriorError_history_free (pre post : List (Estimator Rat × Rat)) (e : Estimator Rat) (s : Rat) :
    (runQueries (pre ++ (e, s) :: post))[pre.length]? = some (posteriorError e s) := by
  unfold runQueries
  simp

/-- the same (estimator, score) gets the same answer wherever it occurs in a session -/
theorem runQueries_same (steps : List (Estimator Rat × Rat)) (i j : Nat) (p : Estimator Rat × Rat)
    (hi : steps[i]? = some p) (hj : steps[j]? = some p) :
    (runQueries steps)[i]? = (runQueries steps)[j]? := by
  unfold runQueries
  simp [List.getElem?_map, hi, hj]

/-- the seeded defect as a counter-model: a one-entry memo of the last `(score, answer)`, keyed by the
    score only (not by the estimator) -/
def runMemo : Option (Rat × Option Rat) → List (Estimator Rat × Rat) → List (Option Rat)
  | _, [] => []
  | memo, (e, s) :: rest =>
    match memo with
    | some (k, v) =>
      if k = s then v :: runMemo memo rest
      else let r := posteriorError e s; r :: runMemo (some (s, r)) rest
    | none => let r := posteriorError e s; r :: runMemo (some (s, r)) rest

/-- **C14.memo_not_history_free** — non-vacuity of the statement above: the memo variant answers a query
    on a second estimator with the first estimator's value when the score repeats (two estimators with
    grids `1, 0` and `0, 0`, score 0: the session's answers are `1, 0`, the memo's `1, 1`). -/
theorem memo_not_history_free :
    let a : Estimator Rat := { bins := [1, 0], minScore := 0, scoreStep := 1 }
    let b : Estimator Rat := { bins := [0, 0], minScore := 0, scoreStep := 1 }
    runQueries [(a, 0), (b, 0)] = [some 1, some 0] ∧ runMemo none [(a, 0), (b, 0)] = [some 1, some 1] := by
  decide +kernel

end Sage.C14
