import SageModel.Model.C06
import SageModel.Model.C06Db
import Mathlib.Algebra.Order.Field.Rat
import Mathlib.Tactic.Ring
import Mathlib.Tactic.Linarith
import Mathlib.Tactic.NormNum
import Mathlib.Data.List.Nodup
import Mathlib.Data.List.Sublists

/-!
# C06 — Modified peptide forms are exactly the allowed placements, with correct masses

Property text: *For any peptide the generated forms are the unmodified form plus every placement of
at most max_variable_mods variable modifications on distinct eligible sites (residue,
peptide-terminus and protein-terminus specificity respected, one modification per site), each once;
static modifications are then present on every eligible site that does not already carry a variable
modification. Each form's monoisotopic mass equals the residue masses plus water plus all of its
modification masses, only forms inside the configured peptide mass range enter the database, and
modification keys outside the documented syntax are rejected rather than misapplied.*

All theorems are about the definitions of `SageModel/Model/C06.lean` (the model of
`Peptide::try_from`, `Peptide::apply`, `ModificationSpecificity::from_str`, the range filter of
`Parameters::digest`), instantiated at exact rationals, for every sequence of every length, every
position, every list of modifications and every `max`. f32 rounding of the sums is not covered
(the correspondence run compares the Float32 instance of the same definitions bit-exactly).
-/

namespace Sage.C06

/-! ## helper lemmas: sums -/

theorem foldl_add_eq (l : List Rat) (a : Rat) : l.foldl (· + ·) a = a + l.sum := by
  induction l generalizing a with
  | nil => simp
  | cons x xs ih => simp only [List.foldl_cons, ih, List.sum_cons]; ring

theorem sumResidues_eq (table : List Rat) (seq : List Nat) (acc m : Rat)
    (h : sumResidues table acc seq = some m) :
    m = acc + (seq.map (monoisotopic table)).sum ∧ ∀ c ∈ seq, monoisotopic table c ≠ 0 := by
  induction seq generalizing acc with
  | nil => simp [sumResidues] at h; simp [h]
  | cons c cs ih =>
    simp only [sumResidues] at h
    split at h
    · simp at h
    · rename_i hne
      obtain ⟨h1, h2⟩ := ih _ h
      refine ⟨by rw [h1]; simp only [List.map_cons, List.sum_cons]; ring, ?_⟩
      intro c' hc'
      rcases List.mem_cons.mp hc' with rfl | hc'
      · simpa using hne
      · exact h2 c' hc'

/-- what `try_from` returns: an unmodified peptide whose mass is water + residues; it rejects every
    sequence containing a letter of mass zero -/
theorem tryFrom_some {h2o : Rat} {table : List Rat} {pos : Position} {seq : List Nat} {p : Peptide Rat}
    (h : tryFrom h2o table pos seq = some p) :
    p.position = pos ∧ p.sequence = seq ∧ p.mods = seq.map (fun _ => 0) ∧ p.nterm = none ∧ p.cterm = none ∧
      p.mono = h2o + (seq.map (monoisotopic table)).sum ∧ ∀ c ∈ seq, monoisotopic table c ≠ 0 := by
  unfold tryFrom at h
  split at h
  · split at h
    · simp at h
    · rename_i mass hm
      obtain ⟨h1, h2⟩ := sumResidues_eq _ _ _ _ hm
      simp only [Option.some.injEq] at h
      subst h
      exact ⟨rfl, rfl, rfl, rfl, rfl, h1, h2⟩
  · simp at h

/-! ## helper lemmas: the frame (what the modification steps never touch) -/

/-- two peptides agree on everything but their modification slots -/
def SameFrame (p q : Peptide Rat) : Prop :=
  q.position = p.position ∧ q.sequence = p.sequence ∧ q.mono = p.mono ∧ q.mods.length = p.mods.length

theorem SameFrame.refl (p : Peptide Rat) : SameFrame p p := ⟨rfl, rfl, rfl, rfl⟩

theorem SameFrame.trans {p q r : Peptide Rat} (h1 : SameFrame p q) (h2 : SameFrame q r) : SameFrame p r :=
  ⟨h2.1.trans h1.1, h2.2.1.trans h1.2.1, h2.2.2.1.trans h1.2.2.1, h2.2.2.2.trans h1.2.2.2⟩

theorem applySite_frame (p : Peptide Rat) (s : Site) (m : Rat) : SameFrame p (applySite p s m) := by
  unfold applySite
  cases s with
  | nterm => simp only; split <;> exact ⟨rfl, rfl, rfl, rfl⟩
  | cterm => simp only; split <;> exact ⟨rfl, rfl, rfl, rfl⟩
  | seq i =>
    simp only
    split
    · split
      · exact ⟨rfl, rfl, rfl, by simp⟩
      · exact SameFrame.refl p
    · exact SameFrame.refl p

theorem foldl_frame {β : Type} (f : Peptide Rat → β → Peptide Rat) (hf : ∀ q b, SameFrame q (f q b))
    (l : List β) (p : Peptide Rat) : SameFrame p (l.foldl f p) := by
  induction l generalizing p with
  | nil => exact SameFrame.refl p
  | cons b bs ih => exact (hf p b).trans (ih _)

theorem applyCombo_frame (p : Peptide Rat) (c : List (Site × Rat)) : SameFrame p (applyCombo p c) := by
  unfold applyCombo
  exact foldl_frame _ (fun q sm => applySite_frame q sm.1 sm.2) c p

theorem staticResidue_length (r : Nat) (m : Rat) (seq : List Nat) (mods : List Rat) :
    (staticResidue r m seq mods).length = mods.length := by
  induction seq generalizing mods with
  | nil => simp [staticResidue]
  | cons c cs ih =>
    cases mods with
    | nil => simp [staticResidue]
    | cons x xs => simp [staticResidue, ih]

theorem staticMod_frame (p : Peptide Rat) (t : Target) (m : Rat) : SameFrame p (staticMod p t m) := by
  unfold staticMod
  split
  · exact ⟨rfl, rfl, rfl, by simp [staticResidue_length]⟩
  · exact foldl_frame _ (fun q s => applySite_frame q s m) _ p

theorem applyStatics_frame (statics : List (Target × Rat)) (p : Peptide Rat) :
    SameFrame p (applyStatics statics p) := by
  unfold applyStatics
  exact foldl_frame _ (fun q tm => staticMod_frame q tm.1 tm.2) statics p

/-- every output of `apply` is `finish (applyStatics statics q)` for some `q` of `varForms` -/
theorem mem_apply {p : Peptide Rat} {vars statics : List (Target × Rat)} {max : Nat} {f : Peptide Rat}
    (h : f ∈ apply p vars statics max) :
    ∃ q ∈ varForms p vars max, f = finish (applyStatics statics q) := by
  unfold apply at h
  split at h
  · simp only [List.mem_singleton] at h
    exact ⟨p, by simp [varForms], h⟩
  · simp only [List.mem_map] at h
    obtain ⟨q, hq, rfl⟩ := h
    exact ⟨q, hq, rfl⟩

theorem varForms_frame {p : Peptide Rat} {vars : List (Target × Rat)} {max : Nat} {q : Peptide Rat}
    (h : q ∈ varForms p vars max) : SameFrame p q := by
  simp only [varForms, List.mem_cons, List.mem_map] at h
  rcases h with rfl | ⟨c, _, rfl⟩
  · exact SameFrame.refl _
  · exact applyCombo_frame p c

/-! ## helper lemmas: the key grammar -/

theorem utf8Size_pos (c : Nat) : 1 ≤ utf8Size c := by
  unfold utf8Size; split <;> [omega; (split <;> [omega; (split <;> omega)])]

theorem utf8Len_cons (c : Nat) (s : List Nat) : utf8Len (c :: s) = utf8Size c + utf8Len s := by
  unfold utf8Len
  simp only [List.map_cons, List.foldl_cons]
  generalize s.map utf8Size = l
  have : ∀ (l : List Nat) (a : Nat), l.foldl (· + ·) a = a + l.foldl (· + ·) 0 := by
    intro l
    induction l with
    | nil => simp
    | cons x xs ih => intro a; simp only [List.foldl_cons]; rw [ih (a + x), ih (0 + x)]; omega
  rw [this l (0 + utf8Size c)]; omega

theorem validAA_ascii {c : Nat} (h : validAA c = true) : c < 128 ∧ c ∈ Sage.Gen.VALID_AA := by
  simpa [validAA] using h

theorem validAA_not_marker {c : Nat} (h : validAA c = true) : c ≠ 94 ∧ c ≠ 36 ∧ c ≠ 91 ∧ c ≠ 93 ∧ c ≠ 0 := by
  have h2 := (validAA_ascii h).2
  refine ⟨?_, ?_, ?_, ?_, ?_⟩ <;> (rintro rfl; revert h2; decide)

/-- the documented key syntax as a proposition: a terminal marker `^ $ [ ]` alone, a marker followed
    by one of the 22 residues, or one residue; with its meaning -/
inductive InGrammar : List Nat → Target → Prop
  | pepN : InGrammar [94] (.peptideN none)
  | pepC : InGrammar [36] (.peptideC none)
  | proN : InGrammar [91] (.proteinN none)
  | proC : InGrammar [93] (.proteinC none)
  | pepNr (r : Nat) : validAA r = true → InGrammar [94, r] (.peptideN (some r))
  | pepCr (r : Nat) : validAA r = true → InGrammar [36, r] (.peptideC (some r))
  | proNr (r : Nat) : validAA r = true → InGrammar [91, r] (.proteinN (some r))
  | proCr (r : Nat) : validAA r = true → InGrammar [93, r] (.proteinC (some r))
  | resi (r : Nat) : validAA r = true → InGrammar [r] (.residue r)

theorem utf8Size_valid {c : Nat} (h : validAA c = true) : utf8Size c = 1 := by
  have := (validAA_ascii h).1
  simp [utf8Size, this]

theorem fromStr_of_grammar {s : List Nat} {t : Target} (h : InGrammar s t) : fromStr s = .ok t := by
  have m1 : utf8Size 94 = 1 ∧ utf8Size 36 = 1 ∧ utf8Size 91 = 1 ∧ utf8Size 93 = 1 := by decide
  cases h with
  | pepN => decide
  | pepC => decide
  | proN => decide
  | proC => decide
  | pepNr r hr =>
    have := utf8Size_valid hr
    simp [fromStr, utf8Len, this, m1, residueOf, hr, Except.map]
  | pepCr r hr =>
    have := utf8Size_valid hr
    simp [fromStr, utf8Len, this, m1, residueOf, hr, Except.map]
  | proNr r hr =>
    have := utf8Size_valid hr
    simp [fromStr, utf8Len, this, m1, residueOf, hr, Except.map]
  | proCr r hr =>
    have := utf8Size_valid hr
    simp [fromStr, utf8Len, this, m1, residueOf, hr, Except.map]
  | resi r hr =>
    have := utf8Size_valid hr
    obtain ⟨h1, h2, h3, h4, _⟩ := validAA_not_marker hr
    simp [fromStr, utf8Len, this, hr]
    split <;> simp_all

theorem residueOf_ok {rest : List Nat} {o : Option Nat} (h : residueOf rest = .ok o) :
    (rest = [] ∧ o = none) ∨ (∃ r tl, rest = r :: tl ∧ validAA r = true ∧ o = some r) := by
  cases rest with
  | nil => simp [residueOf] at h; exact Or.inl ⟨rfl, h.symm⟩
  | cons r tl =>
    simp only [residueOf] at h
    split at h
    · rename_i hv
      simp at h
      exact Or.inr ⟨r, tl, rfl, hv, h.symm⟩
    · simp at h

theorem marker_case {mk : Option Nat → Target} {c : Nat} {rest : List Nat} {t : Target}
    (hlen : ¬ utf8Len (c :: rest) > 2) (hc : utf8Size c = 1)
    (h : (residueOf rest).map mk = .ok t) :
    (rest = [] ∧ t = mk none) ∨ (∃ r, rest = [r] ∧ validAA r = true ∧ t = mk (some r)) := by
  cases hr : residueOf rest with
  | error e => rw [hr] at h; simp [Except.map] at h
  | ok o =>
    rw [hr] at h
    simp only [Except.map, Except.ok.injEq] at h
    rcases residueOf_ok hr with ⟨rfl, rfl⟩ | ⟨r, tl, rfl, hv, rfl⟩
    · exact Or.inl ⟨rfl, h.symm⟩
    · right
      refine ⟨r, ?_, hv, h.symm⟩
      cases tl with
      | nil => rfl
      | cons x xs =>
        exfalso
        apply hlen
        rw [utf8Len_cons, utf8Len_cons, utf8Len_cons, hc]
        have := utf8Size_pos r
        have := utf8Size_pos x
        omega

theorem grammar_of_fromStr {s : List Nat} {t : Target} (h : fromStr s = .ok t) : InGrammar s t := by
  unfold fromStr at h
  split at h
  · simp at h
  · rename_i hlen
    split at h
    · rcases marker_case hlen (by decide) h with ⟨rfl, rfl⟩ | ⟨r, rfl, hv, rfl⟩
      · exact .pepN
      · exact .pepNr r hv
    · rcases marker_case hlen (by decide) h with ⟨rfl, rfl⟩ | ⟨r, rfl, hv, rfl⟩
      · exact .pepC
      · exact .pepCr r hv
    · rcases marker_case hlen (by decide) h with ⟨rfl, rfl⟩ | ⟨r, rfl, hv, rfl⟩
      · exact .proN
      · exact .proNr r hv
    · rcases marker_case hlen (by decide) h with ⟨rfl, rfl⟩ | ⟨r, rfl, hv, rfl⟩
      · exact .proC
      · exact .proCr r hv
    · rename_i n1 n2 n3 n4
      split at h
      · simp at h
      · rename_i hl
        cases s with
        | nil => simp at h
        | cons c tl =>
          simp only at h
          split at h
          · rename_i hv
            simp only [Except.ok.injEq] at h
            subst h
            have : tl = [] := by
              cases tl with
              | nil => rfl
              | cons x xs => simp at hl
            subst this
            exact .resi c hv
          · simp at h

/-! ## helper lemmas: slots, fills, combinations, placements -/


theorem Peptide.ext' {p q : Peptide Rat} (h1 : p.position = q.position) (h2 : p.sequence = q.sequence)
    (h3 : p.mono = q.mono) (hn : p.nterm = q.nterm) (hc : p.cterm = q.cterm)
    (hm : ∀ i : Nat, p.mods[i]? = q.mods[i]?) : p = q := by
  cases p; cases q
  simp only [Peptide.mk.injEq] at *
  exact ⟨h1, h2, List.ext_getElem? hm, hn, hc, h3⟩

theorem applySite_nterm (p : Peptide Rat) (s : Site) (m : Rat) :
    (applySite p s m).nterm = if s = .nterm ∧ p.nterm = none then some m else p.nterm := by
  unfold applySite
  cases s with
  | nterm => cases h : p.nterm <;> simp [h]
  | cterm => simp only; split <;> simp
  | seq i =>
    simp only
    split
    · split <;> simp
    · simp

theorem applySite_cterm (p : Peptide Rat) (s : Site) (m : Rat) :
    (applySite p s m).cterm = if s = .cterm ∧ p.cterm = none then some m else p.cterm := by
  unfold applySite
  cases s with
  | cterm => cases h : p.cterm <;> simp [h]
  | nterm => simp only; split <;> simp
  | seq i =>
    simp only
    split
    · split <;> simp
    · simp

theorem applySite_mods (p : Peptide Rat) (s : Site) (m : Rat) (j : Nat) :
    (applySite p s m).mods[j]? = (p.mods[j]?).map (fun x => if s = .seq j ∧ x = 0 then m else x) := by
  unfold applySite
  cases s with
  | nterm => simp only; split <;> simp
  | cterm => simp only; split <;> simp
  | seq i =>
    simp only
    split
    · rename_i x hx
      split
      · rename_i hx0
        have hx0 : x = 0 := by simpa using hx0
        subst hx0
        simp only [List.getElem?_set, zero_add]
        by_cases hij : i = j
        · subst hij
          obtain ⟨hlt, hval⟩ := List.getElem?_eq_some_iff.mp hx
          simp [hlt, hval]
        · simp only [hij, ↓reduceIte]
          cases p.mods[j]? <;> simp [hij]
      · rename_i hx0
        have hx0 : x ≠ 0 := by simpa using hx0
        by_cases hij : i = j
        · subst hij; simp [hx, hx0]
        · cases p.mods[j]? <;> simp [hij]
    · rename_i hx
      by_cases hij : i = j
      · subst hij; simp [hx]
      · cases p.mods[j]? <;> simp [hij]


/-- write `m` into every still-empty slot selected by `S` (specification-level description of one
    static modification) -/
def fill (S : Site → Bool) (m : Rat) (p : Peptide Rat) : Peptide Rat :=
  { p with
    nterm := if S .nterm = true ∧ p.nterm = none then some m else p.nterm
    cterm := if S .cterm = true ∧ p.cterm = none then some m else p.cterm
    mods := p.mods.mapIdx fun i x => if S (.seq i) = true ∧ x = 0 then m else x }

theorem fill_mods (S : Site → Bool) (m : Rat) (p : Peptide Rat) (j : Nat) :
    (fill S m p).mods[j]? = (p.mods[j]?).map (fun x => if S (.seq j) = true ∧ x = 0 then m else x) := by
  simp [fill, List.getElem?_mapIdx]

theorem fill_congr {S T : Site → Bool} (h : ∀ s, S s = T s) (m : Rat) (p : Peptide Rat) :
    fill S m p = fill T m p := by
  have : S = T := funext h
  rw [this]

theorem fill_none (m : Rat) (p : Peptide Rat) : fill (fun _ => false) m p = p := by
  apply Peptide.ext' <;> simp [fill, List.getElem?_mapIdx]

theorem applySite_eq_fill (p : Peptide Rat) (s : Site) (m : Rat) :
    applySite p s m = fill (fun s' => decide (s' = s)) m p := by
  obtain ⟨f1, f2, f3, _⟩ := applySite_frame p s m
  apply Peptide.ext'
  · exact f1
  · exact f2
  · exact f3
  · rw [applySite_nterm]; simp [fill, eq_comm]
  · rw [applySite_cterm]; simp [fill, eq_comm]
  · intro j; rw [applySite_mods, fill_mods]; simp [eq_comm]

theorem staticResidue_get (r : Nat) (m : Rat) (seq : List Nat) (mods : List Rat) (j : Nat) :
    (staticResidue r m seq mods)[j]? =
      (mods[j]?).map (fun x => if seq[j]? = some r ∧ x = 0 then m else x) := by
  induction seq generalizing mods j with
  | nil => cases h : mods[j]? <;> simp [staticResidue, h]
  | cons c cs ih =>
    cases mods with
    | nil => simp [staticResidue]
    | cons x xs =>
      cases j with
      | zero => simp [staticResidue]
      | succ j => simp [staticResidue, ih]

/-- the set of sites a target addresses, as a predicate -/
def siteSet (seq : List Nat) (pos : Position) (t : Target) : Site → Bool :=
  fun s => decide (s ∈ sitesOf seq pos t)

theorem sitesOf_nonresidue (seq : List Nat) (pos : Position) (t : Target) (h : ∀ r, t ≠ .residue r) :
    sitesOf seq pos t = [] ∨ ∃ s, sitesOf seq pos t = [s] := by
  cases t with
  | residue r => exact absurd rfl (h r)
  | peptideN r => cases r <;> simp only [sitesOf] <;> (try split) <;> simp
  | peptideC r => cases r <;> simp only [sitesOf] <;> (try split) <;> simp
  | proteinN r => cases r <;> simp only [sitesOf] <;> (try split) <;> simp
  | proteinC r => cases r <;> simp only [sitesOf] <;> (try split) <;> simp

/-- one static modification writes its mass into every still-empty slot it addresses -/
theorem staticMod_eq_fill (p : Peptide Rat) (t : Target) (m : Rat) :
    staticMod p t m = fill (siteSet p.sequence p.position t) m p := by
  unfold staticMod
  split
  · rename_i r
    apply Peptide.ext' <;> try (simp [fill, siteSet, sitesOf]; done)
    intro j
    simp only [staticResidue_get, fill_mods, siteSet, sitesOf]
    congr 1
    funext x
    have : (Site.seq j ∈ (List.filter (fun i => p.sequence[i]? == some r) (List.range p.sequence.length)).map Site.seq)
        ↔ p.sequence[j]? = some r := by
      simp only [List.mem_map, List.mem_filter, List.mem_range, beq_iff_eq, Site.seq.injEq, exists_eq_right]
      constructor
      · exact fun h => h.2
      · intro h
        exact ⟨(List.getElem?_eq_some_iff.mp h).1, h⟩
    simp [this]
  · rename_i t' hne
    rcases sitesOf_nonresidue p.sequence p.position t (fun r hr => hne r hr) with h | ⟨s, h⟩
    · rw [h]
      simp only [List.foldl_nil]
      rw [fill_congr (T := fun _ => false) (fun s => by simp [siteSet, h]) m p, fill_none]
    · rw [h]
      simp only [List.foldl_cons, List.foldl_nil, applySite_eq_fill]
      exact fill_congr (fun s' => by simp [siteSet, h]) m p

theorem fill_comm {S T : Site → Bool} (h : ∀ s, ¬ (S s = true ∧ T s = true)) (m m' : Rat) (p : Peptide Rat) :
    fill S m (fill T m' p) = fill T m' (fill S m p) := by
  apply Peptide.ext'
  · rfl
  · rfl
  · rfl
  · have := h .nterm
    simp only [fill]
    by_cases hS : S .nterm = true <;> by_cases hT : T .nterm = true <;> by_cases hp : p.nterm = none <;> simp_all
  · have := h .cterm
    simp only [fill]
    by_cases hS : S .cterm = true <;> by_cases hT : T .cterm = true <;> by_cases hp : p.cterm = none <;> simp_all
  · intro j
    have := h (.seq j)
    simp only [fill_mods]
    cases p.mods[j]? with
    | none => rfl
    | some x =>
      simp only [Option.map_some, Option.some.injEq]
      by_cases hS : S (.seq j) = true <;> by_cases hT : T (.seq j) = true <;> simp_all

theorem applyStatics_eq_fold (statics : List (Target × Rat)) (p : Peptide Rat) :
    applyStatics statics p =
      statics.foldl (fun q tm => fill (siteSet p.sequence p.position tm.1) tm.2 q) p := by
  unfold applyStatics
  induction statics generalizing p with
  | nil => rfl
  | cons tm rest ih =>
    simp only [List.foldl_cons]
    rw [ih, staticMod_eq_fill]
    rfl

/-- static modifications `a`, `b` address no common site of the peptide -/
def StaticsDisjoint (seq : List Nat) (pos : Position) (a b : Target × Rat) : Prop :=
  ∀ s, ¬ (s ∈ sitesOf seq pos a.1 ∧ s ∈ sitesOf seq pos b.1)

theorem pairwise_forall_symm {β : Type} {R : β → β → Prop} (hR : ∀ a b, R a b → R b a) {l : List β}
    (h : l.Pairwise R) : ∀ a ∈ l, ∀ b ∈ l, a ≠ b → R a b := by
  induction l with
  | nil => simp
  | cons x xs ih =>
    obtain ⟨h1, h2⟩ := List.pairwise_cons.mp h
    intro a ha b hb hab
    rcases List.mem_cons.mp ha with hax | ha' <;> rcases List.mem_cons.mp hb with hbx | hb'
    · exact absurd (hax.trans hbx.symm) hab
    · rw [hax]; exact h1 b hb'
    · rw [hbx]; exact hR _ _ (h1 a ha')
    · exact ih h2 a ha' b hb' hab

theorem applyStatics_perm (p : Peptide Rat) (s1 s2 : List (Target × Rat)) (hperm : s1.Perm s2)
    (hdisj : s1.Pairwise (StaticsDisjoint p.sequence p.position)) :
    applyStatics s1 p = applyStatics s2 p := by
  rw [applyStatics_eq_fold, applyStatics_eq_fold]
  apply List.Perm.foldl_eq' hperm
  intro x hx y hy z
  by_cases hxy : x = y
  · subst hxy; rfl
  · have hsymm : ∀ a b, StaticsDisjoint p.sequence p.position a b → StaticsDisjoint p.sequence p.position b a := by
      intro a b hab s hs; exact hab s ⟨hs.2, hs.1⟩
    have := pairwise_forall_symm hsymm hdisj x hx y hy hxy
    exact fill_comm (fun s hs => this s (by simpa [siteSet] using hs.symm)) _ _ _


/-- what a site holds, read raw: a terminus holds `none` when unset; residue slot `i` holds
    `some 0` when unmodified (and `none` only when `i` is outside the peptide) -/
def Peptide.slotAt (p : Peptide Rat) : Site → Option Rat
  | .nterm => p.nterm
  | .cterm => p.cterm
  | .seq i => p.mods[i]?

/-- "this site carries no modification yet" on a raw reading -/
def emptyAt : Site → Option Rat → Bool
  | .seq _, some x => decide (x = 0)
  | .seq _, none => false
  | _, v => v.isNone

/-- slot-level effect of one write attempt -/
def upd (s : Site) (sel : Bool) (m : Rat) (v : Option Rat) : Option Rat :=
  if sel && emptyAt s v then some m else v

theorem Peptide.ext_slots {p q : Peptide Rat} (h1 : p.position = q.position) (h2 : p.sequence = q.sequence)
    (h3 : p.mono = q.mono) (h : ∀ s, p.slotAt s = q.slotAt s) : p = q :=
  Peptide.ext' h1 h2 h3 (h .nterm) (h .cterm) (fun i => h (.seq i))

theorem upd_seq (sel : Bool) (m : Rat) (i : Nat) (v : Option Rat) :
    v.map (fun x => if sel = true ∧ x = 0 then m else x) = upd (.seq i) sel m v := by
  cases v with
  | none => simp [upd, emptyAt]
  | some x => by_cases h1 : sel = true <;> by_cases h2 : x = 0 <;> simp_all [upd, emptyAt]

theorem fill_slotAt (S : Site → Bool) (m : Rat) (p : Peptide Rat) (s : Site) :
    (fill S m p).slotAt s = upd s (S s) m (p.slotAt s) := by
  cases s with
  | nterm => by_cases h1 : S .nterm = true <;> by_cases h2 : p.nterm = none <;> simp_all [Peptide.slotAt, fill, upd, emptyAt]
  | cterm => by_cases h1 : S .cterm = true <;> by_cases h2 : p.cterm = none <;> simp_all [Peptide.slotAt, fill, upd, emptyAt]
  | seq i =>
    simp only [Peptide.slotAt, fill_mods]
    exact upd_seq _ _ _ _

section folds
variable {β : Type} (sel : β → Bool) (mass : β → Rat) (s : Site)

/-- slot-level view of a sequence of write attempts -/
def updFold (l : List β) (v : Option Rat) : Option Rat :=
  l.foldl (fun v b => upd s (sel b) (mass b) v) v

theorem updFold_untouched (l : List β) (v : Option Rat) (h : ∀ b ∈ l, sel b = false) :
    updFold sel mass s l v = v := by
  induction l generalizing v with
  | nil => rfl
  | cons b bs ih =>
    simp only [updFold, List.foldl_cons]
    have hb : sel b = false := h b (by simp)
    have : upd s (sel b) (mass b) v = v := by simp [upd, hb]
    rw [this]
    exact ih v (fun b' hb' => h b' (List.mem_cons_of_mem _ hb'))

theorem updFold_kept (l : List β) (v : Option Rat) (h : emptyAt s v = false) :
    updFold sel mass s l v = v := by
  induction l generalizing v with
  | nil => rfl
  | cons b bs ih =>
    simp only [updFold, List.foldl_cons]
    have : upd s (sel b) (mass b) v = v := by simp [upd, h]
    rw [this]
    exact ih v h

theorem updFold_present (l : List β) (v : Option Rat) (hv : emptyAt s v = true)
    (hpw : l.Pairwise (fun a b => ¬ (sel a = true ∧ sel b = true)))
    (b : β) (hb : b ∈ l) (hsel : sel b = true) :
    updFold sel mass s l v = some (mass b) := by
  induction l generalizing v with
  | nil => simp at hb
  | cons a as ih =>
    obtain ⟨h1, h2⟩ := List.pairwise_cons.mp hpw
    simp only [updFold, List.foldl_cons]
    by_cases ha : sel a = true
    · -- `a` writes; nothing later addresses the slot
      have hrest : ∀ b' ∈ as, sel b' = false := by
        intro b' hb'
        have := h1 b' hb'
        cases hs : sel b' with
        | false => rfl
        | true => exact absurd ⟨ha, hs⟩ this
      have hab : a = b := by
        rcases List.mem_cons.mp hb with h | h
        · exact h.symm
        · rw [hrest b h] at hsel; simp at hsel
      have : upd s (sel a) (mass a) v = some (mass a) := by simp [upd, ha, hv]
      rw [this, ← hab]
      exact updFold_untouched sel mass s as _ hrest
    · have hb' : b ∈ as := by
        rcases List.mem_cons.mp hb with h | h
        · rw [h] at hsel; exact absurd hsel ha
        · exact h
      have : upd s (sel a) (mass a) v = v := by simp [upd, ha]
      rw [this]
      exact ih v hv h2 hb'

end folds

theorem fillFold_slotAt {β : Type} (S : β → Site → Bool) (mass : β → Rat) (l : List β) (p : Peptide Rat) (s : Site) :
    (l.foldl (fun q tm => fill (S tm) (mass tm) q) p).slotAt s =
      updFold (fun tm => S tm s) mass s l (p.slotAt s) := by
  induction l generalizing p with
  | nil => rfl
  | cons tm rest ih =>
    simp only [List.foldl_cons, updFold]
    rw [ih, fill_slotAt]
    rfl

theorem applyStatics_slotAt (statics : List (Target × Rat)) (p : Peptide Rat) (s : Site) :
    (applyStatics statics p).slotAt s =
      updFold (fun tm => siteSet p.sequence p.position tm.1 s) (fun tm => tm.2) s statics (p.slotAt s) := by
  rw [applyStatics_eq_fold]
  exact fillFold_slotAt (fun tm => siteSet p.sequence p.position tm.1) (fun tm => tm.2) statics p s


/-! ### combinations -/

theorem mem_combos {β : Type} (n : Nat) (l c : List β) : c ∈ combos n l ↔ c.Sublist l ∧ c.length = n := by
  induction l generalizing n c with
  | nil =>
    cases n with
    | zero => simp [combos]
    | succ n =>
      simp only [combos, List.not_mem_nil, List.sublist_nil, false_iff, not_and]
      rintro rfl; simp
  | cons x xs ih =>
    cases n with
    | zero =>
      simp only [combos, List.mem_singleton, List.length_eq_zero_iff]
      constructor
      · rintro rfl; simp
      · exact fun h => h.2
    | succ n =>
      simp only [combos, List.mem_append, List.mem_map, ih]
      constructor
      · rintro (⟨c', ⟨hs, hl⟩, rfl⟩ | ⟨hs, hl⟩)
        · exact ⟨hs.cons_cons x, by simp [hl]⟩
        · exact ⟨hs.cons x, hl⟩
      · rintro ⟨hs, hl⟩
        cases hs with
        | cons _ hs' => exact Or.inr ⟨hs', hl⟩
        | cons_cons _ hs' =>
          rename_i c'
          exact Or.inl ⟨c', ⟨hs', by simpa using hl⟩, rfl⟩

theorem nodup_combos {β : Type} (n : Nat) (l : List β) (h : l.Nodup) : (combos n l).Nodup := by
  induction l generalizing n with
  | nil => cases n <;> simp [combos]
  | cons x xs ih =>
    cases n with
    | zero => simp [combos]
    | succ n =>
      obtain ⟨hx, hxs⟩ := List.nodup_cons.mp h
      simp only [combos]
      rw [List.nodup_append]
      refine ⟨(ih n hxs).map (fun a b hab => by simpa using hab), ih (n + 1) hxs, ?_⟩
      intro a ha b hb hab
      simp only [List.mem_map] at ha
      obtain ⟨a', _, rfl⟩ := ha
      subst hab
      have := ((mem_combos _ _ _).mp hb).1.subset
      exact hx (this (by simp))

theorem distinctSites_iff (seen : List Site) (c : List (Site × Rat)) :
    distinctSites seen c = true ↔ (c.map Prod.fst).Nodup ∧ ∀ x ∈ c, x.1 ∉ seen := by
  induction c generalizing seen with
  | nil => simp [distinctSites]
  | cons x xs ih =>
    simp only [distinctSites]
    split
    · rename_i hc
      have : x.1 ∈ seen := by simpa using hc
      simp only [Bool.false_eq_true, false_iff, not_and]
      intro _ h
      exact absurd this (h x (by simp))
    · rename_i hc
      have hx : x.1 ∉ seen := by simpa using hc
      rw [ih]
      simp only [List.map_cons, List.nodup_cons, List.mem_cons, List.mem_map, forall_eq_or_imp]
      constructor
      · rintro ⟨h1, h2⟩
        refine ⟨⟨?_, h1⟩, hx, fun y hy => (not_or.mp (h2 y hy)).2⟩
        rintro ⟨y, hy, hxy⟩
        exact (not_or.mp (h2 y hy)).1 hxy
      · rintro ⟨⟨h1, h2⟩, _, h4⟩
        refine ⟨h2, fun y hy => ?_⟩
        rintro (h | h)
        · exact h1 ⟨y, hy, h⟩
        · exact h4 y hy h

theorem filter_fst_length_le_one (c : List (Site × Rat)) (s : Site) (h : (c.map Prod.fst).Nodup) :
    (c.filter fun x => x.1 == s).length ≤ 1 := by
  induction c with
  | nil => simp
  | cons x xs ih =>
    simp only [List.map_cons, List.nodup_cons, List.mem_map] at h
    simp only [List.filter_cons]
    split
    · rename_i hx
      have hx : x.1 = s := by simpa using hx
      have : xs.filter (fun y => y.1 == s) = [] := by
        rw [List.filter_eq_nil_iff]
        intro y hy hys
        exact h.1 ⟨y, hy, by rw [hx]; simpa using hys⟩
      simp [this]
    · exact ih h.2

theorem noDuplicates_of_nodup (c : List (Site × Rat)) (h : (c.map Prod.fst).Nodup) : noDuplicates c = true := by
  simp only [noDuplicates, Bool.and_eq_true, decide_eq_true_eq]
  exact ⟨filter_fst_length_le_one c _ h, filter_fst_length_le_one c _ h⟩

/-- the accepted combinations: index-increasing selections of `1..max` candidates with pairwise
    distinct sites -/
theorem mem_placements (cands : List (Site × Rat)) (max : Nat) (c : List (Site × Rat)) :
    c ∈ placements cands max ↔
      c.Sublist cands ∧ 1 ≤ c.length ∧ c.length ≤ max ∧ (c.map Prod.fst).Nodup := by
  simp only [placements, placementsN, List.mem_flatMap, List.mem_filter, mem_combos, List.mem_range'_1,
    distinctSites_iff]
  constructor
  · rintro ⟨n, ⟨h1, h2⟩, ⟨⟨hs, hl⟩, _⟩, hd, _⟩
    exact ⟨hs, by omega, by omega, hd⟩
  · rintro ⟨hs, h1, h2, hd⟩
    exact ⟨c.length, ⟨h1, by omega⟩, ⟨⟨hs, rfl⟩, noDuplicates_of_nodup c hd⟩, hd, by simp⟩

theorem nodup_placements (cands : List (Site × Rat)) (max : Nat) (h : cands.Nodup) :
    (placements cands max).Nodup := by
  unfold placements
  rw [List.nodup_flatMap]
  refine ⟨fun n _ => ((nodup_combos n cands h).filter _).filter _, ?_⟩
  apply List.Nodup.pairwise_of_forall_ne (List.nodup_range' (step := 1) (by omega))
  intro a _ b _ hab c hca hcb
  simp only [placementsN, List.mem_filter, mem_combos] at hca hcb
  exact hab (hca.1.1.2.symm.trans hcb.1.1.2)

theorem placements_nil (max : Nat) : placements ([] : List (Site × Rat)) max = [] := by
  unfold placements
  rw [List.flatMap_eq_nil_iff]
  intro n hn
  have : 1 ≤ n := by simp only [List.mem_range'_1] at hn; omega
  obtain ⟨k, rfl⟩ : ∃ k, n = k + 1 := ⟨n - 1, by omega⟩
  simp [placementsN, combos]


/-! ### placements as finite maps -/

theorem lookup_eq_none {σ : List (Site × Rat)} {s : Site} : σ.lookup s = none ↔ s ∉ σ.map Prod.fst := by
  induction σ with
  | nil => simp
  | cons x xs ih =>
    obtain ⟨s', m⟩ := x
    by_cases h : s = s'
    · subst h; simp [List.lookup]
    · have : (s == s') = false := by simpa using h
      simp [List.lookup, this, ih, h]

theorem lookup_eq_some {σ : List (Site × Rat)} (hd : (σ.map Prod.fst).Nodup) {s : Site} {m : Rat} :
    σ.lookup s = some m ↔ (s, m) ∈ σ := by
  induction σ with
  | nil => simp
  | cons x xs ih =>
    obtain ⟨s', m'⟩ := x
    simp only [List.map_cons, List.nodup_cons, List.mem_map] at hd
    by_cases h : s = s'
    · subst h
      simp only [List.lookup, beq_self_eq_true, Option.some.injEq, List.mem_cons, Prod.mk.injEq, true_and]
      constructor
      · exact fun h => Or.inl h.symm
      · rintro (h | h)
        · exact h.symm
        · exact absurd ⟨(s, m), h, rfl⟩ hd.1
    · have hb : (s == s') = false := by simpa using h
      simp [List.lookup, hb, ih hd.2, h]

theorem lookup_perm {σ τ : List (Site × Rat)} (hp : σ.Perm τ) (hd : (σ.map Prod.fst).Nodup) (s : Site) :
    σ.lookup s = τ.lookup s := by
  have hd' : (τ.map Prod.fst).Nodup := (hp.map Prod.fst).nodup_iff.mp hd
  apply Option.ext
  intro m
  rw [lookup_eq_some hd, lookup_eq_some hd']
  exact hp.mem_iff

/-- the form in which exactly the sites of `σ` carry `σ`'s masses (everything else unmodified) -/
def place (p : Peptide Rat) (σ : List (Site × Rat)) : Peptide Rat :=
  { p with
    nterm := σ.lookup .nterm
    cterm := σ.lookup .cterm
    mods := (List.range p.mods.length).map fun i => (σ.lookup (.seq i)).getD 0 }

/-- a peptide as `try_from` returns it: nothing modified yet -/
def Fresh (p : Peptide Rat) : Prop := p.nterm = none ∧ p.cterm = none ∧ ∀ i : Nat, i < p.mods.length → p.mods[i]? = some 0

theorem tryFrom_fresh {h2o : Rat} {table : List Rat} {pos : Position} {seq : List Nat} {p : Peptide Rat}
    (h : tryFrom h2o table pos seq = some p) : Fresh p ∧ p.mods.length = p.sequence.length := by
  obtain ⟨_, h2, h3, h4, h5, _, _⟩ := tryFrom_some h
  refine ⟨⟨h4, h5, ?_⟩, by simp [h3, h2]⟩
  intro i hi
  rw [h3] at hi ⊢
  simp at hi
  simp [hi]

/-- a site exists on a peptide with `n` residues -/
def InRange (n : Nat) : Site → Prop
  | .seq i => i < n
  | _ => True

theorem fresh_slotAt {p : Peptide Rat} (hf : Fresh p) (s : Site) :
    p.slotAt s = match s with
      | .seq i => if i < p.mods.length then some 0 else none
      | _ => none := by
  obtain ⟨h1, h2, h3⟩ := hf
  cases s with
  | nterm => exact h1
  | cterm => exact h2
  | seq i =>
    simp only [Peptide.slotAt]
    split
    · rename_i h; exact h3 i h
    · rename_i h; exact List.getElem?_eq_none (by omega)

theorem place_slotAt (p : Peptide Rat) (σ : List (Site × Rat)) (s : Site) :
    (place p σ).slotAt s = match s with
      | .seq i => if i < p.mods.length then some ((σ.lookup (.seq i)).getD 0) else none
      | s => σ.lookup s := by
  cases s with
  | nterm => rfl
  | cterm => rfl
  | seq i =>
    simp only [Peptide.slotAt, place]
    split
    · rename_i h; simp [h]
    · rename_i h; simp [h]

theorem applyCombo_slotAt (p : Peptide Rat) (c : List (Site × Rat)) (s : Site) :
    (applyCombo p c).slotAt s = updFold (fun sm => decide (s = sm.1)) (fun sm => sm.2) s c (p.slotAt s) := by
  unfold applyCombo
  have : (fun (q : Peptide Rat) (sm : Site × Rat) => applySite q sm.1 sm.2) =
      (fun q sm => fill (fun s' => decide (s' = sm.1)) sm.2 q) := by
    funext q sm; exact applySite_eq_fill q sm.1 sm.2
  rw [this]
  exact fillFold_slotAt (fun (sm : Site × Rat) s' => decide (s' = sm.1)) (fun sm => sm.2) c p s

/-- applying a combination with pairwise distinct sites to an unmodified peptide gives exactly the
    form described by the combination read as a finite map -/
theorem applyCombo_eq_place (p : Peptide Rat) (hf : Fresh p) (c : List (Site × Rat))
    (hd : (c.map Prod.fst).Nodup) : applyCombo p c = place p c := by
  obtain ⟨f1, f2, f3, _⟩ := applyCombo_frame p c
  apply Peptide.ext_slots (q := place p c) f1 f2 f3
  intro s
  rw [applyCombo_slotAt, place_slotAt, fresh_slotAt hf]
  have hpw : c.Pairwise (fun a b => ¬ (decide (s = a.1) = true ∧ decide (s = b.1) = true)) := by
    have := List.pairwise_map.mp hd
    refine this.imp ?_
    intro a b hab h
    simp only [decide_eq_true_eq] at h
    exact hab (h.1.symm.trans h.2)
  cases hl : c.lookup s with
  | none =>
    have hs : ∀ b ∈ c, decide (s = b.1) = false := by
      intro b hb
      have := lookup_eq_none.mp hl
      simp only [decide_eq_false_iff_not]
      intro h
      exact this (List.mem_map.mpr ⟨b, hb, h.symm⟩)
    rw [updFold_untouched _ _ _ _ _ hs]
    cases s <;> simp [hl]
  | some m =>
    have hmem := (lookup_eq_some hd).mp hl
    cases s with
    | nterm => simpa [hl] using updFold_present _ _ .nterm c none (by rfl) hpw (.nterm, m) hmem (by simp)
    | cterm => simpa [hl] using updFold_present _ _ .cterm c none (by rfl) hpw (.cterm, m) hmem (by simp)
    | seq i =>
      simp only [hl, Option.getD_some]
      split
      · exact updFold_present _ _ (.seq i) c (some 0) (by simp [emptyAt]) hpw (.seq i, m) hmem (by simp)
      · exact updFold_kept _ _ _ c none (by rfl)

/-- a placement: candidate `(site, mass)` pairs with pairwise distinct sites, at most `max` of them -/
structure IsPlacement (cands : List (Site × Rat)) (max : Nat) (σ : List (Site × Rat)) : Prop where
  sub : ∀ x ∈ σ, x ∈ cands
  distinct : (σ.map Prod.fst).Nodup
  bound : σ.length ≤ max

theorem place_nil (p : Peptide Rat) (hf : Fresh p) : place p [] = p := by
  have := applyCombo_eq_place p hf [] (by simp)
  simpa [applyCombo] using this.symm

theorem place_perm (p : Peptide Rat) {σ τ : List (Site × Rat)} (hp : σ.Perm τ) (hd : (σ.map Prod.fst).Nodup) :
    place p σ = place p τ := by
  simp only [place, lookup_perm hp hd]

theorem nodup_of_map_fst {σ : List (Site × Rat)} (h : (σ.map Prod.fst).Nodup) : σ.Nodup :=
  List.Nodup.of_map _ h

/-- soundness at the level of variable forms -/
theorem varForms_sound (p : Peptide Rat) (hf : Fresh p) (vars : List (Target × Rat)) (max : Nat) :
    ∀ q ∈ varForms p vars max,
      ∃ σ, IsPlacement (pushResi p.sequence p.position vars) max σ ∧ q = place p σ := by
  intro q hq
  simp only [varForms, List.mem_cons, List.mem_map] at hq
  rcases hq with rfl | ⟨c, hc, rfl⟩
  · exact ⟨[], ⟨by simp, by simp, by simp⟩, (place_nil q hf).symm⟩
  · obtain ⟨hs, _, h2, hd⟩ := (mem_placements _ _ _).mp hc
    exact ⟨c, ⟨fun x hx => hs.subset hx, hd, h2⟩, applyCombo_eq_place p hf c hd⟩

/-- completeness at the level of variable forms -/
theorem varForms_complete (p : Peptide Rat) (hf : Fresh p) (vars : List (Target × Rat)) (max : Nat)
    (hnd : (pushResi p.sequence p.position vars).Nodup) (σ : List (Site × Rat))
    (hσ : IsPlacement (pushResi p.sequence p.position vars) max σ) :
    place p σ ∈ varForms p vars max := by
  set cands := pushResi p.sequence p.position vars with hc
  by_cases hnil : σ = []
  · subst hnil
    rw [place_nil p hf]; simp [varForms]
  · let c := cands.filter (fun x => decide (x ∈ σ))
    have hsub : c.Sublist cands := List.filter_sublist
    have hσnd : σ.Nodup := nodup_of_map_fst hσ.distinct
    have hperm : c.Perm σ := by
      rw [List.perm_ext_iff_of_nodup (hnd.filter _) hσnd]
      intro x
      simp only [List.mem_filter, decide_eq_true_eq]
      exact ⟨fun h => h.2, fun h => ⟨hσ.sub x h, h⟩⟩
    have hcd : (c.map Prod.fst).Nodup := (hperm.map Prod.fst).nodup_iff.mpr hσ.distinct
    have hlen : c.length = σ.length := hperm.length_eq
    have hpos : 1 ≤ σ.length := by
      cases σ with
      | nil => exact absurd rfl hnil
      | cons _ _ => simp
    have hmem : c ∈ placements cands max :=
      (mem_placements _ _ _).mpr ⟨hsub, by omega, by have := hσ.bound; omega, hcd⟩
    have : place p σ = applyCombo p c := by
      rw [applyCombo_eq_place p hf c hcd]; exact (place_perm p hperm hcd).symm
    rw [this]
    simp only [varForms, List.mem_cons, List.mem_map]
    exact Or.inr ⟨c, hmem, rfl⟩


/-! ## helper lemmas: eligibility, uniqueness of placements -/


theorem apply_eq_map (p : Peptide Rat) (vars statics : List (Target × Rat)) (max : Nat) :
    apply p vars statics max = (varForms p vars max).map fun q => finish (applyStatics statics q) := by
  unfold apply
  split
  · rename_i h
    have : vars = [] := by simpa using h
    subst this
    simp [varForms, pushResi, placements_nil]
  · rfl

theorem first_eq {seq : List Nat} {r : Nat} (hr : r ≠ 0) : r = first seq ↔ seq[0]? = some r := by
  cases seq with
  | nil => simp [first, hr]
  | cons x xs => simp [first, eq_comm]

theorem last_eq {seq : List Nat} {r : Nat} (hr : r ≠ 0) : r = last seq ↔ seq[seq.length - 1]? = some r ∧ seq ≠ [] := by
  cases seq with
  | nil => simp [last, hr]
  | cons x xs =>
    simp only [last, List.getLast?_eq_getElem?, List.length_cons, Nat.add_sub_cancel, ne_eq, reduceCtorEq,
      not_false_eq_true, and_true]
    cases h : (x :: xs)[xs.length]? with
    | none => simp at h
    | some y => simp [eq_comm]

theorem valid_ne_zero {t : Target} (hv : t.Valid) {r : Nat} (h : t.resi = some r) : r ≠ 0 :=
  (validAA_not_marker (hv r h)).2.2.2.2

/-- **sites_spec**: the sites the code addresses for a (valid) target are exactly the sites the
    declarative eligibility relation of the specification allows -/
theorem sites_spec (seq : List Nat) (pos : Position) (t : Target) (hv : t.Valid) (s : Site) :
    s ∈ sitesOf seq pos t ↔ eligible seq pos t s = true := by
  cases t with
  | peptideN r =>
    cases r with
    | none => cases s <;> simp [sitesOf, eligible]
    | some r =>
      have hr := valid_ne_zero hv (r := r) rfl
      cases s with
      | seq i =>
        simp only [sitesOf, eligible, beq_iff_eq, Bool.and_eq_true]
        split
        · rename_i h; have := (first_eq hr).mp h
          simp only [List.mem_singleton, Site.seq.injEq]
          constructor
          · rintro rfl; exact ⟨rfl, this⟩
          · exact fun h => h.1
        · rename_i h
          simp only [List.not_mem_nil, false_iff, not_and]
          rintro rfl h2; exact h ((first_eq hr).mpr h2)
      | nterm => simp only [sitesOf, eligible]; split <;> simp
      | cterm => simp only [sitesOf, eligible]; split <;> simp
  | proteinN r =>
    cases r with
    | none => cases s <;> simp [sitesOf, eligible]
    | some r =>
      have hr := valid_ne_zero hv (r := r) rfl
      cases s with
      | seq i =>
        simp only [sitesOf, eligible, beq_iff_eq, Bool.and_eq_true]
        split
        · rename_i h
          have := (first_eq hr).mp h.2
          simp only [List.mem_singleton, Site.seq.injEq]
          constructor
          · rintro rfl; exact ⟨⟨h.1, rfl⟩, this⟩
          · exact fun h => h.1.2
        · rename_i h
          simp only [List.not_mem_nil, false_iff, not_and]
          rintro ⟨h1, rfl⟩ h2; exact h ⟨h1, (first_eq hr).mpr h2⟩
      | nterm => simp only [sitesOf, eligible]; split <;> simp
      | cterm => simp only [sitesOf, eligible]; split <;> simp
  | peptideC r =>
    cases r with
    | none => cases s <;> simp [sitesOf, eligible]
    | some r =>
      have hr := valid_ne_zero hv (r := r) rfl
      cases s with
      | seq i =>
        simp only [sitesOf, eligible, beq_iff_eq, Bool.and_eq_true]
        split
        · rename_i h
          obtain ⟨h1, h2⟩ := (last_eq hr).mp h
          have hl : 0 < seq.length := List.length_pos_iff.mpr h2
          simp only [List.mem_singleton, Site.seq.injEq]
          constructor
          · rintro rfl; exact ⟨by omega, h1⟩
          · rintro ⟨h3, _⟩; omega
        · rename_i h
          simp only [List.not_mem_nil, false_iff, not_and]
          intro h1 h2
          apply h
          have hi : i = seq.length - 1 := by omega
          have hne : seq ≠ [] := by
            rintro rfl; simp at h2
          exact (last_eq hr).mpr ⟨hi ▸ h2, hne⟩
      | nterm => simp only [sitesOf, eligible]; split <;> simp
      | cterm => simp only [sitesOf, eligible]; split <;> simp
  | proteinC r =>
    cases r with
    | none => cases s <;> simp [sitesOf, eligible]
    | some r =>
      have hr := valid_ne_zero hv (r := r) rfl
      cases s with
      | seq i =>
        simp only [sitesOf, eligible, beq_iff_eq, Bool.and_eq_true]
        split
        · rename_i h
          obtain ⟨h1, h2⟩ := (last_eq hr).mp h.2
          have hl : 0 < seq.length := List.length_pos_iff.mpr h2
          simp only [List.mem_singleton, Site.seq.injEq]
          constructor
          · rintro rfl; exact ⟨⟨h.1, by omega⟩, h1⟩
          · rintro ⟨⟨_, h3⟩, _⟩; omega
        · rename_i h
          simp only [List.not_mem_nil, false_iff, not_and]
          rintro ⟨h0, h1⟩ h2
          apply h
          have hi : i = seq.length - 1 := by omega
          have hne : seq ≠ [] := by
            rintro rfl; simp at h2
          exact ⟨h0, (last_eq hr).mpr ⟨hi ▸ h2, hne⟩⟩
      | nterm => simp only [sitesOf, eligible]; split <;> simp
      | cterm => simp only [sitesOf, eligible]; split <;> simp
  | residue r =>
    cases s with
    | seq i =>
      simp only [sitesOf, eligible, List.mem_map, List.mem_filter, List.mem_range, beq_iff_eq, Site.seq.injEq,
        exists_eq_right]
      exact ⟨fun h => h.2, fun h => ⟨(List.getElem?_eq_some_iff.mp h).1, h⟩⟩
    | nterm => simp [sitesOf, eligible]
    | cterm => simp [sitesOf, eligible]

theorem eligible_inRange {seq : List Nat} {pos : Position} {t : Target} {s : Site}
    (h : eligible seq pos t s = true) : InRange seq.length s := by
  cases s with
  | nterm => trivial
  | cterm => trivial
  | seq i =>
    have : ∃ r, seq[i]? = some r := by
      cases t with
      | residue r => exact ⟨r, by simpa [eligible] using h⟩
      | peptideN r => cases r <;> simp [eligible] at h; exact ⟨_, h.2⟩
      | peptideC r => cases r <;> simp [eligible] at h; exact ⟨_, h.2⟩
      | proteinN r => cases r <;> simp [eligible] at h; exact ⟨_, h.2⟩
      | proteinC r => cases r <;> simp [eligible] at h; exact ⟨_, h.2⟩
    obtain ⟨r, hr⟩ := this
    exact (List.getElem?_eq_some_iff.mp hr).1

/-- the candidate list of the code, read declaratively -/
theorem mem_pushResi (seq : List Nat) (pos : Position) (vars : List (Target × Rat))
    (hv : ∀ tm ∈ vars, tm.1.Valid) (s : Site) (m : Rat) :
    (s, m) ∈ pushResi seq pos vars ↔ ∃ t, (t, m) ∈ vars ∧ eligible seq pos t s = true := by
  simp only [pushResi, List.mem_flatMap, List.mem_map, Prod.mk.injEq]
  constructor
  · rintro ⟨⟨t, m'⟩, htm, s', hs', rfl, rfl⟩
    exact ⟨t, htm, (sites_spec seq pos t (hv _ htm) s').mp hs'⟩
  · rintro ⟨t, htm, he⟩
    exact ⟨(t, m), htm, s, (sites_spec seq pos t (hv _ htm) s).mpr he, rfl, rfl⟩


theorem finish_slotAt (q : Peptide Rat) (s : Site) : (finish q).slotAt s = q.slotAt s := by
  cases s <;> rfl

theorem place_mods_length (p : Peptide Rat) (σ : List (Site × Rat)) : (place p σ).mods.length = p.mods.length := by
  simp [place]

/-- equal placed forms have equal finite maps (on the sites that exist), masses being non-zero -/
theorem lookup_of_place_eq (p : Peptide Rat) {c1 c2 : List (Site × Rat)}
    (hd1 : (c1.map Prod.fst).Nodup) (hd2 : (c2.map Prod.fst).Nodup)
    (hz1 : ∀ x ∈ c1, x.2 ≠ 0) (hz2 : ∀ x ∈ c2, x.2 ≠ 0)
    (h : place p c1 = place p c2) (s : Site) (hs : InRange p.mods.length s) :
    c1.lookup s = c2.lookup s := by
  have hslot : (place p c1).slotAt s = (place p c2).slotAt s := by rw [h]
  rw [place_slotAt, place_slotAt] at hslot
  cases s with
  | nterm => exact hslot
  | cterm => exact hslot
  | seq i =>
    have hi : i < p.mods.length := hs
    simp only [hi, ↓reduceIte, Option.some.injEq] at hslot
    cases h1 : c1.lookup (.seq i) with
    | none =>
      cases h2 : c2.lookup (.seq i) with
      | none => rfl
      | some m2 =>
        rw [h1, h2] at hslot
        exact absurd hslot.symm (hz2 _ ((lookup_eq_some hd2).mp h2))
    | some m1 =>
      cases h2 : c2.lookup (.seq i) with
      | none =>
        rw [h1, h2] at hslot
        exact absurd hslot (hz1 _ ((lookup_eq_some hd1).mp h1))
      | some m2 =>
        rw [h1, h2] at hslot
        simpa using hslot

theorem sublist_eq_filter {β : Type} [DecidableEq β] {l c : List β} (hnd : l.Nodup) (hs : c.Sublist l) :
    c = l.filter (fun x => decide (x ∈ c)) := by
  induction hs with
  | slnil => rfl
  | cons a hs ih =>
    rename_i c l
    obtain ⟨ha, hl⟩ := List.nodup_cons.mp hnd
    have : a ∉ c := fun h => ha (hs.subset h)
    simp only [List.filter_cons, this, decide_false, Bool.false_eq_true, ↓reduceIte]
    exact ih hl
  | cons_cons a hs ih =>
    rename_i c l
    obtain ⟨ha, hl⟩ := List.nodup_cons.mp hnd
    simp only [List.filter_cons, List.mem_cons, true_or, decide_true, ↓reduceIte, List.cons.injEq, true_and]
    have : l.filter (fun x => decide (x = a ∨ x ∈ c)) = l.filter (fun x => decide (x ∈ c)) := by
      apply List.filter_congr
      intro x hx
      have : x ≠ a := fun h => ha (h ▸ hx)
      simp [this]
    rw [this]
    exact ih hl

theorem sublist_ext_of_nodup {β : Type} [DecidableEq β] {l c1 c2 : List β} (hnd : l.Nodup)
    (h1 : c1.Sublist l) (h2 : c2.Sublist l) (h : ∀ x, x ∈ c1 ↔ x ∈ c2) : c1 = c2 := by
  rw [sublist_eq_filter hnd h1, sublist_eq_filter hnd h2]
  apply List.filter_congr
  intro x _
  simp [h x]

/-- **each once**: with a duplicate-free candidate list of non-zero masses on existing sites, no
    variable form is generated twice -/
theorem varForms_nodup (p : Peptide Rat) (hf : Fresh p) (vars : List (Target × Rat)) (max : Nat)
    (hnd : (pushResi p.sequence p.position vars).Nodup)
    (hz : ∀ x ∈ pushResi p.sequence p.position vars, x.2 ≠ 0)
    (hr : ∀ x ∈ pushResi p.sequence p.position vars, InRange p.mods.length x.1) :
    (varForms p vars max).Nodup := by
  set cands := pushResi p.sequence p.position vars with hc
  have key : ∀ c ∈ placements cands max,
      c.Sublist cands ∧ (c.map Prod.fst).Nodup ∧ (∀ x ∈ c, x.2 ≠ 0) ∧ (∀ x ∈ c, InRange p.mods.length x.1) ∧
        1 ≤ c.length ∧ applyCombo p c = place p c := by
    intro c hcm
    obtain ⟨hs, h1, _, hd⟩ := (mem_placements _ _ _).mp hcm
    exact ⟨hs, hd, fun x hx => hz x (hs.subset hx), fun x hx => hr x (hs.subset hx), h1,
      applyCombo_eq_place p hf c hd⟩
  simp only [varForms, List.nodup_cons, List.mem_map, not_exists, not_and]
  constructor
  · intro c hcm heq
    obtain ⟨_, hd, hz', hr', h1, hpl⟩ := key c hcm
    rw [hpl] at heq
    cases c with
    | nil => simp at h1
    | cons x xs =>
      obtain ⟨s, m⟩ := x
      have hm : m ≠ 0 := hz' (s, m) (by simp)
      have hs : InRange p.mods.length s := hr' (s, m) (by simp)
      have hl : ((s, m) :: xs).lookup s = some m := by simp [List.lookup]
      have hslot : (place p ((s, m) :: xs)).slotAt s = p.slotAt s := by rw [heq]
      rw [place_slotAt, fresh_slotAt hf] at hslot
      cases s with
      | nterm => simp [hl] at hslot
      | cterm => simp [hl] at hslot
      | seq i =>
        have hi : i < p.mods.length := hs
        simp only [hi, ↓reduceIte, hl, Option.getD_some, Option.some.injEq] at hslot
        exact hm hslot
  · apply List.Nodup.map_on _ (nodup_placements cands max hnd)
    intro c1 h1 c2 h2 heq
    obtain ⟨hs1, hd1, hz1, hr1, _, hp1⟩ := key c1 h1
    obtain ⟨hs2, hd2, hz2, hr2, _, hp2⟩ := key c2 h2
    rw [hp1, hp2] at heq
    have hl := lookup_of_place_eq p hd1 hd2 hz1 hz2 heq
    have hperm : c1.Perm c2 := by
      rw [List.perm_ext_iff_of_nodup (nodup_of_map_fst hd1) (nodup_of_map_fst hd2)]
      rintro ⟨s, m⟩
      constructor
      · intro hx
        have := (lookup_eq_some hd1).mpr hx
        rw [hl s (hr1 _ hx)] at this
        exact (lookup_eq_some hd2).mp this
      · intro hx
        have := (lookup_eq_some hd2).mpr hx
        rw [← hl s (hr2 _ hx)] at this
        exact (lookup_eq_some hd1).mp this
    exact sublist_ext_of_nodup hnd hs1 hs2 (fun x => hperm.mem_iff)

theorem pushResi_inRange (seq : List Nat) (pos : Position) (vars : List (Target × Rat))
    (hv : ∀ tm ∈ vars, tm.1.Valid) : ∀ x ∈ pushResi seq pos vars, InRange seq.length x.1 := by
  rintro ⟨s, m⟩ hx
  obtain ⟨t, _, he⟩ := (mem_pushResi seq pos vars hv s m).mp hx
  exact eligible_inRange he

theorem pushResi_ne_zero (seq : List Nat) (pos : Position) (vars : List (Target × Rat))
    (hz : ∀ tm ∈ vars, tm.2 ≠ 0) : ∀ x ∈ pushResi seq pos vars, x.2 ≠ 0 := by
  rintro ⟨s, m⟩ hx
  simp only [pushResi, List.mem_flatMap, List.mem_map, Prod.mk.injEq] at hx
  obtain ⟨tm, htm, _, _, _, rfl⟩ := hx
  exact hz tm htm



/-! ## property theorems -/

/-- **C06.mass_formula** — every form produced by `apply` from a peptide built by `try_from` keeps the
    sequence and has `monoisotopic = H2O + Σ residue masses + Σ residue-slot modifications + nterm +
    cterm` (exact arithmetic; `h2o`/`table` arbitrary, in particular the regenerated constants). -/
theorem mass_formula (h2o : Rat) (table : List Rat) (pos : Position) (seq : List Nat)
    (vars statics : List (Target × Rat)) (max : Nat) (p : Peptide Rat)
    (hp : tryFrom h2o table pos seq = some p) :
    ∀ f ∈ apply p vars statics max,
      f.sequence = seq ∧ f.position = pos ∧ f.mods.length = seq.length ∧
      f.mono = h2o + (seq.map (monoisotopic table)).sum + f.mods.sum + f.nterm.getD 0 + f.cterm.getD 0 := by
  intro f hf
  obtain ⟨hpos, hseq, hmods, _, _, hmono, _⟩ := tryFrom_some hp
  obtain ⟨q, hq, rfl⟩ := mem_apply hf
  have h1 := (varForms_frame hq).trans (applyStatics_frame statics q)
  obtain ⟨f1, f2, f3, f4⟩ := h1
  refine ⟨by simp [finish, f2, hseq], by simp [finish, f1, hpos], by simp [finish, f4, hmods], ?_⟩
  simp only [finish, modMass, foldl_add_eq, f3, hmono]
  ring

/-- non-vacuity of `mass_formula`: `try_from` succeeds on "MK" (real constants) and `apply` with a
    variable `M`+16, a static `K`+8 and an N-terminal +42 produces four forms -/
example : ((tryFrom Sage.Gen.H2O Sage.Gen.MONOISOTOPIC .full [77, 75]).map fun p =>
    (apply p [(.residue 77, 16), (.peptideN none, 42)] [(.residue 75, 8)] 2).length) = some 4 := by
  decide +kernel

/-- **C06.try_from_rejects** — `try_from` accepts a sequence exactly when every byte is ASCII and has
    a non-zero residue mass (with the regenerated table: one of the 22 letters of `VALID_AA`). -/
theorem try_from_accepts_iff (h2o : Rat) (table : List Rat) (pos : Position) (seq : List Nat) :
    (tryFrom h2o table pos seq).isSome ↔ ∀ c ∈ seq, c < 128 ∧ monoisotopic table c ≠ 0 := by
  constructor
  · intro h
    obtain ⟨p, hp⟩ := Option.isSome_iff_exists.mp h
    have h2 := (tryFrom_some hp).2.2.2.2.2.2
    have h1 : seq.all (· < 128) = true := by
      unfold tryFrom at hp
      split at hp
      · assumption
      · simp at hp
    intro c hc
    exact ⟨by simpa using (List.all_eq_true.mp h1) c hc, h2 c hc⟩
  · intro h
    have h1 : seq.all (· < 128) = true := List.all_eq_true.mpr (fun c hc => by simpa using (h c hc).1)
    have h2 : ∀ acc : Rat, (sumResidues table acc seq).isSome := by
      clear h1
      induction seq with
      | nil => intro acc; simp [sumResidues]
      | cons c cs ih =>
        intro acc
        have hc := (h c (by simp)).2
        simp only [sumResidues, beq_iff_eq, hc, ↓reduceIte]
        exact ih (fun c' hc' => h c' (List.mem_cons_of_mem _ hc')) _
    unfold tryFrom
    simp only [h1, ↓reduceIte]
    cases hs : sumResidues table h2o seq with
    | none => have := h2 h2o; simp [hs] at this
    | some m => simp

/-- with the regenerated table the letters of non-zero mass are exactly the 22 of `VALID_AA` -/
theorem monoisotopic_ne_zero_iff (c : Nat) (hc : c < 128) :
    monoisotopic Sage.Gen.MONOISOTOPIC c ≠ 0 ↔ c ∈ Sage.Gen.VALID_AA := by
  have : ∀ c : Fin 128, monoisotopic Sage.Gen.MONOISOTOPIC c.val ≠ 0 ↔ c.val ∈ Sage.Gen.VALID_AA := by
    decide +kernel
  exact this ⟨c, hc⟩

/-- **C06.range_filter** — a form enters the database exactly when `apply` produced it and its mass
    lies in `[peptide_min_mass, peptide_max_mass]` (both bounds inclusive); invalid sequences
    contribute nothing. -/
theorem range_filter (h2o : Rat) (table : List Rat) (pos : Position) (seq : List Nat)
    (vars statics : List (Target × Rat)) (max : Nat) (lo hi : Rat) (f : Peptide Rat) :
    f ∈ dbForms h2o table pos seq vars statics max lo hi ↔
      ∃ p, tryFrom h2o table pos seq = some p ∧ f ∈ apply p vars statics max ∧ lo ≤ f.mono ∧ f.mono ≤ hi := by
  unfold dbForms
  cases h : tryFrom h2o table pos seq with
  | none => simp
  | some p => simp [rangeFilter, List.mem_filter]

/-- the filter keeps multiplicities and order of what it keeps -/
theorem range_filter_sublist (lo hi : Rat) (forms : List (Peptide Rat)) :
    (rangeFilter lo hi forms).Sublist forms := List.filter_sublist

/-- non-vacuity of `range_filter`: of the four forms of "MK" above, exactly two lie in [300, 330] -/
example : (dbForms Sage.Gen.H2O Sage.Gen.MONOISOTOPIC .full [77, 75]
      [(.residue 77, 16), (.peptideN none, 42)] [(.residue 75, 8)] 2 300 330).length = 2 := by
  decide +kernel

/-- **C06.fromStr_grammar** — a key is accepted exactly when it is in the documented grammar (one of
    `^ $ [ ]` optionally followed by one of the 22 residues, or one residue), and then it has exactly
    the documented meaning. Every other string (any length, any code points) is rejected. -/
theorem fromStr_grammar (s : List Nat) (t : Target) : fromStr s = .ok t ↔ InGrammar s t :=
  ⟨grammar_of_fromStr, fromStr_of_grammar⟩

/-- the finite table the driver checks the implementation against is the same grammar -/
theorem grammar_table (s : List Nat) (t : Target) : (s, t) ∈ grammar ↔ InGrammar s t := by
  constructor
  · intro h
    have : ∀ st ∈ grammar, fromStr st.1 = .ok st.2 := by decide +kernel
    exact grammar_of_fromStr (this (s, t) h)
  · intro h
    have hv : ∀ r, validAA r = true → r ∈ Sage.Gen.VALID_AA := fun r hr => (validAA_ascii hr).2
    cases h with
    | pepN => decide
    | pepC => decide
    | proN => decide
    | proC => decide
    | pepNr r hr => simp [grammar, markers, hv r hr]
    | pepCr r hr => simp [grammar, markers, hv r hr]
    | proNr r hr => simp [grammar, markers, hv r hr]
    | proCr r hr => simp [grammar, markers, hv r hr]
    | resi r hr => simp [grammar, markers, hv r hr]

/-- everything `fromStr` returns is a valid target (its residue is one of the 22 letters) -/
theorem fromStr_valid {s : List Nat} {t : Target} (h : fromStr s = .ok t) : t.Valid := by
  intro r hr
  cases grammar_of_fromStr h <;> simp_all [Target.resi]

/-- non-vacuity / the repaired defects: "MK", "^Z", "é", "" and "^MK" are rejected; "[M" and "K" are read as documented -/
example : fromStr [77, 75] = .error .tooLong ∧ fromStr [94, 90] = .error (.invalidResidue 90) ∧
    fromStr [233] = .error (.invalidResidue 233) ∧ fromStr [] = .error .empty ∧
    fromStr [94, 77, 75] = .error .tooLong ∧
    fromStr [91, 77] = .ok (.proteinN (some 77)) ∧ fromStr [75] = .ok (.residue 75) := by decide

/-! ### enumeration and static modifications -/


/-- **C06.apply_enumerates_sound** — every generated form is the unmodified peptide (`σ = []`) or a
    placement: a set `σ` of candidate `(site, mass)` pairs with pairwise distinct sites (one
    modification per site), at most `max` of them; followed by the static modifications and the mass
    update. By `mem_pushResi` a candidate `(s, m)` is exactly: some variable modification `(t, m)`
    with `s` eligible for `t` (residue / peptide-terminus / protein-terminus specificity). -/
theorem apply_enumerates_sound (h2o : Rat) (table : List Rat) (pos : Position) (seq : List Nat)
    (vars statics : List (Target × Rat)) (max : Nat) (p : Peptide Rat)
    (hp : tryFrom h2o table pos seq = some p) :
    ∀ f ∈ apply p vars statics max,
      ∃ σ, IsPlacement (pushResi seq pos vars) max σ ∧ f = finish (applyStatics statics (place p σ)) := by
  intro f hf
  obtain ⟨hpos, hseq, _⟩ := tryFrom_some hp
  obtain ⟨q, hq, rfl⟩ := mem_apply hf
  obtain ⟨σ, hσ, rfl⟩ := varForms_sound p (tryFrom_fresh hp).1 vars max q hq
  rw [hpos, hseq] at hσ
  exact ⟨σ, hσ, rfl⟩

/-- **C06.apply_enumerates_complete** — if the candidate list has no duplicate `(site, mass)`, every
    placement of at most `max` candidates on distinct sites (and the unmodified form, `σ = []`) is
    generated. -/
theorem apply_enumerates_complete (h2o : Rat) (table : List Rat) (pos : Position) (seq : List Nat)
    (vars statics : List (Target × Rat)) (max : Nat) (p : Peptide Rat)
    (hp : tryFrom h2o table pos seq = some p) (hnd : (pushResi seq pos vars).Nodup) :
    ∀ σ, IsPlacement (pushResi seq pos vars) max σ →
      finish (applyStatics statics (place p σ)) ∈ apply p vars statics max := by
  intro σ hσ
  obtain ⟨hpos, hseq, _⟩ := tryFrom_some hp
  rw [← hpos, ← hseq] at hσ hnd
  rw [apply_eq_map]
  exact List.mem_map.mpr ⟨_, varForms_complete p (tryFrom_fresh hp).1 vars max hnd σ hσ, rfl⟩

/-- **C06.apply_enumerates_once** — `apply` is the image, entry by entry, of the list of variable
    forms, and under the premises (valid targets, no duplicate candidate, no zero mass) that list has
    no repetition: every placement (the empty one included) occurs exactly once. -/
theorem apply_enumerates_once (h2o : Rat) (table : List Rat) (pos : Position) (seq : List Nat)
    (vars statics : List (Target × Rat)) (max : Nat) (p : Peptide Rat)
    (hp : tryFrom h2o table pos seq = some p)
    (hv : ∀ tm ∈ vars, tm.1.Valid) (hz : ∀ tm ∈ vars, tm.2 ≠ 0) (hnd : (pushResi seq pos vars).Nodup) :
    apply p vars statics max = (varForms p vars max).map (fun q => finish (applyStatics statics q)) ∧
    (varForms p vars max).Nodup ∧
    ∀ σ, IsPlacement (pushResi seq pos vars) max σ → (varForms p vars max).count (place p σ) = 1 := by
  obtain ⟨hpos, hseq, _⟩ := tryFrom_some hp
  obtain ⟨hf, hlen⟩ := tryFrom_fresh hp
  have hnodup : (varForms p vars max).Nodup := by
    apply varForms_nodup p hf vars max
    · rw [hpos, hseq]; exact hnd
    · rw [hpos, hseq]; exact pushResi_ne_zero seq pos vars hz
    · rw [hpos, hlen, hseq]; exact pushResi_inRange seq pos vars hv
  refine ⟨apply_eq_map p vars statics max, hnodup, ?_⟩
  intro σ hσ
  apply List.count_eq_one_of_mem hnodup
  rw [← hpos, ← hseq] at hσ hnd
  exact varForms_complete p hf vars max hnd σ hσ

/-- non-vacuity of the enumeration theorems (and a check of the counts): "MCMK" with variable `M`+16
    (two sites) and `^`+42, max 2: candidates are distinct, 1 + 3 + 3 = 7 forms, no repetition. -/
example : ((tryFrom Sage.Gen.H2O Sage.Gen.MONOISOTOPIC .full [77, 67, 77, 75]).map fun p =>
    ((pushResi [77, 67, 77, 75] Position.full [(Target.residue 77, (16 : Rat)), (.peptideN none, 42)]).length,
     decide (pushResi [77, 67, 77, 75] Position.full [(Target.residue 77, (16 : Rat)), (.peptideN none, 42)]).Nodup,
     (apply p [(.residue 77, 16), (.peptideN none, 42)] [(.residue 67, 57)] 2).length,
     decide (apply p [(.residue 77, 16), (.peptideN none, 42)] [(.residue 67, 57)] 2).Nodup)) = some (3, true, 7, true) := by
  decide +kernel

/-- the premise `Nodup` matters: with the overlapping keys `^A` and `A` of equal mass the form
    `A[+42]GGGGK` is generated twice (DESIGN §5 #8; merged later by the database) -/
example : ((tryFrom Sage.Gen.H2O Sage.Gen.MONOISOTOPIC .full [65, 71, 75]).map fun p =>
    let fs := apply p [(.peptideN (some 65), 42), (.residue 65, 42)] [] 1
    (fs.length, decide fs.Nodup)) = some (3, false) := by
  decide +kernel

/-- **C06.static_order_irrelevant** — for static modifications that address pairwise disjoint sites
    of the peptide, the forms do not depend on the order in which the `HashMap` yields them. -/
theorem static_order_irrelevant (h2o : Rat) (table : List Rat) (pos : Position) (seq : List Nat)
    (vars : List (Target × Rat)) (max : Nat) (p : Peptide Rat)
    (hp : tryFrom h2o table pos seq = some p)
    (s1 s2 : List (Target × Rat)) (hperm : s1.Perm s2) (hdisj : s1.Pairwise (StaticsDisjoint seq pos)) :
    apply p vars s1 max = apply p vars s2 max := by
  obtain ⟨hpos, hseq, _⟩ := tryFrom_some hp
  rw [apply_eq_map, apply_eq_map]
  apply List.map_congr_left
  intro q hq
  obtain ⟨f1, f2, _, _⟩ := varForms_frame hq
  rw [applyStatics_perm q s1 s2 hperm (by rw [f1, f2, hpos, hseq]; exact hdisj)]

/-- non-vacuity of `static_order_irrelevant`, and the hypothesis matters: `K`+8 and `^`+229 commute;
    the overlapping `$K`+1 / `K`+8 do not -/
example : ((tryFrom Sage.Gen.H2O Sage.Gen.MONOISOTOPIC .full [77, 75]).map fun p =>
    (decide (apply p [] [(.residue 75, 8), (.peptideN none, 229)] 1 = apply p [] [(.peptideN none, 229), (.residue 75, 8)] 1),
     decide (apply p [] [(.residue 75, 8), (.peptideC (some 75), 1)] 1 = apply p [] [(.peptideC (some 75), 1), (.residue 75, 8)] 1)))
    = some (true, false) := by
  decide +kernel

/-- **C06.statics_present** — after the static modifications (pairwise disjoint on this peptide):
    (1) every site a static modification addresses that carried nothing now carries its mass;
    (2) a site that already carried a modification (a variable one) keeps it;
    (3) a site no static modification addresses is left as it was. -/
theorem statics_present (q : Peptide Rat) (statics : List (Target × Rat))
    (hdisj : statics.Pairwise (StaticsDisjoint q.sequence q.position)) :
    (∀ tm ∈ statics, ∀ s ∈ sitesOf q.sequence q.position tm.1, emptyAt s (q.slotAt s) = true →
        (applyStatics statics q).slotAt s = some tm.2) ∧
    (∀ s, emptyAt s (q.slotAt s) = false → (applyStatics statics q).slotAt s = q.slotAt s) ∧
    (∀ s, (∀ tm ∈ statics, s ∉ sitesOf q.sequence q.position tm.1) →
        (applyStatics statics q).slotAt s = q.slotAt s) := by
  refine ⟨?_, ?_, ?_⟩
  · intro tm htm s hs he
    rw [applyStatics_slotAt]
    refine updFold_present _ _ s statics _ he ?_ tm htm (by simpa [siteSet] using hs)
    refine hdisj.imp ?_
    intro a b hab h
    simp only [siteSet, decide_eq_true_eq] at h
    exact hab s h
  · intro s he
    rw [applyStatics_slotAt]
    exact updFold_kept _ _ s statics _ he
  · intro s hs
    rw [applyStatics_slotAt]
    exact updFold_untouched _ _ s statics _ (fun tm htm => by simpa [siteSet] using hs tm htm)

/-- **C06.forms_characterized** — the complete description of a generated form, site by site: there is
    a placement `σ` such that every site of the peptide holds `σ`'s mass if `σ` places one there,
    otherwise the mass of the static modification that addresses it, otherwise nothing.
    (Premises: valid targets, non-zero variable masses, pairwise disjoint static modifications.) -/
theorem forms_characterized (h2o : Rat) (table : List Rat) (pos : Position) (seq : List Nat)
    (vars statics : List (Target × Rat)) (max : Nat) (p : Peptide Rat)
    (hp : tryFrom h2o table pos seq = some p)
    (hz : ∀ tm ∈ vars, tm.2 ≠ 0) (hdisj : statics.Pairwise (StaticsDisjoint seq pos)) :
    ∀ f ∈ apply p vars statics max, ∃ σ, IsPlacement (pushResi seq pos vars) max σ ∧
      ∀ s, InRange seq.length s →
        (∀ m, (s, m) ∈ σ → f.slotAt s = some m) ∧
        (s ∉ σ.map Prod.fst → ∀ tm ∈ statics, s ∈ sitesOf seq pos tm.1 → f.slotAt s = some tm.2) ∧
        (s ∉ σ.map Prod.fst → (∀ tm ∈ statics, s ∉ sitesOf seq pos tm.1) → emptyAt s (f.slotAt s) = true) := by
  intro f hf
  obtain ⟨σ, hσ, rfl⟩ := apply_enumerates_sound h2o table pos seq vars statics max p hp f hf
  obtain ⟨hpos, hseq, _⟩ := tryFrom_some hp
  obtain ⟨hfresh, hlen⟩ := tryFrom_fresh hp
  refine ⟨σ, hσ, ?_⟩
  intro s hs
  have hq1 : (place p σ).sequence = seq := hseq
  have hq2 : (place p σ).position = pos := hpos
  obtain ⟨c1, c2, c3⟩ := statics_present (place p σ) statics (by rw [hq1, hq2]; exact hdisj)
  rw [hq1, hq2] at c1 c3
  have hn : seq.length = p.mods.length := by rw [hlen, hseq]
  -- the reading of site `s` in the placed form
  have hplace : (place p σ).slotAt s = match s with
      | .seq i => some ((σ.lookup (.seq i)).getD 0)
      | s => σ.lookup s := by
    rw [place_slotAt]
    cases s with
    | seq i => have : i < p.mods.length := hn ▸ hs; simp [this]
    | nterm => rfl
    | cterm => rfl
  refine ⟨?_, ?_, ?_⟩
  · intro m hm
    have hl := (lookup_eq_some hσ.distinct).mpr hm
    have hm0 : m ≠ 0 := pushResi_ne_zero seq pos vars hz _ (hσ.sub _ hm)
    rw [finish_slotAt, c2 s, hplace]
    · cases s <;> simp [hl]
    · rw [hplace]; cases s <;> simp [hl, emptyAt, hm0]
  · intro hns tm htm hst
    have hl := lookup_eq_none.mpr hns
    rw [finish_slotAt]
    apply c1 tm htm s hst
    rw [hplace]; cases s <;> simp [hl, emptyAt]
  · intro hns hnone
    have hl := lookup_eq_none.mpr hns
    rw [finish_slotAt, c3 s hnone, hplace]
    cases s <;> simp [hl, emptyAt]


/-! ### the executable specification (reference enumerator) and the model -/


theorem mem_dedup {β : Type} [BEq β] [LawfulBEq β] (l : List β) (x : β) : x ∈ dedup l ↔ x ∈ l := by
  induction l with
  | nil => simp [dedup]
  | cons y ys ih =>
    simp only [dedup, List.mem_cons, List.mem_filter, ih, Bool.not_eq_eq_eq_not, Bool.not_true, beq_eq_false_iff_ne, ne_eq]
    constructor
    · rintro (h | ⟨h, _⟩)
      · exact Or.inl h
      · exact Or.inr h
    · rintro (h | h)
      · exact Or.inl h
      · by_cases hxy : x = y
        · exact Or.inl hxy
        · exact Or.inr ⟨h, hxy⟩

/-- the masses offered at a site, declaratively -/
theorem mem_optionsAt (seq : List Nat) (pos : Position) (vars : List (Target × Rat)) (s : Site) (m : Rat) :
    m ∈ optionsAt seq pos vars s ↔ ∃ t, (t, m) ∈ vars ∧ eligible seq pos t s = true := by
  simp only [optionsAt, mem_dedup, List.mem_map, List.mem_filter]
  constructor
  · rintro ⟨⟨t, m'⟩, ⟨h1, h2⟩, rfl⟩; exact ⟨t, h1, h2⟩
  · rintro ⟨t, h1, h2⟩; exact ⟨(t, m), ⟨h1, h2⟩, rfl⟩

/-- what the reference enumerator lists: assignments in site order, at most `k` of them, each mass
    one of the masses offered at its site -/
def RefOK (seq : List Nat) (pos : Position) (vars : List (Target × Rat)) (sites : List Site) (k : Nat)
    (σ : List (Site × Rat)) : Prop :=
  (σ.map Prod.fst).Sublist sites ∧ σ.length ≤ k ∧ ∀ x ∈ σ, x.2 ∈ optionsAt seq pos vars x.1

theorem mem_refPlacements (seq : List Nat) (pos : Position) (vars : List (Target × Rat)) (sites : List Site)
    (k : Nat) (σ : List (Site × Rat)) :
    σ ∈ refPlacements seq pos vars k sites ↔ RefOK seq pos vars sites k σ := by
  induction sites generalizing k σ with
  | nil =>
    simp only [refPlacements, List.mem_singleton, RefOK, List.sublist_nil, List.map_eq_nil_iff]
    constructor
    · rintro rfl; simp
    · exact fun h => h.1
  | cons s rest ih =>
    simp only [refPlacements, List.mem_append, ih]
    constructor
    · rintro (⟨h1, h2, h3⟩ | h)
      · exact ⟨h1.cons s, h2, h3⟩
      · split at h
        · simp at h
        · rename_i hk
          simp only [List.mem_flatMap, List.mem_map, ih] at h
          obtain ⟨m, hm, σ', ⟨h1, h2, h3⟩, rfl⟩ := h
          refine ⟨by simpa using h1.cons_cons s, by simp; omega, ?_⟩
          intro x hx
          rcases List.mem_cons.mp hx with rfl | hx
          · exact hm
          · exact h3 x hx
    · rintro ⟨h1, h2, h3⟩
      rcases List.sublist_cons_iff.mp h1 with h | ⟨r, hr, hsub⟩
      · exact Or.inl ⟨h, h2, h3⟩
      · right
        cases σ with
        | nil => simp at hr
        | cons x σ' =>
          obtain ⟨s', m⟩ := x
          simp only [List.map_cons, List.cons.injEq] at hr
          obtain ⟨rfl, rfl⟩ := hr
          have hk : k ≠ 0 := by simp at h2; omega
          simp only [hk, ↓reduceIte, List.mem_flatMap, List.mem_map, ih]
          refine ⟨m, h3 (s', m) (by simp), σ', ⟨hsub, by simp at h2; omega, fun x hx => h3 x (List.mem_cons_of_mem _ hx)⟩, rfl⟩

theorem nodup_allSites (n : Nat) : (allSites n).Nodup := by
  simp only [allSites, List.nodup_cons, List.mem_append, List.mem_map, List.mem_range, reduceCtorEq, and_false,
    exists_false, List.mem_singleton, or_self, not_false_eq_true, true_and]
  rw [List.nodup_append]
  refine ⟨List.Nodup.map (fun a b h => by simpa using h) List.nodup_range, by simp, ?_⟩
  intro a ha b hb
  simp only [List.mem_map, List.mem_range] at ha
  obtain ⟨i, _, rfl⟩ := ha
  simp only [List.mem_singleton] at hb
  subst hb
  simp

theorem mem_allSites (n : Nat) (s : Site) : s ∈ allSites n ↔ InRange n s := by
  cases s <;> simp [allSites, InRange]

/-- **C06.ref_sound** — every placement the executable reference enumerator lists is a placement in
    the sense of the theorems (a set of code candidates on distinct sites, at most `max`) -/
theorem ref_sound (seq : List Nat) (pos : Position) (vars : List (Target × Rat))
    (hv : ∀ tm ∈ vars, tm.1.Valid) (max : Nat) :
    ∀ σ ∈ refPlacements seq pos vars max (allSites seq.length),
      IsPlacement (pushResi seq pos vars) max σ := by
  intro σ hσ
  obtain ⟨h1, h2, h3⟩ := (mem_refPlacements _ _ _ _ _ _).mp hσ
  refine ⟨?_, h1.nodup (nodup_allSites _), h2⟩
  rintro ⟨s, m⟩ hx
  obtain ⟨t, ht, he⟩ := (mem_optionsAt _ _ _ _ _).mp (h3 _ hx)
  exact (mem_pushResi seq pos vars hv s m).mpr ⟨t, ht, he⟩

/-- **C06.ref_complete** — conversely every placement in the sense of the theorems is listed by the
    reference enumerator, up to the order in which its entries are written -/
theorem ref_complete (seq : List Nat) (pos : Position) (vars : List (Target × Rat))
    (hv : ∀ tm ∈ vars, tm.1.Valid) (max : Nat) (σ : List (Site × Rat))
    (hσ : IsPlacement (pushResi seq pos vars) max σ) :
    ∃ σ' ∈ refPlacements seq pos vars max (allSites seq.length), σ'.Perm σ := by
  let f : Site → Option (Site × Rat) := fun s => (σ.lookup s).map fun m => (s, m)
  let σ' := (allSites seq.length).filterMap f
  have hmem : ∀ x, x ∈ σ' ↔ x ∈ σ := by
    rintro ⟨s, m⟩
    simp only [σ', f, List.mem_filterMap, Option.map_eq_some_iff, Prod.mk.injEq]
    constructor
    · rintro ⟨s', _, m', hl, rfl, rfl⟩
      exact (lookup_eq_some hσ.distinct).mp hl
    · intro hx
      refine ⟨s, ?_, m, (lookup_eq_some hσ.distinct).mpr hx, rfl, rfl⟩
      exact (mem_allSites _ _).mpr (pushResi_inRange seq pos vars hv _ (hσ.sub _ hx))
  have hfst : σ'.map Prod.fst = (allSites seq.length).filter (fun s => (σ.lookup s).isSome) := by
    simp only [σ', f]
    generalize allSites seq.length = l
    induction l with
    | nil => rfl
    | cons s rest ih =>
      cases h : σ.lookup s <;> simp [h, ih]
  have hsub : (σ'.map Prod.fst).Sublist (allSites seq.length) := hfst ▸ List.filter_sublist
  have hnd' : σ'.Nodup := nodup_of_map_fst (hsub.nodup (nodup_allSites _))
  have hperm : σ'.Perm σ := (List.perm_ext_iff_of_nodup hnd' (nodup_of_map_fst hσ.distinct)).mpr hmem
  refine ⟨σ', (mem_refPlacements _ _ _ _ _ _).mpr ⟨hsub, hperm.length_eq ▸ hσ.bound, ?_⟩, hperm⟩
  rintro ⟨s, m⟩ hx
  have hx' := (hmem _).mp hx
  obtain ⟨t, ht, he⟩ := (mem_pushResi seq pos vars hv s m).mp (hσ.sub _ hx')
  exact (mem_optionsAt _ _ _ _ _).mpr ⟨t, ht, he⟩


/-- a model peptide as the observed triple the executable specification talks about -/
def toForm (q : Peptide Rat) : Form := { nterm := q.nterm, mods := q.mods, cterm := q.cterm }

theorem emptyAt_seq {i : Nat} {v : Option Rat} (h : emptyAt (.seq i) v = true) : v = some 0 := by
  cases v with
  | none => simp [emptyAt] at h
  | some x => simp [emptyAt] at h; simp [h]

theorem emptyAt_term {s : Site} {v : Option Rat} (hs : ∀ i, s ≠ .seq i) (h : emptyAt s v = true) : v = none := by
  cases s with
  | seq i => exact absurd rfl (hs i)
  | nterm => simpa [emptyAt] using h
  | cterm => simpa [emptyAt] using h

/-- **C06.refForm_eq** — the model's final form for a placement `σ` is, field by field, what the
    executable reference (`refForm`: variable mass if placed, else the eligible static mass, else
    nothing) says. Premises: valid targets, non-zero variable masses, disjoint static mods. -/
theorem refForm_eq (h2o : Rat) (table : List Rat) (pos : Position) (seq : List Nat)
    (vars statics : List (Target × Rat)) (max : Nat) (p : Peptide Rat)
    (hp : tryFrom h2o table pos seq = some p)
    (hvs : ∀ tm ∈ statics, tm.1.Valid)
    (hz : ∀ tm ∈ vars, tm.2 ≠ 0) (hdisj : statics.Pairwise (StaticsDisjoint seq pos))
    (σ : List (Site × Rat)) (hσ : IsPlacement (pushResi seq pos vars) max σ) :
    toForm (finish (applyStatics statics (place p σ))) = refForm seq pos statics σ := by
  set f := finish (applyStatics statics (place p σ)) with hfdef
  obtain ⟨hfresh, hlen⟩ := tryFrom_fresh hp
  obtain ⟨hpos, hseq, _⟩ := tryFrom_some hp
  have hq1 : (place p σ).sequence = seq := hseq
  have hq2 : (place p σ).position = pos := hpos
  obtain ⟨c1, c2, c3⟩ := statics_present (place p σ) statics (by rw [hq1, hq2]; exact hdisj)
  rw [hq1, hq2] at c1 c3
  have hn : seq.length = p.mods.length := by rw [hlen, hseq]
  have hflen : f.mods.length = seq.length := by
    have := (applyStatics_frame statics (place p σ)).2.2.2
    simp only [hfdef, finish, this, place_mods_length, hn]
  -- site by site
  have key : ∀ s, InRange seq.length s →
      f.slotAt s = match s with
        | .seq i => some ((refSlot seq pos statics σ (.seq i)).getD 0)
        | s => refSlot seq pos statics σ s := by
    intro s hs
    have hplace : (place p σ).slotAt s = match s with
        | .seq i => some ((σ.lookup (.seq i)).getD 0)
        | s => σ.lookup s := by
      rw [place_slotAt]
      cases s with
      | seq i => have : i < p.mods.length := hn ▸ hs; simp [this]
      | nterm => rfl
      | cterm => rfl
    rw [hfdef, finish_slotAt]
    cases hl : σ.lookup s with
    | some m =>
      have hm := (lookup_eq_some hσ.distinct).mp hl
      have hm0 : m ≠ 0 := pushResi_ne_zero seq pos vars hz _ (hσ.sub _ hm)
      rw [c2 s (by rw [hplace]; cases s <;> simp [hl, emptyAt, hm0]), hplace]
      cases s <;> simp [refSlot, hl]
    | none =>
      have hempty : emptyAt s ((place p σ).slotAt s) = true := by
        rw [hplace]; cases s <;> simp [hl, emptyAt]
      cases hfind : statics.find? (fun tm => eligible seq pos tm.1 s) with
      | some tm =>
        have htm := List.mem_of_find?_eq_some hfind
        have hel : eligible seq pos tm.1 s = true := by simpa using List.find?_some hfind
        have hst := (sites_spec seq pos tm.1 (hvs tm htm) s).mpr hel
        rw [c1 tm htm s hst hempty]
        cases s <;> simp [refSlot, hl, hfind]
      | none =>
        have hno : ∀ tm ∈ statics, s ∉ sitesOf seq pos tm.1 := by
          intro tm htm hst
          have := (sites_spec seq pos tm.1 (hvs tm htm) s).mp hst
          have h2 := List.find?_eq_none.mp hfind tm htm
          simp [this] at h2
        rw [c3 s hno, hplace]
        cases s <;> simp [refSlot, hl, hfind]
  have kn := key .nterm trivial
  have kc := key .cterm trivial
  simp only [Peptide.slotAt] at kn kc
  simp only [toForm, refForm, Form.mk.injEq]
  refine ⟨kn, ?_, kc⟩
  apply List.ext_getElem?
  intro i
  by_cases hi : i < seq.length
  · have := key (.seq i) hi
    simp only [Peptide.slotAt] at this
    rw [this]
    simp [hi]
  · rw [List.getElem?_eq_none (by omega), List.getElem?_eq_none (by simp; omega)]

/-- **C06.spec_sound** — every form `apply` generates is one of the forms the executable
    specification (`refForms`, the definition the driver evaluates on the implementation's outputs)
    demands, and its mass is `refMass` of it. -/
theorem spec_sound (pos : Position) (seq : List Nat) (vars statics : List (Target × Rat)) (max : Nat)
    (p : Peptide Rat) (hp : tryFrom Sage.Gen.H2O Sage.Gen.MONOISOTOPIC pos seq = some p)
    (hvv : ∀ tm ∈ vars, tm.1.Valid) (hvs : ∀ tm ∈ statics, tm.1.Valid)
    (hz : ∀ tm ∈ vars, tm.2 ≠ 0) (hdisj : statics.Pairwise (StaticsDisjoint seq pos)) :
    ∀ f ∈ apply p vars statics max,
      toForm f ∈ refForms seq pos vars statics max ∧ f.mono = refMass seq (toForm f) := by
  intro f hf
  constructor
  · obtain ⟨σ, hσ, rfl⟩ := apply_enumerates_sound _ _ pos seq vars statics max p hp f hf
    obtain ⟨σ', hσ', hperm⟩ := ref_complete seq pos vars hvv max σ hσ
    have hσ'p := ref_sound seq pos vars hvv max σ' hσ'
    rw [← place_perm p hperm hσ'p.distinct,
      refForm_eq _ _ pos seq vars statics max p hp hvs hz hdisj σ' hσ'p]
    exact List.mem_map.mpr ⟨σ', hσ', rfl⟩
  · obtain ⟨_, _, _, hm⟩ := mass_formula _ _ pos seq vars statics max p hp f hf
    simp only [refMass, sumRat, toForm, foldl_add_eq, hm]
    ring

/-- **C06.spec_complete** — and every form the executable specification demands is generated
    (candidate list without duplicates). Together with `spec_sound`: as sets, the forms of `apply`
    are exactly `refForms`. -/
theorem spec_complete (pos : Position) (seq : List Nat) (vars statics : List (Target × Rat)) (max : Nat)
    (p : Peptide Rat) (hp : tryFrom Sage.Gen.H2O Sage.Gen.MONOISOTOPIC pos seq = some p)
    (hvv : ∀ tm ∈ vars, tm.1.Valid) (hvs : ∀ tm ∈ statics, tm.1.Valid)
    (hz : ∀ tm ∈ vars, tm.2 ≠ 0) (hdisj : statics.Pairwise (StaticsDisjoint seq pos))
    (hnd : (pushResi seq pos vars).Nodup) :
    ∀ F ∈ refForms seq pos vars statics max, ∃ f ∈ apply p vars statics max, toForm f = F := by
  intro F hF
  obtain ⟨σ', hσ', rfl⟩ := List.mem_map.mp hF
  have hσ'p := ref_sound seq pos vars hvv max σ' hσ'
  exact ⟨_, apply_enumerates_complete _ _ pos seq vars statics max p hp hnd σ' hσ'p,
    refForm_eq _ _ pos seq vars statics max p hp hvs hz hdisj σ' hσ'p⟩




/-! ### the Boolean premise checks of the driver are the premises of the theorems -/

theorem staticsDisjoint_sound (seq : List Nat) (pos : Position) (statics : List (Target × Rat))
    (hv : ∀ tm ∈ statics, tm.1.Valid) (h : staticsDisjoint seq pos statics = true) :
    statics.Pairwise (StaticsDisjoint seq pos) := by
  rw [List.pairwise_iff_forall_sublist]
  intro a b hab s hs
  have ha : a ∈ statics := hab.subset (by simp)
  have hb : b ∈ statics := hab.subset (by simp)
  have ea := (sites_spec seq pos a.1 (hv a ha) s).mp hs.1
  have eb := (sites_spec seq pos b.1 (hv b hb) s).mp hs.2
  have hmem : s ∈ allSites seq.length := (mem_allSites _ _).mpr (eligible_inRange ea)
  have hle := (List.all_eq_true.mp h) s hmem
  have hle : (statics.filter fun tm => eligible seq pos tm.1 s).length ≤ 1 := by simpa using hle
  have hsub := hab.filter (fun tm => eligible seq pos tm.1 s)
  have : ([a, b].filter fun tm => eligible seq pos tm.1 s) = [a, b] := by simp [ea, eb]
  rw [this] at hsub
  have := hsub.length_le
  simp at this
  omega

theorem nodupB_iff {β : Type} [BEq β] [LawfulBEq β] (l : List β) : nodupB l = true ↔ l.Nodup := by
  induction l with
  | nil => simp [nodupB]
  | cons x xs ih => simp [nodupB, ih]

theorem sitesOf_sublist (seq : List Nat) (pos : Position) (t : Target) (hv : t.Valid) :
    (sitesOf seq pos t).Sublist (allSites seq.length) := by
  by_cases hres : ∃ r, t = .residue r
  · obtain ⟨r, rfl⟩ := hres
    simp only [sitesOf, allSites]
    exact ((List.filter_sublist.map Site.seq).trans (List.sublist_append_left _ _)).cons _
  · have hne : ∀ r, t ≠ .residue r := fun r hr => hres ⟨r, hr⟩
    rcases sitesOf_nonresidue seq pos t hne with h | ⟨s, h⟩
    · rw [h]; exact List.nil_sublist _
    · rw [h, List.singleton_sublist, mem_allSites]
      exact eligible_inRange ((sites_spec seq pos t hv s).mp (by rw [h]; simp))

theorem eligible_sites_eq (seq : List Nat) (pos : Position) (t : Target) (hv : t.Valid) :
    (allSites seq.length).filter (eligible seq pos t) = sitesOf seq pos t := by
  apply sublist_ext_of_nodup (nodup_allSites seq.length) List.filter_sublist (sitesOf_sublist seq pos t hv)
  intro s
  rw [List.mem_filter, sites_spec seq pos t hv s, mem_allSites]
  exact ⟨fun h => h.2, fun h => ⟨eligible_inRange h, h⟩⟩

/-- the candidate list the driver reads off the eligibility relation is the code's candidate list -/
theorem specCands_eq (seq : List Nat) (pos : Position) (vars : List (Target × Rat))
    (hv : ∀ tm ∈ vars, tm.1.Valid) : specCands seq pos vars = pushResi seq pos vars := by
  unfold specCands pushResi
  induction vars with
  | nil => rfl
  | cons tm rest ih =>
    simp only [List.flatMap_cons]
    rw [ih (fun tm' h => hv tm' (List.mem_cons_of_mem _ h)), eligible_sites_eq seq pos tm.1 (hv tm (by simp))]


/-- everything `validate_mods` / `validate_var_mods` let through is a valid target -/
theorem validate_valid {β : Type} (input : List (List Nat × β)) : ∀ tm ∈ validate input, tm.1.Valid := by
  intro tm htm
  simp only [validate, List.mem_filterMap] at htm
  obtain ⟨⟨k, v⟩, _, h⟩ := htm
  simp only at h
  split at h
  · rename_i t ht
    simp only [Option.some.injEq] at h
    subst h
    exact fromStr_valid ht
  · simp at h

theorem validateVar_valid {β : Type} (input : List (List Nat × List β)) :
    ∀ tm ∈ validateVar input, tm.1.Valid := by
  intro tm htm
  simp only [validateVar, List.mem_flatMap, List.mem_map] at htm
  obtain ⟨⟨t, ms⟩, ht, m, _, rfl⟩ := htm
  exact validate_valid input (t, ms) ht



/-! ### "each once" about the very list the driver compares -/

theorem nodup_dedup' {β : Type} [BEq β] [LawfulBEq β] (l : List β) : (dedup l).Nodup := by
  induction l with
  | nil => simp [dedup]
  | cons y ys ih =>
    simp only [dedup, List.nodup_cons, List.mem_filter]
    refine ⟨fun h => by simp at h, ih.filter _⟩

theorem nodup_refPlacements (seq : List Nat) (pos : Position) (vars : List (Target × Rat))
    (sites : List Site) (hs : sites.Nodup) (k : Nat) : (refPlacements seq pos vars k sites).Nodup := by
  induction sites generalizing k with
  | nil => simp [refPlacements]
  | cons s rest ih =>
    obtain ⟨hs1, hs2⟩ := List.nodup_cons.mp hs
    simp only [refPlacements]
    rw [List.nodup_append]
    refine ⟨ih hs2 k, ?_, ?_⟩
    · split
      · simp
      · rw [List.nodup_flatMap]
        refine ⟨fun m _ => (ih hs2 (k - 1)).map (fun a b h => by simpa using h), ?_⟩
        apply List.Nodup.pairwise_of_forall_ne (nodup_dedup' _)
        intro a _ b _ hab σ h1 h2
        simp only [List.mem_map] at h1 h2
        obtain ⟨σ1, _, rfl⟩ := h1
        obtain ⟨σ2, _, h⟩ := h2
        simp only [List.cons.injEq, Prod.mk.injEq, true_and] at h
        exact hab h.1.symm
    · intro a ha b hb hab
      subst hab
      have h1 := ((mem_refPlacements _ _ _ _ _ _).mp ha).1
      split at hb
      · simp at hb
      · simp only [List.mem_flatMap, List.mem_map] at hb
        obtain ⟨m, _, σ', _, rfl⟩ := hb
        exact hs1 (h1.subset (by simp))

/-- a placement rewritten in site order (N-terminus, residues left to right, C-terminus) -/
def canon (n : Nat) (σ : List (Site × Rat)) : List (Site × Rat) :=
  (allSites n).filterMap fun s => (σ.lookup s).map fun m => (s, m)

theorem canon_fst (n : Nat) (σ : List (Site × Rat)) :
    (canon n σ).map Prod.fst = (allSites n).filter (fun s => (σ.lookup s).isSome) := by
  simp only [canon]
  generalize allSites n = l
  induction l with
  | nil => rfl
  | cons s rest ih => cases h : σ.lookup s <;> simp [h, ih]

theorem canon_sublist (n : Nat) (σ : List (Site × Rat)) : ((canon n σ).map Prod.fst).Sublist (allSites n) :=
  canon_fst n σ ▸ List.filter_sublist

theorem canon_distinct (n : Nat) (σ : List (Site × Rat)) : ((canon n σ).map Prod.fst).Nodup :=
  (canon_sublist n σ).nodup (nodup_allSites n)

theorem canon_perm (n : Nat) (σ : List (Site × Rat)) (hd : (σ.map Prod.fst).Nodup)
    (hr : ∀ x ∈ σ, InRange n x.1) : (canon n σ).Perm σ := by
  rw [List.perm_ext_iff_of_nodup (nodup_of_map_fst (canon_distinct n σ)) (nodup_of_map_fst hd)]
  rintro ⟨s, m⟩
  simp only [canon, List.mem_filterMap, Option.map_eq_some_iff, Prod.mk.injEq]
  constructor
  · rintro ⟨s', _, m', hl, rfl, rfl⟩
    exact (lookup_eq_some hd).mp hl
  · intro hx
    exact ⟨s, (mem_allSites _ _).mpr (hr _ hx), m, (lookup_eq_some hd).mpr hx, rfl, rfl⟩

theorem canon_congr (n : Nat) {σ τ : List (Site × Rat)} (hp : σ.Perm τ) (hd : (σ.map Prod.fst).Nodup) :
    canon n σ = canon n τ := by
  simp only [canon, lookup_perm hp hd]

theorem eq_of_perm_of_fst_eq {l1 l2 : List (Site × Rat)} (hd : (l1.map Prod.fst).Nodup)
    (hp : l1.Perm l2) (hf : l1.map Prod.fst = l2.map Prod.fst) : l1 = l2 := by
  induction l1 generalizing l2 with
  | nil => exact hp.nil_eq
  | cons x t1 ih =>
    cases l2 with
    | nil => simp at hf
    | cons y t2 =>
      simp only [List.map_cons, List.cons.injEq] at hf
      simp only [List.map_cons, List.nodup_cons] at hd
      have hxy : x = y := by
        rcases List.mem_cons.mp (hp.subset (List.mem_cons_self)) with h | h
        · exact h
        · exfalso
          apply hd.1
          rw [hf.2]
          exact List.mem_map.mpr ⟨x, h, rfl⟩
      subst hxy
      rw [ih hd.2 (List.Perm.cons_inv hp) hf.2]

/-- entries of the reference enumeration are already in site order -/
theorem canon_of_sorted (n : Nat) (σ : List (Site × Rat)) (hs : (σ.map Prod.fst).Sublist (allSites n)) :
    canon n σ = σ := by
  have hd := hs.nodup (nodup_allSites n)
  have hr : ∀ x ∈ σ, InRange n x.1 := fun x hx =>
    (mem_allSites _ _).mp (hs.subset (List.mem_map.mpr ⟨x, hx, rfl⟩))
  have hp := canon_perm n σ hd hr
  refine eq_of_perm_of_fst_eq (canon_distinct n σ) hp ?_
  apply sublist_ext_of_nodup (nodup_allSites n) (canon_sublist n σ) hs
  intro s
  exact (hp.map Prod.fst).mem_iff

theorem refSlot_congr (seq : List Nat) (pos : Position) (statics : List (Target × Rat))
    {σ τ : List (Site × Rat)} (h : ∀ s, σ.lookup s = τ.lookup s) (s : Site) :
    refSlot seq pos statics σ s = refSlot seq pos statics τ s := by
  simp only [refSlot, h s]

theorem refForm_perm (seq : List Nat) (pos : Position) (statics : List (Target × Rat))
    {σ τ : List (Site × Rat)} (hp : σ.Perm τ) (hd : (σ.map Prod.fst).Nodup) :
    refForm seq pos statics σ = refForm seq pos statics τ := by
  have h := lookup_perm hp hd
  simp only [refForm, refSlot_congr seq pos statics h]

/-- the unmodified form first, then the accepted combinations: the index list behind `varForms` -/
def allPlacements (cands : List (Site × Rat)) (max : Nat) : List (List (Site × Rat)) :=
  [] :: placements cands max

theorem varForms_eq (p : Peptide Rat) (vars : List (Target × Rat)) (max : Nat) :
    varForms p vars max = (allPlacements (pushResi p.sequence p.position vars) max).map (applyCombo p) := by
  simp [varForms, allPlacements, applyCombo]

theorem mem_allPlacements (cands : List (Site × Rat)) (max : Nat) (c : List (Site × Rat)) :
    c ∈ allPlacements cands max ↔ c.Sublist cands ∧ c.length ≤ max ∧ (c.map Prod.fst).Nodup := by
  simp only [allPlacements, List.mem_cons, mem_placements]
  constructor
  · rintro (rfl | ⟨h1, _, h3, h4⟩)
    · simp
    · exact ⟨h1, h3, h4⟩
  · rintro ⟨h1, h2, h3⟩
    cases c with
    | nil => exact Or.inl rfl
    | cons x xs => exact Or.inr ⟨h1, by simp, h2, h3⟩

theorem nodup_allPlacements (cands : List (Site × Rat)) (max : Nat) (h : cands.Nodup) :
    (allPlacements cands max).Nodup := by
  simp only [allPlacements, List.nodup_cons]
  refine ⟨fun hm => ?_, nodup_placements cands max h⟩
  have := ((mem_placements _ _ _).mp hm).2.1
  simp at this

/-- rewritten in site order, the code's accepted combinations (with the empty one) are exactly the
    reference enumeration, each once -/
theorem placements_perm_ref (seq : List Nat) (pos : Position) (vars : List (Target × Rat))
    (hv : ∀ tm ∈ vars, tm.1.Valid) (hnd : (pushResi seq pos vars).Nodup) (max : Nat) :
    ((allPlacements (pushResi seq pos vars) max).map (canon seq.length)).Perm
      (refPlacements seq pos vars max (allSites seq.length)) := by
  set cands := pushResi seq pos vars with hc
  have hrange := pushResi_inRange seq pos vars hv
  have hpl : ∀ c ∈ allPlacements cands max, IsPlacement cands max c ∧ c.Sublist cands ∧
      (canon seq.length c).Perm c := by
    intro c hcm
    obtain ⟨h1, h2, h3⟩ := (mem_allPlacements _ _ _).mp hcm
    exact ⟨⟨fun x hx => h1.subset hx, h3, h2⟩, h1, canon_perm _ c h3 (fun x hx => hrange x (h1.subset hx))⟩
  rw [List.perm_ext_iff_of_nodup _ (nodup_refPlacements seq pos vars _ (nodup_allSites _) max)]
  · intro x
    constructor
    · intro hx
      obtain ⟨c, hcm, rfl⟩ := List.mem_map.mp hx
      obtain ⟨hp, _, hperm⟩ := hpl c hcm
      refine (mem_refPlacements _ _ _ _ _ _).mpr ⟨canon_sublist _ c, hperm.length_eq ▸ hp.bound, ?_⟩
      rintro ⟨s, m⟩ hsm
      obtain ⟨t, ht, he⟩ := (mem_pushResi seq pos vars hv s m).mp (hp.sub _ (hperm.subset hsm))
      exact (mem_optionsAt _ _ _ _ _).mpr ⟨t, ht, he⟩
    · intro hx
      have hx' := (mem_refPlacements _ _ _ _ _ _).mp hx
      have hp := ref_sound seq pos vars hv max x hx
      -- the code's combination with the same entries
      let c := cands.filter (fun y => decide (y ∈ x))
      have hcx : c.Perm x := by
        rw [List.perm_ext_iff_of_nodup (hnd.filter _) (nodup_of_map_fst hp.distinct)]
        intro y
        simp only [List.mem_filter, decide_eq_true_eq]
        exact ⟨fun h => h.2, fun h => ⟨hp.sub y h, h⟩⟩
      have hcd : (c.map Prod.fst).Nodup := (hcx.map Prod.fst).nodup_iff.mpr hp.distinct
      have hcm : c ∈ allPlacements cands max :=
        (mem_allPlacements _ _ _).mpr ⟨List.filter_sublist, hcx.length_eq ▸ hp.bound, hcd⟩
      refine List.mem_map.mpr ⟨c, hcm, ?_⟩
      rw [canon_congr _ hcx hcd, canon_of_sorted _ x hx'.1]
  · refine List.Nodup.map_on ?_ (nodup_allPlacements cands max hnd)
    intro c1 h1 c2 h2 heq
    obtain ⟨_, hs1, hp1⟩ := hpl c1 h1
    obtain ⟨_, hs2, hp2⟩ := hpl c2 h2
    have : c1.Perm c2 := hp1.symm.trans (heq ▸ hp2)
    exact sublist_ext_of_nodup hnd hs1 hs2 (fun y => this.mem_iff)

/-- **C06.apply_perm_ref** — "each once" about the list the driver compares: under the premises
    (valid targets, non-zero variable masses, disjoint static mods, no duplicate candidate) the forms
    of `apply`, read as observed triples, are a PERMUTATION of the executable reference enumeration
    `refForms` — same forms with the same multiplicities. -/
theorem apply_perm_ref (pos : Position) (seq : List Nat) (vars statics : List (Target × Rat)) (max : Nat)
    (p : Peptide Rat) (hp : tryFrom Sage.Gen.H2O Sage.Gen.MONOISOTOPIC pos seq = some p)
    (hvv : ∀ tm ∈ vars, tm.1.Valid) (hvs : ∀ tm ∈ statics, tm.1.Valid)
    (hz : ∀ tm ∈ vars, tm.2 ≠ 0) (hdisj : statics.Pairwise (StaticsDisjoint seq pos))
    (hnd : (pushResi seq pos vars).Nodup) :
    ((apply p vars statics max).map toForm).Perm (refForms seq pos vars statics max) := by
  obtain ⟨hpos, hseq, _⟩ := tryFrom_some hp
  obtain ⟨hfresh, _⟩ := tryFrom_fresh hp
  have hrange := pushResi_inRange seq pos vars hvv
  rw [apply_eq_map, varForms_eq, hpos, hseq]
  simp only [List.map_map]
  have hstep : ∀ c ∈ allPlacements (pushResi seq pos vars) max,
      (toForm ∘ (fun q => finish (applyStatics statics q)) ∘ applyCombo p) c =
        (refForm seq pos statics ∘ canon seq.length) c := by
    intro c hcm
    obtain ⟨h1, h2, h3⟩ := (mem_allPlacements _ _ _).mp hcm
    have hpl : IsPlacement (pushResi seq pos vars) max c := ⟨fun x hx => h1.subset hx, h3, h2⟩
    simp only [Function.comp]
    rw [applyCombo_eq_place p hfresh c h3,
      refForm_eq _ _ pos seq vars statics max p hp hvs hz hdisj c hpl]
    exact (refForm_perm seq pos statics (canon_perm _ c h3 (fun x hx => hrange x (h1.subset hx))) (canon_distinct _ c)).symm
  rw [List.map_congr_left hstep, ← List.map_map]
  exact (placements_perm_ref seq pos vars hvv hnd max).map _

/-- non-vacuity: "MCMK", variable `M`+16 and `^`+42, static `C`+57, max 2 — seven forms on both sides -/
example : ((tryFrom Sage.Gen.H2O Sage.Gen.MONOISOTOPIC .full [77, 67, 77, 75]).map fun p =>
    ((apply p [(.residue 77, 16), (.peptideN none, 42)] [(.residue 67, 57)] 2).map toForm).length) = some 7 ∧
    (refForms [77, 67, 77, 75] .full [(.residue 77, 16), (.peptideN none, 42)] [(.residue 67, 57)] 2).length = 7 := by
  constructor <;> decide +kernel




/-! ### `Display for Peptide` determines the peptide -/

section displayInj
variable {α : Type} [DecidableEq α] [OfNat α 0]

/-- text up to the first `]` is delimited by it -/
theorem delim_inj {a a' r r' : List Nat} (ha : 93 ∉ a) (ha' : 93 ∉ a')
    (h : a ++ 93 :: r = a' ++ 93 :: r') : a = a' ∧ r = r' := by
  induction a generalizing a' with
  | nil =>
    cases a' with
    | nil => simpa using h
    | cons x xs =>
      simp only [List.nil_append, List.cons_append, List.cons.injEq] at h
      exact absurd (by rw [← h.1]; simp) ha'
  | cons x xs ih =>
    cases a' with
    | nil =>
      simp only [List.nil_append, List.cons_append, List.cons.injEq] at h
      exact absurd (by rw [h.1]; simp) ha
    | cons y ys =>
      simp only [List.cons_append, List.cons.injEq] at h
      obtain ⟨h1, h2⟩ := ih (fun hm => ha (List.mem_cons_of_mem _ hm)) (fun hm => ha' (List.mem_cons_of_mem _ hm)) h.2
      exact ⟨by rw [h.1, h1], h2⟩

theorem bracket_inj {t t' r r' : List Nat} (ht : 93 ∉ t) (ht' : 93 ∉ t')
    (h : bracket t ++ r = bracket t' ++ r') : t = t' ∧ r = r' := by
  simp only [bracket, List.cons_append, List.append_assoc, List.cons.injEq, true_and] at h
  exact delim_inj ht ht' h

/-- the masses a peptide shows: both termini if set, and the non-zero residue slots -/
def Shows (S : α → Prop) (p : Peptide α) : Prop :=
  (∀ m, p.nterm = some m → S m) ∧ (∀ m, p.cterm = some m → S m) ∧ ∀ m ∈ p.mods, m ≠ 0 → S m

omit [DecidableEq α] [OfNat α 0] in
theorem dispC_inj (fmt : α → List Nat) (S : α → Prop)
    (hbr : ∀ m, S m → 93 ∉ fmt m) (hinj : ∀ m m', S m → S m' → fmt m = fmt m' → m = m')
    {c c' : Option α} (hc : ∀ m, c = some m → S m) (hc' : ∀ m, c' = some m → S m)
    (h : dispC fmt c = dispC fmt c') : c = c' := by
  cases c with
  | none => cases c' with
    | none => rfl
    | some m' => simp [dispC] at h
  | some m => cases c' with
    | none => simp [dispC] at h
    | some m' =>
      simp only [dispC, List.cons.injEq, true_and] at h
      have := bracket_inj (r := []) (r' := []) (hbr m (hc m rfl)) (hbr m' (hc' m' rfl)) (by simpa using h)
      rw [hinj m m' (hc m rfl) (hc' m' rfl) this.1]

/-- what follows the N-terminal prefix never starts with `[` -/
theorem body_head (fmt : α → List Nat) (seq : List Nat) (mods : List α) (c : Option α)
    (hseq : ∀ r ∈ seq, r ≠ 91 ∧ r ≠ 45) :
    (dispResidues fmt seq mods ++ dispC fmt c).head? ≠ some 91 := by
  cases seq with
  | nil => cases c <;> simp [dispResidues, dispC]
  | cons r rs =>
    cases mods with
    | nil => cases c <;> simp [dispResidues, dispC]
    | cons m ms =>
      have := (hseq r (by simp)).1
      simp only [dispResidues]
      split <;> simpa using this

theorem body_inj (fmt : α → List Nat) (S : α → Prop)
    (hbr : ∀ m, S m → 93 ∉ fmt m) (hinj : ∀ m m', S m → S m' → fmt m = fmt m' → m = m')
    (seq seq' : List Nat) (mods mods' : List α) (c c' : Option α)
    (hl : mods.length = seq.length) (hl' : mods'.length = seq'.length)
    (hseq : ∀ r ∈ seq, r ≠ 91 ∧ r ≠ 45) (hseq' : ∀ r ∈ seq', r ≠ 91 ∧ r ≠ 45)
    (hm : ∀ m ∈ mods, m ≠ 0 → S m) (hm' : ∀ m ∈ mods', m ≠ 0 → S m)
    (hc : ∀ m, c = some m → S m) (hc' : ∀ m, c' = some m → S m)
    (h : dispResidues fmt seq mods ++ dispC fmt c = dispResidues fmt seq' mods' ++ dispC fmt c') :
    seq = seq' ∧ mods = mods' ∧ c = c' := by
  induction seq generalizing seq' mods mods' with
  | nil =>
    have : mods = [] := by simpa using hl
    subst this
    cases seq' with
    | nil =>
      have : mods' = [] := by simpa using hl'
      subst this
      exact ⟨rfl, rfl, dispC_inj fmt S hbr hinj hc hc' (by simpa [dispResidues] using h)⟩
    | cons r' rs' =>
      cases mods' with
      | nil => simp at hl'
      | cons m' ms' =>
        exfalso
        have hr' := hseq' r' (by simp)
        simp only [dispResidues, List.nil_append] at h
        cases c with
        | none => simp only [dispC] at h; split at h <;> simp at h
        | some m =>
          simp only [dispC] at h
          split at h <;> (simp at h; exact hr'.2 h.1.symm)
  | cons r rs ih =>
    cases mods with
    | nil => simp at hl
    | cons m ms =>
      have hr := hseq r (by simp)
      cases seq' with
      | nil =>
        exfalso
        have : mods' = [] := by simpa using hl'
        subst this
        simp only [dispResidues, List.nil_append] at h
        cases c' with
        | none => simp only [dispC] at h; split at h <;> simp at h
        | some m' =>
          simp only [dispC] at h
          split at h <;> (simp at h; exact hr.2 h.1)
      | cons r' rs' =>
        cases mods' with
        | nil => simp at hl'
        | cons m' ms' =>
          have hr' := hseq' r' (by simp)
          simp only [dispResidues] at h
          have hrec := fun (hh : dispResidues fmt rs ms ++ dispC fmt c = dispResidues fmt rs' ms' ++ dispC fmt c') =>
            ih rs' ms ms' (by simpa using hl) (by simpa using hl')
              (fun x hx => hseq x (List.mem_cons_of_mem _ hx)) (fun x hx => hseq' x (List.mem_cons_of_mem _ hx))
              (fun x hx => hm x (List.mem_cons_of_mem _ hx)) (fun x hx => hm' x (List.mem_cons_of_mem _ hx)) hh
          by_cases h0 : m = 0 <;> by_cases h0' : m' = 0
          · subst h0; subst h0'
            simp only [beq_self_eq_true, ↓reduceIte, List.cons_append, List.nil_append, List.cons.injEq] at h
            obtain ⟨h1, h2, h3⟩ := hrec h.2
            exact ⟨by rw [h.1, h1], by rw [h2], h3⟩
          · exfalso
            subst h0
            have hb : (m' == 0) = false := by simpa using h0'
            simp only [beq_self_eq_true, ↓reduceIte, hb, Bool.false_eq_true, List.cons_append, List.nil_append,
              List.cons.injEq] at h
            have := body_head fmt rs ms c (fun x hx => hseq x (List.mem_cons_of_mem _ hx))
            rw [h.2] at this
            simp [bracket] at this
          · exfalso
            subst h0'
            have hb : (m == 0) = false := by simpa using h0
            simp only [beq_self_eq_true, ↓reduceIte, hb, Bool.false_eq_true, List.cons_append, List.nil_append,
              List.cons.injEq] at h
            have := body_head fmt rs' ms' c' (fun x hx => hseq' x (List.mem_cons_of_mem _ hx))
            rw [← h.2] at this
            simp [bracket] at this
          · have hb : (m == 0) = false := by simpa using h0
            have hb' : (m' == 0) = false := by simpa using h0'
            simp only [hb, hb', Bool.false_eq_true, ↓reduceIte, List.cons_append, List.cons.injEq] at h
            have hS := hm m (by simp) h0
            have hS' := hm' m' (by simp) h0'
            obtain ⟨e1, e2⟩ := bracket_inj (hbr m hS) (hbr m' hS') (by simpa only [List.append_assoc] using h.2)
            obtain ⟨h1, h2, h3⟩ := hrec e2
            exact ⟨by rw [h.1, h1], by rw [hinj m m' hS hS' e1, h2], h3⟩

/-- **C06.display_determines** — the display string determines the peptide: if the float text `fmt`
    never contains `]` and is injective on the masses the two peptides show (set termini, non-zero
    residue slots), and residues are never `[` or `-` (true of the 22 valid letters), then equal
    display strings imply equal sequence, N-terminal mass, residue modifications and C-terminal mass. -/
theorem display_determines (fmt : α → List Nat) (S : α → Prop)
    (hbr : ∀ m, S m → 93 ∉ fmt m) (hinj : ∀ m m', S m → S m' → fmt m = fmt m' → m = m')
    (p q : Peptide α)
    (hlp : p.mods.length = p.sequence.length) (hlq : q.mods.length = q.sequence.length)
    (hrp : ∀ r ∈ p.sequence, r ≠ 91 ∧ r ≠ 45) (hrq : ∀ r ∈ q.sequence, r ≠ 91 ∧ r ≠ 45)
    (hSp : Shows S p) (hSq : Shows S q)
    (h : display fmt p = display fmt q) :
    p.sequence = q.sequence ∧ p.nterm = q.nterm ∧ p.mods = q.mods ∧ p.cterm = q.cterm := by
  unfold display at h
  simp only [List.append_assoc] at h
  have hbody := body_inj fmt S hbr hinj p.sequence q.sequence p.mods q.mods p.cterm q.cterm hlp hlq hrp hrq
    hSp.2.2 hSq.2.2 hSp.2.1 hSq.2.1
  cases hn : p.nterm with
  | none =>
    cases hn' : q.nterm with
    | none =>
      rw [hn, hn'] at h
      obtain ⟨h1, h2, h3⟩ := hbody (by simpa [dispN] using h)
      exact ⟨h1, rfl, h2, h3⟩
    | some m' =>
      exfalso
      rw [hn, hn'] at h
      have := body_head fmt p.sequence p.mods p.cterm hrp
      simp only [dispN, List.nil_append] at h
      rw [h] at this
      simp [bracket] at this
  | some m =>
    cases hn' : q.nterm with
    | none =>
      exfalso
      rw [hn, hn'] at h
      have := body_head fmt q.sequence q.mods q.cterm hrq
      simp only [dispN, List.nil_append] at h
      rw [← h] at this
      simp [bracket] at this
    | some m' =>
      rw [hn, hn'] at h
      simp only [dispN, List.append_assoc] at h
      have hS := hSp.1 m hn
      have hS' := hSq.1 m' hn'
      obtain ⟨e1, e2⟩ := bracket_inj (hbr m hS) (hbr m' hS') h
      simp only [List.singleton_append, List.cons.injEq, true_and] at e2
      obtain ⟨h1, h2, h3⟩ := hbody e2
      exact ⟨h1, by rw [hinj m m' hS hS' e1], h2, h3⟩

end displayInj

/-- the 22 valid residue letters are never `[` or `-` -/
theorem validAA_not_bracket {c : Nat} (h : validAA c = true) : c ≠ 91 ∧ c ≠ 45 := by
  have h2 := (validAA_ascii h).2
  constructor <;> (rintro rfl; revert h2; decide)

/-- **C06.display_determines_forms** — for the forms `apply` generates from a `try_from` peptide: two
    forms with the same display string are the same form (N-terminal mass, residue modifications,
    C-terminal mass), whenever `fmt` has no `]` and is injective on the masses they show. -/
theorem display_determines_forms (pos : Position) (seq : List Nat) (vars statics : List (Target × Rat))
    (max : Nat) (p : Peptide Rat) (hp : tryFrom Sage.Gen.H2O Sage.Gen.MONOISOTOPIC pos seq = some p)
    (fmt : Rat → List Nat) (S : Rat → Prop)
    (hbr : ∀ m, S m → 93 ∉ fmt m) (hinj : ∀ m m', S m → S m' → fmt m = fmt m' → m = m')
    (f g : Peptide Rat) (hf : f ∈ apply p vars statics max) (hg : g ∈ apply p vars statics max)
    (hSf : Shows S f) (hSg : Shows S g) (h : display fmt f = display fmt g) : toForm f = toForm g := by
  obtain ⟨f1, _, f3, _⟩ := mass_formula _ _ pos seq vars statics max p hp f hf
  obtain ⟨g1, _, g3, _⟩ := mass_formula _ _ pos seq vars statics max p hp g hg
  have hres : ∀ r ∈ seq, r ≠ 91 ∧ r ≠ 45 := by
    intro r hr
    have hacc := (try_from_accepts_iff Sage.Gen.H2O Sage.Gen.MONOISOTOPIC pos seq).mp (by simp [hp]) r hr
    have hv : validAA r = true := by
      simp only [validAA, Bool.and_eq_true, decide_eq_true_eq]
      exact ⟨hacc.1, by simpa using (monoisotopic_ne_zero_iff r hacc.1).mp hacc.2⟩
    exact validAA_not_bracket hv
  obtain ⟨_, h2, h3, h4⟩ := display_determines fmt S hbr hinj f g (by rw [f3, f1]) (by rw [g3, g1])
    (by rw [f1]; exact hres) (by rw [g1]; exact hres) hSf hSg h
  simp [toForm, h2, h3, h4]

/-- non-vacuity: with the text `+16` / `+42` / `-17` for the three masses in play, `[+42]-M[+16]K-[-17]`
    is what the model prints, and the hypotheses of `display_determines` hold for that `fmt` -/
def exampleFmt (m : Rat) : List Nat :=
  if m = 16 then [43, 49, 54] else if m = 42 then [43, 52, 50] else [45, 49, 55]

example : display exampleFmt
    { position := .full, sequence := [77, 75], mods := [16, 0], nterm := some 42, cterm := some (-17), mono := 0 }
    = [91, 43, 52, 50, 93, 45, 77, 91, 43, 49, 54, 93, 75, 45, 91, 45, 49, 55, 93] := by
  decide +kernel

example : (∀ m : Rat, (m = 16 ∨ m = 42 ∨ m = -17) → 93 ∉ exampleFmt m) ∧
    (∀ m m' : Rat, (m = 16 ∨ m = 42 ∨ m = -17) → (m' = 16 ∨ m' = 42 ∨ m' = -17) →
      exampleFmt m = exampleFmt m' → m = m') := by
  constructor
  · rintro m (rfl | rfl | rfl) <;> decide +kernel
  · rintro m m' (rfl | rfl | rfl) (rfl | rfl | rfl) <;> first | (intro; rfl) | (intro h; revert h; decide +kernel)




/-! ### `group_digests`: protein attribution respects the position -/

/-- every protein a group lists has the group's peptide at the group's position -/
def Group.Justified (occs : List Occ) (g : Group) : Prop :=
  ∀ p ∈ g.prots, ∃ o ∈ occs, o.pos = g.pos ∧ o.seq = g.seq ∧ o.prot = p

theorem groupLoop_justified (occs : List Occ) (cur : Group) (ds : List Occ)
    (hcur : cur.Justified occs) (hds : ∀ d ∈ ds, d ∈ occs) :
    ∀ g ∈ groupLoop cur ds, g.Justified occs := by
  induction ds generalizing cur with
  | nil => intro g hg; simp only [groupLoop, List.mem_singleton] at hg; subst hg; exact hcur
  | cons d ds ih =>
    intro g hg
    simp only [groupLoop] at hg
    split at hg
    · rename_i h
      simp only [Bool.and_eq_true, beq_iff_eq] at h
      refine ih _ ?_ (fun d' hd' => hds d' (List.mem_cons_of_mem _ hd')) g hg
      intro p hp
      simp only [List.mem_append, List.mem_singleton] at hp
      rcases hp with hp | rfl
      · exact hcur p hp
      · exact ⟨d, hds d (by simp), h.1, h.2, rfl⟩
    · rcases List.mem_cons.mp hg with rfl | hg
      · exact hcur
      · refine ih _ ?_ (fun d' hd' => hds d' (List.mem_cons_of_mem _ hd')) g hg
        intro p hp
        simp only [List.mem_singleton] at hp
        subst hp
        exact ⟨d, hds d (by simp), rfl, rfl, rfl⟩

/-- every digest lands in a group of its own position and sequence -/
theorem groupLoop_covers (cur : Group) (ds : List Occ) :
    (∀ p ∈ cur.prots, ∃ g ∈ groupLoop cur ds, g.pos = cur.pos ∧ g.seq = cur.seq ∧ p ∈ g.prots) ∧
    ∀ d ∈ ds, ∃ g ∈ groupLoop cur ds, g.pos = d.pos ∧ g.seq = d.seq ∧ d.prot ∈ g.prots := by
  induction ds generalizing cur with
  | nil =>
    refine ⟨fun p hp => ⟨cur, by simp [groupLoop], rfl, rfl, hp⟩, by simp⟩
  | cons d ds ih =>
    simp only [groupLoop]
    split
    · rename_i h
      simp only [Bool.and_eq_true, beq_iff_eq] at h
      obtain ⟨i1, i2⟩ := ih { cur with prots := cur.prots ++ [d.prot] }
      refine ⟨fun p hp => i1 p (by simp [hp]), ?_⟩
      intro d' hd'
      rcases List.mem_cons.mp hd' with rfl | hd'
      · obtain ⟨g, hg, h1, h2, h3⟩ := i1 d'.prot (by simp)
        exact ⟨g, hg, by simpa [h.1] using h1, by simpa [h.2] using h2, h3⟩
      · exact i2 d' hd'
    · obtain ⟨i1, i2⟩ := ih { pos := d.pos, seq := d.seq, prots := [d.prot] }
      refine ⟨fun p hp => ⟨cur, by simp, rfl, rfl, hp⟩, ?_⟩
      intro d' hd'
      rcases List.mem_cons.mp hd' with rfl | hd'
      · obtain ⟨g, hg, h1, h2, h3⟩ := i1 d'.prot (by simp)
        exact ⟨g, List.mem_cons_of_mem _ hg, h1, h2, h3⟩
      · obtain ⟨g, hg, h⟩ := i2 d' hd'
        exact ⟨g, List.mem_cons_of_mem _ hg, h⟩

theorem insertKey_perm {β : Type} (le : β → β → Bool) (x : β) (l : List β) : (insertKey le x l).Perm (x :: l) := by
  induction l with
  | nil => exact List.Perm.refl _
  | cons y ys ih =>
    simp only [insertKey]
    split
    · exact List.Perm.refl _
    · exact (List.Perm.cons y ih).trans (List.Perm.swap x y ys)

theorem sortKey_perm {β : Type} (le : β → β → Bool) (l : List β) : (sortKey le l).Perm l := by
  induction l with
  | nil => exact List.Perm.refl _
  | cons x xs ih => exact (insertKey_perm le x _).trans (List.Perm.cons x ih)

/-- **C06.groupDigests_attribution** — `group_digests` as coded (grouping on position AND sequence):
    a group lists a protein only if that protein has the group's peptide at the group's position,
    and every digest of every protein is in a group of its own position and sequence. Hence each
    occurrence is modified with its true position (`[`/`]` specificity per protein). -/
theorem groupDigests_attribution (occs : List Occ) (gs : List Group) (h : groupDigests occs = some gs) :
    (∀ g ∈ gs, g.Justified occs) ∧
    ∀ d ∈ occs, ∃ g ∈ gs, g.pos = d.pos ∧ g.seq = d.seq ∧ d.prot ∈ g.prots := by
  unfold groupDigests at h
  have hperm := sortKey_perm (fun a b => keyLe (occKey a) (occKey b)) occs
  split at h
  · rename_i hs
    simp only [Option.some.injEq] at h
    subst h
    rw [hs] at hperm
    have : occs = [] := List.Perm.eq_nil hperm.symm
    subst this
    simp
  · rename_i d0 rest hs
    simp only [Option.some.injEq] at h
    subst h
    rw [hs] at hperm
    constructor
    · exact groupLoop_justified occs _ _ (by intro p hp; simp at hp) (fun d hd => hperm.subset hd)
    · intro d hd
      exact (groupLoop_covers _ _).2 d (hperm.symm.subset hd)

/-- non-vacuity: `MCSK` N-terminal in protein 0 and C-terminal in protein 1 stays two groups even though
    the two digests are adjacent in the sort (last of the N-terminal block, first of the C-terminal one) -/
example : (groupDigests
    [⟨.nterm, [77, 67, 83, 75], false, 0, 0⟩, ⟨.cterm, [89, 71], false, 0, 0⟩,
     ⟨.nterm, [65, 75], false, 0, 1⟩, ⟨.cterm, [77, 67, 83, 75], false, 0, 1⟩]).map
      (fun gs => gs.map fun g => (posRank g.pos, g.seq, g.prots)) =
    some [(0, [65, 75], [1]), (0, [77, 67, 83, 75], [0]), (1, [77, 67, 83, 75], [1]), (1, [89, 71], [0])] := by
  decide +kernel


/-- **C06.groupDigests_nil** — an empty digest list gives no groups (the guarded `group_digests`; it used to index
    `digests[0]` and panic), and `Parameters::digest` on proteins without any digest is the empty database. -/
theorem groupDigests_nil : groupDigests [] = some [] := by
  simp [groupDigests, sortKey]

theorem database_no_digest {α : Type} [Add α] [OfNat α 0] [BEq α] [LE α] [DecidableLE α] (h2o : α) (table : List α)
    (same : Peptide α → Peptide α → Bool) (par : Sage.C05.Params) (proteins : List (List UInt8))
    (vars statics : List (Target × α)) (max : Nat) (lo hi : α) (h : occsOf par proteins = []) :
    database h2o table same par proteins vars statics max lo hi = some [] := by
  unfold database
  rw [h, groupDigests_nil]
  simp [mergeAll]

/-- non-vacuity: no protein at all -/
example : occsOf (⟨0, 5, 50, none⟩ : Sage.C05.Params) [] = [] := rfl


/-- **C06.fromStr_nonascii_rejected** — a key containing any non-ASCII character (equivalently, in its
    UTF-8 text, any byte ≥ 0x80) is rejected, whatever else it contains: in particular a single two-byte
    character whose code point's low byte is a residue letter (`ō` U+014D → `M`, `Ń` → `C`, `ŋ` → `K`) is
    NOT read as that residue. (`str::len` is the BYTE length, `chars()` iterates code points: the model's
    `utf8Len` / list length make the same distinction.) -/
theorem fromStr_nonascii_rejected (s : List Nat) (h : ∃ c ∈ s, 128 ≤ c) : ∃ e, fromStr s = .error e := by
  cases hf : fromStr s with
  | error e => exact ⟨e, rfl⟩
  | ok t =>
    exfalso
    obtain ⟨c, hc, hge⟩ := h
    have hg := grammar_of_fromStr hf
    cases hg <;> simp only [List.mem_cons, List.not_mem_nil, or_false] at hc <;>
      first
      | (subst hc; omega)
      | (rcases hc with rfl | rfl
         · omega
         · rename_i hv; have := (validAA_ascii hv).1; omega)
      | (rename_i hv; subst hc; have := (validAA_ascii hv).1; omega)

/-- the seeded look-alikes, concretely: all rejected with `InvalidResidue` of the real character -/
example : fromStr [0x14D] = .error (.invalidResidue 0x14D) ∧ fromStr [0x143] = .error (.invalidResidue 0x143) ∧
    fromStr [0x14B] = .error (.invalidResidue 0x14B) ∧ fromStr [94, 0x14D] = .error .tooLong ∧
    fromStr [0xFF2D] = .error .tooLong ∧ fromStr [77, 0x301] = .error .tooLong ∧ fromStr [109] = .error (.invalidResidue 109) := by
  decide

end Sage.C06
