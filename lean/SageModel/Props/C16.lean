import SageModel.Model.C16

/-!
# C16 — mzML parsing is faithful, local to each spectrum, and never panics

Property text: *Parsing an mzML document returns one spectrum per spectrum element, in order, with
exactly the encoded identifier, MS level, centroid/profile flag, scan start time converted to
minutes, injection time, m/z and intensity arrays (32- or 64-bit, zlib or uncompressed, decoded to
f32) and each precursor's m/z, charge, intensity, isolation window, spectrum reference and ion
mobility, applying the MS-level filter and signal-to-noise division when requested. What is returned
for one spectrum depends only on that spectrum's own element, never on those before it, and no
input makes the parser panic: it returns spectra or an error value.*

All theorems are about `Sage.C16.run` / `parse` (the model of `MzMLReader::parse` over abstract
events), for every number type `ν` with arbitrary operations, every configuration, every event
sequence of every length. The model is total by construction (every `step` returns a state or an
error value); that the Rust loop behaves like it — including "no panic" — is what the differential
run checks. XML lexing, base64, zlib and IEEE arithmetic are parameters of the model.
-/

namespace Sage.C16
open Num

variable {ν : Type} [Num ν]

set_option linter.unusedSectionVars false

/-! ## helper lemmas -/

theorem chunksF_count (n : Nat) (hn : 0 < n) (fuel : Nat) (b : List UInt8) (h : b.length ≤ fuel) :
    ((chunksF n fuel b).filter (fun c => c.length == n)).length = b.length / n := by
  induction fuel generalizing b with
  | zero =>
    have : b.length = 0 := by omega
    simp [chunksF, this]
  | succ fuel ih =>
    unfold chunksF
    cases b with
    | nil => simp
    | cons x xs =>
      simp only [List.isEmpty_cons, Bool.false_eq_true, if_false]
      by_cases hlt : (x :: xs).length < n
      · have h1 : ((x :: xs).take n).length ≠ n := by
          rw [List.length_take]; omega
        have h2 : (x :: xs).drop n = [] := List.drop_eq_nil_of_le (by omega)
        rw [List.filter_cons_of_neg (by simpa using h1), h2, ih [] (by simp)]
        rw [Nat.div_eq_of_lt hlt]
        simp
      · have hge : n ≤ (x :: xs).length := by omega
        have h1 : ((x :: xs).take n).length = n := by
          rw [List.length_take]; omega
        rw [List.filter_cons_of_pos (by simpa using h1), List.length_cons,
          ih ((x :: xs).drop n) (by rw [List.length_drop]; simp only [List.length_cons] at h ⊢; omega),
          List.length_drop, Nat.div_eq_sub_div hn hge]

theorem run_append (cfg : Config) (s : PState ν) (a b : List (Event ν)) :
    run cfg s (a ++ b) =
      match run cfg s a with
      | .error x => .error x
      | .ok (s', o) =>
        match run cfg s' b with
        | .error x => .error x
        | .ok (s'', o') => .ok (s'', o ++ o') := by
  induction a generalizing s with
  | nil =>
    simp only [List.nil_append, run]
    cases run cfg s b with
    | error x => rfl
    | ok r => simp
  | cons e es ih =>
    simp only [List.cons_append, run]
    cases step cfg s e with
    | error x => rfl
    | ok r =>
      obtain ⟨s1, o1⟩ := r
      simp only [ih]
      cases run cfg s1 es with
      | error x => rfl
      | ok r2 =>
        obtain ⟨s2, o2⟩ := r2
        simp only
        cases run cfg s2 b with
        | error x => rfl
        | ok r3 => simp

/-! ### look-ups -/

theorem lastOf_cons_getD {β : Type} (f : Cv → Bool) (g : Param ν → β) (p : Param ν) (ps : List (Param ν)) (a : β) :
    ((lastOf f (p :: ps)).map g).getD a = ((lastOf f ps).map g).getD (if f p.c then g p else a) := by
  simp only [lastOf]
  cases h : lastOf f ps with
  | some q => simp
  | none => by_cases hf : f p.c <;> simp [hf]

theorem lastOf_cons_or {β : Type} (f : Cv → Bool) (g : Param ν → β) (p : Param ν) (ps : List (Param ν)) (a : Option β) :
    ((lastOf f (p :: ps)).map g).or a = ((lastOf f ps).map g).or (if f p.c then some (g p) else a) := by
  simp only [lastOf]
  cases h : lastOf f ps with
  | some q => simp
  | none => by_cases hf : f p.c <;> simp [hf]

theorem lastOf_append_getD {β : Type} (f : Cv → Bool) (g : Param ν → β) (a b : List (Param ν)) (x : β) :
    ((lastOf f (a ++ b)).map g).getD x = ((lastOf f b).map g).getD (((lastOf f a).map g).getD x) := by
  induction a generalizing x with
  | nil => simp [lastOf]
  | cons p ps ih => rw [List.cons_append, lastOf_cons_getD, ih, lastOf_cons_getD]

theorem lastOf_append_or {β : Type} (f : Cv → Bool) (g : Param ν → β) (a b : List (Param ν)) (x : Option β) :
    ((lastOf f (a ++ b)).map g).or x = ((lastOf f b).map g).or (((lastOf f a).map g).or x) := by
  induction a generalizing x with
  | nil => simp [lastOf]
  | cons p ps ih => rw [List.cons_append, lastOf_cons_or, ih, lastOf_cons_or]

theorem lastOf_append_map {β : Type} (f : Cv → Bool) (g : Param ν → β) (a b : List (Param ν)) :
    (lastOf f (a ++ b)).map g = ((lastOf f b).map g).or ((lastOf f a).map g) := by
  have := lastOf_append_or f g a b none
  simpa using this

theorem lastOf_isSome_of_any (f : Cv → Bool) (ps : List (Param ν)) (h : ps.any (fun p => f p.c) = true) :
    (lastOf f ps).isSome = true := by
  induction ps with
  | nil => simp at h
  | cons p ps ih =>
    simp only [lastOf]
    cases h' : lastOf f ps with
    | some q => rfl
    | none =>
      simp only [List.any_cons, Bool.or_eq_true] at h
      cases h with
      | inl h1 => simp [h1]
      | inr h2 => rw [h'] at ih; exact absurd (ih h2) (by simp)

/-! ### inert events -/

theorem step_inert (cfg : Config) (s : PState ν) (e : Event ν) (h : e.inert = true) :
    step cfg s e = .ok (s, none) := by
  cases e with
  | start t id ref =>
    cases t <;> simp [Event.inert] at h
    simp only [step, onStart, transStart]
  | startBad t => simp [Event.inert] at h
  | cv c v u => simp [Event.inert] at h
  | text p => simp [Event.inert] at h
  | stop t =>
    cases t <;> simp [Event.inert] at h
    simp only [step, onEnd]
    cases hs : s.state with
    | none => rfl
    | some st => cases st <;> rfl
  | empty t => rfl
  | lengthAttr t => rfl

/-! ### cvParam runs, one context at a time -/

/-- effect of one scan-level cvParam -/
def scanStep (s : PState ν) (p : Param ν) : PState ν :=
  { s with
    spectrum := { s.spectrum with
      startTime := if isCv .scanStart p.c then p.startVal else s.spectrum.startTime
      injection := if isCv .injectionTime p.c then p.v.fltD else s.spectrum.injection }
    precursor := { s.precursor with
      mobility := if isCv .invMobility p.c then some p.v.fltD else s.precursor.mobility } }

def scanUpd (s : PState ν) (ps : List (Param ν)) : PState ν :=
  { s with
    spectrum := { s.spectrum with
      startTime := ((lastOf (isCv .scanStart) ps).map Param.startVal).getD s.spectrum.startTime
      injection := ((lastOf (isCv .injectionTime) ps).map (fun p => p.v.fltD)).getD s.spectrum.injection }
    precursor := { s.precursor with
      mobility := ((lastOf (isCv .invMobility) ps).map (fun p => p.v.fltD)).or s.precursor.mobility } }

theorem cvScan_ok (s : PState ν) (p : Param ν) (h : p.okScan = true) :
    cvScan s p.c p.v p.u = .ok (scanStep s p) := by
  obtain ⟨c, v, u⟩ := p
  cases c <;> cases v <;> cases u <;>
    simp_all [Param.okScan, Val.okFloat, cvScan, scanStep, isCv, Val.float, Val.fltD, Param.startVal]

theorem run_scan_cvs (cfg : Config) (ps : List (Param ν)) (s : PState ν) (hs : s.state = some .scan)
    (hok : ∀ p ∈ ps, p.okScan = true) :
    run cfg s (ps.map Param.ev) = .ok (scanUpd s ps, []) := by
  induction ps generalizing s with
  | nil => simp [run, scanUpd, lastOf]
  | cons p ps ih =>
    simp only [List.map_cons, run, Param.ev, step, onCv, hs, cvScan_ok s p (hok p (List.mem_cons_self ..))]
    rw [ih (scanStep s p) (by simp [scanStep, hs]) (fun q hq => hok q (List.mem_cons_of_mem _ hq))]
    simp only [scanUpd, lastOf_cons_getD, lastOf_cons_or, scanStep, Option.toList, List.nil_append]

theorem run_scanEvents (cfg : Config) (ps : List (Param ν)) (s : PState ν) (hs : s.state = some .spectrum)
    (hok : ∀ p ∈ ps, p.okScan = true) :
    run cfg s (scanEvents ps) = .ok (scanUpd s ps, []) := by
  simp only [scanEvents, run, step, onStart, transStart, hs]
  rw [run_append, run_scan_cvs cfg ps _ rfl hok]
  simp only [run, step, onEnd, scanUpd, Option.toList, List.append_nil]
  obtain ⟨st, c, d, k, sp, pr, lo, hi, nz⟩ := s
  simp only at hs
  subst hs
  rfl

theorem run_scans (cfg : Config) (scans : List (List (Param ν))) (s : PState ν) (hs : s.state = some .spectrum)
    (hok : ∀ ps ∈ scans, ∀ p ∈ ps, p.okScan = true) :
    run cfg s (scans.flatMap scanEvents) = .ok (scanUpd s scans.flatten, []) := by
  induction scans generalizing s with
  | nil => simp [run, scanUpd, lastOf]
  | cons ps rest ih =>
    simp only [List.flatMap_cons, List.flatten_cons]
    rw [run_append, run_scanEvents cfg ps s hs (hok ps (List.mem_cons_self ..))]
    simp only
    rw [ih (scanUpd s ps) (by simp [scanUpd, hs]) (fun q hq => hok q (List.mem_cons_of_mem _ hq))]
    simp only [scanUpd, lastOf_append_getD, lastOf_append_or, List.append_nil]

/-- does the level filter let MS level `lv` through? -/
def allows (cfg : Config) (lv : Nat) : Bool :=
  match cfg.filter with
  | some f => lv == f
  | none => true

def specStep (s : PState ν) (p : Param ν) : PState ν :=
  { s with
    spectrum := { s.spectrum with
      level := if isCv .msLevel p.c then p.v.natD else s.spectrum.level
      centroid := if isRepr p.c then p.c == .centroid else s.spectrum.centroid
      tic := if isCv .tic p.c then p.v.fltD else s.spectrum.tic } }

def specUpd (s : PState ν) (ps : List (Param ν)) : PState ν :=
  { s with
    spectrum := { s.spectrum with
      level := ((lastOf (isCv .msLevel) ps).map (fun p => p.v.natD)).getD s.spectrum.level
      centroid := ((lastOf isRepr ps).map (fun p => p.c == .centroid)).getD s.spectrum.centroid
      tic := ((lastOf (isCv .tic) ps).map (fun p => p.v.fltD)).getD s.spectrum.tic } }

theorem cvSpectrum_ok (cfg : Config) (s : PState ν) (p : Param ν) (h : p.okSpectrum = true)
    (hl : p.c = .msLevel → allows cfg p.v.natD = true) :
    cvSpectrum cfg s p.c p.v = .ok (specStep s p) := by
  obtain ⟨c, v, u⟩ := p
  cases c <;> cases v <;>
    simp_all [Param.okSpectrum, Val.okFloat, Val.okU8, cvSpectrum, specStep, isCv, isRepr, Val.float, Val.u8,
      Val.fltD, Val.natD]
  all_goals
    simp only [allows] at hl
    cases hf : cfg.filter <;> simp_all

theorem run_spec_cvs (cfg : Config) (ps : List (Param ν)) (s : PState ν) (hs : s.state = some .spectrum)
    (hok : ∀ p ∈ ps, p.okSpectrum = true)
    (hl : ∀ p ∈ ps, p.c = .msLevel → allows cfg p.v.natD = true) :
    run cfg s (ps.map Param.ev) = .ok (specUpd s ps, []) := by
  induction ps generalizing s with
  | nil => simp [run, specUpd, lastOf]
  | cons p ps ih =>
    have hm := List.mem_cons_self (a := p) (l := ps)
    simp only [List.map_cons, run, Param.ev, step, onCv, hs, cvSpectrum_ok cfg s p (hok p hm) (hl p hm)]
    rw [ih (specStep s p) (by simp [specStep, hs]) (fun q hq => hok q (List.mem_cons_of_mem _ hq))
      (fun q hq => hl q (List.mem_cons_of_mem _ hq))]
    simp only [specUpd, lastOf_cons_getD, specStep, Option.toList, List.nil_append]

def precStep (s : PState ν) (p : Param ν) : PState ν :=
  { s with
    isoLo := if isCv .isoLower p.c then some p.v.fltD else s.isoLo
    isoHi := if isCv .isoUpper p.c then some p.v.fltD else s.isoHi }

def precUpd (s : PState ν) (ps : List (Param ν)) : PState ν :=
  { s with
    isoLo := ((lastOf (isCv .isoLower) ps).map (fun p => p.v.fltD)).or s.isoLo
    isoHi := ((lastOf (isCv .isoUpper) ps).map (fun p => p.v.fltD)).or s.isoHi }

theorem cvPrecursor_ok (s : PState ν) (p : Param ν) (h : p.okPrecursor = true) :
    cvPrecursor s p.c p.v = .ok (precStep s p) := by
  obtain ⟨c, v, u⟩ := p
  cases c <;> cases v <;>
    simp_all [Param.okPrecursor, Val.okFloat, cvPrecursor, precStep, isCv, Val.float, Val.fltD]

theorem run_prec_cvs (cfg : Config) (ps : List (Param ν)) (s : PState ν) (hs : s.state = some .precursor)
    (hok : ∀ p ∈ ps, p.okPrecursor = true) :
    run cfg s (ps.map Param.ev) = .ok (precUpd s ps, []) := by
  induction ps generalizing s with
  | nil => simp [run, precUpd, lastOf]
  | cons p ps ih =>
    simp only [List.map_cons, run, Param.ev, step, onCv, hs, cvPrecursor_ok s p (hok p (List.mem_cons_self ..))]
    rw [ih (precStep s p) (by simp [precStep, hs]) (fun q hq => hok q (List.mem_cons_of_mem _ hq))]
    simp only [precUpd, lastOf_cons_or, precStep, Option.toList, List.nil_append]

def ionStep (s : PState ν) (p : Param ν) : PState ν :=
  { s with
    precursor := { s.precursor with
      mz := if isCv .selMz p.c then p.v.fltD else s.precursor.mz
      intensity := if isCv .selInt p.c then some p.v.fltD else s.precursor.intensity
      charge := if isCv .selCharge p.c then some p.v.natD else s.precursor.charge
      mobility := if isCv .invMobility p.c then some p.v.fltD else s.precursor.mobility } }

def ionUpd (s : PState ν) (ps : List (Param ν)) : PState ν :=
  { s with
    precursor := { s.precursor with
      mz := ((lastOf (isCv .selMz) ps).map (fun p => p.v.fltD)).getD s.precursor.mz
      intensity := ((lastOf (isCv .selInt) ps).map (fun p => p.v.fltD)).or s.precursor.intensity
      charge := ((lastOf (isCv .selCharge) ps).map (fun p => p.v.natD)).or s.precursor.charge
      mobility := ((lastOf (isCv .invMobility) ps).map (fun p => p.v.fltD)).or s.precursor.mobility } }

theorem cvSelectedIon_ok (s : PState ν) (p : Param ν) (h : p.okIon = true) :
    cvSelectedIon s p.c p.v = .ok (ionStep s p) := by
  obtain ⟨c, v, u⟩ := p
  cases c <;> cases v <;>
    simp_all [Param.okIon, Val.okFloat, Val.okU8, cvSelectedIon, ionStep, isCv, Val.float, Val.u8, Val.fltD, Val.natD]

theorem run_ion_cvs (cfg : Config) (ps : List (Param ν)) (s : PState ν) (hs : s.state = some .selectedIon)
    (hok : ∀ p ∈ ps, p.okIon = true) :
    run cfg s (ps.map Param.ev) = .ok (ionUpd s ps, []) := by
  induction ps generalizing s with
  | nil => simp [run, ionUpd, lastOf]
  | cons p ps ih =>
    simp only [List.map_cons, run, Param.ev, step, onCv, hs, cvSelectedIon_ok s p (hok p (List.mem_cons_self ..))]
    rw [ih (ionStep s p) (by simp [ionStep, hs]) (fun q hq => hok q (List.mem_cons_of_mem _ hq))]
    simp only [ionUpd, lastOf_cons_getD, lastOf_cons_or, ionStep, Option.toList, List.nil_append]

theorem run_ionEvents (cfg : Config) (ps : List (Param ν)) (s : PState ν) (hs : s.state = some .precursor)
    (hok : ∀ p ∈ ps, p.okIon = true) :
    run cfg s (ionEvents ps) = .ok (ionUpd s ps, []) := by
  simp only [ionEvents, run, step, onStart, transStart, hs]
  rw [run_append, run_ion_cvs cfg ps _ rfl hok]
  simp only [run, step, onEnd, ionUpd, Option.toList, List.append_nil]
  obtain ⟨st, c, d, k, sp, pr, lo, hi, nz⟩ := s
  simp only at hs
  subst hs
  rfl

theorem run_ions (cfg : Config) (ions : List (List (Param ν))) (s : PState ν) (hs : s.state = some .precursor)
    (hok : ∀ ps ∈ ions, ∀ p ∈ ps, p.okIon = true) :
    run cfg s (ions.flatMap ionEvents) = .ok (ionUpd s ions.flatten, []) := by
  induction ions generalizing s with
  | nil => simp [run, ionUpd, lastOf]
  | cons ps rest ih =>
    simp only [List.flatMap_cons, List.flatten_cons]
    rw [run_append, run_ionEvents cfg ps s hs (hok ps (List.mem_cons_self ..))]
    simp only
    rw [ih (ionUpd s ps) (by simp [ionUpd, hs]) (fun q hq => hok q (List.mem_cons_of_mem _ hq))]
    simp only [ionUpd, lastOf_append_getD, lastOf_append_or, List.append_nil]

theorem onStart_precursor (s : PState ν) (ref : Option String) :
    onStart s .precursor none ref =
      .ok { s with state := transStart .precursor s.state,
                   precursor := { s.precursor with spectrumRef := ref.or s.precursor.spectrumRef } } := by
  cases ref <;> simp [onStart]

/-- one whole `<precursor>` element, from the state the reader is in between precursors -/
theorem run_prec (cfg : Config) (p : PrecEl ν) (s : PState ν) (m0 : Option ν) (hs : s.state = some .spectrum)
    (hwf : p.wf = true) (hlo : s.isoLo = none) (hhi : s.isoHi = none)
    (hp : s.precursor = { (Precursor.blank : Precursor ν) with mobility := m0 }) :
    run cfg s p.events =
      .ok ({ s with
              spectrum := { s.spectrum with precursors := s.spectrum.precursors ++ (denotePrec m0 p).toList }
              precursor := Precursor.blank }, []) := by
  simp only [PrecEl.wf, Bool.and_eq_true, List.all_eq_true] at hwf
  obtain ⟨⟨hiso, hact⟩, hions⟩ := hwf
  obtain ⟨st, c, d, k, sp, pr, lo, hi, nz⟩ := s
  simp only at hs hlo hhi hp
  subst hs hlo hhi hp
  simp only [PrecEl.events, run, step, onStart_precursor, transStart]
  rw [run_append, run_prec_cvs cfg p.iso _ rfl hiso]
  simp only
  rw [run_append, run_ions cfg p.ions _ rfl hions]
  simp only
  rw [run_append, run_prec_cvs cfg p.act _ rfl hact]
  simp only [run, step, onEnd, precUpd, ionUpd, Option.toList, List.append_nil, finishPrecursor,
    denotePrec, fltOf, natOf, Option.or_none, lastOf_append_map, Precursor.blank]
  cases (lastOf (isCv Cv.invMobility) p.ions.flatten) <;>
    cases isZero (((lastOf (isCv Cv.selMz) p.ions.flatten).map (fun p => p.v.fltD)).getD (zero : ν)) <;> simp

theorem run_precs (cfg : Config) (precs : List (PrecEl ν)) (s : PState ν) (m0 : Option ν)
    (hs : s.state = some .spectrum) (hwf : ∀ p ∈ precs, p.wf = true) (hlo : s.isoLo = none) (hhi : s.isoHi = none)
    (hp : s.precursor = { (Precursor.blank : Precursor ν) with mobility := m0 }) :
    run cfg s (precs.flatMap PrecEl.events) =
      .ok ({ s with
              spectrum := { s.spectrum with precursors := s.spectrum.precursors ++ denotePrecs m0 precs }
              precursor := if precs.isEmpty then s.precursor else Precursor.blank }, []) := by
  induction precs generalizing s m0 with
  | nil => simp [run, denotePrecs]
  | cons p rest ih =>
    simp only [List.flatMap_cons]
    rw [run_append, run_prec cfg p s m0 hs (hwf p (List.mem_cons_self ..)) hlo hhi hp]
    simp only
    rw [ih { s with
              spectrum := { s.spectrum with precursors := s.spectrum.precursors ++ (denotePrec m0 p).toList }
              precursor := Precursor.blank } none hs (fun q hq => hwf q (List.mem_cons_of_mem _ hq)) hlo hhi rfl]
    simp only [denotePrecs, List.append_assoc, List.nil_append, List.isEmpty_cons]
    cases rest <;> simp

/-! ### binary data arrays -/

def bdaStep (s : PState ν) (p : Param ν) : PState ν :=
  { s with
    compression := if isComp p.c then p.c == .zlib else s.compression
    dtype64 := if isDtype p.c then p.c == .f64 else s.dtype64
    kind := if isKindish p.c then p.c.kind else s.kind }

def bdaUpd (s : PState ν) (ps : List (Param ν)) : PState ν :=
  { s with
    compression := ((lastOf isComp ps).map (fun p => p.c == .zlib)).getD s.compression
    dtype64 := ((lastOf isDtype ps).map (fun p => p.c == .f64)).getD s.dtype64
    kind := ((lastOf isKindish ps).map (fun p => p.c.kind)).getD s.kind }

theorem cvBda_ok (s : PState ν) (p : Param ν) (h : (p.c != .missing) = true) :
    cvBda s p.c = .ok (bdaStep s p) := by
  obtain ⟨c, v, u⟩ := p
  cases c <;> simp_all [cvBda, bdaStep, isComp, isDtype, isKindish, Cv.keepsKind, Cv.kind]

theorem run_bda_cvs (cfg : Config) (ps : List (Param ν)) (s : PState ν) (hs : s.state = some .binaryDataArray)
    (hok : ∀ p ∈ ps, (p.c != .missing) = true) :
    run cfg s (ps.map Param.ev) = .ok (bdaUpd s ps, []) := by
  induction ps generalizing s with
  | nil => simp [run, bdaUpd, lastOf]
  | cons p ps ih =>
    simp only [List.map_cons, run, Param.ev, step, onCv, hs, cvBda_ok s p (hok p (List.mem_cons_self ..))]
    rw [ih (bdaStep s p) (by simp [bdaStep, hs]) (fun q hq => hok q (List.mem_cons_of_mem _ hq))]
    simp only [bdaUpd, lastOf_cons_getD, bdaStep, Option.toList, List.nil_append]

theorem getD_of_isSome {β : Type} (o : Option β) (a b : β) (h : o.isSome = true) : o.getD a = o.getD b := by
  cases o <;> simp_all

/-- the data an array element leaves behind -/
def arrStore (s : PState ν) (a : ArrEl ν) : PState ν :=
  { s with
    spectrum := { s.spectrum with
      mz := if a.kind == some .mz then a.values.getD s.spectrum.mz else s.spectrum.mz
      intensity := if a.kind == some .intensity then a.values.getD s.spectrum.intensity else s.spectrum.intensity }
    noise := if a.kind == some .noise then a.values.getD s.noise else s.noise }

theorem run_arr (cfg : Config) (a : ArrEl ν) (s : PState ν) (hs : s.state = some .spectrum) (hwf : a.wf = true)
    (hallow : allows cfg s.spectrum.level = true) :
    ∃ k, run cfg s a.events = .ok ({ arrStore s a with compression := a.zlib, dtype64 := a.is64, kind := k }, []) := by
  simp only [ArrEl.wf, Bool.and_eq_true, List.all_eq_true] at hwf
  obtain ⟨⟨⟨⟨hmiss, hc⟩, hd⟩, hk⟩, hpay⟩ := hwf
  have hc' := lastOf_isSome_of_any isComp a.params hc
  have hd' := lastOf_isSome_of_any isDtype a.params hd
  have hk' := lastOf_isSome_of_any isKindish a.params hk
  have hlev : ∀ f, cfg.filter = some f → (s.spectrum.level != f) = false := by
    intro f hf
    simp only [allows, hf] at hallow
    simpa using hallow
  obtain ⟨st, c, d, k, sp, pr, lo, hi, nz⟩ := s
  simp only at hs hlev
  subst hs
  simp only [ArrEl.events, run, step, onStart, transStart]
  rw [run_append, run_bda_cvs cfg a.params _ rfl hmiss]
  have e1 : ((lastOf isComp a.params).map (fun p => p.c == Cv.zlib)).getD c = a.zlib :=
    getD_of_isSome _ _ _ (by simpa using hc')
  have e2 : ((lastOf isDtype a.params).map (fun p => p.c == Cv.f64)).getD d = a.is64 :=
    getD_of_isSome _ _ _ (by simpa using hd')
  have e3 : ((lastOf isKindish a.params).map (fun p => p.c.kind)).getD k = a.kind :=
    getD_of_isSome _ _ _ (by simpa using hk')
  simp only [bdaUpd, e1, e2, e3, run, step, onStart, transStart, onText]
  simp only [ArrEl.values, arrStore]
  cases hkind : a.kind with
  | none =>
    cases hp : a.payload with
    | empty => exact ⟨none, by cases hf : cfg.filter <;> simp [onEnd, hf, hlev]⟩
    | badB64 => exact ⟨none, by cases hf : cfg.filter <;> simp [onEnd, hf, hlev]⟩
    | data w i => exact ⟨none, by by_cases hw : w.isEmpty <;> cases hf : cfg.filter <;> simp [onEnd, hw, hf, hlev]⟩
  | some kd =>
    rw [hkind] at hpay
    cases hp : a.payload with
    | empty => exact ⟨some kd, by cases hf : cfg.filter <;> simp [onEnd, hf, hlev]⟩
    | badB64 => rw [hp] at hpay; simp at hpay
    | data w i =>
      rw [hp] at hpay
      by_cases hw : w.isEmpty
      · exact ⟨some kd, by cases hf : cfg.filter <;> simp [onEnd, hw, hf, hlev]⟩
      · by_cases hz : a.zlib
        · simp only [hw, hz, Bool.not_true, Bool.or_false, Bool.false_or] at hpay
          cases i with
          | none => simp at hpay
          | some b => exact ⟨none, by cases kd <;> cases hf : cfg.filter <;> simp [onEnd, hw, hz, storeArray, hf, hlev]⟩
        · exact ⟨none, by cases kd <;> cases hf : cfg.filter <;> simp [onEnd, hw, hz, storeArray, hf, hlev]⟩

theorem lastArr_cons_getD (k : Kind) (a : ArrEl ν) (as : List (ArrEl ν)) (x : List ν) :
    (lastArr k (a :: as)).getD x = (lastArr k as).getD (if a.kind == some k then a.values.getD x else x) := by
  simp only [lastArr]
  cases h : lastArr k as with
  | some v => simp
  | none => by_cases hk : a.kind == some k <;> simp [hk]

def arrsUpd (s : PState ν) (as : List (ArrEl ν)) : PState ν :=
  { s with
    spectrum := { s.spectrum with
      mz := (lastArr .mz as).getD s.spectrum.mz
      intensity := (lastArr .intensity as).getD s.spectrum.intensity }
    noise := (lastArr .noise as).getD s.noise }

theorem run_arrs (cfg : Config) (as : List (ArrEl ν)) (s : PState ν) (hs : s.state = some .spectrum)
    (hwf : ∀ a ∈ as, a.wf = true) (hallow : allows cfg s.spectrum.level = true) :
    ∃ c d k, run cfg s (as.flatMap ArrEl.events) =
      .ok ({ arrsUpd s as with compression := c, dtype64 := d, kind := k }, []) := by
  induction as generalizing s with
  | nil => exact ⟨s.compression, s.dtype64, s.kind, by simp [run, arrsUpd, lastArr]⟩
  | cons a rest ih =>
    obtain ⟨k1, h1⟩ := run_arr cfg a s hs (hwf a (List.mem_cons_self ..)) hallow
    obtain ⟨c, d, k, h2⟩ := ih { arrStore s a with compression := a.zlib, dtype64 := a.is64, kind := k1 }
      (by simp [arrStore, hs]) (fun q hq => hwf q (List.mem_cons_of_mem _ hq)) (by simpa [arrStore] using hallow)
    refine ⟨c, d, k, ?_⟩
    simp only [List.flatMap_cons]
    rw [run_append, h1]
    simp only
    rw [h2]
    simp only [arrsUpd, arrStore, lastArr_cons_getD, List.append_nil]

/-- a `<spectrum>` element the level filter lets through, from any state the reader can be in between spectra -/
theorem elem_kept (cfg : Config) (e : SpecEl ν) (c d : Bool) (k : Option Kind)
    (hwf : e.wf = true)
    (hall : ∀ p ∈ e.params, p.c = .msLevel → allows cfg p.v.natD = true)
    (hlv : allows cfg ((natOf .msLevel e.params).getD 0) = true) :
    ∃ c' d' k' sp, denote cfg e = some sp ∧
      run cfg (PState.fresh c d k) e.events = .ok (PState.fresh c' d' k', [sp]) := by
  simp only [SpecEl.wf, Bool.and_eq_true, List.all_eq_true, decide_eq_true_eq] at hwf
  obtain ⟨⟨⟨⟨hps, _⟩, hsc⟩, hpr⟩, har⟩ := hwf
  simp only [SpecEl.events, run, step, onStart, transStart, PState.fresh]
  rw [run_append, run_spec_cvs cfg e.params _ rfl hps hall]
  simp only
  rw [run_append, run_scans cfg e.scans _ rfl hsc]
  simp only
  rw [run_append, run_precs cfg e.precs _ (fltOf .invMobility e.scans.flatten) rfl hpr rfl rfl
    (by simp [scanUpd, specUpd, Precursor.blank, fltOf])]
  simp only
  obtain ⟨c', d', k', harr⟩ := run_arrs cfg e.arrays
    ({ (scanUpd (specUpd (⟨some .spectrum, c, d, k, { (Spectrum.blank : Spectrum ν) with id := e.id },
        Precursor.blank, none, none, []⟩ : PState ν) e.params) e.scans.flatten) with
        spectrum := { (scanUpd (specUpd (⟨some .spectrum, c, d, k, { (Spectrum.blank : Spectrum ν) with id := e.id },
          Precursor.blank, none, none, []⟩ : PState ν) e.params) e.scans.flatten).spectrum with
          precursors := (scanUpd (specUpd (⟨some .spectrum, c, d, k, { (Spectrum.blank : Spectrum ν) with id := e.id },
            Precursor.blank, none, none, []⟩ : PState ν) e.params) e.scans.flatten).spectrum.precursors ++
            denotePrecs (fltOf .invMobility e.scans.flatten) e.precs }
        precursor := if e.precs.isEmpty then (scanUpd (specUpd (⟨some .spectrum, c, d, k,
            { (Spectrum.blank : Spectrum ν) with id := e.id }, Precursor.blank, none, none, []⟩ : PState ν) e.params)
            e.scans.flatten).precursor else Precursor.blank } : PState ν)
    rfl har (by simpa [scanUpd, specUpd, Spectrum.blank, natOf] using hlv)
  rw [run_append, harr]
  refine ⟨c', d', k', ?_⟩
  simp only [run, step, onEnd, emit, arrsUpd, scanUpd, specUpd, Spectrum.blank, denote, reading, natOf, fltOf,
    startTimeOf, arrayOf, List.append_nil, List.nil_append, Option.toList]
  simp only [allows, natOf] at hlv
  cases hf : cfg.filter with
  | none =>
    cases hsn : cfg.sn with
    | none => simp
    | some l =>
      by_cases hl : l = ((lastOf (isCv Cv.msLevel) e.params).map (fun p => p.v.natD)).getD 0 <;>
        by_cases hn : (lastArr Kind.noise e.arrays).getD [] = [] <;> simp [hl, hn]
  | some f =>
    rw [hf] at hlv
    simp only [beq_iff_eq] at hlv
    cases hsn : cfg.sn with
    | none => simp [hlv]
    | some l =>
      by_cases hl : l = f <;>
        by_cases hn : (lastArr Kind.noise e.arrays).getD [] = [] <;> simp [hlv, hl, hn]

/-! ### elements the level filter removes -/

theorem onEnd_spectrum (cfg : Config) (s : PState ν) :
    onEnd cfg s .spectrum = (PState.fresh s.compression s.dtype64 s.kind, emit cfg s) := by
  unfold onEnd PState.fresh
  cases h : s.state with
  | none => rfl
  | some st => cases st <;> rfl

theorem run_cvs_none (cfg : Config) (ps : List (Param ν)) (s : PState ν) (hs : s.state = none) :
    run cfg s (ps.map Param.ev) = .ok (s, []) := by
  induction ps with
  | nil => rfl
  | cons p ps ih => simp [run, Param.ev, step, onCv, hs, ih]

/-- neither `<spectrum>` nor `</spectrum>` -/
def Event.noSpec : Event ν → Bool
  | .start .spectrum _ _ => false
  | .stop .spectrum => false
  | .startBad _ => false
  | _ => true

theorem run_dead (cfg : Config) (evs : List (Event ν)) (s : PState ν) (hs : s.state = none)
    (hev : evs.all Event.noSpec = true) :
    ∃ s', run cfg s evs = .ok (s', []) ∧ s'.state = none ∧ s'.spectrum = s.spectrum := by
  induction evs generalizing s with
  | nil => exact ⟨s, rfl, hs, rfl⟩
  | cons ev evs ih =>
    simp only [List.all_cons, Bool.and_eq_true] at hev
    obtain ⟨h1, h2⟩ := hev
    have hstep : ∃ s1, step cfg s ev = .ok (s1, none) ∧ s1.state = none ∧ s1.spectrum = s.spectrum := by
      cases ev with
      | start t id ref =>
        have : ∃ s1, onStart s t id ref = .ok s1 ∧ s1.state = none ∧ s1.spectrum = s.spectrum := by
          cases t with
          | spectrum => simp [Event.noSpec] at h1
          | precursor => cases ref <;> simp [onStart, transStart, hs]
          | _ => simp [onStart, transStart, hs]
        obtain ⟨s1, e, a, b⟩ := this
        exact ⟨s1, by simp [step, e], a, b⟩
      | startBad t => simp [Event.noSpec] at h1
      | cv c v u => exact ⟨s, by simp [step, onCv, hs], hs, rfl⟩
      | text p => exact ⟨s, by simp [step, onText, hs], hs, rfl⟩
      | stop t =>
        cases t with
        | spectrum => simp [Event.noSpec] at h1
        | _ => exact ⟨s, by simp [step, onEnd, hs], hs, rfl⟩
      | empty t => exact ⟨s, rfl, hs, rfl⟩
      | lengthAttr t => exact ⟨s, rfl, hs, rfl⟩
    obtain ⟨s1, e1, hs1, hsp1⟩ := hstep
    obtain ⟨s2, e2, hs2, hsp2⟩ := ih s1 hs1 h2
    exact ⟨s2, by simp [run, e1, e2], hs2, hsp2.trans hsp1⟩

theorem params_drop (cfg : Config) (f : Nat) (hf : cfg.filter = some f) (ps : List (Param ν)) (s : PState ν)
    (hs : s.state = some .spectrum) (hok : ∀ p ∈ ps, p.okSpectrum = true)
    (hne : ∀ p ∈ ps, p.c = .msLevel → p.v.natD ≠ f) (hex : ∃ p ∈ ps, p.c = .msLevel) :
    ∃ s', run cfg s (ps.map Param.ev) = .ok (s', []) ∧ s'.state = none ∧ s'.spectrum.level ≠ f := by
  induction ps generalizing s with
  | nil => obtain ⟨p, hp, _⟩ := hex; simp at hp
  | cons p ps ih =>
    have hm := List.mem_cons_self (a := p) (l := ps)
    by_cases hc : p.c = .msLevel
    · have hokp := hok p hm
      have hnep := hne p hm hc
      obtain ⟨c, v, u⟩ := p
      simp only at hc
      subst hc
      cases v with
      | nat n =>
        simp only [Param.okSpectrum, Val.okU8, decide_eq_true_eq] at hokp
        simp only [Val.natD] at hnep
        refine ⟨{ s with spectrum := { (Spectrum.blank : Spectrum ν) with level := n }, state := none }, ?_, rfl, hnep⟩
        simp only [List.map_cons, run, Param.ev, step, onCv, hs, cvSpectrum, Val.u8, hokp, if_true, hf]
        have hd : (n != f) = true := by simpa using hnep
        simp only [hd, if_true]
        rw [run_cvs_none cfg ps _ rfl]
        rfl
      | absent => simp [Param.okSpectrum, Val.okU8] at hokp
      | garbage => simp [Param.okSpectrum, Val.okU8] at hokp
      | flt x => simp [Param.okSpectrum, Val.okU8] at hokp
    · have hex' : ∃ q ∈ ps, q.c = .msLevel := by
        obtain ⟨q, hq, hqc⟩ := hex
        cases List.mem_cons.mp hq with
        | inl h => subst h; exact absurd hqc hc
        | inr h => exact ⟨q, h, hqc⟩
      obtain ⟨s', hr, h1, h2⟩ := ih (specStep s p) (by simp [specStep, hs])
        (fun q hq => hok q (List.mem_cons_of_mem _ hq))
        (fun q hq => hne q (List.mem_cons_of_mem _ hq)) hex'
      refine ⟨s', ?_, h1, h2⟩
      simp only [List.map_cons, run, Param.ev, step, onCv, hs,
        cvSpectrum_ok cfg s p (hok p hm) (fun h => absurd h hc), hr, Option.toList, List.nil_append]

theorem lastOf_mem (f : Cv → Bool) (ps : List (Param ν)) (q : Param ν) (h : lastOf f ps = some q) :
    q ∈ ps ∧ f q.c = true := by
  induction ps with
  | nil => simp [lastOf] at h
  | cons p ps ih =>
    simp only [lastOf] at h
    cases h' : lastOf f ps with
    | some r =>
      rw [h'] at h
      simp only [Option.some.injEq] at h
      subst h
      exact ⟨List.mem_cons_of_mem _ (ih h').1, (ih h').2⟩
    | none =>
      rw [h'] at h
      by_cases hf : f p.c
      · simp only [hf, if_true, Option.some.injEq] at h
        subst h
        exact ⟨List.mem_cons_self .., hf⟩
      · simp [hf] at h

theorem sections_noSpec (e : SpecEl ν) :
    (e.scans.flatMap scanEvents ++ (e.precs.flatMap PrecEl.events ++ e.arrays.flatMap ArrEl.events)).all
      Event.noSpec = true := by
  simp [List.all_flatMap, scanEvents, PrecEl.events, ArrEl.events, ionEvents, List.all_map, Function.comp_def,
    Param.ev, Event.noSpec]

theorem run_arr_skip (cfg : Config) (a : ArrEl ν) (s : PState ν) (f : Nat) (hs : s.state = some .spectrum)
    (hwf : a.wf = true) (hf : cfg.filter = some f) (hne : s.spectrum.level ≠ f) :
    ∃ k, run cfg s a.events = .ok ({ s with compression := a.zlib, dtype64 := a.is64, kind := k }, []) := by
  simp only [ArrEl.wf, Bool.and_eq_true, List.all_eq_true] at hwf
  obtain ⟨⟨⟨⟨hmiss, hc⟩, hd⟩, hk⟩, _⟩ := hwf
  have hc' := lastOf_isSome_of_any isComp a.params hc
  have hd' := lastOf_isSome_of_any isDtype a.params hd
  have hne' : (s.spectrum.level != f) = true := by simpa using hne
  obtain ⟨st, c, d, k, sp, pr, lo, hi, nz⟩ := s
  simp only at hs hne'
  subst hs
  simp only [ArrEl.events, run, step, onStart, transStart]
  rw [run_append, run_bda_cvs cfg a.params _ rfl hmiss]
  have e1 : ((lastOf isComp a.params).map (fun p => p.c == Cv.zlib)).getD c = a.zlib :=
    getD_of_isSome _ _ _ (by simpa using hc')
  have e2 : ((lastOf isDtype a.params).map (fun p => p.c == Cv.f64)).getD d = a.is64 :=
    getD_of_isSome _ _ _ (by simpa using hd')
  exact ⟨((lastOf isKindish a.params).map (fun p => p.c.kind)).getD k,
    by simp [bdaUpd, e1, e2, run, step, onStart, transStart, onText, hf, hne', onEnd]⟩

theorem run_arrs_skip (cfg : Config) (as : List (ArrEl ν)) (s : PState ν) (f : Nat) (hs : s.state = some .spectrum)
    (hwf : ∀ a ∈ as, a.wf = true) (hf : cfg.filter = some f) (hne : s.spectrum.level ≠ f) :
    ∃ c d k, run cfg s (as.flatMap ArrEl.events) = .ok ({ s with compression := c, dtype64 := d, kind := k }, []) := by
  induction as generalizing s with
  | nil => exact ⟨s.compression, s.dtype64, s.kind, by simp [run]⟩
  | cons a rest ih =>
    obtain ⟨k1, h1⟩ := run_arr_skip cfg a s f hs (hwf a (List.mem_cons_self ..)) hf hne
    obtain ⟨c, d, k, h2⟩ := ih { s with compression := a.zlib, dtype64 := a.is64, kind := k1 } hs
      (fun q hq => hwf q (List.mem_cons_of_mem _ hq)) hne
    refine ⟨c, d, k, ?_⟩
    simp only [List.flatMap_cons]
    rw [run_append, h1]
    simp only
    rw [h2]
    rfl

theorem lastOf_none_of_forall (f : Cv → Bool) (ps : List (Param ν)) (h : ∀ p ∈ ps, f p.c = false) :
    lastOf f ps = none := by
  induction ps with
  | nil => rfl
  | cons p ps ih =>
    simp only [lastOf, ih (fun q hq => h q (List.mem_cons_of_mem _ hq)), h p (List.mem_cons_self ..)]
    simp

/-- an element without any `ms level` param under a filter other than 0: read to the end (arrays skipped),
    never emitted -/
theorem elem_nolevel_dropped (cfg : Config) (e : SpecEl ν) (c d : Bool) (k : Option Kind) (f : Nat)
    (hwf : e.wf = true) (hno : ∀ p ∈ e.params, p.c ≠ .msLevel)
    (hf : cfg.filter = some f) (hne : f ≠ 0) :
    ∃ c' d' k', denote cfg e = none ∧
      run cfg (PState.fresh c d k) e.events = .ok (PState.fresh c' d' k', []) := by
  have hnat : natOf .msLevel e.params = none := by
    simp only [natOf, lastOf_none_of_forall (isCv .msLevel) e.params (fun p hp => by simpa [isCv] using hno p hp),
      Option.map_none]
  simp only [SpecEl.wf, Bool.and_eq_true, List.all_eq_true, decide_eq_true_eq] at hwf
  obtain ⟨⟨⟨⟨hps, _⟩, hsc⟩, hpr⟩, har⟩ := hwf
  have hd : denote cfg e = none := by
    have : ((0 : Nat) != f) = true := by simpa using (Ne.symm hne)
    simp [denote, hnat, hf, this]
  simp only [SpecEl.events, run, step, onStart, transStart, PState.fresh]
  rw [run_append, run_spec_cvs cfg e.params _ rfl hps (fun p hp hc => absurd hc (hno p hp))]
  simp only
  rw [run_append, run_scans cfg e.scans _ rfl hsc]
  simp only
  rw [run_append, run_precs cfg e.precs _ (fltOf .invMobility e.scans.flatten) rfl hpr rfl rfl
    (by simp [scanUpd, specUpd, Precursor.blank, fltOf])]
  simp only
  have hlev : ((lastOf (isCv Cv.msLevel) e.params).map (fun p => p.v.natD)).getD 0 = 0 := by
    have := hnat; simp only [natOf] at this; simp [this]
  obtain ⟨c', d', k', harr⟩ := run_arrs_skip cfg e.arrays
    ({ (scanUpd (specUpd (⟨some .spectrum, c, d, k, { (Spectrum.blank : Spectrum ν) with id := e.id },
        Precursor.blank, none, none, []⟩ : PState ν) e.params) e.scans.flatten) with
        spectrum := { (scanUpd (specUpd (⟨some .spectrum, c, d, k, { (Spectrum.blank : Spectrum ν) with id := e.id },
          Precursor.blank, none, none, []⟩ : PState ν) e.params) e.scans.flatten).spectrum with
          precursors := (scanUpd (specUpd (⟨some .spectrum, c, d, k, { (Spectrum.blank : Spectrum ν) with id := e.id },
            Precursor.blank, none, none, []⟩ : PState ν) e.params) e.scans.flatten).spectrum.precursors ++
            denotePrecs (fltOf .invMobility e.scans.flatten) e.precs }
        precursor := if e.precs.isEmpty then (scanUpd (specUpd (⟨some .spectrum, c, d, k,
            { (Spectrum.blank : Spectrum ν) with id := e.id }, Precursor.blank, none, none, []⟩ : PState ν) e.params)
            e.scans.flatten).precursor else Precursor.blank } : PState ν)
    f rfl har hf (by simp only [scanUpd, specUpd, Spectrum.blank, hlev]; exact Ne.symm hne)
  rw [run_append, harr]
  refine ⟨c', d', k', hd, ?_⟩
  have hb : (f == 0) = false := by simpa using hne
  simp [run, step, onEnd_spectrum, emit, hf, scanUpd, specUpd, Spectrum.blank, hlev, hb, PState.fresh]

theorem level_cases (ps : List (Param ν)) (h : (ps.filter (fun p => p.c == .msLevel)).length ≤ 1) :
    (∀ p ∈ ps, p.c ≠ .msLevel) ∨
      ∃ lv, (∃ p ∈ ps, p.c = .msLevel) ∧ ∀ p ∈ ps, p.c = .msLevel → p.v.natD = lv := by
  cases hfl : ps.filter (fun p => p.c == .msLevel) with
  | nil =>
    left
    intro p hp hc
    have : p ∈ ps.filter (fun p => p.c == .msLevel) := List.mem_filter.mpr ⟨hp, by simp [hc]⟩
    rw [hfl] at this
    simp at this
  | cons x rest =>
    cases rest with
    | nil =>
      right
      have hx : x ∈ ps.filter (fun p => p.c == .msLevel) := by rw [hfl]; simp
      obtain ⟨hxm, hxc⟩ := List.mem_filter.mp hx
      refine ⟨x.v.natD, ⟨x, hxm, by simpa using hxc⟩, fun p hp hc => ?_⟩
      have : p ∈ ps.filter (fun p => p.c == .msLevel) := List.mem_filter.mpr ⟨hp, by simp [hc]⟩
      rw [hfl] at this
      simp only [List.mem_singleton] at this
      rw [this]
    | cons y rest => rw [hfl] at h; simp at h

/-- the element declares its MS level: there is an `ms level` param and all of them carry `lv` -/
def DeclaresLevel (e : SpecEl ν) (lv : Nat) : Prop :=
  (∃ p ∈ e.params, p.c = .msLevel) ∧ ∀ p ∈ e.params, p.c = .msLevel → p.v.natD = lv

/-- well-formed spectrum element over the supported vocabulary: schema child order (by the type
`SpecEl`), every value the reader reads parses, every array re-declares compression / data type /
kind and its payload decodes, at most one `ms level` param — possibly none — (`SpecEl.wf`). A `total
ion current` of 0 is not excluded (it was, until finding C16-tic-zero was repaired). -/
def WellFormed (e : SpecEl ν) : Prop :=
  e.wf = true

theorem natOf_of_declares (e : SpecEl ν) (lv : Nat) (h : DeclaresLevel e lv) :
    natOf .msLevel e.params = some lv := by
  obtain ⟨⟨p, hp, hc⟩, hall⟩ := h
  have hs := lastOf_isSome_of_any (isCv .msLevel) e.params
    (List.any_eq_true.mpr ⟨p, hp, by simp [isCv, hc]⟩)
  cases hq : lastOf (isCv .msLevel) e.params with
  | none => simp [hq] at hs
  | some q =>
    obtain ⟨hm, hf⟩ := lastOf_mem _ _ _ hq
    simp only [natOf, hq, Option.map_some, Option.some.injEq]
    exact hall q hm (by simpa [isCv] using hf)

theorem elem_dropped (cfg : Config) (e : SpecEl ν) (c d : Bool) (k : Option Kind) (f lv : Nat)
    (hwf : e.wf = true) (hlv : DeclaresLevel e lv)
    (hf : cfg.filter = some f) (hne : lv ≠ f) :
    ∃ c' d' k', denote cfg e = none ∧
      run cfg (PState.fresh c d k) e.events = .ok (PState.fresh c' d' k', []) := by
  have hnat := natOf_of_declares e lv hlv
  simp only [SpecEl.wf, Bool.and_eq_true, List.all_eq_true, decide_eq_true_eq] at hwf
  obtain ⟨⟨⟨⟨hps, _⟩, _⟩, _⟩, _⟩ := hwf
  obtain ⟨s1, hr1, hs1, hl1⟩ := params_drop cfg f hf e.params
    (⟨some .spectrum, c, d, k, { (Spectrum.blank : Spectrum ν) with id := e.id }, Precursor.blank, none, none, []⟩)
    rfl hps (fun p hp hc => by rw [hlv.2 p hp hc]; exact hne) hlv.1
  obtain ⟨s2, hr2, hs2, hsp2⟩ := run_dead cfg _ s1 hs1 (sections_noSpec e)
  refine ⟨s2.compression, s2.dtype64, s2.kind, ?_, ?_⟩
  · simp only [denote, hnat, hf, Option.getD_some]
    have : (lv != f) = true := by simpa using hne
    simp [this]
  · simp only [SpecEl.events, run, step, onStart, transStart, PState.fresh]
    rw [run_append, hr1]
    simp only
    rw [← List.append_assoc, ← List.append_assoc, run_append, List.append_assoc, hr2]
    simp only [run, step, onEnd_spectrum, emit, hf, hsp2, PState.fresh, List.append_nil, List.nil_append]
    have : (f == s1.spectrum.level) = false := by
      simp only [beq_eq_false_iff_ne, ne_eq]
      exact fun h => hl1 h.symm
    simp [this]

/-- one well-formed element, from any state the reader can be in between spectra -/
theorem elem_faithful (cfg : Config) (e : SpecEl ν) (c d : Bool) (k : Option Kind) (h : WellFormed e) :
    ∃ c' d' k', run cfg (PState.fresh c d k) e.events = .ok (PState.fresh c' d' k', (denote cfg e).toList) := by
  have hwf : e.wf = true := h
  have hcount : (e.params.filter (fun p => p.c == .msLevel)).length ≤ 1 := by
    simp only [SpecEl.wf, Bool.and_eq_true, decide_eq_true_eq] at hwf
    exact hwf.1.1.1.2
  rcases level_cases e.params hcount with hno | ⟨lv, hlv⟩
  · -- no `ms level` param: level 0
    have hnat : natOf .msLevel e.params = none := by
      simp only [natOf, lastOf_none_of_forall (isCv .msLevel) e.params (fun p hp => by simpa [isCv] using hno p hp),
        Option.map_none]
    by_cases ha : allows cfg 0 = true
    · obtain ⟨c', d', k', sp, h1, h2⟩ := elem_kept cfg e c d k hwf
        (fun p hp hc => absurd hc (hno p hp)) (by simpa [hnat] using ha)
      exact ⟨c', d', k', by rw [h1]; exact h2⟩
    · cases hf : cfg.filter with
      | none => simp [allows, hf] at ha
      | some f =>
        have hne : f ≠ 0 := by
          intro h0; apply ha; simp [allows, hf, h0]
        obtain ⟨c', d', k', h1, h2⟩ := elem_nolevel_dropped cfg e c d k f hwf hno hf hne
        exact ⟨c', d', k', by rw [h1]; exact h2⟩
  · have hlv : DeclaresLevel e lv := hlv
    have hnat := natOf_of_declares e lv hlv
    by_cases ha : allows cfg lv = true
    · obtain ⟨c', d', k', sp, h1, h2⟩ := elem_kept cfg e c d k hwf
        (fun p hp hc => by rw [hlv.2 p hp hc]; exact ha) (by simpa [hnat] using ha)
      exact ⟨c', d', k', by rw [h1]; exact h2⟩
    · cases hf : cfg.filter with
      | none => simp [allows, hf] at ha
      | some f =>
        have hne : lv ≠ f := by simpa [allows, hf] using ha
        obtain ⟨c', d', k', h1, h2⟩ := elem_dropped cfg e c d k f lv hwf hlv hf hne
        exact ⟨c', d', k', by rw [h1]; exact h2⟩

theorem doc_faithful (cfg : Config) (els : List (SpecEl ν)) (c d : Bool) (k : Option Kind)
    (h : ∀ e ∈ els, WellFormed e) :
    ∃ c' d' k', run cfg (PState.fresh c d k) (els.flatMap SpecEl.events) =
      .ok (PState.fresh c' d' k', denoteDoc cfg els) := by
  induction els generalizing c d k with
  | nil => exact ⟨c, d, k, rfl⟩
  | cons e rest ih =>
    obtain ⟨c1, d1, k1, h1⟩ := elem_faithful cfg e c d k (h e (List.mem_cons_self ..))
    obtain ⟨c2, d2, k2, h2⟩ := ih c1 d1 k1 (fun q hq => h q (List.mem_cons_of_mem _ hq))
    refine ⟨c2, d2, k2, ?_⟩
    simp only [List.flatMap_cons]
    rw [run_append, h1]
    simp only
    rw [h2]
    simp only [denoteDoc, List.filterMap_cons]
    cases denote cfg e <;> simp [Option.toList]

theorem chunksF_fuel2 (n : Nat) (hn : 0 < n) (f1 f2 : Nat) (b : List UInt8) (h1 : b.length ≤ f1)
    (h2 : b.length ≤ f2) : chunksF n f1 b = chunksF n f2 b := by
  induction f1 generalizing f2 b with
  | zero =>
    have : b = [] := List.length_eq_zero_iff.mp (by omega)
    subst this
    cases f2 <;> rfl
  | succ f1 ih =>
    cases b with
    | nil => cases f2 <;> rfl
    | cons x xs =>
      cases f2 with
      | zero => simp at h2
      | succ f2 =>
        have hl : ((x :: xs).drop n).length ≤ xs.length := by
          rw [List.length_drop]; simp only [List.length_cons]; omega
        simp only [List.length_cons] at h1 h2
        simp only [chunksF, List.isEmpty_cons, Bool.false_eq_true, if_false]
        rw [ih f2 _ (by omega) (by omega)]

theorem chunksF_fuel (n : Nat) (hn : 0 < n) (fuel : Nat) (b : List UInt8) (h : b.length ≤ fuel) :
    chunksF n fuel b = chunksF n b.length b :=
  chunksF_fuel2 n hn fuel b.length b h (Nat.le_refl _)

theorem chunks_append (n : Nat) (hn : 0 < n) (w rest : List UInt8) (hw : w.length = n) :
    chunks n (w ++ rest) = w :: chunks n rest := by
  cases w with
  | nil => simp at hw; omega
  | cons x xs =>
    simp only [chunks, List.cons_append, List.length_cons, chunksF, List.isEmpty_cons, Bool.false_eq_true, if_false]
    have h1 : (x :: (xs ++ rest)).take n = x :: xs := by
      rw [← List.cons_append, List.take_left' hw]
    have h2 : (x :: (xs ++ rest)).drop n = rest := by
      rw [← List.cons_append, List.drop_left' hw]
    rw [h1, h2]
    congr 1
    exact chunksF_fuel n hn _ rest (by simp)


/-! ### totality and error classes -/

/-- which error classes one event can raise -/
def Event.mayRaise : Event ν → List Err
  | .start .spectrum none _ => [.malformed]           -- `<spectrum>` without `id`
  | .start _ _ _ => []
  | .startBad .spectrum => [.xml]                      -- malformed entity in `id`
  | .startBad .precursor => [.xml]                     -- malformed entity in `spectrumRef`
  | .startBad _ => []
  | .cv _ _ _ => [.malformed, .float, .int]            -- missing accession / value / unit; unparsable number
  | .text _ => [.base64, .io]                          -- not base64; not a zlib stream
  | .stop _ => []
  | .empty _ => []
  | .lengthAttr _ => []

theorem step_errors (cfg : Config) (s : PState ν) (ev : Event ν) (e : Err) (h : step cfg s ev = .error e) :
    e ∈ ev.mayRaise := by
  cases ev with
  | start t id ref =>
    cases t <;> cases id <;> cases ref <;> simp_all [step, onStart, Event.mayRaise]
  | startBad t => cases t <;> simp_all [step, onStart, Event.mayRaise]
  | cv c v u =>
    have hval : ∀ x, v.float = .error x → x = Err.malformed ∨ x = Err.float := by
      intro x hx; cases v <;> simp_all [Val.float]
    have hu8 : ∀ x, v.u8 = .error x → x = Err.malformed ∨ x = Err.int := by
      intro x hx
      cases v <;> simp_all [Val.u8]
      split at hx <;> simp_all
    simp only [step] at h
    simp only [Event.mayRaise, List.mem_cons, List.not_mem_nil, or_false]
    cases hr : onCv cfg s c v u with
    | ok s' => simp [hr] at h
    | error x =>
      simp only [hr, Except.error.injEq] at h
      subst h
      unfold onCv at hr
      cases hs : s.state with
      | none => simp [hs] at hr
      | some st =>
        cases st <;> simp only [hs] at hr
        · -- spectrum
          unfold cvSpectrum at hr
          cases c <;> simp at hr <;> try (simp_all; done)
          · cases hv : v.u8 with
            | error y => rw [hv] at hr; simp at hr; subst hr; rcases hu8 y hv with h | h <;> simp [h]
            | ok n => rw [hv] at hr; simp at hr
          · cases hv : v.float with
            | error y => rw [hv] at hr; simp at hr; subst hr; rcases hval y hv with h | h <;> simp [h]
            | ok n => rw [hv] at hr; simp at hr
        · -- scan
          unfold cvScan at hr
          cases c <;> simp at hr <;> try (simp_all; done)
          all_goals
            cases hv : v.float with
            | error y => rw [hv] at hr; simp at hr; subst hr; rcases hval y hv with h | h <;> simp [h]
            | ok n => rw [hv] at hr; simp at hr; try (cases u <;> simp_all)
        · -- binaryDataArray
          unfold cvBda at hr
          cases c <;> simp_all
        · simp at hr
        · -- precursor
          unfold cvPrecursor at hr
          cases c <;> simp at hr <;> try (simp_all; done)
          all_goals
            cases hv : v.float with
            | error y => rw [hv] at hr; simp at hr; subst hr; rcases hval y hv with h | h <;> simp [h]
            | ok n => rw [hv] at hr; simp at hr
        · -- selectedIon
          unfold cvSelectedIon at hr
          cases c <;> simp at hr <;> try (simp_all; done)
          · cases hv : v.float with
            | error y => rw [hv] at hr; simp at hr; subst hr; rcases hval y hv with h | h <;> simp [h]
            | ok n => rw [hv] at hr; simp at hr
          · cases hv : v.float with
            | error y => rw [hv] at hr; simp at hr; subst hr; rcases hval y hv with h | h <;> simp [h]
            | ok n => rw [hv] at hr; simp at hr
          · cases hv : v.u8 with
            | error y => rw [hv] at hr; simp at hr; subst hr; rcases hu8 y hv with h | h <;> simp [h]
            | ok n => rw [hv] at hr; simp at hr
          · cases hv : v.float with
            | error y => rw [hv] at hr; simp at hr; subst hr; rcases hval y hv with h | h <;> simp [h]
            | ok n => rw [hv] at hr; simp at hr
  | text p =>
    simp only [step] at h
    simp only [Event.mayRaise, List.mem_cons, List.not_mem_nil, or_false]
    cases hr : onText cfg s p with
    | ok s' => simp [hr] at h
    | error x =>
      simp only [hr, Except.error.injEq] at h
      subst h
      by_cases h1 : s.state = some .binary
      · cases hk : s.kind <;> cases p <;> simp only [onText, h1, hk] at hr <;>
          (repeat' (split at hr)) <;> simp_all
      · simp [onText, h1] at hr
  | stop t => simp [step] at h
  | empty t => simp [step] at h
  | lengthAttr t => simp [step] at h

theorem run_error_source (cfg : Config) (s : PState ν) (evs : List (Event ν)) (e : Err)
    (h : run cfg s evs = .error e) : ∃ ev ∈ evs, e ∈ ev.mayRaise := by
  induction evs generalizing s with
  | nil => simp [run] at h
  | cons ev rest ih =>
    simp only [run] at h
    cases hs : step cfg s ev with
    | error x =>
      simp only [hs, Except.error.injEq] at h
      subst h
      exact ⟨ev, List.mem_cons_self .., step_errors cfg s ev x hs⟩
    | ok r =>
      obtain ⟨s1, o1⟩ := r
      simp only [hs] at h
      cases hr : run cfg s1 rest with
      | error x =>
        simp only [hr, Except.error.injEq] at h
        subst h
        obtain ⟨ev', hm, he⟩ := ih s1 hr
        exact ⟨ev', List.mem_cons_of_mem _ hm, he⟩
      | ok r2 => simp [hr] at h

/-! ### children in any order (no level filter) -/

/-- a child of `<spectrum>`; a `SpecElU` lists them in document order, whatever it is -/
inductive Child (ν : Type)
  | param (p : Param ν)
  | scan (ps : List (Param ν))
  | prec (p : PrecEl ν)
  | arr (a : ArrEl ν)

structure SpecElU (ν : Type) where
  id : String
  children : List (Child ν)

def Child.events : Child ν → List (Event ν)
  | .param p => [p.ev]
  | .scan ps => scanEvents ps
  | .prec p => p.events
  | .arr a => a.events

def SpecElU.events (e : SpecElU ν) : List (Event ν) :=
  .start .spectrum (some e.id) none :: (e.children.flatMap Child.events ++ [.stop .spectrum])

def Child.wf : Child ν → Bool
  | .param p => p.okSpectrum
  | .scan ps => ps.all Param.okScan
  | .prec p => p.wf
  | .arr a => a.wf

/-- what has been read of the element so far: the spectrum, its noise array, and the ion mobility a
    `<scan>` announced for the next `<precursor>` -/
structure Acc (ν : Type) where
  spectrum : Spectrum ν
  noise : List ν
  pendingMob : Option ν

/-- reading one more child: every field is "last one wins", precursors are appended, a scan's ion
    mobility waits for the next precursor -/
def Acc.step (a : Acc ν) : Child ν → Acc ν
  | .param p =>
    { a with spectrum := { a.spectrum with
        level := if isCv .msLevel p.c then p.v.natD else a.spectrum.level
        centroid := if isRepr p.c then p.c == .centroid else a.spectrum.centroid
        tic := if isCv .tic p.c then p.v.fltD else a.spectrum.tic } }
  | .scan ps =>
    { a with
      spectrum := { a.spectrum with
        startTime := ((lastOf (isCv .scanStart) ps).map Param.startVal).getD a.spectrum.startTime
        injection := ((lastOf (isCv .injectionTime) ps).map (fun p => p.v.fltD)).getD a.spectrum.injection }
      pendingMob := ((lastOf (isCv .invMobility) ps).map (fun p => p.v.fltD)).or a.pendingMob }
  | .prec p =>
    { a with
      spectrum := { a.spectrum with precursors := a.spectrum.precursors ++ (denotePrec a.pendingMob p).toList }
      pendingMob := none }
  | .arr x =>
    { a with
      spectrum := { a.spectrum with
        mz := if x.kind == some .mz then x.values.getD a.spectrum.mz else a.spectrum.mz
        intensity := if x.kind == some .intensity then x.values.getD a.spectrum.intensity else a.spectrum.intensity }
      noise := if x.kind == some .noise then x.values.getD a.noise else a.noise }

/-- the reading of an element whose children come in any order (no level filter): a left fold -/
def readingU (cfg : Config) (e : SpecElU ν) : Spectrum ν :=
  let a := e.children.foldl Acc.step ⟨{ (Spectrum.blank : Spectrum ν) with id := e.id }, [], none⟩
  { a.spectrum with
    intensity := if cfg.sn == some a.spectrum.level && !a.noise.isEmpty then zipDiv a.spectrum.intensity a.noise
                 else a.spectrum.intensity }

/-- the parser state that corresponds to an accumulator, between two children -/
def Acc.toState (a : Acc ν) (c d : Bool) (k : Option Kind) : PState ν :=
  ⟨some .spectrum, c, d, k, a.spectrum, { (Precursor.blank : Precursor ν) with mobility := a.pendingMob }, none, none, a.noise⟩

theorem child_run (cfg : Config) (hf : cfg.filter = none) (ch : Child ν) (a : Acc ν) (c d : Bool) (k : Option Kind)
    (hwf : ch.wf = true) :
    ∃ c' d' k', run cfg (a.toState c d k) ch.events = .ok ((a.step ch).toState c' d' k', []) := by
  have hal : ∀ lv, allows cfg lv = true := by intro lv; simp [allows, hf]
  cases ch with
  | param p =>
    simp only [Child.wf] at hwf
    refine ⟨c, d, k, ?_⟩
    simp only [Child.events, run, Param.ev, step, onCv, Acc.toState,
      cvSpectrum_ok cfg _ p hwf (fun _ => hal _)]
    rfl
  | scan ps =>
    simp only [Child.wf, List.all_eq_true] at hwf
    refine ⟨c, d, k, ?_⟩
    simp only [Child.events]
    rw [run_scanEvents cfg ps _ rfl hwf]
    rfl
  | prec p =>
    simp only [Child.wf] at hwf
    refine ⟨c, d, k, ?_⟩
    simp only [Child.events]
    rw [run_prec cfg p _ a.pendingMob rfl hwf rfl rfl rfl]
    rfl
  | arr x =>
    simp only [Child.wf] at hwf
    obtain ⟨k1, h1⟩ := run_arr cfg x (a.toState c d k) rfl hwf (hal _)
    refine ⟨x.zlib, x.is64, k1, ?_⟩
    simp only [Child.events]
    rw [h1]
    rfl

theorem children_run (cfg : Config) (hf : cfg.filter = none) (chs : List (Child ν)) (a : Acc ν) (c d : Bool)
    (k : Option Kind) (hwf : ∀ ch ∈ chs, ch.wf = true) :
    ∃ c' d' k', run cfg (a.toState c d k) (chs.flatMap Child.events) =
      .ok ((chs.foldl Acc.step a).toState c' d' k', []) := by
  induction chs generalizing a c d k with
  | nil => exact ⟨c, d, k, rfl⟩
  | cons ch rest ih =>
    obtain ⟨c1, d1, k1, h1⟩ := child_run cfg hf ch a c d k (hwf ch (List.mem_cons_self ..))
    obtain ⟨c2, d2, k2, h2⟩ := ih (a.step ch) c1 d1 k1 (fun q hq => hwf q (List.mem_cons_of_mem _ hq))
    refine ⟨c2, d2, k2, ?_⟩
    simp only [List.flatMap_cons, List.foldl_cons]
    rw [run_append, h1]
    simp only
    rw [h2]
    rfl

/-! ## property theorems -/

/-- **C16.decode_total** — the array decoder is total and yields exactly `⌊len/4⌋` (32-bit) resp.
`⌊len/8⌋` (64-bit) values for a payload of `len` bytes, whatever the bytes: a ragged tail is
dropped, never read out of bounds (the repaired 64-bit panic). -/
theorem decode_total (b : List UInt8) :
    (decode32 (ν := ν) b).length = b.length / 4 ∧ (decode64 (ν := ν) b).length = b.length / 8 := by
  constructor
  · simp only [decode32, chunks, List.length_map]
    exact chunksF_count 4 (by decide) _ b (Nat.le_refl _)
  · simp only [decode64, chunks, List.length_map]
    exact chunksF_count 8 (by decide) _ b (Nat.le_refl _)

/-- **C16.decode_values** — the decoder reads the payload word by word: a full 4-byte (8-byte)
word in front contributes exactly its little-endian value, and what is left when fewer than a
word remains contributes nothing. Together with `decode_total` this determines every value. -/
theorem decode_values (w rest : List UInt8) :
    (w.length = 4 → decode32 (ν := ν) (w ++ rest) = ofLE32 w :: decode32 rest) ∧
    (w.length = 8 → decode64 (ν := ν) (w ++ rest) = ofLE64 w :: decode64 rest) ∧
    (w.length < 4 → decode32 (ν := ν) w = []) ∧ (w.length < 8 → decode64 (ν := ν) w = []) := by
  refine ⟨fun h => ?_, fun h => ?_, fun h => ?_, fun h => ?_⟩
  · simp [decode32, chunks_append 4 (by decide) w rest h, h]
  · simp [decode64, chunks_append 8 (by decide) w rest h, h]
  · have := (decode_total (ν := ν) w).1
    rw [Nat.div_eq_of_lt h] at this
    exact List.eq_nil_of_length_eq_zero this
  · have := (decode_total (ν := ν) w).2
    rw [Nat.div_eq_of_lt h] at this
    exact List.eq_nil_of_length_eq_zero this

instance : Num Int where
  zero := 0
  ofNat n := n
  isZero x := x == 0
  div a b := a / b
  neg a := -a
  sixty := 60
  ofLE32 b := (b.foldr (fun x acc => acc * 256 + x.toNat) 0 : Nat)
  ofLE64 b := (b.foldr (fun x acc => acc * 256 + x.toNat) 0 : Nat)

/-- non-vacuity of `decode_values`: a full word in front of a ragged rest -/
example : decode32 (ν := Int) ([1, 0, 0, 0] ++ [2, 0, 0, 0, 9]) = ofLE32 [1, 0, 0, 0] :: decode32 [2, 0, 0, 0, 9] :=
  (decode_values _ _).1 rfl

/-- non-vacuity: a 10-byte payload (the input that used to panic) decodes to 2 resp. 1 values -/
example : decode32 (ν := Int) [1, 0, 0, 0, 2, 0, 0, 0, 9, 9] = [1, 2] ∧
    decode64 (ν := Int) [1, 0, 0, 0, 0, 0, 0, 0, 9, 9] = [1] := by decide

/-- **C16.end_spectrum_resets** — whatever the parser state, after `</spectrum>` every loop-carried
local is back to its initial value, except the three array-declaration flags (`compression`,
`binary_dtype`, `binary_array`), which every well-formed `<binaryDataArray>` re-declares. -/
theorem end_spectrum_resets (cfg : Config) (s : PState ν) :
    (onEnd cfg s .spectrum).1 = PState.fresh s.compression s.dtype64 s.kind := by
  unfold onEnd PState.fresh
  cases h : s.state with
  | none => rfl
  | some st => cases st <;> rfl

/-- non-vacuity: a state full of leftovers is wiped -/
example : (onEnd {} (⟨some .precursor, true, false, some .mz,
      ⟨"x", 2, true, 5, 6, 7, [], [1], [2]⟩, ⟨500, some 1, some 2, some "r", none, some 3⟩,
      some 1, some 2, [4, 5]⟩ : PState Int) .spectrum).1 = PState.fresh true false (some .mz) := by decide

/-- **C16.locality_state** — what the parser does with the events `e` that follow a `</spectrum>`
depends on everything before it (`pre`, arbitrary events, well-formed or not) only through the three
array-declaration flags: the spectra already emitted stay as they are, and the rest of the run is the
run of `e` from the fresh state carrying those flags. -/
theorem locality_state (cfg : Config) (pre e : List (Event ν)) (s : PState ν) (out : List (Spectrum ν))
    (h : run cfg PState.init (pre ++ [.stop .spectrum]) = .ok (s, out)) :
    s = PState.fresh s.compression s.dtype64 s.kind ∧
    run cfg PState.init (pre ++ [.stop .spectrum] ++ e) =
      match run cfg (PState.fresh s.compression s.dtype64 s.kind) e with
      | .error x => .error x
      | .ok (s', o) => .ok (s', out ++ o) := by
  have hs : s = PState.fresh s.compression s.dtype64 s.kind := by
    rw [run_append] at h
    cases h1 : run cfg PState.init pre with
    | error x => simp [h1] at h
    | ok r =>
      obtain ⟨s1, o1⟩ := r
      simp only [h1, run, step] at h
      have hr := end_spectrum_resets cfg s1
      cases h2 : onEnd cfg s1 .spectrum with
      | mk s2 o2 =>
        rw [h2] at h hr
        simp only [Except.ok.injEq, Prod.mk.injEq] at h
        obtain ⟨rfl, _⟩ := h
        simp only at hr
        rw [hr]
        simp [PState.fresh]
  refine ⟨hs, ?_⟩
  rw [run_append, h]
  simp only
  rw [← hs]

/-- non-vacuity: the hypothesis is met by a document whose first spectrum leaves a zlib/32-bit declaration behind -/
example : (run (ν := Int) {} PState.init
    ([.start .spectrum (some "a") none, .start .binaryDataArray none none, .cv .zlib .absent .absent,
      .cv .f32 .absent .absent, .stop .binaryDataArray] ++ [.stop .spectrum])).toOption.map
      (fun r => (r.1.compression, r.2.length)) = some (true, 1) := by decide

/-- **C16.run_strip** — elements the reader does not know (`scanList`, `isolationWindow`, `mzML`, …)
and empty elements other than cvParam (`userParam`, …) never change the outcome, wherever they
occur: a document may be compared with its skeleton `strip doc`. -/
theorem run_strip (cfg : Config) (s : PState ν) (evs : List (Event ν)) :
    run cfg s evs = run cfg s (strip evs) := by
  induction evs generalizing s with
  | nil => rfl
  | cons e es ih =>
    by_cases hi : e.inert = true
    · have : strip (e :: es) = strip es := by simp [strip, hi]
      rw [this, ← ih s]
      simp only [run, step_inert cfg s e hi, Option.toList, List.nil_append]
      cases run cfg s es with
      | error x => rfl
      | ok r => rfl
    · have : strip (e :: es) = e :: strip es := by simp [strip, hi]
      rw [this]
      simp only [run]
      cases step cfg s e with
      | error x => rfl
      | ok r => obtain ⟨s1, o1⟩ := r; simp only [ih s1]

/-- non-vacuity: wrappers and userParams around a real element -/
example : strip (ν := Int) [.start (.other 0) none none, .start .scan none none, .empty (.other 3),
    .cv .scanStart (.nat 90) .seconds, .stop .scan, .stop (.other 0)] =
    [.start .scan none none, .cv .scanStart (.nat 90) .seconds, .stop .scan] := by decide

/-- an event that only carries array-length attribute text -/
def Event.isLengthAttr : Event ν → Bool
  | .lengthAttr _ => true
  | _ => false

/-- **C16.length_attrs_ignored** — the `defaultArrayLength`, `arrayLength` and `encodedLength`
attributes play no part: whatever text they carry (correct, 0, off by some, 18446744073709551615,
negative, not a number) and wherever they occur, the outcome is the one for the document without
them. In particular no buffer is sized from them, so a hostile value cannot make the reader fail. -/
theorem length_attrs_ignored (cfg : Config) (s : PState ν) (evs : List (Event ν)) :
    run cfg s evs = run cfg s (evs.filter (fun e => !e.isLengthAttr)) := by
  induction evs generalizing s with
  | nil => rfl
  | cons e es ih =>
    by_cases hi : e.isLengthAttr = true
    · have hf : (e :: es).filter (fun e => !e.isLengthAttr) = es.filter (fun e => !e.isLengthAttr) := by simp [hi]
      have hstep : step cfg s e = .ok (s, none) := by
        cases e <;> simp [Event.isLengthAttr] at hi
        rfl
      rw [hf, ← ih s]
      simp only [run, hstep, Option.toList, List.nil_append]
      cases run cfg s es with
      | error x => rfl
      | ok r => rfl
    · have hf : (e :: es).filter (fun e => !e.isLengthAttr) = e :: es.filter (fun e => !e.isLengthAttr) := by
        simp [hi]
      rw [hf]
      simp only [run]
      cases step cfg s e with
      | error x => rfl
      | ok r => obtain ⟨s1, o1⟩ := r; simp only [ih s1]

/-- non-vacuity: a hostile `defaultArrayLength` in front of a spectrum with a one-value m/z array -/
example : (parse (ν := Int) {} [.lengthAttr "18446744073709551615", .start .spectrum (some "a") none,
      .lengthAttr "-1", .start .binaryDataArray none none, .cv .mzArray .absent .absent, .cv .f32 .absent .absent,
      .cv .noCompression .absent .absent, .start .binary none none, .text (.data [7, 0, 0, 0] none), .stop .binary,
      .stop .binaryDataArray, .stop .spectrum]).toOption =
    some [⟨"a", 0, false, 0, 0, 0, [], [7], []⟩] := by decide

/-- the model's reading of base64 (what base64 0.13 `decode` does; every line was observed on the
crate and is re-checked against it by the correspondence run): padding optional or partial, stray
bits / bad lengths / `=` in the wrong place / white space / foreign characters rejected -/
example :
    b64decode [81, 85, 74, 68] = some [65, 66, 67] ∧  -- 'QUJD'
    b64decode [81, 85, 73, 61] = some [65, 66] ∧  -- 'QUI='
    b64decode [81, 85, 73] = some [65, 66] ∧  -- 'QUI'
    b64decode [81, 81, 61, 61] = some [65] ∧  -- 'QQ=='
    b64decode [81, 81, 61] = some [65] ∧  -- 'QQ='
    b64decode [81, 81] = some [65] ∧  -- 'QQ'
    b64decode [81, 85, 74, 68, 82, 65] = some [65, 66, 67, 68] ∧  -- 'QUJDRA'
    b64decode [81, 85, 74, 68, 82, 85, 89] = some [65, 66, 67, 69, 70] ∧  -- 'QUJDRUY'
    b64decode [] = some [] ∧  -- ''
    b64decode [81] = none ∧  -- 'Q'
    b64decode [81, 85, 74, 68, 82] = none ∧  -- 'QUJDR'
    b64decode [81, 85, 74] = none ∧  -- 'QUJ'
    b64decode [81, 82, 61, 61] = none ∧  -- 'QR=='
    b64decode [61] = none ∧  -- '='
    b64decode [61, 61] = none ∧  -- '=='
    b64decode [81, 85, 74, 68, 61] = none ∧  -- 'QUJD='
    b64decode [81, 85, 74, 68, 61, 61] = none ∧  -- 'QUJD=='
    b64decode [81, 61, 61, 61] = none ∧  -- 'Q==='
    b64decode [81, 85, 61, 68] = none ∧  -- 'QU=D'
    b64decode [32, 81, 85, 74, 68] = none ∧  -- ' QUJD'
    b64decode [81, 85, 32, 74, 68] = none ∧  -- 'QU JD'
    b64decode [81, 85, 74, 68, 10] = none ∧  -- 'QUJD\n'
    b64decode [81, 85, 74, 42] = none :=  -- 'QUJ*'
  by decide

/-- **C16.unpadded_payload_decodes** — a payload that lost its `=` padding is still a payload: the
unpadded text of the 4 bytes `01 00 00 00` (`AQAAAA==`, `AQAAAA=`, `AQAAAA`) decodes to the same
value as the padded one (and a document carrying it is well-formed, so `faithful` applies), a text
cut one character further (`AQAAA`) is an error value, one cut by two (`AQAA`) is a 3-byte payload
with no complete word — never a crash. -/
theorem unpadded_payload_decodes :
    let inflate : List UInt8 → Option (List UInt8) := fun _ => none
    Payload.ofText [65, 81, 65, 65, 65, 65, 61, 61] inflate = .data [1, 0, 0, 0] none ∧
    Payload.ofText [65, 81, 65, 65, 65, 65, 61] inflate = .data [1, 0, 0, 0] none ∧
    Payload.ofText [65, 81, 65, 65, 65, 65] inflate = .data [1, 0, 0, 0] none ∧
    Payload.ofText [65, 81, 65, 65, 65] inflate = .badB64 ∧
    Payload.ofText [65, 81, 65, 65] inflate = .data [1, 0, 0] none ∧
    decode32 (ν := Int) [1, 0, 0] = [] ∧
    Payload.ofText [] inflate = .empty := by decide

/-- **C16.parse_total** — the model's `parse` is a total function: for EVERY event list (any events,
any order, any nesting) it returns either a list of spectra or one of six error values
(`malformed`, `float`, `int`, `base64`, `io`, `xml`), and an error is always attributable to one
event of the document that can raise exactly that class (`Event.mayRaise`: `<spectrum>` without id →
malformed; malformed entity in id / spectrumRef → xml; cvParam → malformed / float / int; binary text →
base64 / io; end tags and other empty elements never fail). There is no third outcome: the model has
no partial operation (no indexing, no unwrap, no unbounded loop). That the Rust function has no other
outcome either — no panic, no hang — is what the differential run observes. -/
theorem parse_total (cfg : Config) (doc : List (Event ν)) :
    (∃ sps, parse cfg doc = .ok sps) ∨
    (∃ e, parse cfg doc = .error e ∧ ∃ ev ∈ doc, e ∈ ev.mayRaise) := by
  unfold parse
  cases h : run cfg PState.init doc with
  | ok r => exact Or.inl ⟨r.2, rfl⟩
  | error e => exact Or.inr ⟨e, rfl, run_error_source cfg _ doc e h⟩

/-- non-vacuity: both outcomes occur; the error is the unit-less scan start time's `malformed` -/
example : (parse (ν := Int) {} [.start .spectrum (some "a") none, .stop .spectrum]).toOption.map List.length = some 1 ∧
    (match parse (ν := Int) {} [.start .spectrum (some "a") none, .start .scan none none,
        .cv .scanStart (.nat 5) .absent] with | .error .malformed => true | _ => false) = true := by decide

/-- **C16.faithful** — a document made of well-formed spectrum elements parses to exactly one
spectrum per element that passes the MS-level filter, in document order, and each is `denote e`:
the element's own id, MS level, centroid/profile flag, TIC, start time (seconds ÷ 60, minutes as
is), injection time, the decoded m/z and intensity arrays (the last declared array of each kind;
intensities divided by the element's own noise array when S/N is requested for its level), and
one precursor per `<precursor>` with a non-zero selected-ion m/z carrying its own m/z, intensity,
charge, spectrumRef, isolation window `Da(-lower, upper)` and ion mobility (its own, else — for the
first precursor only — the one announced in the element's `<scan>`). Never an error.
No side condition on the total ion current (see `tic_zero_read_as_encoded`). -/
theorem faithful (cfg : Config) (els : List (SpecEl ν)) (h : ∀ e ∈ els, WellFormed e) :
    parse cfg (els.flatMap SpecEl.events) = .ok (denoteDoc cfg els) := by
  obtain ⟨c, d, k, hr⟩ := doc_faithful cfg els false true none h
  simp only [parse, PState.init, hr]

/-- **C16.faithful_splice** — document-level locality of well-formed documents, for every configuration and
every pair of element lists of any length: the spectra of a concatenated document are the concatenation of the
spectra of its parts, and inserting (or, read right to left, removing) one well-formed element `e` anywhere
adds (removes) exactly `denote cfg e` at that position and changes no other spectrum. -/
theorem faithful_splice (cfg : Config) (a b : List (SpecEl ν)) (e : SpecEl ν)
    (ha : ∀ x ∈ a, WellFormed x) (hb : ∀ x ∈ b, WellFormed x) (he : WellFormed e) :
    parse cfg ((a ++ b).flatMap SpecEl.events) = .ok (denoteDoc cfg a ++ denoteDoc cfg b) ∧
    parse cfg ((a ++ e :: b).flatMap SpecEl.events) =
      .ok (denoteDoc cfg a ++ (denote cfg e).toList ++ denoteDoc cfg b) := by
  constructor
  · rw [faithful cfg (a ++ b) (fun x hx => (List.mem_append.mp hx).elim (ha x) (hb x))]
    simp [denoteDoc, List.filterMap_append]
  · rw [faithful cfg (a ++ e :: b) (fun x hx => by
      rcases List.mem_append.mp hx with h | h
      · exact ha x h
      · rcases List.mem_cons.mp h with h | h
        · exact h ▸ he
        · exact hb x h)]
    cases hd : denote cfg e <;> simp [denoteDoc, List.filterMap_append, hd]

/-- **C16.locality** — after ANY event prefix `pre` (well-formed or not, as long as the reader got
through it) that ends a spectrum, the spectrum emitted for a well-formed element `e` is `denote e`,
which is a function of `e` and the configuration alone: nothing read before `e` reaches it. -/
theorem locality (cfg : Config) (pre : List (Event ν)) (e : SpecEl ν) (s : PState ν) (out : List (Spectrum ν))
    (hpre : run cfg PState.init (pre ++ [.stop .spectrum]) = .ok (s, out)) (hwf : WellFormed e) :
    ∃ s', run cfg PState.init (pre ++ [.stop .spectrum] ++ e.events) = .ok (s', out ++ (denote cfg e).toList) ∧
      parse cfg e.events = .ok (denote cfg e).toList := by
  obtain ⟨_, hrun⟩ := locality_state cfg pre e.events s out hpre
  obtain ⟨c', d', k', h1⟩ := elem_faithful cfg e s.compression s.dtype64 s.kind hwf
  obtain ⟨c2, d2, k2, h2⟩ := elem_faithful cfg e false true none hwf
  refine ⟨PState.fresh c' d' k', ?_, ?_⟩
  · rw [hrun, h1]
  · simp only [parse, PState.init, h2]

/-- a rich MS2 element (scan with mobility, isolation window, 32-bit zlib-declared m/z array) … -/
def exRich : SpecEl Int :=
  { id := "scan=1"
    params := [⟨.centroid, .absent, .absent⟩, ⟨.msLevel, .nat 2, .absent⟩, ⟨.tic, .nat 793, .absent⟩]
    scans := [[⟨.scanStart, .nat 120, .seconds⟩, ⟨.invMobility, .nat 7, .absent⟩]]
    precs := [{ ref := some "scan=0", iso := [⟨.isoLower, .nat 3, .absent⟩, ⟨.isoUpper, .nat 1, .absent⟩],
                ions := [[⟨.selMz, .nat 457, .absent⟩, ⟨.selCharge, .nat 2, .absent⟩]], act := [⟨.other, .absent, .absent⟩] }]
    arrays := [{ params := [⟨.mzArray, .absent, .absent⟩, ⟨.f32, .absent, .absent⟩, ⟨.zlib, .absent, .absent⟩],
                 payload := .data [9, 9, 9] (some [1, 0, 0, 0, 2, 0, 0, 0]) },
               { params := [⟨.intensityArray, .absent, .absent⟩, ⟨.f64, .absent, .absent⟩, ⟨.noCompression, .absent, .absent⟩],
                 payload := .data [5, 0, 0, 0, 0, 0, 0, 0, 6, 0, 0, 0, 0, 0, 0, 0, 1] none }] }

/-- … followed by a bare one with a precursor that declares nothing but its m/z -/
def exBare : SpecEl Int :=
  { id := "scan=2", params := [⟨.msLevel, .nat 2, .absent⟩], scans := [],
    precs := [{ ref := none, iso := [], ions := [[⟨.selMz, .nat 500, .absent⟩]], act := [] }], arrays := [] }


theorem exRich_wf : WellFormed exRich := (by decide : exRich.wf = true)
theorem exBare_wf : WellFormed exBare := (by decide : exBare.wf = true)

/-- non-vacuity of `faithful` / `locality`: the hypotheses hold for a rich element followed by a
bare one, and the bare one's spectrum shows none of the rich one's fields -/
example : denoteDoc (ν := Int) {} [exRich, exBare] =
    [⟨"scan=1", 2, true, 793, 2, 0, [⟨457, none, some 2, some "scan=0", some (-3, 1), some 7⟩], [1, 2], [5, 6]⟩,
     ⟨"scan=2", 2, false, 0, 0, 0, [⟨500, none, none, none, none, none⟩], [], []⟩] := by decide

example : parse (ν := Int) {} ([exRich, exBare].flatMap SpecEl.events) = .ok (denoteDoc {} [exRich, exBare]) :=
  faithful {} _ (by
    intro e he
    simp at he
    rcases he with rfl | rfl
    · exact exRich_wf
    · exact exBare_wf)

/-- the level filter removes the element, S/N at another level leaves it alone -/
example : denoteDoc (ν := Int) { filter := some 1 } [exRich, exBare] = [] := by decide

/-- the MS level an element declares (0 when it declares none, as in the code) -/
def levelOf (e : SpecEl ν) : Nat := (natOf .msLevel e.params).getD 0

theorem denote_filter (cfg : Config) (l : Nat) (e : SpecEl ν) :
    denote { cfg with filter := some l } e =
      if levelOf e = l then denote { cfg with filter := none } e else none := by
  simp only [denote, levelOf, reading]
  by_cases h : (natOf Cv.msLevel e.params).getD 0 = l <;> simp [h]

/-- **C16.level_filter** — with the MS-level filter set to `l`, a well-formed document parses to
exactly the readings (taken WITHOUT a filter) of the elements whose declared level is `l`, in
document order: the filter removes whole spectra and changes nothing else. -/
theorem level_filter (cfg : Config) (l : Nat) (els : List (SpecEl ν)) (h : ∀ e ∈ els, WellFormed e) :
    parse { cfg with filter := some l } (els.flatMap SpecEl.events) =
      .ok (denoteDoc { cfg with filter := none } (els.filter (fun e => levelOf e == l))) := by
  rw [faithful _ els h]
  congr 1
  induction els with
  | nil => rfl
  | cons e rest ih =>
    have ih' := ih (fun q hq => h q (List.mem_cons_of_mem _ hq))
    simp only [denoteDoc, List.filterMap_cons, List.filter_cons, denote_filter] at ih' ⊢
    by_cases hl : levelOf e = l
    · simp only [hl, if_true, beq_self_eq_true, List.filterMap_cons]
      cases denote { cfg with filter := none } e <;> simp [ih']
    · have : (levelOf e == l) = false := by simpa using hl
      simp only [hl, if_false, this, Bool.false_eq_true]
      exact ih'

/-- non-vacuity: an MS1 element between two MS2 elements; filter 2 keeps the MS2 ones, in order -/
def exMs1 : SpecEl Int :=
  { id := "ms1", params := [⟨.msLevel, .nat 1, .absent⟩], scans := [[⟨.invMobility, .nat 9, .absent⟩]], precs := [],
    arrays := [] }
theorem exMs1_wf : WellFormed exMs1 := (by decide : exMs1.wf = true)

example : (parse (ν := Int) { filter := some 2 } ([exRich, exMs1, exBare].flatMap SpecEl.events)).toOption.map
    (fun sps => sps.map (·.id)) = some ["scan=1", "scan=2"] := by decide

theorem zipDiv_length (xs ns : List ν) : (zipDiv xs ns).length = xs.length := by
  induction xs generalizing ns with
  | nil => cases ns <;> rfl
  | cons x xs ih => cases ns <;> simp [zipDiv, ih]

theorem zipDiv_get (xs ns : List ν) (i : Nat) :
    (zipDiv xs ns)[i]? =
      match xs[i]?, ns[i]? with
      | some x, some n => some (div x n)
      | some x, none => some x
      | none, _ => none := by
  induction xs generalizing ns i with
  | nil => cases ns <;> simp [zipDiv]
  | cons x xs ih =>
    cases ns with
    | nil => simp only [zipDiv, List.getElem?_nil]; cases (x :: xs)[i]? <;> rfl
    | cons n ns =>
      cases i with
      | zero => simp [zipDiv]
      | succ i => simp only [zipDiv, List.getElem?_cons_succ]; exact ih ns i

/-- **C16.signal_to_noise** — the intensities of the spectrum read from an element are the element's
own intensity array, divided POINTWISE by the element's own noise array exactly when S/N is requested
for the element's level and that noise array is non-empty: value `i` becomes `intensity[i] / noise[i]`
where the noise array has an `i`-th value and stays `intensity[i]` beyond its end; the length never
changes; in every other case the intensities are returned as encoded. The m/z array is never touched.
(Nothing but `e` enters: by `locality` this is also what the reader returns after any prefix.) -/
theorem signal_to_noise (cfg : Config) (e : SpecEl ν) (sp : Spectrum ν) (h : denote cfg e = some sp) :
    sp.mz = arrayOf .mz e.arrays ∧
    sp.intensity.length = (arrayOf .intensity e.arrays).length ∧
    (∀ i : Nat, sp.intensity[i]? =
      if cfg.sn = some (levelOf e) ∧ arrayOf .noise e.arrays ≠ [] then
        match (arrayOf .intensity e.arrays)[i]?, (arrayOf .noise e.arrays)[i]? with
        | some x, some n => some (div x n)
        | some x, none => some x
        | none, _ => none
      else (arrayOf .intensity e.arrays)[i]?) := by
  have hsp : sp = reading cfg e := by
    unfold denote at h
    cases hf : cfg.filter with
    | none => simp [hf] at h; exact h.symm
    | some f => simp [hf] at h; exact h.2.symm
  subst hsp
  refine ⟨rfl, ?_⟩
  simp only [reading]
  by_cases hc : cfg.sn = some (levelOf e) ∧ arrayOf Kind.noise e.arrays ≠ []
  · have hc' : cfg.sn = some ((natOf Cv.msLevel e.params).getD 0) ∧ arrayOf Kind.noise e.arrays ≠ [] := hc
    have hb : (cfg.sn == some ((natOf Cv.msLevel e.params).getD 0) && !(arrayOf Kind.noise e.arrays).isEmpty) = true := by
      simp [hc'.1, hc'.2]
    simp only [hb, if_true]
    refine ⟨zipDiv_length _ _, fun i => ?_⟩
    rw [if_pos hc, zipDiv_get]
  · have hb : (cfg.sn == some ((natOf Cv.msLevel e.params).getD 0) && !(arrayOf Kind.noise e.arrays).isEmpty) = false := by
      rw [Bool.eq_false_iff]
      intro hb
      simp only [Bool.and_eq_true, beq_iff_eq, Bool.not_eq_true', List.isEmpty_eq_false_iff] at hb
      exact hc ⟨hb.1, hb.2⟩
    simp only [hb, Bool.false_eq_true, if_false]
    refine ⟨trivial, fun i => ?_⟩
    rw [if_neg hc]

/-- non-vacuity: noise `[4, 0]` against intensities `[8, 10, 3]` at the requested level -/
def exNoise : SpecEl Int :=
  { id := "n", params := [⟨.msLevel, .nat 2, .absent⟩], scans := [], precs := [],
    arrays := [{ params := [⟨.intensityArray, .absent, .absent⟩, ⟨.f32, .absent, .absent⟩, ⟨.noCompression, .absent, .absent⟩],
                 payload := .data [8, 0, 0, 0, 10, 0, 0, 0, 3, 0, 0, 0] none },
               { params := [⟨.noiseArray, .absent, .absent⟩, ⟨.f32, .absent, .absent⟩, ⟨.noCompression, .absent, .absent⟩],
                 payload := .data [4, 0, 0, 0, 2, 0, 0, 0] none }] }

example : (denote (ν := Int) { sn := some 2 } exNoise).map (·.intensity) = some [2, 5, 3] ∧
    (denote (ν := Int) { sn := some 3 } exNoise).map (·.intensity) = some [8, 10, 3] := by decide

/-- non-vacuity of the extension to elements WITHOUT an `ms level` param: such an element is
well-formed; it reads as level 0 and only a filter on level 0 (or none) lets it through -/
def exNoLevel : SpecEl Int :=
  { id := "nolevel", params := [⟨.centroid, .absent, .absent⟩], scans := [[⟨.scanStart, .nat 3, .minutes⟩]], precs := [],
    arrays := [{ params := [⟨.mzArray, .absent, .absent⟩, ⟨.f32, .absent, .absent⟩, ⟨.noCompression, .absent, .absent⟩],
                 payload := .data [7, 0, 0, 0] none }] }
theorem exNoLevel_wf : WellFormed exNoLevel := (by decide : exNoLevel.wf = true)
example : denote (ν := Int) {} exNoLevel = some ⟨"nolevel", 0, true, 0, 3, 0, [], [7], []⟩ ∧
    denote (ν := Int) { filter := some 2 } exNoLevel = none ∧
    (parse (ν := Int) { filter := some 2 } ([exNoLevel, exBare].flatMap SpecEl.events)).toOption.map
      (fun sps => sps.map (·.id)) = some ["scan=2"] := by decide

/-- **C16.parse_sequence** — parsing a sequence of documents back to back is the map of the
single-document parse: the result for a document is a function of that document (and its
configuration) alone; it does not depend on which documents were parsed before it, nor on whether
they were parsed successfully or failed half-way (inside a zlib stream, a base64 text, an XML
entity, …). State across `parse` CALLS does not exist in the model; op `mzmlseq` checks that the
code has none either (`bad:depends_on_previous_document`). -/
theorem parse_sequence (docs : List (Config × List (Event ν))) :
    parseSeq docs = docs.map (fun d => parse d.1 d.2) ∧
    ∀ (pre post : List (Config × List (Event ν))) (d : Config × List (Event ν)),
      (parseSeq (pre ++ d :: post))[pre.length]? = some (parse d.1 d.2) := by
  have hmap : ∀ ds : List (Config × List (Event ν)), parseSeq ds = ds.map (fun d => parse d.1 d.2) := by
    intro ds
    induction ds with
    | nil => rfl
    | cons d rest ih => obtain ⟨c, e⟩ := d; simp [parseSeq, ih]
  refine ⟨hmap docs, fun pre post d => ?_⟩
  rw [hmap]
  simp

/-- non-vacuity: a document that fails inside a zlib stream (declared zlib, not inflatable), then a healthy
one: the healthy one's result is the one it has alone -/
example :
    let bad : List (Event Int) := [.start .spectrum (some "z") none, .start .binaryDataArray none none,
      .cv .mzArray .absent .absent, .cv .f32 .absent .absent, .cv .zlib .absent .absent, .start .binary none none,
      .text (.data [120, 156, 1, 2, 3] none), .stop .binary, .stop .binaryDataArray, .stop .spectrum]
    (parseSeq [({}, bad), ({}, exBare.events)]).map Except.toOption =
      [none, (parse {} exBare.events).toOption] ∧ (parse {} exBare.events).toOption.map List.length = some 1 := by
  decide

/-- **C16.faithful_unordered** — without a level filter the reader's result IS a clean function of a
well-nested element whose children (cvParams, scans, precursors, binary data arrays, each
well-formed) come in ANY order: the left fold `readingU` — every scalar field and every array kind
"last one wins", one precursor appended per `<precursor>` with non-zero m/z, a scan's ion mobility
handed to the next precursor only — then the S/N division. From any between-spectra state, exactly
that spectrum is emitted and the state is fresh again (so `locality` carries over verbatim). With a
level filter this fails: see `child_order_matters`. -/
theorem faithful_unordered (cfg : Config) (hf : cfg.filter = none) (e : SpecElU ν) (c d : Bool) (k : Option Kind)
    (hwf : ∀ ch ∈ e.children, ch.wf = true) :
    ∃ c' d' k', run cfg (PState.fresh c d k) e.events = .ok (PState.fresh c' d' k', [readingU cfg e]) := by
  obtain ⟨c', d', k', h⟩ := children_run cfg hf e.children
    ⟨{ (Spectrum.blank : Spectrum ν) with id := e.id }, [], none⟩ c d k hwf
  refine ⟨c', d', k', ?_⟩
  simp only [SpecElU.events, run, step, onStart, transStart, PState.fresh]
  have hst : (⟨some St.spectrum, c, d, k, { (Spectrum.blank : Spectrum ν) with id := e.id }, Precursor.blank, none, none, []⟩ : PState ν)
      = Acc.toState ⟨{ (Spectrum.blank : Spectrum ν) with id := e.id }, [], none⟩ c d k := rfl
  simp only [Spectrum.blank] at hst h ⊢
  rw [hst, run_append, h]
  simp only [run, step, onEnd_spectrum, emit, hf, Acc.toState, PState.fresh, readingU, Spectrum.blank,
    List.append_nil, List.nil_append, Option.toList]
  cases hsn : cfg.sn with
  | none => simp
  | some l =>
    by_cases hl : l = (List.foldl Acc.step ⟨⟨e.id, 0, false, zero, zero, zero, [], [], []⟩, [], none⟩ e.children).spectrum.level <;>
      by_cases hn : (List.foldl Acc.step ⟨⟨e.id, 0, false, zero, zero, zero, [], [], []⟩, [], none⟩ e.children).noise = [] <;>
      simp [hl, hn]

/-- non-vacuity: arrays first, then the precursor, then the scan (whose mobility therefore reaches no
precursor), then the params -/
def exUnordered : SpecElU Int :=
  { id := "u"
    children :=
      [.arr ⟨[⟨.intensityArray, .absent, .absent⟩, ⟨.f32, .absent, .absent⟩, ⟨.noCompression, .absent, .absent⟩],
             .data [8, 0, 0, 0, 10, 0, 0, 0] none⟩,
       .prec ⟨none, [], [[⟨.selMz, .nat 500, .absent⟩]], []⟩,
       .scan [⟨.scanStart, .nat 120, .seconds⟩, ⟨.invMobility, .nat 9, .absent⟩],
       .param ⟨.msLevel, .nat 2, .absent⟩] }

example : exUnordered.children.all Child.wf = true ∧
    readingU {} exUnordered = ⟨"u", 2, false, 0, 2, 0, [⟨500, none, none, none, none, none⟩], [], [8, 10]⟩ ∧
    (parse {} exUnordered.events).toOption = some [readingU {} exUnordered] := by decide

/-- **C16.child_order_matters** — outside the schema's child order the reader's result is NOT a
function of the set of children (so `faithful` cannot be extended to arbitrary orders by sorting):
(1) with a level filter, an array that precedes the `ms level` param is skipped (the level is still 0
when its text is read), the same array after the param is kept; (2) even without a filter, a `<scan>`
that carries the ion mobility gives it to the next `<precursor>` only: placed after the precursor it
is lost. Concrete witnesses on the model (the correspondence stream `chaos` ties such orders to the
code). -/
theorem child_order_matters :
    let level : Event Int := .cv .msLevel (.nat 2) .absent
    let arr : List (Event Int) := [.start .binaryDataArray none none, .cv .mzArray .absent .absent,
      .cv .f32 .absent .absent, .cv .noCompression .absent .absent, .start .binary none none,
      .text (.data [7, 0, 0, 0] none), .stop .binary, .stop .binaryDataArray]
    let scan : List (Event Int) := [.start .scan none none, .cv .invMobility (.nat 9) .absent, .stop .scan]
    let prec : List (Event Int) := [.start .precursor none none, .start .selectedIon none none,
      .cv .selMz (.nat 500) .absent, .stop .selectedIon, .stop .precursor]
    let doc (body : List (Event Int)) := [Event.start .spectrum (some "a") none] ++ body ++ [.stop .spectrum]
    (parse { filter := some 2 } (doc (level :: arr))).toOption.map (fun sps => sps.map (·.mz)) = some [[7]] ∧
    (parse { filter := some 2 } (doc (arr ++ [level]))).toOption.map (fun sps => sps.map (·.mz)) = some [[]] ∧
    (parse {} (doc (level :: scan ++ prec))).toOption.map (fun sps => sps.map (fun sp => sp.precursors.map (·.mobility)))
      = some [[some 9]] ∧
    (parse {} (doc (level :: prec ++ scan))).toOption.map (fun sps => sps.map (fun sp => sp.precursors.map (·.mobility)))
      = some [[none]] := by decide

/-- an MS2 element whose `total ion current` is 0, with a precursor and an (empty) m/z array after it -/
def exTicZero : SpecEl Int :=
  { id := "zero", params := [⟨.msLevel, .nat 2, .absent⟩, ⟨.centroid, .absent, .absent⟩, ⟨.tic, .nat 0, .absent⟩],
    scans := [[⟨.scanStart, .nat 120, .seconds⟩]],
    precs := [{ ref := some "scan=1", iso := [], ions := [[⟨.selMz, .nat 500, .absent⟩]], act := [] }],
    arrays := [{ params := [⟨.mzArray, .absent, .absent⟩, ⟨.f32, .absent, .absent⟩, ⟨.noCompression, .absent, .absent⟩],
                 payload := .empty }] }

/-- **C16.tic_zero_read_as_encoded** — (replaces the former counter-example `tic_zero_blank_spectrum`,
which was true of the code until the repair of finding C16-tic-zero.) A `total ion current` of 0 is
an ordinary value: such an element is well-formed, so `faithful` / `locality` apply to it without any
side condition, and it is read as encoded — its own id, level, representation, scan time and
precursor, TIC 0 — not as the blank spectrum (id "", level 0) the old code returned. -/
theorem tic_zero_read_as_encoded :
    WellFormed exTicZero ∧ exTicZero.noTicZero = false ∧
    (parse {} exTicZero.events).toOption =
      some [⟨"zero", 2, true, 0, 2, 0, [⟨500, none, none, some "scan=1", none, none⟩], [], []⟩] ∧
    (parse {} exTicZero.events).toOption ≠ some [Spectrum.blank] ∧
    (parse { filter := some 2, sn := some 2 } (exBare.events ++ exTicZero.events ++ exBare.events)).toOption.map
      (fun sps => sps.map (·.id)) = some ["scan=2", "zero", "scan=2"] := by
  refine ⟨(by decide : exTicZero.wf = true), by decide, by decide, by decide, by decide⟩

end Sage.C16
