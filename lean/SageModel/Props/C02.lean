import SageModel.Model.C02
import SageModel.Props.C03
import SageModel.Props.C10
import SageModel.Props.C04
import Mathlib.Order.Defs.LinearOrder
import Mathlib.Tactic.Order
import Mathlib.Data.Prod.Lex
import Mathlib.Data.List.Perm.Basic

/-!
# C02 — Search reports the best-scoring candidates for every spectrum, ranked

Property text: *For every spectrum the reported PSMs are the highest-scoring candidates: no database peptide whose
mass lies inside the precursor window for a searched charge state and isotope offset, that is among the candidates
retained by the preliminary matched-fragment count (top 50, or 2 x report_psms if larger) and reaches
min_matched_peaks, is left out while a lower-scoring one is reported or a report slot stays empty. Reported ranks run
1..k without gaps in non-increasing hyperscore order with k <= report_psms, delta_next and delta_best are
non-negative, and every reported peptide lies inside the precursor window at its reported charge and isotope offset
with the label of its database entry. In chimeric mode the same holds for each successive PSM on the spectrum left
after removing the peaks matched by the previous ones.*

All theorems are about the model in `Model/C02.lean`, for every database, spectrum and configuration (no size bound).
The ranking theorems are stated for an ARBITRARY hyperscore type `β` with a comparison `tle` that is a total preorder
and a subtraction that maps `y ≤ x` to `0 ≤ x − y` — nothing else is assumed, so they hold for IEEE `f64` on
NaN-free scores (`total_cmp`, correctly rounded subtraction) as well as for `ℚ`/`ℤ` — and for an ARBITRARY scorer.
The candidate theorems are stated for an arbitrary `LinearOrder` on masses and an arbitrary arithmetic record `Env`
(the window edges are whatever `Tolerance::bounds` yields; rounding is not modelled).

The chain, link by link (each link is a theorem; the composition is the property):

1. `candidates_exact` — per searched (charge, isotope) window the dense preliminary vector holds exactly the
   linear-scan match count of every peptide of the precursor window (C03's `pageSearch_exact`), tagged with the
   searched charge / isotope; no out-of-bounds write, no hit lost.
2. `trim_k`, `trim_topk`, `retained_topk` — `trim_hits` keeps `min len (max 50 (2·report_psms))`; the three levels of
   trimming select a top-`K` (derived `PreScore` order) of ALL entries of ALL searched windows (C10's `heapify_topk`,
   `heapify_perm`).
3. `report_spec`, `no_better_left_out` — `build_features`: `k = min report_psms #scored`, ranks `1..k`, non-increasing
   hyperscores, `delta_best ≥ 0`, `delta_next ≥ 0` (last element: only if its hyperscore is `≥ 0` —
   `delta_next_last_negative` is the proved counterexample, a known unrepaired defect), and no retained candidate
   reaching `min_matched_peaks` is left out while a lower-scoring one is reported or a slot stays empty.
4. `reported_in_window`, `search_in_window` — every reported PSM carries a searched (charge, isotope) pair, its peptide
   mass lies in that pair's precursor window, and at least one of its indexed fragments matches.
5. `chimera_spec`, `chimeraRun_ranks`, `scoreVector_head_best` — chimeric mode: round by round the best retained
   candidate on the spectrum left after removing the previous PSMs' peaks.

6. At the level of `Scorer::score`, both modes: `search_ranks`, `search_in_window_all` (`InWindow`),
   `search_in_window_wide`, `search_chimera_rounds`, `search_chimera_best` (per-round `no_better_left_out` on the residual
   spectrum `residual (removeOn …) peaks (out.take i)`), `scored_exact` / `search_scored`, `label_spec`,
   `removeMatched_spec`, `removeMatched_only_matched` (only peaks matched under the CONFIGURED fragment-charge limit
   are removed), `removeMatched_tic`.

Not proved: the full scorer (`score_candidate` is C04's subject; the ranking theorems hold for every scorer), IEEE
rounding, and lawfulness of `f32 ==` (NaN-free data) in `removeMatched_spec`.
-/

namespace Sage.C02

open Sage.C03 (Tol Frag Q)
open Sage.C04 (Env Peak)

/-! ## helper lemmas: the stable descending sort -/

section rank
variable {β : Type} (tle : β → β → Bool)

theorem insertDesc_perm (x : Cand β) (l : List (Cand β)) : (insertDesc tle x l).Perm (x :: l) := by
  induction l with
  | nil => exact List.Perm.refl _
  | cons y ys ih =>
    unfold insertDesc
    split
    · exact List.Perm.refl _
    · exact (List.Perm.cons y ih).trans (List.Perm.swap x y ys)

theorem sortDesc_perm (l : List (Cand β)) : (sortDesc tle l).Perm l := by
  induction l with
  | nil => exact List.Perm.refl _
  | cons x xs ih =>
    show (insertDesc tle x (sortDesc tle xs)).Perm (x :: xs)
    exact (insertDesc_perm tle x _).trans (List.Perm.cons x ih)

/-- `tle` is a total preorder -/
structure TotalPre (tle : β → β → Bool) : Prop where
  total : ∀ x y, tle x y = true ∨ tle y x = true
  trans : ∀ x y z, tle x y = true → tle y z = true → tle x z = true

/-- descending: every earlier element has a hyperscore ≥ every later one -/
def Desc (l : List (Cand β)) : Prop := l.Pairwise (fun a b => tle b.hs a.hs = true)

theorem insertDesc_desc (h : TotalPre tle) (x : Cand β) (l : List (Cand β)) (hl : Desc tle l) :
    Desc tle (insertDesc tle x l) := by
  induction l with
  | nil => simp [insertDesc, Desc]
  | cons y ys ih =>
    unfold Desc at hl ⊢
    rw [List.pairwise_cons] at hl
    unfold insertDesc
    split
    · rename_i hyx
      rw [List.pairwise_cons]
      refine ⟨?_, List.pairwise_cons.mpr hl⟩
      intro b hb
      rcases List.mem_cons.mp hb with rfl | hb
      · exact hyx
      · exact h.trans _ _ _ (hl.1 b hb) hyx
    · rename_i hyx
      rw [List.pairwise_cons]
      refine ⟨?_, ih hl.2⟩
      intro b hb
      have := (insertDesc_perm tle x ys).mem_iff.mp hb
      rcases List.mem_cons.mp this with rfl | hb
      · rcases h.total y.hs b.hs with h1 | h1
        · exact absurd h1 hyx
        · exact h1
      · exact hl.1 b hb

theorem sortDesc_desc (h : TotalPre tle) (l : List (Cand β)) : Desc tle (sortDesc tle l) := by
  induction l with
  | nil => simp [sortDesc, Desc]
  | cons x xs ih => exact insertDesc_desc tle h x _ ih

theorem scoreVector_desc (h : TotalPre tle) (score : PreScore → Cand β) (m : Nat) (prelim : List PreScore) :
    Desc tle (scoreVector tle score m prelim) := sortDesc_desc tle h _

theorem mem_scoreVector (score : PreScore → Cand β) (m : Nat) (prelim : List PreScore) (c : Cand β) :
    c ∈ scoreVector tle score m prelim ↔ ∃ p ∈ prelim, 0 < p.matched ∧ c = score p ∧ m ≤ c.matched := by
  unfold scoreVector
  rw [(sortDesc_perm tle _).mem_iff]
  simp only [List.mem_filter, List.mem_map, decide_eq_true_eq, gt_iff_lt, ge_iff_le]
  constructor
  · rintro ⟨⟨p, ⟨hp, hm⟩, rfl⟩, hc⟩
    exact ⟨p, hp, hm, rfl, hc⟩
  · rintro ⟨p, hp, hm, rfl, hc⟩
    exact ⟨⟨p, ⟨hp, hm⟩, rfl⟩, hc⟩

variable (sub : β → β → β) (zero : β)

/-- the feature pushed for score-vector position `i` -/
def mkPsm (sv : List (Cand β)) (c : Cand β) (i : Nat) : Psm β :=
  { pep := c.pre.peptide, charge := c.pre.charge, iso := c.pre.iso, rank := i + 1, matched := c.matched, hs := c.hs,
    dnext := sub c.hs (match sv[i + 1]? with | some n => n.hs | none => zero),
    dbest := sub (match sv with | [] => zero | c :: _ => c.hs) c.hs }

theorem reportFrom_getElem? (sv : List (Cand β)) (r i : Nat) :
    (reportFrom sub zero sv r)[i]? = if i < r then (sv[i]?).map (fun c => mkPsm sub zero sv c i) else none := by
  unfold reportFrom
  simp only [List.getElem?_map, List.getElem?_zipIdx, List.getElem?_take, Nat.zero_add]
  by_cases h : i < r
  · simp only [h, if_true]
    cases sv[i]? with
    | none => rfl
    | some c => rfl
  · simp [h]

theorem reportFrom_length (sv : List (Cand β)) (r : Nat) : (reportFrom sub zero sv r).length = min r sv.length := by
  unfold reportFrom
  simp [List.length_take]

end rank

/-! ## helper lemmas: the order on `PreScore` -/

instance : LinearOrder PreScore :=
  LinearOrder.lift' (fun p => toLex (p.matched, toLex (p.peptide, toLex (p.charge, p.iso)))) (by
    intro a b h
    cases a; cases b
    simp only [EmbeddingLike.apply_eq_iff_eq, Prod.mk.injEq] at h
    obtain ⟨h1, h2, h3, h4⟩ := h
    subst h1 h2 h3 h4; rfl)

theorem PreScore.lt_iff' (a b : PreScore) :
    a < b ↔ a.matched < b.matched ∨ (a.matched = b.matched ∧ (a.peptide < b.peptide ∨ (a.peptide = b.peptide ∧
      (a.charge < b.charge ∨ (a.charge = b.charge ∧ a.iso < b.iso))))) := by
  show toLex (a.matched, toLex (a.peptide, toLex (a.charge, a.iso))) <
       toLex (b.matched, toLex (b.peptide, toLex (b.charge, b.iso))) ↔ _
  simp only [Prod.Lex.toLex_lt_toLex]

theorem PreScore.lt_eq (a b : PreScore) : PreScore.lt a b = decide (a < b) := by
  rw [Bool.eq_iff_iff]
  simp only [PreScore.lt, Bool.or_eq_true, Bool.and_eq_true, decide_eq_true_eq, PreScore.lt_iff']

/-- the `matched` count is monotone in the `PreScore` order (it is the most significant field) -/
theorem PreScore.matched_le_of_le {a b : PreScore} (h : a ≤ b) : a.matched ≤ b.matched := by
  rcases lt_or_eq_of_le h with h | h
  · rcases (PreScore.lt_iff' a b).mp h with h | h
    · exact Nat.le_of_lt h
    · exact Nat.le_of_eq h.1
  · subst h; exact Nat.le_refl _

/-! ## helper lemmas: the dense preliminary vector -/

/-- state of the dense preliminary vector after the hits `done` have been processed -/
structure BumpInv (lo z : Nat) (e : Int) (n : Nat) (done : List Nat) (h : Hits) : Prop where
  size : h.prelim.size = n
  mp : h.matchedPeaks = done.length
  cnt : ∀ i, i < n → ∃ sc, h.prelim[i]? = some sc ∧ sc.matched = done.count (lo + i) ∧
        (sc.matched = 0 → sc = default) ∧ (0 < sc.matched → sc.peptide = lo + i ∧ sc.charge = z ∧ sc.iso = e)

theorem bumpInv_init (lo z : Nat) (e : Int) (n : Nat) :
    BumpInv lo z e n [] { matchedPeaks := 0, scored := 0, prelim := Array.replicate n default } := by
  refine ⟨by simp, rfl, ?_⟩
  intro i hi
  refine ⟨default, by simp [hi], by simp; rfl, fun _ => rfl, ?_⟩
  intro h; exact absurd h (by decide)

theorem bumpInv_step (lo z : Nat) (e : Int) (n : Nat) (done : List Nat) (h : Hits) (p : Nat)
    (inv : BumpInv lo z e n done h) (h1 : lo ≤ p) (h2 : p - lo < n) :
    BumpInv lo z e n (done ++ [p]) (bump lo z e h p) := by
  obtain ⟨sc, hsc, hcnt, hzero, hpos⟩ := inv.cnt (p - lo) h2
  have hp : lo + (p - lo) = p := by omega
  unfold bump
  rw [if_pos h1, hsc]
  simp only
  by_cases hm : sc.matched = 0
  · rw [if_pos hm]
    refine ⟨by simp [inv.size], by simp [inv.mp], ?_⟩
    intro i hi
    by_cases hip : i = p - lo
    · subst hip
      refine ⟨{ matched := 1, peptide := p, charge := z, iso := e }, ?_, ?_, ?_, ?_⟩
      · simp [inv.size, h2]
      · rw [hp, List.count_append, ← hp, ← hcnt, hm]; simp
      · intro h; cases h
      · intro _; exact ⟨hp.symm, rfl, rfl⟩
    · obtain ⟨sc', hsc', hcnt', hzero', hpos'⟩ := inv.cnt i hi
      refine ⟨sc', ?_, ?_, hzero', hpos'⟩
      · rw [Array.getElem?_setIfInBounds]; simp [Ne.symm hip, hsc']
      · rw [hcnt', List.count_append]
        have : p ≠ lo + i := by omega
        simp [this]
  · rw [if_neg hm]
    refine ⟨by simp [inv.size], by simp [inv.mp], ?_⟩
    intro i hi
    by_cases hip : i = p - lo
    · subst hip
      refine ⟨{ sc with matched := sc.matched + 1 }, ?_, ?_, ?_, ?_⟩
      · simp [inv.size, h2]
      · rw [hp, List.count_append, ← hp, ← hcnt]; simp
      · intro h; simp at h
      · intro _; exact hpos (Nat.pos_of_ne_zero hm)
    · obtain ⟨sc', hsc', hcnt', hzero', hpos'⟩ := inv.cnt i hi
      refine ⟨sc', ?_, ?_, hzero', hpos'⟩
      · rw [Array.getElem?_setIfInBounds]; simp [Ne.symm hip, hsc']
      · rw [hcnt', List.count_append]
        have : p ≠ lo + i := by omega
        simp [this]

theorem bumpInv_fold (lo z : Nat) (e : Int) (n : Nat) : ∀ (L done : List Nat) (h : Hits),
    BumpInv lo z e n done h → (∀ p ∈ L, lo ≤ p ∧ p - lo < n) →
    BumpInv lo z e n (done ++ L) (L.foldl (bump lo z e) h) := by
  intro L
  induction L with
  | nil => intro done h inv _; simpa using inv
  | cons p ps ih =>
    intro done h inv hL
    have hp := hL p (List.mem_cons_self)
    have := ih (done ++ [p]) (bump lo z e h p) (bumpInv_step lo z e n done h p inv hp.1 hp.2)
      (fun q hq => hL q (List.mem_cons_of_mem _ hq))
    simpa using this



section exact
variable {α β : Type} [LinearOrder α]

/-- the stored fragments inside the four-edged window, by linear scan, over the whole double loop -/
def scanHits (E : Env α β) (db : Db α) (ptol ftol : Tol α) (qm : α) (peaks : List (Peak α)) (mfc : Nat) : List (Frag α) :=
  (peakCharges peaks mfc).flatMap fun pc =>
    Sage.C03.scan db.masses db.frags (qwin E ptol ftol qm pc.1 pc.2)

theorem hitPeps_eq_scan (E : Env α β) (db : Db α) (inv : Sage.C03.DbInv db.masses db.minv db.frags db.B)
    (ptol ftol : Tol α) (qm : α) (peaks : List (Peak α)) (mfc : Nat) :
    hitPeps E db ptol ftol qm peaks mfc = (scanHits E db ptol ftol qm peaks mfc).map (·.pep) := by
  unfold hitPeps scanHits
  rw [List.map_flatMap]
  congr 1
  funext pc
  rw [Sage.C03.pageSearchC_exact db.masses db.minv db.frags db.B inv]

end exact

/-! ## property theorems -/

/-- **C02.trim_k** — the number of preliminary candidates `trim_hits` keeps, `50.clamp(min(2r, len), len)`, is
    `min len (max 50 (2·report_psms))`: all of them when there are at most 50 (or `2r`), otherwise the top 50 — or the
    top `2·report_psms` if that is larger. In particular the `clamp` is always called with `min ≤ max` (no panic). -/
theorem trim_k (r len : Nat) : trimK r len = min len (max 50 (2 * r)) ∧ min (r * 2) len ≤ len := by
  unfold trimK clamp TRIM
  constructor
  · split
    · omega
    · split <;> omega
  · omega

example : trimK 1 120 = 50 ∧ trimK 30 120 = 60 ∧ trimK 3 7 = 7 ∧ trimK 0 0 = 0 := by decide

/-- **C02.trim_topk** — `trim_hits` keeps exactly `k = min len (max 50 (2·report_psms))` preliminary scores, the kept
    and the dropped ones together are a permutation of the original vector, and every kept score is `≥` every
    dropped one in the derived order of `PreScore` (matched count first; ties by peptide index, charge, isotope
    error) — hence also in matched count. The counters are untouched. (C10's `heapify_topk` + `heapify_perm`.) -/
theorem trim_topk (r : Nat) (h : Hits) :
    (trimHits r h).prelim.size = min h.prelim.size (max 50 (2 * r)) ∧
    (trimHits r h).matchedPeaks = h.matchedPeaks ∧ (trimHits r h).scored = h.scored ∧
    ∃ dropped : List PreScore, ((trimHits r h).prelim.toList ++ dropped).Perm h.prelim.toList ∧
      ∀ x ∈ (trimHits r h).prelim.toList, ∀ y ∈ dropped, y ≤ x ∧ y.matched ≤ x.matched := by
  have hk := (trim_k r h.prelim.size).1
  set k := trimK r h.prelim.size with hkdef
  set a' := Sage.C10.boundedMinHeapify PreScore.lt h.prelim k with ha'
  have hperm : a'.toList.Perm h.prelim.toList := Sage.C10.heapify_perm _ _ _
  have hsize : a'.size = h.prelim.size := by
    have := hperm.length_eq; simpa using this
  have hprelim : (trimHits r h).prelim = a'.extract 0 k := rfl
  have htake : (a'.extract 0 k).toList = a'.toList.take k := by
    simp [Array.toList_extract]
  refine ⟨?_, rfl, rfl, a'.toList.drop k, ?_, ?_⟩
  · rw [hprelim, Array.size_extract, hsize, hk]; omega
  · rw [hprelim, htake, List.take_append_drop]; exact hperm
  · rw [hprelim, htake]
    intro x hx y hy
    obtain ⟨t, hxt⟩ := List.mem_iff_getElem?.mp hx
    obtain ⟨j, hyj⟩ := List.mem_iff_getElem?.mp hy
    rw [List.getElem?_take] at hxt
    rw [List.getElem?_drop] at hyj
    split at hxt
    · rename_i htk
      have hjlt : k + j < a'.size := by
        have := (List.getElem?_eq_some_iff.mp hyj).1; simpa using this
      have hk0 : 0 < k := by omega
      have hklt : k < h.prelim.size := by omega
      have hxt' : a'[t]? = some x := by simpa using hxt
      have hyj' : a'[k + j]? = some y := by simpa using hyj
      have := Sage.C10.heapify_topk PreScore.lt PreScore.lt_eq h.prelim k hk0 hklt t (k + j) x y htk (by omega) hxt' hyj'
      exact ⟨this, PreScore.matched_le_of_le this⟩
    · simp at hxt

/-- 60 preliminary scores with matched counts 1..7: `trim_hits` (report_psms = 1) keeps 50, all with count ≥ 2,
    and drops 10, all with count ≤ 2 -/
def exHits : Hits :=
  ⟨9, 3, ((List.range 60).map fun i => (⟨i % 7 + 1, i, 2, 0⟩ : PreScore)).toArray⟩
example : (trimHits 1 exHits).prelim.size = 50 ∧
    ((trimHits 1 exHits).prelim.toList.all fun p => decide (p.matched ≥ 2)) = true := by decide +kernel

/-! ## helper lemmas: where preliminary entries come from -/

theorem mem_trimHits (r : Nat) (h : Hits) (x : PreScore) (hx : x ∈ (trimHits r h).prelim.toList) :
    x ∈ h.prelim.toList := by
  obtain ⟨_, _, _, dropped, hperm, _⟩ := trim_topk r h
  exact hperm.mem_iff.mp (List.mem_append_left _ hx)

theorem mem_foldl_add {ι : Type} (f : ι → Hits) (x : PreScore) : ∀ (l : List ι) (init : Hits),
    x ∈ (l.foldl (fun h e => h.add (f e)) init).prelim.toList →
    x ∈ init.prelim.toList ∨ ∃ e ∈ l, x ∈ (f e).prelim.toList := by
  intro l
  induction l with
  | nil => intro init h; exact Or.inl h
  | cons a as ih =>
    intro init h
    rcases ih (init.add (f a)) h with h | ⟨e, he, h⟩
    · have : x ∈ init.prelim.toList ++ (f a).prelim.toList := by simpa [Hits.add] using h
      rcases List.mem_append.mp this with h | h
      · exact Or.inl h
      · exact Or.inr ⟨a, List.mem_cons_self, h⟩
    · exact Or.inr ⟨e, List.mem_cons_of_mem _ he, h⟩

section members
variable {α β : Type} [LinearOrder α]

theorem mem_mpwi (E : Env α β) (db : Db α) (cfg : Cfg α) (peaks : List (Peak α)) (pm : α) (z : Nat) (ptol : Tol α)
    (e : Int) (x : PreScore) (hx : x ∈ (mpwi E db cfg peaks pm z ptol e).prelim.toList) :
    x ∈ (mpwiRaw E db cfg.ftol cfg.mfc peaks pm z ptol e).prelim.toList := by
  unfold mpwi at hx
  simp only at hx
  split at hx
  · exact hx
  · exact mem_trimHits _ _ _ hx

theorem mem_matchedPeaks (E : Env α β) (db : Db α) (cfg : Cfg α) (peaks : List (Peak α)) (pm : α) (z : Nat)
    (ptol : Tol α) (x : PreScore) (hx : x ∈ (matchedPeaks E db cfg peaks pm z ptol).prelim.toList) :
    ∃ e ∈ isotopes cfg.isoLo cfg.isoHi, x ∈ (mpwiRaw E db cfg.ftol cfg.mfc peaks pm z ptol e).prelim.toList := by
  unfold matchedPeaks at hx
  unfold isotopes
  split at hx
  · rename_i hne
    rw [if_pos hne]
    have := mem_trimHits _ _ _ hx
    rcases mem_foldl_add (fun e => mpwi E db cfg peaks pm z ptol e) x _ _ this with h | ⟨e, he, h⟩
    · simp at h
    · exact ⟨e, he, mem_mpwi E db cfg peaks pm z ptol e x h⟩
  · rename_i hne
    rw [if_neg hne]
    exact ⟨0, by simp, mem_mpwi E db cfg peaks pm z ptol 0 x hx⟩

/-- `matched_peaks` for one searched (charge, tolerance) pair -/
def oneHits (E : Env α β) (db : Db α) (cfg : Cfg α) (peaks : List (Peak α)) (prec : Precursor α) (zt : Nat × Tol α) : Hits :=
  matchedPeaks E db cfg peaks (E.mul (E.sub prec.mz E.proton) (E.ofNat zt.1)) zt.1 zt.2

theorem initialHits_eq (E : Env α β) (db : Db α) (cfg : Cfg α) (peaks : List (Peak α)) (prec : Precursor α) :
    initialHits E db cfg peaks prec = trimHits cfg.reportPsms
      (if cfg.wideWindow then (searched E cfg prec).foldl (fun h zt => h.add (oneHits E db cfg peaks prec zt)) {}
       else match prec.charge, cfg.overrideCharge with
        | some z, false => oneHits E db cfg peaks prec (z, cfg.ptol)
        | _, _ => (searched E cfg prec).foldl (fun h zt => h.add (oneHits E db cfg peaks prec zt)) {}) := rfl

theorem mem_initialHits (E : Env α β) (db : Db α) (cfg : Cfg α) (peaks : List (Peak α)) (prec : Precursor α)
    (x : PreScore) (hx : x ∈ (initialHits E db cfg peaks prec).prelim.toList) :
    ∃ zt ∈ searched E cfg prec, ∃ e ∈ isotopes cfg.isoLo cfg.isoHi,
      x ∈ (mpwiRaw E db cfg.ftol cfg.mfc peaks (E.mul (E.sub prec.mz E.proton) (E.ofNat zt.1)) zt.1 zt.2 e).prelim.toList := by
  rw [initialHits_eq] at hx
  have hx := mem_trimHits _ _ _ hx
  have hone : ∀ zt, x ∈ (oneHits E db cfg peaks prec zt).prelim.toList → ∃ e ∈ isotopes cfg.isoLo cfg.isoHi,
      x ∈ (mpwiRaw E db cfg.ftol cfg.mfc peaks (E.mul (E.sub prec.mz E.proton) (E.ofNat zt.1)) zt.1 zt.2 e).prelim.toList :=
    fun zt h => mem_matchedPeaks E db cfg peaks _ zt.1 zt.2 x h
  have hfold : ∀ l : List (Nat × Tol α),
      x ∈ (l.foldl (fun h zt => h.add (oneHits E db cfg peaks prec zt)) ({} : Hits)).prelim.toList →
      ∃ zt ∈ l, ∃ e ∈ isotopes cfg.isoLo cfg.isoHi,
        x ∈ (mpwiRaw E db cfg.ftol cfg.mfc peaks (E.mul (E.sub prec.mz E.proton) (E.ofNat zt.1)) zt.1 zt.2 e).prelim.toList := by
    intro l h
    rcases mem_foldl_add (oneHits E db cfg peaks prec) x l _ h with h | ⟨zt, hzt, h⟩
    · simp at h
    · exact ⟨zt, hzt, hone zt h⟩
  by_cases hw : cfg.wideWindow = true
  · rw [if_pos hw] at hx
    exact hfold _ hx
  · rw [if_neg hw] at hx
    split at hx
    · rename_i z hc ho
      refine ⟨(z, cfg.ptol), ?_, hone _ hx⟩
      unfold searched
      rw [if_neg hw, hc, ho]
      simp
    · exact hfold _ hx
end members

section rank
variable {β : Type} (tle : β → β → Bool) (sub : β → β → β) (zero : β)

/-- **C02.report_spec** — the ranking part of `build_features`, for every scorer, every preliminary list, every
    `min_matched_peaks` and `report_psms`, over any hyperscore type whose `total_cmp` is a total preorder and whose
    subtraction maps `y ≤ x` to `0 ≤ x − y`:
    * `k = min report_psms (number of scored candidates reaching min_matched_peaks) ≤ report_psms`;
    * the PSM at position `i` has rank `i + 1` (ranks `1..k`, no gaps);
    * hyperscores are non-increasing along the report;
    * `delta_best ≥ 0` for every PSM;
    * `delta_next ≥ 0` for every PSM that is not the LAST element of the sorted score vector (in particular for every
      non-last reported PSM), and for the last one provided its hyperscore is `≥ 0` (see `delta_next_last_negative`);
    * every reported PSM is `score p` for a preliminary entry `p` with `matched > 0` whose full score reaches
      `min_matched_peaks`. -/
theorem report_spec (htle : TotalPre tle) (hsub : ∀ x y, tle y x = true → tle zero (sub x y) = true)
    (score : PreScore → Cand β) (minMatched r : Nat) (prelim : List PreScore) :
    let sv := scoreVector tle score minMatched prelim
    let out := buildFeatures tle sub zero score minMatched r prelim
    out.length = min r sv.length ∧ out.length ≤ r ∧
    (∀ (i : Nat) (p : Psm β), out[i]? = some p → p.rank = i + 1) ∧
    (∀ (i j : Nat) (p q : Psm β), i < j → out[i]? = some p → out[j]? = some q → tle q.hs p.hs = true) ∧
    (∀ (i : Nat) (p : Psm β), out[i]? = some p → tle zero p.dbest = true) ∧
    (∀ (i : Nat) (p : Psm β), out[i]? = some p → i + 1 < sv.length → tle zero p.dnext = true) ∧
    (∀ (i : Nat) (p : Psm β), out[i]? = some p → tle zero p.hs = true → tle zero p.dnext = true) ∧
    (∀ (i : Nat) (p : Psm β), out[i]? = some p → ∃ c ∈ prelim, 0 < c.matched ∧ minMatched ≤ (score c).matched ∧
        p.pep = (score c).pre.peptide ∧ p.charge = (score c).pre.charge ∧ p.iso = (score c).pre.iso ∧
        p.hs = (score c).hs ∧ p.matched = (score c).matched) := by
  intro sv out
  have hdesc : Desc tle sv := scoreVector_desc tle htle score minMatched prelim
  have hlen : out.length = min r sv.length := reportFrom_length sub zero sv r
  have hget : ∀ i p, out[i]? = some p → i < r ∧ ∃ c, sv[i]? = some c ∧ p = mkPsm sub zero sv c i := by
    intro i p h
    have := reportFrom_getElem? sub zero sv r i
    rw [show (reportFrom sub zero sv r)[i]? = out[i]? from rfl, h] at this
    split at this
    · rename_i hi
      cases hc : sv[i]? with
      | none => rw [hc] at this; simp at this
      | some c => rw [hc] at this; simp at this; exact ⟨hi, c, rfl, this⟩
    · simp at this
  have hrefl : ∀ x, tle x x = true := fun x => by rcases htle.total x x with h | h <;> exact h
  have hord : ∀ (i j : Nat) (c d : Cand β), i ≤ j → sv[i]? = some c → sv[j]? = some d → tle d.hs c.hs = true := by
    intro i j c d hij hc hd
    rcases Nat.lt_or_eq_of_le hij with hij | rfl
    · have hc' := List.getElem?_eq_some_iff.mp hc
      have hd' := List.getElem?_eq_some_iff.mp hd
      have := List.pairwise_iff_getElem.mp hdesc i j hc'.1 hd'.1 hij
      rw [hc'.2, hd'.2] at this; exact this
    · rw [hc] at hd; cases hd; exact hrefl _
  refine ⟨hlen, by omega, ?_, ?_, ?_, ?_, ?_, ?_⟩
  · intro i p h
    obtain ⟨_, c, _, rfl⟩ := hget i p h; rfl
  · intro i j p q hij hp hq
    obtain ⟨_, c, hc, rfl⟩ := hget i p hp
    obtain ⟨_, d, hd, rfl⟩ := hget j q hq
    exact hord i j c d (Nat.le_of_lt hij) hc hd
  · intro i p h
    obtain ⟨_, c, hc, rfl⟩ := hget i p h
    show tle zero (sub _ c.hs) = true
    apply hsub
    cases hsv : sv with
    | nil => rw [hsv] at hc; simp at hc
    | cons b rest =>
      have hb : sv[0]? = some b := by rw [hsv]; rfl
      simpa using hord 0 i b c (Nat.zero_le _) hb hc
  · intro i p h hi
    obtain ⟨_, c, hc, rfl⟩ := hget i p h
    show tle zero (sub c.hs _) = true
    apply hsub
    have hn : sv[i + 1]? = some sv[i + 1] := List.getElem?_eq_getElem hi
    rw [hn]
    exact hord i (i + 1) c _ (Nat.le_succ _) hc hn
  · intro i p h hpos
    obtain ⟨_, c, hc, rfl⟩ := hget i p h
    show tle zero (sub c.hs _) = true
    apply hsub
    cases hn : sv[i + 1]? with
    | none => exact hpos
    | some n => exact hord i (i + 1) c n (Nat.le_succ _) hc hn
  · intro i p h
    obtain ⟨_, c, hc, rfl⟩ := hget i p h
    have hmem : c ∈ sv := List.mem_of_getElem? hc
    obtain ⟨q, hq, hm, rfl, hmin⟩ := (mem_scoreVector tle score minMatched prelim c).mp hmem
    exact ⟨q, hq, hm, hmin, rfl, rfl, rfl, rfl, rfl⟩

end rank

section rank2
variable {β : Type} (tle : β → β → Bool) (sub : β → β → β) (zero : β)

theorem mem_buildFeatures (score : PreScore → Cand β) (minMatched r : Nat) (prelim : List PreScore) (p : Psm β)
    (hp : p ∈ buildFeatures tle sub zero score minMatched r prelim) :
    ∃ c ∈ prelim, 0 < c.matched ∧ minMatched ≤ (score c).matched ∧
      p.pep = (score c).pre.peptide ∧ p.charge = (score c).pre.charge ∧ p.iso = (score c).pre.iso ∧
      p.hs = (score c).hs ∧ p.matched = (score c).matched := by
  obtain ⟨i, hi⟩ := List.mem_iff_getElem?.mp hp
  unfold buildFeatures at hi
  rw [reportFrom_getElem?] at hi
  split at hi
  · cases hc : (scoreVector tle score minMatched prelim)[i]? with
    | none => rw [hc] at hi; simp at hi
    | some c =>
      rw [hc] at hi
      simp only [Option.map_some, Option.some.injEq] at hi
      subst hi
      obtain ⟨q, hq, hm, rfl, hmin⟩ := (mem_scoreVector tle score minMatched prelim c).mp (List.mem_of_getElem? hc)
      exact ⟨q, hq, hm, hmin, rfl, rfl, rfl, rfl, rfl⟩
  · simp at hi

theorem desc_getElem (l : List (Cand β)) (htle : TotalPre tle) (hd : Desc tle l) (i j : Nat) (c d : Cand β)
    (hij : i ≤ j) (hc : l[i]? = some c) (hd' : l[j]? = some d) : tle d.hs c.hs = true := by
  rcases Nat.lt_or_eq_of_le hij with hij | rfl
  · have hc' := List.getElem?_eq_some_iff.mp hc
    have hd'' := List.getElem?_eq_some_iff.mp hd'
    have := List.pairwise_iff_getElem.mp hd i j hc'.1 hd''.1 hij
    rw [hc'.2, hd''.2] at this; exact this
  · rw [hc] at hd'; cases hd'
    rcases htle.total c.hs c.hs with h | h <;> exact h

/-- **C02.no_better_left_out** — `build_features`, for every scorer, every retained preliminary list, every
    `min_matched_peaks` and `report_psms` (hyperscores under any total preorder): a retained candidate (`matched > 0`)
    whose full score reaches `min_matched_peaks` is either reported (a PSM with its peptide, charge, isotope error and
    hyperscore is in the report), or the report is FULL (`k = report_psms`: no slot is empty) and every reported PSM
    scores at least as high. So nothing is left out while a lower-scoring candidate is reported or a slot stays empty. -/
theorem no_better_left_out (htle : TotalPre tle) (score : PreScore → Cand β) (minMatched r : Nat)
    (prelim : List PreScore) :
    let out := buildFeatures tle sub zero score minMatched r prelim
    ∀ c ∈ prelim, 0 < c.matched → minMatched ≤ (score c).matched →
      (∃ (i : Nat) (p : Psm β), out[i]? = some p ∧ p.hs = (score c).hs ∧ p.pep = (score c).pre.peptide ∧
          p.charge = (score c).pre.charge ∧ p.iso = (score c).pre.iso) ∨
      (out.length = r ∧ ∀ (i : Nat) (p : Psm β), out[i]? = some p → tle (score c).hs p.hs = true) := by
  intro out c hc hm hmin
  have hmem : score c ∈ scoreVector tle score minMatched prelim :=
    (mem_scoreVector tle score minMatched prelim (score c)).mpr ⟨c, hc, hm, rfl, hmin⟩
  obtain ⟨j, hj⟩ := List.mem_iff_getElem?.mp hmem
  have hget : ∀ i, out[i]? = if i < r then ((scoreVector tle score minMatched prelim)[i]?).map
      (fun c => mkPsm sub zero (scoreVector tle score minMatched prelim) c i) else none :=
    fun i => reportFrom_getElem? sub zero _ r i
  by_cases hjr : j < r
  · left
    refine ⟨j, mkPsm sub zero (scoreVector tle score minMatched prelim) (score c) j, ?_, rfl, rfl, rfl, rfl⟩
    rw [hget j, if_pos hjr, hj]; rfl
  · right
    have hlen : j < (scoreVector tle score minMatched prelim).length := (List.getElem?_eq_some_iff.mp hj).1
    refine ⟨by rw [show out.length = min r _ from reportFrom_length sub zero _ r]; omega, ?_⟩
    intro i p hp
    rw [hget i] at hp
    split at hp
    · rename_i hir
      cases hd : (scoreVector tle score minMatched prelim)[i]? with
      | none => rw [hd] at hp; simp at hp
      | some d =>
        rw [hd] at hp
        simp only [Option.map_some, Option.some.injEq] at hp
        subst hp
        exact desc_getElem tle _ htle (scoreVector_desc tle htle score minMatched prelim) i j d (score c) (by omega) hd hj
    · simp at hp

end rank2

section exact
variable {α β : Type} [LinearOrder α]

/-- **C02.candidates_exact** — the preliminary pass of `matched_peaks_with_isotope` (before trimming), for every
    database satisfying the index invariant of C03 (`DbInv`: what `build_from_peptides` establishes; checked on the
    REAL index by C03's op `dbinv`), every spectrum, precursor mass, charge, tolerance and isotope error. With
    `hits` = the LINEAR SCAN of all stored fragments over all (peak, fragment charge) pairs (`C03.scan`: fragment m/z in
    the fragment window and parent peptide mass in the precursor window; equal to `page_search` by `pageSearch_exact`):
    * the dense vector has `pre_idx_hi − pre_idx_lo + 1` slots and `matched_peaks` is the number of hits;
    * every hit lands inside the vector (`pep − pre_idx_lo` neither underflows nor is out of bounds: no panic, no hit
      lost) and its peptide's mass lies in the precursor window;
    * slot `i` holds EXACTLY the number of hits of peptide `pre_idx_lo + i`; a slot with count 0 is still
      `PreScore::default()`, a slot with count > 0 carries that peptide index, the searched charge and isotope error.
    Hence the preliminary candidates are exactly the peptides inside the precursor window having ≥ 1 indexed fragment
    matched, each with its exact count. (The window edges are whatever `Tolerance::bounds` yields: rounding is not
    modelled, the Float32 run compares the edges bit-exactly.) -/
theorem candidates_exact (E : Env α β) (db : Db α) (inv : Sage.C03.DbInv db.masses db.minv db.frags db.B)
    (ftol ptol : Tol α) (mfcCfg : Option Nat) (peaks : List (Peak α)) (pm : α) (z : Nat) (e : Int) :
    let qm := queryMass E pm e
    let pb := Sage.C04.tolBounds E ptol qm
    let pre := Sage.C03.binarySearchSlice db.masses pb.1 pb.2
    let hits := scanHits E db ptol ftol qm peaks (Sage.C04.maxFragmentCharge mfcCfg z)
    let h := mpwiRaw E db ftol mfcCfg peaks pm z ptol e
    h.prelim.size = pre.2 - pre.1 + 1 ∧ h.matchedPeaks = hits.length ∧
    (∀ f ∈ hits, pre.1 ≤ f.pep ∧ f.pep - pre.1 < h.prelim.size ∧
        ∃ m, db.masses[f.pep]? = some m ∧ pb.1 ≤ m ∧ m ≤ pb.2) ∧
    (∀ i, i < h.prelim.size → ∃ sc, h.prelim[i]? = some sc ∧
        sc.matched = (hits.map (·.pep)).count (pre.1 + i) ∧ (sc.matched = 0 → sc = default) ∧
        (0 < sc.matched → sc.peptide = pre.1 + i ∧ sc.charge = z ∧ sc.iso = e)) := by
  intro qm pb pre hits h
  have hwin : ∀ f ∈ hits, pre.1 ≤ f.pep ∧ f.pep - pre.1 < pre.2 - pre.1 + 1 ∧
      ∃ m, db.masses[f.pep]? = some m ∧ pb.1 ≤ m ∧ m ≤ pb.2 := by
    intro f hf
    obtain ⟨pc, _, hf⟩ := List.mem_flatMap.mp hf
    have hin : Sage.C03.inWin db.masses (qwin E ptol ftol qm pc.1 pc.2) f = true := (List.mem_filter.mp hf).2
    unfold Sage.C03.inWin Sage.C03.massOf at hin
    cases hm : db.masses[f.pep]? with
    | none => rw [hm] at hin; simp at hin
    | some m =>
      rw [hm] at hin
      simp only [Bool.and_eq_true, decide_eq_true_eq] at hin
      have h1 : pb.1 ≤ m := hin.2.1
      have h2 : m ≤ pb.2 := hin.2.2
      have := Sage.C03.bssWith_covers Sage.C03.binSearch Sage.C03.binSearch_ok db.masses inv.massesSorted pb.1 pb.2
        f.pep m hm h1 h2
      have h3 : pre.1 ≤ f.pep := this.1
      have h4 : f.pep < pre.2 := this.2
      exact ⟨h3, by omega, m, rfl, h1, h2⟩
  have hfold : h = ((hits.map (·.pep)).foldl (bump pre.1 z e)
      { matchedPeaks := 0, scored := 0, prelim := Array.replicate (pre.2 - pre.1 + 1) default }) := by
    show mpwiRaw E db ftol mfcCfg peaks pm z ptol e = _
    unfold mpwiRaw
    simp only
    rw [hitPeps_eq_scan E db inv]
  have hinv := bumpInv_fold pre.1 z e (pre.2 - pre.1 + 1) (hits.map (·.pep)) [] _ (bumpInv_init pre.1 z e _)
    (by
      intro p hp
      obtain ⟨f, hf, rfl⟩ := List.mem_map.mp hp
      exact ⟨(hwin f hf).1, (hwin f hf).2.1⟩)
  rw [← hfold, List.nil_append] at hinv
  refine ⟨hinv.size, by simpa using hinv.mp, ?_, ?_⟩
  · intro f hf
    rw [hinv.size]; exact hwin f hf
  · intro i hi
    rw [hinv.size] at hi
    exact hinv.cnt i hi


end exact

/-- a toy arithmetic over `ℕ` for the examples (every field is total; `neg` is unused at isotope error 0) -/
def exEnv : Env Nat Nat :=
  { add := (· + ·), sub := (· - ·), mul := (· * ·), div := (· / ·), abs := id, neg := id, ofNat := id, proton := 1,
    neutron := 1, cast := id, addD := (· + ·), subD := (· - ·), mulD := (· * ·), divD := (· / ·), negD := id,
    ofNatD := id, half := 0, pi := 3, tiny := 0, ln := id, exp := id, log10 := id, ln1p := id,
    isFinite := fun _ => true, isInf := fun _ => false }
/-- C03's 11-fragment, 3-bucket example index over 4 peptides (masses 100, 100, 105, 110) -/
def exDb : Db Nat := { masses := Sage.C03.exMasses, minv := Sage.C03.exMinv, frags := Sage.C03.exFrags, B := 4 }
example : Sage.C03.DbInv exDb.masses exDb.minv exDb.frags exDb.B := Sage.C03.dbInvOk_sound _ _ _ _ (by decide)
/-- peaks at 20 and 30, precursor window [100, 105] (peptides 0, 1, 2; peptide 3 of mass 110 is outside although its
    fragments 20 and 30 match): counts 2, 1, 1, and the fourth slot (peptide 3) stays `default` -/
example : (mpwiRaw exEnv exDb (.da 0 0) none [⟨20, 1⟩, ⟨30, 1⟩] 100 2 (.da 0 5) 0).prelim.toList =
    [⟨2, 0, 2, 0⟩, ⟨1, 1, 2, 0⟩, ⟨1, 2, 2, 0⟩, ⟨0, 0, 0, 0⟩] ∧
    (mpwiRaw exEnv exDb (.da 0 0) none [⟨20, 1⟩, ⟨30, 1⟩] 100 2 (.da 0 5) 0).matchedPeaks = 4 := by decide

section window
variable {α β : Type} [LinearOrder α]

/-- **C02.reported_in_window** — the whole pipeline `initial_hits` (three charge modes, isotope fold,
    all three levels of trimming) → `build_features`, for every database satisfying C03's index invariant and every
    scorer that copies peptide / charge / isotope error from the preliminary entry (as `score_candidate` does): every
    reported PSM carries a (charge, isotope error) pair that was actually searched, its peptide's mass lies inside the
    precursor window of exactly that pair, and at least one indexed fragment of the peptide matches a peak (linear-scan
    count > 0). (The label is read off the database entry by peptide index — `peptide.label()` — and is compared, not
    proved.) -/
theorem reported_in_window (E : Env α β) (tle : β → β → Bool) (sub : β → β → β) (zero : β) (db : Db α)
    (inv : Sage.C03.DbInv db.masses db.minv db.frags db.B) (cfg : Cfg α)
    (peaks : List (Peak α)) (prec : Precursor α) (score : PreScore → Cand β) (hpre : ∀ c, (score c).pre = c)
    (p : Psm β) (hp : p ∈ buildFeatures tle sub zero score cfg.minMatched cfg.reportPsms
      (initialHits E db cfg peaks prec).prelim.toList) :
    ∃ zt ∈ searched E cfg prec, ∃ e ∈ isotopes cfg.isoLo cfg.isoHi, p.charge = zt.1 ∧ p.iso = e ∧
      (∃ m, db.masses[p.pep]? = some m ∧
        (Sage.C04.tolBounds E zt.2 (queryMass E (E.mul (E.sub prec.mz E.proton) (E.ofNat zt.1)) e)).1 ≤ m ∧
        m ≤ (Sage.C04.tolBounds E zt.2 (queryMass E (E.mul (E.sub prec.mz E.proton) (E.ofNat zt.1)) e)).2) ∧
      0 < ((scanHits E db zt.2 cfg.ftol (queryMass E (E.mul (E.sub prec.mz E.proton) (E.ofNat zt.1)) e) peaks
            (Sage.C04.maxFragmentCharge cfg.mfc zt.1)).map (·.pep)).count p.pep := by
  obtain ⟨c, hc, hm, _, h1, h2, h3, _, _⟩ := mem_buildFeatures tle sub zero _ _ _ _ p hp
  rw [hpre c] at h1 h2 h3
  obtain ⟨zt, hzt, e, he, hx⟩ := mem_initialHits E db cfg peaks prec c hc
  refine ⟨zt, hzt, e, he, ?_⟩
  obtain ⟨i, hi⟩ := List.mem_iff_getElem?.mp hx
  have hce := candidates_exact E db inv cfg.ftol zt.2 cfg.mfc peaks (E.mul (E.sub prec.mz E.proton) (E.ofNat zt.1)) zt.1 e
  simp only at hce
  obtain ⟨_, _, hwin, hcnt⟩ := hce
  have hi' : (mpwiRaw E db cfg.ftol cfg.mfc peaks (E.mul (E.sub prec.mz E.proton) (E.ofNat zt.1)) zt.1 zt.2 e).prelim[i]? = some c := by
    simpa using hi
  have hilt := (Array.getElem?_eq_some_iff.mp hi').1
  obtain ⟨sc, hsc, hcount, _, hpos⟩ := hcnt i hilt
  rw [hi'] at hsc
  cases hsc
  obtain ⟨hpep, hz, hiso⟩ := hpos hm
  have hpp : p.pep = c.peptide := h1
  have hpc : p.charge = c.charge := h2
  have hpi : p.iso = c.iso := h3
  refine ⟨by rw [hpc, hz], by rw [hpi, hiso], ?_, ?_⟩
  · have hpos' : 0 < List.count c.peptide (List.map (·.pep) (scanHits E db zt.2 cfg.ftol
        (queryMass E (E.mul (E.sub prec.mz E.proton) (E.ofNat zt.1)) e) peaks (Sage.C04.maxFragmentCharge cfg.mfc zt.1))) := by
      rw [hpep, ← hcount]; exact hm
    obtain ⟨f, hf, hfe⟩ := List.mem_map.mp (List.count_pos_iff.mp hpos')
    obtain ⟨_, _, m, hm1, hm2, hm3⟩ := hwin f hf
    rw [hpp, ← hfe]
    exact ⟨m, hm1, hm2, hm3⟩
  · rw [hpp, hpep, ← hcount]; exact hm

/-- **C02.search_in_window** — `reported_in_window` for `Scorer::score` in standard mode (the scorer is C04's
    `score_candidate`, which copies peptide, charge and isotope error from the preliminary entry). -/
theorem search_in_window [BEq α] (E : Env α β) (tle : β → β → Bool) (db : Db α)
    (inv : Sage.C03.DbInv db.masses db.minv db.frags db.B) (cfg : Cfg α) (info : PepInfo α)
    (peaks : List (Peak α)) (prec : Precursor α) (hstd : cfg.chimera = false)
    (p : Psm β) (hp : p ∈ (search E tle db cfg info peaks prec).2) :
    ∃ zt ∈ searched E cfg prec, ∃ e ∈ isotopes cfg.isoLo cfg.isoHi, p.charge = zt.1 ∧ p.iso = e ∧
      (∃ m, db.masses[p.pep]? = some m ∧
        (Sage.C04.tolBounds E zt.2 (queryMass E (E.mul (E.sub prec.mz E.proton) (E.ofNat zt.1)) e)).1 ≤ m ∧
        m ≤ (Sage.C04.tolBounds E zt.2 (queryMass E (E.mul (E.sub prec.mz E.proton) (E.ofNat zt.1)) e)).2) ∧
      0 < ((scanHits E db zt.2 cfg.ftol (queryMass E (E.mul (E.sub prec.mz E.proton) (E.ofNat zt.1)) e) peaks
            (Sage.C04.maxFragmentCharge cfg.mfc zt.1)).map (·.pep)).count p.pep := by
  unfold search at hp
  simp only [hstd] at hp
  exact reported_in_window E tle E.subD (E.ofNatD 0) db inv cfg peaks prec _ (fun _ => rfl) p hp

end window


/-- a complete toy search over `ℕ` on C03's example index: precursor m/z 51 at charge 2 (mass 100), precursor window
    [100, 105], peaks at 20 and 30, every peptide's b-series = its stored fragments -/
def exCfg : Cfg Nat :=
  { ptol := .da 0 5, ftol := .da 0 0, minMatched := 1, isoLo := 0, isoHi := 0, zLo := 2, zHi := 3, overrideCharge := false,
    mfc := none, chimera := false, reportPsms := 2, wideWindow := false, defaultIsoWin := .da 0 0 }
def exInfo : PepInfo Nat :=
  { series := fun i => [(.b, [[20, 30], [10, 30, 40], [30, 40, 60], [20, 30, 50]].getD i [])], len := fun _ => 4 }
def exPeaks : List (Peak Nat) := [⟨20, 1⟩, ⟨30, 1⟩]
def exPrec : Precursor Nat := { mz := 51, charge := some 2, isoWin := none }
/-- the retained preliminary entries of the toy search: peptides 0, 1, 2 with counts 2, 1, 1 at charge 2 and the empty
    slot of peptide 3 (mass 110, outside the window although its fragments 20 and 30 match) -/
example : (initialHits exEnv exDb exCfg exPeaks exPrec).prelim.toList =
    [⟨2, 0, 2, 0⟩, ⟨1, 1, 2, 0⟩, ⟨1, 2, 2, 0⟩, ⟨0, 0, 0, 0⟩] ∧ (initialHits exEnv exDb exCfg exPeaks exPrec).scored = 3 := by decide
/-- hypotheses of `reported_in_window` are met (`exDb` satisfies `DbInv`, see above; the scorer `10·matched − peptide`
    copies `pre`) and the report is non-empty: peptides 0 and 1 are reported at charge 2 -/
example : ((buildFeatures (fun (x y : Int) => decide (x ≤ y)) (· - ·) 0
      (fun c => ({ pre := c, matched := c.matched, hs := 10 * (c.matched : Int) - c.peptide } : Cand Int))
      exCfg.minMatched exCfg.reportPsms (initialHits exEnv exDb exCfg exPeaks exPrec).prelim.toList).map
        fun p => (p.pep, p.charge, p.rank, p.hs)) = [(0, 2, 1, 20), (1, 2, 2, 9)] := by decide

/-- `kept` is a top-`K` selection of `all`: kept ⊎ dropped = all, every kept element is `≥` every dropped one, and
    something is dropped only when at least `K` are kept -/
structure TopSplit (K : Nat) (kept dropped all : List PreScore) : Prop where
  perm : (kept ++ dropped).Perm all
  ge : ∀ x ∈ kept, ∀ y ∈ dropped, y ≤ x
  full : dropped ≠ [] → K ≤ kept.length

theorem topSplit_refl (K : Nat) (l : List PreScore) : TopSplit K l [] l :=
  ⟨by simp, by simp, by simp⟩

theorem trim_split (r : Nat) (h : Hits) : ∃ dropped,
    TopSplit (max 50 (2 * r)) (trimHits r h).prelim.toList dropped h.prelim.toList ∧
    (trimHits r h).prelim.toList.length = min h.prelim.toList.length (max 50 (2 * r)) := by
  obtain ⟨hsize, _, _, dropped, hperm, hge⟩ := trim_topk r h
  have hlen : (trimHits r h).prelim.toList.length = min h.prelim.toList.length (max 50 (2 * r)) := by
    simpa using hsize
  refine ⟨dropped, ⟨hperm, fun x hx y hy => (hge x hx y hy).1, ?_⟩, hlen⟩
  intro hne
  have := hperm.length_eq
  rw [List.length_append] at this
  have hpos : 0 < dropped.length := List.length_pos_iff.mpr hne
  omega

theorem length_le_flatMap {ι : Type} (gs : List ι) (f : ι → List PreScore) (g : ι) (hg : g ∈ gs) (P : PreScore → Bool) :
    ((f g).filter P).length ≤ ((gs.flatMap f).filter P).length := by
  obtain ⟨s, t, rfl⟩ := List.append_of_mem hg
  simp only [List.flatMap_append, List.flatMap_cons, List.filter_append, List.length_append]
  omega

theorem topSplit_comp (K : Nat) {ι : Type} (gs : List ι) (kept all : ι → List PreScore)
    (hg : ∀ g ∈ gs, ∃ d, TopSplit K (kept g) d (all g))
    (kf df : List PreScore) (hf : TopSplit K kf df (gs.flatMap kept))
    (hlen : kf.length = min (gs.flatMap kept).length K) :
    ∃ d, TopSplit K kf d (gs.flatMap all) := by
  classical
  obtain ⟨dropped, hd⟩ : ∃ dropped : ι → List PreScore, ∀ g ∈ gs, TopSplit K (kept g) (dropped g) (all g) :=
    ⟨fun g => if h : ∃ d, TopSplit K (kept g) d (all g) then h.choose else [],
     fun g hgm => by have h := hg g hgm; simp only [dif_pos h]; exact h.choose_spec⟩
  refine ⟨df ++ gs.flatMap dropped, ?_, ?_, ?_⟩
  · have h1 : ((kf ++ df) ++ gs.flatMap dropped).Perm (gs.flatMap kept ++ gs.flatMap dropped) := hf.perm.append_right _
    have h2 := List.flatMap_append_perm gs kept dropped
    have h3 := Sage.C03.perm_flatMap gs (fun g => kept g ++ dropped g) all (fun g hgm => (hd g hgm).perm)
    rw [← List.append_assoc]
    exact (h1.trans h2).trans h3
  · intro x hx y hy
    rcases List.mem_append.mp hy with hy | hy
    · exact hf.ge x hx y hy
    · obtain ⟨g, hgm, hyg⟩ := List.mem_flatMap.mp hy
      by_contra hnot
      have hxy : x < y := lt_of_not_ge hnot
      let P : PreScore → Bool := fun v => decide (x < v)
      -- every element of `kept g` is ≥ y > x, and there are ≥ K of them
      have hK : K ≤ (kept g).length := (hd g hgm).full (List.ne_nil_of_mem hyg)
      have hall : (kept g).filter P = kept g := by
        rw [List.filter_eq_self]
        intro v hv
        have := (hd g hgm).ge v hv y hyg
        simp only [P, decide_eq_true_eq]
        exact lt_of_lt_of_le hxy this
      -- nothing above x is in `df`
      have hdf : df.filter P = [] := by
        rw [List.filter_eq_nil_iff]
        intro v hv hp
        have := hf.ge x hx v hv
        simp only [P, decide_eq_true_eq] at hp
        exact absurd this (not_le_of_gt hp)
      have hcount : (kf.filter P).length = ((gs.flatMap kept).filter P).length := by
        have := (hf.perm.filter P).length_eq
        rw [List.filter_append, hdf, List.append_nil] at this
        exact this
      have h1 := length_le_flatMap gs kept g hgm P
      rw [hall] at h1
      have h2 : (kf.filter P).length < kf.length :=
        List.length_filter_lt_length_iff_exists.mpr ⟨x, hx, by simp [P]⟩
      have h3 : kf.length ≤ K := by rw [hlen]; exact Nat.min_le_right _ _
      omega
  · intro hne
    by_cases hdf : df = []
    · subst hdf
      simp only [List.nil_append] at hne
      obtain ⟨y, hy⟩ := List.exists_mem_of_ne_nil _ hne
      obtain ⟨g, hgm, hyg⟩ := List.mem_flatMap.mp hy
      have hK : K ≤ (kept g).length := (hd g hgm).full (List.ne_nil_of_mem hyg)
      have := length_le_flatMap gs kept g hgm (fun _ => true)
      simp only [List.filter_true] at this
      rw [hlen]; omega
    · exact hf.full hdf

theorem foldl_add_prelim {ι : Type} (f : ι → Hits) : ∀ (l : List ι) (init : Hits),
    (l.foldl (fun h e => h.add (f e)) init).prelim.toList = init.prelim.toList ++ l.flatMap (fun e => (f e).prelim.toList) := by
  intro l
  induction l with
  | nil => intro init; simp
  | cons a as ih =>
    intro init
    rw [List.foldl_cons, ih]
    simp [Hits.add]


section levels
variable {α β : Type} [LinearOrder α]

theorem mpwi_split (E : Env α β) (db : Db α) (cfg : Cfg α) (peaks : List (Peak α)) (pm : α) (z : Nat) (ptol : Tol α) (e : Int) :
    ∃ d, TopSplit (max 50 (2 * cfg.reportPsms)) (mpwi E db cfg peaks pm z ptol e).prelim.toList d
      (mpwiRaw E db cfg.ftol cfg.mfc peaks pm z ptol e).prelim.toList := by
  unfold mpwi
  simp only
  split
  · exact ⟨[], topSplit_refl _ _⟩
  · obtain ⟨d, h, _⟩ := trim_split cfg.reportPsms (mpwiRaw E db cfg.ftol cfg.mfc peaks pm z ptol e)
    exact ⟨d, h⟩

/-- all dense-vector entries of one searched (charge, tolerance) pair, over the isotope errors searched -/
def rawOf (E : Env α β) (db : Db α) (cfg : Cfg α) (peaks : List (Peak α)) (pm : α) (z : Nat) (ptol : Tol α) : List PreScore :=
  (isotopes cfg.isoLo cfg.isoHi).flatMap fun e => (mpwiRaw E db cfg.ftol cfg.mfc peaks pm z ptol e).prelim.toList

theorem matchedPeaks_split (E : Env α β) (db : Db α) (cfg : Cfg α) (peaks : List (Peak α)) (pm : α) (z : Nat) (ptol : Tol α) :
    ∃ d, TopSplit (max 50 (2 * cfg.reportPsms)) (matchedPeaks E db cfg peaks pm z ptol).prelim.toList d
      (rawOf E db cfg peaks pm z ptol) := by
  unfold matchedPeaks rawOf isotopes
  split
  · rename_i hne
    obtain ⟨df, hf, hlen⟩ := trim_split cfg.reportPsms
      ((isoRange cfg.isoLo cfg.isoHi).foldl (fun h e => h.add (mpwi E db cfg peaks pm z ptol e)) {})
    rw [foldl_add_prelim] at hf hlen
    simp only [List.nil_append] at hf hlen
    exact topSplit_comp _ (isoRange cfg.isoLo cfg.isoHi) (fun e => (mpwi E db cfg peaks pm z ptol e).prelim.toList) _
      (fun e _ => mpwi_split E db cfg peaks pm z ptol e) _ df hf hlen
  · obtain ⟨d, h⟩ := mpwi_split E db cfg peaks pm z ptol 0
    exact ⟨d, by simpa using h⟩

/-- all dense-vector entries of all searched windows -/
def allRaw (E : Env α β) (db : Db α) (cfg : Cfg α) (peaks : List (Peak α)) (prec : Precursor α) : List PreScore :=
  (searched E cfg prec).flatMap fun zt =>
    rawOf E db cfg peaks (E.mul (E.sub prec.mz E.proton) (E.ofNat zt.1)) zt.1 zt.2

/-- **C02.retained_topk** — the three levels of trimming (per isotope error, per precursor charge, final) together
    select a top-`K`, `K = max 50 (2·report_psms)`, of ALL dense-vector entries of ALL searched (charge, isotope) windows
    (`allRaw`; `candidates_exact` says what those entries are): the retained entries and the dropped ones are together
    a permutation of `allRaw`, every retained entry is `≥` every dropped one in the derived `PreScore` order (matched
    count first), and something is dropped only if `K` entries are retained. Holds in all three charge modes, for
    every isotope range (including the single-call `min = max` branch and empty ranges). -/
theorem retained_topk (E : Env α β) (db : Db α) (cfg : Cfg α) (peaks : List (Peak α)) (prec : Precursor α) :
    ∃ dropped, TopSplit (max 50 (2 * cfg.reportPsms)) (initialHits E db cfg peaks prec).prelim.toList dropped
      (allRaw E db cfg peaks prec) := by
  -- in every branch the vector handed to the final trim is the concatenation over `searched`
  have hpre : ∃ h : Hits, (initialHits E db cfg peaks prec) = trimHits cfg.reportPsms h ∧
      h.prelim.toList = (searched E cfg prec).flatMap fun zt => (oneHits E db cfg peaks prec zt).prelim.toList := by
    rw [initialHits_eq]
    by_cases hw : cfg.wideWindow = true
    · rw [if_pos hw]
      exact ⟨_, rfl, by rw [foldl_add_prelim]; rfl⟩
    · rw [if_neg hw]
      split
      · rename_i z hc ho
        refine ⟨_, rfl, ?_⟩
        unfold searched
        rw [if_neg hw, hc, ho]
        simp
      · exact ⟨_, rfl, by rw [foldl_add_prelim]; rfl⟩
  obtain ⟨h, heq, hlist⟩ := hpre
  rw [heq]
  obtain ⟨df, hf, hlen⟩ := trim_split cfg.reportPsms h
  rw [hlist] at hf hlen
  exact topSplit_comp _ (searched E cfg prec) (fun zt => (oneHits E db cfg peaks prec zt).prelim.toList) _
    (fun zt _ => matchedPeaks_split E db cfg peaks _ zt.1 zt.2) _ df hf hlen

end levels


/-- on the toy search nothing is dropped (4 entries ≤ 50) and `allRaw` is the one dense vector of the searched window -/
example : allRaw exEnv exDb exCfg exPeaks exPrec = [⟨2, 0, 2, 0⟩, ⟨1, 1, 2, 0⟩, ⟨1, 2, 2, 0⟩, ⟨0, 0, 0, 0⟩] := by decide

/-- a scorer over `ℤ` for the examples: hyperscore = 10·matched − peptide index − 25 -/
def exScore (p : PreScore) : Cand Int := { pre := p, matched := p.matched, hs := 10 * (p.matched : Int) - p.peptide - 25 }
def exPrelim : List PreScore :=
  [{ matched := 3, peptide := 0, charge := 2 }, { matched := 0, peptide := 0 }, { matched := 5, peptide := 7, charge := 2 },
   { matched := 1, peptide := 4, charge := 2 }, { matched := 5, peptide := 2, charge := 3 }, { matched := 2, peptide := 9, charge := 2 }]

theorem totalPre_int : TotalPre (fun (x y : Int) => decide (x ≤ y)) :=
  ⟨fun x y => by simp only [decide_eq_true_eq]; omega, fun x y z => by simp only [decide_eq_true_eq]; omega⟩

/-- non-vacuity of `report_spec`: 4 candidates reach `min_matched_peaks = 2`, 3 are reported, ranked 1,2,3 with
    hyperscores 23, 18, 5; the last reported one has `delta_next = 5 − (−14) = 19`; the entry with `matched = 0` and the
    one below `min_matched_peaks` are not scored -/
example : (buildFeatures (fun (x y : Int) => decide (x ≤ y)) (· - ·) 0 exScore 2 3 exPrelim).map
    (fun p => (p.pep, p.rank, p.hs, p.dnext, p.dbest)) = [(2, 1, 23, 5, 0), (7, 2, 18, 13, 5), (0, 3, 5, 19, 18)] := by decide

/-- **C02.delta_next_last_negative** — the full-strength claim "`delta_next ≥ 0` for EVERY reported PSM" is FALSE of
    the code: for the last element of the score vector `delta_next = hyperscore − 0`, which is negative when the
    hyperscore is (`lnfact 1 < 0`: one b and one y peak of low intensity). Witness over `ℤ`: a single candidate with
    hyperscore −14. (Known, unrepaired defect; the real code is run at this point by the `negative-hyperscore` stream.) -/
theorem delta_next_last_negative :
    ∃ (score : PreScore → Cand Int) (prelim : List PreScore) (p : Psm Int),
      buildFeatures (fun (x y : Int) => decide (x ≤ y)) (· - ·) 0 score 1 1 prelim = [p] ∧ p.dnext < 0 :=
  ⟨exScore, [{ matched := 2, peptide := 9, charge := 2 }],
    { pep := 9, charge := 2, iso := 0, rank := 1, matched := 2, hs := -14, dnext := -14, dbest := 0 }, by rfl, by decide⟩



/-- non-vacuity of `no_better_left_out`: with `report_psms = 3` the fourth candidate (peptide 9, hyperscore −14) is
    left out, the report is full and every reported hyperscore (23, 18, 5) is ≥ −14 -/
example : (buildFeatures (fun (x y : Int) => decide (x ≤ y)) (· - ·) 0 exScore 2 3 exPrelim).length = 3 ∧
    (exScore { matched := 2, peptide := 9, charge := 2 }).hs = -14 ∧
    ((buildFeatures (fun (x y : Int) => decide (x ≤ y)) (· - ·) 0 exScore 2 3 exPrelim).all fun p => decide (-14 ≤ p.hs)) = true := by
  decide

section chimera
variable {σ β : Type} (tle : β → β → Bool) (sub : β → β → β) (zero : β)
  (score : σ → PreScore → Cand β) (remove : σ → Psm β → σ) (minMatched r : Nat) (prelim : List PreScore)

/-- the chimeric report as the property describes it, starting from spectrum `q` with `n` PSMs already reported:
    * `full`: `report_psms` PSMs are out — stop;
    * `stop`: no retained candidate reaches `min_matched_peaks` on the current spectrum — stop;
    * `step`: the head `c` of the round's descending score vector (the best retained candidate on the CURRENT
      spectrum, see `scoreVector_head_best`) is reported with rank `n + 1`, `delta_next = hs − (second best or 0)`,
      `delta_best = hs − hs`, and the run continues on the spectrum with `c`'s matched peaks removed. -/
inductive ChimeraRun : σ → Nat → List (Psm β) → Prop
  | full (q : σ) (n : Nat) : r ≤ n → ChimeraRun q n []
  | stop (q : σ) (n : Nat) : n < r → scoreVector tle (score q) minMatched prelim = [] → ChimeraRun q n []
  | step (q : σ) (n : Nat) (c : Cand β) (sv' : List (Cand β)) (rest : List (Psm β)) : n < r →
      scoreVector tle (score q) minMatched prelim = c :: sv' →
      ChimeraRun (remove q (mkPsm sub zero (c :: sv') c 0)) (n + 1) rest →
      ChimeraRun q n ({ mkPsm sub zero (c :: sv') c 0 with rank := n + 1 } :: rest)

theorem buildFeatures_one (sc : PreScore → Cand β) :
    buildFeatures tle sub zero sc minMatched 1 prelim =
      match scoreVector tle sc minMatched prelim with
      | [] => []
      | c :: sv' => [mkPsm sub zero (c :: sv') c 0] := by
  unfold buildFeatures reportFrom
  cases scoreVector tle sc minMatched prelim with
  | nil => rfl
  | cons c sv' => rfl

/-- **C02.chimera_spec** — `score_chimera_fast`'s loop, for every scorer, every `remove_matched_peaks`, every retained
    preliminary list, `min_matched_peaks` and `report_psms`, run with at least `report_psms − |acc|` iterations of
    fuel (the model uses `report_psms`): the result is `acc` followed by a `ChimeraRun` — round after round the best
    retained candidate ON THE SPECTRUM LEFT AFTER REMOVING THE PEAKS OF THE PREVIOUS PSMs (`scoreVector_head_best`:
    it reaches `min_matched_peaks` there and no retained candidate that does scores higher), ranked `|acc|+1, |acc|+2, …`
    without gaps (`chimeraRun_ranks`), stopping only when `report_psms` PSMs are out or no retained candidate reaches
    `min_matched_peaks` on the residual spectrum. -/
theorem chimera_spec : ∀ (fuel : Nat) (q : σ) (acc : List (Psm β)), r ≤ acc.length + fuel →
    ∃ rest, chimeraLoop tle sub zero score remove minMatched r prelim fuel q acc = acc ++ rest ∧
      ChimeraRun tle sub zero score remove minMatched r prelim q acc.length rest := by
  intro fuel
  induction fuel with
  | zero =>
    intro q acc h
    exact ⟨[], by simp [chimeraLoop], ChimeraRun.full q _ (by omega)⟩
  | succ f ih =>
    intro q acc h
    unfold chimeraLoop
    by_cases hlt : acc.length < r
    · rw [if_pos hlt, buildFeatures_one]
      cases hsv : scoreVector tle (score q) minMatched prelim with
      | nil => exact ⟨[], by simp, ChimeraRun.stop q _ hlt hsv⟩
      | cons c sv' =>
        simp only
        obtain ⟨rest, h1, h2⟩ := ih (remove q (mkPsm sub zero (c :: sv') c 0))
          (acc ++ [{ mkPsm sub zero (c :: sv') c 0 with rank := acc.length + 1 }]) (by simp; omega)
        refine ⟨{ mkPsm sub zero (c :: sv') c 0 with rank := acc.length + 1 } :: rest, ?_, ?_⟩
        · rw [h1]; simp
        · have hl : (acc ++ [{ mkPsm sub zero (c :: sv') c 0 with rank := acc.length + 1 }]).length = acc.length + 1 := by simp
          rw [hl] at h2
          exact ChimeraRun.step q _ c sv' rest hlt hsv h2
    · rw [if_neg hlt]
      exact ⟨[], by simp, ChimeraRun.full q _ (by omega)⟩

/-- ranks continue `n+1, n+2, …` without gaps and at most `report_psms` PSMs are out in total -/
theorem chimeraRun_ranks (q : σ) (n : Nat) (rest : List (Psm β))
    (h : ChimeraRun tle sub zero score remove minMatched r prelim q n rest) :
    (∀ (i : Nat) (p : Psm β), rest[i]? = some p → p.rank = n + i + 1) ∧ (rest ≠ [] → n + rest.length ≤ r) := by
  induction h with
  | full q n _ => exact ⟨by simp, by simp⟩
  | stop q n _ _ => exact ⟨by simp, by simp⟩
  | step q n c sv' rest hn hsv _ ih =>
    refine ⟨?_, ?_⟩
    · intro i p hp
      cases i with
      | zero => simp at hp; subst hp; rfl
      | succ i =>
        have := ih.1 i p (by simpa using hp)
        omega
    · intro _
      by_cases hr : rest = []
      · subst hr; simp; omega
      · have := ih.2 hr
        simp; omega

/-- the PSM of a chimeric round is the best retained candidate on the current spectrum -/
theorem scoreVector_head_best (htle : TotalPre tle) (sc : PreScore → Cand β) (c : Cand β) (sv' : List (Cand β))
    (h : scoreVector tle sc minMatched prelim = c :: sv') :
    (∃ p ∈ prelim, 0 < p.matched ∧ c = sc p ∧ minMatched ≤ c.matched) ∧
    ∀ p ∈ prelim, 0 < p.matched → minMatched ≤ (sc p).matched → tle (sc p).hs c.hs = true := by
  have hd := scoreVector_desc tle htle sc minMatched prelim
  constructor
  · exact (mem_scoreVector tle sc minMatched prelim c).mp (by rw [h]; exact List.mem_cons_self)
  · intro p hp hm hmin
    have hmem : sc p ∈ scoreVector tle sc minMatched prelim :=
      (mem_scoreVector tle sc minMatched prelim (sc p)).mpr ⟨p, hp, hm, rfl, hmin⟩
    rw [h] at hmem hd
    rcases List.mem_cons.mp hmem with he | hmem
    · rw [he]; rcases htle.total c.hs c.hs with h | h <;> exact h
    · exact (List.pairwise_cons.mp hd).1 _ hmem

end chimera

/-- a toy chimeric run over `ℤ`: the "spectrum" is the list of peptides already explained; a candidate whose peptide
    was removed matches nothing any more -/
def exChimScore (q : List Nat) (p : PreScore) : Cand Int :=
  if q.contains p.peptide then { pre := p, matched := 0, hs := 0 } else exScore p
/-- three rounds: peptides 2 (23), 7 (18), 0 (5) are reported with ranks 1, 2, 3; `delta_next` is the gap to the
    runner-up of the SAME round (23−18, 18−5, 5−(−14)), `delta_best` is 0 -/
example : (chimeraLoop (fun (x y : Int) => decide (x ≤ y)) (· - ·) 0 exChimScore (fun q f => f.pep :: q) 2 3 exPrelim 3 [] []).map
    (fun p => (p.pep, p.rank, p.hs, p.dnext, p.dbest)) = [(2, 1, 23, 5, 0), (7, 2, 18, 13, 0), (0, 3, 5, 19, 0)] := by decide
/-- with `report_psms = 5` the run stops after 4 PSMs: nothing reaches `min_matched_peaks = 2` any more -/
example : (chimeraLoop (fun (x y : Int) => decide (x ≤ y)) (· - ·) 0 exChimScore (fun q f => f.pep :: q) 2 5 exPrelim 5 [] []).map
    (fun p => (p.pep, p.rank)) = [(2, 1), (7, 2), (0, 3), (9, 4)] := by decide

/-! ## all modes: window, ranks; chimeric rounds at the level of `Scorer::score` -/

section allmodes
variable {α β : Type} [LinearOrder α]

/-- the conclusion of `search_in_window` as a predicate on (peptide, charge, isotope error): the pair was searched,
    the peptide's mass lies in that pair's precursor window, and ≥ 1 indexed fragment of the peptide matches -/
def InWindow (E : Env α β) (db : Db α) (cfg : Cfg α) (peaks : List (Peak α)) (prec : Precursor α)
    (pep charge : Nat) (iso : Int) : Prop :=
  ∃ zt ∈ searched E cfg prec, ∃ e ∈ isotopes cfg.isoLo cfg.isoHi, charge = zt.1 ∧ iso = e ∧
    (∃ m, db.masses[pep]? = some m ∧
      (Sage.C04.tolBounds E zt.2 (queryMass E (E.mul (E.sub prec.mz E.proton) (E.ofNat zt.1)) e)).1 ≤ m ∧
      m ≤ (Sage.C04.tolBounds E zt.2 (queryMass E (E.mul (E.sub prec.mz E.proton) (E.ofNat zt.1)) e)).2) ∧
    0 < ((scanHits E db zt.2 cfg.ftol (queryMass E (E.mul (E.sub prec.mz E.proton) (E.ofNat zt.1)) e) peaks
          (Sage.C04.maxFragmentCharge cfg.mfc zt.1)).map (·.pep)).count pep

/-- every retained preliminary entry with `matched > 0` is in the window of the (charge, isotope) pair it records -/
theorem prelim_in_window (E : Env α β) (db : Db α) (inv : Sage.C03.DbInv db.masses db.minv db.frags db.B)
    (cfg : Cfg α) (peaks : List (Peak α)) (prec : Precursor α) (c : PreScore)
    (hc : c ∈ (initialHits E db cfg peaks prec).prelim.toList) (hm : 0 < c.matched) :
    InWindow E db cfg peaks prec c.peptide c.charge c.iso := by
  obtain ⟨zt, hzt, e, he, hx⟩ := mem_initialHits E db cfg peaks prec c hc
  refine ⟨zt, hzt, e, he, ?_⟩
  obtain ⟨i, hi⟩ := List.mem_iff_getElem?.mp hx
  have hce := candidates_exact E db inv cfg.ftol zt.2 cfg.mfc peaks (E.mul (E.sub prec.mz E.proton) (E.ofNat zt.1)) zt.1 e
  simp only at hce
  obtain ⟨_, _, hwin, hcnt⟩ := hce
  have hi' : (mpwiRaw E db cfg.ftol cfg.mfc peaks (E.mul (E.sub prec.mz E.proton) (E.ofNat zt.1)) zt.1 zt.2 e).prelim[i]? = some c := by
    simpa using hi
  have hilt := (Array.getElem?_eq_some_iff.mp hi').1
  obtain ⟨sc, hsc, hcount, _, hpos⟩ := hcnt i hilt
  rw [hi'] at hsc
  cases hsc
  obtain ⟨hpep, hz, hiso⟩ := hpos hm
  refine ⟨hz, hiso, ?_, ?_⟩
  · have hpos' : 0 < List.count c.peptide (List.map (·.pep) (scanHits E db zt.2 cfg.ftol
        (queryMass E (E.mul (E.sub prec.mz E.proton) (E.ofNat zt.1)) e) peaks (Sage.C04.maxFragmentCharge cfg.mfc zt.1))) := by
      rw [hpep, ← hcount]; exact hm
    obtain ⟨f, hf, hfe⟩ := List.mem_map.mp (List.count_pos_iff.mp hpos')
    obtain ⟨_, _, m, hm1, hm2, hm3⟩ := hwin f hf
    rw [← hfe]
    exact ⟨m, hm1, hm2, hm3⟩
  · rw [hpep, ← hcount]; exact hm

end allmodes

section chimera2
variable {σ β : Type} (tle : β → β → Bool) (sub : β → β → β) (zero : β)
  (score : σ → PreScore → Cand β) (remove : σ → Psm β → σ) (minMatched r : Nat) (prelim : List PreScore)

/-- the spectrum left after removing the peaks of the PSMs `ps`, in order -/
def residual (remove : σ → Psm β → σ) (q : σ) (ps : List (Psm β)) : σ := ps.foldl remove q

/-- a `ChimeraRun` round by round, with the residual spectrum written out: PSM `i` of the run is the head of the
    descending score vector computed on the spectrum left after PSMs `0..i-1`, with rank `n + i + 1`; and if the run
    ends before `report_psms` PSMs are out, the score vector on the final residual spectrum is empty.
    (`remove` must not read the rank — `remove_matched_peaks` reads the peptide and the charge only — because the
    code overwrites the rank after the removal.) -/
theorem chimeraRun_rounds (hrem : ∀ (q : σ) (f : Psm β) (k : Nat), remove q { f with rank := k } = remove q f)
    (q : σ) (n : Nat) (rest : List (Psm β))
    (h : ChimeraRun tle sub zero score remove minMatched r prelim q n rest) :
    (∀ (i : Nat) (p : Psm β), rest[i]? = some p → ∃ c sv',
        scoreVector tle (score (residual remove q (rest.take i))) minMatched prelim = c :: sv' ∧
        p = { mkPsm sub zero (c :: sv') c 0 with rank := n + i + 1 }) ∧
    (n + rest.length < r → scoreVector tle (score (residual remove q rest)) minMatched prelim = []) := by
  induction h with
  | full q n hn => exact ⟨by simp, by simp; omega⟩
  | stop q n _ hsv => exact ⟨by simp, fun _ => hsv⟩
  | step q n c sv' rest hn hsv _ ih =>
    have hres : ∀ l : List (Psm β),
        residual remove q ({ mkPsm sub zero (c :: sv') c 0 with rank := n + 1 } :: l) =
        residual remove (remove q (mkPsm sub zero (c :: sv') c 0)) l := by
      intro l
      simp only [residual, List.foldl_cons, hrem]
    refine ⟨?_, ?_⟩
    · intro i p hp
      cases i with
      | zero =>
        simp only [List.getElem?_cons_zero, Option.some.injEq] at hp
        exact ⟨c, sv', by simpa [residual] using hsv, by rw [← hp]⟩
      | succ i =>
        obtain ⟨c', sv'', h1, h2⟩ := ih.1 i p (by simpa using hp)
        refine ⟨c', sv'', ?_, ?_⟩
        · rw [List.take_succ_cons, hres]; exact h1
        · rw [h2, show n + 1 + i + 1 = n + (i + 1) + 1 by omega]
    · intro hlt
      rw [hres]
      have hl : n + (rest.length + 1) < r := by simpa using hlt
      exact ih.2 (by omega)

end chimera2

section searchlevel
variable {α β : Type} [LinearOrder α] [BEq α]

/-- `score_candidate` on the spectrum `q` with the scorer's settings -/
def scoreOn (E : Env α β) (cfg : Cfg α) (info : PepInfo α) (q : Array (Peak α)) : PreScore → Cand β :=
  scoreCand E cfg.ftol cfg.mfc info q

/-- `remove_matched_peaks(&mut query, psm)` with the scorer's settings (reads `psm.peptide_idx`, `psm.charge`) -/
def removeOn (E : Env α β) (cfg : Cfg α) (info : PepInfo α) (q : Array (Peak α)) (f : Psm β) : Array (Peak α) :=
  removeMatched E cfg.ftol cfg.mfc info q f.pep f.charge

theorem search_chimera_eq (E : Env α β) (tle : β → β → Bool) (db : Db α) (cfg : Cfg α) (info : PepInfo α)
    (peaks : List (Peak α)) (prec : Precursor α) (hch : cfg.chimera = true) :
    (search E tle db cfg info peaks prec).2 =
      chimeraLoop tle E.subD (E.ofNatD 0) (scoreOn E cfg info) (removeOn E cfg info) cfg.minMatched cfg.reportPsms
        (initialHits E db cfg peaks prec).prelim.toList cfg.reportPsms peaks.toArray [] := by
  unfold search
  simp only [hch, if_true]
  rfl

theorem search_standard_eq (E : Env α β) (tle : β → β → Bool) (db : Db α) (cfg : Cfg α) (info : PepInfo α)
    (peaks : List (Peak α)) (prec : Precursor α) (hstd : cfg.chimera = false) :
    (search E tle db cfg info peaks prec).2 =
      buildFeatures tle E.subD (E.ofNatD 0) (scoreOn E cfg info peaks.toArray) cfg.minMatched cfg.reportPsms
        (initialHits E db cfg peaks prec).prelim.toList := by
  unfold search
  simp only [hstd]
  rfl

/-- **C02.search_chimera_rounds** — `Scorer::score` with `chimera = true` (the concrete `score_candidate` and
    `remove_matched_peaks`), every input: with `resid i` = the query spectrum after `remove_matched_peaks` for the
    reported PSMs `0..i-1` (in order), and `prelim` = the retained preliminary entries of the ORIGINAL spectrum:
    `k ≤ report_psms`; PSM `i` has rank `i + 1` and is the head of the descending score vector computed on `resid i`
    (`delta_next` = gap to that round's runner-up or `hs − 0`, `delta_best = hs − hs`); and if `k < report_psms` the
    score vector on `resid k` is empty. -/
theorem search_chimera_rounds (E : Env α β) (tle : β → β → Bool) (db : Db α) (cfg : Cfg α) (info : PepInfo α)
    (peaks : List (Peak α)) (prec : Precursor α) (hch : cfg.chimera = true) :
    let prelim := (initialHits E db cfg peaks prec).prelim.toList
    let out := (search E tle db cfg info peaks prec).2
    let resid := fun (i : Nat) => residual (removeOn E cfg info) peaks.toArray (out.take i)
    out.length ≤ cfg.reportPsms ∧
    (∀ (i : Nat) (p : Psm β), out[i]? = some p → p.rank = i + 1 ∧ ∃ c sv',
        scoreVector tle (scoreOn E cfg info (resid i)) cfg.minMatched prelim = c :: sv' ∧
        p = { mkPsm E.subD (E.ofNatD 0) (c :: sv') c 0 with rank := i + 1 }) ∧
    (out.length < cfg.reportPsms →
        scoreVector tle (scoreOn E cfg info (resid out.length)) cfg.minMatched prelim = []) := by
  intro prelim out resid
  obtain ⟨rest, hrest, hrun⟩ := chimera_spec tle E.subD (E.ofNatD 0) (scoreOn E cfg info) (removeOn E cfg info)
    cfg.minMatched cfg.reportPsms prelim cfg.reportPsms peaks.toArray [] (by simp)
  have hout : out = rest := by
    show (search E tle db cfg info peaks prec).2 = rest
    rw [search_chimera_eq E tle db cfg info peaks prec hch, hrest]; rfl
  simp only [List.length_nil] at hrun
  have hranks := chimeraRun_ranks tle E.subD (E.ofNatD 0) (scoreOn E cfg info) (removeOn E cfg info)
    cfg.minMatched cfg.reportPsms prelim peaks.toArray 0 rest hrun
  have hrounds := chimeraRun_rounds tle E.subD (E.ofNatD 0) (scoreOn E cfg info) (removeOn E cfg info)
    cfg.minMatched cfg.reportPsms prelim (fun _ _ _ => rfl) peaks.toArray 0 rest hrun
  refine ⟨?_, ?_, ?_⟩
  · rw [hout]
    by_cases hr : rest = []
    · subst hr; simp
    · have := hranks.2 hr; omega
  · intro i p hp
    rw [hout] at hp
    obtain ⟨c, sv', h1, h2⟩ := hrounds.1 i p hp
    refine ⟨by rw [h2]; simp, c, sv', ?_, by rw [h2]; simp⟩
    show scoreVector tle (scoreOn E cfg info (residual (removeOn E cfg info) peaks.toArray (out.take i))) cfg.minMatched prelim = _
    rw [hout]; exact h1
  · intro hlt
    rw [hout] at hlt
    show scoreVector tle (scoreOn E cfg info (residual (removeOn E cfg info) peaks.toArray (out.take out.length))) cfg.minMatched prelim = _
    rw [hout, List.take_length]
    exact hrounds.2 (by omega)

/-- **C02.search_chimera_best** — the chimeric `no_better_left_out`, per round (hyperscores under any total preorder):
    PSM `i` is the full score ON `resid i` of a retained entry with `matched > 0` reaching `min_matched_peaks` there
    (peptide, charge, isotope error copied), every retained candidate reaching `min_matched_peaks` on `resid i`
    scores `≤` it, and a slot stays empty (`k < report_psms`) only if NO retained candidate reaches
    `min_matched_peaks` on the final residual spectrum. -/
theorem search_chimera_best (E : Env α β) (tle : β → β → Bool) (htle : TotalPre tle) (db : Db α) (cfg : Cfg α)
    (info : PepInfo α) (peaks : List (Peak α)) (prec : Precursor α) (hch : cfg.chimera = true) :
    let prelim := (initialHits E db cfg peaks prec).prelim.toList
    let out := (search E tle db cfg info peaks prec).2
    let resid := fun (i : Nat) => residual (removeOn E cfg info) peaks.toArray (out.take i)
    (∀ (i : Nat) (p : Psm β), out[i]? = some p →
        (∃ pre ∈ prelim, 0 < pre.matched ∧ cfg.minMatched ≤ (scoreOn E cfg info (resid i) pre).matched ∧
          p.pep = pre.peptide ∧ p.charge = pre.charge ∧ p.iso = pre.iso ∧
          p.hs = (scoreOn E cfg info (resid i) pre).hs ∧ p.matched = (scoreOn E cfg info (resid i) pre).matched) ∧
        ∀ pre ∈ prelim, 0 < pre.matched → cfg.minMatched ≤ (scoreOn E cfg info (resid i) pre).matched →
          tle (scoreOn E cfg info (resid i) pre).hs p.hs = true) ∧
    (out.length < cfg.reportPsms → ∀ pre ∈ prelim, 0 < pre.matched →
        (scoreOn E cfg info (resid out.length) pre).matched < cfg.minMatched) := by
  intro prelim out resid
  obtain ⟨_, hround, hstop⟩ := search_chimera_rounds E tle db cfg info peaks prec hch
  refine ⟨?_, ?_⟩
  · intro i p hp
    obtain ⟨_, c, sv', hsv, hpe⟩ := hround i p hp
    obtain ⟨⟨pre, hpre, hm, hc, hmin⟩, hbest⟩ :=
      scoreVector_head_best tle cfg.minMatched prelim htle (scoreOn E cfg info (resid i)) c sv' hsv
    refine ⟨⟨pre, hpre, hm, by rw [← hc]; exact hmin, ?_, ?_, ?_, ?_, ?_⟩, ?_⟩
    · rw [hpe, hc]; rfl
    · rw [hpe, hc]; rfl
    · rw [hpe, hc]; rfl
    · rw [hpe, hc]; rfl
    · rw [hpe, hc]; rfl
    · intro pre' hpre' hm' hmin'
      have := hbest pre' hpre' hm' hmin'
      rw [hpe]; exact this
  · intro hlt pre hpre hm
    have hnil := hstop hlt
    by_contra hnot
    have : scoreOn E cfg info (resid out.length) pre ∈
        scoreVector tle (scoreOn E cfg info (resid out.length)) cfg.minMatched prelim :=
      (mem_scoreVector tle _ cfg.minMatched prelim _).mpr ⟨pre, hpre, hm, rfl, by omega⟩
    rw [hnil] at this
    simp at this

/-- **C02.search_ranks** — both modes, no hypothesis: `k ≤ report_psms` and the PSM at position `i` has rank `i + 1`. -/
theorem search_ranks (E : Env α β) (tle : β → β → Bool) (db : Db α) (cfg : Cfg α) (info : PepInfo α)
    (peaks : List (Peak α)) (prec : Precursor α) :
    let out := (search E tle db cfg info peaks prec).2
    out.length ≤ cfg.reportPsms ∧ ∀ (i : Nat) (p : Psm β), out[i]? = some p → p.rank = i + 1 := by
  intro out
  by_cases hch : cfg.chimera = true
  · obtain ⟨h1, h2, _⟩ := search_chimera_rounds E tle db cfg info peaks prec hch
    exact ⟨h1, fun i p hp => (h2 i p hp).1⟩
  · have hstd : cfg.chimera = false := by simpa using hch
    have hout : out = reportFrom E.subD (E.ofNatD 0)
        (scoreVector tle (scoreOn E cfg info peaks.toArray) cfg.minMatched (initialHits E db cfg peaks prec).prelim.toList)
        cfg.reportPsms := search_standard_eq E tle db cfg info peaks prec hstd
    refine ⟨by rw [hout, reportFrom_length]; omega, ?_⟩
    intro i p hp
    rw [hout, reportFrom_getElem?] at hp
    split at hp
    · obtain ⟨c, _, rfl⟩ := Option.map_eq_some_iff.mp hp
      rfl
    · simp at hp

/-- **C02.search_in_window_all** — `search_in_window` without the mode hypothesis (standard AND chimeric): every
    reported PSM satisfies `InWindow` — searched (charge, isotope) pair, peptide mass in that pair's precursor window,
    ≥ 1 indexed fragment matched on the ORIGINAL spectrum. `InWindow` unfolds to the conclusion of `search_in_window`. -/
theorem search_in_window_all (E : Env α β) (tle : β → β → Bool) (db : Db α)
    (inv : Sage.C03.DbInv db.masses db.minv db.frags db.B) (cfg : Cfg α) (info : PepInfo α)
    (peaks : List (Peak α)) (prec : Precursor α) (p : Psm β) (hp : p ∈ (search E tle db cfg info peaks prec).2) :
    InWindow E db cfg peaks prec p.pep p.charge p.iso := by
  by_cases hch : cfg.chimera = true
  · obtain ⟨i, hi⟩ := List.mem_iff_getElem?.mp hp
    obtain ⟨_, hround, _⟩ := search_chimera_rounds E tle db cfg info peaks prec hch
    obtain ⟨_, c, sv', hsv, hpe⟩ := hround i p hi
    have hmem : c ∈ scoreVector tle (scoreOn E cfg info
        (residual (removeOn E cfg info) peaks.toArray ((search E tle db cfg info peaks prec).2.take i)))
        cfg.minMatched (initialHits E db cfg peaks prec).prelim.toList := by rw [hsv]; exact List.mem_cons_self
    obtain ⟨pre, hpre, hm, hc, _⟩ := (mem_scoreVector tle _ _ _ c).mp hmem
    have := prelim_in_window E db inv cfg peaks prec pre hpre hm
    rw [hpe, hc]
    exact this
  · have hstd : cfg.chimera = false := by simpa using hch
    exact search_in_window E tle db inv cfg info peaks prec hstd p hp

/-- **C02.search_in_window_wide** — `wide_window = true` (both modes): the reported charge lies in
    `min_precursor_charge..=max_precursor_charge`, the isotope error was searched, and the peptide's mass lies within
    `Tolerance::bounds` of `(isolation_window.unwrap_or(Da(-2.4, 2.4)) * charge)` around
    `(mz − PROTON)·charge − isotope·NEUTRON` — the isolation window scaled by the charge, not `precursor_tol`. -/
theorem search_in_window_wide (E : Env α β) (tle : β → β → Bool) (db : Db α)
    (inv : Sage.C03.DbInv db.masses db.minv db.frags db.B) (cfg : Cfg α) (info : PepInfo α)
    (peaks : List (Peak α)) (prec : Precursor α) (hw : cfg.wideWindow = true)
    (p : Psm β) (hp : p ∈ (search E tle db cfg info peaks prec).2) :
    p.charge ∈ chargeRange cfg.zLo cfg.zHi ∧ p.iso ∈ isotopes cfg.isoLo cfg.isoHi ∧
    ∃ m, db.masses[p.pep]? = some m ∧
      let tol := tolMul E (prec.isoWin.getD cfg.defaultIsoWin) (E.ofNat p.charge)
      let pm := E.mul (E.sub prec.mz E.proton) (E.ofNat p.charge)
      (Sage.C04.tolBounds E tol (queryMass E pm p.iso)).1 ≤ m ∧ m ≤ (Sage.C04.tolBounds E tol (queryMass E pm p.iso)).2 := by
  obtain ⟨zt, hzt, e, he, hz, hi, ⟨m, hm, h1, h2⟩, _⟩ := search_in_window_all E tle db inv cfg info peaks prec p hp
  unfold searched at hzt
  rw [if_pos hw] at hzt
  obtain ⟨z, hzr, rfl⟩ := List.mem_map.mp hzt
  simp only at hz h1 h2
  subst hz hi
  exact ⟨hzr, he, m, hm, h1, h2⟩

end searchlevel

/-! ## `scored_candidates` -/

/-- a dense slot (or preliminary entry) with at least one match -/
def PreScore.pos (p : PreScore) : Bool := decide (0 < p.matched)

theorem length_filter_set (P : PreScore → Bool) : ∀ (l : List PreScore) (i : Nat) (a b : PreScore), l[i]? = some a →
    ((l.set i b).filter P).length + (if P a then 1 else 0) = (l.filter P).length + (if P b then 1 else 0) := by
  intro l
  induction l with
  | nil => intro i a b h; simp at h
  | cons x xs ih =>
    intro i a b h
    cases i with
    | zero =>
      simp only [List.getElem?_cons_zero, Option.some.injEq] at h
      subst h
      simp only [List.set_cons_zero, List.filter_cons]
      by_cases hx : P x <;> by_cases hb : P b <;> simp [hx, hb]
    | succ i =>
      have := ih i a b (by simpa using h)
      simp only [List.set_cons_succ, List.filter_cons]
      by_cases hx : P x <;> simp [hx] <;> omega

/-- the loop body keeps `scored_candidates` = number of slots with a positive count -/
theorem bump_scored (lo z : Nat) (e : Int) (h : Hits) (p : Nat)
    (hs : h.scored = (h.prelim.toList.filter PreScore.pos).length) :
    (bump lo z e h p).scored = ((bump lo z e h p).prelim.toList.filter PreScore.pos).length := by
  unfold bump
  split
  · cases hsc : h.prelim[p - lo]? with
    | none => simpa using hs
    | some sc =>
      simp only
      have hl : h.prelim.toList[p - lo]? = some sc := by simpa using hsc
      split
      · rename_i hm
        have := length_filter_set PreScore.pos h.prelim.toList (p - lo) sc
          { matched := 1, peptide := p, charge := z, iso := e } hl
        simp only [Array.toList_setIfInBounds]
        have h1 : PreScore.pos sc = false := by simp [PreScore.pos, hm]
        have h2 : PreScore.pos { matched := 1, peptide := p, charge := z, iso := e } = true := by simp [PreScore.pos]
        rw [h1, h2] at this
        simp at this
        omega
      · rename_i hm
        have := length_filter_set PreScore.pos h.prelim.toList (p - lo) sc { sc with matched := sc.matched + 1 } hl
        simp only [Array.toList_setIfInBounds]
        have h1 : PreScore.pos sc = true := by simp [PreScore.pos]; omega
        have h2 : PreScore.pos { sc with matched := sc.matched + 1 } = true := by simp [PreScore.pos]
        rw [h1, h2] at this
        simp at this
        omega
  · exact hs

theorem foldl_bump_scored (lo z : Nat) (e : Int) : ∀ (L : List Nat) (h : Hits),
    h.scored = (h.prelim.toList.filter PreScore.pos).length →
    (L.foldl (bump lo z e) h).scored = ((L.foldl (bump lo z e) h).prelim.toList.filter PreScore.pos).length := by
  intro L
  induction L with
  | nil => intro h hs; exact hs
  | cons p ps ih => intro h hs; exact ih _ (bump_scored lo z e h p hs)

theorem foldl_add_scored {ι : Type} (f : ι → Hits) : ∀ (l : List ι) (init : Hits),
    (l.foldl (fun h e => h.add (f e)) init).scored = init.scored + (l.map fun e => (f e).scored).sum := by
  intro l
  induction l with
  | nil => intro init; simp
  | cons a as ih =>
    intro init
    rw [List.foldl_cons, ih]
    simp [Hits.add]; omega

theorem length_filter_flatMap {ι : Type} (g : ι → List PreScore) (P : PreScore → Bool) (l : List ι) :
    ((l.flatMap g).filter P).length = (l.map fun e => ((g e).filter P).length).sum := by
  induction l with
  | nil => simp
  | cons a as ih => simp [List.flatMap_cons, List.filter_append, ih]

section scored
variable {α β : Type} [LinearOrder α]

theorem mpwiRaw_scored (E : Env α β) (db : Db α) (ftol : Tol α) (mfcCfg : Option Nat) (peaks : List (Peak α))
    (pm : α) (z : Nat) (ptol : Tol α) (e : Int) :
    (mpwiRaw E db ftol mfcCfg peaks pm z ptol e).scored =
      ((mpwiRaw E db ftol mfcCfg peaks pm z ptol e).prelim.toList.filter PreScore.pos).length := by
  unfold mpwiRaw
  apply foldl_bump_scored
  have hz : ∀ n : Nat, (List.filter PreScore.pos (List.replicate n (default : PreScore))).length = 0 := by
    intro n
    rw [List.length_eq_zero_iff, List.filter_eq_nil_iff]
    intro a ha
    rw [(List.mem_replicate.mp ha).2]
    decide
  simp only [Array.toList_replicate, hz]

theorem mpwi_scored (E : Env α β) (db : Db α) (cfg : Cfg α) (peaks : List (Peak α)) (pm : α) (z : Nat) (ptol : Tol α)
    (e : Int) : (mpwi E db cfg peaks pm z ptol e).scored = (mpwiRaw E db cfg.ftol cfg.mfc peaks pm z ptol e).scored := by
  unfold mpwi
  simp only
  split <;> rfl

theorem matchedPeaks_scored (E : Env α β) (db : Db α) (cfg : Cfg α) (peaks : List (Peak α)) (pm : α) (z : Nat)
    (ptol : Tol α) :
    (matchedPeaks E db cfg peaks pm z ptol).scored = ((rawOf E db cfg peaks pm z ptol).filter PreScore.pos).length := by
  unfold matchedPeaks rawOf isotopes
  split
  · show ((isoRange cfg.isoLo cfg.isoHi).foldl (fun (h : Hits) e => h.add (mpwi E db cfg peaks pm z ptol e)) {}).scored = _
    rw [foldl_add_scored, length_filter_flatMap]
    simp only [mpwi_scored, mpwiRaw_scored]
    show 0 + _ = _
    omega
  · rw [mpwi_scored, mpwiRaw_scored]; simp

/-- **C02.scored_exact** — `scored_candidates` (`hits.scored_candidates`, summed by `AddAssign` over isotope errors and
    charges, untouched by `trim_hits`) is the number of dense-vector slots with a positive count over ALL searched
    windows, before any trimming — in all three charge modes and both isotope branches. With `candidates_exact`:
    the number of (peptide, charge, isotope) candidates having ≥ 1 indexed fragment matched. -/
theorem scored_exact (E : Env α β) (db : Db α) (cfg : Cfg α) (peaks : List (Peak α)) (prec : Precursor α) :
    (initialHits E db cfg peaks prec).scored = ((allRaw E db cfg peaks prec).filter PreScore.pos).length := by
  have hone : ∀ zt, (oneHits E db cfg peaks prec zt).scored =
      ((rawOf E db cfg peaks (E.mul (E.sub prec.mz E.proton) (E.ofNat zt.1)) zt.1 zt.2).filter PreScore.pos).length :=
    fun zt => matchedPeaks_scored E db cfg peaks _ zt.1 zt.2
  have hfold : ((searched E cfg prec).foldl (fun h zt => h.add (oneHits E db cfg peaks prec zt)) ({} : Hits)).scored =
      ((allRaw E db cfg peaks prec).filter PreScore.pos).length := by
    unfold allRaw
    rw [foldl_add_scored, length_filter_flatMap]
    simp only [hone]
    show 0 + _ = _
    omega
  rw [initialHits_eq]
  show (if cfg.wideWindow then _ else _ : Hits).scored = _
  by_cases hw : cfg.wideWindow = true
  · rw [if_pos hw]; exact hfold
  · rw [if_neg hw]
    split
    · rename_i zc hc ho
      rw [hone]
      unfold allRaw searched
      rw [if_neg hw, hc, ho]
      simp
    · exact hfold

end scored

section labels
variable {α β : Type} [LinearOrder α] [BEq α]

/-- `scored_candidates` of `Scorer::score` is the counter of `initial_hits` in both modes -/
theorem search_scored (E : Env α β) (tle : β → β → Bool) (db : Db α) (cfg : Cfg α) (info : PepInfo α)
    (peaks : List (Peak α)) (prec : Precursor α) :
    (search E tle db cfg info peaks prec).1 = ((allRaw E db cfg peaks prec).filter PreScore.pos).length := by
  rw [← scored_exact]
  unfold search
  simp only
  split <;> rfl

/-- **C02.label_spec** — `label: peptide.label()` with `peptide = &self.db[score.peptide]`, in both modes, for every
    database satisfying the index invariant whose `decoy` flags are aligned with the peptide masses: for every
    reported PSM the lookup is in bounds (no panic) and the label is `-1` exactly when the database entry with the
    PSM's peptide index is a decoy, `1` otherwise. (The driver now renders labels with `labelAt`.) -/
theorem label_spec (E : Env α β) (tle : β → β → Bool) (db : Db α)
    (inv : Sage.C03.DbInv db.masses db.minv db.frags db.B) (cfg : Cfg α) (info : PepInfo α)
    (peaks : List (Peak α)) (prec : Precursor α) (decoy : Array Bool) (hsize : decoy.size = db.masses.size)
    (pl : Psm β × Option Int) (hp : pl ∈ withLabels decoy (search E tle db cfg info peaks prec).2) :
    pl.1 ∈ (search E tle db cfg info peaks prec).2 ∧
    ∃ d, decoy[pl.1.pep]? = some d ∧ pl.2 = some (if d then -1 else 1) := by
  obtain ⟨p, hpm, rfl⟩ := List.mem_map.mp hp
  refine ⟨hpm, ?_⟩
  obtain ⟨_, _, _, _, _, _, ⟨m, hm, _, _⟩, _⟩ := search_in_window_all E tle db inv cfg info peaks prec p hpm
  have hlt : p.pep < decoy.size := by
    rw [hsize]; exact (Array.getElem?_eq_some_iff.mp hm).1
  refine ⟨decoy[p.pep], by simp [hlt], ?_⟩
  simp [labelAt, hlt]

end labels

section removal
variable {α β : Type} [LinearOrder α] [BEq α] [LawfulBEq α]

/-- **C02.removeMatched_spec** — `remove_matched_peaks(query, psm)`, for every spectrum sorted by mass with intensities
    `≥ 0`, every peptide / charge / tolerance / `max_fragment_charge` (equality on `f32` taken as lawful: NaN-free):
    with `fzs` = the (theoretical fragment, fragment charge) pairs of the PSM's peptide over all configured kinds and
    charges `1..max_fragment_charge`, and `[lo f, hi f]` the fragment window of `f`:
    * the survivors are a sublist of the input (order and multiplicity kept);
    * a peak survives iff it is not `==` (mass and intensity) to the peak selected for some `f`;
    * a window selects nothing iff no peak lies in it; otherwise the selected peak is a peak of the spectrum inside the
      window, no peak of the window is more intense (C04 `select_spec_tol`), and it is removed.
    So exactly the most intense peak of each matched window (and its exact duplicates) is removed. -/
theorem removeMatched_spec (E : Env α β) (ftol : Tol α) (mfcCfg : Option Nat) (info : PepInfo α)
    (peaks : Array (Peak α)) (pep z : Nat)
    (hs : Sage.C03.SortedArr (peaks.map (·.mass))) (hnn : ∀ p ∈ peaks.toList, E.ofNat 0 ≤ p.intensity) :
    let fzs := Sage.C04.fragCharges (info.series pep) (Sage.C04.maxFragmentCharge mfcCfg z)
    let out := removeMatched E ftol mfcCfg info peaks pep z
    let lo := fun (f : Sage.C04.FZ α) => E.add (Sage.C04.tolBounds E ftol (Sage.C04.mzOf E f)).1 (E.ofNat 0)
    let hi := fun (f : Sage.C04.FZ α) => E.add (Sage.C04.tolBounds E ftol (Sage.C04.mzOf E f)).2 (E.ofNat 0)
    out.toList.Sublist peaks.toList ∧
    (∀ p, p ∈ out.toList ↔ p ∈ peaks.toList ∧
        ∀ f ∈ fzs, ∀ q, Sage.C04.select E peaks (Sage.C04.mzOf E f) ftol none = some q →
          ¬ (q.mass = p.mass ∧ q.intensity = p.intensity)) ∧
    (∀ f ∈ fzs, (Sage.C04.select E peaks (Sage.C04.mzOf E f) ftol none = none ↔
        ∀ p ∈ peaks.toList, ¬ (lo f ≤ p.mass ∧ p.mass ≤ hi f))) ∧
    (∀ f ∈ fzs, ∀ q, Sage.C04.select E peaks (Sage.C04.mzOf E f) ftol none = some q →
        q ∈ peaks.toList ∧ lo f ≤ q.mass ∧ q.mass ≤ hi f ∧
        (∀ q' ∈ peaks.toList, lo f ≤ q'.mass → q'.mass ≤ hi f → q'.intensity ≤ q.intensity) ∧
        q ∉ out.toList) := by
  intro fzs out lo hi
  have hout : out.toList = peaks.toList.filter fun p =>
      !((fzs.filterMap fun f => Sage.C04.select E peaks (Sage.C04.mzOf E f) ftol none).any
        fun q => q.mass == p.mass && q.intensity == p.intensity) := by
    show (removeMatched E ftol mfcCfg info peaks pep z).toList = _
    unfold removeMatched
    rfl
  have hmem : ∀ p, p ∈ out.toList ↔ p ∈ peaks.toList ∧
      ∀ f ∈ fzs, ∀ q, Sage.C04.select E peaks (Sage.C04.mzOf E f) ftol none = some q →
        ¬ (q.mass = p.mass ∧ q.intensity = p.intensity) := by
    intro p
    rw [hout, List.mem_filter]
    simp only [Bool.not_eq_true', List.any_eq_false, List.mem_filterMap, Bool.and_eq_true, beq_iff_eq,
      forall_exists_index, and_imp]
    constructor
    · rintro ⟨h1, h2⟩
      exact ⟨h1, fun f hf q hq => h2 q f hf hq⟩
    · rintro ⟨h1, h2⟩
      exact ⟨h1, fun q f hf hq => h2 f hf q hq⟩
  refine ⟨by rw [hout]; exact List.filter_sublist, hmem, ?_, ?_⟩
  · intro f _
    exact (Sage.C04.select_spec_tol E peaks (Sage.C04.mzOf E f) ftol none hs hnn).1
  · intro f hf q hq
    obtain ⟨h1, h2, h3, h4⟩ := (Sage.C04.select_spec_tol E peaks (Sage.C04.mzOf E f) ftol none hs hnn).2 q hq
    refine ⟨h1, h2, h3, h4, ?_⟩
    intro hin
    exact ((hmem q).mp hin).2 f hf q hq ⟨rfl, rfl⟩

omit [LawfulBEq α] in
/-- **C02.removeMatched_tic** — `query.total_ion_current` after the removal is the left-to-right sum of the intensities
    of the remaining peaks, started from `Iterator::sum`'s neutral element. -/
theorem removeMatched_tic (E : Env α β) (sumZero : α) (ftol : Tol α) (mfcCfg : Option Nat) (info : PepInfo α)
    (peaks : Array (Peak α)) (pep z : Nat) :
    (removeMatchedTic E sumZero ftol mfcCfg info peaks pep z).1 = removeMatched E ftol mfcCfg info peaks pep z ∧
    (removeMatchedTic E sumZero ftol mfcCfg info peaks pep z).2 =
      ((removeMatched E ftol mfcCfg info peaks pep z).toList.map (·.intensity)).foldl E.add sumZero := by
  refine ⟨rfl, ?_⟩
  show ticOf E.add sumZero _ = _
  unfold ticOf
  rw [List.foldl_map]

end removal

/-! ### non-vacuity of the search-level theorems

`Scorer::score` on concrete data cannot be evaluated by the kernel (`Array.map` inside C04's `select` is compiled by
well-founded recursion), so the concrete instances below show (a) that every hypothesis is satisfiable on the toy
index, (b) the loop-level statement on a run with three rounds, and (c) the concrete candidate / window / counter
values the search-level statements talk about. -/

def exCfgChim : Cfg Nat := { exCfg with chimera := true, reportPsms := 3 }
def exCfgWide : Cfg Nat := { exCfg with wideWindow := true, defaultIsoWin := .da 0 3 }
/-- hypotheses of `search_chimera_rounds` / `search_chimera_best` / `search_in_window_all` / `label_spec` -/
example : exCfgChim.chimera = true ∧ TotalPre (fun (x y : Nat) => decide (x ≤ y)) ∧
    (#[false, true, false, true] : Array Bool).size = exDb.masses.size :=
  ⟨rfl, ⟨fun x y => by simp only [decide_eq_true_eq]; omega, fun x y z => by simp only [decide_eq_true_eq]; omega⟩, rfl⟩
/-- `chimeraRun_rounds` on the toy run (`remove` does not read the rank): after the PSMs for peptides 2 and 7 the residual
    "spectrum" is `[7, 2]` and the head of the score vector there is peptide 0 with hyperscore 5 — the third PSM -/
example : residual (fun (q : List Nat) (f : Psm Int) => f.pep :: q) []
      ((chimeraLoop (fun (x y : Int) => decide (x ≤ y)) (· - ·) 0 exChimScore (fun q f => f.pep :: q) 2 3 exPrelim 3 [] []).take 2) = [7, 2] ∧
    ((scoreVector (fun (x y : Int) => decide (x ≤ y)) (exChimScore [7, 2]) 2 exPrelim).map fun c => (c.pre.peptide, c.hs)) =
      [(0, 5), (9, -14)] := by decide
/-- wide-window mode: the isolation window `Da(0, 3)` is scaled by the charge: `[100, 106]` at charge 2 around mass 100,
    `[150, 159]` at charge 3 around mass 150; peptide 3 (mass 110) is now outside at charge 2 as well -/
example : ((searched exEnv exCfgWide exPrec).map fun zt =>
      (zt.1, Sage.C04.tolBounds exEnv zt.2 (exEnv.mul (exEnv.sub exPrec.mz exEnv.proton) (exEnv.ofNat zt.1)))) =
    [(2, (100, 106)), (3, (150, 159))] ∧ exCfgWide.wideWindow = true := by decide
example : (initialHits exEnv exDb exCfgWide exPeaks exPrec).prelim.toList.filter PreScore.pos =
    [⟨2, 0, 2, 0⟩, ⟨1, 1, 2, 0⟩, ⟨1, 2, 2, 0⟩] := by decide
/-- `scored_exact`: three slots with a positive count, one empty slot -/
example : (initialHits exEnv exDb exCfg exPeaks exPrec).scored = 3 ∧
    ((allRaw exEnv exDb exCfg exPeaks exPrec).filter PreScore.pos).length = 3 ∧
    (allRaw exEnv exDb exCfg exPeaks exPrec).length = 4 := by decide
/-- labels: entry 1 is a decoy, entry 0 a target, index 2 would be out of bounds -/
example : labelAt #[false, true] 1 = some (-1) ∧ labelAt #[false, true] 0 = some 1 ∧ labelAt #[false, true] 2 = none := by decide
/-- hypotheses of `removeMatched_spec` on the toy spectrum (sorted masses, intensities ≥ 0), and a matched window: the
    first b ion (20) of peptide 0 at charge 1 has the window [20, 20], which holds the peak of mass 20 -/
example : Sage.C03.SortedArr (exPeaks.toArray.map (·.mass)) ∧ (∀ p ∈ exPeaks.toArray.toList, exEnv.ofNat 0 ≤ p.intensity) ∧
    (Sage.C04.fragCharges (exInfo.series 0) (Sage.C04.maxFragmentCharge none 2)).map
      (fun f => (Sage.C04.tolBounds exEnv (.da 0 0) (Sage.C04.mzOf exEnv f))) = [(20, 20), (30, 30)] := by
  refine ⟨?_, fun p _ => Nat.zero_le _, by decide⟩
  rw [show exPeaks.toArray.map (·.mass) = #[20, 30] from by simp [exPeaks]]
  exact Sage.C03.sortedAdj_sound _ (by decide)

/-- the (fragment, charge) pairs of the double loop: charges are exactly `1 ≤ charge < mfc`, ions come from the series -/
theorem mem_fragCharges {α : Type} (series : List (Sage.C09.Kind × List α)) (mfc : Nat) (f : Sage.C04.FZ α)
    (h : f ∈ Sage.C04.fragCharges series mfc) :
    1 ≤ f.charge ∧ f.charge < mfc ∧ ∃ ks ∈ series, f.kind = ks.1 ∧ ks.2[f.idx]? = some f.ion := by
  unfold Sage.C04.fragCharges at h
  obtain ⟨ks, hks, h⟩ := List.mem_flatMap.mp h
  obtain ⟨mj, hmj, h⟩ := List.mem_flatMap.mp h
  obtain ⟨z, hz, rfl⟩ := List.mem_map.mp h
  have hz' := List.mem_range'_1.mp hz
  refine ⟨hz'.1, (by show z < mfc; omega), ks, hks, rfl, ?_⟩
  obtain ⟨i, hi⟩ := List.mem_iff_getElem?.mp hmj
  rw [List.getElem?_zipIdx] at hi
  cases hx : ks.2[i]? with
  | none => rw [hx] at hi; simp at hi
  | some x =>
    rw [hx] at hi
    simp only [Option.map_some, Option.some.injEq] at hi
    subst hi
    simpa using hx

/-- `max_fragment_charge(Some(c), z) ≤ c + 1` whenever `c ≥ 1`, and `≤ max z 2` always -/
theorem maxFragmentCharge_le (cfg : Option Nat) (z : Nat) :
    Sage.C04.maxFragmentCharge cfg z ≤ max z 2 ∧ (∀ c, cfg = some c → 1 ≤ c → Sage.C04.maxFragmentCharge cfg z ≤ c + 1) := by
  unfold Sage.C04.maxFragmentCharge
  constructor
  · omega
  · intro c hc h1
    subst hc
    simp only [Option.map_some, Option.getD_some]
    omega

section only
variable {α β : Type} [LinearOrder α] [BEq α] [LawfulBEq α]

/-- **C02.removeMatched_only_matched** — `remove_matched_peaks` honours the CONFIGURED fragment-charge limit: every peak
    it removes is the most intense peak of the fragment window of a theoretical fragment of the PSM's peptide (a
    configured kind) at a fragment charge `1 ≤ charge < max_fragment_charge(self.max_fragment_charge, psm.charge)` —
    the very range `score_candidate` and the preliminary count use — hence `charge ≤ c` when `max_fragment_charge =
    Some(c)` (`c ≥ 1`), and always `charge < max(psm.charge, 2)`. A peak sitting only on a higher-charge position of the
    previous PSM (never matched) is NOT removed. (Seeded change C02-M replaced the bound by `psm.charge.max(2)`.) -/
theorem removeMatched_only_matched (E : Env α β) (ftol : Tol α) (mfcCfg : Option Nat) (info : PepInfo α)
    (peaks : Array (Peak α)) (pep z : Nat)
    (hs : Sage.C03.SortedArr (peaks.map (·.mass))) (hnn : ∀ p ∈ peaks.toList, E.ofNat 0 ≤ p.intensity)
    (p : Peak α) (hp : p ∈ peaks.toList) (hgone : p ∉ (removeMatched E ftol mfcCfg info peaks pep z).toList) :
    ∃ f : Sage.C04.FZ α,
      (∃ ks ∈ info.series pep, f.kind = ks.1 ∧ ks.2[f.idx]? = some f.ion) ∧
      1 ≤ f.charge ∧ f.charge < Sage.C04.maxFragmentCharge mfcCfg z ∧ f.charge < max z 2 ∧
      (∀ c, mfcCfg = some c → 1 ≤ c → f.charge ≤ c) ∧
      E.add (Sage.C04.tolBounds E ftol (Sage.C04.mzOf E f)).1 (E.ofNat 0) ≤ p.mass ∧
      p.mass ≤ E.add (Sage.C04.tolBounds E ftol (Sage.C04.mzOf E f)).2 (E.ofNat 0) ∧
      ∀ q' ∈ peaks.toList, E.add (Sage.C04.tolBounds E ftol (Sage.C04.mzOf E f)).1 (E.ofNat 0) ≤ q'.mass →
        q'.mass ≤ E.add (Sage.C04.tolBounds E ftol (Sage.C04.mzOf E f)).2 (E.ofNat 0) → q'.intensity ≤ p.intensity := by
  obtain ⟨_, hmem, _, hsel⟩ := removeMatched_spec E ftol mfcCfg info peaks pep z hs hnn
  have hnot := fun h => hgone ((hmem p).mpr ⟨hp, h⟩)
  by_contra hcon
  apply hnot
  intro f hf q hq heq
  apply hcon
  obtain ⟨h1, h2, ks, hks, hk, hion⟩ := mem_fragCharges _ _ f hf
  obtain ⟨_, hlo, hhi, hmax, _⟩ := hsel f hf q hq
  have hle := maxFragmentCharge_le mfcCfg z
  refine ⟨f, ⟨ks, hks, hk, hion⟩, h1, h2, by omega, ?_, by rw [← heq.1]; exact hlo, by rw [← heq.1]; exact hhi, ?_⟩
  · intro c hc hc1
    have := hle.2 c hc hc1
    omega
  · intro q' hq' a b
    rw [← heq.2]; exact hmax q' hq' a b

end only

/-- the configured limit is strictly tighter than the precursor charge: with `max_fragment_charge = Some(1)` and a 3+
    precursor only fragment charge 1 is used (`1..2`), whereas `psm.charge.max(2) = 3` would also strip charge-2 positions;
    the (fragment, charge) pairs of the toy peptide 0 under that limit are its two b ions at charge 1 only -/
example : Sage.C04.maxFragmentCharge (some 1) 3 = 2 ∧ max 3 2 = 3 ∧
    ((Sage.C04.fragCharges (exInfo.series 0) (Sage.C04.maxFragmentCharge (some 1) 3)).map fun f => (f.ion, f.charge)) =
      [(20, 1), (30, 1)] ∧
    ((Sage.C04.fragCharges (exInfo.series 0) (max 3 2)).map fun f => (f.ion, f.charge)) =
      [(20, 1), (20, 2), (30, 1), (30, 2)] := by decide

end Sage.C02
