import SageModel.Model.C08
import SageModel.Props.C06
import Mathlib.Order.Defs.LinearOrder
import Mathlib.Algebra.Order.Field.Rat
import Mathlib.Tactic.Linarith
import Mathlib.Tactic.NormNum

/-!
# C08 — the peptide database is canonical and independent of FASTA order and scheduling

Property text: *The peptide database is sorted by mass, contains no two entries with the same sequence and
modifications, and each entry lists the sorted set of all proteins containing it; an entry is a decoy only
if every source of it is a decoy. Its content, and the fragment index built from it, is identical whatever
the order of records in the FASTA file, the number of worker threads and the interleaving of the parallel
build.*

All theorems are about the definitions of `SageModel/Model/C08.lean`, for every FASTA, every configuration,
every list length. Numbers: an arbitrary linear order (`reorder` facts), exact rationals where masses are
added (`comparator_off_duplicates`); f32 rounding is not covered.

**Assumption A-sort** (about `sort_unstable_by` / rayon's `par_sort_unstable_by`, not a theorem): driven by a
comparator that is a total pre-order, the sort returns a permutation of its input that is sorted by it. The
comparators of the code are such (`comparator_total_preorder`: the repaired `Peptide::initial_sort` and the mass
comparator), and `reorder_sort_irrelevant` / `digest_sort_irrelevant` prove that EVERY such result gives the same
database, so the stable merge sorts of the model are one admissible choice among equals.

**Assumption barrier**: the lookups of the target set happen after the insert phase has completed
(`par_iter().for_each()` returns before the next statement runs).
-/

namespace Sage.C08

/-! ## lawful three-way comparisons -/

structure Lawful {β : Type} (c : β → β → Ordering) : Prop where
  eq_iff : ∀ a b, c a b = .eq ↔ a = b
  swap : ∀ a b, c b a = (c a b).swap
  lt_trans : ∀ a b d, c a b = .lt → c b d = .lt → c a d = .lt

theorem Lawful.refl {β : Type} {c : β → β → Ordering} (h : Lawful c) (a : β) : c a a = .eq :=
  (h.eq_iff a a).2 rfl

theorem Lawful.gt_iff {β : Type} {c : β → β → Ordering} (h : Lawful c) (a b : β) : c a b = .gt ↔ c b a = .lt := by
  rw [h.swap a b]; cases c a b <;> simp [Ordering.swap]

theorem Lawful.le_trans {β : Type} {c : β → β → Ordering} (h : Lawful c) {a b d : β}
    (h1 : c a b ≠ .gt) (h2 : c b d ≠ .gt) : c a d ≠ .gt := by
  cases hab : c a b with
  | gt => exact absurd hab h1
  | eq => rw [(h.eq_iff a b).1 hab]; exact h2
  | lt =>
    cases hbd : c b d with
    | gt => exact absurd hbd h2
    | eq => rw [← (h.eq_iff b d).1 hbd, hab]; simp
    | lt => rw [h.lt_trans a b d hab hbd]; simp

theorem Lawful.le_total {β : Type} {c : β → β → Ordering} (h : Lawful c) (a b : β) :
    c a b ≠ .gt ∨ c b a ≠ .gt := by
  cases hab : c a b with
  | gt => right; rw [(h.gt_iff a b).1 hab]; simp
  | eq => left; simp
  | lt => left; simp

theorem Lawful.le_antisymm {β : Type} {c : β → β → Ordering} (h : Lawful c) {a b : β}
    (h1 : c a b ≠ .gt) (h2 : c b a ≠ .gt) : a = b := by
  cases hab : c a b with
  | gt => exact absurd hab h1
  | eq => exact (h.eq_iff a b).1 hab
  | lt => rw [h.swap a b, hab] at h2; simp [Ordering.swap] at h2

theorem Lawful.lt_of_lt_of_le {β : Type} {c : β → β → Ordering} (h : Lawful c) {a b d : β}
    (h1 : c a b = .lt) (h2 : c b d ≠ .gt) : c a d = .lt := by
  cases hbd : c b d with
  | gt => exact absurd hbd h2
  | eq => rw [← (h.eq_iff b d).1 hbd]; exact h1
  | lt => exact h.lt_trans a b d h1 hbd

theorem cmpNat_lt_iff (a b : Nat) : cmpNat a b = .lt ↔ a < b := by
  unfold cmpNat
  by_cases h1 : a < b
  · simp [h1]
  · by_cases h2 : b < a <;> simp [h1, h2]

theorem lawful_cmpNat : Lawful cmpNat where
  eq_iff a b := by
    unfold cmpNat
    by_cases h1 : a < b
    · simp [h1]; omega
    · by_cases h2 : b < a
      · simp [h1, h2]; omega
      · simp [h1, h2]; omega
  swap a b := by
    unfold cmpNat
    by_cases h1 : a < b
    · have : ¬ b < a := by omega
      simp [h1, this, Ordering.swap]
    · by_cases h2 : b < a <;> simp [h1, h2, Ordering.swap]
  lt_trans a b d := by
    simp only [cmpNat_lt_iff]; omega

theorem cmpOf_lt_iff {α : Type} [LinearOrder α] (a b : α) : cmpOf a b = .lt ↔ a < b := by
  unfold cmpOf
  by_cases h1 : a < b
  · simp [h1]
  · by_cases h2 : b < a <;> simp [h1, h2]

theorem lawful_cmpOf {α : Type} [LinearOrder α] : Lawful (cmpOf : α → α → Ordering) where
  eq_iff a b := by
    unfold cmpOf
    rcases lt_trichotomy a b with h | h | h
    · simp [h, ne_of_lt h]
    · simp [h]
    · simp [h, not_lt_of_gt h, (ne_of_lt h).symm]
  swap a b := by
    unfold cmpOf
    rcases lt_trichotomy a b with h | h | h
    · simp [h, not_lt_of_gt h, Ordering.swap]
    · simp [h, Ordering.swap]
    · simp [h, not_lt_of_gt h, Ordering.swap]
  lt_trans a b d := by
    simp only [cmpOf_lt_iff]; exact lt_trans

theorem lawful_lexList {β : Type} {c : β → β → Ordering} (h : Lawful c) : Lawful (lexList c) where
  eq_iff a b := by
    induction a generalizing b with
    | nil => cases b <;> simp [lexList]
    | cons x xs ih => cases b with
      | nil => simp [lexList]
      | cons y ys => simp [lexList, Ordering.then_eq_eq, h.eq_iff, ih]
  swap a b := by
    induction a generalizing b with
    | nil => cases b <;> simp [lexList, Ordering.swap]
    | cons x xs ih => cases b with
      | nil => simp [lexList, Ordering.swap]
      | cons y ys => simp [lexList, Ordering.swap_then, h.swap x y, ih]
  lt_trans a b d := by
    induction a generalizing b d with
    | nil => cases b <;> cases d <;> simp [lexList]
    | cons x xs ih =>
      cases b with
      | nil => simp [lexList]
      | cons y ys =>
        cases d with
        | nil => simp [lexList]
        | cons z zs =>
          simp only [lexList, Ordering.then_eq_lt]
          rintro (h1 | ⟨h1, h1'⟩) (h2 | ⟨h2, h2'⟩)
          · exact Or.inl (h.lt_trans _ _ _ h1 h2)
          · rw [← (h.eq_iff y z).1 h2]; exact Or.inl h1
          · rw [(h.eq_iff x y).1 h1]; exact Or.inl h2
          · rw [(h.eq_iff x y).1 h1, (h.eq_iff y z).1 h2]
            exact Or.inr ⟨h.refl z, ih _ _ h1' h2'⟩

theorem lawful_cmpOpt {β : Type} {c : β → β → Ordering} (h : Lawful c) : Lawful (cmpOpt c) where
  eq_iff a b := by cases a <;> cases b <;> simp [cmpOpt, h.eq_iff]
  swap a b := by
    cases a <;> cases b <;> simp only [cmpOpt, Ordering.swap]
    exact h.swap _ _
  lt_trans a b d := by
    cases a <;> cases b <;> cases d <;> simp [cmpOpt]
    exact h.lt_trans _ _ _

/-- lexicographic product -/
def thenPair {β γ : Type} (c1 : β → β → Ordering) (c2 : γ → γ → Ordering) (x y : β × γ) : Ordering :=
  (c1 x.1 y.1).then (c2 x.2 y.2)

theorem lawful_thenPair {β γ : Type} {c1 : β → β → Ordering} {c2 : γ → γ → Ordering}
    (h1 : Lawful c1) (h2 : Lawful c2) : Lawful (thenPair c1 c2) where
  eq_iff a b := by
    obtain ⟨a1, a2⟩ := a; obtain ⟨b1, b2⟩ := b
    simp [thenPair, Ordering.then_eq_eq, h1.eq_iff, h2.eq_iff]
  swap a b := by simp [thenPair, Ordering.swap_then, h1.swap a.1 b.1, h2.swap a.2 b.2]
  lt_trans a b d := by
    obtain ⟨a1, a2⟩ := a; obtain ⟨b1, b2⟩ := b; obtain ⟨d1, d2⟩ := d
    simp only [thenPair, Ordering.then_eq_lt]
    rintro (p | ⟨p, p'⟩) (q | ⟨q, q'⟩)
    · exact Or.inl (h1.lt_trans _ _ _ p q)
    · rw [← (h1.eq_iff b1 d1).1 q]; exact Or.inl p
    · rw [(h1.eq_iff a1 b1).1 p]; exact Or.inl q
    · rw [(h1.eq_iff a1 b1).1 p, (h1.eq_iff b1 d1).1 q]
      exact Or.inr ⟨h1.refl d1, h2.lt_trans _ _ _ p' q'⟩

theorem lawful_comap {β γ : Type} {c : γ → γ → Ordering} (h : Lawful c) (f : β → γ)
    (inj : ∀ a b, f a = f b → a = b) : Lawful (fun a b => c (f a) (f b)) where
  eq_iff a b := by
    constructor
    · intro e; exact inj _ _ ((h.eq_iff _ _).1 e)
    · intro e; rw [e]; exact h.refl _
  swap a b := h.swap _ _
  lt_trans a b d := h.lt_trans _ _ _

theorem lawful_cmpStr : Lawful cmpStr := lawful_lexList lawful_cmpNat

theorem lawful_cmpBool : Lawful cmpBool :=
  lawful_comap lawful_cmpNat Bool.toNat (by intro a b; cases a <;> cases b <;> simp)

/-! ## the peptide key -/

section key
variable {α : Type} [LinearOrder α]

/-- the identity of a peptide form: sequence, modifications, nterm, cterm (no mass) -/
abbrev Key (α : Type) := List Nat × (List α × (Option α × Option α))

def keyOf (p : DbPep α) : Key α :=
  (p.core.sequence, p.core.mods, p.core.nterm, p.core.cterm)

def cmpK : Key α → Key α → Ordering :=
  thenPair (lexList cmpNat) (thenPair (lexList cmpOf) (thenPair (cmpOpt cmpOf) (cmpOpt cmpOf)))

theorem lawful_cmpK : Lawful (cmpK : Key α → Key α → Ordering) :=
  lawful_thenPair (lawful_lexList lawful_cmpNat)
    (lawful_thenPair (lawful_lexList lawful_cmpOf) (lawful_thenPair (lawful_cmpOpt lawful_cmpOf) (lawful_cmpOpt lawful_cmpOf)))

/-- mass first, then identity: the key of the second sort -/
def mkeyOf (p : DbPep α) : α × Key α := (p.core.mono, keyOf p)

def cmpMK : α × Key α → α × Key α → Ordering := thenPair cmpOf cmpK

theorem lawful_cmpMK : Lawful (cmpMK : α × Key α → α × Key α → Ordering) := lawful_thenPair lawful_cmpOf lawful_cmpK

theorem cmpMassKey_eq (a b : DbPep α) : cmpMassKey a b = cmpMK (mkeyOf a) (mkeyOf b) := rfl

theorem massKeyLe_trans (a b c : DbPep α) (h1 : massKeyLe a b = true) (h2 : massKeyLe b c = true) :
    massKeyLe a c = true := by
  simp only [massKeyLe, cmpMassKey_eq, bne_iff_ne] at *
  exact lawful_cmpMK.le_trans h1 h2

theorem massKeyLe_total (a b : DbPep α) : (massKeyLe a b || massKeyLe b a) = true := by
  simp only [massKeyLe, cmpMassKey_eq, Bool.or_eq_true, bne_iff_ne]
  exact lawful_cmpMK.le_total _ _

theorem cmpKey_eq (a b : DbPep α) : cmpKey a b = cmpK (keyOf a) (keyOf b) := rfl

theorem keyLe_trans (a b c : DbPep α) (h1 : keyLe a b = true) (h2 : keyLe b c = true) : keyLe a c = true := by
  simp only [keyLe, cmpKey_eq, bne_iff_ne] at *
  exact lawful_cmpK.le_trans h1 h2

theorem keyLe_total (a b : DbPep α) : (keyLe a b || keyLe b a) = true := by
  simp only [keyLe, cmpKey_eq, Bool.or_eq_true, bne_iff_ne]
  exact lawful_cmpK.le_total _ _

theorem keyEq_iff (a b : DbPep α) : keyEq a b = true ↔ keyOf a = keyOf b := by
  simp only [keyEq, cmpKey_eq, beq_iff_eq]
  exact lawful_cmpK.eq_iff _ _

theorem keyOf_merge (a b : DbPep α) : keyOf (merge a b) = keyOf a := rfl
theorem keyOf_finish (a : DbPep α) : keyOf (finishProteins a) = keyOf a := rfl

/-- strictly increasing in the key -/
def KeyLt (a b : DbPep α) : Prop := cmpK (keyOf a) (keyOf b) = .lt
def KeyLe (a b : DbPep α) : Prop := cmpK (keyOf a) (keyOf b) ≠ .gt

theorem dedupGo_strict (rest : List (DbPep α)) : ∀ keep : DbPep α,
    (keep :: rest).Pairwise KeyLe →
    (dedupGo keep rest).Pairwise KeyLt ∧ ∀ x ∈ dedupGo keep rest, KeyLe keep x := by
  induction rest with
  | nil =>
    intro keep _
    simp only [dedupGo, List.pairwise_cons, List.not_mem_nil, false_imp_iff, implies_true,
      List.Pairwise.nil, and_self, List.mem_singleton, true_and]
    intro x hx; subst hx
    simp [KeyLe, lawful_cmpK.refl]
  | cons r rest ih =>
    intro keep hp
    rw [List.pairwise_cons] at hp
    obtain ⟨hk, hp'⟩ := hp
    simp only [dedupGo]
    split
    · rename_i heq
      have hkey : keyOf r = keyOf keep := (keyEq_iff r keep).1 heq
      have hp2 : (merge keep r :: rest).Pairwise KeyLe := by
        rw [List.pairwise_cons]
        refine ⟨fun x hx => ?_, (List.pairwise_cons.1 hp').2⟩
        have := hk x (List.mem_cons_of_mem _ hx)
        simpa [KeyLe, keyOf_merge] using this
      obtain ⟨i1, i2⟩ := ih (merge keep r) hp2
      refine ⟨i1, fun x hx => ?_⟩
      have := i2 x hx
      simpa [KeyLe, keyOf_merge] using this
    · rename_i hne
      have hle : KeyLe keep r := hk r List.mem_cons_self
      have hlt : KeyLt keep r := by
        unfold KeyLt
        cases hc : cmpK (keyOf keep) (keyOf r) with
        | lt => rfl
        | gt => exact absurd hc hle
        | eq =>
          exfalso; apply hne
          rw [keyEq_iff]; exact ((lawful_cmpK.eq_iff _ _).1 hc).symm
      obtain ⟨i1, i2⟩ := ih r hp'
      refine ⟨?_, ?_⟩
      · rw [List.pairwise_cons]
        exact ⟨fun x hx => lawful_cmpK.lt_of_lt_of_le hlt (i2 x hx), i1⟩
      · intro x hx
        rcases List.mem_cons.1 hx with rfl | hx
        · simp [KeyLe, lawful_cmpK.refl]
        · have := lawful_cmpK.lt_of_lt_of_le hlt (i2 x hx)
          simp [KeyLe, this]

theorem dedupBy_strict (s : List (DbPep α)) (hs : s.Pairwise KeyLe) : (dedupBy s).Pairwise KeyLt := by
  cases s with
  | nil => simp [dedupBy]
  | cons p rest => exact (dedupGo_strict rest p hs).1

theorem sorted_mergeSort_key (l : List (DbPep α)) : (l.mergeSort keyLe).Pairwise KeyLe := by
  have := List.pairwise_mergeSort (le := keyLe) keyLe_trans keyLe_total l
  refine this.imp ?_
  intro a b h
  simpa [keyLe, cmpKey_eq, KeyLe] using h

/-- strictly increasing in (mass, identity) -/
def MKLt (a b : DbPep α) : Prop := cmpMK (mkeyOf a) (mkeyOf b) = .lt
def MKLe (a b : DbPep α) : Prop := cmpMK (mkeyOf a) (mkeyOf b) ≠ .gt
/-- different identities -/
def KeyNe (a b : DbPep α) : Prop := keyOf a ≠ keyOf b

theorem keyNe_of_keyLt {a b : DbPep α} (h : KeyLt a b) : KeyNe a b := by
  intro e; unfold KeyLt at h; rw [e, lawful_cmpK.refl] at h; cases h

theorem sorted_mergeSort_mk (l : List (DbPep α)) : (l.mergeSort massKeyLe).Pairwise MKLe := by
  have := List.pairwise_mergeSort (le := massKeyLe) massKeyLe_trans massKeyLe_total l
  refine this.imp ?_
  intro a b h
  simpa [massKeyLe, cmpMassKey_eq, MKLe] using h

theorem pairwise_keyNe_perm {l l' : List (DbPep α)} (h : l.Perm l') (hp : l.Pairwise KeyNe) : l'.Pairwise KeyNe :=
  (h.pairwise_iff (fun {a b} (hab : KeyNe a b) => fun e => hab e.symm)).1 hp

/-- sorted by (mass, identity) with pairwise different identities = strictly sorted -/
theorem strict_of_sorted_ne {l : List (DbPep α)} (h1 : l.Pairwise MKLe) (h2 : l.Pairwise KeyNe) : l.Pairwise MKLt := by
  refine (h1.and h2).imp ?_
  intro a b ⟨hle, hne⟩
  unfold MKLt
  cases hc : cmpMK (mkeyOf a) (mkeyOf b) with
  | lt => rfl
  | gt => exact absurd hc hle
  | eq =>
    exfalso; apply hne
    have := (lawful_cmpMK.eq_iff _ _).1 hc
    simp only [mkeyOf, Prod.mk.injEq] at this
    exact this.2

theorem mkeyOf_finish (a : DbPep α) : mkeyOf (finishProteins a) = mkeyOf a := rfl

/-- the entries of the database are the merged classes, protein lists cleaned -/
theorem mem_reorder {l : List (DbPep α)} {e : DbPep α} :
    e ∈ reorder l ↔ ∃ e0 ∈ dedupBy (l.mergeSort keyLe), finishProteins e0 = e := by
  simp only [reorder, List.mem_map, List.mem_mergeSort]

/-- no two entries of the database have the same identity -/
theorem reorder_keyNe (l : List (DbPep α)) : (reorder l).Pairwise KeyNe := by
  unfold reorder
  rw [List.pairwise_map]
  have h := (dedupBy_strict _ (sorted_mergeSort_key l)).imp (fun {a b} (h : KeyLt a b) => keyNe_of_keyLt h)
  exact (pairwise_keyNe_perm (List.mergeSort_perm _ _).symm h).imp
    (fun {a b} (h : KeyNe a b) => by simpa [KeyNe, keyOf_finish] using h)

/-- the database is strictly increasing in (mass, identity) -/
theorem reorder_strict (l : List (DbPep α)) : (reorder l).Pairwise MKLt := by
  apply strict_of_sorted_ne _ (reorder_keyNe l)
  unfold reorder
  rw [List.pairwise_map]
  exact (sorted_mergeSort_mk _).imp (fun h => by simpa [MKLe, mkeyOf_finish] using h)

theorem mono_le_of_mkLt {a b : DbPep α} (h : MKLt a b) : a.core.mono ≤ b.core.mono := by
  unfold MKLt cmpMK thenPair at h
  rw [Ordering.then_eq_lt] at h
  rcases h with h | ⟨h, _⟩
  · exact le_of_lt ((cmpOf_lt_iff _ _).1 h)
  · exact le_of_eq ((lawful_cmpOf.eq_iff _ _).1 h)

/-! ## protein lists -/

theorem dedupAdj_head (x : Str) (l : List Str) : ∃ t, dedupAdj (x :: l) = x :: t := by
  induction l generalizing x with
  | nil => exact ⟨[], rfl⟩
  | cons y rest ih =>
    simp only [dedupAdj]
    split
    · rename_i h
      have : x = y := by simpa using h
      subst this; exact ih x
    · exact ⟨_, rfl⟩

theorem dedupAdj_strict (l : List Str) (hs : l.Pairwise (fun a b => leStr a b = true)) :
    strictlyIncreasing (dedupAdj l) = true := by
  induction l with
  | nil => rfl
  | cons x rest ih =>
    cases rest with
    | nil => rfl
    | cons y rest =>
      rw [List.pairwise_cons] at hs
      have ih' := ih hs.2
      simp only [dedupAdj]
      split
      · exact ih'
      · rename_i hne
        obtain ⟨t, ht⟩ := dedupAdj_head y rest
        rw [ht] at ih' ⊢
        simp only [strictlyIncreasing, Bool.and_eq_true]
        refine ⟨?_, ih'⟩
        have hle := hs.1 y List.mem_cons_self
        simp only [leStr, bne_iff_ne] at hle
        simp only [ltStr, beq_iff_eq]
        cases hc : cmpStr x y with
        | lt => rfl
        | gt => exact absurd hc hle
        | eq => exfalso; apply hne; simp [(lawful_cmpStr.eq_iff x y).1 hc]

theorem sortStr_sorted (l : List Str) : (sortStr l).Pairwise (fun a b => leStr a b = true) := by
  apply List.pairwise_mergeSort
  · intro a b c h1 h2
    simp only [leStr, bne_iff_ne] at *
    exact lawful_cmpStr.le_trans h1 h2
  · intro a b
    simp only [leStr, Bool.or_eq_true, bne_iff_ne]
    exact lawful_cmpStr.le_total a b

end key


/-! ## what an entry is merged from -/

section merged
variable {α : Type} [LinearOrder α]

/-- `e` is what `dedup_by` makes of the entries of `keep :: rest` that carry `e`'s key -/
def Merged (keep : DbPep α) (rest : List (DbPep α)) (e : DbPep α) : Prop :=
  (∀ a, a ∈ e.proteins ↔
      (keyOf keep = keyOf e ∧ a ∈ keep.proteins) ∨ ∃ p ∈ rest, keyOf p = keyOf e ∧ a ∈ p.proteins) ∧
  (e.decoy = true ↔
      (keyOf keep = keyOf e → keep.decoy = true) ∧ ∀ p ∈ rest, keyOf p = keyOf e → p.decoy = true) ∧
  (keyOf keep = keyOf e ∨ ∃ p ∈ rest, keyOf p = keyOf e)

theorem keyLt_ne {a b : DbPep α} (h : KeyLt a b) : keyOf a ≠ keyOf b := by
  intro e; unfold KeyLt at h; rw [e, lawful_cmpK.refl] at h; cases h

theorem dedupGo_merged (rest : List (DbPep α)) : ∀ keep : DbPep α, (keep :: rest).Pairwise KeyLe →
    (∀ e ∈ dedupGo keep rest, Merged keep rest e) ∧
    (∀ p ∈ keep :: rest, ∃ e ∈ dedupGo keep rest, keyOf e = keyOf p) := by
  induction rest with
  | nil =>
    intro keep _
    simp [dedupGo, Merged]
  | cons r rest ih =>
    intro keep hp
    have hp0 := hp
    rw [List.pairwise_cons] at hp
    obtain ⟨hk, hp'⟩ := hp
    simp only [dedupGo]
    split
    · rename_i heq
      have hkey : keyOf r = keyOf keep := (keyEq_iff r keep).1 heq
      have hp2 : (merge keep r :: rest).Pairwise KeyLe := by
        rw [List.pairwise_cons]
        refine ⟨fun x hx => ?_, (List.pairwise_cons.1 hp').2⟩
        have := hk x (List.mem_cons_of_mem _ hx)
        simpa [KeyLe, keyOf_merge] using this
      obtain ⟨i1, i2⟩ := ih (merge keep r) hp2
      refine ⟨fun e he => ?_, fun p hp => ?_⟩
      · obtain ⟨m1, m2, m3⟩ := i1 e he
        simp only [keyOf_merge] at m1 m2 m3
        refine ⟨fun a => ?_, ?_, ?_⟩
        · rw [m1 a]
          simp only [merge, List.mem_append, List.mem_cons, exists_eq_or_imp, hkey]
          clear * - hkey
          tauto
        · rw [m2]
          simp only [merge, Bool.and_eq_true, List.mem_cons, forall_eq_or_imp, hkey]
          clear * - hkey
          tauto
        · simp only [List.mem_cons, exists_eq_or_imp, hkey]
          rcases m3 with h | h
          · exact Or.inl h
          · exact Or.inr (Or.inr h)
      · rcases List.mem_cons.1 hp with rfl | hp
        · obtain ⟨e, he, hke⟩ := i2 (merge p r) List.mem_cons_self
          exact ⟨e, he, by simpa [keyOf_merge] using hke⟩
        · rcases List.mem_cons.1 hp with rfl | hp
          · obtain ⟨e, he, hke⟩ := i2 (merge keep p) List.mem_cons_self
            exact ⟨e, he, by rw [hke, keyOf_merge, hkey]⟩
          · exact i2 p (List.mem_cons_of_mem _ hp)
    · rename_i hne
      have hle : KeyLe keep r := hk r List.mem_cons_self
      have hlt : KeyLt keep r := by
        unfold KeyLt
        cases hc : cmpK (keyOf keep) (keyOf r) with
        | lt => rfl
        | gt => exact absurd hc hle
        | eq =>
          exfalso; apply hne
          rw [keyEq_iff]; exact ((lawful_cmpK.eq_iff _ _).1 hc).symm
      have hrest : ∀ x ∈ r :: rest, keyOf x ≠ keyOf keep := by
        intro x hx
        have : KeyLt keep x := by
          rcases List.mem_cons.1 hx with rfl | hx
          · exact hlt
          · exact lawful_cmpK.lt_of_lt_of_le hlt ((List.pairwise_cons.1 hp').1 x hx)
        exact fun e => keyLt_ne this e.symm
      obtain ⟨i1, i2⟩ := ih r hp'
      obtain ⟨_, s2⟩ := dedupGo_strict rest r hp'
      refine ⟨fun e he => ?_, fun p hp => ?_⟩
      · rcases List.mem_cons.1 he with rfl | he
        · refine ⟨fun a => ?_, ?_, Or.inl rfl⟩
          · constructor
            · intro h; exact Or.inl ⟨rfl, h⟩
            · rintro (⟨_, h⟩ | ⟨p, hp, hk', _⟩)
              · exact h
              · exact absurd hk' (hrest p hp)
          · constructor
            · intro h; exact ⟨fun _ => h, fun p hp hk' => absurd hk' (hrest p hp)⟩
            · intro h; exact h.1 rfl
        · obtain ⟨m1, m2, m3⟩ := i1 e he
          have hke : keyOf keep ≠ keyOf e := keyLt_ne (lawful_cmpK.lt_of_lt_of_le hlt (s2 e he))
          refine ⟨fun a => ?_, ?_, ?_⟩
          · rw [m1 a]
            simp only [List.mem_cons, exists_eq_or_imp]
            clear * - hke
            tauto
          · rw [m2]
            simp only [List.mem_cons, forall_eq_or_imp]
            clear * - hke
            tauto
          · simp only [List.mem_cons, exists_eq_or_imp]
            exact Or.inr m3
      · rcases List.mem_cons.1 hp with rfl | hp
        · exact ⟨p, List.mem_cons_self, rfl⟩
        · obtain ⟨e, he, hke⟩ := i2 p hp
          exact ⟨e, List.mem_cons_of_mem _ he, hke⟩

theorem mem_dedupAdj (l : List Str) (a : Str) : a ∈ dedupAdj l ↔ a ∈ l := by
  fun_induction dedupAdj l with
  | case1 => simp
  | case2 => simp
  | case3 x y rest h ih =>
    have : x = y := by simpa using h
    subst this; rw [ih]; simp
  | case4 x y rest h ih => simp only [List.mem_cons, ih]

theorem mem_finish_proteins (p : DbPep α) (a : Str) : a ∈ (finishProteins p).proteins ↔ a ∈ p.proteins := by
  simp only [finishProteins, mem_dedupAdj, sortStr, List.mem_mergeSort]

end merged


/-! ## an entry is the fold of `merge` over its key class; the order inside the class is irrelevant -/

section fold
variable {α : Type} [LinearOrder α]

/-- the elements of `s` that carry the key `k`, in the order of `s` -/
def classOf (k : Key α) (s : List (DbPep α)) : List (DbPep α) := s.filter (fun p => decide (keyOf p = k))

/-- `dedup_by` applied to one run of key-equal elements -/
def mergeAll (c0 : DbPep α) (cs : List (DbPep α)) : DbPep α := cs.foldl merge c0

theorem mem_classOf {k : Key α} {s : List (DbPep α)} {p : DbPep α} : p ∈ classOf k s ↔ p ∈ s ∧ keyOf p = k := by
  simp [classOf, List.mem_filter]

theorem classOf_cons_eq {k : Key α} {p : DbPep α} (s : List (DbPep α)) (h : keyOf p = k) :
    classOf k (p :: s) = p :: classOf k s := by simp [classOf, h]

theorem classOf_cons_ne {k : Key α} {p : DbPep α} (s : List (DbPep α)) (h : keyOf p ≠ k) :
    classOf k (p :: s) = classOf k s := by simp [classOf, h]

theorem classOf_eq_nil {k : Key α} {s : List (DbPep α)} (h : ∀ x ∈ s, keyOf x ≠ k) : classOf k s = [] := by
  simp only [classOf, List.filter_eq_nil_iff, decide_eq_true_eq]; exact h

theorem dedupGo_fold (rest : List (DbPep α)) : ∀ keep : DbPep α, (keep :: rest).Pairwise KeyLe →
    ∀ e ∈ dedupGo keep rest,
      (keyOf e = keyOf keep ∧ e = mergeAll keep (classOf (keyOf keep) rest)) ∨
      (keyOf e ≠ keyOf keep ∧ ∃ c0 cs, classOf (keyOf e) rest = c0 :: cs ∧ e = mergeAll c0 cs) := by
  induction rest with
  | nil =>
    intro keep _ e he
    simp only [dedupGo, List.mem_singleton] at he
    subst he
    exact Or.inl ⟨rfl, rfl⟩
  | cons r rest ih =>
    intro keep hp e he
    rw [List.pairwise_cons] at hp
    obtain ⟨hk, hp'⟩ := hp
    simp only [dedupGo] at he
    split at he
    · rename_i heq
      have hkey : keyOf r = keyOf keep := (keyEq_iff r keep).1 heq
      have hp2 : (merge keep r :: rest).Pairwise KeyLe := by
        rw [List.pairwise_cons]
        refine ⟨fun x hx => ?_, (List.pairwise_cons.1 hp').2⟩
        have := hk x (List.mem_cons_of_mem _ hx)
        simpa [KeyLe, keyOf_merge] using this
      rcases ih (merge keep r) hp2 e he with ⟨h1, h2⟩ | ⟨h1, c0, cs, h2, h3⟩
      · left
        rw [keyOf_merge] at h1 h2
        refine ⟨h1, ?_⟩
        rw [classOf_cons_eq rest hkey]
        exact h2
      · right
        rw [keyOf_merge] at h1
        refine ⟨h1, c0, cs, ?_, h3⟩
        rw [classOf_cons_ne rest (by rw [hkey]; exact fun h => h1 h.symm)]
        exact h2
    · rename_i hne
      have hle : KeyLe keep r := hk r List.mem_cons_self
      have hlt : KeyLt keep r := by
        unfold KeyLt
        cases hc : cmpK (keyOf keep) (keyOf r) with
        | lt => rfl
        | gt => exact absurd hc hle
        | eq =>
          exfalso; apply hne
          rw [keyEq_iff]; exact ((lawful_cmpK.eq_iff _ _).1 hc).symm
      have hrest : ∀ x ∈ r :: rest, keyOf x ≠ keyOf keep := by
        intro x hx
        have : KeyLt keep x := by
          rcases List.mem_cons.1 hx with rfl | hx
          · exact hlt
          · exact lawful_cmpK.lt_of_lt_of_le hlt ((List.pairwise_cons.1 hp').1 x hx)
        exact fun e => keyLt_ne this e.symm
      rcases List.mem_cons.1 he with rfl | he
      · left
        refine ⟨rfl, ?_⟩
        rw [classOf_eq_nil hrest]; rfl
      · right
        obtain ⟨_, s2⟩ := dedupGo_strict rest r hp'
        have hke : keyOf e ≠ keyOf keep :=
          fun h => keyLt_ne (lawful_cmpK.lt_of_lt_of_le hlt (s2 e he)) h.symm
        refine ⟨hke, ?_⟩
        rcases ih r hp' e he with ⟨h1, h2⟩ | ⟨h1, c0, cs, h2, h3⟩
        · refine ⟨r, classOf (keyOf r) rest, ?_, h2⟩
          rw [h1, classOf_cons_eq rest rfl]
        · refine ⟨c0, cs, ?_, h3⟩
          rw [classOf_cons_ne rest (fun h => h1 h.symm)]
          exact h2

/-- every entry left by `dedup_by` on a key-sorted vector is the fold of `merge` over its key class -/
theorem dedupBy_fold (s : List (DbPep α)) (hs : s.Pairwise KeyLe) :
    ∀ e ∈ dedupBy s, ∃ c0 cs, classOf (keyOf e) s = c0 :: cs ∧ e = mergeAll c0 cs := by
  cases s with
  | nil => simp [dedupBy]
  | cons k rest =>
    intro e he
    rcases dedupGo_fold rest k hs e he with ⟨h1, h2⟩ | ⟨h1, c0, cs, h2, h3⟩
    · exact ⟨k, classOf (keyOf k) rest, by rw [h1, classOf_cons_eq rest rfl], h2⟩
    · exact ⟨c0, cs, by rw [classOf_cons_ne rest (fun h => h1 h.symm)]; exact h2, h3⟩

theorem dedupBy_cover (s : List (DbPep α)) (hs : s.Pairwise KeyLe) :
    ∀ p ∈ s, ∃ e ∈ dedupBy s, keyOf e = keyOf p := by
  cases s with
  | nil => simp
  | cons k rest => exact (dedupGo_merged rest k hs).2

/-! ### the fields of a fold -/

theorem keyOf_mergeAll (cs : List (DbPep α)) : ∀ c0 : DbPep α, keyOf (mergeAll c0 cs) = keyOf c0 := by
  induction cs with
  | nil => intro c0; rfl
  | cons c cs ih => intro c0; simp only [mergeAll, List.foldl_cons] at ih ⊢; rw [ih, keyOf_merge]

theorem decoy_mergeAll (cs : List (DbPep α)) : ∀ c0 : DbPep α,
    (mergeAll c0 cs).decoy = (c0 :: cs).all (·.decoy) := by
  induction cs with
  | nil => intro c0; simp [mergeAll]
  | cons c cs ih =>
    intro c0
    simp only [mergeAll, List.foldl_cons] at ih ⊢
    rw [ih]; simp [merge, Bool.and_assoc]

theorem semi_mergeAll (cs : List (DbPep α)) : ∀ c0 : DbPep α,
    (mergeAll c0 cs).semi = (c0 :: cs).all (·.semi) := by
  induction cs with
  | nil => intro c0; simp [mergeAll]
  | cons c cs ih =>
    intro c0
    simp only [mergeAll, List.foldl_cons] at ih ⊢
    rw [ih]; simp [merge, Bool.and_assoc]

theorem proteins_mergeAll (cs : List (DbPep α)) : ∀ c0 : DbPep α,
    (mergeAll c0 cs).proteins = (c0 :: cs).flatMap (·.proteins) := by
  induction cs with
  | nil => intro c0; simp [mergeAll]
  | cons c cs ih =>
    intro c0
    simp only [mergeAll, List.foldl_cons] at ih ⊢
    rw [ih]; simp [merge]

/-- "least value over the class, and attained" for a `Nat`-valued attribute that `merge` minimises -/
theorem min_mergeAll (f : DbPep α → Nat) (hf : ∀ a b, f (merge a b) = min (f a) (f b)) (cs : List (DbPep α)) :
    ∀ c0 : DbPep α, (∀ p ∈ c0 :: cs, f (mergeAll c0 cs) ≤ f p) ∧ ∃ p ∈ c0 :: cs, f (mergeAll c0 cs) = f p := by
  induction cs with
  | nil => intro c0; simp [mergeAll]
  | cons c cs ih =>
    intro c0
    simp only [mergeAll, List.foldl_cons] at ih ⊢
    obtain ⟨h1, p, hp, h2⟩ := ih (merge c0 c)
    have hm := hf c0 c
    refine ⟨fun q hq => ?_, ?_⟩
    · rcases List.mem_cons.1 hq with rfl | hq
      · have := h1 _ List.mem_cons_self; omega
      · rcases List.mem_cons.1 hq with rfl | hq
        · have := h1 _ List.mem_cons_self; omega
        · exact h1 q (List.mem_cons_of_mem _ hq)
    · rcases List.mem_cons.1 hp with rfl | hp
      · by_cases hc : f c0 ≤ f c
        · exact ⟨c0, List.mem_cons_self, by rw [h2, hm]; omega⟩
        · exact ⟨c, List.mem_cons_of_mem _ List.mem_cons_self, by rw [h2, hm]; omega⟩
      · exact ⟨p, List.mem_cons_of_mem _ (List.mem_cons_of_mem _ hp), h2⟩

theorem pos6Rank_posMin (a b : C06.Position) : pos6Rank (posMin a b) = min (pos6Rank a) (pos6Rank b) := by
  unfold posMin; split <;> omega

theorem pos6Rank_inj {a b : C06.Position} (h : pos6Rank a = pos6Rank b) : a = b := by
  cases a <;> cases b <;> simp_all [pos6Rank]

theorem mc_merge (a b : DbPep α) : (merge a b).mc = min a.mc b.mc := rfl
theorem pos_merge (a b : DbPep α) :
    pos6Rank (merge a b).core.position = min (pos6Rank a.core.position) (pos6Rank b.core.position) :=
  pos6Rank_posMin _ _

theorem minOf_le_left (a b : α) : minOf a b ≤ a := by
  unfold minOf; split
  · exact le_of_lt ‹_›
  · exact le_refl _

theorem minOf_le_right (a b : α) : minOf a b ≤ b := by
  unfold minOf; split
  · exact le_refl _
  · exact not_lt.1 ‹_›

theorem minOf_eq_or (a b : α) : minOf a b = a ∨ minOf a b = b := by
  unfold minOf; split
  · exact Or.inr rfl
  · exact Or.inl rfl

theorem mono_merge (a b : DbPep α) : (merge a b).core.mono = minOf a.core.mono b.core.mono := rfl

/-- the mass of a merged class is the least mass of its members (and is the mass of one of them) -/
theorem mono_mergeAll (cs : List (DbPep α)) : ∀ c0 : DbPep α,
    (∀ p ∈ c0 :: cs, (mergeAll c0 cs).core.mono ≤ p.core.mono) ∧
    ∃ p ∈ c0 :: cs, (mergeAll c0 cs).core.mono = p.core.mono := by
  induction cs with
  | nil => intro c0; simp [mergeAll]
  | cons c cs ih =>
    intro c0
    simp only [mergeAll, List.foldl_cons] at ih ⊢
    obtain ⟨h1, p, hp, h2⟩ := ih (merge c0 c)
    have hm := mono_merge c0 c
    refine ⟨fun q hq => ?_, ?_⟩
    · rcases List.mem_cons.1 hq with rfl | hq
      · exact le_trans (h1 _ List.mem_cons_self) (by rw [hm]; exact minOf_le_left _ _)
      · rcases List.mem_cons.1 hq with rfl | hq
        · exact le_trans (h1 _ List.mem_cons_self) (by rw [hm]; exact minOf_le_right _ _)
        · exact h1 q (List.mem_cons_of_mem _ hq)
    · rcases List.mem_cons.1 hp with rfl | hp
      · rcases minOf_eq_or c0.core.mono c.core.mono with e | e
        · exact ⟨c0, List.mem_cons_self, by rw [h2, hm, e]⟩
        · exact ⟨c, List.mem_cons_of_mem _ List.mem_cons_self, by rw [h2, hm, e]⟩
      · exact ⟨p, List.mem_cons_of_mem _ (List.mem_cons_of_mem _ hp), h2⟩

/-! ### the order inside a class does not matter -/

theorem sortStr_perm {l l' : List Str} (h : l.Perm l') : sortStr l = sortStr l' := by
  apply List.Perm.eq_of_pairwise (le := fun a b => leStr a b = true)
  · intro a b _ _ h1 h2
    simp only [leStr, bne_iff_ne] at h1 h2
    exact lawful_cmpStr.le_antisymm h1 h2
  · exact sortStr_sorted l
  · exact sortStr_sorted l'
  · exact ((List.mergeSort_perm l _).trans h).trans (List.mergeSort_perm l' _).symm

theorem DbPep.ext' {a b : DbPep α} (h1 : a.decoy = b.decoy) (h2 : a.core = b.core) (h3 : a.mc = b.mc)
    (h4 : a.semi = b.semi) (h5 : a.proteins = b.proteins) : a = b := by
  cases a; cases b; simp_all

theorem core_ext {a b : C06.Peptide α} (h0 : a.position = b.position) (h1 : a.sequence = b.sequence)
    (h2 : a.mods = b.mods) (h3 : a.nterm = b.nterm) (h4 : a.cterm = b.cterm) (h5 : a.mono = b.mono) : a = b := by
  cases a; cases b; simp_all

/-- **C08.merge_class_perm** — the entry made of a class of key-equal duplicates does not depend on the order
in which the sort delivered them (in particular not on which one came first and was "kept"): proteins are a
sorted union, `decoy` / `semi_enzymatic` are conjunctions, `missed_cleavages` / `position` / mass are minima. -/
theorem merge_class_perm (c0 d0 : DbPep α) (cs ds : List (DbPep α)) (hp : (c0 :: cs).Perm (d0 :: ds))
    (hk : ∀ p ∈ c0 :: cs, keyOf p = keyOf c0) :
    finishProteins (mergeAll c0 cs) = finishProteins (mergeAll d0 ds) := by
  have hkd : keyOf d0 = keyOf c0 := hk d0 (hp.symm.subset List.mem_cons_self)
  have hkey : keyOf (mergeAll c0 cs) = keyOf (mergeAll d0 ds) := by
    rw [keyOf_mergeAll, keyOf_mergeAll, hkd]
  simp only [keyOf, Prod.mk.injEq] at hkey
  obtain ⟨k2, k3, k4, k5⟩ := hkey
  have k1 : (mergeAll c0 cs).core.mono = (mergeAll d0 ds).core.mono := by
    obtain ⟨l1, p1, hp1, e1⟩ := mono_mergeAll cs c0
    obtain ⟨l2, p2, hp2, e2⟩ := mono_mergeAll ds d0
    have a1 := l2 p1 (hp.subset hp1)
    have a2 := l1 p2 (hp.symm.subset hp2)
    rw [← e1] at a1; rw [← e2] at a2
    exact le_antisymm a2 a1
  have minEq : ∀ f : DbPep α → Nat, (∀ a b, f (merge a b) = min (f a) (f b)) →
      f (mergeAll c0 cs) = f (mergeAll d0 ds) := by
    intro f hf
    obtain ⟨l1, p1, hp1, e1⟩ := min_mergeAll f hf cs c0
    obtain ⟨l2, p2, hp2, e2⟩ := min_mergeAll f hf ds d0
    have a1 := l2 p1 (hp.subset hp1)
    have a2 := l1 p2 (hp.symm.subset hp2)
    omega
  apply DbPep.ext'
  · show (mergeAll c0 cs).decoy = (mergeAll d0 ds).decoy
    rw [decoy_mergeAll, decoy_mergeAll]; exact hp.all_eq
  · show (mergeAll c0 cs).core = (mergeAll d0 ds).core
    exact core_ext (pos6Rank_inj (minEq (fun p => pos6Rank p.core.position) pos_merge)) k2 k3 k4 k5 k1
  · exact minEq _ mc_merge
  · show (mergeAll c0 cs).semi = (mergeAll d0 ds).semi
    rw [semi_mergeAll, semi_mergeAll]; exact hp.all_eq
  · show dedupAdj (sortStr (mergeAll c0 cs).proteins) = dedupAdj (sortStr (mergeAll d0 ds).proteins)
    rw [proteins_mergeAll, proteins_mergeAll, sortStr_perm (List.Perm.flatMap_right _ hp)]

/-- any two key-sorted arrangements of the same multiset give the same database -/
theorem dedup_canonical (s1 s2 : List (DbPep α)) (hp : s1.Perm s2) (h1 : s1.Pairwise KeyLe) (h2 : s2.Pairwise KeyLe) :
    (dedupBy s1).map finishProteins = (dedupBy s2).map finishProteins := by
  have strict : ∀ s : List (DbPep α), s.Pairwise KeyLe → ((dedupBy s).map finishProteins).Pairwise KeyLt := by
    intro s hs
    rw [List.pairwise_map]
    exact (dedupBy_strict _ hs).imp (fun h => by simpa [KeyLt, keyOf_finish] using h)
  have sub : ∀ s s' : List (DbPep α), s.Perm s' → s.Pairwise KeyLe → s'.Pairwise KeyLe →
      ∀ x ∈ (dedupBy s).map finishProteins, x ∈ (dedupBy s').map finishProteins := by
    intro s s' hp hs hs' x hx
    obtain ⟨e, he, rfl⟩ := List.mem_map.1 hx
    obtain ⟨c0, cs, hc, rfl⟩ := dedupBy_fold s hs e he
    have hc0 : c0 ∈ s ∧ keyOf c0 = keyOf (mergeAll c0 cs) := mem_classOf.1 (by rw [hc]; exact List.mem_cons_self)
    obtain ⟨e', he', hke'⟩ := dedupBy_cover s' hs' c0 (hp.subset hc0.1)
    obtain ⟨d0, ds, hd, rfl⟩ := dedupBy_fold s' hs' e' he'
    have hkk : keyOf (mergeAll d0 ds) = keyOf (mergeAll c0 cs) := by rw [hke', hc0.2]
    have hperm : (c0 :: cs).Perm (d0 :: ds) := by
      rw [← hc, ← hd, hkk]
      exact hp.filter _
    have hk : ∀ p ∈ c0 :: cs, keyOf p = keyOf c0 := by
      intro p hp'
      rw [← hc] at hp'
      rw [(mem_classOf.1 hp').2, keyOf_mergeAll]
    rw [merge_class_perm c0 d0 cs ds hperm hk]
    exact List.mem_map.2 ⟨_, he', rfl⟩
  have nd : ∀ l : List (DbPep α), l.Pairwise KeyLt → l.Nodup := by
    intro l h
    unfold List.Nodup
    refine h.imp ?_
    intro a b hab e
    exact keyLt_ne hab (by rw [e])
  have hperm : ((dedupBy s1).map finishProteins).Perm ((dedupBy s2).map finishProteins) :=
    (List.perm_ext_iff_of_nodup (nd _ (strict s1 h1)) (nd _ (strict s2 h2))).2
      (fun x => ⟨sub s1 s2 hp h1 h2 x, sub s2 s1 hp.symm h2 h1 x⟩)
  apply List.Perm.eq_of_pairwise (le := KeyLt) _ (strict s1 h1) (strict s2 h2) hperm
  intro a b _ _ hab hba
  exfalso
  have := lawful_cmpK.lt_trans _ _ _ hab hba
  rw [lawful_cmpK.refl] at this; cases this

end fold

/-! ## the target set -/

theorem mem_insertSet (s : List Str) (x y : Str) : y ∈ insertSet s x ↔ y = x ∨ y ∈ s := by
  unfold insertSet
  split
  · rename_i h
    have hx : x ∈ s := by simpa using h
    constructor
    · exact Or.inr
    · rintro (rfl | h') <;> assumption
  · simp

theorem mem_foldl_insertSet (l : List Str) (s : List Str) (y : Str) :
    y ∈ l.foldl insertSet s ↔ y ∈ s ∨ y ∈ l := by
  induction l generalizing s with
  | nil => simp
  | cons x xs ih =>
    simp only [List.foldl_cons, ih, mem_insertSet, List.mem_cons]
    constructor
    · rintro ((rfl | h) | h)
      · exact Or.inr (Or.inl rfl)
      · exact Or.inl h
      · exact Or.inr (Or.inr h)
    · rintro (h | rfl | h)
      · exact Or.inl (Or.inr h)
      · exact Or.inl (Or.inl rfl)
      · exact Or.inr h

/-- the members of the target set after the insert phase are exactly the inserted sequences -/
theorem mem_targetSet (order : List Str) (y : Str) : y ∈ targetSet order ↔ y ∈ order := by
  simp [targetSet, mem_foldl_insertSet]

section sched
variable {α : Type} [Add α] [OfNat α 0] [BEq α] [LE α] [DecidableLE α]

theorem groupPeptides_congr (cfg : Cfg α) (T T' : List Str) (h : ∀ y, y ∈ T ↔ y ∈ T') (g : Group) :
    groupPeptides cfg T g = groupPeptides cfg T' g := by
  unfold groupPeptides
  simp only
  apply List.filter_congr
  intro p _
  have : T.contains p.core.sequence = T'.contains p.core.sequence := by
    rw [Bool.eq_iff_iff]; simp [h]
  rw [this]

end sched

/-! ## data for the non-vacuity examples -/

namespace Ex

/-- a toy entry over `Nat` masses: sequence `GK` -/
def mk (mass : Nat) (nterm : Option Nat) (decoy : Bool) (pos : C06.Position) (prots : List Str) : DbPep Nat :=
  { decoy := decoy
    core := { position := pos, sequence := [71, 75], mods := [0, 0], nterm := nterm, cterm := none, mono := mass }
    mc := 0, semi := false, proteins := prots }

/-- two key-equal duplicates (one from an N-terminal, one from an internal occurrence; proteins `P2` and
    `P1, P2`; one a target, one a decoy) and a third entry with an N-terminal modification -/
def l : List (DbPep Nat) :=
  [mk 203 none false .nterm [[80, 50]], mk 203 none true .internal [[80, 49], [80, 50]],
   mk 245 (some 42) true .nterm [[81]]]

theorem reorder_l : (reorder l).map (fun e => (e.core.mono, e.decoy, e.proteins)) =
    [(203, false, [[80, 49], [80, 50]]), (245, true, [[81]])] := by
  have hs : l.Pairwise (fun a b => keyLe a b = true) := by decide
  unfold reorder
  rw [List.mergeSort_of_pairwise hs]
  simp [l, mk, dedupBy, dedupGo, keyEq, cmpKey, cmpOf, lexList, cmpNat, cmpOpt, merge, finishProteins, dedupAdj,
    sortStr, List.mergeSort, List.MergeSort.Internal.splitInTwo, leStr, cmpStr, Ordering.then, massKeyLe,
    cmpMassKey, minOf, List.merge, posMin, pos6Rank]

def par : C05.Params :=
  { mc := 0, minLen := 2, maxLen := 10
    enzyme := some { pat := .cls [75], skip := none, cTerminal := true, semi := false } }

/-- toy residue table: A = 71, C = 103, G = 57, K = 128 -/
def table : List Nat := [71, 0, 103, 0, 0, 0, 57, 0, 0, 0, 128, 0, 0, 0, 0, 0, 0, 0, 0, 0, 0, 0, 0, 0, 0, 0]

def cfg : Cfg Nat :=
  { par := par, tag := [114, 101, 118, 95], gen := true, h2o := 18, table := table,
    vars := [(.peptideN none, 42)], statics := [], maxVar := 1, lo := 0, hi := 100000 }

/-- `>P1 AAKGGK`, `>P2 GGKCCK`: the peptide GGK is shared (C-terminal in P1, N-terminal in P2) -/
def fasta : List (C05.Seq × C05.Seq) :=
  [([80, 49], [65, 65, 75, 71, 71, 75]), ([80, 50], [71, 71, 75, 67, 67, 75])]

end Ex

/-! ## property theorems -/

section props
variable {α : Type} [LinearOrder α]

/-- **C08.db_sorted_unique** — for ANY vector of peptides handed to `reorder_peptides` — whatever masses its
elements carry — the result is sorted by mass and NO TWO ENTRIES AGREE ON (sequence, modifications, nterm, cterm).
(It is strictly increasing in (mass, sequence, modifications, nterm, cterm): `reorder_strict`.) -/
theorem db_sorted_unique (l : List (DbPep α)) :
    (reorder l).Pairwise (fun a b => a.core.mono ≤ b.core.mono) ∧
    (reorder l).Pairwise (fun a b => keyEq a b = false) := by
  refine ⟨(reorder_strict l).imp (fun h => mono_le_of_mkLt h), (reorder_keyNe l).imp (fun {a b} h => ?_)⟩
  cases hk : keyEq a b with
  | false => rfl
  | true => exact absurd ((keyEq_iff a b).1 hk) h

example : ∃ l : List (DbPep Nat), (reorder l).length < l.length ∧ 1 < (reorder l).length :=
  ⟨Ex.l, by
    have h := congrArg List.length Ex.reorder_l
    simp only [List.length_map, List.length_cons, List.length_nil] at h
    rw [h]; simp [Ex.l]⟩

/-- **C08.db_proteins_sorted_set** — every entry's protein list is strictly increasing in byte order
(sorted and duplicate-free). -/
theorem db_proteins_sorted_set (l : List (DbPep α)) :
    ∀ e ∈ reorder l, strictlyIncreasing e.proteins = true := by
  intro e he
  unfold reorder at he
  obtain ⟨p, _, rfl⟩ := List.mem_map.1 he
  exact dedupAdj_strict _ (sortStr_sorted _)

example : ∃ l : List (DbPep Nat), ∃ e ∈ reorder l, e.proteins = [[80, 49], [80, 50]] := by
  refine ⟨Ex.l, ?_⟩
  have h := Ex.reorder_l
  cases hr : reorder Ex.l with
  | nil => rw [hr] at h; simp at h
  | cons e rest =>
    rw [hr] at h
    refine ⟨e, List.mem_cons_self, ?_⟩
    simp only [List.map_cons, List.cons.injEq, Prod.mk.injEq] at h
    exact h.1.2.2

/-- (part of `db_entries_exact`) for ANY vector `l` handed to `reorder_peptides`: every entry of the result
carries the key of some element of `l`; its protein list has exactly the accessions listed by the elements of
`l` with that key; it is a decoy iff every element of `l` with that key is; and every element of `l` is
represented by an entry with its key. (With `db_sorted_unique` and `db_proteins_sorted_set`: the entry is the
sorted set of those accessions, and it is the only entry with that key.) -/
theorem db_entries_proteins_decoy (l : List (DbPep α)) :
    (∀ e ∈ reorder l,
      (∃ p ∈ l, keyOf p = keyOf e) ∧
      (∀ a, a ∈ e.proteins ↔ ∃ p ∈ l, keyOf p = keyOf e ∧ a ∈ p.proteins) ∧
      (e.decoy = true ↔ ∀ p ∈ l, keyOf p = keyOf e → p.decoy = true)) ∧
    (∀ p ∈ l, ∃ e ∈ reorder l, keyOf e = keyOf p) := by
  have hs := sorted_mergeSort_key l
  have hmem : ∀ x, x ∈ l.mergeSort keyLe ↔ x ∈ l := fun x => List.mem_mergeSort
  unfold reorder
  cases hsl : l.mergeSort keyLe with
  | nil =>
    have : l = [] := by
      have := congrArg List.length hsl
      simpa using this
    subst this; simp [dedupBy]
  | cons k rest =>
    rw [hsl] at hs
    obtain ⟨m, c⟩ := dedupGo_merged rest k hs
    have hmem' : ∀ x, x ∈ l ↔ x = k ∨ x ∈ rest := by
      intro x; rw [← hmem x, hsl]; simp
    refine ⟨fun e he => ?_, fun p hp => ?_⟩
    · obtain ⟨e0, he0, rfl⟩ := List.mem_map.1 he
      replace he0 : e0 ∈ dedupGo k rest := List.mem_mergeSort.1 he0
      obtain ⟨m1, m2, m3⟩ := m e0 he0
      simp only [keyOf_finish, mem_finish_proteins]
      refine ⟨?_, fun a => ?_, ?_⟩
      · rcases m3 with h | ⟨p, hp, h⟩
        · exact ⟨k, (hmem' k).2 (Or.inl rfl), h⟩
        · exact ⟨p, (hmem' p).2 (Or.inr hp), h⟩
      · rw [m1 a]
        constructor
        · rintro (⟨h1, h2⟩ | ⟨p, hp, h1, h2⟩)
          · exact ⟨k, (hmem' k).2 (Or.inl rfl), h1, h2⟩
          · exact ⟨p, (hmem' p).2 (Or.inr hp), h1, h2⟩
        · rintro ⟨p, hp, h1, h2⟩
          rcases (hmem' p).1 hp with rfl | hp
          · exact Or.inl ⟨h1, h2⟩
          · exact Or.inr ⟨p, hp, h1, h2⟩
      · show e0.decoy = true ↔ _
        rw [m2]
        constructor
        · rintro ⟨h1, h2⟩ p hp hk
          rcases (hmem' p).1 hp with rfl | hp
          · exact h1 hk
          · exact h2 p hp hk
        · intro h
          exact ⟨fun hk => h k ((hmem' k).2 (Or.inl rfl)) hk, fun p hp hk => h p ((hmem' p).2 (Or.inr hp)) hk⟩
    · obtain ⟨e, he, hke⟩ := c p (by rw [← hsl]; exact (hmem p).2 hp)
      exact ⟨finishProteins e, List.mem_map.2 ⟨e, List.mem_mergeSort.2 he, rfl⟩, by rw [keyOf_finish, hke]⟩

/-- the per-occurrence attributes of an entry: `semi_enzymatic` is the conjunction, `missed_cleavages` and
`position` and the mass are the least values (attained) over the elements of `l` with the entry's key -/
theorem db_entries_fields (l : List (DbPep α)) :
    ∀ e ∈ reorder l,
      (e.semi = true ↔ ∀ p ∈ l, keyOf p = keyOf e → p.semi = true) ∧
      ((∀ p ∈ l, keyOf p = keyOf e → e.mc ≤ p.mc) ∧ ∃ p ∈ l, keyOf p = keyOf e ∧ e.mc = p.mc) ∧
      ((∀ p ∈ l, keyOf p = keyOf e → pos6Rank e.core.position ≤ pos6Rank p.core.position) ∧
        ∃ p ∈ l, keyOf p = keyOf e ∧ e.core.position = p.core.position) ∧
      ((∀ p ∈ l, keyOf p = keyOf e → e.core.mono ≤ p.core.mono) ∧
        ∃ p ∈ l, keyOf p = keyOf e ∧ e.core.mono = p.core.mono) := by
  intro e he
  unfold reorder at he
  obtain ⟨e0, he0, rfl⟩ := List.mem_map.1 he
  replace he0 : e0 ∈ dedupBy (l.mergeSort keyLe) := List.mem_mergeSort.1 he0
  obtain ⟨c0, cs, hc, rfl⟩ := dedupBy_fold _ (sorted_mergeSort_key l) e0 he0
  have hcl : ∀ p, p ∈ c0 :: cs ↔ p ∈ l ∧ keyOf p = keyOf (mergeAll c0 cs) := by
    intro p; rw [← hc, mem_classOf, List.mem_mergeSort]
  simp only [keyOf_finish]
  refine ⟨?_, ?_, ?_, ?_⟩
  · show (mergeAll c0 cs).semi = true ↔ _
    rw [semi_mergeAll, List.all_eq_true]
    constructor
    · intro h p hp hk; exact h p ((hcl p).2 ⟨hp, hk⟩)
    · intro h p hp; exact h p ((hcl p).1 hp).1 ((hcl p).1 hp).2
  · obtain ⟨h1, p, hp, h2⟩ := min_mergeAll (fun p => p.mc) mc_merge cs c0
    exact ⟨fun q hq hk => h1 q ((hcl q).2 ⟨hq, hk⟩), p, ((hcl p).1 hp).1, ((hcl p).1 hp).2, h2⟩
  · obtain ⟨h1, p, hp, h2⟩ := min_mergeAll (fun p => pos6Rank p.core.position) pos_merge cs c0
    exact ⟨fun q hq hk => h1 q ((hcl q).2 ⟨hq, hk⟩), p, ((hcl p).1 hp).1, ((hcl p).1 hp).2, pos6Rank_inj h2⟩
  · obtain ⟨h1, p, hp, h2⟩ := mono_mergeAll cs c0
    exact ⟨fun q hq hk => h1 q ((hcl q).2 ⟨hq, hk⟩), p, ((hcl p).1 hp).1, ((hcl p).1 hp).2, h2⟩

/-- **C08.db_entries_exact** — for ANY vector `l` handed to `reorder_peptides`, every entry `e` of the result
is determined by the elements of `l` that carry its key (there is at least one): its protein list has exactly
their accessions; it is a decoy iff all of them are; it is semi-enzymatic iff all of them are; its
`missed_cleavages`, `position` and mass are the least among theirs (and attained); and every element of `l` is
represented by an entry with its key (the key being sequence, modifications, nterm, cterm — no mass). -/
theorem db_entries_exact (l : List (DbPep α)) :
    (∀ e ∈ reorder l,
      (∃ p ∈ l, keyOf p = keyOf e) ∧
      (∀ a, a ∈ e.proteins ↔ ∃ p ∈ l, keyOf p = keyOf e ∧ a ∈ p.proteins) ∧
      (e.decoy = true ↔ ∀ p ∈ l, keyOf p = keyOf e → p.decoy = true) ∧
      (e.semi = true ↔ ∀ p ∈ l, keyOf p = keyOf e → p.semi = true) ∧
      ((∀ p ∈ l, keyOf p = keyOf e → e.mc ≤ p.mc) ∧ ∃ p ∈ l, keyOf p = keyOf e ∧ e.mc = p.mc) ∧
      ((∀ p ∈ l, keyOf p = keyOf e → pos6Rank e.core.position ≤ pos6Rank p.core.position) ∧
        ∃ p ∈ l, keyOf p = keyOf e ∧ e.core.position = p.core.position) ∧
      ((∀ p ∈ l, keyOf p = keyOf e → e.core.mono ≤ p.core.mono) ∧
        ∃ p ∈ l, keyOf p = keyOf e ∧ e.core.mono = p.core.mono)) ∧
    (∀ p ∈ l, ∃ e ∈ reorder l, keyOf e = keyOf p) := by
  refine ⟨fun e he => ?_, (db_entries_proteins_decoy l).2⟩
  obtain ⟨a1, a2, a3⟩ := (db_entries_proteins_decoy l).1 e he
  obtain ⟨b1, b2, b3, b4⟩ := db_entries_fields l e he
  exact ⟨a1, a2, a3, b1, b2, b3, b4⟩

theorem eq_of_perm_of_strict {X Y : List (DbPep α)} (h : X.Perm Y) (hx : X.Pairwise MKLt) (hy : Y.Pairwise MKLt) :
    X = Y := by
  apply List.Perm.eq_of_pairwise (le := MKLt) _ hx hy h
  intro a b _ _ hab hba
  exfalso
  have := lawful_cmpMK.lt_trans _ _ _ hab hba
  rw [lawful_cmpMK.refl] at this; cases this

/-- **C08.reorder_sort_irrelevant** — the database does not depend on what the two (unstable) sorts of
`reorder_peptides` do with elements they do not separate: for ANY arrangement `s` of the input that is sorted by
the identity key — whichever duplicate comes first in each class — and ANY arrangement `s2` of the merged forms
that is sorted by (mass, identity), the result after the protein clean-up is exactly the database of the model. -/
theorem reorder_sort_irrelevant (l s s2 : List (DbPep α)) (hp : s.Perm l) (hs : s.Pairwise KeyLe)
    (hp2 : s2.Perm (dedupBy s)) (hs2 : s2.Pairwise MKLe) : s2.map finishProteins = reorder l := by
  have hc := dedup_canonical s (l.mergeSort keyLe) (hp.trans (List.mergeSort_perm l _).symm) hs (sorted_mergeSort_key l)
  have hperm : (s2.map finishProteins).Perm (reorder l) := by
    unfold reorder
    refine (hp2.map _).trans ?_
    rw [hc]
    exact ((List.mergeSort_perm _ _).map _).symm
  apply eq_of_perm_of_strict hperm _ (reorder_strict l)
  apply strict_of_sorted_ne
  · rw [List.pairwise_map]
    exact hs2.imp (fun h => by simpa [MKLe, mkeyOf_finish] using h)
  · exact pairwise_keyNe_perm hperm.symm (reorder_keyNe l)

/-- non-vacuity: `Ex.l` with its two key-equal duplicates swapped is another key-sorted arrangement; its merged
    forms `[GK, [+42]-GK]` are already sorted by (mass, identity) -/
example : ∃ s : List (DbPep Nat), s ≠ Ex.l ∧ s.Perm Ex.l ∧ s.Pairwise KeyLe ∧ (dedupBy s).Pairwise MKLe ∧
    (dedupBy s).map finishProteins = reorder Ex.l := by
  have hk : ∀ a b : DbPep Nat, KeyLe a b ↔ keyLe a b = true := by
    intro a b; simp [KeyLe, keyLe, cmpKey_eq]
  have hm : ∀ a b : DbPep Nat, MKLe a b ↔ massKeyLe a b = true := by
    intro a b; simp [MKLe, massKeyLe, cmpMassKey_eq]
  have hs : List.Pairwise (KeyLe (α := Nat))
      [Ex.mk 203 none true .internal [[80, 49], [80, 50]], Ex.mk 203 none false .nterm [[80, 50]],
       Ex.mk 245 (some 42) true .nterm [[81]]] := by
    have h : List.Pairwise (fun a b : DbPep Nat => keyLe a b = true)
        [Ex.mk 203 none true .internal [[80, 49], [80, 50]], Ex.mk 203 none false .nterm [[80, 50]],
         Ex.mk 245 (some 42) true .nterm [[81]]] := by decide
    exact h.imp (fun h => (hk _ _).2 h)
  have hs2 : List.Pairwise (MKLe (α := Nat))
      (dedupBy [Ex.mk 203 none true .internal [[80, 49], [80, 50]], Ex.mk 203 none false .nterm [[80, 50]],
       Ex.mk 245 (some 42) true .nterm [[81]]]) := by
    have h : List.Pairwise (fun a b : DbPep Nat => massKeyLe a b = true)
        (dedupBy [Ex.mk 203 none true .internal [[80, 49], [80, 50]], Ex.mk 203 none false .nterm [[80, 50]],
         Ex.mk 245 (some 42) true .nterm [[81]]]) := by decide
    exact h.imp (fun h => (hm _ _).2 h)
  exact ⟨_, by decide, List.Perm.swap _ _ _, hs, hs2,
    reorder_sort_irrelevant _ _ _ (List.Perm.swap _ _ _) hs (List.Perm.refl _) hs2⟩

/-- non-vacuity: in `Ex.l` the first entry merges a target listing `P2` and a decoy listing `P1, P2`:
    it lists `P1, P2` and is a target -/
example : ∃ e ∈ reorder Ex.l, e.proteins = [[80, 49], [80, 50]] ∧ e.decoy = false := by
  have h := Ex.reorder_l
  cases hr : reorder Ex.l with
  | nil => rw [hr] at h; simp at h
  | cons e rest =>
    rw [hr] at h
    refine ⟨e, List.mem_cons_self, ?_⟩
    simp only [List.map_cons, List.cons.injEq, Prod.mk.injEq] at h
    exact ⟨h.1.2.2, h.1.2.1⟩

end props


/-! ## the comparator of the code -/

section comparator

/-- mass consistency, as established by `Peptide::apply` (`Sage.C06.mass_formula`): the mass is a function of
    the sequence plus all modification masses -/
def MassOk (base : List Nat → Rat) (p : DbPep Rat) : Prop :=
  p.core.mono = base p.core.sequence + p.core.mods.sum + p.core.nterm.getD 0 + p.core.cterm.getD 0

/-- every form `Parameters::digest` derives from a digest is mass-consistent -/
theorem massOk_dbForms (h2o : Rat) (table : List Rat) (pos : C06.Position) (seq : List Nat)
    (vars statics : List (C06.Target × Rat)) (max : Nat) (lo hi : Rat) (g : Group) :
    ∀ f ∈ C06.dbForms h2o table pos seq vars statics max lo hi,
      MassOk (fun s => h2o + (s.map (C06.monoisotopic table)).sum)
        { decoy := g.decoy, core := f, mc := g.mc, semi := g.semi, proteins := g.proteins } := by
  intro f hf
  obtain ⟨p, hp, hfa, _, _⟩ := (C06.range_filter h2o table pos seq vars statics max lo hi f).1 hf
  obtain ⟨hseq, _, _, hm⟩ := C06.mass_formula h2o table pos seq vars statics max p hp f hfa
  simp only [MassOk, hseq, hm]

/-- **C08.single_build_mass_determined** — among mass-consistent peptides (everything ONE `Parameters::digest`
produces: `massOk_dbForms`, and `massOk_groupPeptides` for the reversed decoys) the identity determines the mass:
equal (sequence, modifications, nterm, cterm) have equal masses. Hence dropping the mass from the merge test and
taking the minimum mass of a class changes nothing inside one build (exact arithmetic; in f32 the same holds
because equal identities are summed in the same order) — it only matters when peptides of DIFFERENT builds are
merged, where a generated decoy carries the sum of its target's residue order. -/
theorem single_build_mass_determined (base : List Nat → Rat) (a b : DbPep Rat)
    (ha : MassOk base a) (hb : MassOk base b) (hk : keyOf a = keyOf b) : a.core.mono = b.core.mono := by
  unfold MassOk at ha hb
  simp only [keyOf, Prod.mk.injEq] at hk
  obtain ⟨e1, e2, e3, e4⟩ := hk
  rw [ha, hb, e1, e2, e3, e4]

/-- non-vacuity: two copies of `GK` from different positions -/
example : MassOk (fun _ => 203) (⟨false, ⟨.nterm, [71, 75], [0, 0], none, none, 203⟩, 0, false, [[80]]⟩ : DbPep Rat) ∧
    MassOk (fun _ => 203) (⟨true, ⟨.internal, [71, 75], [0, 0], none, none, 203⟩, 1, true, [[81]]⟩ : DbPep Rat) := by
  constructor <;> norm_num [MassOk]

/-- **C08.comparator_total_preorder** — the repaired `Peptide::initial_sort` (`cmpKey`) and the comparator of the
mass sort (`cmpMassKey`) are total pre-orders: reflexive, antisymmetric up to `swap`, transitive; and `cmpKey`
answers `Equal` exactly on equal (sequence, modifications, nterm, cterm) — the test of `dedup_by` —, `cmpMassKey`
exactly when moreover the masses are equal. (Before the repair the last clause compared `self.cterm` with
`other.nterm`: two copies of a form with a terminal modification compared `Less`, or `Greater`, in BOTH
directions.) -/
theorem comparator_total_preorder {α : Type} [LinearOrder α] (a b c : DbPep α) :
    cmpKey a a = .eq ∧ cmpKey b a = (cmpKey a b).swap ∧
    (cmpKey a b ≠ .gt → cmpKey b c ≠ .gt → cmpKey a c ≠ .gt) ∧
    (cmpKey a b = .eq ↔ keyOf a = keyOf b) ∧
    cmpMassKey a a = .eq ∧ cmpMassKey b a = (cmpMassKey a b).swap ∧
    (cmpMassKey a b ≠ .gt → cmpMassKey b c ≠ .gt → cmpMassKey a c ≠ .gt) ∧
    (cmpMassKey a b = .eq ↔ a.core.mono = b.core.mono ∧ keyOf a = keyOf b) := by
  simp only [cmpKey_eq, cmpMassKey_eq]
  refine ⟨lawful_cmpK.refl _, lawful_cmpK.swap _ _, lawful_cmpK.le_trans, lawful_cmpK.eq_iff _ _,
    lawful_cmpMK.refl _, lawful_cmpMK.swap _ _, lawful_cmpMK.le_trans, ?_⟩
  rw [lawful_cmpMK.eq_iff]
  simp [mkeyOf]

/-- non-vacuity: on two copies of `[+42]-GK` (one from an N-terminal, one from an internal occurrence) the
    comparator now answers `Equal` in both directions -/
example : cmpKey (Ex.mk 245 (some 42) false .nterm [[80, 49]]) (Ex.mk 245 (some 42) false .internal [[80, 50]]) = .eq ∧
    cmpKey (Ex.mk 245 (some 42) false .internal [[80, 50]]) (Ex.mk 245 (some 42) false .nterm [[80, 49]]) = .eq := by
  decide

end comparator

section invariance
variable {α : Type} [Add α] [OfNat α 0] [BEq α] [LE α] [DecidableLE α] [LT α] [DecidableLT α]

theorem lawful_cmpDigest : Lawful cmpDigest := by
  have h : Lawful (thenPair cmpNat (thenPair cmpBool (thenPair cmpStr (thenPair cmpBool (thenPair cmpNat cmpStr))))) :=
    lawful_thenPair lawful_cmpNat (lawful_thenPair lawful_cmpBool (lawful_thenPair lawful_cmpStr
      (lawful_thenPair lawful_cmpBool (lawful_thenPair lawful_cmpNat lawful_cmpStr))))
  have := lawful_comap h (fun d : PDigest => (posRank d.pos, d.decoy, d.seq, d.semi, d.mc, d.protein)) (by
    intro a b e
    obtain ⟨a1, a2, a3, a4, a5, a6⟩ := a
    obtain ⟨b1, b2, b3, b4, b5, b6⟩ := b
    simp only [Prod.mk.injEq] at e
    obtain ⟨e1, e2, e3, e4, e5, e6⟩ := e
    have : a6 = b6 := by cases a6 <;> cases b6 <;> simp_all [posRank]
    subst e2 e3 e4 e5 e6 this; rfl)
  refine ⟨fun a b => ?_, fun a b => ?_, fun a b d => ?_⟩
  · have := this.eq_iff a b
    simpa [cmpDigest, cmpDigest5, thenPair, Ordering.then_eq_eq, and_assoc] using this
  · have := this.swap a b
    simpa [cmpDigest, cmpDigest5, thenPair, Ordering.then_assoc] using this
  · have := this.lt_trans a b d
    simpa [cmpDigest, cmpDigest5, thenPair, Ordering.then_assoc] using this

/-- sorting by a total order with full tie-breaks is a function of the multiset -/
theorem sortDigests_perm {l l' : List PDigest} (h : l.Perm l') : sortDigests l = sortDigests l' := by
  unfold sortDigests
  have tr : ∀ a b c : PDigest, leDigest a b = true → leDigest b c = true → leDigest a c = true := by
    intro a b c h1 h2
    simp only [leDigest, bne_iff_ne] at *
    exact lawful_cmpDigest.le_trans h1 h2
  have tot : ∀ a b : PDigest, (leDigest a b || leDigest b a) = true := by
    intro a b
    simp only [leDigest, Bool.or_eq_true, bne_iff_ne]
    exact lawful_cmpDigest.le_total a b
  apply List.Perm.eq_of_pairwise (le := fun a b => leDigest a b = true)
  · intro a b _ _ h1 h2
    simp only [leDigest, bne_iff_ne] at h1 h2
    exact lawful_cmpDigest.le_antisymm h1 h2
  · exact List.pairwise_mergeSort tr tot l
  · exact List.pairwise_mergeSort tr tot l'
  · exact ((List.mergeSort_perm l _).trans h).trans (List.mergeSort_perm l' _).symm

theorem fastaDigest_perm (par : C05.Params) (tag : C05.Seq) (gen : Bool) {t t' : List (C05.Seq × C05.Seq)}
    (h : t.Perm t') : (fastaDigest par tag gen t).Perm (fastaDigest par tag gen t') :=
  List.Perm.flatMap_right _ h

theorem buildDb_isSome (cfg : Cfg α) (t : List (C05.Seq × C05.Seq))
    (h : fastaDigest cfg.par cfg.tag cfg.gen t ≠ []) : (buildDb cfg t).isSome = true := by
  unfold buildDb buildWith groupDigests
  cases hs : sortDigests (fastaDigest cfg.par cfg.tag cfg.gen t) with
  | nil =>
    exfalso; apply h
    have := congrArg List.length hs
    simp only [sortDigests, List.length_mergeSort, List.length_nil] at this
    exact List.eq_nil_of_length_eq_zero this
  | cons d rest => simp

/-- **C08.perm_invariant** — permuting the FASTA records does not change the database: `buildDb` factors
through the multiset of per-protein digests. The equality is of the whole model output (every field of every
entry, in order). Scope: the model resolves the two unstable sorts as described in `Model/C08.lean`; of the
real code every field is additionally compared on the implementation itself by the `perm` stream of op `db8`. -/
theorem perm_invariant (cfg : Cfg α) {t t' : List (C05.Seq × C05.Seq)} (h : t.Perm t') :
    buildDb cfg t = buildDb cfg t' := by
  unfold buildDb buildWith groupDigests
  rw [sortDigests_perm (fastaDigest_perm cfg.par cfg.tag cfg.gen h)]

example : buildDb Ex.cfg Ex.fasta = buildDb Ex.cfg Ex.fasta.reverse ∧ (buildDb Ex.cfg Ex.fasta).isSome = true :=
  ⟨perm_invariant Ex.cfg (List.reverse_perm _).symm, buildDb_isSome Ex.cfg Ex.fasta (by decide +kernel)⟩

/-- … hence the fragment list built from it is the same too. -/
theorem perm_invariant_fragments [Sub α] [Mul α] [Neg α] (cfg : Cfg α) (k : C09.Consts α) (kinds : List C09.Kind)
    (minIdx : Nat) {t t' : List (C05.Seq × C05.Seq)} (h : t.Perm t') :
    (buildDb cfg t).map (fragmentsOf k kinds minIdx cfg.table) =
    (buildDb cfg t').map (fragmentsOf k kinds minIdx cfg.table) := by
  rw [perm_invariant cfg h]

/-- **C08.schedule_invariant** — whatever order the concurrent inserts into the target set take (any
permutation `σ` of the insert sequence, i.e. any interleaving of the insert phase), the set has the same
members, and — the lookups happening after the insert phase (assumption *barrier*) — the database is the same. -/
theorem schedule_invariant (cfg : Cfg α) (t : List (C05.Seq × C05.Seq)) (σ : List Str → List Str)
    (hσ : ∀ l, (σ l).Perm l) :
    (∀ l y, y ∈ targetSet (σ l) ↔ y ∈ targetSet l) ∧ buildWith cfg t σ = buildDb cfg t := by
  have hm : ∀ l y, y ∈ targetSet (σ l) ↔ y ∈ targetSet l := by
    intro l y; rw [mem_targetSet, mem_targetSet]; exact (hσ l).mem_iff
  refine ⟨hm, ?_⟩
  unfold buildDb buildWith
  congr 1
  funext gs
  congr 1
  unfold digestPeptides
  have : groupPeptides cfg (targetSet (σ (targetInserts gs))) = groupPeptides cfg (targetSet (id (targetInserts gs))) :=
    funext (groupPeptides_congr cfg _ _ (hm _))
  rw [this]

example : buildWith Ex.cfg Ex.fasta List.reverse = buildDb Ex.cfg Ex.fasta ∧ (buildDb Ex.cfg Ex.fasta).isSome = true :=
  ⟨(schedule_invariant Ex.cfg Ex.fasta List.reverse List.reverse_perm).2,
   buildDb_isSome Ex.cfg Ex.fasta (by decide +kernel)⟩

/-- **C08.db_canonical** — whenever the build succeeds, the database is `reorder` of the vector `pre` of
modified forms produced from the digest groups, and therefore: sorted by mass; no two entries with the same
(sequence, modifications, nterm, cterm); every protein list strictly increasing (a sorted set); every
entry's protein list is exactly the union of the protein lists of the forms in `pre` with its key, it is a
decoy / semi-enzymatic iff all of them are, its `missed_cleavages` / `position` are the least among theirs,
its mass is the least of theirs, every form in `pre` is represented, and ANY arrangement the two unstable sorts
may return (of `pre` by identity, of the merged forms by (mass, identity)) gives this same database.
(The link to the FASTA records — group protein lists = accessions of the per-protein digests — is
`db_canonical_sources` in `Props/C08Sources.lean`.) -/
theorem db_canonical (cfg : Cfg Rat) (t : List (C05.Seq × C05.Seq)) (db : List (DbPep Rat))
    (h : buildDb cfg t = some db) :
    ∃ gs, groupDigests (fastaDigest cfg.par cfg.tag cfg.gen t) = some gs ∧
      let pre := digestPeptides cfg gs (targetInserts gs)
      db = reorder pre ∧
      db.Pairwise (fun a b => a.core.mono ≤ b.core.mono) ∧
      db.Pairwise (fun a b => keyEq a b = false) ∧
      (∀ e ∈ db, strictlyIncreasing e.proteins = true) ∧
      (∀ e ∈ db, (∃ p ∈ pre, keyOf p = keyOf e) ∧
        (∀ a, a ∈ e.proteins ↔ ∃ p ∈ pre, keyOf p = keyOf e ∧ a ∈ p.proteins) ∧
        (e.decoy = true ↔ ∀ p ∈ pre, keyOf p = keyOf e → p.decoy = true) ∧
        (e.semi = true ↔ ∀ p ∈ pre, keyOf p = keyOf e → p.semi = true) ∧
        ((∀ p ∈ pre, keyOf p = keyOf e → e.mc ≤ p.mc) ∧ ∃ p ∈ pre, keyOf p = keyOf e ∧ e.mc = p.mc) ∧
        ((∀ p ∈ pre, keyOf p = keyOf e → pos6Rank e.core.position ≤ pos6Rank p.core.position) ∧
          ∃ p ∈ pre, keyOf p = keyOf e ∧ e.core.position = p.core.position) ∧
        ((∀ p ∈ pre, keyOf p = keyOf e → e.core.mono ≤ p.core.mono) ∧
          ∃ p ∈ pre, keyOf p = keyOf e ∧ e.core.mono = p.core.mono)) ∧
      (∀ p ∈ pre, ∃ e ∈ db, keyOf e = keyOf p) ∧
      (∀ s s2 : List (DbPep Rat), s.Perm pre → s.Pairwise KeyLe → s2.Perm (dedupBy s) → s2.Pairwise MKLe →
        s2.map finishProteins = db) := by
  unfold buildDb buildWith at h
  cases hg : groupDigests (fastaDigest cfg.par cfg.tag cfg.gen t) with
  | none => rw [hg] at h; simp at h
  | some gs =>
    rw [hg] at h
    simp only [Option.map_some, Option.some.injEq, id] at h
    subst h
    refine ⟨gs, rfl, rfl, (db_sorted_unique _).1, (db_sorted_unique _).2, db_proteins_sorted_set _,
      (db_entries_exact _).1, (db_entries_exact _).2,
      fun s s2 hp hs hp2 hs2 => reorder_sort_irrelevant _ s s2 hp hs hp2 hs2⟩

/-- non-vacuity: the hypothesis is met by the two-protein FASTA of `Ex` (exact rationals) -/
example : ∃ db, buildDb (⟨Ex.par, [114, 101, 118, 95], true, 18, Ex.table.map (fun n => (n : Rat)),
      [(.peptideN none, 42)], [], 1, 0, 100000⟩ : Cfg Rat) Ex.fasta = some db :=
  Option.isSome_iff_exists.1 (buildDb_isSome _ _ (by decide +kernel))

end invariance

end Sage.C08
