import SageModel.Lemmas.C07

/-!
# C07 — Decoys mirror their targets one-to-one and never collide with a target

Property text: *When decoys are generated, every decoy is the reversal of exactly one target with the
first and last residue kept in place, carrying the same modifications on the mirrored residues and
the same terminal modifications, mass, proteins and missed-cleavage count, and reversing a decoy
gives back its target. No decoy has the sequence of any target, and every target has its decoy
unless that reversed sequence is itself a target sequence. When decoys come from the FASTA instead,
exactly the peptides of decoy-tagged proteins are labelled decoy; reported protein names of
generated decoys are the target names prefixed with the decoy tag, all others are reported
unchanged.*

All theorems are about the definitions of `SageModel/Model/C07.lean` (the model of
`Peptide::reverse`, `Peptide::proteins`, `Fasta::digest`, `group_digests`, `Parameters::digest`,
`reorder_peptides`, composed with the C05 / C06 models), for every FASTA, every enzyme and
modification configuration, every length. Database theorems are stated at exact rationals (they
reuse C06's frame lemmas); none of them depends on arithmetic.
-/

namespace Sage.C07

/-! ## property theorems -/

/-- **C07.reverse_involutive** — reversing twice gives the peptide back (so reversing a decoy gives
    back its target), for every peptide of every length with one modification slot per residue. -/
theorem reverse_involutive {α : Type} (p : Pep α) (h : WF p) : reverse (reverse p) = p := by
  unfold WF at h
  unfold reverse
  by_cases hn : p.sequence.length - 1 > 1
  · have hl : (revSlice (p.sequence.length - 1) p.sequence).length = p.sequence.length :=
      revSlice_length _ _ (by omega) (by omega)
    simp only [hn, if_true, hl]
    rw [revSlice_revSlice _ _ (by omega) (by omega), revSlice_revSlice _ _ (by omega) (by omega)]
    cases p; simp
  · simp only [hn, if_false]
    cases p; simp

/-- **C07.reverse_ends_fixed** — the first and the last residue (and their modification slots) stay
    in place. -/
theorem reverse_ends_fixed {α : Type} (p : Pep α) (h : WF p) :
    (reverse p).sequence[0]? = p.sequence[0]? ∧
    (reverse p).sequence[p.sequence.length - 1]? = p.sequence[p.sequence.length - 1]? ∧
    (reverse p).mods[0]? = p.mods[0]? ∧
    (reverse p).mods[p.sequence.length - 1]? = p.mods[p.sequence.length - 1]? := by
  unfold WF at h
  unfold reverse
  by_cases hn : p.sequence.length - 1 > 1
  · simp only [hn, if_true]
    rw [revSlice_getElem? _ _ (by omega) (by omega), revSlice_getElem? _ _ (by omega) (by omega),
      revSlice_getElem? _ _ (by omega) (by omega), revSlice_getElem? _ _ (by omega) (by omega)]
    have : ¬ (p.sequence.length - 1 = 0) := by omega
    simp [this]
  · simp only [hn, if_false]; simp

/-- **C07.reverse_mirrors** — residue `i` of the reversal is residue `n−1−i` of the original, and it
    carries the modification of that residue, for every `1 ≤ i ≤ n−2`. -/
theorem reverse_mirrors {α : Type} (p : Pep α) (h : WF p) (i : Nat) (h1 : 1 ≤ i) (h2 : i + 2 ≤ p.sequence.length) :
    (reverse p).sequence[i]? = p.sequence[p.sequence.length - 1 - i]? ∧
    (reverse p).mods[i]? = p.mods[p.sequence.length - 1 - i]? := by
  unfold WF at h
  unfold reverse
  by_cases hn : p.sequence.length - 1 > 1
  · simp only [hn, if_true]
    rw [revSlice_getElem? _ _ (by omega) (by omega), revSlice_getElem? _ _ (by omega) (by omega)]
    have a : ¬ (i = 0) := by omega
    have b : i < p.sequence.length - 1 := by omega
    simp [a, b]
  · exfalso; omega

/-- **C07.reverse_preserves** — terminal modifications, mass, proteins, missed cleavages (and the
    other bookkeeping fields) are unchanged, lengths are unchanged, the decoy flag is flipped. -/
theorem reverse_preserves {α : Type} (p : Pep α) (h : WF p) :
    (reverse p).nterm = p.nterm ∧ (reverse p).cterm = p.cterm ∧ (reverse p).mono = p.mono ∧
    (reverse p).proteins = p.proteins ∧ (reverse p).mc = p.mc ∧ (reverse p).semi = p.semi ∧
    (reverse p).position = p.position ∧ (reverse p).decoy = !p.decoy ∧
    (reverse p).sequence.length = p.sequence.length ∧ (reverse p).mods.length = p.mods.length := by
  unfold WF at h
  by_cases hn : p.sequence.length - 1 > 1
  · rw [reverse_of_gt p hn]
    refine ⟨rfl, rfl, rfl, rfl, rfl, rfl, rfl, rfl, ?_, ?_⟩
    · exact revSlice_length _ _ (by omega) (by omega)
    · exact revSlice_length _ _ (by omega) (by omega)
  · rw [reverse_of_le p hn]
    exact ⟨rfl, rfl, rfl, rfl, rfl, rfl, rfl, rfl, rfl, rfl⟩

theorem revSlice_perm {β : Type} (n : Nat) (l : List β) (h : 1 ≤ n) : (revSlice n l).Perm l := by
  unfold revSlice
  have e : l = l.take 1 ++ ((l.drop 1).take (n - 1) ++ l.drop n) := by
    have h1 : (l.drop 1).drop (n - 1) = l.drop n := by
      rw [List.drop_drop]; congr 1; omega
    rw [← h1, List.take_append_drop, List.take_append_drop]
  conv_rhs => rw [e]
  rw [List.append_assoc]
  exact List.Perm.append_left _ (List.Perm.append_right _ (List.reverse_perm _))

/-- **C07.reverse_perm** — for EVERY peptide (no well-formedness needed) the decoy's residues are a permutation of
the target's, and so are its modification slots: a decoy has its target's amino-acid composition (hence the same
residue-mass sum, whatever the summation order costs in rounding) and the same multiset of site modifications. -/
theorem reverse_perm {α : Type} (p : Pep α) :
    (reverse p).sequence.Perm p.sequence ∧ (reverse p).mods.Perm p.mods := by
  unfold reverse
  by_cases hn : p.sequence.length - 1 > 1
  · simp only [hn, if_true]
    exact ⟨revSlice_perm _ _ (by omega), revSlice_perm _ _ (by omega)⟩
  · simp only [hn, if_false]
    exact ⟨List.Perm.refl _, List.Perm.refl _⟩

/-- **C07.reverse_short** — for peptides of length ≤ 3 `reverse` changes only the flag (their decoy
    has the target's sequence and is therefore removed by the collision filter). -/
theorem reverse_short {α : Type} (p : Pep α) (h : WF p) (hs : p.sequence.length ≤ 3) :
    reverse p = { p with decoy := !p.decoy } := by
  unfold WF at h
  unfold reverse
  by_cases hn : p.sequence.length - 1 > 1
  · have h3 : p.sequence.length = 3 := by omega
    simp only [hn, if_true]
    have e1 : revSlice (p.sequence.length - 1) p.sequence = p.sequence := by
      rw [revSlice_eq_mirrorList _ (by omega), mirrorList_short _ (by omega)]
    have e2 : revSlice (p.sequence.length - 1) p.mods = p.mods := by
      rw [← h, revSlice_eq_mirrorList _ (by omega), mirrorList_short _ (by omega)]
    rw [e1, e2]
  · simp only [hn, if_false]

/-- **C07.reverse_eq_mirror** — the model of `Peptide::reverse` is the reversal the specification
    (and the driver's check of sage's output) uses: first and last kept, middle reversed. -/
theorem reverse_eq_mirror {α : Type} (p : Pep α) (h : WF p) : reverse p = mirror p := by
  unfold WF at h
  by_cases hn : p.sequence.length - 1 > 1
  · unfold reverse mirror
    simp only [hn, if_true]
    rw [revSlice_eq_mirrorList _ (by omega)]
    have : revSlice (p.sequence.length - 1) p.mods = mirrorList p.mods := by
      rw [← h]; exact revSlice_eq_mirrorList _ (by omega)
    rw [this]
  · rw [reverse_short p h (by omega)]
    unfold mirror
    rw [mirrorList_short _ (by omega), mirrorList_short _ (by omega)]

/-- `PEPTIDEK` with modifications on `E`(1) and `D`(5) and an N-terminal modification -/
def samplePep : Pep Nat :=
  ⟨false, [80, 69, 80, 84, 73, 68, 69, 75], [0, 7, 0, 0, 0, 9, 0, 0], some 42, none, 1000, 0, false, .internal, [[80, 49]]⟩

/-- non-vacuity: the decoy of `samplePep` is `PEDITPEK` with the modifications on the moved residues,
    and reversing it again gives the target back. -/
example :
    WF samplePep ∧ (reverse samplePep).sequence = [80, 69, 68, 73, 84, 80, 69, 75] ∧
      (reverse samplePep).mods = [0, 0, 9, 0, 0, 0, 7, 0] ∧ (reverse samplePep).decoy = true ∧
      (reverse samplePep).nterm = some 42 ∧ reverse (reverse samplePep) = samplePep ∧
      reverse samplePep = mirror samplePep := by
  unfold WF; decide

/-- non-vacuity of `reverse_short`: `AGK` -/
example :
    reverse (⟨false, [65, 71, 75], [0, 5, 0], none, none, 1, 0, false, .full, []⟩ : Pep Nat) =
      ⟨true, [65, 71, 75], [0, 5, 0], none, none, 1, 0, false, .full, []⟩ := by decide

/-! ## the database -/

/-- trypsin (KR, not before P), no missed cleavages, lengths 1..50 -/
def trypsin : C05.Params := ⟨0, 1, 50, some ⟨.cls [75, 82], some 80, true, false⟩⟩

/-- generated decoys (tag `rev_`), one variable modification (`M` +16), wide mass window -/
def cfgGen : Cfg Rat :=
  { tag := [114, 101, 118, 95], gen := true, par := trypsin, vars := [(.residue 77, 16)], statics := [],
    max := 1, lo := 0, hi := 100000, h2o := Sage.Gen.H2O, table := Sage.Gen.MONOISOTOPIC }

/-- `>P1 AGSMK·AGSGK·AK` and `>P2 AGSMK` -/
def recsGen : List (Bytes × Bytes) :=
  [([80, 49], [65, 71, 83, 77, 75, 65, 71, 83, 71, 75, 65, 75]), ([80, 50], [65, 71, 83, 77, 75])]

/-- decoys from the FASTA: `>P1 AGSMK·AGK`, `>rev_P1 AMSGK·AGK` -/
def cfgFasta : Cfg Rat := { cfgGen with gen := false, vars := [] }
def recsFasta : List (Bytes × Bytes) :=
  [([80, 49], [65, 71, 83, 77, 75, 65, 71, 75]), ([114, 101, 118, 95, 80, 49], [65, 77, 83, 71, 75, 65, 71, 75])]

/-- the database of a FASTA text is the database of its parsed records (`Sage.C05.parse`, which in
    `generate_decoys` mode has already dropped the tagged records) -/
theorem buildDb_some {cfg : Cfg Rat} {text : Bytes} {db : List (Pep Rat)} (h : buildDb cfg text = some db) :
    ∃ recs, C05.parse cfg.tag cfg.gen text = some recs ∧ digestRecs cfg recs = some db := by
  unfold buildDb at h
  cases hp : C05.parse cfg.tag cfg.gen text with
  | none => simp [hp] at h
  | some recs => simp [hp] at h; exact ⟨recs, rfl, h⟩



/-- **C07.no_decoy_is_target** — no decoy entry of the database (generated or FASTA-supplied) has the
    residue sequence of any digest of an untagged FASTA record. -/
theorem no_decoy_is_target (cfg : Cfg Rat) (recs : List (Bytes × Bytes)) (db : List (Pep Rat))
    (h : digestRecs cfg recs = some db) :
    ∀ e ∈ db, e.decoy = true → e.sequence ∉ specTargets cfg.par cfg.tag recs := by
  obtain ⟨groups, hg, rfl⟩ := digestRecs_some h
  intro e he hd
  obtain ⟨e', he', rfl⟩ := mem_reorder.mp he
  obtain ⟨⟨s0, hs0, hk0, _⟩, hdec, _⟩ := mem_mergeFuel _ _ (Nat.le_refl _) e' he'
  have hs0d : s0.decoy = true := (hdec.mp hd) s0 hs0 hk0.symm
  obtain ⟨g, _, f, _, hem⟩ := mem_buildForms.mp hs0
  have hnot := (mem_emit.mp hem).2 hs0d
  have hseq : (finishProteins e').sequence = s0.sequence := by
    have := congrArg (fun k => k.2.1) hk0
    exact this
  rw [hseq, ← targetSet_iff hg]
  exact hnot



/-- generated decoys: every group is a target group -/
theorem gen_groups {cfg : Cfg Rat} {recs : List (Bytes × Bytes)} {groups : List Group}
    (hg : groupDigests (fastaDigest cfg.par cfg.tag cfg.gen recs) = some groups) (hgen : cfg.gen = true) :
    ∀ g ∈ groups, g.ref.decoy = false := by
  obtain ⟨g1, _⟩ := groupDigests_spec hg
  intro g hgm
  obtain ⟨r, hr, c, hc, _, _, h3, h4, _⟩ := mem_fastaDigest.mp (g1 g hgm)
  rw [h3]; exact h4 hgen

theorem mirror_proteins {α : Type} (p : Pep α) : (mirror p).proteins = p.proteins := rfl
theorem mirror_sequence {α : Type} (p : Pep α) : (mirror p).sequence = mirrorList p.sequence := rfl
theorem mirror_decoy {α : Type} (p : Pep α) : (mirror p).decoy = !p.decoy := rfl

/-- generated decoys: the entries of `target_decoys` before merging are the in-range forms (targets,
    sequence in the target set) and the mirror images of those forms whose mirrored sequence is not in
    the target set -/
theorem gen_forms {cfg : Cfg Rat} {recs : List (Bytes × Bytes)} {groups : List Group}
    (hg : groupDigests (fastaDigest cfg.par cfg.tag cfg.gen recs) = some groups) (hgen : cfg.gen = true)
    {s : Pep Rat} (hs : s ∈ buildForms cfg groups) :
    (s.decoy = false ∧ s.sequence ∈ targetSet groups ∧
        ((mirror s).sequence ∉ targetSet groups → mirror s ∈ buildForms cfg groups)) ∨
    (s.decoy = true ∧ s.sequence ∉ targetSet groups ∧
        ∃ f ∈ buildForms cfg groups, f.decoy = false ∧ s = mirror f) := by
  obtain ⟨g, hgm, f, hf, hem⟩ := mem_buildForms.mp hs
  obtain ⟨hseq, hdec, _, _, hwf⟩ := mem_groupForms hf
  have hfd : f.decoy = false := by rw [hdec]; exact gen_groups hg hgen g hgm
  have hfT : f.sequence ∈ targetSet groups := mem_targetSet.mpr ⟨g, hgm, gen_groups hg hgen g hgm, hseq.symm⟩
  have hfin : f ∈ buildForms cfg groups :=
    mem_buildForms.mpr ⟨g, hgm, f, hf, mem_emit.mpr ⟨Or.inl rfl, fun h => by rw [hfd] at h; cases h⟩⟩
  obtain ⟨hor, hfilt⟩ := mem_emit.mp hem
  rcases hor with rfl | ⟨_, rfl⟩
  · refine Or.inl ⟨hfd, hfT, fun hnot => ?_⟩
    refine mem_buildForms.mpr ⟨g, hgm, s, hf, mem_emit.mpr ⟨Or.inr ⟨hgen, (reverse_eq_mirror s hwf).symm⟩, fun _ => hnot⟩⟩
  · have hrd : (reverse f).decoy = true := by rw [(reverse_preserves f hwf).2.2.2.2.2.2.2.1, hfd]; rfl
    exact Or.inr ⟨hrd, hfilt hrd, f, hfin, hfd, reverse_eq_mirror f hwf⟩

/-- generated decoys: an entry whose key is the mirror image of another entry's key, one on each side
    of the target set, lists the same proteins -/
theorem pair_proteins {cfg : Cfg Rat} {recs : List (Bytes × Bytes)} {groups : List Group}
    (hg : groupDigests (fastaDigest cfg.par cfg.tag cfg.gen recs) = some groups) (hgen : cfg.gen = true)
    {t' d' : Pep Rat}
    (ht : t' ∈ mergeFuel (buildForms cfg groups).length (buildForms cfg groups))
    (hd : d' ∈ mergeFuel (buildForms cfg groups).length (buildForms cfg groups))
    (hk : keyOf d' = mirrorKey (keyOf t')) (htT : t'.sequence ∈ targetSet groups)
    (hdT : d'.sequence ∉ targetSet groups) (x : Bytes) : x ∈ d'.proteins ↔ x ∈ t'.proteins := by
  obtain ⟨_, _, hpt⟩ := mem_mergeFuel _ _ (Nat.le_refl _) t' ht
  obtain ⟨_, _, hpd⟩ := mem_mergeFuel _ _ (Nat.le_refl _) d' hd
  have seqOf : ∀ {a b : Pep Rat}, keyOf a = keyOf b → a.sequence = b.sequence :=
    fun h => congrArg (fun k => k.2.1) h
  rw [hpd x, hpt x]
  constructor
  · rintro ⟨s, hs, hks, hx⟩
    rcases gen_forms hg hgen hs with ⟨_, hT, _⟩ | ⟨_, _, f, hf, _, rfl⟩
    · exact absurd (by rw [← seqOf hks]; exact hT) hdT
    · refine ⟨f, hf, ?_, hx⟩
      apply mirrorKey_inj
      rw [← keyOf_mirror, hks, hk]
  · rintro ⟨s, hs, hks, hx⟩
    rcases gen_forms hg hgen hs with ⟨_, _, hm⟩ | ⟨_, hnT, _⟩
    · have hmk : keyOf (mirror s) = keyOf d' := by rw [keyOf_mirror, hks, hk]
      refine ⟨mirror s, hm ?_, hmk, hx⟩
      rw [seqOf hmk]; exact hdT
    · exact absurd (by rw [seqOf hks]; exact htT) hnT

/-- generated decoys: such a pair has the same missed-cleavage count (the decoy's class of key-equal
    forms is the mirror image of the target's class, `reverse` keeps the count, and the merge takes
    the minimum over the class) -/
theorem pair_mc {cfg : Cfg Rat} {recs : List (Bytes × Bytes)} {groups : List Group}
    (hg : groupDigests (fastaDigest cfg.par cfg.tag cfg.gen recs) = some groups) (hgen : cfg.gen = true)
    {t' d' : Pep Rat}
    (ht : t' ∈ mergeFuel (buildForms cfg groups).length (buildForms cfg groups))
    (hd : d' ∈ mergeFuel (buildForms cfg groups).length (buildForms cfg groups))
    (hk : keyOf d' = mirrorKey (keyOf t')) (htT : t'.sequence ∈ targetSet groups)
    (hdT : d'.sequence ∉ targetSet groups) : d'.mc = t'.mc := by
  obtain ⟨⟨st, hst, hkt, hmt⟩, _, _⟩ := mem_mergeFuel _ _ (Nat.le_refl _) t' ht
  obtain ⟨⟨sd, hsd, hkd, hmd⟩, _, _⟩ := mem_mergeFuel _ _ (Nat.le_refl _) d' hd
  have hlt := mergeFuel_mc_le _ _ (Nat.le_refl _) t' ht
  have hld := mergeFuel_mc_le _ _ (Nat.le_refl _) d' hd
  have seqOf : ∀ {a b : Pep Rat}, keyOf a = keyOf b → a.sequence = b.sequence :=
    fun h => congrArg (fun k => k.2.1) h
  apply Nat.le_antisymm
  · -- the target's minimum is attained by a target form whose mirror image is a source of the decoy
    rcases gen_forms hg hgen hst with ⟨_, _, hm⟩ | ⟨_, hnT, _⟩
    · have hmk : keyOf (mirror st) = keyOf d' := by rw [keyOf_mirror, ← hkt, hk]
      have := hld (mirror st) (hm (by rw [seqOf hmk]; exact hdT)) hmk
      rw [hmt]; exact this
    · exact absurd (by rw [← seqOf hkt]; exact htT) hnT
  · rcases gen_forms hg hgen hsd with ⟨_, hT, _⟩ | ⟨_, _, f, hf, _, rfl⟩
    · exact absurd (by rw [seqOf hkd]; exact hT) hdT
    · have hfk : keyOf f = keyOf t' := by
        apply mirrorKey_inj
        rw [← keyOf_mirror, ← hkd, hk]
      have := hlt f hf hfk
      rw [hmd]; exact this

theorem emit_gen {T : List (List Nat)} {f : Pep Rat} (hwf : WF f) (hfd : f.decoy = false) :
    emit true T f = (if (mirror f).sequence ∈ T then [] else [mirror f]) ++ [f] := by
  unfold emit
  rw [reverse_eq_mirror f hwf]
  simp only [if_true, List.filter_cons, mirror_decoy, hfd, Bool.not_false, Bool.not_true, Bool.false_or,
    Bool.true_or, List.filter_nil]
  by_cases h : (mirror f).sequence ∈ T
  · simp [h]
  · simp [h]

theorem buildForms_eq (cfg : Cfg Rat) (groups : List Group) :
    buildForms cfg groups = (groups.flatMap (groupForms cfg)).flatMap (emit cfg.gen (targetSet groups)) := by
  unfold buildForms
  rw [List.flatMap_assoc]

theorem mem_base {cfg : Cfg Rat} {recs : List (Bytes × Bytes)} {groups : List Group}
    (hg : groupDigests (fastaDigest cfg.par cfg.tag cfg.gen recs) = some groups) (hgen : cfg.gen = true)
    {f : Pep Rat} (hf : f ∈ groups.flatMap (groupForms cfg)) :
    WF f ∧ f.decoy = false ∧ f.sequence ∈ targetSet groups := by
  obtain ⟨g, hgm, hfg⟩ := List.mem_flatMap.mp hf
  obtain ⟨hseq, hdec, _, _, hwf⟩ := mem_groupForms hfg
  exact ⟨hwf, by rw [hdec]; exact gen_groups hg hgen g hgm,
    mem_targetSet.mpr ⟨g, hgm, gen_groups hg hgen g hgm, hseq.symm⟩⟩

/-- generated decoys: a decoy entry and the target entry with the mirrored key list the same proteins in
    the same order already before sorting (the decoy's sources are the mirror images of the target's
    sources, generated in the same order) -/
theorem pair_proteins_list {cfg : Cfg Rat} {recs : List (Bytes × Bytes)} {groups : List Group}
    (hg : groupDigests (fastaDigest cfg.par cfg.tag cfg.gen recs) = some groups) (hgen : cfg.gen = true)
    {t' d' : Pep Rat}
    (ht : t' ∈ mergeFuel (buildForms cfg groups).length (buildForms cfg groups))
    (hd : d' ∈ mergeFuel (buildForms cfg groups).length (buildForms cfg groups))
    (hk : keyOf d' = mirrorKey (keyOf t')) (htT : t'.sequence ∈ targetSet groups)
    (hdT : d'.sequence ∉ targetSet groups) : d'.proteins = t'.proteins := by
  rw [mergeFuel_proteins_eq _ _ (Nat.le_refl _) d' hd, mergeFuel_proteins_eq _ _ (Nat.le_refl _) t' ht]
  rw [buildForms_eq]
  have hbase : ∀ f ∈ groups.flatMap (groupForms cfg), WF f ∧ f.decoy = false ∧ f.sequence ∈ targetSet groups :=
    fun f hf => mem_base hg hgen hf
  generalize groups.flatMap (groupForms cfg) = base at hbase
  induction base with
  | nil => simp
  | cons f base ih =>
  simp only [List.flatMap_cons, List.filter_append, List.flatMap_append]
  rw [ih (fun x hx => hbase x (List.mem_cons_of_mem _ hx))]
  congr 1
  obtain ⟨hwf, hfd, hfT⟩ := hbase f (by simp)
  have seqOf : ∀ {a b : Pep Rat}, keyOf a = keyOf b → a.sequence = b.sequence :=
    fun h => congrArg (fun k => k.2.1) h
  rw [hgen, emit_gen hwf hfd]
  -- `f` never has the decoy's key, its mirror image never has the target's key
  have h1 : sameKey f d' = false := by
    rw [sameKey_false_iff]; intro h; exact hdT (by rw [← seqOf h]; exact hfT)
  by_cases hkf : keyOf f = keyOf t'
  · have hmk : keyOf (mirror f) = keyOf d' := by rw [keyOf_mirror, hkf, hk]
    have hnot : (mirror f).sequence ∉ targetSet groups := by rw [seqOf hmk]; exact hdT
    have h2 : sameKey (mirror f) d' = true := (sameKey_iff _ _).mpr hmk
    have h3 : sameKey (mirror f) t' = false := by
      rw [sameKey_false_iff]; intro h; exact hnot (by rw [seqOf h]; exact htT)
    have h4 : sameKey f t' = true := (sameKey_iff _ _).mpr hkf
    simp [hnot, h1, h2, h3, h4, mirror_proteins]
  · have h4 : sameKey f t' = false := (sameKey_false_iff _ _).mpr hkf
    have h2 : sameKey (mirror f) d' = false := by
      rw [sameKey_false_iff]; intro h
      apply hkf; apply mirrorKey_inj; rw [← keyOf_mirror, h, hk]
    by_cases hin : (mirror f).sequence ∈ targetSet groups
    · simp [hin, h1, h4]
    · have h3 : sameKey (mirror f) t' = false := by
        rw [sameKey_false_iff]; intro h; exact hin (by rw [seqOf h]; exact htT)
      simp [hin, h1, h2, h3, h4]

/-- **C07.decoy_reverses_unique_target** — with generated decoys every decoy entry is the reversal of
    exactly one target entry of the database: that target has the mirrored sequence and modification
    vector (so reversing the decoy gives it back), the same terminal modifications, mass, protein list
    (equal as lists, same order) and missed-cleavage count,
    and it is the only entry with that form. -/
theorem decoy_reverses_unique_target (cfg : Cfg Rat) (recs : List (Bytes × Bytes)) (db : List (Pep Rat))
    (h : digestRecs cfg recs = some db) (hgen : cfg.gen = true) :
    ∀ d ∈ db, d.decoy = true →
      ∃ t ∈ db, t.decoy = false ∧ keyOf t = keyOf (mirror d) ∧ keyOf d = keyOf (mirror t) ∧
        d.proteins = t.proteins ∧ d.mc = t.mc ∧ ∀ t2 ∈ db, keyOf t2 = keyOf t → t2 = t := by
  obtain ⟨groups, hg, rfl⟩ := digestRecs_some h
  intro d hd hdd
  obtain ⟨d', hd', rfl⟩ := mem_reorder.mp hd
  obtain ⟨⟨s0, hs0, hk0, _⟩, hdec, _⟩ := mem_mergeFuel _ _ (Nat.le_refl _) d' hd'
  have hs0d : s0.decoy = true := (hdec.mp hdd) s0 hs0 hk0.symm
  rcases gen_forms hg hgen hs0 with ⟨hc, _⟩ | ⟨_, hnT, f, hf, hfd, rfl⟩
  · rw [hc] at hs0d; cases hs0d
  obtain ⟨t', ht', hkt⟩ := mergeFuel_complete _ _ (Nat.le_refl _) f hf
  obtain ⟨_, htdec, _⟩ := mem_mergeFuel _ _ (Nat.le_refl _) t' ht'
  have htd : t'.decoy = false := by
    cases hb : t'.decoy with
    | false => rfl
    | true => have := (htdec.mp hb) f hf hkt.symm; rw [hfd] at this; cases this
  have hkd : keyOf d' = mirrorKey (keyOf t') := by rw [hk0, keyOf_mirror, hkt]
  have seqOf : ∀ {a b : Pep Rat}, keyOf a = keyOf b → a.sequence = b.sequence :=
    fun h => congrArg (fun k => k.2.1) h
  have hfT : f.sequence ∈ targetSet groups := by
    rcases gen_forms hg hgen hf with ⟨_, hT, _⟩ | ⟨hc, _⟩
    · exact hT
    · rw [hfd] at hc; cases hc
  refine ⟨finishProteins t', mem_reorder.mpr ⟨t', ht', rfl⟩, htd, ?_, ?_, ?_, ?_, ?_⟩
  · show keyOf t' = mirrorKey (keyOf d')
    rw [hkd, mirrorKey_mirrorKey]
  · exact hkd
  · show sortDedup d'.proteins = sortDedup t'.proteins
    rw [pair_proteins_list hg hgen ht' hd' hkd (by rw [seqOf hkt]; exact hfT) (by rw [seqOf hk0]; exact hnT)]
  · show d'.mc = t'.mc
    exact pair_mc hg hgen ht' hd' hkd (by rw [seqOf hkt]; exact hfT) (by rw [seqOf hk0]; exact hnT)
  · intro t2 ht2 hk2
    obtain ⟨t2', ht2', rfl⟩ := mem_reorder.mp ht2
    have hpw := mergeFuel_pairwise _ _ (Nat.le_refl (buildForms cfg groups).length)
    by_cases heq : t2' = t'
    · rw [heq]
    · exact absurd hk2 (C06.pairwise_forall_symm (fun _ _ h => fun h' => h h'.symm) hpw t2' ht2' t' ht' heq)

/-- **C07.pairing_complete** — with generated decoys every target entry has its decoy in the database
    (mirrored sequence and modifications, same termini, mass, proteins and missed-cleavage count,
    flagged decoy) unless the
    reversed sequence is itself a target digest sequence (palindromes, length ≤ 3, mirror pairs). -/
theorem pairing_complete (cfg : Cfg Rat) (recs : List (Bytes × Bytes)) (db : List (Pep Rat))
    (h : digestRecs cfg recs = some db) (hgen : cfg.gen = true) :
    ∀ t ∈ db, t.decoy = false → mirrorList t.sequence ∉ specTargets cfg.par cfg.tag recs →
      ∃ d ∈ db, d.decoy = true ∧ keyOf d = keyOf (mirror t) ∧ d.proteins = t.proteins ∧
        d.mc = t.mc := by
  obtain ⟨groups, hg, rfl⟩ := digestRecs_some h
  intro t ht htd hnot
  rw [← targetSet_iff hg] at hnot
  obtain ⟨t', ht', rfl⟩ := mem_reorder.mp ht
  obtain ⟨_, hdec, _⟩ := mem_mergeFuel _ _ (Nat.le_refl _) t' ht'
  have seqOf : ∀ {a b : Pep Rat}, keyOf a = keyOf b → a.sequence = b.sequence :=
    fun h => congrArg (fun k => k.2.1) h
  -- a non-decoy source
  have hsrc : ∃ s ∈ buildForms cfg groups, keyOf s = keyOf t' ∧ s.decoy = false := by
    by_contra hcon
    have : t'.decoy = true := hdec.mpr (fun s hs hk => by
      cases hb : s.decoy with
      | true => rfl
      | false => exact absurd ⟨s, hs, hk, hb⟩ hcon)
    rw [show (finishProteins t').decoy = t'.decoy from rfl, this] at htd; cases htd
  obtain ⟨s, hs, hks, hsd⟩ := hsrc
  rcases gen_forms hg hgen hs with ⟨_, hsT, hm⟩ | ⟨hc, _⟩
  swap
  · rw [hsd] at hc; cases hc
  have hmT : (mirror s).sequence ∉ targetSet groups := by
    rw [mirror_sequence, seqOf hks]; exact hnot
  have hmf := hm hmT
  obtain ⟨d', hd', hkd⟩ := mergeFuel_complete _ _ (Nat.le_refl _) (mirror s) hmf
  have hkd' : keyOf d' = mirrorKey (keyOf t') := by rw [hkd, keyOf_mirror, hks]
  have hdT : d'.sequence ∉ targetSet groups := by rw [seqOf hkd]; exact hmT
  obtain ⟨_, hddec, _⟩ := mem_mergeFuel _ _ (Nat.le_refl _) d' hd'
  refine ⟨finishProteins d', mem_reorder.mpr ⟨d', hd', rfl⟩, ?_, hkd', ?_,
    show d'.mc = t'.mc from pair_mc hg hgen ht' hd' hkd' (by rw [← seqOf hks]; exact hsT) hdT⟩
  · show d'.decoy = true
    refine hddec.mpr (fun s2 hs2 hk2 => ?_)
    rcases gen_forms hg hgen hs2 with ⟨_, hT, _⟩ | ⟨hd2, _⟩
    · exact absurd (by rw [← seqOf hk2]; exact hT) hdT
    · exact hd2
  · show sortDedup d'.proteins = sortDedup t'.proteins
    rw [pair_proteins_list hg hgen ht' hd' hkd' (by rw [← seqOf hks]; exact hsT) hdT]




/-- non-vacuity of `no_decoy_is_target`, `decoy_reverses_unique_target`, `pairing_complete`: the shared
    peptide `AGSMK` (P1, P2) and its oxidised form have their decoys `AMSGK` / `AM[+16]SGK` (the
    modification travels with the `M`, the protein list is the target's); the palindrome `AGSGK` and the
    two-residue `AK` have none, because their reversal is a target sequence. -/
example :
    (digestRecs cfgGen recsGen).map (·.map (·.decoy)) = some [true, false, true, false, false, false] ∧
    (digestRecs cfgGen recsGen).map (·.map (·.sequence)) = some
      [[65, 77, 83, 71, 75], [65, 71, 83, 77, 75], [65, 77, 83, 71, 75], [65, 71, 83, 77, 75], [65, 75],
       [65, 71, 83, 71, 75]] ∧
    (digestRecs cfgGen recsGen).map (·.map fun e => e.mods.map (·.num)) = some
      [[0, 0, 0, 0, 0], [0, 0, 0, 0, 0], [0, 16, 0, 0, 0], [0, 0, 0, 16, 0], [0, 0], [0, 0, 0, 0, 0]] ∧
    (digestRecs cfgGen recsGen).map (·.map (·.proteins)) = some
      [[[80, 49], [80, 50]], [[80, 49], [80, 50]], [[80, 49], [80, 50]], [[80, 49], [80, 50]], [[80, 49]],
       [[80, 49]]] ∧
    (digestRecs cfgGen recsGen).map (·.map (·.mc)) = some [0, 0, 0, 0, 0, 0] ∧
    cfgGen.gen = true ∧
    specTargets cfgGen.par cfgGen.tag recsGen =
      [[65, 71, 83, 77, 75], [65, 71, 83, 71, 75], [65, 75], [65, 71, 83, 77, 75]] := by
  decide +kernel

/-- FASTA decoys: every entry of `target_decoys` before merging is an in-range form; its proteins
    (at least one) carry the tag iff it is flagged decoy -/
theorem fasta_forms {cfg : Cfg Rat} {recs : List (Bytes × Bytes)} {groups : List Group}
    (hg : groupDigests (fastaDigest cfg.par cfg.tag cfg.gen recs) = some groups) (hgen : cfg.gen = false)
    {s : Pep Rat} (hs : s ∈ buildForms cfg groups) :
    s.proteins ≠ [] ∧ (∀ x ∈ s.proteins, C05.containsSub x cfg.tag = s.decoy) ∧
      (s.decoy = false → s.sequence ∈ targetSet groups) := by
  obtain ⟨g1, g2, _, g4⟩ := groupDigests_spec hg
  obtain ⟨g, hgm, f, hf, hem⟩ := mem_buildForms.mp hs
  obtain ⟨hseq, hdec, hprot, _, _⟩ := mem_groupForms hf
  obtain ⟨hor, _⟩ := mem_emit.mp hem
  rcases hor with rfl | ⟨hc, _⟩
  swap
  · rw [hgen] at hc; cases hc
  refine ⟨by rw [hprot]; exact g4 g hgm, ?_, ?_⟩
  · intro x hx
    rw [hprot] at hx
    obtain ⟨d, hd, hsg, rfl⟩ := g2 g hgm x hx
    obtain ⟨r, _, c, _, _, h2, h3, _⟩ := mem_fastaDigest.mp hd
    rw [sameGroup_iff] at hsg
    rw [h2, ← h3, hsg.1, hdec]
  · intro hd
    exact mem_targetSet.mpr ⟨g, hgm, by rw [← hdec]; exact hd, hseq.symm⟩

/-- **C07.fasta_decoys** — when decoys come from the FASTA (`generate_decoys = false`) an entry of the
    database is labelled decoy exactly when all of its source proteins (there is at least one) carry
    the decoy tag. -/
theorem fasta_decoys (cfg : Cfg Rat) (recs : List (Bytes × Bytes)) (db : List (Pep Rat))
    (h : digestRecs cfg recs = some db) (hgen : cfg.gen = false) :
    ∀ e ∈ db, e.proteins ≠ [] ∧
      (e.decoy = true ↔ ∀ x ∈ e.proteins, C05.containsSub x cfg.tag = true) := by
  obtain ⟨groups, hg, rfl⟩ := digestRecs_some h
  intro e he
  obtain ⟨e', he', rfl⟩ := mem_reorder.mp he
  obtain ⟨⟨s0, hs0, hk0, _⟩, hdec, hprot⟩ := mem_mergeFuel _ _ (Nat.le_refl _) e' he'
  have hmem : ∀ x, x ∈ (finishProteins e').proteins ↔ x ∈ e'.proteins := fun x => mem_sortDedup _ x
  refine ⟨?_, ?_⟩
  · obtain ⟨hne, _, _⟩ := fasta_forms hg hgen hs0
    obtain ⟨x, hx⟩ := List.exists_mem_of_ne_nil _ hne
    have : x ∈ (finishProteins e').proteins := (hmem x).mpr ((hprot x).mpr ⟨s0, hs0, hk0.symm, hx⟩)
    exact List.ne_nil_of_mem this
  · show e'.decoy = true ↔ _
    rw [hdec]
    constructor
    · intro hall x hx
      obtain ⟨s, hs, hk, hxs⟩ := (hprot x).mp ((hmem x).mp hx)
      rw [(fasta_forms hg hgen hs).2.1 x hxs]
      exact hall s hs hk
    · intro hall s hs hk
      obtain ⟨hne, htag, _⟩ := fasta_forms hg hgen hs
      obtain ⟨x, hx⟩ := List.exists_mem_of_ne_nil _ hne
      rw [← htag x hx]
      exact hall x ((hmem x).mpr ((hprot x).mpr ⟨s, hs, hk, hx⟩))

/-- **C07.fasta_decoys_as_coded** — … and, because the target-set filter also runs in this mode, the
    decoy entries are exactly the entries whose sequence is not a digest of an untagged record: a
    peptide of a tagged protein that is also a peptide of an untagged protein is in the database as a
    target only (and then lists only the untagged proteins). -/
theorem fasta_decoys_as_coded (cfg : Cfg Rat) (recs : List (Bytes × Bytes)) (db : List (Pep Rat))
    (h : digestRecs cfg recs = some db) (hgen : cfg.gen = false) :
    ∀ e ∈ db, (e.decoy = true ↔ e.sequence ∉ specTargets cfg.par cfg.tag recs) := by
  intro e he
  refine ⟨no_decoy_is_target cfg recs db h e he, ?_⟩
  obtain ⟨groups, hg, rfl⟩ := digestRecs_some h
  obtain ⟨e', he', rfl⟩ := mem_reorder.mp he
  obtain ⟨_, hdec, _⟩ := mem_mergeFuel _ _ (Nat.le_refl _) e' he'
  intro hnot
  show e'.decoy = true
  refine hdec.mpr (fun s hs hk => ?_)
  cases hb : s.decoy with
  | true => rfl
  | false =>
    have hT := (fasta_forms hg hgen hs).2.2 hb
    rw [targetSet_iff hg] at hT
    have hseq : s.sequence = e'.sequence := congrArg (fun k => k.2.1) hk
    rw [hseq] at hT
    exact absurd hT hnot

/-- non-vacuity of `fasta_decoys`, `fasta_decoys_as_coded`: `AMSGK` occurs only in the tagged protein and
    is labelled decoy; `AGK` occurs in both and is in the database as a target of `P1` only. -/
example :
    (digestRecs cfgFasta recsFasta).map (·.map (·.decoy)) = some [false, true, false] ∧
    (digestRecs cfgFasta recsFasta).map (·.map (·.sequence)) = some
      [[65, 71, 83, 77, 75], [65, 77, 83, 71, 75], [65, 71, 75]] ∧
    (digestRecs cfgFasta recsFasta).map (·.map (·.proteins)) = some
      [[[80, 49]], [[114, 101, 118, 95, 80, 49]], [[80, 49]]] ∧
    cfgFasta.gen = false := by
  decide +kernel

/-- **C07.protein_names** — the reported protein names are the stored names, each prefixed with the
    decoy tag exactly when the peptide is a decoy and decoys are generated; in every other case they
    are reported unchanged (this is also the string the driver recomputes from sage's output). -/
theorem protein_names {α : Type} (tag : Bytes) (gen : Bool) (p : Pep α) :
    proteinNames tag gen p = p.proteins.map (fun s => if p.decoy = true ∧ gen = true then tag ++ s else s) ∧
    (¬ (p.decoy = true ∧ gen = true) → proteinNames tag gen p = p.proteins) := by
  unfold proteinNames
  cases p.decoy <;> cases gen <;> simp

theorem proteinsStr_eq_specNames {α : Type} [BEq α] (tag : Bytes) (gen : Bool) (p : Pep α) :
    proteinsStr tag gen p = specNames tag gen p := by
  unfold proteinsStr specNames proteinNames
  cases p.decoy <;> cases gen <;> simp


/-- non-vacuity of `protein_names`: the three cases -/
example :
    proteinNames [114, 101, 118, 95] true (reverse samplePep) = [[114, 101, 118, 95, 80, 49]] ∧
    proteinNames [114, 101, 118, 95] false (reverse samplePep) = [[80, 49]] ∧
    proteinNames [114, 101, 118, 95] true samplePep = [[80, 49]] ∧
    proteinsStr [114, 101, 118, 95] true { reverse samplePep with proteins := [[80, 49], [81]] } =
      [114, 101, 118, 95, 80, 49, 59, 114, 101, 118, 95, 81] := by
  decide



/-! ## `model_meets_spec` -/

/-- records with the tag removed -/
def untagged (tag : Bytes) (recs : List (Bytes × Bytes)) : List (Bytes × Bytes) :=
  recs.filter fun r => !C05.containsSub r.1 tag

theorem flush_rel (tag : Bytes) (st1 st2 : C05.FState)
    (h1 : st1.targets = untagged tag st2.targets) (h2 : st1.lastId = st2.lastId) (h3 : st1.s = st2.s) :
    C05.flush tag true st1 = (C05.flush tag false st2).map (untagged tag) := by
  unfold C05.flush
  rw [h2, h3]
  by_cases he : st2.s.isEmpty = true
  · simp [he, h1]
  · simp only [he]
    cases C05.firstToken st2.lastId with
    | none => simp
    | some acc =>
      cases hc : C05.containsSub acc tag <;> simp [C05.keep, hc, h1, untagged, List.filter_append]

theorem step_rel (tag : Bytes) (l : C05.Seq) (st1 st2 : C05.FState)
    (h1 : st1.targets = untagged tag st2.targets) (h2 : st1.lastId = st2.lastId) (h3 : st1.s = st2.s) :
    (C05.step tag true st1 l = none ∧ C05.step tag false st2 l = none) ∨
    ∃ a b, C05.step tag true st1 l = some a ∧ C05.step tag false st2 l = some b ∧
      a.targets = untagged tag b.targets ∧ a.lastId = b.lastId ∧ a.s = b.s := by
  unfold C05.step
  by_cases hl : l.isEmpty = true
  · simp only [hl, if_true]; exact Or.inr ⟨st1, st2, rfl, rfl, h1, h2, h3⟩
  · have hl' : l.isEmpty = false := by simpa using hl
    simp only [hl', Bool.false_eq_true, if_false]
    generalize C05.trim l = tl
    split
    · rw [flush_rel tag st1 st2 h1 h2 h3]
      cases hf : C05.flush tag false st2 with
      | none => left; simp
      | some t => right; exact ⟨_, _, rfl, rfl, rfl, rfl, rfl⟩
    · right; exact ⟨_, _, rfl, rfl, h1, h2, by simp [h3]⟩

theorem parseLines_rel (tag : Bytes) (ls : List C05.Seq) (st1 st2 : C05.FState)
    (h1 : st1.targets = untagged tag st2.targets) (h2 : st1.lastId = st2.lastId) (h3 : st1.s = st2.s) :
    C05.parseLines tag true ls st1 = (C05.parseLines tag false ls st2).map (untagged tag) := by
  induction ls generalizing st1 st2 with
  | nil => exact flush_rel tag st1 st2 h1 h2 h3
  | cons l ls ih =>
    unfold C05.parseLines
    rcases step_rel tag l st1 st2 h1 h2 h3 with ⟨ha, hb⟩ | ⟨a, b, ha, hb, r1, r2, r3⟩
    · rw [ha, hb]; rfl
    · rw [ha, hb]; exact ih a b r1 r2 r3

/-- `Fasta::parse` with `generate_decoys = true` delivers the records it delivers with `false`, minus the
    tagged ones -/
theorem parse_gen (tag text : Bytes) :
    C05.parse tag true text = (C05.parse tag false text).map (untagged tag) := by
  unfold C05.parse
  exact parseLines_rel tag _ _ _ rfl rfl rfl

theorem specTargets_untagged (par : C05.Params) (tag : Bytes) (recs : List (Bytes × Bytes)) :
    specTargets par tag (untagged tag recs) = specTargets par tag recs := by
  unfold specTargets untagged
  rw [List.filter_filter]
  congr 1
  apply List.filter_congr
  intro r _; simp


/-- the mass the formula of C06 assigns to a form -/
def massOf (cfg : Cfg Rat) (seq : List Nat) (mods : List Rat) (nt ct : Option Rat) : Rat :=
  cfg.h2o + (seq.map (C06.monoisotopic cfg.table)).sum + mods.sum + nt.getD 0 + ct.getD 0

theorem groupForms_mass {cfg : Cfg Rat} {g : Group} {f : Pep Rat} (h : f ∈ groupForms cfg g) :
    f.mono = massOf cfg f.sequence f.mods f.nterm f.cterm := by
  unfold groupForms at h
  simp only [List.mem_map] at h
  obtain ⟨c, hc, rfl⟩ := h
  obtain ⟨p, hp, hap, _, _⟩ := (C06.range_filter _ _ _ _ _ _ _ _ _ c).mp hc
  obtain ⟨hs, _, _, hm⟩ := C06.mass_formula _ _ _ _ _ _ _ p hp c hap
  show c.mono = massOf cfg c.sequence c.mods c.nterm c.cterm
  rw [hm, hs]; rfl

/-- generated decoys: a non-decoy entry has a target form as a source -/
theorem target_entry_source {cfg : Cfg Rat} {recs : List (Bytes × Bytes)} {groups : List Group}
    (hg : groupDigests (fastaDigest cfg.par cfg.tag cfg.gen recs) = some groups) (hgen : cfg.gen = true)
    {t' : Pep Rat} (ht : t' ∈ mergeFuel (buildForms cfg groups).length (buildForms cfg groups))
    (htd : t'.decoy = false) :
    ∃ g ∈ groups, ∃ f ∈ groupForms cfg g, keyOf f = keyOf t' ∧ f.sequence ∈ targetSet groups := by
  obtain ⟨_, hdec, _⟩ := mem_mergeFuel _ _ (Nat.le_refl _) t' ht
  have hsrc : ∃ s ∈ buildForms cfg groups, keyOf s = keyOf t' ∧ s.decoy = false := by
    by_contra hcon
    have : t'.decoy = true := hdec.mpr (fun s hs hk => by
      cases hb : s.decoy with
      | true => rfl
      | false => exact absurd ⟨s, hs, hk, hb⟩ hcon)
    rw [this] at htd; cases htd
  obtain ⟨s, hs, hks, hsd⟩ := hsrc
  obtain ⟨g, hgm, f, hf, hem⟩ := mem_buildForms.mp hs
  obtain ⟨hseq, hdecf, _, _, hwf⟩ := mem_groupForms hf
  have hfd : f.decoy = false := by rw [hdecf]; exact gen_groups hg hgen g hgm
  rcases (mem_emit.mp hem).1 with rfl | ⟨_, rfl⟩
  · exact ⟨g, hgm, s, hf, hks, mem_targetSet.mpr ⟨g, hgm, gen_groups hg hgen g hgm, hseq.symm⟩⟩
  · rw [(reverse_preserves f hwf).2.2.2.2.2.2.2.1, hfd] at hsd; cases hsd

theorem filter_length_one {β κ : Type} {K : β → κ} {P : β → Bool} {l : List β}
    (hpw : l.Pairwise (fun a b => K a ≠ K b)) {t : β} (ht : t ∈ l) (hPt : P t = true)
    (huniq : ∀ x ∈ l, P x = true → K x = K t) : (l.filter P).length = 1 := by
  induction l with
  | nil => simp at ht
  | cons a l ih =>
    obtain ⟨h1, h2⟩ := List.pairwise_cons.mp hpw
    rcases List.mem_cons.mp ht with rfl | ht'
    · have : l.filter P = [] := by
        rw [List.filter_eq_nil_iff]
        intro x hx hpx
        exact h1 x hx (huniq x (List.mem_cons_of_mem _ hx) hpx).symm
      simp [hPt, this]
    · have hPa : P a = false := by
        cases hb : P a with
        | false => rfl
        | true => exact absurd (huniq a (by simp) hb) (h1 t ht')
      rw [List.filter_cons, hPa]
      simp only [Bool.false_eq_true, if_false]
      exact ih h2 ht' (fun x hx => huniq x (List.mem_cons_of_mem _ hx))

theorem sameForm_iff (a b : Pep Rat) :
    sameForm a b = true ↔ a.sequence = b.sequence ∧ a.mods = b.mods ∧ a.nterm = b.nterm ∧ a.cterm = b.cterm := by
  simp [sameForm, and_assoc]

theorem keyOf_eq_iff (a b : Pep Rat) :
    keyOf a = keyOf b ↔ a.mono = b.mono ∧ a.sequence = b.sequence ∧ a.mods = b.mods ∧ a.nterm = b.nterm ∧
      a.cterm = b.cterm := by
  simp [keyOf]

theorem contains_iff {T : List (List Nat)} {x : List Nat} : T.contains x = true ↔ x ∈ T := by simp

theorem pairOk_of {d t : Pep Rat} (hd : d.decoy = true) (ht : t.decoy = false)
    (hk : keyOf t = keyOf (mirror d)) (hk' : keyOf d = keyOf (mirror t))
    (hp : d.proteins = t.proteins) (hm : d.mc = t.mc) : pairOk d t = true := by
  rw [keyOf_eq_iff] at hk hk'
  have h1 : sameForm (mirror t) d = true := (sameForm_iff _ _).mpr ⟨hk'.2.1.symm, hk'.2.2.1.symm, hk'.2.2.2.1.symm, hk'.2.2.2.2.symm⟩
  have h2 : sameForm (mirror d) t = true := (sameForm_iff _ _).mpr ⟨hk.2.1.symm, hk.2.2.1.symm, hk.2.2.2.1.symm, hk.2.2.2.2.symm⟩
  have h3 : d.mono = t.mono := hk'.1
  simp [pairOk, hd, ht, h1, h2, h3, hp, hm]

/-- generated decoys: the four clauses hold of the model's database -/
theorem gen_clauses (cfg : Cfg Rat) (recs : List (Bytes × Bytes)) (db : List (Pep Rat))
    (h : digestRecs cfg recs = some db) (hgen : cfg.gen = true) :
    clNoCollision (specTargets cfg.par cfg.tag recs) db = true ∧
    clTargetsKnown (specTargets cfg.par cfg.tag recs) db = true ∧
    clDecoyPaired db = true ∧
    clTargetPaired (specTargets cfg.par cfg.tag recs) db = true := by
  have hA := no_decoy_is_target cfg recs db h
  have hC := decoy_reverses_unique_target cfg recs db h hgen
  have hD := pairing_complete cfg recs db h hgen
  obtain ⟨groups, hg, hdb⟩ := digestRecs_some h
  refine ⟨?_, ?_, ?_, ?_⟩
  · unfold clNoCollision
    rw [List.all_eq_true]
    intro e he
    cases hd : e.decoy with
    | false => simp
    | true => simpa using hA e he hd
  · unfold clTargetsKnown
    rw [List.all_eq_true]
    intro e he
    cases hd : e.decoy with
    | true => simp
    | false =>
      subst hdb
      obtain ⟨e', he', rfl⟩ := mem_reorder.mp he
      obtain ⟨g, _, f, _, hk, hT⟩ := target_entry_source hg hgen he' hd
      have : (finishProteins e').sequence = f.sequence := ((keyOf_eq_iff _ _).mp hk).2.1.symm
      rw [targetSet_iff hg] at hT
      simpa [this] using hT
  · unfold clDecoyPaired
    rw [List.all_eq_true]
    intro d hd
    cases hdd : d.decoy with
    | false => simp
    | true =>
      obtain ⟨t, ht, htd, hk, hk', hp, hm, huniq⟩ := hC d hd hdd
      have hpair := pairOk_of hdd htd hk hk' hp hm
      have hform : sameForm (mirror d) t = true := by
        rw [keyOf_eq_iff] at hk
        exact (sameForm_iff _ _).mpr ⟨hk.2.1.symm, hk.2.2.1.symm, hk.2.2.2.1.symm, hk.2.2.2.2.symm⟩
      have hcount : (db.filter fun t => !t.decoy && sameForm (mirror d) t).length = 1 := by
        subst hdb
        have hpw : (reorder (buildForms cfg groups)).Pairwise (fun a b => keyOf a ≠ keyOf b) := by
          unfold reorder mergeAll
          rw [List.pairwise_map]
          exact mergeFuel_pairwise _ _ (Nat.le_refl _)
        refine filter_length_one (K := keyOf) hpw ht (by simp [htd, hform]) ?_
        intro x hx hPx
        simp only [Bool.and_eq_true, Bool.not_eq_true'] at hPx
        obtain ⟨x', hx', rfl⟩ := mem_reorder.mp hx
        obtain ⟨t', ht', rfl⟩ := mem_reorder.mp ht
        obtain ⟨g1, hg1, f1, hf1, hk1, _⟩ := target_entry_source hg hgen hx' hPx.1
        obtain ⟨g2, hg2, f2, hf2, hk2, _⟩ := target_entry_source hg hgen ht' htd
        have e1 := (sameForm_iff _ _).mp hPx.2
        have e2 := (sameForm_iff _ _).mp hform
        have m1 := groupForms_mass hf1
        have m2 := groupForms_mass hf2
        rw [keyOf_eq_iff] at hk1 hk2
        show keyOf x' = keyOf t'
        rw [keyOf_eq_iff]
        have hs : x'.sequence = t'.sequence := e1.1.symm.trans e2.1
        have hmo : x'.mods = t'.mods := e1.2.1.symm.trans e2.2.1
        have hn : x'.nterm = t'.nterm := e1.2.2.1.symm.trans e2.2.2.1
        have hc : x'.cterm = t'.cterm := e1.2.2.2.symm.trans e2.2.2.2
        refine ⟨?_, hs, hmo, hn, hc⟩
        rw [← hk1.1, ← hk2.1, m1, m2, hk1.2.1, hk1.2.2.1, hk1.2.2.2.1, hk1.2.2.2.2,
          hk2.2.1, hk2.2.2.1, hk2.2.2.2.1, hk2.2.2.2.2, hs, hmo, hn, hc]
      simp only [Bool.not_true, Bool.false_or, Bool.and_eq_true, beq_iff_eq, List.any_eq_true]
      exact ⟨hcount, t, ht, hpair⟩
  · unfold clTargetPaired
    rw [List.all_eq_true]
    intro t ht
    cases htd : t.decoy with
    | true => simp
    | false =>
      by_cases hin : mirrorList t.sequence ∈ specTargets cfg.par cfg.tag recs
      · simp [hin]
      · obtain ⟨d, hd, hdd, hk', hp, hm⟩ := hD t ht htd hin
        have hk : keyOf t = keyOf (mirror d) := by
          rw [keyOf_mirror, hk', keyOf_mirror, mirrorKey_mirrorKey]
        have := pairOk_of hdd htd hk hk' hp hm
        simp only [Bool.false_or, Bool.or_eq_true, List.any_eq_true]
        exact Or.inr ⟨d, hd, this⟩

/-- FASTA decoys: the two clauses hold of the model's database -/
theorem fasta_clauses (cfg : Cfg Rat) (recs : List (Bytes × Bytes)) (db : List (Pep Rat))
    (h : digestRecs cfg recs = some db) (hgen : cfg.gen = false) :
    clFastaLabel cfg.tag db = true ∧ clFastaTargets cfg.tag (specTargets cfg.par cfg.tag recs) db = true := by
  have hE := fasta_decoys cfg recs db h hgen
  have hF := fasta_decoys_as_coded cfg recs db h hgen
  refine ⟨?_, ?_⟩
  · unfold clFastaLabel
    rw [List.all_eq_true]
    intro e he
    obtain ⟨hne, hiff⟩ := hE e he
    have h1 : e.proteins.isEmpty = false := by
      cases hp : e.proteins with
      | nil => exact absurd hp hne
      | cons _ _ => rfl
    have h2 : e.decoy = e.proteins.all fun a => C05.containsSub a cfg.tag := by
      cases hd : e.decoy with
      | true => exact (List.all_eq_true.mpr (hiff.mp hd)).symm
      | false =>
        cases ha : (e.proteins.all fun a => C05.containsSub a cfg.tag) with
        | false => rfl
        | true => rw [hiff.mpr (List.all_eq_true.mp ha)] at hd; cases hd
    simp [h1, ← h2]
  · unfold clFastaTargets
    rw [List.all_eq_true]
    intro e he
    have hiff := hF e he
    have h1 : e.decoy = !(specTargets cfg.par cfg.tag recs).contains e.sequence := by
      cases hd : e.decoy with
      | true => simpa using hiff.mp hd
      | false =>
        by_cases hin : e.sequence ∈ specTargets cfg.par cfg.tag recs
        · simp [hin]
        · rw [hiff.mpr hin] at hd; cases hd
    have h2 : e.decoy = false → (e.proteins.all fun a => !C05.containsSub a cfg.tag) = true := by
      intro hd
      have hin : e.sequence ∈ specTargets cfg.par cfg.tag recs := by
        by_contra hn; rw [hiff.mpr hn] at hd; cases hd
      obtain ⟨groups, hg, rfl⟩ := digestRecs_some h
      obtain ⟨e', he', rfl⟩ := mem_reorder.mp he
      obtain ⟨_, _, hprot⟩ := mem_mergeFuel _ _ (Nat.le_refl _) e' he'
      rw [List.all_eq_true]
      intro x hx
      have hx' : x ∈ e'.proteins := (mem_sortDedup _ x).mp hx
      obtain ⟨s, hs, hk, hxs⟩ := (hprot x).mp hx'
      obtain ⟨_, htag, _⟩ := fasta_forms hg hgen hs
      obtain ⟨g, _, f, _, hem⟩ := mem_buildForms.mp hs
      have hsd : s.decoy = false := by
        cases hb : s.decoy with
        | false => rfl
        | true =>
          have hnot := (mem_emit.mp hem).2 hb
          rw [targetSet_iff hg] at hnot
          have : s.sequence = e'.sequence := ((keyOf_eq_iff _ _).mp hk).2.1
          rw [this] at hnot
          exact absurd hin hnot
      rw [htag x hxs, hsd]; rfl
    have g1 : (e.decoy == !(specTargets cfg.par cfg.tag recs).contains e.sequence) = true := by
      rw [← h1]; simp
    have g2 : (e.decoy || e.proteins.all fun a => !C05.containsSub a cfg.tag) = true := by
      cases hd : e.decoy with
      | true => rfl
      | false => simpa using h2 hd
    rw [Bool.and_eq_true]; exact ⟨g1, g2⟩

theorem names_clause (tag : Bytes) (gen : Bool) (db : List (Pep Rat)) :
    ((db.zip (db.map (proteinsStr tag gen))).any fun er => specNames tag gen er.1 != er.2) = false := by
  induction db with
  | nil => rfl
  | cons e db ih =>
    simp only [List.map_cons, List.zip_cons_cons, List.any_cons, ih, Bool.or_false]
    rw [proteinsStr_eq_specNames]; simp

/-- **C07.model_meets_spec** — the model's database passes every clause the driver evaluates on the
    implementation's database: for every FASTA text and configuration for which the database is built,
    `specVerdict` on (the records of the text, the model's entries, the model's reported protein
    strings) is `"ok"`. A `bad:*` verdict of the driver is therefore about the implementation's output,
    never about the specification being unsatisfiable by the modelled algorithm. -/
theorem model_meets_spec (cfg : Cfg Rat) (text : Bytes) (db : List (Pep Rat)) (recsAll : List (Bytes × Bytes))
    (hb : buildDb cfg text = some db) (hp : C05.parse cfg.tag false text = some recsAll) :
    specVerdict cfg.par cfg.tag cfg.gen recsAll db (db.map (proteinsStr cfg.tag cfg.gen)) = "ok" := by
  obtain ⟨recs, hrecs, hdb⟩ := buildDb_some hb
  have hn := names_clause cfg.tag cfg.gen db
  unfold specVerdict
  cases hgen : cfg.gen with
  | true =>
    rw [hgen] at hrecs hn
    rw [parse_gen, hp] at hrecs
    simp only [Option.map_some, Option.some.injEq] at hrecs
    obtain ⟨c1, c2, c3, c4⟩ := gen_clauses cfg recs db hdb hgen
    subst hrecs
    rw [specTargets_untagged] at c1 c2 c4
    simp [hn, c1, c2, c3, c4]
  | false =>
    rw [hgen] at hrecs hn
    rw [hp] at hrecs
    simp only [Option.some.injEq] at hrecs
    obtain ⟨c1, c2⟩ := fasta_clauses cfg recs db hdb hgen
    subst hrecs
    simp [hn, c1, c2]


/-- `>P1 AGSMK·AGSGK·AK`, `>rev_P9 KAGSK` (tagged), `>P2 AGSMK` as FASTA text -/
def textGen : Bytes := [62, 80, 49, 10, 65, 71, 83, 77, 75, 65, 71, 83, 71, 75, 65, 75, 10, 62, 114, 101, 118, 95, 80, 57, 10, 75, 65, 71, 83, 75, 10, 62, 80, 50, 10, 65, 71, 83, 77, 75, 10]

/-- non-vacuity of `model_meets_spec` (both hypotheses hold, in both modes, for a text with a tagged
    record; with generated decoys the tagged record is ignored, otherwise it supplies decoys) -/
example :
    (buildDb cfgGen textGen).map (·.length) = some 6 ∧ (buildDb cfgFasta textGen).map (·.length) = some 5 ∧
    (C05.parse cfgGen.tag false textGen).map (·.length) = some 3 := by
  decide +kernel

/-- **C07.reverse_names** — (`rev7` level) for a target `p` the reported protein string of its decoy
    `reverse p` is the target's names, each prefixed with the tag, joined by `;` in the same order when
    decoys are generated, and the target's own string otherwise; the target's string is its names
    joined by `;`. -/
theorem reverse_names {α : Type} (tag : Bytes) (gen : Bool) (p : Pep α) (hwf : WF p) (hp : p.decoy = false) :
    proteinsStr tag true (reverse p) = joinSemi (p.proteins.map (tag ++ ·)) ∧
    proteinsStr tag false (reverse p) = joinSemi p.proteins ∧
    proteinsStr tag gen p = joinSemi p.proteins := by
  obtain ⟨_, _, _, hpr, _, _, _, hd, _⟩ := reverse_preserves p hwf
  unfold proteinsStr proteinNames
  rw [hd, hpr, hp]
  simp

/-- **C07.decoy_names** — in the database with generated decoys the reported protein string of a decoy
    entry is the names of its target entry, each prefixed with the tag, joined by `;` in the same order;
    the target's string is its names unchanged. -/
theorem decoy_names (cfg : Cfg Rat) (recs : List (Bytes × Bytes)) (db : List (Pep Rat))
    (h : digestRecs cfg recs = some db) (hgen : cfg.gen = true) :
    ∀ d ∈ db, d.decoy = true →
      ∃ t ∈ db, t.decoy = false ∧ keyOf t = keyOf (mirror d) ∧
        proteinsStr cfg.tag cfg.gen d = joinSemi (t.proteins.map (cfg.tag ++ ·)) ∧
        proteinsStr cfg.tag cfg.gen t = joinSemi t.proteins := by
  intro d hd hdd
  obtain ⟨t, ht, htd, hk, _, hp, _, _⟩ := decoy_reverses_unique_target cfg recs db h hgen d hd hdd
  refine ⟨t, ht, htd, hk, ?_, ?_⟩
  · unfold proteinsStr proteinNames
    rw [hdd, hgen, hp]; simp
  · unfold proteinsStr proteinNames
    rw [htd]; simp

/-- non-vacuity of `reverse_names` / `decoy_names`: two proteins, order kept -/
example :
    proteinsStr [114, 101, 118, 95] true (reverse { samplePep with proteins := [[80, 49], [81]] }) =
      [114, 101, 118, 95, 80, 49, 59, 114, 101, 118, 95, 81] ∧
    proteinsStr [114, 101, 118, 95] true { samplePep with proteins := [[80, 49], [81]] } = [80, 49, 59, 81] := by
  decide

/-! ## no digest at all: the empty database (guard in `group_digests`) -/

/-- **C07.groupDigests_nil** — an empty digest list gives no groups (it used to index `digests[0]` and panic). -/
theorem groupDigests_nil : groupDigests [] = some [] := by
  simp [groupDigests, isort]

/-- **C07.digestRecs_no_digest** — records none of which yields a peptide build the EMPTY database. -/
theorem digestRecs_no_digest {α : Type} [Add α] [OfNat α 0] [BEq α] [LE α] [DecidableLE α] (cfg : Cfg α)
    (recs : List (Bytes × Bytes)) (h : fastaDigest cfg.par cfg.tag cfg.gen recs = []) : digestRecs cfg recs = some [] := by
  unfold digestRecs
  rw [h, groupDigests_nil]
  simp [buildForms, reorder, mergeAll, mergeFuel]

/-- non-vacuity: no record at all -/
example : fastaDigest (⟨0, 5, 50, none⟩ : C05.Params) [114] true [] = [] := rfl

end Sage.C07
